(* C11 for MORE THAN ONE project: open finding K6 and the theorem it delimits.

   klunok names the unstable tree and the snapshot directories of a project by
   the LAST COMPONENT of the project root only:
       handler.c:  project_name = strrchr(get_path(head), '/') + 1
                   unstable_root/<project_name>, project_store_root/<project_name>/<version>
       Handler.v:  pname := basename path          (handle_timeout_loop)
       SnapshotProofs.unstable_of / snap_dir use [basename path].
   Two project roots that end in the same component (/w/x/proj and /w/y/proj, or
   the children x/proj, y/proj of two "project parents") therefore SHARE these
   directories, and the snapshot walk of one project (sync_shallow_tree with
   filter root P) unlinks from the shared tree every link whose path does not
   exist below P: the links of the OTHER project.  The next snapshot of that
   other project then lacks files that were versioned and still exist (C11 is
   violated); with distinct last components the projects are independent.

   1. names     same_name_iff_shared, snap_dir_shared_iff, trees_disjoint_or_equal,
                twin_roots_share: the last component is the only thing that matters
   2. negative  snapshot_post_prunes (the [snap] characterisation read the other
                way), snapshot_prunes_foreign_members (one turn of the timeout loop
                on the head of P empties the entry of P' in the shared tree, and it
                is not in the snapshot either)
   3. positive  distinct_names_independent: basename P <> basename P' (and the three
                configured roots do not nest) => the turn on the head of P leaves
                everything at or below the unstable tree of P' and at or below
                project_store_root/basename P' (all its snapshots) untouched
   4. Module TwinProjects: the finding K6 by vm_compute on a concrete history
                (twin_projects_prune, twin_projects_snapshot_lacks_member, the
                same with project PARENTS), and concrete worlds that satisfy the
                hypotheses of the theorems of 2 and 3 (for every benign oracle).

   Scope: benign oracles and a due project head as in SnapshotProofs
   (project_head_due); everything is derived from the post-condition of
   SnapshotProofs.project_head_snapshot -- no new reasoning about
   sync_shallow_tree. *)
From K Require Import Str Dec Trace Fs World Progs Sieve Handler Linq LinqSpec LinqProofs
     SyncProofs AbandonProofs QueueProofs Confine Confine2 StoreFs JournalHistoryProofs.
From K Require Import SnapshotProofs.
From K Require CrashCopy MemberProofs.
From Coq Require Import Lia.

(* ====================================================================== *)
(* 1. names: only the last component of the project root matters           *)
(* ====================================================================== *)

(* where all snapshots of the project live: project_store_root/<last component> *)
Definition snap_home (h : handler) (P : str) : str :=
  c_project_store_root (h_cfg h) ++ ch_slash :: basename P.

(* at d or below it *)
Definition within (d x : str) : Prop := x = d \/ under d x.

Lemma within_sfx d x : within d x -> exists s, sfx s /\ x = d ++ s.
Proof.
  intros [->|[r ->]].
  - exists []. split; [left; reflexivity | rewrite app_nil_r; reflexivity].
  - exists (ch_slash :: r). split; [right; eexists; reflexivity | reflexivity].
Qed.

Lemma basename_nosl p : nosl (basename p) = true.
Proof. exact (CrashCopy.basename_ns p). Qed.

Lemma iter_increment_base sp i :
  sp_base (Nat.iter i increment sp) = sp_base sp /\ sp_ext (Nat.iter i increment sp) = sp_ext sp.
Proof.
  induction i as [|i IH]; [split; reflexivity|].
  cbn [Nat.iter nat_rect]. unfold increment at 1 3. cbn [sp_base sp_ext]. exact IH.
Qed.

(* the k-th candidate for a snapshot directory is root/name/<something> *)
Lemma Dsp_shape root name ver k :
  exists s, Dsp (create_store_path root name ver) k = root ++ ch_slash :: name ++ ch_slash :: s.
Proof.
  unfold Dsp, current_path.
  destruct (iter_increment_base (create_store_path root name ver) k) as [Eb Ee].
  rewrite Eb, Ee. unfold create_store_path. cbn [sp_base sp_ext].
  destruct (sp_dups _ =? 0)%N.
  - exists (ver ++ get_file_extension name). rewrite <- app_assoc. cbn [app].
    rewrite <- app_assoc. reflexivity.
  - eexists. rewrite <- app_assoc. cbn [app]. rewrite <- app_assoc. cbn [app]. reflexivity.
Qed.

Lemma snap_dir_shape h P c k :
  exists s, snap_dir h P c k = c_project_store_root (h_cfg h) ++ ch_slash :: basename P ++ ch_slash :: s.
Proof. unfold snap_dir. apply Dsp_shape. Qed.

Lemma snap_dir_under_home h P c k : under (snap_home h P) (snap_dir h P c k).
Proof.
  destruct (snap_dir_shape h P c k) as [s E]. exists s. rewrite E. unfold snap_home.
  rewrite <- app_assoc. reflexivity.
Qed.

(* two slash-free names followed by path suffixes *)
Lemma name_inj R b b' t t' :
  nosl b = true -> nosl b' = true -> sfx t -> sfx t' ->
  R ++ ch_slash :: b ++ t = R ++ ch_slash :: b' ++ t' -> b = b'.
Proof.
  intros Hb Hb' Ht Ht' E. apply app_inv_head in E. injection E as E.
  exact (nosl_sfx_inj b b' t t' Hb Hb' Ht Ht' E).
Qed.

Lemma sfx_cons r : sfx (ch_slash :: r).
Proof. right. eexists. reflexivity. Qed.

(* (3) the unstable trees of two projects coincide exactly when the LAST
   COMPONENTS of their roots do -- whatever the rest of the two roots is *)
Theorem same_name_iff_shared h P P' :
  unstable_of h P = unstable_of h P' <-> basename P = basename P'.
Proof.
  unfold unstable_of. split.
  - intros E. apply app_inv_head in E. injection E as E. exact E.
  - intros ->. reflexivity.
Qed.

(* the same for the snapshot directories: equal names give the same candidate
   directories at every time, and ANY common snapshot directory (even at
   different times / collision counts) forces equal names *)
Theorem snap_dir_shared_iff h P P' :
  (exists c k c' k', snap_dir h P c k = snap_dir h P' c' k') <-> basename P = basename P'.
Proof.
  split.
  - intros (c & k & c' & k' & E).
    destruct (snap_dir_shape h P c k) as [s Es]. destruct (snap_dir_shape h P' c' k') as [s' Es'].
    rewrite Es, Es' in E.
    exact (name_inj _ _ _ _ _ (basename_nosl P) (basename_nosl P') (sfx_cons s) (sfx_cons s') E).
  - intros E. exists 0%Z, 0, 0%Z, 0. unfold snap_dir. rewrite E. reflexivity.
Qed.

Lemma snap_dir_same_name h P P' c k : basename P = basename P' -> snap_dir h P c k = snap_dir h P' c k.
Proof. intros E. unfold snap_dir. rewrite E. reflexivity. Qed.

(* the unstable trees (and the snapshot homes) of two projects are equal or
   disjoint: nothing in between *)
Theorem trees_disjoint_or_equal h P P' x :
  (within (unstable_of h P) x /\ within (unstable_of h P') x) \/
  (within (snap_home h P) x /\ within (snap_home h P') x) ->
  basename P = basename P'.
Proof.
  intros [[A B]|[A B]];
    apply within_sfx in A; apply within_sfx in B;
    destruct A as (s & Hs & E); destruct B as (s' & Hs' & E');
    unfold unstable_of, snap_home in E, E'; rewrite <- app_assoc in E, E'; cbn [app] in E, E';
    rewrite E in E';
    exact (name_inj _ _ _ _ _ (basename_nosl P) (basename_nosl P') Hs Hs' E').
Qed.

(* the instance of the finding: X/name and Y/name -- two listed roots, or the
   children of two project parents X and Y -- share everything *)
Theorem twin_roots_share h X Y name :
  nosl name = true ->
  unstable_of h (X ++ ch_slash :: name) = unstable_of h (Y ++ ch_slash :: name) /\
  snap_home h (X ++ ch_slash :: name) = snap_home h (Y ++ ch_slash :: name) /\
  forall c k, snap_dir h (X ++ ch_slash :: name) c k = snap_dir h (Y ++ ch_slash :: name) c k.
Proof.
  intros Hn.
  assert (E : basename (X ++ ch_slash :: name) = basename (Y ++ ch_slash :: name)).
  { rewrite !MemberProofs.basename_app_nosl by exact Hn. reflexivity. }
  split; [apply same_name_iff_shared; exact E|].
  split; [unfold snap_home; rewrite E; reflexivity|].
  intros c k. apply snap_dir_same_name. exact E.
Qed.

Print Assumptions same_name_iff_shared.
Print Assumptions snap_dir_shared_iff.
Print Assumptions trees_disjoint_or_equal.
Print Assumptions twin_roots_share.

(* ====================================================================== *)
(* 2. the negative result: the walk for P prunes what is not below P        *)
(* ====================================================================== *)

(* SnapshotProofs' closed form read the other way: an entry r of the unstable
   tree U whose path does not exist below the project P is gone from U after
   the snapshot, and it is not in the snapshot D *)
Lemma snapshot_post_prunes f f' U D P r :
  snapshot_post f f' U D P ->
  lookup f (P ++ ch_slash :: r) = None ->
  lookup f' (U ++ ch_slash :: r) = None /\ lookup f' (D ++ ch_slash :: r) = None.
Proof.
  intros (_ & _ & _ & _ & _ & SD & SU & _) Hno.
  rewrite SD, SU. unfold snap, fs_exists. rewrite Hno. split; reflexivity.
Qed.

(* and what exists below P keeps its link and gets it into the snapshot *)
Lemma snapshot_post_keeps f f' U D P r n :
  snapshot_post f f' U D P ->
  lookup f (P ++ ch_slash :: r) <> None -> lookup f (U ++ ch_slash :: r) = Some n ->
  lookup f' (U ++ ch_slash :: r) = Some n /\ lookup f' (D ++ ch_slash :: r) = Some n.
Proof.
  intros (_ & _ & _ & _ & _ & SD & SU & _) Hex HU.
  rewrite SD, SU. unfold snap, fs_exists.
  destruct (lookup f (P ++ ch_slash :: r)); [|contradiction]. split; exact HU.
Qed.

(* what one turn of the timeout loop on the due head of P leaves, path by path
   (the queue link apart): the file system of the snapshot post-condition *)
Lemma project_head_fs o w rv h P meta t rest k fuel :
  project_head_due o w h P meta t rest k ->
  exists w' f1,
    handle_timeout_loop (S fuel) rv h o w =
      handle_timeout_loop fuel rv (set_q (popped P (h_q h)) h) o w' /\
    snapshot_post (w_fs w) f1 (unstable_of h P) (snap_dir h P (w_clock w) k) P /\
    lookup (w_fs w') (head_name (h_q h)) = None /\
    (forall x, x <> head_name (h_q h) -> lookup (w_fs w') x = lookup f1 x) /\
    QRel (popped P (h_q h)) (w_fs w') rest /\
    keys_nodup (w_fs w') /\ parents_exist (w_fs w') /\
    tr_keep (w_tr w) (w_tr w') /\ w_clock w' = w_clock w.
Proof.
  intros HD.
  destruct (project_head_snapshot o w rv h P meta t rest k fuel HD)
    as (w' & f1 & f2 & E & HS & HJ & HF & HQ & HN & HPE & HK & HC).
  destruct (journal_after_dents _ _ _ _ _ _ _ HJ) as [DE _].
  pose proof (dents_lookup _ _ DE) as LK.
  pose proof HS as (_ & _ & ND & _).
  assert (ND2 : keys_nodup f2) by (unfold keys_nodup; rewrite DE; exact ND).
  assert (Hroot : head_name (h_q h) <> root_path).
  { unfold head_name. apply join_dec_nonroot. exact (QR_nroot _ _ _ (phd_queue _ _ _ _ _ _ _ _ HD)). }
  exists w', f1. split; [exact E|]. split; [exact HS|].
  split; [rewrite HF; apply lookup_del_dent_same; assumption|].
  split; [intros x Hx; rewrite HF, lookup_del_dent_other by exact Hx; apply LK|].
  split; [exact HQ|]. split; [exact HN|]. split; [exact HPE|]. split; [exact HK | exact HC].
Qed.

(* K6, general form.  P is the project whose entry is the due head of the
   queue; P' is ANOTHER project whose root ends in the same component.  r is a
   path that does not exist below P -- for instance a member of P', linked in
   the (shared) unstable tree after its version was stored.  After the turn
   of the timeout loop on the head of P that link is gone from the unstable
   tree of P', and it is not in the new snapshot either: the next snapshot of
   P' will not contain its member r although P'/r exists and was versioned. *)
Theorem snapshot_prunes_foreign_members o w rv h P P' meta t rest k fuel r :
  project_head_due o w h P meta t rest k ->
  basename P' = basename P ->
  lookup (w_fs w) (P ++ ch_slash :: r) = None ->
  exists w',
    handle_timeout_loop (S fuel) rv h o w =
      handle_timeout_loop fuel rv (set_q (popped P (h_q h)) h) o w' /\
    lookup (w_fs w') (unstable_of h P' ++ ch_slash :: r) = None /\
    lookup (w_fs w') (snap_dir h P (w_clock w) k ++ ch_slash :: r) = None /\
    lookup (w_fs w') (snap_dir h P' (w_clock w) k ++ ch_slash :: r) = None /\
    (* everything outside the queue, the shared tree and the new snapshot stays:
       in particular P'/r and its stored version, when they are elsewhere *)
    (forall x, ~ within (q_dir (h_q h)) x -> ~ within (unstable_of h P) x ->
               ~ within (snap_home h P) x -> ~ under x (snap_home h P) ->
               lookup (w_fs w') x = lookup (w_fs w) x).
Proof.
  intros HD Hname Hno.
  destruct (project_head_fs o w rv h P meta t rest k fuel HD)
    as (w' & f1 & E & HS & Hhead & Hoth & _).
  destruct (snapshot_post_prunes _ _ _ _ _ r HS Hno) as [HU HDn].
  assert (EU : unstable_of h P' = unstable_of h P) by (apply same_name_iff_shared; exact Hname).
  assert (ED : snap_dir h P' (w_clock w) k = snap_dir h P (w_clock w) k)
    by (apply snap_dir_same_name; exact Hname).
  assert (Hnone : forall x, lookup f1 x = None -> lookup (w_fs w') x = None).
  { intros x Hx. destruct (str_eqb_spec x (head_name (h_q h))) as [->|Hne]; [exact Hhead|].
    rewrite (Hoth x Hne). exact Hx. }
  exists w'. split; [exact E|]. rewrite EU, ED.
  split; [apply Hnone; exact HU|]. split; [apply Hnone; exact HDn|].
  split; [apply Hnone; exact HDn|].
  intros x XQ XU XH XP.
  pose proof (QR_nroot _ _ _ (phd_queue _ _ _ _ _ _ _ _ HD)) as Hqr.
  pose proof (snap_dir_under_home h P (w_clock w) k) as HDH.
  pose proof HS as (_ & _ & _ & _ & _ & _ & _ & FR).
  rewrite Hoth.
  - apply FR.
    + intros ->. apply XH. right. exact HDH.
    + intros Hin. apply parents_of_prefix in Hin.
      destruct (under_both _ _ _ Hin HDH) as [C|[C|C]].
      * apply XH. left. exact C.
      * apply XP. exact C.
      * apply XH. right. exact C.
    + intros C. apply XU. right. exact C.
    + intros C. apply XH. right. exact (under_trans _ _ _ HDH C).
  - intros ->. apply XQ. right. unfold head_name. rewrite (join_ne _ _ Hqr). eexists. reflexivity.
Qed.
Print Assumptions snapshot_prunes_foreign_members.

(* ====================================================================== *)
(* 3. the positive theorem: distinct last components => independent         *)
(* ====================================================================== *)

(* a path at or below R/b' is none of the paths the snapshot of a project
   named b <> b' writes: not the queue link, not the snapshot directory D
   (= Rs/b/...), none of its ancestors, nothing below D or below U = Ru/b *)
Lemma foreign_clear Ru Rs Q b b' D sD x n :
  nosl b = true -> nosl b' = true -> b <> b' ->
  apart Ru Rs -> apart Q Ru -> apart Q Rs ->
  D = Rs ++ ch_slash :: b ++ ch_slash :: sD ->
  within (Ru ++ ch_slash :: b') x \/ within (Rs ++ ch_slash :: b') x ->
  x <> Q ++ ch_slash :: n /\ x <> D /\ ~ In x (parents_of D) /\
  ~ under (Ru ++ ch_slash :: b) x /\ ~ under D x.
Proof.
  intros Hb Hb' Hne AUS AQU AQS ED [Hx|Hx]; apply within_sfx in Hx; destruct Hx as (s & Hs & Ex);
    rewrite <- app_assoc in Ex; cbn [app] in Ex;
    assert (HsX : sfx (ch_slash :: b' ++ s)) by apply sfx_cons.
  - (* below the unstable tree of the other project *)
    repeat split.
    + intros E. rewrite Ex in E. exact (AQU _ _ (sfx_cons n) HsX (eq_sym E)).
    + intros E. rewrite Ex, ED in E. exact (AUS _ _ HsX (sfx_cons _) E).
    + intros Hin. apply parents_of_prefix in Hin. destruct Hin as [r E].
      rewrite Ex, ED, <- app_assoc in E.
      refine (AUS ((ch_slash :: b' ++ s) ++ ch_slash :: r) _ _ (sfx_cons _) (eq_sym E)).
      apply sfx_cons.
    + intros [r E]. rewrite Ex, <- app_assoc in E. cbn [app] in E.
      apply Hne. symmetry.
      exact (name_inj Ru b' b s (ch_slash :: r) Hb' Hb Hs (sfx_cons r) E).
    + intros [r E]. rewrite Ex, ED, <- app_assoc in E.
      refine (AUS _ ((ch_slash :: b ++ ch_slash :: sD) ++ ch_slash :: r) HsX _ E). apply sfx_cons.
  - (* below the snapshot home of the other project *)
    repeat split.
    + intros E. rewrite Ex in E. exact (AQS _ _ (sfx_cons n) HsX (eq_sym E)).
    + intros E. rewrite Ex, ED in E. apply Hne. symmetry.
      exact (name_inj Rs b' b s (ch_slash :: sD) Hb' Hb Hs (sfx_cons sD) E).
    + intros Hin. apply parents_of_prefix in Hin. destruct Hin as [r E].
      rewrite Ex, ED, <- app_assoc in E. cbn [app] in E. rewrite <- app_assoc in E.
      apply Hne.
      exact (name_inj Rs b b' (ch_slash :: sD) (s ++ ch_slash :: r) Hb Hb' (sfx_cons sD)
                      (sfx_app s r Hs) E).
    + intros [r E]. rewrite Ex, <- app_assoc in E. cbn [app] in E.
      refine (AUS (ch_slash :: b ++ ch_slash :: r) _ _ HsX (eq_sym E)). apply sfx_cons.
    + intros [r E]. rewrite Ex, ED, <- app_assoc in E. cbn [app] in E. rewrite <- app_assoc in E.
      cbn [app] in E. apply Hne. symmetry.
      exact (name_inj Rs b' b s (ch_slash :: sD ++ ch_slash :: r) Hb' Hb Hs (sfx_cons _) E).
Qed.

(* (2) P is the project whose entry is the due head of the queue, P' a project
   whose root ends in a DIFFERENT component; the queue directory, the unstable
   root and the project store root do not nest (three different places, the
   normal configuration).  Then the turn of the timeout loop that takes the
   snapshot of P leaves every path at or below the unstable tree of P' and at
   or below project_store_root/basename P' -- every snapshot of P', whenever
   taken -- exactly as it was. *)
Theorem distinct_names_independent o w rv h P P' meta t rest k fuel :
  project_head_due o w h P meta t rest k ->
  basename P <> basename P' ->
  nn (c_unstable_root (h_cfg h)) (c_project_store_root (h_cfg h)) ->
  nn (q_dir (h_q h)) (c_unstable_root (h_cfg h)) ->
  nn (q_dir (h_q h)) (c_project_store_root (h_cfg h)) ->
  exists w',
    handle_timeout_loop (S fuel) rv h o w =
      handle_timeout_loop fuel rv (set_q (popped P (h_q h)) h) o w' /\
    (forall x, within (unstable_of h P') x \/ within (snap_home h P') x ->
               lookup (w_fs w') x = lookup (w_fs w) x) /\
    (forall i, get_file (w_fs w') i = get_file (w_fs w) i \/
               exists jn, h_journal h = Some jn /\ i = j_ino jn) /\
    QRel (popped P (h_q h)) (w_fs w') rest /\
    keys_nodup (w_fs w') /\ parents_exist (w_fs w') /\
    tr_keep (w_tr w) (w_tr w') /\ w_clock w' = w_clock w.
Proof.
  intros HD Hne NUS NQU NQS.
  destruct (project_head_snapshot o w rv h P meta t rest k fuel HD)
    as (w' & f1 & f2 & E & HS & HJ & HF & HQ & HN & HPE & HK & HC).
  destruct (journal_after_dents _ _ _ _ _ _ _ HJ) as [DE _].
  pose proof (dents_lookup _ _ DE) as LK.
  pose proof HS as (FF & _ & _ & _ & _ & _ & _ & FR).
  pose proof (QR_nroot _ _ _ (phd_queue _ _ _ _ _ _ _ _ HD)) as Hqr.
  destruct (snap_dir_shape h P (w_clock w) k) as [sD ED].
  exists w'. split; [exact E|]. split.
  { intros x Hx.
    destruct (foreign_clear _ _ (q_dir (h_q h)) (basename P) (basename P') _ sD x (dec (q_head (h_q h)))
                (basename_nosl P) (basename_nosl P') Hne
                (apart_of_nn _ _ NUS) (apart_of_nn _ _ NQU) (apart_of_nn _ _ NQS) ED Hx)
      as (C1 & C2 & C3 & C4 & C5).
    rewrite HF, lookup_del_dent_other.
    - rewrite LK. apply FR; assumption.
    - unfold head_name. rewrite (join_ne _ _ Hqr). exact C1. }
  split.
  { intros i. rewrite HF. change (get_file (del_dent (head_name (h_q h)) f2) i) with (get_file f2 i).
    unfold journal_after in HJ.
    destruct (h_journal h) as [jn|]; [destruct (c_ev_stored (h_cfg h)) as [e|]|];
      try (left; rewrite HJ; unfold get_file; rewrite FF; reflexivity).
    destruct (Nat.eq_dec i (j_ino jn)) as [->|Hi]; [right; exists jn; split; reflexivity|].
    left. destruct HJ as (_ & _ & G & _). rewrite (G i Hi). unfold get_file. rewrite FF. reflexivity. }
  split; [exact HQ|]. split; [exact HN|]. split; [exact HPE|]. split; [exact HK | exact HC].
Qed.
Print Assumptions distinct_names_independent.

(* ====================================================================== *)
(* 4. the finding on a concrete history; the hypotheses are satisfiable     *)
(* ====================================================================== *)

From Coq Require Import String.

Module TwinProjects.
  Definition lit (x : string) : str := list_ascii_of_string x.

  (* two projects whose roots end in the same component, and a third one *)
  Definition Px : str := lit "/w/x/proj".
  Definition Py : str := lit "/w/y/proj".
  Definition Pz : str := lit "/w/z/other".
  Definition p_a : str := lit "/w/x/proj/a.c".
  Definition p_c : str := lit "/w/x/proj/c.c".
  Definition p_b : str := lit "/w/y/proj/b.c".
  Definition p_d : str := lit "/w/z/other/d.c".

  (* store /s, snapshots /ps, unstable trees /u, queue /q, journal /j (inode 1),
     versions and time stamps "<seconds>", debounce 5 s, editor "vi" *)
  Definition cfg_with (r : rules) : config :=
    mkCfg [lit "vi"] r (lit "/s") (lit "/ps") (lit "/u") (lit "/q")
          (Some (lit "/j")) (lit "/o") (lit "%s") (lit "%s") 5%Z 0 32
          None None None None None None (Some (lit "stored")).
  (* project_roots = the roots themselves *)
  Definition rulesT : rules := mkRules [] [] [] [] [Px; Py; Pz] [].
  (* the same projects as CHILDREN of the project parents /w/x, /w/y, /w/z *)
  Definition rulesP : rules := mkRules [] [] [] [] [] [lit "/w/x"; lit "/w/y"; lit "/w/z"].
  Definition cfgT : config := cfg_with rulesT.
  Definition jnT : journal := mkJ 1 (lit "%s").

  Definition fs0 : fs :=
    mkFs [ (lit "/w", NDir); (lit "/w/x", NDir); (Px, NDir); (p_a, NFile 2); (p_c, NFile 4);
           (lit "/w/y", NDir); (Py, NDir); (p_b, NFile 3);
           (lit "/w/z", NDir); (Pz, NDir); (p_d, NFile 5);
           (lit "/j", NFile 1); (lit "/q", NDir) ]
         [ (1, mkFile [] true); (2, mkFile (lit "aaa") true); (3, mkFile (lit "bbb") true);
           (4, mkFile (lit "ccc") true); (5, mkFile (lit "ddd") true) ]
         6.

  Definition q0 : qmem := mkQ (lit "/q") 0 0 5%Z 32 [].
  (* the common parent of the watched tree is "/w/"; pid 7 is an editor *)
  Definition h_with (r : rules) : handler := mkH (cfg_with r) None 3 q0 (Some jnT) [7%N] [].
  Definition h0 : handler := h_with rulesT.
  Definition w0 : world := mkW fs0 0 [] 100%Z tr_empty.

  (* the policy: every member is queued with the length of ITS OWN root (9 or
     10), under both configurations; yet the two roots have one name *)
  Example decisions :
    push_decision rulesT 3 true p_a = (true, false, Some 9) /\ firstn 9 p_a = Px /\
    push_decision rulesT 3 true p_b = (true, false, Some 9) /\ firstn 9 p_b = Py /\
    push_decision rulesT 3 true p_d = (true, false, Some 10) /\ firstn 10 p_d = Pz /\
    push_decision rulesP 3 true p_a = (true, false, Some 9) /\
    push_decision rulesP 3 true p_b = (true, false, Some 9) /\
    push_decision rulesP 3 true p_d = (true, false, Some 10).
  Proof. vm_compute. repeat split; reflexivity. Qed.

  Example names :
    Px <> Py /\ basename Px = basename Py /\ basename Px <> basename Pz /\
    unstable_of h0 Px = lit "/u/proj" /\ unstable_of h0 Py = lit "/u/proj" /\
    unstable_of h0 Pz = lit "/u/other" /\
    snap_dir h0 Px 110 0 = lit "/ps/proj/110" /\ snap_dir h0 Py 110 0 = lit "/ps/proj/110" /\
    snap_dir h0 Py 110 1 = lit "/ps/proj/110-1" /\ snap_home h0 Pz = lit "/ps/other".
  Proof. vm_compute. repeat split; try reflexivity; discriminate. Qed.

  (* the instance of [twin_roots_share]: x/proj and y/proj, as listed roots or as
     children of the parents /w/x and /w/y *)
  Example twins_share h :
    unstable_of h Px = unstable_of h Py /\ snap_home h Px = snap_home h Py /\
    forall c k, snap_dir h Px c k = snap_dir h Py c k.
  Proof. exact (twin_roots_share h (lit "/w/x") (lit "/w/y") (lit "proj") eq_refl). Qed.

  (* The history.  t = 100: the editor writes x/proj/a.c and y/proj/b.c.
     t = 110: a timeout pass.  t = 120: the editor writes x/proj/c.c.
     t = 130: a second pass. *)
  Definition hist1 (rv : bool) : list jevent :=
    [ JWrite 7 p_a None; JWrite 7 p_b None; JClock 110; JTimeout rv ].
  Definition hist2 (rv : bool) : list jevent :=
    [ JClock 120; JWrite 7 p_c None; JClock 130; JTimeout rv ].

  (* after the FIRST pass: both versions are stored; two snapshots were taken
     in the same directory (/ps/proj/110 for x/proj, /ps/proj/110-1 for
     y/proj); the walk for y/proj has unlinked a.c from the shared unstable
     tree /u/proj although /w/x/proj/a.c exists; no error was reported *)
  Definition after_first (r : rules) (rv : bool) : Prop :=
    match jrun (hist1 rv) (h_with r) no_faults w0 with
    | (Some h1, w1) =>
        w_tr w1 = tr_empty /\ q_size (h_q h1) = 0%N /\
        lookup (w_fs w1) (lit "/s/x/proj/a.c/110.c") = Some (NFile 6) /\
        f_bytes (get_file (w_fs w1) 6) = lit "aaa" /\
        lookup (w_fs w1) (lit "/s/y/proj/b.c/110.c") = Some (NFile 7) /\
        f_bytes (get_file (w_fs w1) 7) = lit "bbb" /\
        lookup (w_fs w1) (lit "/ps/proj/110/a.c") = Some (NFile 6) /\
        lookup (w_fs w1) (lit "/ps/proj/110-1") = Some NDir /\
        lookup (w_fs w1) (lit "/ps/proj/110-1/b.c") = Some (NFile 7) /\
        lookup (w_fs w1) (lit "/u/proj") = Some NDir /\
        lookup (w_fs w1) (lit "/u/proj/b.c") = Some (NFile 7) /\
        lookup (w_fs w1) (lit "/u/proj/a.c") = None /\          (* pruned *)
        lookup (w_fs w1) p_a = Some (NFile 2)                  (* ... but it exists *)
    | _ => False
    end.

  Example twin_projects_prune : after_first rulesT false /\ after_first rulesT true.
  Proof. vm_compute. repeat split; reflexivity. Qed.

  (* after the SECOND pass: the newest snapshot /ps/proj/130 of x/proj has c.c
     but NOT a.c, although /w/x/proj/a.c still exists and its version is in
     the store; and this walk has in turn destroyed the link of y/proj/b.c *)
  Definition after_second (r : rules) (rv : bool) : Prop :=
    match jrun (hist1 rv ++ hist2 rv) (h_with r) no_faults w0 with
    | (Some h2, w2) =>
        w_tr w2 = tr_empty /\ q_size (h_q h2) = 0%N /\
        lookup (w_fs w2) (lit "/ps/proj/130") = Some NDir /\
        lookup (w_fs w2) (lit "/ps/proj/130/c.c") = Some (NFile 8) /\
        f_bytes (get_file (w_fs w2) 8) = lit "ccc" /\
        lookup (w_fs w2) (lit "/ps/proj/130/a.c") = None /\      (* C11 violated *)
        lookup (w_fs w2) p_a = Some (NFile 2) /\
        lookup (w_fs w2) (lit "/s/x/proj/a.c/110.c") = Some (NFile 6) /\
        f_bytes (get_file (w_fs w2) 6) = lit "aaa" /\
        lookup (w_fs w2) (lit "/ps/proj/130-1") = None /\        (* it is the newest *)
        lookup (w_fs w2) (lit "/u/proj/b.c") = None /\
        lookup (w_fs w2) p_b = Some (NFile 3)
    | _ => False
    end.

  Example twin_projects_snapshot_lacks_member : after_second rulesT false /\ after_second rulesT true.
  Proof. vm_compute. repeat split; reflexivity. Qed.

  (* the same with the two projects configured as children of project parents *)
  Example twin_children_of_parents :
    after_first rulesP false /\ after_first rulesP true /\
    after_second rulesP false /\ after_second rulesP true.
  Proof. vm_compute. repeat split; reflexivity. Qed.

  (* control: the same history with z/other in the place of y/proj -- the last
     components differ and the newest snapshot of x/proj has BOTH members *)
  Definition hist1c (rv : bool) : list jevent :=
    [ JWrite 7 p_a None; JWrite 7 p_d None; JClock 110; JTimeout rv ].

  Definition control (r : rules) (rv : bool) : Prop :=
    match jrun (hist1c rv ++ hist2 rv) (h_with r) no_faults w0 with
    | (Some h2, w2) =>
        w_tr w2 = tr_empty /\ q_size (h_q h2) = 0%N /\
        lookup (w_fs w2) (lit "/ps/proj/130/c.c") = Some (NFile 8) /\
        lookup (w_fs w2) (lit "/ps/proj/130/a.c") = Some (NFile 6) /\
        lookup (w_fs w2) (lit "/s/x/proj/a.c/110.c") = Some (NFile 6) /\
        lookup (w_fs w2) (lit "/ps/other/110/d.c") = Some (NFile 7) /\
        lookup (w_fs w2) (lit "/u/other/d.c") = Some (NFile 7) /\
        lookup (w_fs w2) (lit "/s/z/other/d.c/110.c") = Some (NFile 7)
    | _ => False
    end.

  Example distinct_projects_control :
    control rulesT false /\ control rulesT true /\ control rulesP false /\ control rulesP true.
  Proof. vm_compute. repeat split; reflexivity. Qed.

  (* ----- a world that satisfies the hypotheses of the theorems -----
     The state in the middle of the first pass, by hand: a.c, b.c (and, earlier,
     d.c) are stored and linked in the unstable trees, the snapshot /ps/proj/110
     of x/proj is taken; the entry of y/proj is the due head of the queue. *)
  Definition fsE : fs :=
    mkFs [ (lit "/w", NDir); (lit "/w/x", NDir); (Px, NDir); (p_a, NFile 2);
           (lit "/w/y", NDir); (Py, NDir); (p_b, NFile 3);
           (lit "/w/z", NDir); (Pz, NDir); (p_d, NFile 4);
           (lit "/j", NFile 1); (lit "/q", NDir);
           (lit "/s", NDir); (lit "/s/x", NDir); (lit "/s/x/proj", NDir);
           (lit "/s/x/proj/a.c", NDir); (lit "/s/x/proj/a.c/110.c", NFile 5);
           (lit "/s/y", NDir); (lit "/s/y/proj", NDir);
           (lit "/s/y/proj/b.c", NDir); (lit "/s/y/proj/b.c/110.c", NFile 6);
           (lit "/s/z", NDir); (lit "/s/z/other", NDir);
           (lit "/s/z/other/d.c", NDir); (lit "/s/z/other/d.c/105.c", NFile 7);
           (lit "/u", NDir); (lit "/u/proj", NDir);
           (lit "/u/proj/a.c", NFile 5); (lit "/u/proj/b.c", NFile 6);
           (lit "/u/other", NDir); (lit "/u/other/d.c", NFile 7);
           (lit "/ps", NDir); (lit "/ps/proj", NDir); (lit "/ps/proj/110", NDir);
           (lit "/ps/proj/110/a.c", NFile 5);
           (lit "/ps/other", NDir); (lit "/ps/other/105", NDir);
           (lit "/ps/other/105/d.c", NFile 7) ]
         [ (1, mkFile [] true); (2, mkFile (lit "aaa") true); (3, mkFile (lit "bbb") true);
           (4, mkFile (lit "ddd") true); (5, mkFile (lit "aaa") true);
           (6, mkFile (lit "bbb") true); (7, mkFile (lit "ddd") true) ]
         8.

  Definition fsQ : fs := add_dent (next_name q0) (NLink (encode 1 Py) 100%Z) fsE.
  Definition hE : handler := mkH cfgT None 3 (pushed Py q0) (Some jnT) [7%N] [].
  Definition wE : world := mkW fsQ 0 [] 110%Z tr_empty.

  Lemma queueE : QRel (h_q hE) fsQ [(Py, 1%N, 100%Z)].
  Proof.
    apply (QRel_push q0 fsE [] Py 1%N 100%Z).
    - apply QRel_empty; [discriminate | reflexivity|].
      intros k. apply nothing_under; [discriminate | discriminate | vm_compute; reflexivity].
    - apply normalb_spec. vm_compute. reflexivity.
    - unfold fits, qpath. cbn [fst snd q_len_guess q0].
      apply QueueExample.fits_small. vm_compute. repeat constructor.
  Qed.

  (* the head of the queue is the due entry of y/proj; /ps/proj/110 is taken *)
  Example head_due o : SyncProofs.benign o -> project_head_due o wE hE Py 1%N 100%Z [] 1.
  Proof.
    intros H. constructor.
    - exact H.
    - reflexivity.
    - apply keys_nodup_check. vm_compute. reflexivity.
    - apply parents_exist_b_sound. vm_compute. reflexivity.
    - exact queueE.
    - vm_compute. reflexivity.
    - reflexivity.
    - reflexivity.
    - vm_compute. reflexivity.
    - vm_compute. reflexivity.
    - vm_compute. repeat constructor.
    - vm_compute. reflexivity.
    - vm_compute. repeat constructor.
    - eexists. vm_compute. reflexivity.
    - vm_compute. discriminate.
    - apply nnb_sound. vm_compute. reflexivity.
    - apply nnb_sound. vm_compute. reflexivity.
    - apply nnb_sound. vm_compute. reflexivity.
    - apply nnb_sound. vm_compute. reflexivity.
    - apply nnb_sound. vm_compute. reflexivity.
    - vm_compute. reflexivity.
    - intros d Hin. vm_compute in Hin. destruct Hin as [<-|[<-|[]]]; vm_compute; auto.
    - intros i Hi. assert (i = 0) by lia. subst i.
      split; [eexists; vm_compute; reflexivity|].
      split; [vm_compute; discriminate|].
      intros d Hin. vm_compute in Hin. destruct Hin as [<-|[<-|[]]]; vm_compute; reflexivity.
    - vm_compute. repeat constructor.
    - intros _. reflexivity.
  Qed.

  (* [snapshot_prunes_foreign_members] applies (P = y/proj, P' = x/proj, r =
     a.c): for EVERY benign oracle and both orders of the walk the link
     /u/proj/a.c -- which was there, to the stored version, and whose file
     exists -- is gone after the turn on the head of y/proj *)
  Example prune_by_theorem o rv fuel : SyncProofs.benign o ->
    lookup (w_fs wE) (lit "/u/proj/a.c") = Some (NFile 5) /\
    lookup (w_fs wE) (lit "/s/x/proj/a.c/110.c") = Some (NFile 5) /\
    lookup (w_fs wE) p_a = Some (NFile 2) /\
    exists w',
      handle_timeout_loop (S fuel) rv hE o wE =
        handle_timeout_loop fuel rv (set_q (popped Py (h_q hE)) hE) o w' /\
      lookup (w_fs w') (lit "/u/proj/a.c") = None /\
      lookup (w_fs w') (lit "/ps/proj/110-1/a.c") = None /\
      lookup (w_fs w') p_a = Some (NFile 2) /\
      lookup (w_fs w') (lit "/s/x/proj/a.c/110.c") = Some (NFile 5).
  Proof.
    intros H. split; [reflexivity|]. split; [reflexivity|]. split; [reflexivity|].
    destruct (snapshot_prunes_foreign_members o wE rv hE Py Px 1%N 100%Z [] 1 fuel (lit "a.c")
                (head_due o H) eq_refl eq_refl) as (w' & E & A & B & _ & F).
    assert (Hw : forall d x, Str.under d x = false -> str_eqb x d = false -> ~ within d x).
    { intros d x Hu He [->|Hx]; [rewrite str_eqb_refl in He; discriminate|].
      apply underb_spec in Hx. congruence. }
    assert (Hu : forall d x, Str.under d x = false -> ~ under d x).
    { intros d x Hb Hx. apply underb_spec in Hx. congruence. }
    exists w'. split; [exact E|]. split; [exact A|]. split; [exact B|].
    split; (rewrite F; [reflexivity | | | |]); try (apply Hw; reflexivity); apply Hu; reflexivity.
  Qed.

  (* [distinct_names_independent] applies (P = y/proj, P' = z/other): the
     unstable tree and the snapshots of z/other are untouched by that turn *)
  Example roots_apart :
    nn (c_unstable_root (h_cfg hE)) (c_project_store_root (h_cfg hE)) /\
    nn (q_dir (h_q hE)) (c_unstable_root (h_cfg hE)) /\
    nn (q_dir (h_q hE)) (c_project_store_root (h_cfg hE)).
  Proof. repeat split; try (apply nnb_sound; vm_compute; reflexivity). Qed.

  Example independent_by_theorem o rv fuel : SyncProofs.benign o ->
    exists w',
      handle_timeout_loop (S fuel) rv hE o wE =
        handle_timeout_loop fuel rv (set_q (popped Py (h_q hE)) hE) o w' /\
      lookup (w_fs w') (lit "/u/other") = Some NDir /\
      lookup (w_fs w') (lit "/u/other/d.c") = Some (NFile 7) /\
      lookup (w_fs w') (lit "/ps/other") = Some NDir /\
      lookup (w_fs w') (lit "/ps/other/105") = Some NDir /\
      lookup (w_fs w') (lit "/ps/other/105/d.c") = Some (NFile 7) /\
      f_bytes (get_file (w_fs w') 7) = lit "ddd".
  Proof.
    intros H. destruct roots_apart as (N1 & N2 & N3).
    assert (Hne : basename Py <> basename Pz) by (vm_compute; discriminate).
    destruct (distinct_names_independent o wE rv hE Py Pz 1%N 100%Z [] 1 fuel (head_due o H) Hne N1 N2 N3)
      as (w' & E & F & G & _).
    assert (HU : unstable_of hE Pz = lit "/u/other") by reflexivity.
    assert (HS : snap_home hE Pz = lit "/ps/other") by reflexivity.
    exists w'. split; [exact E|].
    split; [apply F; left; left; reflexivity|].
    split; [apply F; left; right; exists (lit "d.c"); reflexivity|].
    split; [apply F; right; left; reflexivity|].
    split; [apply F; right; right; exists (lit "105"); reflexivity|].
    split; [apply F; right; right; exists (lit "105/d.c"); reflexivity|].
    destruct (G 7) as [->|(jn & Ej & Ei)]; [reflexivity|].
    injection Ej as <-. discriminate Ei.
  Qed.

End TwinProjects.

Print Assumptions TwinProjects.twin_projects_prune.
Print Assumptions TwinProjects.twin_projects_snapshot_lacks_member.
Print Assumptions TwinProjects.twin_children_of_parents.
Print Assumptions TwinProjects.distinct_projects_control.
Print Assumptions TwinProjects.prune_by_theorem.
Print Assumptions TwinProjects.independent_by_theorem.
