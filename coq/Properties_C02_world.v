(* C02 at the level of the WORLD: one timeout pass of the handler over the file
   system, for every benign oracle (no call fails, the process does not die,
   every transfer may be cut into arbitrary positive pieces).  Composition of the
   queue refinement (QueueProofs.QRel: queue directory + in-memory queue refine
   the reference FIFO), the exact copy (SyncProofs) and the handler loop.
   Definitions used (PassProofs.v): plain_ok = the hypotheses on a plain head
   (absolute path, source a readable regular file with bytes b, first candidate
   store name free, ...); step_post = exactly one new store file
   store_root/rel/version+ext with bytes b, the head link gone, every other name
   and inode (but the journal, which is appended to) unchanged. *)
From K Require Import Str Dec Trace Fs World Progs Sieve Handler Linq LinqSpec LinqProofs
  SyncProofs AbandonProofs QueueProofs JournalProofs PassProofs.

(* nothing pending: indefinite wait, no call made, nothing changes (every oracle) *)
Theorem C02_world_idle : forall (o : oracle) w h rev,
  tr_ok (w_tr w) = true -> QRel (h_q h) (w_fs w) [] ->
  exists w',
    handle_timeout rev h o w = (Some (TPause (-1), h), w') /\
    w_fs w' = w_fs w /\ w_n w' = w_n w /\ w_log w' = w_log w /\ w_clock w' = w_clock w /\
    tr_keep (w_tr w) (w_tr w').
Proof. exact handle_timeout_idle. Qed.
Print Assumptions C02_world_idle.

(* a head younger than the debounce: the wait is exactly the time left, nothing is stored *)
Theorem C02_world_not_due : forall o w h rev p m t rest,
  benign o -> tr_ok (w_tr w) = true ->
  QRel (h_q h) (w_fs w) ((p, m, t) :: rest) ->
  (w_clock w - t < q_deb (h_q h))%Z ->
  exists w',
    handle_timeout rev h o w = (Some (TPause (q_deb (h_q h) - (w_clock w - t)), h), w') /\
    w_fs w' = w_fs w /\ w_clock w' = w_clock w /\ tr_keep (w_tr w) (w_tr w') /\
    QRel (h_q h) (w_fs w') ((p, m, t) :: rest).
Proof. exact handle_timeout_not_due. Qed.
Print Assumptions C02_world_not_due.

(* one due plain head, nothing else due: exactly one version with the current
   content, the head leaves the queue, the rest of the queue is as before, the
   wait is the one of the rest, no error *)
Theorem C02_world_one_head : forall o rev h w p t rest i b,
  benign o ->
  tr_ok (w_tr w) = true -> keys_nodup (w_fs w) ->
  QRel (h_q h) (w_fs w) ((p, 0%N, t) :: rest) ->
  (q_deb (h_q h) <= w_clock w - t)%Z ->
  occurs p rest = false ->
  not_due (w_clock w) (q_deb (h_q h)) rest ->
  plain_ok (h_cfg h) (h_cpl h) (h_journal h) (q_dir (h_q h)) (w_fs w) (w_clock w) p i b ->
  exists w',
    handle_timeout rev h o w =
      (Some (TPause (pause_of (w_clock w) (q_deb (h_q h)) rest), set_q (popped p (h_q h)) h), w') /\
    step_post (h_cfg h) (h_cpl h) (h_journal h) (head_name (h_q h))
              (w_fs w) (w_fs w') (w_clock w) p b /\
    QRel (popped p (h_q h)) (w_fs w') rest /\ keys_nodup (w_fs w') /\
    tr_ok (w_tr w') = true /\ (t_post (w_tr w) = 0 -> w_tr w' = w_tr w) /\
    w_clock w' = w_clock w.
Proof. exact handle_timeout_one_plain_head. Qed.
Print Assumptions C02_world_one_head.

(* a whole pass: the due prefix es of the queue consists of plain heads, each
   the last write of its path (last_writes), with pairwise independent store
   names (all_ok); then each gets exactly one version with its content, in queue
   order (inode numbers are handed out in that order), nothing else appears,
   everything else is unchanged, the journal gets one line per entry, the queue
   is the rest, the wait is the one of the rest, no error *)
Theorem C02_world_pass : forall o rev es rest h w,
  benign o ->
  tr_ok (w_tr w) = true -> keys_nodup (w_fs w) ->
  QRel (h_q h) (w_fs w) (map qent_of es ++ rest) ->
  Forall (fun e => (q_deb (h_q h) <= w_clock w - e_time e)%Z) es ->
  last_writes es rest ->
  not_due (w_clock w) (q_deb (h_q h)) rest ->
  all_ok (h_cfg h) (h_cpl h) (h_journal h) (q_dir (h_q h)) (w_fs w) (w_clock w) es ->
  let cfg := h_cfg h in let cpl := h_cpl h in let now := w_clock w in
  let f := w_fs w in
  exists w',
    handle_timeout rev h o w =
      (Some (TPause (pause_of now (q_deb (h_q h)) rest), set_q (pops es (h_q h)) h), w') /\
    let f' := w_fs w' in
    (forall k e, nth_error es k = Some e ->
       lookup f' (store_name cfg cpl now (e_path e)) = Some (NFile (fs_next f + k)) /\
       f_bytes (get_file f' (fs_next f + k)) = e_bytes e) /\
    (forall x i', lookup f' x = Some (NFile i') -> lookup f x = None ->
       exists e, In e es /\ x = store_name cfg cpl now (e_path e)) /\
    fs_next f' = fs_next f + length es /\
    (forall x, lookup f x <> None -> Str.under (q_dir (h_q h)) x = false ->
               lookup f' x = lookup f x) /\
    (forall k, k < fs_next f -> (forall jn, h_journal h = Some jn -> k <> j_ino jn) ->
               get_file f' k = get_file f k) /\
    (forall jn, h_journal h = Some jn ->
       f_bytes (get_file f' (j_ino jn)) =
       f_bytes (get_file f (j_ino jn)) ++ jlines cfg cpl (h_journal h) now es) /\
    QRel (pops es (h_q h)) f' rest /\ keys_nodup f' /\
    tr_ok (w_tr w') = true /\ (t_post (w_tr w) = 0 -> w_tr w' = w_tr w) /\
    w_clock w' = now.
Proof. exact handle_timeout_plain_pass. Qed.
Print Assumptions C02_world_pass.

(* non-vacuity: PassExample builds a world with three sources and a journal on
   which every hypothesis of C02_world_pass holds (hyps_hold) and evaluates the
   pass by vm_compute (run_o2) *)
Example C02_world_example := PassExample.hyps_hold.
