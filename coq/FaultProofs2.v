(* C10 "failures are reported, never swallowed, and never lose work", the two
   branches of handle_timeout_loop that FaultProofs.v leaves open, for EVERY
   oracle (any failing call with any errno, short transfers, a crash at any
   call):

     A. the PROJECT head (flags 1): sync_shallow_tree into a new snapshot
        directory (retried with the next name while the name is taken), the
        journal line, the pop;
     B. the MEMBER link step (flags with a project offset): after the version
        is stored and the head popped, unlink of the unstable entry, its
        parents, the hard link to the new version.

   Structure
     1. calls, classes of reported failures, step relations on file systems;
     2. every-oracle specifications of create_parents / clean_up (project
        class), tree_loop, sync_shallow_tree (three outcomes: done, expected
        condition, failed), project_store_loop;
     3. record_event and q_pop_head for every oracle;
     4. the project iteration [project_iter] / [project_step]:
          project_fault_is_reported, project_failed_keeps_entry,
          project_failed_keeps_queue, project_crash_keeps_entry;
     5. the member link step [link_step]: link_step_spec (the disk per failing
        call), member_finish_spec, member_link_fault_is_reported;
     6. the iteration of handle_timeout_loop IS project_step
        (timeout_reaches_project_step), timeout_iteration_project,
        timeout_iteration_member;
     7. Module Fault2Example: /w/proj with one member, every call index of the
        41-call pass failed in turn, the three outcomes, instantiations of
        the theorems, and the witnesses of what does NOT hold:
          project_failed_snapshot_partial   (a partial snapshot directory stays
                                             and is never completed: the retry
                                             takes the next name),
          access_failure_is_swallowed       (any errno of access() counts as
                                             "not in the project": the link is
                                             pruned, nothing is reported),
          member_link_lost_after_failure    (unlink done, link failed: the
                                             unstable entry is absent although
                                             the head is popped).  *)
From K Require Import Str Dec Trace Fs World Progs Elf Linq Sieve Handler Hoare SyncProofs AbandonProofs DecProofs
     FaultProofs.
From K Require Confine Confine2 QueueProofs LinqSpec LinqProofs StoreFs StoreLogic SnapshotProofs CrashFrame.
From Coq Require Import Lia.

(* ====================================================================== *)
(* 1. calls, reported classes, step relations                             *)
(* ====================================================================== *)

(* log extension by calls satisfying [okc], the file systems related by [R] *)
Definition DQ (okc : call -> bool) (R : fs -> fs -> Prop) (w w' : world) (l : list (call * ret)) : Prop :=
  w_log w' = l ++ w_log w /\ Forall (fun cr => okc (fst cr) = true) l /\ R (w_fs w) (w_fs w').

Lemma DQ_refl okc (R : fs -> fs -> Prop) w : (forall f, R f f) -> DQ okc R w w [].
Proof. intros H. split; [reflexivity|]. split; [constructor | apply H]. Qed.

Lemma DQ_trans okc (R : fs -> fs -> Prop) w w1 w2 l1 l2 :
  (forall a b c, R a b -> R b c -> R a c) ->
  DQ okc R w w1 l1 -> DQ okc R w1 w2 l2 -> DQ okc R w w2 (l2 ++ l1).
Proof.
  intros Ht [A1 [B1 C1]] [A2 [B2 C2]]. split; [rewrite A2, A1; apply app_assoc|].
  split; [apply Forall_app; auto | eapply Ht; eauto].
Qed.

Lemma DQ_call okc (R : fs -> fs -> Prop) c r f1 w :
  okc c = true -> R (w_fs w) f1 -> DQ okc R w (after_call c r f1 w) [(c, r)].
Proof. intros Hp Hr. split; [reflexivity|]. split; [constructor; [exact Hp | constructor] | exact Hr]. Qed.

Lemma DQ_upd_r okc (R : fs -> fs -> Prop) w w' l t : DQ okc R w w' l -> DQ okc R w (upd_tr t w') l.
Proof. intros H. exact H. Qed.
Lemma DQ_upd_l okc (R : fs -> fs -> Prop) w w' l t : DQ okc R (upd_tr t w) w' l -> DQ okc R w w' l.
Proof. intros H. exact H. Qed.

Lemma DQ_weaken okc okc' (R R' : fs -> fs -> Prop) w w' l :
  (forall c, okc c = true -> okc' c = true) -> (forall a b, R a b -> R' a b) ->
  DQ okc R w w' l -> DQ okc' R' w w' l.
Proof.
  intros Hc H [A [B C]]. split; [exact A|]. split; [|apply H; exact C].
  eapply Forall_impl; [|exact B]. intros cr. apply Hc.
Qed.

(* a generic "no reported failure in the log" *)
Definition badby (cls : call -> errno -> bool) (cr : call * ret) : bool :=
  match failed (snd cr) with Some e => cls (fst cr) e | None => false end.
Definition nob (cls : call -> errno -> bool) (l : list (call * ret)) : Prop := existsb (badby cls) l = false.

Lemma nob_nil cls : nob cls []. Proof. reflexivity. Qed.
Lemma nob_app cls a b : nob cls (a ++ b) <-> nob cls a /\ nob cls b.
Proof. unfold nob. rewrite existsb_app, orb_false_iff. tauto. Qed.
Lemma nob_cons cls x l : nob cls (x :: l) <-> badby cls x = false /\ nob cls l.
Proof. unfold nob. cbn [existsb]. rewrite orb_false_iff. tauto. Qed.
Lemma nob_one cls x : badby cls x = false -> nob cls [x].
Proof. intros H. apply nob_cons. split; [exact H | apply nob_nil]. Qed.
Lemma nob_snoc cls l x : nob cls l -> badby cls x = false -> nob cls (l ++ [x]).
Proof. intros A B. apply nob_app. split; [exact A | apply nob_one; exact B]. Qed.

Lemma badby_ok cls c r : failed r = None -> badby cls (c, r) = false.
Proof. intros H. unfold badby. cbn [snd]. rewrite H. reflexivity. Qed.
Lemma badby_failed cls c r e : r = RFault e \/ r = RErr e -> badby cls (c, r) = cls c e.
Proof. intros [->| ->]; reflexivity. Qed.
Lemma retv_none_failed r : retv None r -> failed r = None.
Proof. unfold retv. intros ->. reflexivity. Qed.

Section Proj.
Variable U : str.          (* the unstable tree of the project: the source of the walk *)

(* ----- the calls of the project branch and the class of reported failures ----- *)

(* what the snapshot loop may issue: no unlinkat, no link, no write, no create *)
Definition pcallc (c : call) : bool :=
  match c with
  | CMkdir _ | CRmdir _ | COpenR _ | CClose | CFtsOpen _ | CAccess _
  | CMkdirat _ _ | CLinkat _ _ _ | CUnlink _ => true
  | _ => false
  end.

(* (call, errno) pairs of the project iteration that must end it with the error
   on the trace.  EXPECTED conditions, handled without stopping:
     mkdir EEXIST        an ancestor is there / the snapshot name is taken (next name);
     fts_open ENOENT     the unstable tree is gone   ("deleted");
     fts_open EACCES     ... is unreadable           ("forbidden").
   NOT reported, by the code: every failure of access() (any errno counts as
   "the entry is not in the project": access_failure_is_swallowed below), every
   failure of close, every rmdir of clean_up (paths outside U). *)
Definition preported (c : call) (e : errno) : bool :=
  match c with
  | CMkdir _ => match e with EEXIST => false | _ => true end
  | COpenR _ => true
  | CFtsOpen _ => match e with ENOENT | EACCES => false | _ => true end
  | CMkdirat _ _ | CLinkat _ _ _ => true
  | CRmdir p | CUnlink p => Str.under U p
  | CWrite _ | CReadlinkat _ _ _ | CUnlinkat _ _ => true
  | _ => false
  end.
Notation pbad := (badby preported).
Notation nopb := (nob preported).

(* ----- the step relation: files untouched, entries outside U kept ----- *)

Definition keepU (f f' : fs) : Prop :=
  forall p n, nondir n = true -> Str.under U p = false -> lookup f p = Some n -> lookup f' p = Some n.

Definition pstep (f f' : fs) : Prop :=
  fs_files f' = fs_files f /\ fs_next f' = fs_next f /\ keepU f f'.

Lemma pstep_refl f : pstep f f.
Proof. split; [reflexivity|]. split; [reflexivity|]. intros p n _ _ H. exact H. Qed.
Lemma pstep_trans f0 f1 f2 : pstep f0 f1 -> pstep f1 f2 -> pstep f0 f2.
Proof.
  intros [A1 [B1 C1]] [A2 [B2 C2]]. split; [congruence|]. split; [congruence|].
  intros p n Hn Hu Hl. apply (C2 p n Hn Hu). apply (C1 p n Hn Hu). exact Hl.
Qed.

Lemma pstep_of_keep f f' :
  keep None f f' -> fs_files f' = fs_files f -> fs_next f' = fs_next f -> pstep f f'.
Proof.
  intros K A B. split; [exact A|]. split; [exact B|]. intros p n Hn _ Hl.
  apply (K p n); [discriminate | exact Hn | exact Hl].
Qed.

Lemma pstep_mkdir p f e f' : fs_mkdir p f = (e, f') -> pstep f f'.
Proof. intros E. destruct (mkdir_facts [] p f e f' E) as [_ [K [A B]]]. apply pstep_of_keep; assumption. Qed.
Lemma pstep_rmdir p f e f' : fs_rmdir p f = (e, f') -> pstep f f'.
Proof. intros E. destruct (rmdir_facts [] p f e f' E) as [_ [K [A B]]]. apply pstep_of_keep; assumption. Qed.

Lemma pstep_unlink p f e f' : Str.under U p = true -> fs_unlink p f = (e, f') -> pstep f f'.
Proof.
  intros Hu E. destruct (unlink_facts [] p f e f' E) as [A [B [C _]]].
  split; [exact A|]. split; [exact B|]. intros q n _ Hq Hl. rewrite C; [exact Hl|].
  intros ->. congruence.
Qed.

Lemma link_facts a b f e f' :
  fs_link a b f = (e, f') ->
  fs_files f' = fs_files f /\ fs_next f' = fs_next f /\
  match e with
  | Some _ => f' = f
  | None => exists n, nondir n = true /\ lookup f a = Some n /\ lookup f b = None /\ f' = add_dent b n f
  end.
Proof.
  unfold fs_link. destruct (lookup f a) as [[|i|t m]|] eqn:Ea;
    try (intros E; inversion E; subst; repeat split; reflexivity).
  - destruct (lookup f b) eqn:Eb; [intros E; inversion E; subst; repeat split; reflexivity|].
    destruct (parent_is_dir f b); intros E; inversion E; subst; [repeat split; reflexivity|].
    split; [reflexivity|]. split; [reflexivity|]. exists (NFile i). repeat split; reflexivity.
  - destruct (lookup f b) eqn:Eb; [intros E; inversion E; subst; repeat split; reflexivity|].
    destruct (parent_is_dir f b); intros E; inversion E; subst; [repeat split; reflexivity|].
    split; [reflexivity|]. split; [reflexivity|]. exists (NLink t m). repeat split; reflexivity.
Qed.

Lemma pstep_link a b f e f' : fs_link a b f = (e, f') -> pstep f f'.
Proof.
  intros E. destruct (link_facts a b f e f' E) as [A [B C]]. destruct e as [e|].
  - subst f'. apply pstep_refl.
  - destruct C as [n [_ [_ [Hb ->]]]]. apply pstep_of_keep; [|reflexivity|reflexivity].
    apply keep_add. exact Hb.
Qed.

Notation PQ := (DQ pcallc pstep).

Lemma PQ_step c r f1 w w' l :
  pcallc c = true -> pstep (w_fs w) f1 -> PQ (after_call c r f1 w) w' l -> PQ w w' (l ++ [(c, r)]).
Proof.
  intros Hc Hs H. eapply DQ_trans; [apply pstep_trans | apply DQ_call; [exact Hc | exact Hs] | exact H].
Qed.

(* ====================================================================== *)
(* 2. the programs of the snapshot, for every oracle                      *)
(* ====================================================================== *)

(* ----- single calls ----- *)

Lemma k_mkdir_spec2 d o w :
  post (fun v w1 => exists r, w1 = after_call (CMkdir d) r (w_fs w1) w /\ retv v r /\ pstep (w_fs w) (w_fs w1))
       (fun w1 => w1 = w) (k_mkdir d o w).
Proof.
  unfold k_mkdir. apply post_sys_unit; [reflexivity| |].
  - intros e. exists (RFault e). split; [reflexivity|]. split; [left; reflexivity | apply pstep_refl].
  - intros e f' E. exists (err_ret e). split; [reflexivity|]. split; [apply retv_err_ret|].
    cbn [after_call w_fs]. eapply pstep_mkdir; exact E.
Qed.

Lemma k_mkdirat_spec2 d rel o w :
  post (fun v w1 => exists r, w1 = after_call (CMkdirat d rel) r (w_fs w1) w /\ retv v r /\ pstep (w_fs w) (w_fs w1))
       (fun w1 => w1 = w) (k_mkdirat d rel o w).
Proof.
  unfold k_mkdirat. apply post_sys_unit; [reflexivity| |].
  - intros e. exists (RFault e). split; [reflexivity|]. split; [left; reflexivity | apply pstep_refl].
  - intros e f' E. exists (err_ret e). split; [reflexivity|]. split; [apply retv_err_ret|].
    cbn [after_call w_fs]. eapply pstep_mkdir; exact E.
Qed.

Lemma k_rmdir_spec2 d o w :
  post (fun v w1 => exists r, w1 = after_call (CRmdir d) r (w_fs w1) w /\ retv v r /\ pstep (w_fs w) (w_fs w1))
       (fun w1 => w1 = w) (k_rmdir d o w).
Proof.
  unfold k_rmdir. apply post_sys_unit; [reflexivity| |].
  - intros e. exists (RFault e). split; [reflexivity|]. split; [left; reflexivity | apply pstep_refl].
  - intros e f' E. exists (err_ret e). split; [reflexivity|]. split; [apply retv_err_ret|].
    cbn [after_call w_fs]. eapply pstep_rmdir; exact E.
Qed.

Lemma k_unlink_spec2 p o w : Str.under U p = true ->
  post (fun v w1 => exists r, w1 = after_call (CUnlink p) r (w_fs w1) w /\ retv v r /\ pstep (w_fs w) (w_fs w1))
       (fun w1 => w1 = w) (k_unlink p o w).
Proof.
  intros Hu. unfold k_unlink. apply post_sys_unit; [reflexivity| |].
  - intros e. exists (RFault e). split; [reflexivity|]. split; [left; reflexivity | apply pstep_refl].
  - intros e f' E. exists (err_ret e). split; [reflexivity|]. split; [apply retv_err_ret|].
    cbn [after_call w_fs]. eapply pstep_unlink; [exact Hu | exact E].
Qed.

Lemma k_linkat_spec2 a d rel o w :
  post (fun v w1 => exists r, w1 = after_call (CLinkat a d rel) r (w_fs w1) w /\ retv v r /\ pstep (w_fs w) (w_fs w1))
       (fun w1 => w1 = w) (k_linkat a d rel o w).
Proof.
  unfold k_linkat. apply post_sys_unit; [reflexivity| |].
  - intros e. exists (RFault e). split; [reflexivity|]. split; [left; reflexivity | apply pstep_refl].
  - intros e f' E. exists (err_ret e). split; [reflexivity|]. split; [apply retv_err_ret|].
    cbn [after_call w_fs]. eapply pstep_link; exact E.
Qed.

Lemma k_access_spec2 p o w :
  post (fun (_ : bool) w1 => exists r, w1 = after_call (CAccess p) r (w_fs w) w)
       (fun w1 => w1 = w) (k_access p o w).
Proof.
  unfold k_access. apply post_sys; [reflexivity| |].
  - intros e. exists (RFault e). reflexivity.
  - intros r a f' E. destruct (fs_exists p (w_fs w)); inversion E; subst; eexists; reflexivity.
Qed.

Lemma pbad_access p r : pbad (CAccess p, r) = false.
Proof. unfold badby. cbn [snd fst]. destruct (failed r); reflexivity. Qed.
Lemma pbad_close r : pbad (CClose, r) = false.
Proof. unfold badby. cbn [snd fst]. destruct (failed r); reflexivity. Qed.

(* ----- mkdir_all, create_parents ----- *)

Definition mk2_post (w w' : world) : Prop :=
  exists l, PQ w w' l /\ ((w_tr w' = w_tr w /\ nopb l) \/ trerr w w').
Definition p_crash (w w' : world) : Prop := exists l, PQ w w' l.

Lemma p_crash_refl w : p_crash w w.
Proof. exists []. apply DQ_refl. apply pstep_refl. Qed.

Lemma p_crash_step c r f1 w w' :
  pcallc c = true -> pstep (w_fs w) f1 -> p_crash (after_call c r f1 w) w' -> p_crash w w'.
Proof. intros Hc Hs [l H]. exists (l ++ [(c, r)]). eapply PQ_step; eassumption. Qed.

Lemma p_crash_trans w w1 w' l : PQ w w1 l -> p_crash w1 w' -> p_crash w w'.
Proof. intros H [l' H']. exists (l' ++ l). eapply DQ_trans; [apply pstep_trans | exact H | exact H']. Qed.

Lemma pbad_mkdir_ok d r v : retv v r -> match v with None | Some EEXIST => True | _ => False end ->
  pbad (CMkdir d, r) = false.
Proof.
  destruct v as [e|]; unfold retv; intros H He.
  - destruct e; try contradiction. destruct H as [E|E]; rewrite E; reflexivity.
  - rewrite H. reflexivity.
Qed.

Lemma mkdir_all_spec2 ds : forall o w,
  post (fun _ w' => mk2_post w w') (p_crash w) (mkdir_all ds o w).
Proof.
  induction ds as [|d ds IH]; intros o w; cbn [mkdir_all].
  - apply post_ret. exists []. split; [apply DQ_refl; apply pstep_refl|]. left. split; [reflexivity | apply nob_nil].
  - apply post_bind. eapply post_mono; [apply k_mkdir_spec2| |].
    + intros v w1 [r [E [Hv Hd]]]. cbv beta. rewrite E. set (w1' := after_call _ _ _ _).
      assert (Hcont : pbad (CMkdir d, r) = false ->
                      post (fun _ w' => mk2_post w w') (p_crash w) (mkdir_all ds o w1')).
      { intros Hb. eapply post_mono; [apply IH| |].
        - intros ? w' [l [Hdp Ht]]. exists (l ++ [(CMkdir d, r)]). split.
          + eapply PQ_step; [reflexivity | exact Hd | exact Hdp].
          + destruct Ht as [[T N]|T]; [left|right; exact T]. split; [exact T|]. apply nob_snoc; assumption.
        - intros w' H. apply (p_crash_step (CMkdir d) r (w_fs w1)); [reflexivity | exact Hd | exact H]. }
      assert (Hthrow : forall e,
                post (fun _ w' => mk2_post w w') (p_crash w)
                     ((throw_errno e;; throw_context d;; throw_static M_cannot_create_ancestor) o w1')).
      { intros e. unfold throw_errno, throw_context, throw_static. rewrite !bind_throw.
        cbn [post throw mod_tr bind get_tr set_tr].
        exists [(CMkdir d, r)]. split; [apply DQ_upd_r, DQ_call; [reflexivity | exact Hd]|].
        right. split; [reflexivity|]. split; [reflexivity | exact I]. }
      destruct v as [e|]; [destruct e|];
        first [ apply Hthrow | apply Hcont; eapply pbad_mkdir_ok; [exact Hv | exact I] ].
    + intros w1 ->. apply p_crash_refl.
Qed.

Lemma create_parents_spec2 p o w :
  tr_ok (w_tr w) = true ->
  post (fun _ w' => mk2_post w w') (p_crash w) (create_parents p o w).
Proof.
  intros Hok. unfold create_parents, when_ok. rewrite bind_is_ok, Hok. apply mkdir_all_spec2.
Qed.

(* ----- rmdir_up, remove_empty_parents, clean_up (directories outside U) ----- *)

Definition rm2_post (w w' : world) : Prop :=
  exists l, PQ w w' l /\ nopb l /\ (w_tr w' = w_tr w \/ trerr w w').

Lemma rm2_post_refl w : rm2_post w w.
Proof.
  exists []. split; [apply DQ_refl; apply pstep_refl|]. split; [apply nob_nil | left; reflexivity].
Qed.

Lemma pbad_rmdir_out d r : Str.under U d = false -> pbad (CRmdir d, r) = false.
Proof. intros H. unfold badby. cbn [snd fst preported]. rewrite H. destruct (failed r); reflexivity. Qed.

Lemma rmdir_up_spec2 ds : (forall d, In d ds -> Str.under U d = false) -> forall o w,
  post (fun _ w' => rm2_post w w') (p_crash w) (rmdir_up ds o w).
Proof.
  induction ds as [|d ds IH]; intros Hout o w; cbn [rmdir_up].
  - apply post_ret. apply rm2_post_refl.
  - assert (Hd0 : Str.under U d = false) by (apply Hout; left; reflexivity).
    assert (IH' := IH (fun x Hx => Hout x (or_intror Hx))). clear IH.
    apply post_bind. eapply post_mono; [apply k_rmdir_spec2| |].
    + intros v w1 [r [E [_ Hd]]]. cbv beta. rewrite E. set (w1' := after_call _ _ _ _).
      assert (Hstep : forall w', rm2_post w1' w' -> rm2_post w w').
      { intros w' [l [Hdp [N Ht]]]. exists (l ++ [(CRmdir d, r)]). split.
        - eapply PQ_step; [reflexivity | exact Hd | exact Hdp].
        - split; [apply nob_snoc; [exact N | apply pbad_rmdir_out; exact Hd0] | exact Ht]. }
      assert (Hcont : post (fun _ w' => rm2_post w w') (p_crash w) (rmdir_up ds o w1')).
      { eapply post_mono; [apply IH'| |].
        - intros ? w' H. apply Hstep. exact H.
        - intros w' H. apply (p_crash_step (CRmdir d) r (w_fs w1)); [reflexivity | exact Hd | exact H]. }
      assert (Hstop : post (fun _ w' => rm2_post w w') (p_crash w) (ret_ tt o w1')).
      { apply post_ret. apply Hstep. apply rm2_post_refl. }
      assert (Hthrow : forall e,
                post (fun _ w' => rm2_post w w') (p_crash w)
                     ((throw_errno e;; throw_context d;; throw_static M_cannot_remove_ancestor) o w1')).
      { intros e. unfold throw_errno, throw_context, throw_static. rewrite !bind_throw.
        cbn [post throw mod_tr bind get_tr set_tr].
        exists [(CRmdir d, r)]. split; [apply DQ_upd_r, DQ_call; [reflexivity | exact Hd]|].
        split; [apply nob_one; apply pbad_rmdir_out; exact Hd0|].
        right. split; [reflexivity|]. split; [reflexivity | exact I]. }
      destruct v as [e|]; [destruct e|]; first [ apply Hthrow | exact Hcont | exact Hstop ].
    + intros w1 ->. apply p_crash_refl.
Qed.

Definition parents_out (p : str) : Prop := forall d, In d (parents_of p) -> Str.under U d = false.

Lemma remove_empty_parents_spec2 p o w : parents_out p ->
  post (fun _ w' => rm2_post w w') (p_crash w) (remove_empty_parents p o w).
Proof.
  intros Hp. unfold remove_empty_parents, when_ok. rewrite bind_is_ok.
  destruct (tr_ok (w_tr w)); [|apply post_ret; apply rm2_post_refl].
  apply rmdir_up_spec2. intros d Hd. apply Hp. apply in_rev. exact Hd.
Qed.

(* clean_up: the trace comes back as it was; its failures are dropped *)
Definition cl2_post (w w' : world) : Prop :=
  exists l, PQ w w' l /\ nopb l /\ w_tr w' = w_tr w.

Lemma clean_up_spec2 p o w : parents_out p ->
  post (fun _ w' => cl2_post w w') (p_crash w) (clean_up p o w).
Proof.
  intros Hp. unfold clean_up. rewrite bind_get_tr, bind_set_tr.
  apply post_bind. eapply post_mono; [apply (remove_empty_parents_spec2 p o _ Hp)| |].
  - intros ? w1 [l [Hdp [N _]]]. cbv beta. unfold set_tr. cbn [post].
    exists l. split; [exact Hdp|]. split; [exact N | reflexivity].
  - intros w1 [l Hdp]. exists l. exact Hdp.
Qed.


(* ----- sequencing ----- *)

Lemma throw_errno_run e o w : throw_errno e o w = (Some tt, upd_tr (tr_push (FErrno e) (w_tr w)) w).
Proof. reflexivity. Qed.
Lemma throw_static_run m o w : throw_static m o w = (Some tt, upd_tr (tr_push (FStatic m) (w_tr w)) w).
Proof. reflexivity. Qed.

Lemma mk2_post_refl w : mk2_post w w.
Proof. exists []. split; [apply DQ_refl; apply pstep_refl|]. left. split; [reflexivity | apply nob_nil]. Qed.

Lemma mk2_post_trans w w1 w2 : mk2_post w w1 -> mk2_post w1 w2 -> mk2_post w w2.
Proof.
  intros [l1 [P1 T1]] [l2 [P2 T2]]. exists (l2 ++ l1).
  split; [eapply DQ_trans; [apply pstep_trans | exact P1 | exact P2]|].
  destruct T1 as [[E1 N1]|E1].
  - destruct T2 as [[E2 N2]|E2].
    + left. split; [congruence | apply nob_app; split; assumption].
    + right. destruct E2 as [A [B C]]. split; [rewrite A, E1; reflexivity|].
      split; [rewrite B, E1; reflexivity | exact C].
  - right. destruct E1 as [A1 [B1 C1]]. destruct T2 as [[E2 _]|[A2 [B2 C2]]].
    + unfold trerr. rewrite E2. split; [exact A1|]. split; [exact B1 | exact C1].
    + split; [congruence|]. split; [congruence | exact C2].
Qed.

Lemma mk2_seq {A B} (m : M A) (k : A -> M B) o w :
  post (fun _ w1 => mk2_post w w1) (p_crash w) (m o w) ->
  (forall a w1, mk2_post w w1 -> post (fun _ w' => mk2_post w1 w') (p_crash w1) (k a o w1)) ->
  post (fun _ w' => mk2_post w w') (p_crash w) (bind m k o w).
Proof.
  intros Hm Hk. apply post_bind. eapply post_mono; [exact Hm| |auto].
  intros a w1 H1. cbv beta. eapply post_mono; [apply (Hk a w1 H1)| |].
  - intros b w' H2. exact (mk2_post_trans _ _ _ H1 H2).
  - intros w' H'. destruct H1 as [l [P _]]. exact (p_crash_trans _ _ _ _ P H').
Qed.

Lemma call_throw_spec c (m : M (option errno)) o w :
  pcallc c = true ->
  post (fun v w1 => exists r, w1 = after_call c r (w_fs w1) w /\ retv v r /\ pstep (w_fs w) (w_fs w1))
       (fun w1 => w1 = w) (m o w) ->
  post (fun _ w' => mk2_post w w') (p_crash w)
       ((do r <- m; match r with Some e => throw_errno e | None => ret_ tt end) o w).
Proof.
  intros Hc H. apply post_bind. eapply post_mono; [exact H| |].
  - intros v w1 [r [E [Hv Hs]]]. cbv beta. rewrite E. set (w1' := after_call _ _ _ _).
    assert (HP : PQ w w1' [(c, r)]) by (apply DQ_call; assumption).
    destruct v as [e|].
    + rewrite throw_errno_run. cbn [post]. exists [(c, r)]. split; [apply DQ_upd_r; exact HP|].
      right. split; [reflexivity|]. split; [reflexivity | exact I].
    + apply post_ret. exists [(c, r)]. split; [exact HP|]. left. split; [reflexivity|].
      apply nob_one. apply badby_ok. apply retv_none_failed. exact Hv.
  - intros w1 ->. apply p_crash_refl.
Qed.

Lemma access_then_spec filt (k : bool -> M unit) o w :
  (forall b w1, post (fun _ w' => mk2_post w1 w') (p_crash w1) (k b o w1)) ->
  post (fun _ w' => mk2_post w w') (p_crash w) ((do ex <- k_access filt; k ex) o w).
Proof.
  intros Hk. apply mk2_seq; [|intros b w1 _; apply Hk].
  eapply post_mono; [apply k_access_spec2| |].
  - intros b w1 [r ->]. exists [(CAccess filt, r)].
    split; [apply DQ_call; [reflexivity | apply pstep_refl]|]. left. split; [reflexivity|].
    apply nob_one. apply pbad_access.
  - intros w1 ->. apply p_crash_refl.
Qed.

(* ----- the walk ----- *)

Lemma tree_loop_spec ents : (forall p k, In (p, k) ents -> Str.under U p = true) ->
  forall src_len dst filt o w,
  post (fun _ w' => mk2_post w w') (p_crash w) (tree_loop ents src_len dst filt o w).
Proof.
  induction ents as [|[p k] ents IH]; intros Hall src_len dst filt o w; cbn [tree_loop].
  - apply post_ret. apply mk2_post_refl.
  - assert (Hp : Str.under U p = true) by (apply (Hall p k); left; reflexivity).
    assert (IH' := IH (fun p' k' H => Hall p' k' (or_intror H))). clear IH.
    rewrite bind_is_ok. destruct (tr_ok (w_tr w)); cbn [negb]; [|apply post_ret; apply mk2_post_refl].
    apply mk2_seq; [|intros _ w1 _; apply IH'].
    destruct k; apply access_then_spec; intros b w1; destruct b;
      first [ apply post_ret; apply mk2_post_refl
            | apply (call_throw_spec (CMkdirat dst (skipn (S src_len) p))); [reflexivity | apply k_mkdirat_spec2]
            | apply (call_throw_spec (CRmdir p)); [reflexivity | apply k_rmdir_spec2]
            | apply (call_throw_spec (CLinkat p dst (skipn (S src_len) p))); [reflexivity | apply k_linkat_spec2]
            | apply (call_throw_spec (CUnlink p)); [reflexivity | apply k_unlink_spec2; exact Hp] ].
Qed.

(* ----- sync_shallow_tree: done / expected condition / failed ----- *)

Definition expm (m : msg) : Prop := m = M_dst_exists \/ m = M_src_missing \/ m = M_src_denied.

Definition OC (w : world) (t : trace) (l : list (call * ret)) : Prop :=
  (t = w_tr w /\ nopb l) \/
  (exists m, expm m /\ t = tr_push (FStatic m) (w_tr w) /\ nopb l) \/
  (t_pre t = t_pre (w_tr w) /\ t_post t = t_post (w_tr w) /\ uncatchable (t_frames t)).

Definition sst_post (w w' : world) : Prop := exists l, PQ w w' l /\ OC w (w_tr w') l.

Lemma OC_ext w t l l' : OC w t l -> nopb l' -> OC w t (l' ++ l).
Proof.
  intros [[E N]|[[m [Hm [E N]]]|H]] N'.
  - left. split; [exact E | apply nob_app; split; assumption].
  - right. left. exists m. split; [exact Hm|]. split; [exact E | apply nob_app; split; assumption].
  - right. right. exact H.
Qed.

Lemma sst_of_mk2 w w' : mk2_post w w' -> sst_post w w'.
Proof.
  intros [l [P [[E N]|T]]]; exists l; (split; [exact P|]).
  - left. split; assumption.
  - right. right. exact T.
Qed.

Lemma sst_crash w w1 w' : sst_post w w1 -> p_crash w1 w' -> p_crash w w'.
Proof. intros [l [P _]] H. eapply p_crash_trans; eauto. Qed.

Lemma sst_then_cl w w1 w2 : sst_post w w1 -> cl2_post w1 w2 -> sst_post w w2.
Proof.
  intros [l [P O1]] [l' [P' [N' T']]]. exists (l' ++ l).
  split; [eapply DQ_trans; [apply pstep_trans | exact P | exact P']|].
  rewrite T'. apply OC_ext; assumption.
Qed.

Lemma sst_close o w w1 : sst_post w w1 -> post (fun _ w' => sst_post w w') (p_crash w) (k_close o w1).
Proof.
  intros H1. eapply post_mono; [apply k_close_spec| |].
  - intros v w2 [r [-> _]]. destruct H1 as [l [P O1]]. exists ([(CClose, r)] ++ l).
    split; [eapply DQ_trans; [apply pstep_trans | exact P | apply DQ_call; [reflexivity | apply pstep_refl]]|].
    cbn [after_call w_tr]. apply OC_ext; [exact O1 | apply nob_one; apply pbad_close].
  - intros w2 ->. eapply sst_crash; [exact H1 | apply p_crash_refl].
Qed.

Lemma sst_cleanup dst o w w1 : parents_out dst -> sst_post w w1 ->
  post (fun _ w' => sst_post w w') (p_crash w) (clean_up dst o w1).
Proof.
  intros Hp H1. eapply post_mono; [apply (clean_up_spec2 dst o w1 Hp)| |].
  - intros u0 w2 H2. cbv beta in H2. exact (sst_then_cl _ _ _ H1 H2).
  - intros w2 H2. exact (sst_crash _ _ _ H1 H2).
Qed.

Lemma sst_tail dst (opened : bool) o w w1 : parents_out dst -> sst_post w w1 ->
  post (fun _ w' => sst_post w w') (p_crash w)
       (((if opened then k_close;; ret_ tt else ret_ tt);; clean_up dst) o w1).
Proof.
  intros Hp H1. destruct opened.
  - rewrite bind_assoc. apply post_bind. eapply post_mono; [apply (sst_close o w w1 H1)| |auto].
    intros u0 w2 H2. cbv beta in H2. cbv beta. rewrite bind_ret. apply sst_cleanup; assumption.
  - rewrite bind_ret. apply sst_cleanup; assumption.
Qed.

Lemma sst_end dst o w w1 : parents_out dst -> sst_post w w1 ->
  post (fun _ w' => sst_post w w') (p_crash w)
       ((k_close;; do b3 <- is_ok; if negb b3 then clean_up dst else ret_ tt) o w1).
Proof.
  intros Hp H1. apply post_bind. eapply post_mono; [apply (sst_close o w w1 H1)| |auto].
  intros u0 w2 H2. cbv beta in H2. cbv beta. rewrite bind_is_ok. destruct (tr_ok (w_tr w2)); cbn [negb].
  - apply post_ret. exact H2.
  - apply sst_cleanup; assumption.
Qed.

Definition sst_walk (rev : bool) (dst src filt : str) : M unit :=
  do w <- k_fts rev src;
  match w with
  | inr e =>
      match e with
      | ENOENT => throw_static M_src_missing
      | EACCES => throw_static M_src_denied
      | _ => throw_errno e
      end
  | inl ents => tree_loop ents (length src) dst filt
  end;;
  k_close;;
  do b3 <- is_ok;
  if negb b3 then clean_up dst else ret_ tt.

Definition sst_rest (rev : bool) (dst src filt : str) : M unit :=
  do b1 <- is_ok;
  do opened <-
    (if b1 then
       do d <- k_open_read dst;
       match d with inr e => throw_errno e;; ret_ false | inl _ => ret_ true end
     else ret_ false);
  do b2 <- is_ok;
  if negb b2 then
    (if opened then k_close;; ret_ tt else ret_ tt);;
    clean_up dst
  else sst_walk rev dst src filt.

Lemma sst_unfold rev dst src filt :
  sync_shallow_tree rev dst src filt =
  (create_parents dst;;
   do b <- is_ok;
   (if b then
      do r <- k_mkdir dst;
      match r with
      | None => ret_ tt
      | Some EEXIST => throw_static M_dst_exists
      | Some e => throw_errno e
      end
    else ret_ tt);;
   sst_rest rev dst src filt).
Proof. reflexivity. Qed.

Lemma sst_rest_fail rev dst filt o w w1 : parents_out dst -> sst_post w w1 -> tr_ok (w_tr w1) = false ->
  post (fun _ w' => sst_post w w') (p_crash w) (sst_rest rev dst U filt o w1).
Proof.
  intros Hp H1 Hno. unfold sst_rest. rewrite bind_is_ok, Hno, bind_ret, bind_is_ok, Hno. cbn [negb].
  apply (sst_tail dst false); assumption.
Qed.

Lemma k_fts_spec2 rev src o w :
  post (fun v w1 => exists r, w1 = after_call (CFtsOpen src) r (w_fs w) w /\
          match v with
          | inr e => r = RFault e
          | inl ents => r = ROk /\ ents = fs_walk rev (w_fs w) src
          end)
       (fun w1 => w1 = w) (k_fts rev src o w).
Proof.
  unfold k_fts. apply post_sys; [reflexivity| |].
  - intros e. exists (RFault e). split; reflexivity.
  - intros r a f' E. inversion E; subst. exists ROk. split; [reflexivity|]. split; reflexivity.
Qed.

(* the state "nothing reported so far, trace as at the start" *)
Definition okst (w w1 : world) : Prop := exists l, PQ w w1 l /\ w_tr w1 = w_tr w /\ nopb l.

Lemma okst_sst w w1 : okst w w1 -> sst_post w w1.
Proof. intros [l [P [T N]]]. exists l. split; [exact P|]. left. split; assumption. Qed.

Lemma okst_call w w1 c r f1 :
  okst w w1 -> pcallc c = true -> pstep (w_fs w1) f1 -> pbad (c, r) = false ->
  okst w (after_call c r f1 w1).
Proof.
  intros [l [P [T N]]] Hc Hs Hb. exists ([(c, r)] ++ l).
  split; [eapply DQ_trans; [apply pstep_trans | exact P | apply DQ_call; assumption]|].
  split; [exact T|]. apply nob_app. split; [apply nob_one; exact Hb | exact N].
Qed.

(* a call was made from an okst state, then a frame was thrown *)
Lemma okst_call_throw w w1 c r f1 fr :
  okst w w1 -> pcallc c = true -> pstep (w_fs w1) f1 ->
  (match fr with
   | FErrno _ => True
   | FStatic m => expm m /\ pbad (c, r) = false
   | _ => False
   end) ->
  sst_post w (upd_tr (tr_push fr (w_tr w1)) (after_call c r f1 w1)).
Proof.
  intros [l [P [T N]]] Hc Hs Hfr. exists ([(c, r)] ++ l).
  split; [apply DQ_upd_r; eapply DQ_trans; [apply pstep_trans | exact P | apply DQ_call; assumption]|].
  cbn [upd_tr w_tr]. rewrite T. destruct fr as [m|e|s|s]; try contradiction.
  - destruct Hfr as [Hm Hb]. right. left. exists m. split; [exact Hm|]. split; [reflexivity|].
    apply nob_app. split; [apply nob_one; exact Hb | exact N].
  - right. right. split; [reflexivity|]. split; [reflexivity | exact I].
Qed.

Lemma okst_then_mk2 w w1 w2 : okst w w1 -> mk2_post w1 w2 -> sst_post w w2.
Proof.
  intros [l [P [T N]]] [l' [P' H']]. exists (l' ++ l).
  split; [eapply DQ_trans; [apply pstep_trans | exact P | exact P']|].
  destruct H' as [[T' N']|[A [B C]]].
  - left. split; [congruence | apply nob_app; split; assumption].
  - right. right. rewrite <- T. split; [exact A|]. split; [exact B | exact C].
Qed.

Lemma sst_walk_spec rev dst filt o w w1 :
  parents_out dst -> U <> root_path -> U <> [] -> okst w w1 ->
  post (fun _ w' => sst_post w w') (p_crash w) (sst_walk rev dst U filt o w1).
Proof.
  intros Hp Hur Hue H1. unfold sst_walk.
  apply post_bind. eapply post_mono; [apply k_fts_spec2| |].
  - intros v w2 [r [-> Hv]]. cbv beta. set (w2' := after_call _ _ _ _).
    destruct v as [ents|e].
    + destruct Hv as [-> ->].
      assert (H2 : okst w w2').
      { apply okst_call; [exact H1 | reflexivity | apply pstep_refl | reflexivity]. }
      apply post_bind. eapply post_mono; [apply tree_loop_spec| |].
      * intros q k Hin. destruct (Confine2.fs_walk_inside _ _ _ _ _ Hur Hue Hin) as [x ->].
        unfold Str.under. apply prefixb_spec. exists x. rewrite <- app_assoc. reflexivity.
      * intros u0 w3 H3. cbv beta in H3. cbv beta. apply sst_end; [exact Hp|]. eapply okst_then_mk2; eauto.
      * intros w3 H3. eapply sst_crash; [apply okst_sst; exact H2 | exact H3].
    + subst r.
      assert (Hthrow : forall fr,
                match fr with
                | FErrno _ => True
                | FStatic m => expm m /\ pbad (CFtsOpen U, RFault e) = false
                | _ => False
                end ->
                post (fun _ w' => sst_post w w') (p_crash w)
                  ((k_close;; do b3 <- is_ok; if negb b3 then clean_up dst else ret_ tt)
                     o (upd_tr (tr_push fr (w_tr w2')) w2'))).
      { intros fr Hfr. apply sst_end; [exact Hp|].
        apply (okst_call_throw w w1 (CFtsOpen U) (RFault e) (w_fs w1) fr H1); [reflexivity | apply pstep_refl | exact Hfr]. }
      destruct e; first [ unfold throw_static; rewrite bind_throw; apply Hthrow; split; [unfold expm; tauto | reflexivity]
                        | unfold throw_errno; rewrite bind_throw; apply Hthrow; exact I ].
  - intros w2 ->. eapply sst_crash; [apply okst_sst; exact H1 | apply p_crash_refl].
Qed.

Lemma sst_rest_ok rev dst filt o w w1 :
  parents_out dst -> U <> root_path -> U <> [] -> okst w w1 -> tr_ok (w_tr w1) = true ->
  post (fun _ w' => sst_post w w') (p_crash w) (sst_rest rev dst U filt o w1).
Proof.
  intros Hp Hur Hue H1 Hok. unfold sst_rest. rewrite bind_is_ok, Hok. rewrite bind_assoc.
  apply post_bind. eapply post_mono; [apply open_gen_spec| |].
  - intros d w2 [r [E [Hr Hfs]]]. cbv beta.
    assert (F2 : w_fs w2 = w_fs w1).
    { destruct Hfs as [[e [_ [_ F]]]|F]; [exact F | inversion F; reflexivity]. }
    rewrite E, F2. set (w2' := after_call _ _ _ _).
    destruct d as [fd|e].
    + assert (H2 : okst w w2').
      { apply okst_call; [exact H1 | reflexivity | apply pstep_refl | apply badby_ok; exact Hr]. }
      rewrite bind_ret, bind_is_ok. change (w_tr w2') with (w_tr w1). rewrite Hok. cbn [negb].
      apply sst_walk_spec; assumption.
    + unfold throw_errno. rewrite bind_assoc, bind_throw, bind_ret, bind_is_ok. cbn [upd_tr w_tr tr_ok tr_push t_frames negb].
      apply (sst_tail dst false); [exact Hp|].
      apply (okst_call_throw w w1 (COpenR dst) r (w_fs w1) (FErrno e) H1); [reflexivity | apply pstep_refl | exact I].
  - intros w2 ->. eapply sst_crash; [apply okst_sst; exact H1 | apply p_crash_refl].
Qed.

Theorem sync_shallow_tree_spec rev dst filt o w :
  tr_ok (w_tr w) = true -> parents_out dst -> U <> root_path -> U <> [] ->
  post (fun _ w' => sst_post w w') (p_crash w) (sync_shallow_tree rev dst U filt o w).
Proof.
  intros Hok Hp Hur Hue. rewrite sst_unfold.
  apply post_bind. eapply post_mono; [apply (create_parents_spec2 dst o w Hok)| |auto].
  intros u0 w1 H1. cbv beta in H1. cbv beta. rewrite bind_is_ok.
  destruct H1 as [l1 [P1 [[T1 N1]|T1]]].
  - (* the ancestors are there: mkdir of the snapshot directory *)
    assert (Hok1 : tr_ok (w_tr w1) = true) by (rewrite T1; exact Hok).
    assert (H1 : okst w w1) by (exists l1; auto).
    rewrite Hok1. rewrite bind_assoc.
    apply post_bind. eapply post_mono; [apply k_mkdir_spec2| |].
    + intros v w2 [r [E [Hv Hs]]]. cbv beta. rewrite E. set (w2' := after_call _ _ _ _).
      assert (Hthrow : forall fr,
                match fr with
                | FErrno _ => True
                | FStatic m => expm m /\ pbad (CMkdir dst, r) = false
                | _ => False
                end ->
                post (fun _ w' => sst_post w w') (p_crash w)
                  (sst_rest rev dst U filt o (upd_tr (tr_push fr (w_tr w2')) w2'))).
      { intros fr Hfr. apply sst_rest_fail; [exact Hp | | reflexivity].
        apply (okst_call_throw w w1 (CMkdir dst) r (w_fs w2) fr H1); [reflexivity | exact Hs | exact Hfr]. }
      destruct v as [e|].
      * destruct e;
          first [ unfold throw_static; rewrite bind_throw; apply Hthrow;
                  split; [unfold expm; tauto | eapply pbad_mkdir_ok; [exact Hv | exact I]]
                | unfold throw_errno; rewrite bind_throw; apply Hthrow; exact I ].
      * rewrite bind_ret. apply sst_rest_ok; try assumption.
        apply okst_call; [exact H1 | reflexivity | exact Hs | eapply pbad_mkdir_ok; [exact Hv | exact I]].
    + intros w2 ->. eapply sst_crash; [apply okst_sst; exact H1 | apply p_crash_refl].
  - rewrite (trerr_notok _ _ T1), bind_ret. apply sst_rest_fail; [exact Hp | | apply (trerr_notok _ _ T1)].
    exists l1. split; [exact P1|]. right. right. exact T1.
Qed.


(* ----- project_store_loop ----- *)

Definition psl_post (w w' : world) : Prop :=
  exists l, PQ w w' l /\
    ((w_tr w' = w_tr w /\ nopb l) \/
     (t_pre (w_tr w') = t_pre (w_tr w) /\ t_post (w_tr w') = 0 /\ uncatchable (t_frames (w_tr w')))).

(* the ancestors of every candidate name of the snapshot lie outside U *)
Definition names_out (sp : store_path) : Prop :=
  forall n, parents_out (current_path (mkSP (sp_base sp) (sp_ext sp) n)).

Ltac cstep2 H :=
  rewrite bind_catch_static, H; cbn [msg_eqb fst snd]; rewrite ?upd_tr_same, ?bind_ret; cbv iota.

Theorem project_store_loop_spec rev head cfg o fuel : forall sp ev w,
  names_out sp -> U <> root_path -> U <> [] ->
  t_frames (w_tr w) = [] -> t_post (w_tr w) = 0 ->
  post (fun _ w' => psl_post w w') (p_crash w) (project_store_loop fuel rev sp U head cfg ev o w).
Proof.
  induction fuel as [|fuel IH]; intros sp ev w Hn Hur Hue Hfr Hpo; cbn [project_store_loop].
  - apply post_ret. exists []. split; [apply DQ_refl; apply pstep_refl|]. left. split; [reflexivity | apply nob_nil].
  - destruct (w_tr w) as [fr pre po] eqn:Etr. cbn [t_frames t_post] in Hfr, Hpo. subst fr po.
    rewrite bind_is_ok, Etr. cbn [tr_ok t_frames negb]. unfold try_. rewrite bind_mod_tr, Etr.
    change (tr_try (mkTr [] pre 0)) with (mkTr [] (S pre) 0).
    set (wa := upd_tr (mkTr [] (S pre) 0) w).
    assert (Hcur : parents_out (current_path sp)).
    { specialize (Hn (sp_dups sp)). destruct sp; exact Hn. }
    apply post_bind.
    eapply post_mono; [apply (sync_shallow_tree_spec rev (current_path sp) head o wa eq_refl Hcur Hur Hue)| |].
    + intros u0 w1 [l1 [P1 O1]]. cbv beta. change (w_tr wa) with (mkTr [] (S pre) 0) in O1.
      assert (P1' : PQ w w1 l1) by exact P1.
      destruct O1 as [[T1 N1]|[[m [Hm [T1 N1]]]|[A1 [B1 C1]]]].
      * (* the snapshot is complete *)
        assert (F1 : t_frames (w_tr w1) = []) by (rewrite T1; reflexivity).
        pose proof (fun m => catch_nil m _ F1) as Hc.
        cstep2 Hc. cstep2 Hc. rewrite bind_assoc. cstep2 Hc. apply finally_ret.
        exists l1. split; [exact P1'|]. left. cbn [upd_tr w_tr]. rewrite T1, Etr. split; [reflexivity | exact N1].
      * cbn [tr_push t_frames t_pre t_post] in T1.
        assert (F1 : t_frames (w_tr w1) = [FStatic m]) by (rewrite T1; reflexivity).
        assert (Q1 : t_post (w_tr w1) = 0) by (rewrite T1; reflexivity).
        assert (R1 : t_pre (w_tr w1) = S pre) by (rewrite T1; reflexivity).
        destruct Hm as [->|[->| ->]].
        -- (* the name is taken: next name *)
           cstep2 (catch_single M_dst_exists _ _ F1 Q1). unfold finally_. rewrite bind_mod_tr. rewrite R1.
           cbn [upd_tr w_tr]. change (tr_finally (mkTr [] (S pre) 0)) with (mkTr [] pre 0).
           set (wb := upd_tr (mkTr [] pre 0) _).
           eapply post_mono; [apply (IH (increment sp) ev wb); [intros k; apply Hn | exact Hur | exact Hue | reflexivity | reflexivity]| |].
           ++ intros u1 w' [l [P O2]]. cbv beta. exists (l ++ l1).
              split; [eapply DQ_trans; [apply pstep_trans | exact P1' | exact P]|].
              change (w_tr wb) with (mkTr [] pre 0) in O2. rewrite Etr.
              destruct O2 as [[T2 N2]|O2]; [left | right; exact O2].
              split; [exact T2 | apply nob_app; split; assumption].
           ++ intros w' H'. exact (p_crash_trans _ _ _ _ P1' H').
        -- (* the unstable tree is gone *)
           cstep2 (catch_single M_dst_exists _ _ F1 Q1). cstep2 (catch_single M_src_missing _ _ F1 Q1).
           apply finally_ret. exists l1. split; [exact P1'|]. left. cbn [upd_tr w_tr]. rewrite R1, Etr.
           split; [reflexivity | exact N1].
        -- (* ... may not be read *)
           cstep2 (catch_single M_dst_exists _ _ F1 Q1). cstep2 (catch_single M_src_missing _ _ F1 Q1).
           rewrite bind_assoc. cstep2 (catch_single M_src_denied _ _ F1 Q1).
           apply finally_ret. exists l1. split; [exact P1'|]. left. cbn [upd_tr w_tr]. rewrite R1, Etr.
           split; [reflexivity | exact N1].
      * (* an error is on the trace: it stays there *)
        cbn [t_pre t_post] in A1, B1.
        assert (Hc : forall m, caught_msg m -> tr_catch_static m (w_tr w1) = (false, w_tr w1))
          by (intros m Hm; apply catch_uncatchable; assumption).
        assert (Hc1 := Hc M_dst_exists (or_intror (or_intror (or_intror eq_refl)))).
        assert (Hc2 := Hc M_src_missing (or_introl eq_refl)).
        assert (Hc3 := Hc M_src_denied (or_intror (or_intror (or_introl eq_refl)))).
        cstep2 Hc1. cstep2 Hc2. rewrite bind_assoc. cstep2 Hc3. apply finally_ret.
        exists l1. split; [exact P1'|]. right. cbn [upd_tr w_tr]. rewrite Etr. cbn [t_pre].
        destruct (tr_finally_post0 (w_tr w1) B1) as [Z1 Z2].
        split; [unfold tr_finally, tr_decrement; rewrite B1; cbn [snd t_pre]; rewrite A1; reflexivity|].
        split; [exact Z1 | rewrite Z2; exact C1].
    + intros w' H'. exact H'.
Qed.

(* ====================================================================== *)
(* 3. the journal line and the pop, for every oracle                      *)
(* ====================================================================== *)

Definition wcallc (c : call) : bool := match c with CWrite _ => true | _ => false end.
Definition rcallc (c : call) : bool :=
  match c with CReadlinkat _ _ _ | CUnlinkat _ _ => true | _ => false end.

(* an unlinkat that took effect *)
Definition unlinked (cr : call * ret) : bool :=
  match fst cr with
  | CUnlinkat _ _ => match failed (snd cr) with None => true | Some _ => false end
  | _ => false
  end.

Lemma bind_get_clock {B} (k : Z -> M B) o w : bind get_clock k o w = k (w_clock w) o w.
Proof. reflexivity. Qed.

(* ----- record_event ----- *)

Lemma tr_rec_failed m s t :
  tr_ok t = false ->
  tr_finally_rethrow_static m (tr_try t) = t /\
  tr_finally_rethrow_static m (tr_rethrow_context s (tr_try t)) = t.
Proof.
  destruct t as [fr pre po]. destruct fr as [|x fr]; [discriminate|]. intros _. split; reflexivity.
Qed.

Lemma record_event_failed ev pid path h o w :
  tr_ok (w_tr w) = false -> record_event ev pid path h o w = (Some tt, w).
Proof.
  intros Hno. unfold record_event, try_. rewrite bind_mod_tr.
  set (wa := upd_tr (tr_try (w_tr w)) w).
  assert (Hna : tr_ok (w_tr wa) = false).
  { unfold wa. cbn [upd_tr w_tr]. destruct (w_tr w) as [fr pre po]. destruct fr; [discriminate | reflexivity]. }
  assert (En : note ev pid path (h_journal h) o wa = (Some tt, wa)).
  { unfold note. destruct (h_journal h) as [jn|]; [|reflexivity]. destruct ev as [e|]; [|reflexivity].
    unfold when_ok. rewrite bind_is_ok, Hna. reflexivity. }
  unfold bind at 1. rewrite En.
  destruct (tr_rec_failed M_journal_cannot_write [] (w_tr w) Hno) as [E1 _].
  destruct (c_journal_path (h_cfg h)) as [jp|].
  - destruct (tr_rec_failed M_journal_cannot_write jp (w_tr w) Hno) as [_ E2].
    unfold rethrow_context. rewrite bind_mod_tr. unfold finally_rethrow_static, mod_tr, bind, get_tr, set_tr.
    cbn [upd_tr w_tr w_fs w_n w_log w_clock wa]. rewrite E2. destruct w; reflexivity.
  - rewrite bind_ret. unfold finally_rethrow_static, mod_tr, bind, get_tr, set_tr.
    cbn [upd_tr w_tr w_fs w_n w_log w_clock wa]. rewrite E1. destruct w; reflexivity.
Qed.

Lemma k_write_spec2 i bytes o w :
  post (fun v w1 => exists lim r, w1 = after_call (CWrite lim) r (w_fs w1) w /\ reto v r /\
                                  inostep i (w_fs w) (w_fs w1))
       (fun w1 => w1 = w) (k_write i bytes o w).
Proof.
  unfold k_write. unfold bind at 1. unfold transfer_limit at 1.
  set (lim := match o (w_n w) with FShort n => _ | FChunk n => _ | _ => _ end).
  apply post_sys; [reflexivity| |].
  - intros e. exists lim, (RFault e). split; [reflexivity|]. split; [left; reflexivity | apply inostep_refl].
  - intros r a f' E. inversion E; subst. eexists lim, _. split; [reflexivity|].
    split; [reflexivity | apply inostep_append].
Qed.

Definition wa_post (i : nat) (w w' : world) : Prop :=
  exists l, DQ wcallc (inostep i) w w' l /\ ((w_tr w' = w_tr w /\ nopb l) \/ trerr w w').
Definition wa_crash (i : nat) (w w' : world) : Prop := exists l, DQ wcallc (inostep i) w w' l.

Lemma write_all_spec2 fuel : forall i bytes o w,
  post (fun _ w' => wa_post i w w') (wa_crash i w) (write_all fuel i bytes o w).
Proof.
  induction fuel as [|fuel IH]; intros i bytes o w; cbn [write_all].
  - apply post_ret. exists []. split; [apply DQ_refl; apply inostep_refl|]. left. split; [reflexivity | apply nob_nil].
  - destruct bytes as [|b0 bytes'].
    + apply post_ret. exists []. split; [apply DQ_refl; apply inostep_refl|]. left. split; [reflexivity | apply nob_nil].
    + apply post_bind. eapply post_mono; [apply k_write_spec2| |].
      * intros v w1 [lim [r [E [Hr Hi]]]]. cbv beta. rewrite E. set (w1' := after_call _ _ _ _).
        assert (HP : DQ wcallc (inostep i) w w1' [(CWrite lim, r)]) by (apply DQ_call; [reflexivity | exact Hi]).
        destruct v as [n|e].
        -- eapply post_mono; [apply IH| |].
           ++ intros u0 w' [l [P' H']]. exists (l ++ [(CWrite lim, r)]).
              split; [eapply DQ_trans; [apply inostep_trans | exact HP | exact P']|].
              destruct H' as [[T N]|T]; [left | right; exact T].
              split; [exact T|]. apply nob_snoc; [exact N | apply badby_ok; exact Hr].
           ++ intros w' [l P']. exists (l ++ [(CWrite lim, r)]).
              eapply DQ_trans; [apply inostep_trans | exact HP | exact P'].
        -- rewrite throw_errno_run. cbn [post]. exists [(CWrite lim, r)]. split; [apply DQ_upd_r; exact HP|].
           right. split; [reflexivity|]. split; [reflexivity | exact I].
      * intros w1 ->. exists []. apply DQ_refl. apply inostep_refl.
Qed.

(* only the content of the journal's inode may change *)
Definition jstep (j : option journal) (f f' : fs) : Prop :=
  fs_dents f' = fs_dents f /\ fs_next f' = fs_next f /\
  forall k, (forall jn, j = Some jn -> k <> j_ino jn) -> get_file f' k = get_file f k.

Lemma jstep_refl j f : jstep j f f.
Proof. repeat split; reflexivity. Qed.
Lemma jstep_trans j f0 f1 f2 : jstep j f0 f1 -> jstep j f1 f2 -> jstep j f0 f2.
Proof.
  intros [A1 [B1 C1]] [A2 [B2 C2]]. split; [congruence|]. split; [congruence|].
  intros k Hk. rewrite C2 by exact Hk. apply C1. exact Hk.
Qed.
Lemma jstep_of_inostep jn f f' : inostep (j_ino jn) f f' -> jstep (Some jn) f f'.
Proof.
  intros [A [B C]]. split; [exact A|]. split; [exact B|]. intros k Hk. apply C. apply (Hk jn). reflexivity.
Qed.

Definition re_post (j : option journal) (w w' : world) : Prop :=
  exists l, DQ wcallc (jstep j) w w' l /\
    ((w_tr w' = w_tr w /\ nopb l) \/ (tr_ok (w_tr w') = false /\ t_post (w_tr w') = 0)).
Definition re_crash (j : option journal) (w w' : world) : Prop := exists l, DQ wcallc (jstep j) w w' l.

Definition close_tr (jp : option str) (t : trace) : trace :=
  tr_finally_rethrow_static M_journal_cannot_write
    (match jp with Some p => tr_rethrow_context p t | None => t end).

Lemma record_event_run ev pid path h o w :
  record_event ev pid path h o w =
  (let (r, w2) := note ev pid path (h_journal h) o (upd_tr (tr_try (w_tr w)) w) in
   match r with
   | Some _ => (Some tt, upd_tr (close_tr (c_journal_path (h_cfg h)) (w_tr w2)) w2)
   | None => (None, w2)
   end).
Proof.
  unfold record_event, try_. rewrite bind_mod_tr. unfold bind at 1.
  destruct (note ev pid path (h_journal h) o (upd_tr (tr_try (w_tr w)) w)) as [[u|] w2]; [|reflexivity].
  unfold close_tr. destruct (c_journal_path (h_cfg h)); reflexivity.
Qed.

Lemma close_tr_ok jp pre : close_tr jp (mkTr [] (S pre) 0) = mkTr [] pre 0.
Proof. destruct jp; reflexivity. Qed.

Lemma close_tr_fail jp t : tr_ok t = false -> t_post t = 0 ->
  tr_ok (close_tr jp t) = false /\ t_post (close_tr jp t) = 0.
Proof.
  destruct t as [fr pre po]. destruct fr as [|x fr]; [discriminate|]. cbn [t_post]. intros _ ->.
  destruct jp; split; reflexivity.
Qed.

Theorem record_event_spec2 ev pid path h o w pre :
  w_tr w = mkTr [] pre 0 ->
  post (fun _ w' => re_post (h_journal h) w w') (re_crash (h_journal h) w) (record_event ev pid path h o w).
Proof.
  intros Etr. rewrite record_event_run, Etr. change (tr_try (mkTr [] pre 0)) with (mkTr [] (S pre) 0).
  set (wa := upd_tr (mkTr [] (S pre) 0) w).
  assert (Hsame : forall w2, w_log w2 = w_log wa -> w_fs w2 = w_fs wa -> w_tr w2 = w_tr wa ->
            re_post (h_journal h) w (upd_tr (close_tr (c_journal_path (h_cfg h)) (w_tr w2)) w2)).
  { intros w2 L F T. exists []. split.
    - split; [exact L|]. split; [constructor|]. cbn [upd_tr w_fs]. rewrite F. apply jstep_refl.
    - left. cbn [upd_tr w_tr]. rewrite T, Etr. split; [apply close_tr_ok | apply nob_nil]. }
  unfold note. destruct (h_journal h) as [jn|] eqn:Ej; [|apply (Hsame wa); reflexivity].
  destruct ev as [e|]; [|apply (Hsame wa); reflexivity].
  unfold when_ok. rewrite bind_is_ok. change (tr_ok (w_tr wa)) with true. cbv iota.
  unfold get_timestamp. rewrite bind_assoc, bind_get_clock, bind_assoc, bind_is_ok.
  change (tr_ok (w_tr wa)) with true. cbv iota zeta.
  destruct (Nat.ltb name_max _).
  - (* the time stamp of the journal line does not fit *)
    unfold throw_static. rewrite bind_assoc, bind_throw, bind_ret. unfold ret_. cbv beta iota. cbn [post].
    exists []. split; [split; [reflexivity|]; split; [constructor | apply jstep_refl]|]. right. cbn [upd_tr w_tr].
    apply close_tr_fail; reflexivity.
  - rewrite bind_ret.
    match goal with |- context [write_all ?f ?i ?b o wa] =>
      pose proof (write_all_spec2 f i b o wa) as Hw; destruct (write_all f i b o wa) as [[u|] w2] end;
      cbn [post] in Hw.
    + destruct Hw as [l [P H']].
      assert (P' : DQ wcallc (jstep (Some jn)) w w2 l).
      { eapply DQ_weaken; [intros c Hc; exact Hc | apply jstep_of_inostep | exact P]. }
      exists l. split; [apply DQ_upd_r; exact P'|]. cbn [upd_tr w_tr].
      destruct H' as [[T N]|T].
      * left. rewrite T, Etr. split; [apply close_tr_ok | exact N].
      * right. destruct T as [_ [B C]]. apply close_tr_fail; [apply uncatchable_notok; exact C | exact B].
    + destruct Hw as [l P]. exists l.
      eapply DQ_weaken; [intros c Hc; exact Hc | apply jstep_of_inostep | exact P].
Qed.

(* ----- read_entry, q_pop_head ----- *)

Definition rd_post (w w' : world) : Prop :=
  exists l, DQ rcallc eq w w' l /\ existsb unlinked l = false /\
    ((w_tr w' = w_tr w /\ nopb l) \/ (tr_ok (w_tr w') = false /\ t_post (w_tr w') = 0)).
Definition rd_crash (w w' : world) : Prop :=
  exists l, DQ rcallc eq w w' l /\ existsb unlinked l = false.

Lemma eq_trans_fs (a b c : fs) : a = b -> b = c -> a = c.
Proof. congruence. Qed.

Lemma k_readlinkat_spec2 dir name size o w :
  post (fun v w1 => exists r, w1 = after_call (CReadlinkat dir name size) r (w_fs w) w /\ reto v r)
       (fun w1 => w1 = w) (k_readlinkat dir name size o w).
Proof.
  unfold k_readlinkat. apply post_sys; [reflexivity| |].
  - intros e. exists (RFault e). split; [reflexivity | left; reflexivity].
  - intros r a f' E. destruct (fs_readlink (join dir name) (w_fs w)); inversion E; subst;
      eexists; (split; [reflexivity|]); [reflexivity | right; reflexivity].
Qed.

Lemma read_entry_loop_spec2 fuel : forall dir name size o w pre,
  w_tr w = mkTr [] pre 0 ->
  post (fun _ w' => rd_post w w') (rd_crash w) (read_entry_loop fuel dir name size o w).
Proof.
  induction fuel as [|fuel IH]; intros dir name size o w pre Etr; cbn [read_entry_loop].
  - apply post_ret. exists []. split; [apply DQ_refl; reflexivity|]. split; [reflexivity|].
    left. split; [reflexivity | apply nob_nil].
  - unfold try_. rewrite bind_mod_tr, Etr. change (tr_try (mkTr [] pre 0)) with (mkTr [] (S pre) 0).
    set (wa := upd_tr (mkTr [] (S pre) 0) w).
    apply post_bind. eapply post_mono; [apply k_readlinkat_spec2| |].
    + intros v w1 [r [-> Hr]]. cbv beta. set (w1' := after_call _ _ _ _).
      assert (HP : DQ rcallc eq w w1' [(CReadlinkat dir name size, r)]).
      { split; [reflexivity|]. split; [constructor; [reflexivity | constructor] | reflexivity]. }
      unfold rethrow_context, finally_rethrow_static.
      destruct v as [t|e].
      * rewrite bind_ret, bind_mod_tr, bind_mod_tr, bind_is_ok. cbn [upd_tr w_tr w1' after_call wa].
        change (tr_finally_rethrow_static M_invalid_entry (tr_rethrow_context name (mkTr [] (S pre) 0)))
          with (mkTr [] pre 0).
        cbn [tr_ok t_frames negb].
        set (w2 := upd_tr (mkTr [] pre 0) _).
        assert (Hb : pbad (CReadlinkat dir name size, r) = false) by (apply badby_ok; exact Hr).
        assert (H2 : rd_post w w2).
        { exists [(CReadlinkat dir name size, r)]. split; [exact HP|]. split; [reflexivity|].
          left. split; [rewrite Etr; reflexivity | apply nob_one; exact Hb]. }
        destruct (Nat.ltb (length t) size); [apply post_ret; exact H2|].
        eapply post_mono; [apply (IH dir name (size * 2) o w2 pre eq_refl)| |].
        -- intros u0 w' [l [P' [U' H']]]. exists (l ++ [(CReadlinkat dir name size, r)]).
           split; [eapply DQ_trans; [apply eq_trans_fs | exact HP | exact P']|].
           split; [rewrite existsb_app, U'; reflexivity|].
           destruct H' as [[T N]|T]; [left | right; exact T].
           split; [rewrite T, Etr; reflexivity | apply nob_snoc; assumption].
        -- intros w' [l [P' U']]. exists (l ++ [(CReadlinkat dir name size, r)]).
           split; [eapply DQ_trans; [apply eq_trans_fs | exact HP | exact P']|].
           rewrite existsb_app, U'. reflexivity.
      * unfold throw_errno. rewrite bind_throw, bind_mod_tr, bind_mod_tr, bind_is_ok.
        cbn [upd_tr w_tr w1' after_call wa].
        change (tr_finally_rethrow_static M_invalid_entry
                  (tr_rethrow_context name (tr_push (FErrno e) (mkTr [] (S pre) 0))))
          with (mkTr [FStatic M_invalid_entry; FContext name; FErrno e] pre 0).
        cbn [tr_ok t_frames negb]. apply post_ret.
        exists [(CReadlinkat dir name size, r)]. split; [exact HP|]. split; [reflexivity|].
        right. split; reflexivity.
    + intros w1 ->. exists []. split; [split; [reflexivity|]; split; [constructor | reflexivity] | reflexivity].
Qed.

Lemma fs_unlink_err p f e f' : fs_unlink p f = (Some e, f') -> f' = f.
Proof.
  unfold fs_unlink. destruct (lookup f p) as [[| |]|]; intros E; inversion E; reflexivity.
Qed.

(* the pop: either the link is gone and the trace is as before, or an error is
   on the trace and nothing was touched *)
Definition pop_post (q : qmem) (w : world) (q2 : qmem) (w' : world) : Prop :=
  exists l, w_log w' = l ++ w_log w /\ Forall (fun cr => rcallc (fst cr) = true) l /\
    ((w_tr w' = w_tr w /\ nopb l /\
      fs_unlink (QueueProofs.head_name q) (w_fs w) = (None, w_fs w') /\
      exists x, q2 = QueueProofs.popped x q) \/
     (tr_ok (w_tr w') = false /\ t_post (w_tr w') = 0 /\ w_fs w' = w_fs w /\ q2 = q /\
      existsb unlinked l = false)).

Theorem q_pop_head_spec2 q o w pre :
  w_tr w = mkTr [] pre 0 ->
  post (pop_post q w) (rd_crash w) (q_pop_head q o w).
Proof.
  intros Etr. unfold q_pop_head, when_ok. rewrite bind_is_ok, Etr. cbn [tr_ok t_frames].
  unfold read_entry, when_ok. rewrite bind_assoc, bind_is_ok, Etr. cbn [tr_ok t_frames].
  apply post_bind. eapply post_mono; [apply (read_entry_loop_spec2 64 _ _ _ o w pre Etr)| |auto].
  intros t w1 [l1 [[L1 [C1 F1]] [U1 H1]]]. cbv beta. rewrite bind_is_ok.
  destruct H1 as [[T1 N1]|[T1 Q1]].
  - rewrite T1, Etr. cbn [tr_ok t_frames negb].
    apply post_bind. eapply post_mono; [apply sys_unit_spec| |].
    + intros v w2 [r [E [Hv Hfs]]]. cbv beta. rewrite E. set (w2' := after_call _ _ _ _).
      assert (L2 : w_log w2' = ((CUnlinkat (q_dir q) (dec (q_head q)), r) :: l1) ++ w_log w).
      { unfold w2'. cbn [after_call w_log]. rewrite L1. reflexivity. }
      assert (C2 : Forall (fun cr => rcallc (fst cr) = true) ((CUnlinkat (q_dir q) (dec (q_head q)), r) :: l1)).
      { constructor; [reflexivity | exact C1]. }
      destruct v as [e|].
      * assert (F2 : w_fs w2 = w_fs w).
        { destruct Hfs as [[e' [_ [_ F]]]|[F _]]; [congruence|]. rewrite <- F1 in F.
          exact (fs_unlink_err _ _ _ _ F). }
        unfold throw_errno. rewrite bind_throw. apply post_ret.
        exists ((CUnlinkat (q_dir q) (dec (q_head q)), r) :: l1). split; [exact L2|]. split; [exact C2|].
        right. cbn [upd_tr w_tr w_fs w2' after_call]. rewrite T1, Etr.
        split; [reflexivity|]. split; [reflexivity|]. split; [exact F2|]. split; [reflexivity|].
        cbn [existsb]. rewrite U1. unfold unlinked. cbn [fst snd].
        destruct Hv as [-> | ->]; reflexivity.
      * apply post_ret.
        exists ((CUnlinkat (q_dir q) (dec (q_head q)), r) :: l1). split; [exact L2|]. split; [exact C2|].
        left. split; [cbn [w2' after_call w_tr]; exact T1|].
        split.
        { apply nob_cons. split; [apply badby_ok; apply retv_none_failed; exact Hv | exact N1]. }
        split.
        { destruct Hfs as [[e' [_ [Ev _]]]|[F _]]; [discriminate Ev|].
          cbn [w2' after_call w_fs]. rewrite <- F1 in F. exact F. }
        eexists. reflexivity.
    + intros w2 ->. exists l1. split; [split; [exact L1 | split; [exact C1 | exact F1]] | exact U1].
  - rewrite T1. cbn [negb]. apply post_ret.
    exists l1. split; [exact L1|]. split; [exact C1|]. right.
    split; [exact T1|]. split; [exact Q1|]. split; [symmetry; exact F1|]. split; [reflexivity | exact U1].
Qed.

Lemma q_pop_head_failed q o w : tr_ok (w_tr w) = false -> q_pop_head q o w = (Some q, w).
Proof. intros H. unfold q_pop_head, when_ok. rewrite bind_is_ok, H. reflexivity. Qed.

End Proj.

(* ====================================================================== *)
(* 4. the iteration over a PROJECT head                                   *)
(* ====================================================================== *)

Lemma handle_timeout_loop_failed fuel rev h o w :
  tr_ok (w_tr w) = false -> handle_timeout_loop fuel rev h o w = (Some (TError, h), w).
Proof.
  intros H. destruct fuel; cbn [handle_timeout_loop]; [reflexivity|]. rewrite bind_is_ok, H. reflexivity.
Qed.

Section PStep.
Variables (h1 : handler) (path : str) (version : str) (rev : bool).
Let cfg := h_cfg h1.

Definition pj_rel : str := skipn (Nat.min (length path) (h_cpl h1)) path.
Definition pj_sp : store_path := create_store_path (c_project_store_root cfg) (basename path) version.
Definition pj_unst : str := c_unstable_root cfg ++ ch_slash :: basename path.
Definition pj_fuel (f : fs) : nat := S (S (dir_entry_count f (dirname (current_path pj_sp)))).
Definition pj_qlink : str := QueueProofs.head_name (h_q h1).

(* the snapshot (with retries on "name taken") and the journal line *)
Definition project_prefix : M unit :=
  do f <- get_fs;
  do ev <- project_store_loop (pj_fuel f) rev pj_sp pj_unst path cfg (c_ev_stored cfg);
  record_event ev 0%N pj_rel h1.

(* ... followed by the pop: one iteration, up to the rest of the pass *)
Definition project_iter : M qmem := project_prefix;; q_pop_head (h_q h1).

(* the branch of handle_timeout_loop, with the rest of the pass as continuation *)
Definition project_step (k : handler -> M (tresult * handler)) : M (tresult * handler) :=
  do f <- get_fs;
  do ev <- project_store_loop (pj_fuel f) rev pj_sp pj_unst path cfg (c_ev_stored cfg);
  record_event ev 0%N pj_rel h1;;
  do q2 <- q_pop_head (h_q h1);
  k (set_q q2 h1).

Lemma project_step_iter k o w : project_step k o w = (do q2 <- project_iter; k (set_q q2 h1)) o w.
Proof.
  unfold project_step, project_iter, project_prefix, bind, get_fs.
  destruct (project_store_loop _ _ _ _ _ _ _ o w) as [[ev|] w1]; [|reflexivity].
  destruct (record_event ev 0%N pj_rel h1 o w1) as [[u|] w2]; [|reflexivity].
  destruct (q_pop_head (h_q h1) o w2) as [[q2|] w3]; reflexivity.
Qed.

(* the hypotheses on the names: the ancestors of every candidate name of the
   snapshot directory lie outside the unstable tree, which is not "/" *)
Definition pj_ok : Prop := names_out pj_unst pj_sp /\ pj_unst <> root_path.

Lemma pj_unst_ne : pj_unst <> [].
Proof. unfold pj_unst. destruct (c_unstable_root cfg); discriminate. Qed.

Notation pjbad := (badby (preported pj_unst)).
Notation nopj := (nob (preported pj_unst)).

(* every call of the iteration *)
Definition icallc (c : call) : bool := pcallc c || wcallc c || rcallc c.
Definition icalls (l : list (call * ret)) : Prop := Forall (fun cr => icallc (fst cr) = true) l.

(* what the iteration may change before the pop: inode contents only in the
   journal; every non-directory entry outside the unstable tree is kept *)
Definition istep (f f' : fs) : Prop :=
  fs_next f' = fs_next f /\
  (forall k, (forall jn, h_journal h1 = Some jn -> k <> j_ino jn) -> get_file f' k = get_file f k) /\
  keepU pj_unst f f'.

Lemma istep_refl f : istep f f.
Proof. split; [reflexivity|]. split; [reflexivity|]. intros p n _ _ H. exact H. Qed.
Lemma istep_trans f0 f1 f2 : istep f0 f1 -> istep f1 f2 -> istep f0 f2.
Proof.
  intros [A1 [B1 C1]] [A2 [B2 C2]]. split; [congruence|]. split.
  - intros k Hk. rewrite B2 by exact Hk. apply B1. exact Hk.
  - intros p n Hn Hu Hl. apply (C2 p n Hn Hu). apply (C1 p n Hn Hu). exact Hl.
Qed.
Lemma istep_of_pstep f f' : pstep pj_unst f f' -> istep f f'.
Proof.
  intros [A [B C]]. split; [exact B|]. split; [|exact C]. intros k _. unfold get_file. rewrite A. reflexivity.
Qed.
Lemma istep_of_jstep f f' : jstep (h_journal h1) f f' -> istep f f'.
Proof.
  intros [A [B C]]. split; [exact B|]. split; [exact C|]. intros p n _ _ Hl.
  rewrite (lookup_same_dents _ _ p A). exact Hl.
Qed.

Lemma unlinked_none (okc : call -> bool) l :
  (forall d n, okc (CUnlinkat d n) = false) ->
  Forall (fun cr => okc (fst cr) = true) l -> existsb unlinked l = false.
Proof.
  intros Hk H. induction H as [|[c r] l Hc _ IH]; [reflexivity|]. cbn [existsb]. rewrite IH, orb_false_r.
  unfold unlinked. cbn [fst snd] in *. destruct c; try reflexivity. rewrite Hk in Hc. discriminate.
Qed.

Lemma icalls_of (okc : call -> bool) l :
  (forall c, okc c = true -> icallc c = true) -> Forall (fun cr => okc (fst cr) = true) l -> icalls l.
Proof. intros Hk H. eapply Forall_impl; [|exact H]. intros cr. apply Hk. Qed.

Lemma icallc_p c : pcallc c = true -> icallc c = true.
Proof. intros H. unfold icallc. rewrite H. reflexivity. Qed.
Lemma icallc_w c : wcallc c = true -> icallc c = true.
Proof. intros H. unfold icallc. rewrite H, orb_true_r. reflexivity. Qed.
Lemma icallc_r c : rcallc c = true -> icallc c = true.
Proof. intros H. unfold icallc. rewrite H. rewrite orb_true_r. reflexivity. Qed.

(* ----- the snapshot and the journal line ----- *)

Definition pre_rel (w w' : world) (l : list (call * ret)) : Prop :=
  w_log w' = l ++ w_log w /\ icalls l /\ existsb unlinked l = false /\ istep (w_fs w) (w_fs w').

Lemma pre_rel_trans w w1 w2 l1 l2 : pre_rel w w1 l1 -> pre_rel w1 w2 l2 -> pre_rel w w2 (l2 ++ l1).
Proof.
  intros [A1 [B1 [C1 D1]]] [A2 [B2 [C2 D2]]]. split; [rewrite A2, A1; apply app_assoc|].
  split; [apply Forall_app; split; assumption|]. split; [rewrite existsb_app, C1, C2; reflexivity|].
  eapply istep_trans; eauto.
Qed.

Lemma pre_rel_of_PQ w w' l : DQ pcallc (pstep pj_unst) w w' l -> pre_rel w w' l.
Proof.
  intros [A [B C]]. split; [exact A|]. split; [apply (icalls_of pcallc); [exact icallc_p | exact B]|].
  split; [apply (unlinked_none pcallc); [reflexivity | exact B] | apply istep_of_pstep; exact C].
Qed.

Lemma pre_rel_of_W w w' l : DQ wcallc (jstep (h_journal h1)) w w' l -> pre_rel w w' l.
Proof.
  intros [A [B C]]. split; [exact A|]. split; [apply (icalls_of wcallc); [exact icallc_w | exact B]|].
  split; [apply (unlinked_none wcallc); [reflexivity | exact B] | apply istep_of_jstep; exact C].
Qed.

Definition pre_post (w w' : world) : Prop :=
  exists l, pre_rel w w' l /\
    ((w_tr w' = w_tr w /\ nopj l) \/ (tr_ok (w_tr w') = false /\ t_post (w_tr w') = 0)).
Definition pre_crash (w w' : world) : Prop := exists l, pre_rel w w' l.

Theorem project_prefix_spec o w pre :
  pj_ok -> w_tr w = mkTr [] pre 0 ->
  post (fun _ w' => pre_post w w') (pre_crash w) (project_prefix o w).
Proof.
  intros [Hn Hur] Etr. unfold project_prefix. rewrite bind_get_fs.
  apply post_bind.
  eapply post_mono;
    [apply (project_store_loop_spec pj_unst rev path cfg o (pj_fuel (w_fs w)) pj_sp (c_ev_stored cfg) w Hn Hur pj_unst_ne);
     rewrite Etr; reflexivity| |].
  - intros ev w1 [l1 [P1 H1]]. cbv beta. pose proof (pre_rel_of_PQ _ _ _ P1) as R1.
    destruct H1 as [[T1 N1]|[A1 [B1 C1]]].
    + eapply post_mono; [apply (record_event_spec2 pj_unst ev 0%N pj_rel h1 o w1 pre); rewrite T1; exact Etr| |].
      * intros u0 w2 [l2 [P2 H2]]. exists (l2 ++ l1).
        split; [eapply pre_rel_trans; [exact R1 | apply pre_rel_of_W; exact P2]|].
        destruct H2 as [[T2 N2]|H2]; [left | right; exact H2].
        split; [congruence | apply nob_app; split; assumption].
      * intros w2 [l2 P2]. exists (l2 ++ l1). eapply pre_rel_trans; [exact R1 | apply pre_rel_of_W; exact P2].
    + rewrite (record_event_failed ev 0%N pj_rel h1 o w1 (uncatchable_notok _ C1)). cbn [post].
      exists l1. split; [exact R1|]. right. split; [apply uncatchable_notok; exact C1 | exact B1].
  - intros w1 [l1 P1]. exists l1. apply pre_rel_of_PQ. exact P1.
Qed.

(* ----- the whole iteration ----- *)

(* either the iteration is complete (snapshot, journal line, pop: the trace is
   as at the start and the rest of the pass runs with the popped queue), or an
   error is on the trace, the in-memory queue is the old one, no unlinkat took
   effect and everything outside the unstable tree is as before *)
Definition it_post (w : world) (q2 : qmem) (w' : world) : Prop :=
  exists l, w_log w' = l ++ w_log w /\ icalls l /\
    ((w_tr w' = w_tr w /\ nopj l /\
      exists wj x, istep (w_fs w) (w_fs wj) /\
                   fs_unlink pj_qlink (w_fs wj) = (None, w_fs w') /\
                   q2 = QueueProofs.popped x (h_q h1)) \/
     (tr_ok (w_tr w') = false /\ q2 = h_q h1 /\
      existsb unlinked l = false /\ istep (w_fs w) (w_fs w'))).

Theorem project_iter_spec o w pre :
  pj_ok -> w_tr w = mkTr [] pre 0 ->
  post (it_post w) (pre_crash w) (project_iter o w).
Proof.
  intros Hpj Etr. unfold project_iter. apply post_bind.
  eapply post_mono; [apply (project_prefix_spec o w pre Hpj Etr)| |auto].
  intros u0 wj [l1 [R1 H1]]. cbv beta. destruct R1 as [L1 [C1 [U1 I1]]].
  destruct H1 as [[T1 N1]|[T1 Q1]].
  - eapply post_mono; [apply (q_pop_head_spec2 pj_unst (h_q h1) o wj pre); rewrite T1; exact Etr| |].
    + intros q2 w' [l2 [L2 [C2 H2]]]. exists (l2 ++ l1).
      split; [rewrite L2, L1; apply app_assoc|].
      split; [apply Forall_app; split; [apply (icalls_of rcallc); [exact icallc_r | exact C2] | exact C1]|].
      destruct H2 as [[T2 [N2 [F2 [x ->]]]]|[T2 [_ [F2 [-> U2]]]]].
      * left. split; [congruence|]. split; [apply nob_app; split; assumption|].
        exists wj, x. split; [exact I1|]. split; [exact F2 | reflexivity].
      * right. split; [exact T2|]. split; [reflexivity|].
        split; [rewrite existsb_app, U1, U2; reflexivity | rewrite F2; exact I1].
    + intros w' [l2 [[L2 [C2 F2]] U2]]. exists (l2 ++ l1).
      split; [rewrite L2, L1; apply app_assoc|].
      split; [apply Forall_app; split; [apply (icalls_of rcallc); [exact icallc_r | exact C2] | exact C1]|].
      split; [rewrite existsb_app, U1, U2; reflexivity | rewrite <- F2; exact I1].
  - rewrite (q_pop_head_failed (h_q h1) o wj T1). cbn [post].
    exists l1. split; [exact L1|]. split; [exact C1|]. right.
    split; [exact T1|]. split; [reflexivity|]. split; [exact U1 | exact I1].
Qed.

(* (1) project_fault_is_reported.  If any call of the iteration in the class
   [preported] failed, the iteration ends with the error on the trace; the
   rest of the pass is entered with the old queue, and handle_timeout_loop
   answers "stop" at once. *)
Theorem project_fault_is_reported k o w :
  pj_ok -> t_frames (w_tr w) = [] -> t_post (w_tr w) = 0 ->
  ht (fun o' => o' = o) (fun w0 => w0 = w) (project_step k)
     (fun r w' => exists q2 we l,
        w_log we = l ++ w_log w /\ icalls l /\ k (set_q q2 h1) o we = (Some r, w') /\
        (existsb pjbad l = true -> tr_ok (w_tr we) = false /\ q2 = h_q h1))
     (fun _ => True).
Proof.
  intros Hpj Hfr Hpo. apply ht_post_iff. intros o' w0 -> ->.
  assert (Etr : w_tr w = mkTr [] (t_pre (w_tr w)) 0).
  { destruct (w_tr w) as [fr p po]. cbn [t_frames t_post t_pre] in *. subst. reflexivity. }
  rewrite project_step_iter. unfold bind.
  pose proof (project_iter_spec o w _ Hpj Etr) as H.
  destruct (project_iter o w) as [[q2|] we]; cbn [post] in H |- *; [|exact I].
  destruct (k (set_q q2 h1) o we) as [[r|] w'] eqn:Ek; cbn [post]; [|exact I].
  destruct H as [l [L [C H]]]. exists q2, we, l. split; [exact L|]. split; [exact C|]. split; [exact Ek|].
  intros Hb. destruct H as [[_ [N _]]|[T [Eq _]]].
  - unfold nob in N. congruence.
  - split; assumption.
Qed.

Corollary project_fault_stops fuel o w :
  pj_ok -> t_frames (w_tr w) = [] -> t_post (w_tr w) = 0 ->
  ht (fun o' => o' = o) (fun w0 => w0 = w) (project_step (handle_timeout_loop fuel rev))
     (fun r w' => exists q2 we l,
        w_log we = l ++ w_log w /\ icalls l /\
        handle_timeout_loop fuel rev (set_q q2 h1) o we = (Some r, w') /\
        (existsb pjbad l = true -> r = (TError, h1) /\ w' = we /\ tr_ok (w_tr w') = false))
     (fun _ => True).
Proof.
  intros Hpj Hfr Hpo. eapply ht_post; [|apply (project_fault_is_reported _ o w Hpj Hfr Hpo)].
  intros r w' [q2 [we [l [L [C [Ek Hb]]]]]]. exists q2, we, l. split; [exact L|]. split; [exact C|].
  split; [exact Ek|]. intros B. destruct (Hb B) as [T ->].
  rewrite (handle_timeout_loop_failed fuel rev _ o we T) in Ek. inversion Ek; subst.
  rewrite set_q_same. auto.
Qed.

(* (2) project_failed_keeps_entry.  Whenever the iteration ends with an error
   on the trace, no unlinkat took effect, the queue in memory is the old one,
   every non-directory entry outside the unstable tree -- the queue link of the
   project entry, every stored version, every entry of every snapshot -- is
   looked up as before, and no inode other than the journal's has changed. *)
Theorem project_failed_keeps_entry k o w :
  pj_ok -> t_frames (w_tr w) = [] -> t_post (w_tr w) = 0 ->
  ht (fun o' => o' = o) (fun w0 => w0 = w) (project_step k)
     (fun r w' => exists q2 we l,
        w_log we = l ++ w_log w /\ k (set_q q2 h1) o we = (Some r, w') /\
        (tr_ok (w_tr we) = false ->
           q2 = h_q h1 /\ existsb unlinked l = false /\ istep (w_fs w) (w_fs we)))
     (fun _ => True).
Proof.
  intros Hpj Hfr Hpo. apply ht_post_iff. intros o' w0 -> ->.
  assert (Etr : w_tr w = mkTr [] (t_pre (w_tr w)) 0).
  { destruct (w_tr w) as [fr p po]. cbn [t_frames t_post t_pre] in *. subst. reflexivity. }
  rewrite project_step_iter. unfold bind.
  pose proof (project_iter_spec o w _ Hpj Etr) as H.
  destruct (project_iter o w) as [[q2|] we]; cbn [post] in H |- *; [|exact I].
  destruct (k (set_q q2 h1) o we) as [[r|] w'] eqn:Ek; cbn [post]; [|exact I].
  destruct H as [l [L [C H]]]. exists q2, we, l. split; [exact L|]. split; [exact Ek|].
  intros Hno. destruct H as [[T _]|[_ H]]; [|exact H].
  exfalso. rewrite T, Etr in Hno. discriminate Hno.
Qed.

(* the same when the process dies during the iteration *)
Theorem project_crash_keeps_entry o w :
  pj_ok -> t_frames (w_tr w) = [] -> t_post (w_tr w) = 0 ->
  match project_iter o w with
  | (None, w') =>
      exists l, w_log w' = l ++ w_log w /\ icalls l /\
                existsb unlinked l = false /\ istep (w_fs w) (w_fs w')
  | (Some _, _) => True
  end.
Proof.
  intros Hpj Hfr Hpo.
  assert (Etr : w_tr w = mkTr [] (t_pre (w_tr w)) 0).
  { destruct (w_tr w) as [fr p po]. cbn [t_frames t_post t_pre] in *. subst. reflexivity. }
  pose proof (project_iter_spec o w _ Hpj Etr) as H.
  destruct (project_iter o w) as [[q2|] w']; cbn [post] in H; [exact I|].
  destruct H as [l H]. exists l. exact H.
Qed.

(* what istep says about one entry *)
Lemma istep_entry f f' p n :
  istep f f' -> nondir n = true -> Str.under pj_unst p = false -> lookup f p = Some n -> lookup f' p = Some n.
Proof. intros [_ [_ K]] Hn Hu Hl. exact (K p n Hn Hu Hl). Qed.

Lemma istep_bytes f f' p i :
  istep f f' -> Str.under pj_unst p = false -> lookup f p = Some (NFile i) ->
  (forall jn, h_journal h1 = Some jn -> i <> j_ino jn) ->
  lookup f' p = Some (NFile i) /\ get_file f' i = get_file f i.
Proof.
  intros H Hu Hl Hj. split; [apply (istep_entry f f' p (NFile i) H eq_refl Hu Hl)|].
  destruct H as [_ [G _]]. apply G. exact Hj.
Qed.

(* (2') the queue directory is untouched, hence the queue relation for the
   ORIGINAL entries holds again (CrashFrame's frame pass, for every oracle) *)
Theorem project_failed_keeps_queue o w ents :
  pj_ok -> t_frames (w_tr w) = [] -> t_post (w_tr w) = 0 ->
  QueueProofs.QRel (h_q h1) (w_fs w) ents ->
  (forall p, Confine.inside (c_project_store_root cfg) p -> CrashFrame.away (q_dir (h_q h1)) p) ->
  (forall r, CrashFrame.away (q_dir (h_q h1)) (pj_unst ++ ch_slash :: r)) ->
  let res := project_iter o w in
  (match fst res with Some _ => tr_ok (w_tr (snd res)) = false | None => True end) ->
  (forall p, Confine.inside (q_dir (h_q h1)) p -> lookup (w_fs (snd res)) p = lookup (w_fs w) p) /\
  QueueProofs.QRel (h_q h1) (w_fs (snd res)) ents /\
  (forall q2, fst res = Some q2 -> q2 = h_q h1).
Proof.
  intros Hpj Hfr Hpo HR Hps Hun res Hend.
  assert (Etr : w_tr w = mkTr [] (t_pre (w_tr w)) 0).
  { destruct (w_tr w) as [fr p po]. cbn [t_frames t_post t_pre] in *. subst. reflexivity. }
  set (d := q_dir (h_q h1)).
  set (X := fun f : fs => forall p, Confine.inside d p -> lookup f p = lookup (w_fs w) p).
  assert (X_add : forall f p n, CrashFrame.away d p -> lookup f p = None -> X f -> X (add_dent p n f)).
  { intros f p n Ha _ Hx q Hq. rewrite lookup_add_dent_other; [apply Hx; exact Hq|].
    intros ->. exact (Ha Hq). }
  assert (X_del : forall f p, CrashFrame.away d p -> X f -> X (del_dent p f)).
  { intros f p Ha Hx q Hq. rewrite lookup_del_dent_other; [apply Hx; exact Hq|].
    intros ->. exact (Ha Hq). }
  assert (X_files : forall f fl nx, X f -> X (mkFs (fs_dents f) fl nx)).
  { intros f fl nx Hx q Hq. rewrite <- (Hx q Hq). reflexivity. }
  assert (Htok : StoreLogic.tok X project_prefix).
  { unfold project_prefix. apply StoreLogic.tok_bind; [apply StoreLogic.tok_get_fs|intros f].
    apply StoreLogic.tok_bind; [|intros ev; apply (CrashFrame.fk_record_event X X_files)].
    destruct Hpj as [_ Hur].
    apply (CrashFrame.fk_project_store_loop d X X_add X_del) with (root := c_project_store_root cfg);
      [apply Confine2.spI_create | exact Hps | exact Hun | exact Hur | exact pj_unst_ne]. }
  assert (Hfin : forall f', X f' ->
            (forall p, Confine.inside d p -> lookup f' p = lookup (w_fs w) p) /\
            QueueProofs.QRel (h_q h1) f' ents).
  { intros f' Hx. split; [exact Hx|]. eapply CrashFrame.QRel_ext; [|exact HR]. exact Hx. }
  specialize (Htok o w I (fun p _ => eq_refl)).
  pose proof (project_prefix_spec o w _ Hpj Etr) as Hsp.
  subst res. unfold project_iter, bind in *.
  destruct (project_prefix o w) as [[u|] wj]; cbn [post] in Hsp.
  - destruct Htok as [Hx _]. destruct Hsp as [l1 [_ H1]].
    destruct H1 as [[T1 _]|[T1 _]].
    + pose proof (q_pop_head_spec2 pj_unst (h_q h1) o wj (t_pre (w_tr w))) as Hp.
      rewrite T1 in Hp. specialize (Hp Etr).
      destruct (q_pop_head (h_q h1) o wj) as [[q2|] w']; cbn [post fst snd] in *.
      * destruct Hp as [l2 [_ [_ [[T2 _]|[_ [_ [F2 [-> _]]]]]]]].
        -- exfalso. rewrite T2, T1, Etr in Hend. discriminate Hend.
        -- rewrite F2. destruct (Hfin _ Hx) as [A B]. split; [exact A|]. split; [exact B|].
           intros q2 E. inversion E. reflexivity.
      * destruct Hp as [l2 [[_ [_ F2]] _]]. rewrite <- F2. destruct (Hfin _ Hx) as [A B].
        split; [exact A|]. split; [exact B|]. intros q2 E. discriminate E.
    + rewrite (q_pop_head_failed (h_q h1) o wj T1). cbn [fst snd].
      destruct (Hfin _ Hx) as [A B]. split; [exact A|]. split; [exact B|].
      intros q2 E. inversion E. reflexivity.
  - cbn [fst snd]. destruct (Hfin _ Htok) as [A B]. split; [exact A|]. split; [exact B|].
    intros q2 E. discriminate E.
Qed.

End PStep.

(* ====================================================================== *)
(* 5. the MEMBER link step                                                *)
(* ====================================================================== *)

Section Link.
Variables (P D : str).     (* the unstable entry of the member; the new version *)

(* unlink of the unstable entry, its parents, the hard link: as in handle_timeout *)
Definition link_step : M unit :=
  do u <- k_unlink P;
  match u with
  | None | Some ENOENT => ret_ tt
  | Some e => throw_errno e
  end;;
  create_parents P;;
  do b5 <- is_ok;
  (if b5 then
     do l <- k_link D P;
     match l with Some e => throw_errno e | None => ret_ tt end
   else ret_ tt).

Definition lcallc (c : call) : bool :=
  match c with CUnlink _ | CMkdir _ | CLink _ _ => true | _ => false end.

(* reported: unlink other than ENOENT (the entry is not there yet), mkdir
   other than EEXIST (the ancestor is there), every failure of link *)
Definition lreported (c : call) (e : errno) : bool :=
  match c with
  | CUnlink _ => match e with ENOENT => false | _ => true end
  | CMkdir _ => match e with EEXIST => false | _ => true end
  | CLink _ _ => true
  | _ => false
  end.
Notation lbad := (badby lreported).
Notation nolb := (nob lreported).

(* what the step may change besides the entry P itself: nothing that exists;
   a free name may become a directory if it is an ancestor of P *)
Definition lstep (f f' : fs) : Prop :=
  fs_files f' = fs_files f /\ fs_next f' = fs_next f /\
  (forall q, q <> P -> lookup f q <> None -> lookup f' q = lookup f q) /\
  (forall q, q <> P -> lookup f q = None ->
     lookup f' q = None \/ (In q (parents_of P) /\ lookup f' q = Some NDir)).

Lemma lstep_refl f : lstep f f.
Proof. split; [reflexivity|]. split; [reflexivity|]. split; [reflexivity | intros q _ H; left; exact H]. Qed.

Lemma lstep_trans f0 f1 f2 : lstep f0 f1 -> lstep f1 f2 -> lstep f0 f2.
Proof.
  intros [A1 [B1 [C1 D1]]] [A2 [B2 [C2 D2]]]. split; [congruence|]. split; [congruence|]. split.
  - intros q Hq Hl. rewrite C2; [apply C1; assumption | exact Hq | rewrite C1; assumption].
  - intros q Hq Hl. destruct (D1 q Hq Hl) as [H|[Hin H]].
    + apply D2; assumption.
    + right. split; [exact Hin|]. rewrite C2; [exact H | exact Hq | rewrite H; discriminate].
Qed.

(* ... and the entry P is as before: what the mkdirs do *)
Definition mstep (f f' : fs) : Prop := lstep f f' /\ lookup f' P = lookup f P.

Lemma mstep_refl f : mstep f f.
Proof. split; [apply lstep_refl | reflexivity]. Qed.
Lemma mstep_trans f0 f1 f2 : mstep f0 f1 -> mstep f1 f2 -> mstep f0 f2.
Proof. intros [A1 B1] [A2 B2]. split; [eapply lstep_trans; eauto | congruence]. Qed.

Lemma mstep_mkdir d f e f' : In d (parents_of P) -> fs_mkdir d f = (e, f') -> mstep f f'.
Proof.
  intros Hin. assert (HdP : d <> P) by (intros ->; exact (parents_of_not_self P Hin)).
  unfold fs_mkdir. destruct (lookup f d) eqn:El; [intros E; inversion E; apply mstep_refl|].
  destruct (parent_is_dir f d); intros E; inversion E; subst; [apply mstep_refl|].
  split; [|apply lookup_add_dent_other; intros ->; exact (HdP eq_refl)].
  split; [reflexivity|]. split; [reflexivity|]. split.
  - intros q _ Hq. apply lookup_add_dent_other. intros ->. exact (Hq El).
  - intros q _ Hq. destruct (str_eqb_spec q d) as [->|Hne].
    + right. split; [exact Hin | apply lookup_add_dent_same; exact El].
    + left. rewrite lookup_add_dent_other by exact Hne. exact Hq.
Qed.

Lemma fs_unlink_ok p f f' :
  fs_unlink p f = (None, f') -> exists n, nondir n = true /\ lookup f p = Some n /\ f' = del_dent p f.
Proof.
  unfold fs_unlink. destruct (lookup f p) as [[|i|t m]|]; intros E; inversion E; subst;
    [exists (NFile i) | exists (NLink t m)]; repeat split; reflexivity.
Qed.

Lemma fs_unlink_enoent p f f' : fs_unlink p f = (Some ENOENT, f') -> lookup f p = None.
Proof.
  unfold fs_unlink. destruct (lookup f p) as [[|i|t m]|]; intros E; inversion E; reflexivity.
Qed.

Lemma lookup_root f : lookup f root_path = Some NDir.
Proof. unfold lookup. rewrite str_eqb_refl. reflexivity. Qed.

Lemma lstep_unlink f e f' : fs_unlink P f = (e, f') -> lstep f f'.
Proof.
  intros E. destruct (unlink_facts [] P f e f' E) as [A [B [C _]]].
  split; [exact A|]. split; [exact B|]. split.
  - intros q Hq _. apply C. exact Hq.
  - intros q Hq Hl. left. rewrite C by exact Hq. exact Hl.
Qed.

Lemma lstep_link f e f' : fs_link D P f = (e, f') -> lstep f f'.
Proof.
  intros E. destruct (link_facts D P f e f' E) as [A [B C]]. destruct e as [e|].
  - subst f'. apply lstep_refl.
  - destruct C as [n [_ [_ [_ ->]]]]. split; [reflexivity|]. split; [reflexivity|]. split.
    + intros q Hq _. apply lookup_add_dent_other. exact Hq.
    + intros q Hq Hl. left. rewrite lookup_add_dent_other by exact Hq. exact Hl.
Qed.

(* ----- the ancestors of P ----- *)

Definition ml_post (w w' : world) : Prop :=
  exists l, DQ lcallc mstep w w' l /\
    ((w_tr w' = w_tr w /\ nolb l) \/
     (exists d r e l0, l = (CMkdir d, r) :: l0 /\ In d (parents_of P) /\ failed r = Some e /\ e <> EEXIST /\
        w_tr w' = tr_push (FStatic M_cannot_create_ancestor)
                    (tr_push (FContext d) (tr_push (FErrno e) (w_tr w))))).
Definition ml_crash (w w' : world) : Prop := exists l, DQ lcallc mstep w w' l.

Lemma retv_some_failed e r : retv (Some e) r -> failed r = Some e.
Proof. intros [->| ->]; reflexivity. Qed.

Lemma mkdir_all_spec3 ds : (forall d, In d ds -> In d (parents_of P)) -> forall o w,
  post (fun _ w' => ml_post w w') (ml_crash w) (mkdir_all ds o w).
Proof.
  induction ds as [|d ds IH]; intros Hall o w; cbn [mkdir_all].
  - apply post_ret. exists []. split; [apply DQ_refl; apply mstep_refl|]. left. split; [reflexivity | apply nob_nil].
  - assert (Hd : In d (parents_of P)) by (apply Hall; left; reflexivity).
    assert (IH' := IH (fun x Hx => Hall x (or_intror Hx))). clear IH.
    unfold k_mkdir. apply post_bind. eapply post_mono; [apply sys_unit_spec| |].
    + intros v w1 [r [E [Hv Hfs]]]. cbv beta. rewrite E. set (w1' := after_call _ _ _ _).
      assert (Hs : mstep (w_fs w) (w_fs w1)).
      { destruct Hfs as [[e [_ [_ F]]]|[F _]]; [rewrite F; apply mstep_refl|].
        eapply mstep_mkdir; [exact Hd | exact F]. }
      assert (HP : DQ lcallc mstep w w1' [(CMkdir d, r)]) by (apply DQ_call; [reflexivity | exact Hs]).
      assert (Hcont : lbad (CMkdir d, r) = false ->
                      post (fun _ w' => ml_post w w') (ml_crash w) (mkdir_all ds o w1')).
      { intros Hb. eapply post_mono; [apply IH'| |].
        - intros u0 w' [l [P' H']]. exists (l ++ [(CMkdir d, r)]).
          split; [eapply DQ_trans; [apply mstep_trans | exact HP | exact P']|].
          destruct H' as [[T N]|[d' [r' [e' [l0 [El [Hin [Hf [He T]]]]]]]]].
          + left. split; [exact T | apply nob_snoc; assumption].
          + right. exists d', r', e', (l0 ++ [(CMkdir d, r)]). rewrite El.
            split; [reflexivity|]. split; [exact Hin|]. split; [exact Hf|]. split; [exact He | exact T].
        - intros w' [l P']. exists (l ++ [(CMkdir d, r)]).
          eapply DQ_trans; [apply mstep_trans | exact HP | exact P']. }
      assert (Hthrow : forall e, retv (Some e) r -> e <> EEXIST ->
                post (fun _ w' => ml_post w w') (ml_crash w)
                     ((throw_errno e;; throw_context d;; throw_static M_cannot_create_ancestor) o w1')).
      { intros e Hr He. unfold throw_errno, throw_context, throw_static. rewrite !bind_throw.
        cbn [post throw mod_tr bind get_tr set_tr].
        exists [(CMkdir d, r)]. split; [apply DQ_upd_r; exact HP|]. right.
        exists d, r, e, []. split; [reflexivity|]. split; [exact Hd|].
        split; [apply retv_some_failed; exact Hr|]. split; [exact He | reflexivity]. }
      destruct v as [e|]; [destruct e|];
        first [ apply Hthrow; [exact Hv | discriminate]
              | apply Hcont; unfold badby; cbn [fst snd];
                first [ rewrite (retv_some_failed _ _ Hv); reflexivity
                      | rewrite (retv_none_failed _ Hv); reflexivity ] ].
    + intros w1 ->. exists []. apply DQ_refl. apply mstep_refl.
Qed.

(* ----- the step ----- *)

Inductive link_outcome := LLinked | LUnlinkFailed | LMkdirFailed | LLinkFailed.

(* the entry P when a call after the unlink failed: ABSENT (the old link was
   removed, or there was none) -- or untouched, in the one case where the
   oracle answered ENOENT to the unlink of an entry that exists *)
Definition pstate (l : list (call * ret)) (f f' : fs) : Prop :=
  lookup f' P = None \/ (In (CUnlink P, RFault ENOENT) l /\ lookup f' P = lookup f P).

Definition link_rel (w w' : world) (l : list (call * ret)) (oc : link_outcome) : Prop :=
  DQ lcallc lstep w w' l /\
  match oc with
  | LLinked =>
      w_tr w' = w_tr w /\ nolb l /\
      exists n, nondir n = true /\ lookup (w_fs w') D = Some n /\ lookup (w_fs w') P = Some n
  | LUnlinkFailed =>
      exists r e, l = [(CUnlink P, r)] /\ failed r = Some e /\ e <> ENOENT /\
                  w_fs w' = w_fs w /\ w_tr w' = tr_push (FErrno e) (w_tr w)
  | LMkdirFailed =>
      exists d r e l0, l = (CMkdir d, r) :: l0 /\ In d (parents_of P) /\ failed r = Some e /\ e <> EEXIST /\
                       tr_ok (w_tr w') = false /\ pstate l (w_fs w) (w_fs w')
  | LLinkFailed =>
      exists r e l0, l = (CLink D P, r) :: l0 /\ failed r = Some e /\
                     tr_ok (w_tr w') = false /\ pstate l (w_fs w) (w_fs w')
  end.

Definition link_crash (w w' : world) : Prop := exists l, DQ lcallc lstep w w' l.

Lemma DQ_lm w w' l : DQ lcallc mstep w w' l -> DQ lcallc lstep w w' l.
Proof. apply DQ_weaken; [auto | intros a b [H _]; exact H]. Qed.

Theorem link_step_spec o w :
  tr_ok (w_tr w) = true -> keys_nodup (w_fs w) ->
  post (fun _ w' => exists l oc, link_rel w w' l oc) (link_crash w) (link_step o w).
Proof.
  intros Hok Hnd. unfold link_step, k_unlink.
  apply post_bind. eapply post_mono; [apply sys_unit_spec| |].
  - intros v w1 [r [E [Hv Hfs]]]. cbv beta. rewrite E. set (w1' := after_call _ _ _ _).
    assert (Hs1 : lstep (w_fs w) (w_fs w1)).
    { destruct Hfs as [[e [_ [_ F]]]|[F _]]; [rewrite F; apply lstep_refl | eapply lstep_unlink; exact F]. }
    assert (HP1 : DQ lcallc lstep w w1' [(CUnlink P, r)]) by (apply DQ_call; [reflexivity | exact Hs1]).
    (* the rest when the unlink went through (or there was nothing to unlink) *)
    assert (Hrest : lbad (CUnlink P, r) = false -> pstate [(CUnlink P, r)] (w_fs w) (w_fs w1) ->
              post (fun _ w' => exists l oc, link_rel w w' l oc) (link_crash w)
                   ((create_parents P;;
                     do b5 <- is_ok;
                     (if b5 then do l <- k_link D P; match l with Some e => throw_errno e | None => ret_ tt end
                      else ret_ tt)) o w1')).
    { intros Hb1 Hst1. unfold create_parents, when_ok. rewrite bind_assoc, bind_is_ok.
      change (tr_ok (w_tr w1')) with (tr_ok (w_tr w)). rewrite Hok.
      apply post_bind. eapply post_mono; [apply (mkdir_all_spec3 (parents_of P) (fun d H => H) o w1')| |].
      + intros u0 w2 [l2 [P2 H2]]. cbv beta. rewrite bind_is_ok.
        assert (HP2 : DQ lcallc lstep w w2 (l2 ++ [(CUnlink P, r)])).
        { eapply DQ_trans; [apply lstep_trans | exact HP1 | apply DQ_lm; exact P2]. }
        assert (Hst2 : forall lx, pstate (lx ++ l2 ++ [(CUnlink P, r)]) (w_fs w) (w_fs w2)).
        { intros lx. destruct P2 as [_ [_ [_ EP]]]. change (w_fs w1') with (w_fs w1) in EP.
          destruct Hst1 as [H|[Hin H]]; [left; congruence|].
          right. split; [apply in_or_app; right; apply in_or_app; right; exact Hin | congruence]. }
        destruct H2 as [[T2 N2]|[d [r2 [e [l0 [El [Hin [Hf [He T2]]]]]]]]].
        * change (w_tr w1') with (w_tr w) in T2. rewrite T2, Hok.
          unfold k_link. apply post_bind. eapply post_mono; [apply sys_unit_spec| |].
          -- intros v3 w3 [r3 [E3 [Hv3 Hfs3]]]. cbv beta. rewrite E3. set (w3' := after_call _ _ _ _).
             assert (Hs3 : lstep (w_fs w2) (w_fs w3)).
             { destruct Hfs3 as [[e [_ [_ F]]]|[F _]]; [rewrite F; apply lstep_refl | eapply lstep_link; exact F]. }
             assert (HP3 : DQ lcallc lstep w w3' ((CLink D P, r3) :: l2 ++ [(CUnlink P, r)])).
             { change ((CLink D P, r3) :: l2 ++ [(CUnlink P, r)]) with ([(CLink D P, r3)] ++ l2 ++ [(CUnlink P, r)]).
               eapply DQ_trans; [apply lstep_trans | exact HP2 | apply DQ_call; [reflexivity | exact Hs3]]. }
             destruct v3 as [e|].
             ++ rewrite throw_errno_run. cbn [post].
                exists ((CLink D P, r3) :: l2 ++ [(CUnlink P, r)]), LLinkFailed.
                split; [apply DQ_upd_r; exact HP3|].
                exists r3, e, (l2 ++ [(CUnlink P, r)]). split; [reflexivity|].
                split; [apply retv_some_failed; exact Hv3|]. split; [reflexivity|].
                cbn [upd_tr w_fs w3' after_call].
                assert (F3 : w_fs w3 = w_fs w2).
                { destruct Hfs3 as [[e' [_ [_ F]]]|[F _]]; [exact F|].
                  destruct (link_facts D P _ _ _ F) as [_ [_ C]]. exact C. }
                rewrite F3. exact (Hst2 [(CLink D P, r3)]).
             ++ apply post_ret.
                exists ((CLink D P, r3) :: l2 ++ [(CUnlink P, r)]), LLinked.
                split; [exact HP3|]. split; [cbn [w3' after_call w_tr]; exact T2|].
                split.
                { apply nob_cons. split; [apply badby_ok; apply retv_none_failed; exact Hv3|].
                  apply nob_app. split; [exact N2 | apply nob_one; exact Hb1]. }
                destruct Hfs3 as [[e' [_ [Ev _]]]|[F _]]; [discriminate Ev|].
                destruct (link_facts D P _ _ _ F) as [_ [_ [n [Hn [HD [HPn EF]]]]]].
                exists n. split; [exact Hn|]. cbn [w3' after_call w_fs]. rewrite EF. split.
                ** rewrite lookup_add_dent_other; [exact HD | intros ->; congruence].
                ** apply lookup_add_dent_same. exact HPn.
          -- intros w3 ->. exists (l2 ++ [(CUnlink P, r)]). exact HP2.
        * rewrite T2. cbn [tr_ok tr_push t_frames]. apply post_ret.
          exists (l2 ++ [(CUnlink P, r)]), LMkdirFailed. split; [exact HP2|].
          exists d, r2, e, (l0 ++ [(CUnlink P, r)]). rewrite El. split; [reflexivity|].
          split; [exact Hin|]. split; [exact Hf|]. split; [exact He|]. split; [rewrite T2; reflexivity|].
          rewrite <- El. exact (Hst2 []).
      + intros w2 [l2 P2]. exists (l2 ++ [(CUnlink P, r)]).
        eapply DQ_trans; [apply lstep_trans | exact HP1 | apply DQ_lm; exact P2]. }
    assert (Hfail : forall e, retv (Some e) r -> e <> ENOENT -> w_fs w1 = w_fs w ->
              post (fun _ w' => exists l oc, link_rel w w' l oc) (link_crash w)
                   ((throw_errno e;; create_parents P;;
                     do b5 <- is_ok;
                     (if b5 then do l <- k_link D P; match l with Some e => throw_errno e | None => ret_ tt end
                      else ret_ tt)) o w1')).
    { intros e Hr He Hsame. unfold throw_errno. rewrite bind_throw. unfold create_parents, when_ok.
      rewrite bind_assoc, bind_is_ok. cbn [upd_tr w_tr tr_ok tr_push t_frames]. rewrite bind_ret, bind_is_ok.
      cbn [upd_tr w_tr tr_ok tr_push t_frames]. apply post_ret.
      exists [(CUnlink P, r)], LUnlinkFailed. split; [apply DQ_upd_r; exact HP1|].
      exists r, e. split; [reflexivity|]. split; [apply retv_some_failed; exact Hr|]. split; [exact He|].
      split; [|reflexivity]. cbn [upd_tr w_fs w1' after_call]. exact Hsame. }
    destruct v as [e|].
    + assert (Hsame : w_fs w1 = w_fs w).
      { destruct Hfs as [[e' [_ [_ F]]]|[F _]]; [exact F | exact (fs_unlink_err _ _ _ _ F)]. }
      destruct e; try (apply Hfail; [exact Hv | discriminate | exact Hsame]).
      (* ENOENT: nothing to unlink *)
      rewrite bind_ret. apply Hrest.
      * unfold badby. cbn [fst snd]. rewrite (retv_some_failed _ _ Hv). reflexivity.
      * destruct Hfs as [[e' [Er [_ F]]]|[F Er]].
        -- right. split; [left; rewrite Er; destruct Hv as [Hv|Hv]; rewrite Hv in Er; inversion Er; reflexivity|].
           rewrite F. reflexivity.
        -- left. rewrite (fs_unlink_err _ _ _ _ F). exact (fs_unlink_enoent _ _ _ F).
    + rewrite bind_ret. apply Hrest.
      * apply badby_ok. apply retv_none_failed. exact Hv.
      * left. destruct Hfs as [[e' [_ [Ev _]]]|[F _]]; [discriminate Ev|].
        destruct (fs_unlink_ok _ _ _ F) as [n [Hn [Hl ->]]].
        apply lookup_del_dent_same; [exact Hnd|]. intros ->. rewrite lookup_root in Hl.
        inversion Hl; subst n. discriminate Hn.
  - intros w1 ->. exists []. apply DQ_refl. apply lstep_refl.
Qed.

(* reported <-> the step did not complete *)
Lemma link_rel_reported w w' l oc :
  link_rel w w' l oc -> tr_ok (w_tr w) = true ->
  (existsb lbad l = true <-> oc <> LLinked) /\ (oc <> LLinked -> tr_ok (w_tr w') = false).
Proof.
  intros [_ H] Hok. destruct oc.
  - destruct H as [_ [N _]]. split; [|intros X; contradiction]. unfold nob in N. rewrite N.
    split; [discriminate | intros X; contradiction].
  - destruct H as [r [e [-> [Hf [He [_ T]]]]]]. split; [|intros _; rewrite T; reflexivity].
    split; [discriminate|]. intros _. cbn [existsb]. unfold badby. cbn [fst snd]. rewrite Hf.
    destruct e; try reflexivity. contradiction.
  - destruct H as [d [r [e [l0 [-> [_ [Hf [He [T _]]]]]]]]]. split; [|intros _; exact T].
    split; [discriminate|]. intros _. cbn [existsb]. unfold badby at 1. cbn [fst snd]. rewrite Hf.
    destruct e; try reflexivity. contradiction.
  - destruct H as [r [e [l0 [-> [Hf [T _]]]]]]. split; [|intros _; exact T].
    split; [discriminate|]. intros _. cbn [existsb]. unfold badby at 1. cbn [fst snd]. rewrite Hf. reflexivity.
Qed.

(* whatever happens, the stored version is as it was: name, inode, bytes *)
Lemma link_rel_version w w' l oc i :
  link_rel w w' l oc -> D <> P -> lookup (w_fs w) D = Some (NFile i) ->
  lookup (w_fs w') D = Some (NFile i) /\ get_file (w_fs w') i = get_file (w_fs w) i.
Proof.
  intros [[_ [_ [A [_ [C _]]]]] _] Hne Hl. split.
  - rewrite C; [exact Hl | exact Hne | rewrite Hl; discriminate].
  - unfold get_file. rewrite A. reflexivity.
Qed.

End Link.

(* ----- what follows the copy of a member: pop, link step, journal, rest ----- *)

Section MemberFinish.
Variables (h1 : handler) (path : str) (meta : N).
Variable k : handler -> M (tresult * handler).
Let cfg := h_cfg h1.

Definition mb_off : nat := shift_right2 meta.
(* the entry of the member in the unstable tree (= MemberProofs.member_path) *)
Definition mb_path : str :=
  c_unstable_root cfg ++ ch_slash ::
    firstn (mb_off - name_start path mb_off mb_off) (skipn (name_start path mb_off mb_off) path)
    ++ skipn mb_off path.
Definition mb_qlink : str := QueueProofs.head_name (h_q h1).

Lemma file_finish_member ev sp' o wc :
  Nat.ltb 0 mb_off = true ->
  file_finish h1 path meta k (ev, true, sp') o wc =
  (do q2 <- q_pop_head (h_q h1);
   do b4 <- is_ok;
   if negb b4 then
     throw_context path;; throw_static M_store_cannot_copy;; ret_ (TError, set_q q2 h1)
   else
     link_step mb_path (current_path sp');;
     record_event ev 0%N (st_rel h1 path) (set_q q2 h1);;
     k (set_q q2 h1)) o wc.
Proof.
  intros H. unfold file_finish. unfold mb_off in H. cbv zeta. rewrite H. cbn [andb]. reflexivity.
Qed.

(* the two ways the finish of a stored member goes *)
Definition member_outcome (ev : option str) (sp' : store_path) (o : oracle) (wc : world)
           (r : tresult * handler) (w' : world) : Prop :=
  (* the pop failed: "cannot copy", stop; nothing was touched, the head stays *)
  (exists lp, w_log w' = lp ++ w_log wc /\ existsb unlinked lp = false /\
              w_fs w' = w_fs wc /\ tr_ok (w_tr w') = false /\ r = (TError, h1)) \/
  (* popped: the queue link is gone; then the link step, the journal line, the rest of the pass *)
  (exists wp x lp wl l oc,
     w_log wp = lp ++ w_log wc /\ w_tr wp = w_tr wc /\
     w_fs wp = del_dent mb_qlink (w_fs wc) /\ lookup (w_fs wp) mb_qlink = None /\
     link_rel mb_path (current_path sp') wp wl l oc /\
     let h2 := set_q (QueueProofs.popped x (h_q h1)) h1 in
     (record_event ev 0%N (st_rel h1 path) h2;; k h2) o wl = (Some r, w')).

Theorem member_finish_spec ev sp' o wc :
  Nat.ltb 0 mb_off = true -> t_frames (w_tr wc) = [] -> t_post (w_tr wc) = 0 -> keys_nodup (w_fs wc) ->
  post (member_outcome ev sp' o wc) (fun _ => True) (file_finish h1 path meta k (ev, true, sp') o wc).
Proof.
  intros Hoff Hfr Hpo Hnd.
  assert (Etr : w_tr wc = mkTr [] (t_pre (w_tr wc)) 0).
  { destruct (w_tr wc) as [fr p po]. cbn [t_frames t_post t_pre] in *. subst. reflexivity. }
  rewrite (file_finish_member ev sp' o wc Hoff).
  apply post_bind. eapply post_mono; [apply (q_pop_head_spec2 [] (h_q h1) o wc _ Etr)| |auto].
  intros q2 wp [lp [Lp [Cp Hp]]]. cbv beta. rewrite bind_is_ok.
  destruct Hp as [[Tp [_ [Fp [x ->]]]]|[Tp [_ [Fp [-> Up]]]]].
  - rewrite Tp, Etr. cbn [tr_ok t_frames negb].
    destruct (fs_unlink_ok _ _ _ Fp) as [n [Hn [Hl Efs]]].
    assert (Hq : lookup (w_fs wp) mb_qlink = None).
    { rewrite Efs. apply lookup_del_dent_same; [exact Hnd|]. intros E. unfold mb_qlink in E.
      rewrite E, lookup_root in Hl. inversion Hl; subst n. discriminate Hn. }
    assert (Hokp : tr_ok (w_tr wp) = true) by (rewrite Tp, Etr; reflexivity).
    assert (Hndp : keys_nodup (w_fs wp)) by (rewrite Efs; apply keys_nodup_del; exact Hnd).
    pose proof (link_step_spec mb_path (current_path sp') o wp Hokp Hndp) as Hl'.
    unfold bind at 1. destruct (link_step mb_path (current_path sp') o wp) as [[u|] wl]; cbn [post] in Hl' |- *; [|exact I].
    destruct Hl' as [l [oc Hrel]].
    match goal with |- post _ _ ?run => destruct run as [[r|] w'] eqn:Er end; cbn [post]; [|exact I].
    right. exists wp, x, lp, wl, l, oc. split; [exact Lp|]. split; [exact Tp|].
    split; [exact Efs|]. split; [exact Hq|]. split; [exact Hrel | exact Er].
  - rewrite Tp. cbn [negb]. unfold throw_context, throw_static. rewrite !bind_throw. apply post_ret.
    left. exists lp. split; [exact Lp|]. split; [exact Up|]. split; [exact Fp|].
    split; [reflexivity | rewrite set_q_same; reflexivity].
Qed.

End MemberFinish.

(* (3) member_link_fault_is_reported.  With the rest of the pass as
   continuation: a failing unlink (other than ENOENT), mkdir (other than
   EEXIST) or link ends the iteration with the error on the trace and "stop";
   the version is stored, the queue link is gone, the unstable entry is as
   [link_rel] says, per failing call. *)
Theorem member_link_fault_is_reported h1 path meta fuel rev ev sp' o wc :
  Nat.ltb 0 (mb_off meta) = true -> t_frames (w_tr wc) = [] -> t_post (w_tr wc) = 0 -> keys_nodup (w_fs wc) ->
  post (fun r w' =>
          member_outcome h1 path meta (handle_timeout_loop fuel rev) ev sp' o wc r w' /\
          forall wp x lp wl l oc,
            w_log wp = lp ++ w_log wc -> w_tr wp = w_tr wc ->
            link_rel (mb_path h1 path meta) (current_path sp') wp wl l oc ->
            (record_event ev 0%N (st_rel h1 path) (set_q (QueueProofs.popped x (h_q h1)) h1);;
             handle_timeout_loop fuel rev (set_q (QueueProofs.popped x (h_q h1)) h1)) o wl = (Some r, w') ->
            existsb (badby lreported) l = true ->
            oc <> LLinked /\ r = (TError, set_q (QueueProofs.popped x (h_q h1)) h1) /\
            w' = wl /\ tr_ok (w_tr w') = false)
       (fun _ => True)
       (file_finish h1 path meta (handle_timeout_loop fuel rev) (ev, true, sp') o wc).
Proof.
  intros Hoff Hfr Hpo Hnd.
  eapply post_mono; [apply (member_finish_spec h1 path meta _ ev sp' o wc Hoff Hfr Hpo Hnd)| |auto].
  intros r w' Hout. split; [exact Hout|].
  intros wp x lp wl l oc Lp Tp Hrel Er Hb.
  assert (Hokp : tr_ok (w_tr wp) = true) by (rewrite Tp; unfold tr_ok; rewrite Hfr; reflexivity).
  destruct (link_rel_reported _ _ _ _ _ _ Hrel Hokp) as [Hiff Hno].
  pose proof (proj1 Hiff Hb) as Hoc. specialize (Hno Hoc).
  unfold bind in Er. rewrite (record_event_failed _ _ _ _ o wl Hno) in Er.
  rewrite (handle_timeout_loop_failed fuel rev _ o wl Hno) in Er. inversion Er; subst.
  auto.
Qed.

(* ====================================================================== *)
(* 6. the iterations inside handle_timeout_loop                           *)
(* ====================================================================== *)

(* the checks handle_timeout makes on a ready head, for a PROJECT head *)
Definition project_head_valid (h1 : handler) (path : str) (meta : N) : bool :=
  negb (negb (prefixb [ch_slash] path) || is_slash (last path ch_dot)
        || (N.of_nat (length path) <? N.shiftr meta 2)%N
        || (Nat.ltb (length path) (h_cpl h1) && negb (N.odd meta)))
  && N.odd meta.

(* When the head read yields a ready project head that passes the checks, the
   iteration of handle_timeout_loop IS project_step, run from the world after
   the head read, with the rest of the pass as continuation. *)
Theorem timeout_reaches_project_step fuel' rev h o w q1 w2 path meta :
  tr_ok (w_tr w) = true ->
  q_get_head (S (N.to_nat (q_size (h_q h)))) (h_q h) o (upd_tr (tr_try (w_tr w)) w)
    = (Some (Some (QReady path meta), q1), w2) ->
  tr_ok (w_tr w2) = true ->
  let h1 := set_q q1 h in
  let w3 := upd_tr (tr_finally_rethrow_static M_linq_cannot_get_head (w_tr w2)) w2 in
  let version := expand_pattern (c_version_pattern (h_cfg h)) (dec (Z.to_N (w_clock w2))) in
  Nat.ltb name_max (length version) = false ->
  existsb is_slash version = false ->
  project_head_valid h1 path meta = true ->
  handle_timeout_loop (S fuel') rev h o w
  = project_step h1 path version rev (handle_timeout_loop fuel' rev) o w3.
Proof.
  intros Hok Hhead Hok2 h1 w3 version Hlen Hsl Hval.
  cbn [handle_timeout_loop]. rewrite bind_is_ok, Hok. cbn [negb].
  unfold try_. rewrite bind_mod_tr. unfold bind at 1. rewrite Hhead.
  unfold finally_rethrow_static. rewrite bind_mod_tr. fold w3. cbv iota beta zeta.
  assert (Hok3 : tr_ok (w_tr w3) = true) by (apply tr_ok_finally_rethrow; exact Hok2).
  rewrite bind_is_ok, Hok3. cbv iota.
  change (h_cfg (set_q q1 h)) with (h_cfg h).
  unfold bind at 1. rewrite (get_timestamp_ok _ o w3 Hok3 Hlen).
  change (w_clock w3) with (w_clock w2). fold version.
  rewrite bind_is_ok, Hok3. cbv iota. rewrite Hsl.
  rewrite bind_ret. rewrite bind_is_ok, Hok3. cbv iota.
  unfold project_head_valid in Hval. apply andb_true_iff in Hval. destruct Hval as [Hv1 Hv2].
  apply negb_true_iff in Hv1. fold h1. rewrite Hv2.
  change (h_cpl h1) with (h_cpl h) in *.
  rewrite Hv2 in Hv1. cbn [negb] in Hv1. cbn [negb]. rewrite Hv1.
  reflexivity.
Qed.

(* END TO END, project head.  One iteration of handle_timeout_loop whose head
   read yields a ready, valid PROJECT head, for every oracle: [we] is the world
   in which the rest of the pass is entered, [l] the calls of the iteration. *)
Theorem timeout_iteration_project fuel' rev h o w q1 w2 path meta :
  tr_ok (w_tr w) = true ->
  q_get_head (S (N.to_nat (q_size (h_q h)))) (h_q h) o (upd_tr (tr_try (w_tr w)) w)
    = (Some (Some (QReady path meta), q1), w2) ->
  t_frames (w_tr w2) = [] -> t_post (w_tr w2) = 0 ->
  let h1 := set_q q1 h in
  let version := expand_pattern (c_version_pattern (h_cfg h)) (dec (Z.to_N (w_clock w2))) in
  Nat.ltb name_max (length version) = false ->
  existsb is_slash version = false ->
  project_head_valid h1 path meta = true ->
  pj_ok h1 path version ->
  match handle_timeout_loop (S fuel') rev h o w with
  | (Some r, w') =>
      exists q2 we l,
        w_log we = l ++ w_log w2 /\ icalls l /\
        handle_timeout_loop fuel' rev (set_q q2 h1) o we = (Some r, w') /\
        (* reported *)
        (existsb (badby (preported (pj_unst h1 path))) l = true -> tr_ok (w_tr we) = false) /\
        (* an error: stop, the entry stays, nothing outside the unstable tree is touched *)
        (tr_ok (w_tr we) = false ->
           r = (TError, h1) /\ w' = we /\ q2 = h_q h1 /\
           existsb unlinked l = false /\ istep h1 path (w_fs w2) (w_fs we))
  | (None, _) => True
  end.
Proof.
  intros Hok Hhead Hfr2 Hpo2 h1 version Hlen Hsl Hval Hpj.
  assert (Hok2 : tr_ok (w_tr w2) = true) by (unfold tr_ok; rewrite Hfr2; reflexivity).
  rewrite (timeout_reaches_project_step fuel' rev h o w q1 w2 path meta Hok Hhead Hok2 Hlen Hsl Hval).
  fold h1 version.
  set (w3 := upd_tr (tr_finally_rethrow_static M_linq_cannot_get_head (w_tr w2)) w2).
  destruct (finally_rethrow_frames M_linq_cannot_get_head (w_tr w2) Hfr2 Hpo2) as [Hfr3 Hpo3].
  assert (Etr : w_tr w3 = mkTr [] (t_pre (w_tr w3)) 0).
  { change (w_tr w3) with (tr_finally_rethrow_static M_linq_cannot_get_head (w_tr w2)).
    destruct (tr_finally_rethrow_static M_linq_cannot_get_head (w_tr w2)) as [fr p po].
    cbn [t_frames t_post t_pre] in *. subst. reflexivity. }
  rewrite project_step_iter. unfold bind.
  pose proof (project_iter_spec h1 path version rev o w3 _ Hpj Etr) as H.
  destruct (project_iter h1 path version rev o w3) as [[q2|] we]; cbn [post] in H; [|exact I].
  destruct (handle_timeout_loop fuel' rev (set_q q2 h1) o we) as [[r|] w'] eqn:Ek; [|exact I].
  destruct H as [l [L [C H]]]. exists q2, we, l. split; [exact L|]. split; [exact C|]. split; [exact Ek|].
  split.
  - intros Hb. destruct H as [[_ [N _]]|[T _]]; [unfold nob in N; congruence | exact T].
  - intros Hno. destruct H as [[T _]|[_ [-> [U I']]]].
    + exfalso. rewrite T, Etr in Hno. discriminate Hno.
    + rewrite set_q_same in Ek. rewrite (handle_timeout_loop_failed fuel' rev _ o we Hno) in Ek.
      inversion Ek; subst r w'. split; [reflexivity|]. split; [reflexivity|]. split; [reflexivity|].
      split; [exact U | exact I'].
Qed.

(* END TO END, member.  One iteration of handle_timeout_loop whose head read
   yields a ready, valid FILE head with a project offset: either read_counter
   reported an error, or the copy loop ended in some world [wc] (FaultProofs
   says everything about the cases where the version is NOT stored); when the
   version IS stored, what follows is [member_outcome], and a reported failure
   of the link step ends the pass with "stop".  [d] is any directory that the
   store and the position file are not inside of (the queue directory, say):
   it is only used to carry "no two entries with the same name" through the copy. *)
Theorem timeout_iteration_member fuel' rev h o w q1 w2 path meta d :
  tr_ok (w_tr w) = true ->
  q_get_head (S (N.to_nat (q_size (h_q h)))) (h_q h) o (upd_tr (tr_try (w_tr w)) w)
    = (Some (Some (QReady path meta), q1), w2) ->
  t_frames (w_tr w2) = [] -> t_post (w_tr w2) = 0 ->
  let h1 := set_q q1 h in
  let version := expand_pattern (c_version_pattern (h_cfg h)) (dec (Z.to_N (w_clock w2))) in
  let k := handle_timeout_loop fuel' rev in
  Nat.ltb name_max (length version) = false ->
  existsb is_slash version = false ->
  file_head_valid h1 path meta = true ->
  names_ok h1 path version ->
  Nat.ltb 0 (mb_off meta) = true ->
  keys_nodup (w_fs w2) ->
  (forall p, Confine.inside (c_store_root (h_cfg h)) p -> CrashFrame.away d p) ->
  CrashFrame.away d (st_offp h1 path) ->
  match handle_timeout_loop (S fuel') rev h o w with
  | (Some r, w') =>
      exists off wr, w_fs wr = w_fs w2 /\
        ((r = (TError, h1) /\ w' = wr /\ tr_ok (w_tr w') = false) \/
         exists res wc,
           loop_rel h1 path meta version o off wr res wc /\
           file_finish h1 path meta k res o wc = (Some r, w') /\
           (snd (fst res) = true ->
              keys_nodup (w_fs wc) /\ tr_ok (w_tr wc) = true /\
              member_outcome h1 path meta k (fst (fst res)) (snd res) o wc r w' /\
              forall wp x lp wl l oc,
                w_log wp = lp ++ w_log wc -> w_tr wp = w_tr wc ->
                link_rel (mb_path h1 path meta) (current_path (snd res)) wp wl l oc ->
                (record_event (fst (fst res)) 0%N (st_rel h1 path) (set_q (QueueProofs.popped x (h_q h1)) h1);;
                 k (set_q (QueueProofs.popped x (h_q h1)) h1)) o wl = (Some r, w') ->
                existsb (badby lreported) l = true ->
                oc <> LLinked /\ r = (TError, set_q (QueueProofs.popped x (h_q h1)) h1) /\
                w' = wl /\ tr_ok (w_tr w') = false))
  | (None, _) => True
  end.
Proof.
  intros Hok Hhead Hfr2 Hpo2 h1 version k Hlen Hsl Hval Hn Hoff Hnd Hst Hoffp.
  assert (Hok2 : tr_ok (w_tr w2) = true) by (unfold tr_ok; rewrite Hfr2; reflexivity).
  rewrite (timeout_reaches_file_step fuel' rev h o w q1 w2 path meta Hok Hhead Hok2 Hlen Hsl Hval).
  fold h1 version k.
  set (w3 := upd_tr (tr_finally_rethrow_static M_linq_cannot_get_head (w_tr w2)) w2).
  destruct (finally_rethrow_frames M_linq_cannot_get_head (w_tr w2) Hfr2 Hpo2) as [Hfr3 Hpo3].
  pose proof (file_step_outcome h1 path meta version k o w3 Hfr3) as H.
  destruct (file_step h1 path meta version k o w3) as [[r|] w']; cbn [post] in H; [|exact I].
  destruct H as [lr [off [wr [[L [P F]] Hc]]]]. exists off, wr. split; [exact F|].
  destruct Hc as [[T [E1 E2]]|[T [_ E]]].
  - left. split; [exact E1|]. split; [exact E2|]. subst w'. apply (trerr_notok _ _ T).
  - right.
    assert (Hfr : t_frames (w_tr wr) = []) by (rewrite T; exact Hfr3).
    assert (Hpo : t_post (w_tr wr) = 0) by (rewrite T; exact Hpo3).
    assert (Hokr : tr_ok (w_tr wr) = true) by (unfold tr_ok; rewrite Hfr; reflexivity).
    unfold copy_step in E. rewrite bind_is_ok, Hokr in E. cbn [negb] in E. rewrite bind_get_fs in E.
    unfold bind in E.
    pose proof (file_store_loop_spec (st_offp h1 path) (h_cfg h1) path (N.to_nat off) (st_ish meta) o
                  (copy_fuel h1 path version (w_fs wr)) (st_sp h1 path version) wr Hn Hfr Hpo) as Hsp.
    (* no duplicate names after the copy: the frame pass of CrashFrame *)
    set (X := fun f : fs => keys_nodup f).
    assert (X_add : forall f p n, CrashFrame.away d p -> lookup f p = None -> X f -> X (add_dent p n f)).
    { intros f p n _ Hl Hx. apply keys_nodup_add; assumption. }
    assert (X_del : forall f p, CrashFrame.away d p -> X f -> X (del_dent p f)).
    { intros f p _ Hx. apply keys_nodup_del. exact Hx. }
    assert (X_files : forall f fl nx, X f -> X (mkFs (fs_dents f) fl nx)).
    { intros f fl nx Hx. exact Hx. }
    pose proof (CrashFrame.fk_file_store_loop d X X_add X_del X_files
                  (copy_fuel h1 path version (w_fs wr)) (st_sp h1 path version) path (st_offp h1 path)
                  (N.to_nat off) (st_ish meta) (h_cfg h1) (c_store_root (h_cfg h1))
                  (Confine2.spI_create _ _ _) Hst Hoffp o wr I) as Hfk.
    assert (Hxr : X (w_fs wr)) by (unfold X; rewrite F; exact Hnd).
    specialize (Hfk Hxr).
    destruct (file_store_loop _ _ _ _ _ _ _ o wr) as [[res|] wc]; [|discriminate E].
    cbn [post] in Hsp. destruct Hfk as [Hxc _].
    exists res, wc. split; [exact Hsp|]. split; [exact E|].
    intros Hstored. destruct res as [[ev st] sp']. cbn [fst snd] in Hstored |- *. subst st.
    assert (Hwc : tr_ok (w_tr wc) = true /\ t_post (w_tr wc) = 0).
    { unfold fsl_post in Hsp. destruct Hsp as [l [_ [_ [Q [_ [oc Hoc]]]]]]. split; [|exact Q].
      destruct oc; destruct Hoc as [A [B _]]; first [exact A | discriminate B]. }
    destruct Hwc as [Hokc Hpoc].
    assert (Hfrc : t_frames (w_tr wc) = []).
    { unfold tr_ok in Hokc. destruct (t_frames (w_tr wc)); [reflexivity | discriminate]. }
    split; [exact Hxc|]. split; [exact Hokc|].
    pose proof (member_link_fault_is_reported h1 path meta fuel' rev ev sp' o wc Hoff Hfrc Hpoc Hxc) as Hm.
    fold k in Hm. rewrite E in Hm. cbn [post] in Hm. exact Hm.
Qed.

(* ----- discharging the hypothesis on the names ----- *)

Lemma prefixb_app_long a : forall b s, length a <= length b -> prefixb a (b ++ s) = prefixb a b.
Proof.
  induction a as [|x a IH]; intros [|y b] s H; cbn [prefixb app length] in *; try reflexivity; [lia|].
  rewrite IH by lia. reflexivity.
Qed.

Lemma parents_out_of_not_under U p : Str.under U p = false -> parents_out U p.
Proof.
  intros H d Hd. destruct (Str.under U d) eqn:E; [|reflexivity]. exfalso.
  unfold Str.under in E. apply prefixb_spec in E. destruct E as [t Et].
  destruct (Confine.parents_of_prefix p d Hd) as [r Hr].
  assert (Hu : Str.under U p = true).
  { unfold Str.under. apply prefixb_spec. exists (t ++ ch_slash :: r). rewrite Hr, Et, <- app_assoc. reflexivity. }
  congruence.
Qed.

(* enough: the base name of the snapshot is longer than U and not under it *)
Lemma names_out_base U sp :
  S (length U) <= length (sp_base sp) -> Str.under U (sp_base sp) = false -> names_out U sp.
Proof.
  intros Hl Hu n. apply parents_out_of_not_under. unfold current_path. cbn [sp_base sp_ext sp_dups].
  assert (Hlen : length (U ++ [ch_slash]) <= length (sp_base sp)) by (rewrite app_length; cbn [length]; lia).
  destruct (n =? 0)%N; unfold Str.under; rewrite (prefixb_app_long _ _ _ Hlen); exact Hu.
Qed.

(* ====================================================================== *)
(* 7. a concrete pass: /w/proj with one member                            *)
(* ====================================================================== *)

Module Fault2Example.
  Import String.
  Definition lit (x : string) : str := list_ascii_of_string x.
  Local Open Scope string_scope.

  (* store /s, snapshots /ps, unstable trees /u, queue /q, journal /j (inode 1),
     positions /o; versions and time stamps are "<seconds>"; debounce 5 s; the
     common parent of the watched tree is "/w/" *)
  Definition cfg0 : config :=
    mkCfg [] (mkRules [] [] [] [] [] []) (lit "/s") (lit "/ps") (lit "/u") (lit "/q")
          (Some (lit "/j")) (lit "/o") (lit "%s") (lit "%s") 5%Z 0 32
          None None None None (Some (lit "gone")) (Some (lit "denied")) (Some (lit "stored")).
  Definition jn0 : journal := mkJ 1 (lit "%s").

  Definition Pn : str := lit "/w/proj".                  (* the project root: 7 characters *)
  Definition p_m : str := lit "/w/proj/src/m.c".         (* its member; flags 28 = offset 7 *)
  Definition Un : str := lit "/u/proj".
  Definition up_m : str := lit "/u/proj/src/m.c".
  Definition up_old : str := lit "/u/proj/old.c".
  Definition dst_m : str := lit "/s/proj/src/m.c/100.c".
  Definition old_m : str := lit "/s/proj/src/m.c/50.c".
  Definition snap : str := lit "/ps/proj/100".
  Definition snap1 : str := lit "/ps/proj/100-1".
  Definition snap_m : str := lit "/ps/proj/100/src/m.c".
  Definition snap1_m : str := lit "/ps/proj/100-1/src/m.c".
  Definition osnap_m : str := lit "/ps/proj/50/src/m.c".
  Definition q0l : str := lit "/q/0".
  Definition q1l : str := lit "/q/1".
  Definition s_two : str := lit "two".
  Definition s_one : str := lit "one".

  (* src/m.c was stored at 50 s ("one", inode 3: version 50.c, linked in the
     unstable tree and in snapshot 50) and rewritten ("two", inode 2); old.c
     (inode 4) has left the project but is still in the unstable tree; the
     queue holds the member (flags 28) and the project (flags 1), both due *)
  Definition fs0 : fs :=
    mkFs [ (lit "/w", NDir); (lit "/w/proj", NDir); (lit "/w/proj/src", NDir); (p_m, NFile 2);
           (lit "/j", NFile 1); (lit "/q", NDir);
           (q0l, NLink (encode 28 p_m) 10%Z); (q1l, NLink (encode 1 Pn) 10%Z);
           (lit "/s", NDir); (lit "/s/proj", NDir); (lit "/s/proj/src", NDir);
           (lit "/s/proj/src/m.c", NDir); (old_m, NFile 3);
           (lit "/u", NDir); (Un, NDir); (lit "/u/proj/src", NDir); (up_m, NFile 3); (up_old, NFile 4);
           (lit "/ps", NDir); (lit "/ps/proj", NDir); (lit "/ps/proj/50", NDir);
           (lit "/ps/proj/50/src", NDir); (osnap_m, NFile 3) ]
         [ (1, mkFile [] true); (2, mkFile s_two true); (3, mkFile s_one true);
           (4, mkFile (lit "zzz") true) ]
         5.

  Definition q0 : qmem := mkQ (lit "/q") 0 2 5%Z 32 [Pn; p_m].
  Definition h0 : handler := mkH cfg0 None 3 q0 (Some jn0) [] [].
  Definition w0 : world := mkW fs0 0 [] 100%Z tr_empty.
  Local Close Scope string_scope.

  Definition fail_at (k : nat) (e : errno) : oracle := fun i => if Nat.eqb i k then FFail e else FNone.

  Definition is_none (x : option node) : bool := match x with None => true | _ => false end.
  Definition is_link (x : option node) : bool := match x with Some (NLink _ _) => true | _ => false end.
  Definition is_file (i : nat) (x : option node) : bool := match x with Some (NFile j) => Nat.eqb i j | _ => false end.
  Definition is_dir (x : option node) : bool := match x with Some NDir => true | _ => false end.
  Definition bytes_are (f : fs) (i : nat) (b : str) : bool := str_eqb (f_bytes (get_file f i)) b.

  (* The fault-free pass, 39 calls.  Member: head read (0-1), copy (2-12), pop
     (13-14), LINK STEP: unlink (15), mkdir x3 (16-18), link (19), journal (20).
     PROJECT: head read (21-22), mkdir of the ancestors (23-24) and of the
     snapshot directory (25), its open (26), fts_open (27), the walk (28-34:
     access/unlink of old.c, access/mkdirat of src, access/linkat of src/m.c,
     access of src on the way back), close (35), journal (36), pop (37-38). *)
  Example fault_free_pass :
    let '(r, w) := handle_timeout false h0 no_faults w0 in
    (match r with Some (TPause _, _) => True | _ => False end) /\
    tr_ok (w_tr w) = true /\ w_n w = 39 /\
    lookup (w_fs w) q0l = None /\ lookup (w_fs w) q1l = None /\
    lookup (w_fs w) dst_m = Some (NFile 5) /\ f_bytes (get_file (w_fs w) 5) = s_two /\
    lookup (w_fs w) up_m = Some (NFile 5) /\ lookup (w_fs w) up_old = None /\
    lookup (w_fs w) snap_m = Some (NFile 5) /\
    lookup (w_fs w) old_m = Some (NFile 3) /\ lookup (w_fs w) osnap_m = Some (NFile 3).
  Proof. vm_compute. repeat split. Qed.

  (* what is checked after the pass in which call k failed with EIO *)
  Definition check (k : nat) : bool :=
    let '(r, w) := handle_timeout false h0 (fail_at k EIO) w0 in
    let f := w_fs w in
    let versions_kept :=
      is_file 3 (lookup f old_m) && bytes_are f 3 s_one && is_file 3 (lookup f osnap_m) in
    match nth_error (rev (w_log w)) k with
    | Some (c, RFault EIO) =>
        if (15 <=? k) && (k <=? 19) then
          (* the member link step: reported, stop; the version IS stored, the
             member's queue link is gone, the project entry stays; the unstable
             entry is the OLD one (failing unlink) or ABSENT (failing mkdir / link) *)
          lreported c EIO &&
          match r with
          | Some (TError, h') =>
              negb (tr_ok (w_tr w)) && (q_size (h_q h') =? 1)%N && (q_head (h_q h') =? 1)%N &&
              is_none (lookup f q0l) && is_link (lookup f q1l) &&
              is_file 5 (lookup f dst_m) && bytes_are f 5 s_two && versions_kept &&
              (if k =? 15 then is_file 3 (lookup f up_m) else is_none (lookup f up_m))
          | _ => false
          end
        else if (23 <=? k) && (k <=? 38) then
          if preported Un c EIO then
            (* the project iteration: reported, stop; the project entry stays (on
               disk and in memory), the only unlinkat that took effect is the
               member's, every version and the old snapshot are as before *)
            match r with
            | Some (TError, h') =>
                negb (tr_ok (w_tr w)) && (q_size (h_q h') =? 1)%N && (q_head (h_q h') =? 1)%N &&
                is_link (lookup f q1l) && (List.length (filter unlinked (w_log w)) =? 1) &&
                is_file 5 (lookup f dst_m) && bytes_are f 5 s_two && versions_kept
            | _ => false
            end
          else
            (* access / close: never reported by themselves (a failing access can
               make a LATER call fail for real: 30, 34) *)
            match c with CAccess _ | CClose => true | _ => false end &&
            match r with
            | Some (TPause _, _) => tr_ok (w_tr w) && is_none (lookup f q1l) && versions_kept
            | Some (TError, _) => negb (tr_ok (w_tr w)) && is_link (lookup f q1l) && versions_kept
            | None => false
            end
        else
          match r with
          | Some (TPause _, _) => tr_ok (w_tr w)
          | Some (TError, _) => negb (tr_ok (w_tr w))
          | None => false
          end
    | Some _ => false
    | None => Nat.leb 39 k        (* the pass has only 39 calls *)
    end.

  Example every_call_failed_in_turn : forallb check (seq 0 42) = true.
  Proof. vm_compute. reflexivity. Qed.

  (* which indices are reported: everything except the accesses 28, 32 and the close 35 *)
  Example reported_indices :
    filter (fun k => let '(r, w) := handle_timeout false h0 (fail_at k EIO) w0 in negb (tr_ok (w_tr w)))
           (seq 15 24)
    = [15; 16; 17; 18; 19; 20; 21; 22; 23; 24; 25; 26; 27; 29; 30; 31; 33; 34; 36; 37; 38].
  Proof. vm_compute. reflexivity. Qed.

  (* ----- the three states of the unstable entry after the link step ----- *)
  Example link_step_three_outcomes :
    (* no fault: the NEW version *)
    (let '(r, w) := handle_timeout false h0 no_faults w0 in lookup (w_fs w) up_m = Some (NFile 5)) /\
    (* the unlink fails: the OLD one, error reported *)
    (let '(r, w) := handle_timeout false h0 (fail_at 15 EIO) w0 in
     lookup (w_fs w) up_m = Some (NFile 3) /\ tr_ok (w_tr w) = false /\ lookup (w_fs w) dst_m = Some (NFile 5)) /\
    (* a mkdir or the link fails: ABSENT, error reported *)
    (let '(r, w) := handle_timeout false h0 (fail_at 17 EIO) w0 in
     lookup (w_fs w) up_m = None /\ tr_ok (w_tr w) = false /\ lookup (w_fs w) dst_m = Some (NFile 5)) /\
    (let '(r, w) := handle_timeout false h0 (fail_at 19 EIO) w0 in
     lookup (w_fs w) up_m = None /\ tr_ok (w_tr w) = false /\ lookup (w_fs w) dst_m = Some (NFile 5)) /\
    (* the oracle answers ENOENT to the unlink of the existing entry: the link
       then fails for real (EEXIST); the old one stays, error reported *)
    (let '(r, w) := handle_timeout false h0 (fail_at 15 ENOENT) w0 in
     lookup (w_fs w) up_m = Some (NFile 3) /\ tr_ok (w_tr w) = false /\
     nth_error (rev (w_log w)) 19 = Some (CLink dst_m up_m, RErr EEXIST)).
  Proof. vm_compute. repeat split. Qed.

  (* ----- expected conditions do not stop the daemon ----- *)
  Example expected_conditions_do_not_stop :
    (* the snapshot name is taken (EEXIST at the mkdir of the snapshot directory): next name *)
    (let '(r, w) := handle_timeout false h0 (fail_at 25 EEXIST) w0 in
     (match r with Some (TPause _, _) => True | _ => False end) /\ tr_ok (w_tr w) = true /\
     lookup (w_fs w) q1l = None /\ lookup (w_fs w) snap = None /\ lookup (w_fs w) snap1_m = Some (NFile 5)) /\
    (* an ancestor is there already *)
    (let '(r, w) := handle_timeout false h0 (fail_at 23 EEXIST) w0 in
     (match r with Some (TPause _, _) => True | _ => False end) /\ tr_ok (w_tr w) = true /\
     lookup (w_fs w) snap_m = Some (NFile 5)) /\
    (* the unstable tree is gone / unreadable: journalled, popped, the pass goes on
       (the empty snapshot directory created before fts_open stays) *)
    (let '(r, w) := handle_timeout false h0 (fail_at 27 ENOENT) w0 in
     (match r with Some (TPause _, _) => True | _ => False end) /\ tr_ok (w_tr w) = true /\
     lookup (w_fs w) q1l = None /\ lookup (w_fs w) snap = Some NDir /\ lookup (w_fs w) snap_m = None) /\
    (let '(r, w) := handle_timeout false h0 (fail_at 27 EACCES) w0 in
     (match r with Some (TPause _, _) => True | _ => False end) /\ tr_ok (w_tr w) = true /\
     lookup (w_fs w) q1l = None).
  Proof. vm_compute. repeat split. Qed.

  (* ----- what does NOT hold ----- *)

  (* the restart after a stop: the handler is loaded again, same second *)
  Definition restart (f : fs) : option (tresult * handler) * world :=
    let wr := mkW f 0 [] 100%Z tr_empty in
    match load_handler cfg0 None 3 no_faults wr with
    | (Some (Some h), w1) => handle_timeout false h no_faults w1
    | (_, w1) => (None, w1)
    end.

  (* FINDING.  A reported failure inside the walk (here the linkat of src/m.c,
     call 33) leaves a PARTIAL snapshot directory: /ps/proj/100 with src/ but
     without src/m.c.  clean_up only removes empty ancestors, never the
     directory itself.  The entry stays queued, but the retry after the restart
     finds the name taken and writes the complete snapshot under the NEXT name
     (100-1): the partial directory stays for ever and looks like a snapshot. *)
  Example project_failed_snapshot_partial :
    let '(r, w) := handle_timeout false h0 (fail_at 33 EIO) w0 in
    (match r with Some (TError, _) => True | _ => False end) /\ tr_ok (w_tr w) = false /\
    nth_error (rev (w_log w)) 33 = Some (CLinkat up_m snap (lit "src/m.c"), RFault EIO) /\
    is_link (lookup (w_fs w) q1l) = true /\
    lookup (w_fs w) snap = Some NDir /\ lookup (w_fs w) (lit "/ps/proj/100/src") = Some NDir /\
    lookup (w_fs w) snap_m = None /\
    let '(r2, w2) := restart (w_fs w) in
    (match r2 with Some (TPause _, _) => True | _ => False end) /\ tr_ok (w_tr w2) = true /\
    lookup (w_fs w2) q1l = None /\
    lookup (w_fs w2) snap1_m = Some (NFile 5) /\
    lookup (w_fs w2) snap = Some NDir /\ lookup (w_fs w2) snap_m = None.
  Proof. vm_compute. repeat split. Qed.

  (* the same with an EMPTY directory when the open of the new directory fails *)
  Example project_failed_snapshot_empty :
    let '(r, w) := handle_timeout false h0 (fail_at 26 EIO) w0 in
    tr_ok (w_tr w) = false /\ is_link (lookup (w_fs w) q1l) = true /\
    lookup (w_fs w) snap = Some NDir /\ lookup (w_fs w) (lit "/ps/proj/100/src") = None.
  Proof. vm_compute. repeat split. Qed.

  (* FINDING.  Every failure of access() counts as "the entry has left the
     project": with EIO at the access of src/m.c (call 32) the pass completes
     with an ok trace and pops the entry, the snapshot lacks src/m.c and the
     link in the unstable tree is pruned -- nothing is reported.  (The stored
     version is untouched.) *)
  Example access_failure_is_swallowed :
    let '(r, w) := handle_timeout false h0 (fail_at 32 EIO) w0 in
    nth_error (rev (w_log w)) 32 = Some (CAccess p_m, RFault EIO) /\
    (match r with Some (TPause _, _) => True | _ => False end) /\ tr_ok (w_tr w) = true /\
    lookup (w_fs w) q1l = None /\
    lookup (w_fs w) (lit "/ps/proj/100/src") = Some NDir /\ lookup (w_fs w) snap_m = None /\
    lookup (w_fs w) up_m = None /\
    lookup (w_fs w) dst_m = Some (NFile 5).
  Proof. vm_compute. repeat split. Qed.

  (* FINDING.  unlink done, link failed (call 19): the error is reported and the
     version is stored, but the member's head is already popped and its
     unstable entry is ABSENT; the project entry that follows is still queued,
     so the snapshot made after the restart lacks the member although its
     newest version is in the store. *)
  Example member_link_lost_after_failure :
    let '(r, w) := handle_timeout false h0 (fail_at 19 EIO) w0 in
    tr_ok (w_tr w) = false /\ lookup (w_fs w) q0l = None /\ lookup (w_fs w) up_m = None /\
    lookup (w_fs w) dst_m = Some (NFile 5) /\
    let '(r2, w2) := restart (w_fs w) in
    (match r2 with Some (TPause _, _) => True | _ => False end) /\ tr_ok (w_tr w2) = true /\
    lookup (w_fs w2) q1l = None /\ lookup (w_fs w2) snap = Some NDir /\
    lookup (w_fs w2) snap_m = None /\ lookup (w_fs w2) up_m = None.
  Proof. vm_compute. repeat split. Qed.

  (* MODEL NOTE.  The retry loop of the model is fuelled (2 + the number of
     entries beside the snapshot: enough for every honest file system, by
     counting); the C loop is unbounded.  An oracle that answers EEXIST to the
     mkdir of EVERY candidate name (calls 25, 29, 33) exhausts the fuel: the
     model then journals "stored" and pops the entry without a snapshot, where
     the C code would try the next name for ever.  Such an oracle is outside
     the "honest" ones of CrashProofs; nothing is claimed about it. *)
  Example injected_eexist_exhausts_fuel :
    let o : oracle := fun i => if Nat.eqb i 25 || Nat.eqb i 29 || Nat.eqb i 33 then FFail EEXIST else FNone in
    let '(r, w) := handle_timeout false h0 o w0 in
    (match r with Some (TPause _, _) => True | _ => False end) /\ tr_ok (w_tr w) = true /\
    lookup (w_fs w) q1l = None /\ lookup (w_fs w) snap = None /\ lookup (w_fs w) snap1 = None.
  Proof. vm_compute. repeat split. Qed.

  (* ----- the theorems, instantiated: for EVERY oracle ----- *)

  Local Open Scope string_scope.
  (* the project entry alone in the queue (the member was stored by an earlier pass) *)
  Definition fsP : fs :=
    mkFs [ (lit "/w", NDir); (lit "/w/proj", NDir); (lit "/w/proj/src", NDir); (p_m, NFile 2);
           (lit "/j", NFile 1); (lit "/q", NDir);
           (q0l, NLink (encode 1 Pn) 10%Z);
           (lit "/s", NDir); (lit "/s/proj", NDir); (lit "/s/proj/src", NDir);
           (lit "/s/proj/src/m.c", NDir); (old_m, NFile 3);
           (lit "/u", NDir); (Un, NDir); (lit "/u/proj/src", NDir); (up_m, NFile 3); (up_old, NFile 4);
           (lit "/ps", NDir); (lit "/ps/proj", NDir); (lit "/ps/proj/50", NDir);
           (lit "/ps/proj/50/src", NDir); (osnap_m, NFile 3) ]
         [ (1, mkFile [] true); (2, mkFile s_two true); (3, mkFile s_one true);
           (4, mkFile (lit "zzz") true) ]
         5.
  Definition qP : qmem := mkQ (lit "/q") 0 1 5%Z 32 [Pn].
  Definition hP : handler := mkH cfg0 None 3 qP (Some jn0) [] [].
  Definition wP : world := mkW fsP 0 [] 100%Z tr_empty.
  Definition v100 : str := lit "100".
  Local Close Scope string_scope.

  (* the oracle is arbitrary from the first call after the head read on *)
  Definition after_head (o' : oracle) : oracle := fun i => if Nat.ltb i 2 then FNone else o' i.

  Definition wP_head : world := snd ((try_;; q_get_head 2 qP) no_faults wP).
  Definition w0_head : world := snd ((try_;; q_get_head 3 q0) no_faults w0).

  Lemma pj_ok_P : pj_ok hP Pn v100.
  Proof.
    split; [|vm_compute; discriminate]. apply names_out_base.
    - apply Nat.leb_le. vm_compute. reflexivity.
    - vm_compute. reflexivity.
  Qed.

  Example project_hyps_hold :
    pj_ok hP Pn v100 /\ pj_unst hP Pn = Un /\ pj_qlink hP = q0l /\
    project_head_valid hP Pn 1 = true /\
    t_frames (w_tr wP_head) = [] /\ t_post (w_tr wP_head) = 0.
  Proof. split; [exact pj_ok_P|]. vm_compute. repeat split. Qed.

  (* (1)+(2) for the pass itself, under EVERY oracle that lets the head read through *)
  Example project_iteration_every_oracle (o' : oracle) :
    let o := after_head o' in
    match handle_timeout_loop 3 false hP o wP with
    | (Some r, w') =>
        exists q2 we l,
          w_log we = l ++ w_log wP_head /\ icalls l /\
          handle_timeout_loop 2 false (set_q q2 hP) o we = (Some r, w') /\
          (existsb (badby (preported Un)) l = true -> tr_ok (w_tr we) = false) /\
          (tr_ok (w_tr we) = false ->
             r = (TError, hP) /\ w' = we /\ q2 = qP /\
             existsb unlinked l = false /\ istep hP Pn fsP (w_fs we))
    | (None, _) => True
    end.
  Proof.
    intros o.
    assert (Hhead : q_get_head (S (N.to_nat (q_size (h_q hP)))) (h_q hP) o (upd_tr (tr_try (w_tr wP)) wP)
                    = (Some (Some (QReady Pn 1), qP), wP_head)) by (vm_compute; reflexivity).
    pose proof (timeout_iteration_project 2 false hP o wP qP wP_head Pn 1 eq_refl Hhead) as T.
    change (set_q qP hP) with hP in T.
    apply T; try (vm_compute; reflexivity). exact pj_ok_P.
  Qed.

  (* the world in which the iteration proper starts *)
  Definition wP3 : world := upd_tr (tr_finally_rethrow_static M_linq_cannot_get_head (w_tr wP_head)) wP_head.

  (* hence, whatever the oracle does (failures, short transfers, a crash): if
     the iteration ends with an error on the trace or the process dies in it,
     the link /q/0 of the project entry, the old version and the old snapshot
     are there, with their bytes *)
  Example project_entry_kept_every_oracle (o : oracle) :
    let res := project_iter hP Pn v100 false o wP3 in
    (match fst res with Some _ => tr_ok (w_tr (snd res)) = false | None => True end) ->
    (forall q2, fst res = Some q2 -> q2 = qP) /\
    is_link (lookup (w_fs (snd res)) q0l) = true /\
    lookup (w_fs (snd res)) old_m = Some (NFile 3) /\
    lookup (w_fs (snd res)) osnap_m = Some (NFile 3) /\
    f_bytes (get_file (w_fs (snd res)) 3) = s_one.
  Proof.
    intros res Hend.
    assert (Hi : istep hP Pn fsP (w_fs (snd res)) /\ (forall q2, fst res = Some q2 -> q2 = qP)).
    { pose proof (project_iter_spec hP Pn v100 false o wP3 0 pj_ok_P eq_refl) as H. subst res.
      destruct (project_iter hP Pn v100 false o wP3) as [[q2|] we]; cbn [post fst snd] in *.
      - destruct H as [l [_ [_ [[T _]|[_ [E [_ I']]]]]]].
        + exfalso. rewrite T in Hend. discriminate Hend.
        + split; [exact I'|]. intros q E'. inversion E' as [E'']. rewrite <- E''. exact E.
      - destruct H as [l [_ [_ [_ I']]]]. split; [exact I'|]. intros q E'. discriminate E'. }
    destruct Hi as [Hi Hq]. split; [exact Hq|].
    assert (Hj : forall jn, h_journal hP = Some jn -> 3 <> j_ino jn).
    { intros jn E. inversion E; subst. discriminate. }
    destruct (istep_bytes hP Pn _ _ old_m 3 Hi eq_refl eq_refl Hj) as [A B].
    split; [rewrite (istep_entry hP Pn _ _ q0l (NLink (encode 1 Pn) 10%Z) Hi eq_refl eq_refl eq_refl); reflexivity|].
    split; [exact A|]. split; [exact (istep_entry hP Pn _ _ osnap_m (NFile 3) Hi eq_refl eq_refl eq_refl)|].
    rewrite B. reflexivity.
  Qed.

  (* ... and the queue relation for the original entry holds again *)
  Lemma qP_free k : (1 <= k)%N -> lookup fsP (join (lit "/q") (dec k)) = None.
  Proof.
    intros Hk.
    assert (Hj : join (lit "/q") (dec k) = lit "/q" ++ ch_slash :: dec k)
      by (apply QueueProofs.join_nonroot; discriminate).
    unfold lookup.
    destruct (str_eqb_spec (join (lit "/q") (dec k)) root_path) as [E|_].
    { exfalso. revert E. apply QueueProofs.join_dec_nonroot. discriminate. }
    rewrite Hj. cbv -[dec str_eqb].
    repeat match goal with
    | |- context [str_eqb ?a ?b] =>
        destruct (str_eqb_spec a b) as [E|_];
        [exfalso; first [discriminate E
                        | injection E as E; apply (dec_inj k 0) in E; lia ]|]
    end.
    reflexivity.
  Qed.

  Lemma qP_rel : QueueProofs.QRel qP fsP [(Pn, 1%N, 10%Z)].
  Proof.
    constructor.
    - reflexivity.
    - discriminate.
    - vm_compute. reflexivity.
    - discriminate.
    - intros i p m t Hi. destruct i as [|i]; [|destruct i; discriminate].
      inversion Hi; subst. vm_compute. reflexivity.
    - intros n [H|H]; [cbn [q_head qP] in H; lia|]. apply qP_free.
      cbn [q_head qP List.length] in H. lia.
    - intros v. cbn [q_bag qP]. unfold bag_count. cbn [filter LinqProofs.count_paths LinqSpec.qpath fst].
      destruct (str_eqb v Pn); reflexivity.
    - constructor; [|constructor]. split.
      + apply LinqProofs.normalb_spec. vm_compute. reflexivity.
      + unfold QueueProofs.fits. apply QueueProofs.QueueExample.fits_small. vm_compute. lia.
  Qed.

  Example project_queue_kept_every_oracle (o : oracle) :
    let res := project_iter hP Pn v100 false o wP3 in
    (match fst res with Some _ => tr_ok (w_tr (snd res)) = false | None => True end) ->
    QueueProofs.QRel qP (w_fs (snd res)) [(Pn, 1%N, 10%Z)].
  Proof.
    intros res Hend.
    refine (proj1 (proj2 (project_failed_keeps_queue hP Pn v100 false o wP3 [(Pn, 1%N, 10%Z)]
                            pj_ok_P eq_refl eq_refl qP_rel _ _ Hend))).
    - intros p Hp. eapply CrashFrame.nn_away; [|exact Hp]. apply SnapshotProofs.nnb_sound. vm_compute. reflexivity.
    - intros r. eapply CrashFrame.nn_away; [|right; exists r; reflexivity].
      apply SnapshotProofs.nnb_sound. vm_compute. reflexivity.
  Qed.

  (* ----- the member, from the start of the pass ----- *)

  Lemma names_ok_m : names_ok h0 p_m v100.
  Proof.
    intros n H. unfold current_path in H. cbn [sp_base sp_ext sp_dups] in H.
    apply (f_equal (fun s => nth 1 s ch_dot)) in H.
    destruct (n =? 0)%N; vm_compute in H; discriminate.
  Qed.

  Example member_hyps_hold :
    names_ok h0 p_m v100 /\ file_head_valid h0 p_m 28 = true /\ Nat.ltb 0 (mb_off 28) = true /\
    mb_path h0 p_m 28 = up_m /\ mb_qlink h0 = q0l /\
    t_frames (w_tr w0_head) = [] /\ t_post (w_tr w0_head) = 0 /\ keys_nodup fs0.
  Proof.
    split; [exact names_ok_m|]. repeat (split; [vm_compute; reflexivity|]).
    apply SnapshotProofs.keys_nodup_check. vm_compute. reflexivity.
  Qed.

  Example member_iteration_every_oracle (o' : oracle) :
    let o := after_head o' in
    let k := handle_timeout_loop 2 false in
    match handle_timeout_loop 3 false h0 o w0 with
    | (Some r, w') =>
        exists off wr, w_fs wr = fs0 /\
          ((r = (TError, h0) /\ w' = wr /\ tr_ok (w_tr w') = false) \/
           exists res wc,
             loop_rel h0 p_m 28 v100 o off wr res wc /\
             file_finish h0 p_m 28 k res o wc = (Some r, w') /\
             (snd (fst res) = true ->
                keys_nodup (w_fs wc) /\ tr_ok (w_tr wc) = true /\
                member_outcome h0 p_m 28 k (fst (fst res)) (snd res) o wc r w' /\
                forall wp x lp wl l oc,
                  w_log wp = lp ++ w_log wc -> w_tr wp = w_tr wc ->
                  link_rel up_m (current_path (snd res)) wp wl l oc ->
                  (record_event (fst (fst res)) 0%N (st_rel h0 p_m) (set_q (QueueProofs.popped x q0) h0);;
                   k (set_q (QueueProofs.popped x q0) h0)) o wl = (Some r, w') ->
                  existsb (badby lreported) l = true ->
                  oc <> LLinked /\ r = (TError, set_q (QueueProofs.popped x q0) h0) /\
                  w' = wl /\ tr_ok (w_tr w') = false))
    | (None, _) => True
    end.
  Proof.
    intros o k.
    assert (Hhead : q_get_head (S (N.to_nat (q_size (h_q h0)))) (h_q h0) o (upd_tr (tr_try (w_tr w0)) w0)
                    = (Some (Some (QReady p_m 28), q0), w0_head)) by (vm_compute; reflexivity).
    pose proof (timeout_iteration_member 2 false h0 o w0 q0 w0_head p_m 28 (lit "/q") eq_refl Hhead) as T.
    change (set_q q0 h0) with h0 in T.
    destruct member_hyps_hold as [H1 [H2 [H3 [H4 [_ [H6 [H7 H8]]]]]]].
    change (mb_path h0 p_m 28) with up_m in T.
    apply T; try (vm_compute; reflexivity); try assumption.
    - intros p Hp. eapply CrashFrame.nn_away; [|exact Hp]. apply SnapshotProofs.nnb_sound. vm_compute. reflexivity.
    - assert (E : st_offp h0 p_m = lit "/o" ++ ch_slash :: lit "proj/src/m.c") by (vm_compute; reflexivity).
      rewrite E. eapply CrashFrame.nn_away; [|right; eexists; reflexivity].
      apply SnapshotProofs.nnb_sound. vm_compute. reflexivity.
  Qed.
End Fault2Example.

Print Assumptions sync_shallow_tree_spec.
Print Assumptions project_store_loop_spec.
Print Assumptions record_event_spec2.
Print Assumptions q_pop_head_spec2.
Print Assumptions project_iter_spec.
Print Assumptions project_fault_is_reported.
Print Assumptions project_fault_stops.
Print Assumptions project_failed_keeps_entry.
Print Assumptions project_crash_keeps_entry.
Print Assumptions project_failed_keeps_queue.
Print Assumptions link_step_spec.
Print Assumptions link_rel_reported.
Print Assumptions member_finish_spec.
Print Assumptions member_link_fault_is_reported.
Print Assumptions timeout_reaches_project_step.
Print Assumptions timeout_iteration_project.
Print Assumptions timeout_iteration_member.
Print Assumptions Fault2Example.every_call_failed_in_turn.
Print Assumptions Fault2Example.project_failed_snapshot_partial.
Print Assumptions Fault2Example.access_failure_is_swallowed.
Print Assumptions Fault2Example.member_link_lost_after_failure.
Print Assumptions Fault2Example.project_iteration_every_oracle.
Print Assumptions Fault2Example.project_entry_kept_every_oracle.
Print Assumptions Fault2Example.project_queue_kept_every_oracle.
Print Assumptions Fault2Example.member_iteration_every_oracle.
