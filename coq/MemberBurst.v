(* C11, continued: SEVERAL members of one project written in one burst.

   push_to_linq enqueues, for every accepted write of a member, the member
   entry (offset k) followed by the entry of the project root (flags 1).  After
   a burst of writes to the members m1 .. mn the queue reads
       m1, P, m2, P, ..., mn, P
   One timeout pass then runs n member iterations -- before each but the first
   q_get_head skips (and removes) the copy of P in front of it, because P is
   queued again behind -- and one project iteration for the last copy of P.

     member_iteration_skip   the member iteration when a copy of P is skipped first
     burst_members           the n member iterations (induction, pairwise
                             independent names)
     burst_then_project      ... followed by the project iteration: the ONE
                             snapshot of the pass holds, for EVERY member of the
                             burst, the inode of the version stored in this pass
     handle_timeout_burst    the same for handle_timeout
     Module BurstExample     two members of /w/proj in one burst *)
From K Require Import Str Dec Trace Fs World Progs Sieve Handler Linq LinqSpec LinqProofs
     DecProofs SyncProofs AbandonProofs JournalProofs QueueProofs Confine HistoryProofs StoreFs
     PassProofs PassProofs2 MemberProofs.
From K Require SnapshotProofs.
From Coq Require Import Lia.
Arguments N.add : simpl never.
Arguments N.sub : simpl never.
Arguments N.mul : simpl never.
Arguments N.of_nat : simpl never.
Arguments N.eqb : simpl never.
Arguments N.leb : simpl never.
Arguments Nat.pow : simpl never.
Arguments Nat.mul : simpl never.

(* ====================================================================== *)
(* 1. the member iteration after a skipped copy of the project entry       *)
(* ====================================================================== *)

(* nothing, or one entry of the project root [P] in front *)
Definition optP (P : str) (pre : option Z) : list qent :=
  match pre with Some t0 => [(P, 1%N, t0)] | None => [] end.

(* the file system q_get_head leaves: the skipped head link is removed *)
Definition skipped (pre : option Z) (q : qmem) (f : fs) : fs :=
  match pre with Some _ => del_dent (head_name q) f | None => f end.

Lemma member_iteration_skip o w h rev fuel P pre p k t t2 tailq i b :
  benign o -> tr_ok (w_tr w) = true -> keys_nodup (w_fs w) ->
  QRel (h_q h) (w_fs w) (optP P pre ++ (p, mmeta k, t) :: (P, 1%N, t2) :: tailq) ->
  (forall t0, pre = Some t0 -> (q_deb (h_q h) <= w_clock w - t0)%Z) ->
  (q_deb (h_q h) <= w_clock w - t)%Z ->
  occurs p ((P, 1%N, t2) :: tailq) = false ->
  plain_ok (h_cfg h) (h_cpl h) (h_journal h) (q_dir (h_q h))
           (skipped pre (h_q h) (w_fs w)) (w_clock w) p i b ->
  member_ok (h_cfg h) (h_cpl h) (q_dir (h_q h)) (skipped pre (h_q h) (w_fs w)) (w_clock w) p k ->
  exists q' w',
    handle_timeout_loop (S fuel) rev h o w =
      handle_timeout_loop fuel rev (set_q (popped p q') h) o w' /\
    q_dir q' = q_dir (h_q h) /\ q_deb q' = q_deb (h_q h) /\
    member_post (h_cfg h) (h_cpl h) (h_journal h) (head_name q')
                (skipped pre (h_q h) (w_fs w)) (w_fs w') (w_clock w) p k b /\
    lookup (skipped pre (h_q h) (w_fs w)) (head_name q') = Some (NLink (encode (mmeta k) p) t) /\
    keys_nodup (skipped pre (h_q h) (w_fs w)) /\
    QRel (popped p q') (w_fs w') ((P, 1%N, t2) :: tailq) /\
    keys_nodup (w_fs w') /\
    tr_keep (w_tr w) (w_tr w') /\ w_clock w' = w_clock w.
Proof.
  intros H Hok Hnd HR Hduepre Hdue Hocc HP HM.
  set (q := h_q h) in *.
  set (wa := upd_tr tr_try w).
  assert (Hoka : tr_ok (w_tr wa) = true) by (apply tr_try_ok; exact Hok).
  set (ents := optP P pre ++ (p, mmeta k, t) :: (P, 1%N, t2) :: tailq) in *.
  assert (Hfuel : length ents <= S (N.to_nat (q_size q))).
  { rewrite (QR_size _ _ _ HR), Nat2N.id. lia. }
  destruct (get_head_ok o H ents (S (N.to_nat (q_size q))) q wa Hoka Hnd HR Hfuel)
    as (r & q' & wb & Eb & Hr & HRb & Fb & Hndb & Kb & Cb & Hdir & Hdeb & _).
  change (w_fs wa) with (w_fs w) in Fb, HRb. change (w_clock wa) with (w_clock w) in Hr, HRb, Fb, Cb.
  change (w_tr wa) with (tr_try (w_tr w)) in Kb.
  assert (Ed : (w_clock w - t <? q_deb q)%Z = false) by (apply Z.ltb_ge; exact Hdue).
  (* what the reference queue says *)
  assert (Href : fst (ref_head (w_clock w) (q_deb q) ents) = HReady p (mmeta k) /\
                 snd (ref_head (w_clock w) (q_deb q) ents) = (p, mmeta k, t) :: (P, 1%N, t2) :: tailq /\
                 del_heads (q_dir q) (q_head q) (ref_skip (w_clock w) (q_deb q) ents) (w_fs w)
                 = skipped pre q (w_fs w)).
  { unfold ents. destruct pre as [t0|]; cbn [optP app ref_head ref_skip skipped].
    - assert (E0 : (w_clock w - t0 <? q_deb q)%Z = false) by (apply Z.ltb_ge; apply Hduepre; reflexivity).
      assert (EP : occurs P ((p, mmeta k, t) :: (P, 1%N, t2) :: tailq) = true).
      { cbn [occurs qpath fst]. rewrite str_eqb_refl. rewrite orb_true_r. reflexivity. }
      rewrite E0, EP, Ed, Hocc.
      cbn [fst snd del_heads]. auto.
    - rewrite Ed, Hocc. cbn [fst snd del_heads]. auto. }
  destruct Href as (R1 & R2 & R3). rewrite R1 in Hr. rewrite R2 in HRb. rewrite R3 in Fb.
  destruct r as [z|p' m']; cbn [hres] in Hr; [discriminate|]. injection Hr as -> ->.
  rewrite Fb in HRb, Hndb.
  destruct (member_iteration_from_head o w h rev fuel q' wb (skipped pre q (w_fs w)) p k t
              ((P, 1%N, t2) :: tailq) i b H Hok Eb Fb Cb Kb Hndb HRb)
    as (w' & E & HMP & HR' & Hnd' & K' & C').
  { rewrite Hdir. exact HP. }
  { rewrite Hdir. exact HM. }
  exists q', w'. split; [exact E|]. split; [exact Hdir|]. split; [exact Hdeb|].
  split; [exact HMP|]. split; [exact (QRel_head _ _ _ _ _ _ HRb)|]. split; [exact Hndb|].
  split; [exact HR'|]. split; [exact Hnd'|]. split; [exact K' | exact C'].
Qed.

Print Assumptions member_iteration_skip.

(* ====================================================================== *)
(* 2. a later member is still fine after an earlier one, and after a skip  *)
(* ====================================================================== *)

(* "no existing ancestor is a non-directory" under a change of the file system
   that keeps directories and fills absent names, other than [bad] ones, with
   nothing but directories *)
Lemma anc_not_dir_frameP (bad : str -> Prop) f f' :
  (forall x, lookup f x = Some NDir -> lookup f' x = Some NDir) ->
  (forall x, lookup f x = None -> ~ bad x -> lookup f' x = None \/ lookup f' x = Some NDir) ->
  forall fuel p, anc_not_dir fuel f p = false -> (forall d, In d (dchain fuel p) -> ~ bad d) ->
                 anc_not_dir fuel f' p = false.
Proof.
  intros H1 H2. induction fuel as [|n IH]; intros p Ha Hn; [reflexivity|].
  cbn [anc_not_dir dchain] in *. cbv zeta in *.
  destruct (lookup f (dirname p)) as [nd|] eqn:E.
  - destruct nd; try discriminate Ha. rewrite (H1 _ E). reflexivity.
  - assert (Hd : ~ bad (dirname p)) by (apply Hn; left; reflexivity).
    destruct (H2 _ E Hd) as [E'|E'].
    + rewrite E'. destruct (str_eqb (dirname p) p); [reflexivity|].
      apply IH; [exact Ha|]. intros d Hin. apply Hn. right. exact Hin.
    + rewrite E'. reflexivity.
Qed.

(* ----- after a skip: a queue link is removed ----- *)

Section Del.
Variables (f : fs) (x tg : str) (tm : Z).
Hypothesis Hnd : keys_nodup f.
Hypothesis Hx : lookup f x = Some (NLink tg tm).

Let g := del_dent x f.

Lemma del_x_nonroot : x <> root_path.
Proof. intros E. rewrite E, lookup_root in Hx. discriminate. Qed.

Lemma del_same : lookup g x = None.
Proof. apply lookup_del_dent_same; [exact Hnd | exact del_x_nonroot]. Qed.

Lemma del_other y : y <> x -> lookup g y = lookup f y.
Proof. apply lookup_del_dent_other. Qed.

Lemma del_exist y n : lookup f y = Some n -> (forall a c, n <> NLink a c) -> lookup g y = Some n.
Proof.
  intros Hy Hn. rewrite del_other; [exact Hy|]. intros ->. rewrite Hx in Hy. injection Hy as <-.
  exact (Hn tg tm eq_refl).
Qed.

Lemma del_none y : lookup f y = None -> lookup g y = None.
Proof. intros Hy. rewrite del_other; [exact Hy|]. intros ->. congruence. Qed.

Lemma del_dir_or_absent y :
  lookup f y = Some NDir \/ lookup f y = None -> lookup g y = Some NDir \/ lookup g y = None.
Proof.
  intros [A|A]; [left; apply del_exist; [exact A | discriminate] | right; apply del_none; exact A].
Qed.

Lemma plain_ok_del cfg cpl oj qdir now p i b :
  plain_ok cfg cpl oj qdir f now p i b -> plain_ok cfg cpl oj qdir g now p i b.
Proof.
  intros [Pabs Plast Pcpl Pvlen Pvslash Psrc Pfile Pino Prabs Pfree Ppar Pq
          Pofree Popar Pone Ponin Podir Pjfits Pjino].
  constructor; try assumption.
  - apply del_exist; [exact Psrc | discriminate].
  - apply del_none. exact Pfree.
  - intros d Hd. apply del_dir_or_absent. exact (Ppar d Hd).
  - apply del_none. exact Pofree.
  - apply missing_enoent. apply missing_enoent in Popar.
    apply (anc_not_dir_frameP (fun _ => False) f g); [| | exact Popar | intros d _ []].
    + intros y Hy. apply del_exist; [exact Hy | discriminate].
    + intros y Hy _. left. apply del_none. exact Hy.
Qed.

Lemma member_ok_del cfg cpl qdir now p k :
  member_ok cfg cpl qdir f now p k -> member_ok cfg cpl qdir g now p k.
Proof.
  intros [Mpos Mle Muabs Mup Muppar Mupq Mupne Mupnin Mdstnin].
  constructor; try assumption.
  - destruct Mup as [A|[io A]]; [left; apply del_none; exact A|].
    right. exists io. apply del_exist; [exact A | discriminate].
  - intros d Hd. apply del_dir_or_absent. exact (Muppar d Hd).
Qed.

End Del.

(* ----- after an earlier member ----- *)

(* the names of an earlier member [p0] do not get in the way of a later one [p]:
   PassProofs.indep for the versions, and the same for the unstable paths *)
Record mindep (cfg : config) (cpl : nat) (now : Z) (k : nat) (p0 p : str) : Prop := {
  MI_indep : indep cfg cpl now p0 p;
  (* the earlier unstable path against the source, the version and the offset path of the later *)
  MI_src : p <> member_path cfg p0 k;
  MI_dst_ne : store_name cfg cpl now p <> member_path cfg p0 k;
  MI_dst_nin : ~ In (store_name cfg cpl now p) (parents_of (member_path cfg p0 k));
  MI_dst_par : ~ In (member_path cfg p0 k) (parents_of (store_name cfg cpl now p));
  MI_off_ne : offset_name cfg cpl p <> member_path cfg p0 k;
  MI_off_nin : ~ In (offset_name cfg cpl p) (parents_of (member_path cfg p0 k));
  MI_off_dir : ~ In (member_path cfg p0 k)
                    (dchain (length (offset_name cfg cpl p)) (offset_name cfg cpl p));
  (* the later unstable path against the earlier version and unstable path *)
  MI_up_dst : member_path cfg p k <> store_name cfg cpl now p0;
  MI_up_dst_nin : ~ In (member_path cfg p k) (parents_of (store_name cfg cpl now p0));
  MI_up_dst_par : ~ In (store_name cfg cpl now p0) (parents_of (member_path cfg p k));
  MI_up_ne : member_path cfg p k <> member_path cfg p0 k;
  MI_up_nin : ~ In (member_path cfg p k) (parents_of (member_path cfg p0 k));
  MI_up_par : ~ In (member_path cfg p0 k) (parents_of (member_path cfg p k))
}.

Section Step.
Variables (cfg : config) (cpl : nat) (oj : option journal) (qdir hname : str)
          (f f' : fs) (now : Z) (p0 : str) (k : nat) (b0 tg : str) (tm : Z).
Hypothesis HMP : member_post cfg cpl oj hname f f' now p0 k b0.
Hypothesis Hh : lookup f hname = Some (NLink tg tm).
Hypothesis Hup0 : lookup f (member_path cfg p0 k) = None \/
                  exists io, lookup f (member_path cfg p0 k) = Some (NFile io).

Let dst0 := store_name cfg cpl now p0.
Let UP0 := member_path cfg p0 k.

(* a name that was free and is not one of the new ones is still free *)
Lemma mstep_free x : lookup f x = None ->
  x <> dst0 -> ~ In x (parents_of dst0) -> x <> UP0 -> ~ In x (parents_of UP0) -> lookup f' x = None.
Proof.
  intros Hx X1 X2 X3 X4. destruct (str_eqb_spec x hname) as [->|X5]; [exact (MP_head _ _ _ _ _ _ _ _ _ _ HMP)|].
  rewrite (MP_other _ _ _ _ _ _ _ _ _ _ HMP x X1 X2 X3 X4 X5). exact Hx.
Qed.

(* a directory stays one *)
Lemma mstep_dir x : lookup f x = Some NDir -> lookup f' x = Some NDir.
Proof.
  intros Hx. rewrite (MP_exist _ _ _ _ _ _ _ _ _ _ HMP); [exact Hx | | | rewrite Hx; discriminate].
  - intros ->. congruence.
  - intros E. rewrite E in Hx. fold UP0 in Hx. destruct Hup0 as [A|[io A]]; fold UP0 in A; congruence.
Qed.

(* a regular file other than the earlier unstable path stays what it is *)
Lemma mstep_file x j : lookup f x = Some (NFile j) -> x <> UP0 -> lookup f' x = Some (NFile j).
Proof.
  intros Hx X. rewrite (MP_exist _ _ _ _ _ _ _ _ _ _ HMP); [exact Hx | | exact X | rewrite Hx; discriminate].
  intros ->. congruence.
Qed.

(* a name that was free or a directory and is not one of the two new files is
   still one of the two *)
Lemma mstep_dir_or_absent x :
  lookup f x = Some NDir \/ lookup f x = None -> x <> dst0 -> x <> UP0 ->
  lookup f' x = Some NDir \/ lookup f' x = None.
Proof.
  intros Hx X1 X3.
  destruct (str_in_dec x (parents_of dst0)) as [Hin|X2]; [left; exact (MP_par _ _ _ _ _ _ _ _ _ _ HMP x Hin)|].
  destruct (str_in_dec x (parents_of UP0)) as [Hin|X4]; [left; exact (MP_link_par _ _ _ _ _ _ _ _ _ _ HMP x Hin)|].
  destruct Hx as [A|A]; [left; exact (mstep_dir x A) | right; exact (mstep_free x A X1 X2 X3 X4)].
Qed.

Lemma plain_ok_mstep p i b :
  mindep cfg cpl now k p0 p ->
  plain_ok cfg cpl oj qdir f now p i b -> plain_ok cfg cpl oj qdir f' now p i b.
Proof.
  intros [[I1 I2 I3 I4 I5 I6] J1 J2 J3 J4 J5 J6 J7 _ _ _ _ _ _]
         [Pabs Plast Pcpl Pvlen Pvslash Psrc Pfile Pino Prabs Pfree Ppar Pq
          Pofree Popar Pone Ponin Podir Pjfits Pjino].
  fold dst0 in I1, I2, I3, I4, I5, I6. fold UP0 in J1, J2, J3, J4, J5, J6, J7.
  constructor; try assumption.
  - exact (mstep_file p i Psrc J1).
  - rewrite (MP_files _ _ _ _ _ _ _ _ _ _ HMP); [exact Pfile | lia |].
    intros jn Hj E. destruct (Pjino jn Hj) as [A _]. congruence.
  - rewrite (MP_next _ _ _ _ _ _ _ _ _ _ HMP). lia.
  - exact (mstep_free _ Pfree I1 I2 J2 J3).
  - intros d Hd. apply mstep_dir_or_absent; [exact (Ppar d Hd) | |].
    + intros ->. exact (I3 Hd).
    + intros ->. exact (J4 Hd).
  - exact (mstep_free _ Pofree I4 I5 J5 J6).
  - apply missing_enoent. apply missing_enoent in Popar.
    apply (anc_not_dir_frameP (fun x => x = dst0 \/ x = UP0) f f'); [exact mstep_dir | | exact Popar |].
    + intros x Hx Hbad. destruct (mstep_dir_or_absent x (or_intror Hx)) as [A|A]; auto.
    + intros d Hd [->| ->]; [exact (I6 Hd) | exact (J7 Hd)].
  - intros jn Hj. destruct (Pjino jn Hj) as [A B]. split; [exact A|].
    rewrite (MP_next _ _ _ _ _ _ _ _ _ _ HMP). lia.
Qed.

Lemma member_ok_mstep p :
  mindep cfg cpl now k p0 p ->
  member_ok cfg cpl qdir f now p k -> member_ok cfg cpl qdir f' now p k.
Proof.
  intros [_ _ _ _ _ _ _ _ K1 K2 K3 K4 K5 K6]
         [Mpos Mle Muabs Mup Muppar Mupq Mupne Mupnin Mdstnin].
  fold dst0 in K1, K2, K3. fold UP0 in K4, K5, K6.
  constructor; try assumption.
  - destruct Mup as [A|[io A]]; [left; exact (mstep_free _ A K1 K2 K4 K5)|].
    right. exists io. exact (mstep_file _ io A K4).
  - intros d Hd. apply mstep_dir_or_absent; [exact (Muppar d Hd) | |].
    + intros ->. exact (K3 Hd).
    + intros ->. exact (K6 Hd).
Qed.

End Step.

(* ====================================================================== *)
(* 3. the member iterations of a burst                                     *)
(* ====================================================================== *)

(* a member of the burst: its path, the times of its two queue entries, the
   inode and the content of the source, its path inside the project *)
Record mentry := mkME {
  me_path : str; me_time : Z; me_time2 : Z; me_ino : nat; me_bytes : str; me_rel : str
}.

(* what push_to_linq leaves in the queue for these writes *)
Definition bq (k : nat) (P : str) (es : list mentry) : list qent :=
  flat_map (fun e => [(me_path e, mmeta k, me_time e); (P, 1%N, me_time2 e)]) es.

(* the hypotheses of member_head_iteration for one member; its source is not
   its own unstable path *)
Record mok (cfg : config) (cpl : nat) (oj : option journal) (qdir : str) (f : fs) (now : Z)
       (k : nat) (e : mentry) : Prop := {
  MK_plain : plain_ok cfg cpl oj qdir f now (me_path e) (me_ino e) (me_bytes e);
  MK_member : member_ok cfg cpl qdir f now (me_path e) k;
  MK_src : me_path e <> member_path cfg (me_path e) k
}.

(* two members: the names of the earlier do not get in the way of the later,
   and the source of the earlier is not the unstable path of the later *)
Record mindep2 (cfg : config) (cpl : nat) (now : Z) (k : nat) (p0 p : str) : Prop := {
  M2_dep : mindep cfg cpl now k p0 p;
  M2_src0 : p0 <> member_path cfg p k
}.

Fixpoint all_mok (cfg : config) (cpl : nat) (oj : option journal) (qdir : str) (f : fs) (now : Z)
         (k : nat) (es : list mentry) : Prop :=
  match es with
  | [] => True
  | e :: es' =>
      mok cfg cpl oj qdir f now k e /\
      Forall (fun e' => mindep2 cfg cpl now k (me_path e) (me_path e')) es' /\
      all_mok cfg cpl oj qdir f now k es'
  end.

Lemma all_mok_del cfg cpl oj qdir f now k x tg tm :
  lookup f x = Some (NLink tg tm) ->
  forall es, all_mok cfg cpl oj qdir f now k es -> all_mok cfg cpl oj qdir (del_dent x f) now k es.
Proof.
  intros Hx. induction es as [|e es IH]; intros Hall; [exact I|].
  destruct Hall as [[A1 A2 A3] [B C]]. split; [|split; [exact B | exact (IH C)]].
  constructor; [exact (plain_ok_del f x tg tm Hx _ _ _ _ _ _ _ _ A1)
               | exact (member_ok_del f x tg tm Hx _ _ _ _ _ _ A2) | exact A3].
Qed.

Lemma all_mok_mstep cfg cpl oj qdir hname f f' now k e tg tm es :
  member_post cfg cpl oj hname f f' now (me_path e) k (me_bytes e) ->
  lookup f hname = Some (NLink tg tm) ->
  all_mok cfg cpl oj qdir f now k (e :: es) -> all_mok cfg cpl oj qdir f' now k es.
Proof.
  intros HMP Hh [[A1 A2 A3] [Hind Hall]].
  pose proof (MO_up _ _ _ _ _ _ _ A2) as Hup.
  induction es as [|e' es IH]; [exact I|].
  inversion Hind as [|? ? [Hi _] Hind']; subst.
  destruct Hall as [[B1 B2 B3] [Hf Hall]].
  split; [|split; [exact Hf | exact (IH Hind' Hall)]].
  constructor; [eapply plain_ok_mstep; eassumption | eapply member_ok_mstep; eassumption | exact B3].
Qed.

Lemma all_mok_in cfg cpl oj qdir f now k es :
  all_mok cfg cpl oj qdir f now k es -> forall e, In e es -> mok cfg cpl oj qdir f now k e.
Proof.
  induction es as [|e0 es IH]; intros Hall e Hin; [destruct Hin|].
  destruct Hall as [A [_ C]]. destruct Hin as [<-|Hin]; [exact A | exact (IH C e Hin)].
Qed.

(* every member is the last write of its path: nothing behind it has its path *)
Fixpoint last_members (k : nat) (P : str) (es : list mentry) (rest : list qent) : Prop :=
  match es with
  | [] => True
  | e :: es' => occurs (me_path e) ((P, 1%N, me_time2 e) :: bq k P es' ++ rest) = false /\
                last_members k P es' rest
  end.

(* the file system after the member iterations, relative to the one before *)
Record burst_post (cfg : config) (cpl : nat) (oj : option journal) (now : Z) (k : nat)
       (f f' : fs) (es : list mentry) : Prop := {
  (* inode numbers are handed out in queue order *)
  BP_next : fs_next f' = fs_next f + length es;
  (* the j-th member: its version, with the content of its source, and its
     unstable path are ONE inode; the source is still there *)
  BP_ver : forall j e, nth_error es j = Some e ->
      lookup f' (store_name cfg cpl now (me_path e)) = Some (NFile (fs_next f + j)) /\
      f_bytes (get_file f' (fs_next f + j)) = me_bytes e /\
      lookup f' (member_path cfg (me_path e) k) = Some (NFile (fs_next f + j)) /\
      lookup f' (me_path e) = Some (NFile (me_ino e));
  (* the directories on the way to them exist *)
  BP_newdirs : forall e d, In e es ->
      In d (parents_of (store_name cfg cpl now (me_path e))) \/
      In d (parents_of (member_path cfg (me_path e) k)) -> lookup f' d = Some NDir;
  (* frame: a directory stays one; a free name that is not one of the new ones
     stays free; a regular file that is not one of the unstable paths keeps its
     inode; an old inode other than the journal keeps its bytes *)
  BP_dir : forall x, lookup f x = Some NDir -> lookup f' x = Some NDir;
  BP_none : forall x, lookup f x = None ->
      (forall e, In e es ->
         x <> store_name cfg cpl now (me_path e) /\
         ~ In x (parents_of (store_name cfg cpl now (me_path e))) /\
         x <> member_path cfg (me_path e) k /\
         ~ In x (parents_of (member_path cfg (me_path e) k))) ->
      lookup f' x = None;
  BP_file : forall x j, lookup f x = Some (NFile j) ->
      (forall e, In e es -> x <> member_path cfg (me_path e) k) -> lookup f' x = Some (NFile j);
  BP_files : forall j, j < fs_next f -> (forall jn, oj = Some jn -> j <> j_ino jn) ->
      get_file f' j = get_file f j
}.

Lemma burst_post_nil cfg cpl oj now k f : burst_post cfg cpl oj now k f f [].
Proof.
  constructor; cbn [length]; auto.
  - intros j e Hj. destruct j; discriminate.
  - intros e d [].
Qed.

(* one more member in front: [f0] is [f] or [f] without a queue link *)
Lemma burst_post_cons cfg cpl oj qdir now k hname f f0 f1 f' e es tg tm :
  (f0 = f \/ exists x a c, lookup f x = Some (NLink a c) /\ f0 = del_dent x f) ->
  mok cfg cpl oj qdir f0 now k e ->
  Forall (fun e' => mindep2 cfg cpl now k (me_path e) (me_path e')) es ->
  member_post cfg cpl oj hname f0 f1 now (me_path e) k (me_bytes e) ->
  lookup f0 hname = Some (NLink tg tm) ->
  burst_post cfg cpl oj now k f1 f' es ->
  burst_post cfg cpl oj now k f f' (e :: es).
Proof.
  intros Hf0 [A1 A2 A3] Hind HMP Hh HB.
  pose proof (MO_up _ _ _ _ _ _ _ A2) as Hup.
  destruct HB as [Bnext Bver Bnew Bdir Bnone Bfile Bfiles].
  (* from f to f0 *)
  assert (N0 : fs_next f0 = fs_next f).
  { destruct Hf0 as [->|(x & a & c & _ & ->)]; reflexivity. }
  assert (G0 : forall j, get_file f0 j = get_file f j).
  { destruct Hf0 as [->|(x & a & c & _ & ->)]; reflexivity. }
  assert (D0 : forall x, lookup f x = Some NDir -> lookup f0 x = Some NDir).
  { destruct Hf0 as [->|(y & a & c & Hy & ->)]; [auto|].
    intros x Hx. apply (del_exist f y a c Hy); [exact Hx | discriminate]. }
  assert (F0 : forall x j, lookup f x = Some (NFile j) -> lookup f0 x = Some (NFile j)).
  { destruct Hf0 as [->|(y & a & c & Hy & ->)]; [auto|].
    intros x j Hx. apply (del_exist f y a c Hy); [exact Hx | discriminate]. }
  assert (Z0 : forall x, lookup f x = None -> lookup f0 x = None).
  { destruct Hf0 as [->|(y & a & c & Hy & ->)]; [auto|].
    intros x Hx. apply (del_none f y a c Hy). exact Hx. }
  assert (N1 : fs_next f1 = S (fs_next f)) by (rewrite (MP_next _ _ _ _ _ _ _ _ _ _ HMP), N0; reflexivity).
  pose proof (PO_jino _ _ _ _ _ _ _ _ _ A1) as Pjino.
  assert (Hjn : forall jn, oj = Some jn -> fs_next f <> j_ino jn).
  { intros jn Hj. destruct (Pjino jn Hj) as [_ Hlt]. lia. }
  constructor.
  - rewrite Bnext, N1. cbn [length]. lia.
  - intros j e0 Hj. destruct j as [|j].
    + cbn [nth_error] in Hj. injection Hj as <-. rewrite Nat.add_0_r.
      assert (HUPs : forall e', In e' es -> forall x, x = store_name cfg cpl now (me_path e) \/
                       x = member_path cfg (me_path e) k \/ x = me_path e ->
                       x <> member_path cfg (me_path e') k).
      { intros e' Hin x Hx. rewrite Forall_forall in Hind. destruct (Hind e' Hin) as [[_ _ _ _ _ _ _ _ K1 _ _ K4 _ _] S0].
        destruct Hx as [->|[->| ->]]; [exact (fun E => K1 (eq_sym E)) | exact (fun E => K4 (eq_sym E)) | exact S0]. }
      split; [|split; [|split]].
      * apply Bfile; [rewrite <- N0; exact (MP_dst _ _ _ _ _ _ _ _ _ _ HMP)|].
        intros e' Hin. apply (HUPs e' Hin). left. reflexivity.
      * rewrite Bfiles; [rewrite <- N0; exact (MP_bytes _ _ _ _ _ _ _ _ _ _ HMP) | lia | exact Hjn].
      * apply Bfile; [rewrite <- N0; exact (MP_link _ _ _ _ _ _ _ _ _ _ HMP)|].
        intros e' Hin. apply (HUPs e' Hin). right. left. reflexivity.
      * apply Bfile.
        -- eapply mstep_file; [exact HMP | exact Hh | exact (PO_src _ _ _ _ _ _ _ _ _ A1) | exact A3].
        -- intros e' Hin. apply (HUPs e' Hin). right. right. reflexivity.
    + cbn [nth_error] in Hj. destruct (Bver j e0 Hj) as (V1 & V2 & V3 & V4).
      rewrite N1 in V1, V2, V3. rewrite Nat.add_succ_r. auto.
  - intros e0 d [<-|Hin] Hd.
    + apply Bdir. destruct Hd as [Hd|Hd];
        [exact (MP_par _ _ _ _ _ _ _ _ _ _ HMP d Hd) | exact (MP_link_par _ _ _ _ _ _ _ _ _ _ HMP d Hd)].
    + exact (Bnew e0 d Hin Hd).
  - intros x Hx. apply Bdir. eapply mstep_dir; [exact HMP | exact Hh | exact Hup | apply D0; exact Hx].
  - intros x Hx Hall. destruct (Hall e (or_introl eq_refl)) as (X1 & X2 & X3 & X4).
    apply Bnone.
    + eapply mstep_free; [exact HMP | exact (Z0 x Hx) | exact X1 | exact X2 | exact X3 | exact X4].
    + intros e' Hin. apply Hall. right. exact Hin.
  - intros x j Hx Hall. apply Bfile.
    + eapply mstep_file; [exact HMP | exact Hh | exact (F0 x j Hx) |].
      apply Hall. left. reflexivity.
    + intros e' Hin. apply Hall. right. exact Hin.
  - intros j Hj Hjj. rewrite Bfiles; [| lia | exact Hjj].
    rewrite (MP_files _ _ _ _ _ _ _ _ _ _ HMP); [apply G0 | lia | exact Hjj].
Qed.

Lemma bq_cons k P e es :
  bq k P (e :: es) = (me_path e, mmeta k, me_time e) :: (P, 1%N, me_time2 e) :: bq k P es.
Proof. reflexivity. Qed.

Lemma last_cons_default {A} (l : list A) : forall a d, last (a :: l) d = last l a.
Proof.
  induction l as [|x l IH]; intros a d; [reflexivity|].
  change (last (a :: x :: l) d) with (last (x :: l) d). rewrite (IH x d), (IH x a). reflexivity.
Qed.

(* one member iteration, with what the induction needs *)
Lemma burst_step o rev k P pre e tailq fuel h w :
  benign o -> tr_ok (w_tr w) = true -> keys_nodup (w_fs w) ->
  QRel (h_q h) (w_fs w)
       (optP P pre ++ (me_path e, mmeta k, me_time e) :: (P, 1%N, me_time2 e) :: tailq) ->
  (forall t0, pre = Some t0 -> (q_deb (h_q h) <= w_clock w - t0)%Z) ->
  (q_deb (h_q h) <= w_clock w - me_time e)%Z ->
  occurs (me_path e) ((P, 1%N, me_time2 e) :: tailq) = false ->
  mok (h_cfg h) (h_cpl h) (h_journal h) (q_dir (h_q h)) (skipped pre (h_q h) (w_fs w)) (w_clock w) k e ->
  exists q' w1 hname tg tm,
    handle_timeout_loop (S fuel) rev h o w =
      handle_timeout_loop fuel rev (set_q (popped (me_path e) q') h) o w1 /\
    q_dir q' = q_dir (h_q h) /\ q_deb q' = q_deb (h_q h) /\
    member_post (h_cfg h) (h_cpl h) (h_journal h) hname
                (skipped pre (h_q h) (w_fs w)) (w_fs w1) (w_clock w) (me_path e) k (me_bytes e) /\
    lookup (skipped pre (h_q h) (w_fs w)) hname = Some (NLink tg tm) /\
    (skipped pre (h_q h) (w_fs w) = w_fs w \/
     exists x a c, lookup (w_fs w) x = Some (NLink a c) /\ skipped pre (h_q h) (w_fs w) = del_dent x (w_fs w)) /\
    QRel (popped (me_path e) q') (w_fs w1) ((P, 1%N, me_time2 e) :: tailq) /\
    keys_nodup (w_fs w1) /\
    (parents_exist (w_fs w) -> parents_exist (w_fs w1)) /\
    tr_keep (w_tr w) (w_tr w1) /\ w_clock w1 = w_clock w.
Proof.
  intros H Hok Hnd HR Hduepre Hd Hocc [A1 A2 A3].
  destruct (member_iteration_skip o w h rev fuel P pre (me_path e) k (me_time e) (me_time2 e) tailq
              (me_ino e) (me_bytes e) H Hok Hnd HR Hduepre Hd Hocc A1 A2)
    as (q' & w1 & E1 & Hdir & Hdeb & HMP & Hh & Hnd0 & HR1 & Hnd1 & K1 & C1).
  exists q', w1, (head_name q'), (encode (mmeta k) (me_path e)), (me_time e).
  split; [exact E1|]. split; [exact Hdir|]. split; [exact Hdeb|]. split; [exact HMP|].
  split; [exact Hh|].
  assert (Hsk : skipped pre (h_q h) (w_fs w) = w_fs w \/
                exists x a c, lookup (w_fs w) x = Some (NLink a c) /\
                              skipped pre (h_q h) (w_fs w) = del_dent x (w_fs w)).
  { destruct pre as [t0|]; [right | left; reflexivity].
    pose proof (QRel_head _ _ _ _ _ _ HR) as Hhd. eexists _, _, _. split; [exact Hhd | reflexivity]. }
  split; [exact Hsk|]. split; [exact HR1|]. split; [exact Hnd1|].
  split; [|split; [exact K1 | exact C1]].
  intros Hpe.
  assert (Hpe0 : parents_exist (skipped pre (h_q h) (w_fs w))).
  { destruct pre as [t0|]; [|exact Hpe]. cbn [skipped].
    pose proof (QRel_head _ _ _ _ _ _ HR) as Hhd.
    apply SnapshotProofs.parents_exist_del_leaf; [exact Hpe | exact Hnd | | unfold head_name; rewrite Hhd; discriminate].
    apply join_dec_nonroot. exact (QR_nroot _ _ _ HR). }
  eapply member_post_parents_exist; [exact HMP | exact Hpe0 | | | |].
  - apply store_name_abs. exact (PO_root_abs _ _ _ _ _ _ _ _ _ A1).
  - apply member_path_abs. exact (MO_uroot_abs _ _ _ _ _ _ _ A2).
  - exact Hh.
  - exact (MO_up _ _ _ _ _ _ _ A2).
Qed.

(* the member iterations of the burst *)
Theorem burst_members o rev k P : benign o -> forall es e pre rest fuel h w,
  tr_ok (w_tr w) = true -> keys_nodup (w_fs w) ->
  QRel (h_q h) (w_fs w) (optP P pre ++ bq k P (e :: es) ++ rest) ->
  (forall t0, pre = Some t0 -> (q_deb (h_q h) <= w_clock w - t0)%Z) ->
  Forall (fun e0 => (q_deb (h_q h) <= w_clock w - me_time e0)%Z /\
                    (q_deb (h_q h) <= w_clock w - me_time2 e0)%Z) (e :: es) ->   (* all entries are due *)
  last_members k P (e :: es) rest ->
  all_mok (h_cfg h) (h_cpl h) (h_journal h) (q_dir (h_q h))
          (skipped pre (h_q h) (w_fs w)) (w_clock w) k (e :: es) ->
  exists qf w',
    handle_timeout_loop (length (e :: es) + fuel) rev h o w =
      handle_timeout_loop fuel rev (set_q qf h) o w' /\
    q_dir qf = q_dir (h_q h) /\ q_deb qf = q_deb (h_q h) /\
    (* what is left: the last copy of the project entry, and the rest *)
    QRel qf (w_fs w') ((P, 1%N, me_time2 (last es e)) :: rest) /\
    keys_nodup (w_fs w') /\
    burst_post (h_cfg h) (h_cpl h) (h_journal h) (w_clock w) k (w_fs w) (w_fs w') (e :: es) /\
    (parents_exist (w_fs w) -> parents_exist (w_fs w')) /\
    tr_keep (w_tr w) (w_tr w') /\ w_clock w' = w_clock w.
Proof.
  intros H. induction es as [|e2 es IH]; intros e pre rest fuel h w Hok Hnd HR Hduepre Hdue Hlast Hall.
  - (* the last member *)
    rewrite bq_cons in HR. cbn [bq flat_map app] in HR.
    inversion Hdue as [|? ? [Hd _] _]; subst. destruct Hlast as [Hocc _]. cbn [bq flat_map app] in Hocc.
    pose proof Hall as [Hm _].
    destruct (burst_step o rev k P pre e rest fuel h w H Hok Hnd HR Hduepre Hd Hocc Hm)
      as (q' & w1 & hname & tg & tm & E1 & Hdir & Hdeb & HMP & Hh & Hsk & HR1 & Hnd1 & Hpe1 & K1 & C1).
    exists (popped (me_path e) q'), w1. cbn [length last Nat.add].
    split; [exact E1|]. split; [exact Hdir|]. split; [exact Hdeb|]. split; [exact HR1|].
    split; [exact Hnd1|]. split; [|split; [exact Hpe1|split; [exact K1 | exact C1]]].
    eapply burst_post_cons; [exact Hsk | exact Hm | constructor | exact HMP | exact Hh | apply burst_post_nil].
  - (* a member followed by others *)
    rewrite bq_cons in HR. cbn [app] in HR.
    inversion Hdue as [|? ? [Hd Hd2] Hdue']; subst. destruct Hlast as [Hocc Hlast'].
    pose proof Hall as [Hm [Hind Hall']].
    destruct (burst_step o rev k P pre e (bq k P (e2 :: es) ++ rest) (length (e2 :: es) + fuel) h w
                H Hok Hnd HR Hduepre Hd Hocc Hm)
      as (q' & w1 & hname & tg & tm & E1 & Hdir & Hdeb & HMP & Hh & Hsk & HR1 & Hnd1 & Hpe1 & K1 & C1).
    set (q1 := popped (me_path e) q') in *.
    set (h1 := set_q q1 h).
    assert (Hdir1 : q_dir q1 = q_dir (h_q h)) by exact Hdir.
    assert (Hdeb1 : q_deb q1 = q_deb (h_q h)) by exact Hdeb.
    pose proof (QRel_head _ _ _ _ _ _ HR1) as Hhd1.
    assert (Hall1 : all_mok (h_cfg h1) (h_cpl h1) (h_journal h1) (q_dir (h_q h1))
                            (skipped (Some (me_time2 e)) (h_q h1) (w_fs w1)) (w_clock w1) k (e2 :: es)).
    { cbn [h1 set_q h_cfg h_cpl h_journal h_q skipped]. rewrite Hdir1, C1.
      apply (all_mok_del _ _ _ _ _ _ _ _ _ _ Hhd1).
      exact (all_mok_mstep _ _ _ _ _ _ _ _ _ _ _ _ _ HMP Hh Hall). }
    destruct (IH e2 (Some (me_time2 e)) rest fuel h1 w1 (tr_keep_ok _ _ K1) Hnd1)
      as (qf & w' & E' & Hdirf & Hdebf & HRf & Hndf & HBf & Hpef & Kf & Cf).
    { exact HR1. }
    { intros t0 Et. injection Et as <-. cbn [h1 set_q h_q]. rewrite Hdeb1, C1. exact Hd2. }
    { cbn [h1 set_q h_q]. rewrite Hdeb1, C1. exact Hdue'. }
    { exact Hlast'. }
    { exact Hall1. }
    cbn [h1 set_q h_cfg h_cpl h_journal h_q] in HBf, Hdirf, Hdebf. rewrite C1 in HBf.
    exists qf, w'.
    split.
    { change (length (e :: e2 :: es) + fuel) with (S (length (e2 :: es) + fuel)). rewrite E1. exact E'. }
    split; [congruence|]. split; [congruence|].
    split; [rewrite last_cons_default; exact HRf|].
    split; [exact Hndf|].
    split.
    { eapply burst_post_cons; [exact Hsk | exact Hm | exact Hind | exact HMP | exact Hh | exact HBf]. }
    split; [intros Hpe; exact (Hpef (Hpe1 Hpe))|].
    split; [exact (tr_keep_trans _ _ _ K1 Kf) | congruence].
Qed.
Print Assumptions burst_members.

(* ====================================================================== *)
(* 4. ... followed by the project iteration                                *)
(* ====================================================================== *)

Notation snap_dir := SnapshotProofs.snap_dir.
Notation unstable_of := SnapshotProofs.unstable_of.

(* is [d] one of the names the member iterations create? *)
Lemma created_or_not cfg cpl now k d : forall es : list mentry,
  (forall e, In e es ->
     d <> store_name cfg cpl now (me_path e) /\
     ~ In d (parents_of (store_name cfg cpl now (me_path e))) /\
     d <> member_path cfg (me_path e) k /\
     ~ In d (parents_of (member_path cfg (me_path e) k))) \/
  (exists e, In e es /\
     (d = store_name cfg cpl now (me_path e) \/
      In d (parents_of (store_name cfg cpl now (me_path e))) \/
      d = member_path cfg (me_path e) k \/
      In d (parents_of (member_path cfg (me_path e) k)))).
Proof.
  induction es as [|e es IH].
  - left. intros e [].
  - destruct (str_eqb_spec d (store_name cfg cpl now (me_path e))) as [E1|N1];
      [right; exists e; split; [left; reflexivity | auto]|].
    destruct (str_in_dec d (parents_of (store_name cfg cpl now (me_path e)))) as [E2|N2];
      [right; exists e; split; [left; reflexivity | auto]|].
    destruct (str_eqb_spec d (member_path cfg (me_path e) k)) as [E3|N3];
      [right; exists e; split; [left; reflexivity | auto]|].
    destruct (str_in_dec d (parents_of (member_path cfg (me_path e) k))) as [E4|N4];
      [right; exists e; split; [left; reflexivity | auto]|].
    destruct IH as [IH|(e' & Hin & Hd)].
    + left. intros e0 [<-|Hin]; [auto | exact (IH e0 Hin)].
    + right. exists e'. split; [right; exact Hin | exact Hd].
Qed.

(* The burst: the members e1 .. en of the project X/name (root P = X/name, k
   characters) were written, the queue reads e1, P, ..., en, P, rest; everything
   of the burst is due; every member satisfies the hypotheses of
   member_head_iteration in the initial file system and the members are pairwise
   independent; the locations do not nest (as in member_then_project). *)
Record burst_due (w : world) (h : handler) (k : nat) (X name : str)
       (es : list mentry) (rest : list qent) : Prop := {
  bd_ok : tr_ok (w_tr w) = true;
  bd_nodup : keys_nodup (w_fs w);
  bd_parents : parents_exist (w_fs w);
  bd_some : es <> [];
  bd_queue : QRel (h_q h) (w_fs w) (bq k (X ++ ch_slash :: name) es ++ rest);
  bd_due : Forall (fun e0 => (q_deb (h_q h) <= w_clock w - me_time e0)%Z /\
                             (q_deb (h_q h) <= w_clock w - me_time2 e0)%Z) es;
  bd_last : last_members k (X ++ ch_slash :: name) es rest;
  bd_once : occurs (X ++ ch_slash :: name) rest = false;
  bd_all : all_mok (h_cfg h) (h_cpl h) (h_journal h) (q_dir (h_q h)) (w_fs w) (w_clock w) k es;
  (* every member is X/name/<its path inside the project> *)
  bd_split : Forall (fun e => member_split (me_path e) k X name (ch_slash :: me_rel e)) es;
  bd_name : name <> [];
  bd_jts : SnapshotProofs.journal_ts_ok (h_journal h) (w_clock w);
  bd_abs : exists restD, snap_dir h (X ++ ch_slash :: name) (w_clock w) 0 = ch_slash :: restD;
  bd_unroot : unstable_of h (X ++ ch_slash :: name) <> root_path;
  bd_UD : nn (unstable_of h (X ++ ch_slash :: name)) (snap_dir h (X ++ ch_slash :: name) (w_clock w) 0);
  bd_UP : nn (unstable_of h (X ++ ch_slash :: name)) (X ++ ch_slash :: name);
  bd_DP : nn (snap_dir h (X ++ ch_slash :: name) (w_clock w) 0) (X ++ ch_slash :: name);
  bd_QD : nn (q_dir (h_q h)) (snap_dir h (X ++ ch_slash :: name) (w_clock w) 0);
  bd_QU : nn (q_dir (h_q h)) (unstable_of h (X ++ ch_slash :: name));
  bd_Dv : Forall (fun e =>
             nn (snap_dir h (X ++ ch_slash :: name) (w_clock w) 0)
                (store_name (h_cfg h) (h_cpl h) (w_clock w) (me_path e)) /\
             ~ under (unstable_of h (X ++ ch_slash :: name))
                     (store_name (h_cfg h) (h_cpl h) (w_clock w) (me_path e))) es;
  bd_fresh : lookup (w_fs w) (snap_dir h (X ++ ch_slash :: name) (w_clock w) 0) = None;
  bd_chain : forall d, In d (parents_of (snap_dir h (X ++ ch_slash :: name) (w_clock w) 0)) ->
      lookup (w_fs w) d = Some NDir \/ lookup (w_fs w) d = None
}.

(* what the pass leaves: the j-th member of the burst has its new version
   (inode fs_next + j), and the unstable tree AND the one snapshot of the pass
   link that very inode at the member's path inside the project *)
Definition burst_result (h : handler) (k : nat) (P : str) (f : fs) (now : Z)
           (es : list mentry) (f2 : fs) : Prop :=
  let U := unstable_of h P in
  let D := snap_dir h P now 0 in
  lookup f2 D = Some NDir /\
  (forall j e, nth_error es j = Some e ->
     lookup f2 (store_name (h_cfg h) (h_cpl h) now (me_path e)) = Some (NFile (fs_next f + j)) /\
     f_bytes (get_file f2 (fs_next f + j)) = me_bytes e /\
     lookup f2 (U ++ ch_slash :: me_rel e) = Some (NFile (fs_next f + j)) /\
     lookup f2 (D ++ ch_slash :: me_rel e) = Some (NFile (fs_next f + j))) /\
  (* frame: every directory and regular file outside the unstable tree is as
     before (older versions, older snapshots, the project); so is every older
     inode but the journal *)
  (forall x n, lookup f x = Some n -> (forall a c, n <> NLink a c) -> ~ under U x ->
               lookup f2 x = Some n) /\
  (forall j, j < fs_next f -> (forall jn, h_journal h = Some jn -> j <> j_ino jn) ->
             get_file f2 j = get_file f j).

Theorem burst_then_project o rev fuel w h k X name es rest :
  benign o -> burst_due w h k X name es rest ->
  exists qf w2,
    handle_timeout_loop (length es + S fuel) rev h o w =
      handle_timeout_loop fuel rev (set_q qf h) o w2 /\
    q_dir qf = q_dir (h_q h) /\ q_deb qf = q_deb (h_q h) /\
    burst_result h k (X ++ ch_slash :: name) (w_fs w) (w_clock w) es (w_fs w2) /\
    QRel qf (w_fs w2) rest /\
    keys_nodup (w_fs w2) /\ parents_exist (w_fs w2) /\
    tr_keep (w_tr w) (w_tr w2) /\ w_clock w2 = w_clock w.
Proof.
  intros H [Hok Hnd Hpe Hsome HR Hdue Hlast Honce Hall Hsplit Hname Hjts HDabs HUr NUD NUP NDP NQD NQU
            HDv HDn HDpar].
  set (P := X ++ ch_slash :: name) in *.
  set (U := unstable_of h P) in *. set (D := snap_dir h P (w_clock w) 0) in *.
  set (q := h_q h) in *. set (cfg := h_cfg h) in *. set (f := w_fs w) in *.
  destruct es as [|e es]; [congruence|]. clear Hsome.
  (* the member iterations *)
  destruct (burst_members o rev k P H es e None rest (S fuel) h w Hok Hnd HR
              ltac:(intros t0 Et; discriminate) Hdue Hlast Hall)
    as (q1 & w1 & E1 & Hdir1 & Hdeb1 & HR1 & Hnd1 & HB & Hpe1 & K1 & C1).
  fold q cfg f in E1, Hdir1, Hdeb1, HB, Hpe1.
  specialize (Hpe1 Hpe). pose proof (tr_keep_ok _ _ K1) as Hok1.
  pose proof HB as [Bnext Bver Bnew Bdir Bnone Bfile Bfiles].
  set (tl := me_time2 (last es e)) in *.
  (* names *)
  pose proof (QR_nroot _ _ _ HR) as Hqr.
  assert (HUPeq : forall e0, In e0 (e :: es) ->
            member_path cfg (me_path e0) k = U ++ ch_slash :: me_rel e0 /\
            me_path e0 = P ++ ch_slash :: me_rel e0).
  { intros e0 Hin. rewrite Forall_forall in Hsplit. pose proof (Hsplit e0 Hin) as HS.
    destruct (member_path_eq cfg (me_path e0) k X name (ch_slash :: me_rel e0) HS) as (_ & _ & EUP).
    destruct (member_split_root _ _ _ _ _ HS) as [EP Er]. fold P in EP. rewrite EP, Er in EUP.
    split; [exact EUP|]. rewrite <- (firstn_skipn k (me_path e0)) at 1. rewrite EP, Er. reflexivity. }
  destruct NUD as [NUD1 [NUD2 NUD3]].
  assert (D_vs_UP : forall e0, In e0 (e :: es) ->
            D <> member_path cfg (me_path e0) k /\ ~ In D (parents_of (member_path cfg (me_path e0) k)) /\
            ~ In (member_path cfg (me_path e0) k) (parents_of D)).
  { intros e0 Hin. destruct (HUPeq e0 Hin) as [EU _].
    assert (Hu : under U (member_path cfg (me_path e0) k)) by (exists (me_rel e0); exact EU).
    split; [intros E; apply NUD2; rewrite E; exact Hu|]. split.
    - intros Hi. apply parents_of_prefix in Hi.
      destruct (under_both _ _ _ Hi Hu) as [E|[E|E]]; [exact (NUD1 (eq_sym E)) | exact (NUD3 E) | exact (NUD2 E)].
    - intros Hi. apply parents_of_prefix in Hi. apply NUD2. exact (under_trans _ _ _ Hu Hi). }
  assert (D_vs_dst : forall e0, In e0 (e :: es) ->
            D <> store_name cfg (h_cpl h) (w_clock w) (me_path e0) /\
            ~ In D (parents_of (store_name cfg (h_cpl h) (w_clock w) (me_path e0))) /\
            ~ In (store_name cfg (h_cpl h) (w_clock w) (me_path e0)) (parents_of D) /\
            ~ under D (store_name cfg (h_cpl h) (w_clock w) (me_path e0)) /\
            ~ under U (store_name cfg (h_cpl h) (w_clock w) (me_path e0))).
  { intros e0 Hin. rewrite Forall_forall in HDv. destruct (HDv e0 Hin) as [[N1 [N2 N3]] N4].
    split; [exact N1|]. split; [intros Hi; apply parents_of_prefix in Hi; exact (N2 Hi)|].
    split; [intros Hi; apply parents_of_prefix in Hi; exact (N3 Hi)|]. split; [exact N2 | exact N4]. }
  assert (HnameQ : forall kk, under (q_dir q) (join (q_dir q) (dec kk))).
  { intros kk. exists (dec kk). apply join_nonroot. exact Hqr. }
  assert (Q_not_D : forall x, under (q_dir q) x -> x <> D /\ ~ under D x /\ ~ In x (parents_of D)).
  { intros x Hx. destruct NQD as [Q1 [Q2 Q3]]. split; [intros ->; exact (Q2 Hx)|]. split.
    - intros Hd. destruct (under_both _ _ _ Hx Hd) as [E|[E|E]]; auto.
    - intros Hin. apply parents_of_prefix in Hin. apply Q2. exact (under_trans _ _ _ Hx Hin). }
  assert (Q_not_U : forall x, under (q_dir q) x -> ~ under U x).
  { intros x Hx Hu. destruct NQU as [Q1 [Q2 Q3]].
    destruct (under_both _ _ _ Hx Hu) as [E|[E|E]]; auto. }
  (* the snapshot directory is still free, its ancestors are directories or absent *)
  assert (HDn1 : lookup (w_fs w1) D = None).
  { apply Bnone; [exact HDn|]. intros e0 Hin.
    destruct (D_vs_dst e0 Hin) as (A1 & A2 & _). destruct (D_vs_UP e0 Hin) as (A3 & A4 & _). auto. }
  assert (HDpar1 : forall d, In d (parents_of D) ->
                     lookup (w_fs w1) d = Some NDir \/ lookup (w_fs w1) d = None).
  { intros d Hd. destruct (HDpar d Hd) as [A|A]; [left; exact (Bdir d A)|].
    destruct (created_or_not cfg (h_cpl h) (w_clock w) k d (e :: es)) as [Hno|(e0 & Hin & Hc)].
    - right. exact (Bnone d A Hno).
    - destruct Hc as [->|[Hc|[->|Hc]]].
      + exfalso. destruct (D_vs_dst e0 Hin) as (_ & _ & A3 & _). exact (A3 Hd).
      + left. apply (Bnew e0 d Hin). left. exact Hc.
      + exfalso. destruct (D_vs_UP e0 Hin) as (_ & _ & A3). exact (A3 Hd).
      + left. apply (Bnew e0 d Hin). right. exact Hc. }
  (* the project iteration *)
  set (h1 := set_q q1 h).
  pose proof Hall as [[A1 _ _] _].
  assert (Hlast_in : In (last es e) (e :: es)).
  { clear. revert e. induction es as [|x l IH]; intros e; [left; reflexivity|].
    change (last (x :: l) e) with (last (x :: l) e). rewrite last_cons_default. right. apply IH. }
  destruct (SnapshotProofs.project_head_snapshot o w1 rev h1 P 1%N tl rest 0 fuel)
    as (w2 & f1s & f2s & E2 & HSn & HJ & HF & HR2 & Hnd2 & Hpe2 & K2 & C2).
  { constructor.
    - exact H.
    - exact Hok1.
    - exact Hnd1.
    - exact Hpe1.
    - exact HR1.
    - change (q_deb (h_q h1)) with (q_deb q1). rewrite Hdeb1, C1. apply Z.ltb_ge.
      rewrite Forall_forall in Hdue. exact (proj2 (Hdue _ Hlast_in)).
    - exact Honce.
    - reflexivity.
    - change (N.shiftr 1 2) with 0%N. apply N.ltb_ge. lia.
    - apply last_nosl; [|exact Hname]. inversion Hsplit as [|? ? HS _]; subst. exact (MS_name _ _ _ _ _ HS).
    - rewrite C1. exact (PO_vlen _ _ _ _ _ _ _ _ _ A1).
    - rewrite C1. exact (PO_vslash _ _ _ _ _ _ _ _ _ A1).
    - rewrite C1. exact Hjts.
    - rewrite C1. exact HDabs.
    - exact HUr.
    - rewrite C1. split; [exact NUD1 | split; [exact NUD2 | exact NUD3]].
    - exact NUP.
    - rewrite C1. exact NDP.
    - rewrite C1. change (q_dir (h_q h1)) with (q_dir q1). rewrite Hdir1. exact NQD.
    - change (q_dir (h_q h1)) with (q_dir q1). rewrite Hdir1. exact NQU.
    - rewrite C1. exact HDn1.
    - rewrite C1. exact HDpar1.
    - intros j Hj. lia.
    - lia.
    - intros Hj. lia. }
  rewrite C1 in HSn, HJ. change (snap_dir h1 P (w_clock w) 0) with D in HSn.
  change (unstable_of h1 P) with U in HSn. change (h_q h1) with q1 in *.
  set (q2 := popped P q1) in *.
  exists q2, w2.
  split.
  { change (length (e :: es) + S fuel) with (length (e :: es) + S fuel). rewrite E1. exact E2. }
  split; [exact Hdir1|]. split; [exact Hdeb1|].
  (* from the snapshot back to the world *)
  set (hname2 := head_name q1) in *.
  pose proof (QRel_head _ _ _ _ _ _ HR1) as Hhd2. fold (head_name q1) in Hhd2. fold hname2 in Hhd2.
  assert (Hh2q : under (q_dir q) hname2).
  { unfold hname2, head_name. rewrite Hdir1. apply HnameQ. }
  destruct (SnapshotProofs.journal_after_dents _ _ _ _ _ _ _ HJ) as [DE2 _].
  pose proof (SnapshotProofs.dents_lookup _ _ DE2) as LK2.
  assert (Lw2 : forall x, x <> hname2 -> lookup (w_fs w2) x = lookup f1s x).
  { intros x Hx. rewrite HF, lookup_del_dent_other by exact Hx. apply LK2. }
  assert (HUne : U <> []) by (unfold U, SnapshotProofs.unstable_of; destruct (c_unstable_root (h_cfg h)); discriminate).
  assert (HPne : P <> []) by (unfold P; destruct X; discriminate).
  pose proof HSn as (FF & FN & _ & LD & LP & _ & _ & FR).
  assert (G2 : forall j, (forall jn, h_journal h = Some jn -> j <> j_ino jn) ->
                         get_file (w_fs w2) j = get_file (w_fs w1) j).
  { intros j Hj. rewrite HF. change (get_file (del_dent hname2 f2s) j) with (get_file f2s j).
    assert (G : get_file f2s j = get_file f1s j).
    { unfold SnapshotProofs.journal_after in HJ. change (h_journal h1) with (h_journal h) in HJ.
      destruct (h_journal h) as [jn|] eqn:Ej; [|rewrite HJ; reflexivity].
      destruct (c_ev_stored (h_cfg h1)); [|rewrite HJ; reflexivity].
      destruct HJ as (_ & _ & G & _). apply G. exact (Hj jn eq_refl). }
    rewrite G. unfold get_file at 1. rewrite FF. reflexivity. }
  split; [|split; [exact HR2 | split; [exact Hnd2 | split; [exact Hpe2 |
           split; [exact (tr_keep_trans _ _ _ K1 K2) | congruence]]]]].
  unfold burst_result. fold U D cfg f. cbv zeta.
  split.
  { rewrite Lw2; [exact LD|]. intros E. destruct (Q_not_D hname2 Hh2q) as [A _]. exact (A (eq_sym E)). }
  split.
  { intros j e0 Hj. pose proof (nth_error_In _ _ Hj) as Hin.
    destruct (Bver j e0 Hj) as (V1 & V2 & V3 & V4).
    destruct (HUPeq e0 Hin) as [EU EPp]. rewrite EU in V3.
    assert (Hexp : fs_exists (P ++ ch_slash :: me_rel e0) (w_fs w1) = true).
    { rewrite <- EPp. unfold fs_exists. rewrite V4. reflexivity. }
    destruct (SnapshotProofs.snapshot_hard_link _ _ _ _ _ HSn (me_rel e0) _ V3 Hexp) as (SD & SU & _).
    destruct (D_vs_dst e0 Hin) as (B1 & B2 & B3 & B4 & B5).
    split; [|split; [|split]].
    - pose proof (MK_plain _ _ _ _ _ _ _ _ (all_mok_in cfg (h_cpl h) (h_journal h) (q_dir q) f (w_clock w) k (e :: es) Hall e0 Hin)) as Ap.
      destruct (under_join_dec (q_dir q) (q_head q1) _ Hqr (PO_dst_q _ _ _ _ _ _ _ _ _ Ap)) as [A _].
      rewrite Lw2; [|unfold hname2, head_name; rewrite Hdir1; exact A].
      rewrite FR; [exact V1 | exact (fun E => B1 (eq_sym E)) | exact B3 | exact B5 | exact B4].
    - rewrite G2; [exact V2|]. intros jn Ej E.
      destruct (PO_jino _ _ _ _ _ _ _ _ _ A1 jn Ej) as [_ Hlt]. fold f in Hlt. lia.
    - rewrite Lw2; [exact SU|]. intros E. apply (Q_not_U hname2 Hh2q). rewrite <- E. eexists. reflexivity.
    - rewrite Lw2; [exact SD|]. intros E. destruct (Q_not_D hname2 Hh2q) as (_ & A & _).
      apply A. rewrite <- E. eexists. reflexivity. }
  split.
  { intros x n Hx Hn HxU.
    assert (X1 : lookup (w_fs w1) x = Some n).
    { destruct n as [|j|a c]; [exact (Bdir x Hx) | | exfalso; exact (Hn a c eq_refl)].
      apply (Bfile x j Hx). intros e0 Hin E. apply HxU. rewrite E.
      destruct (HUPeq e0 Hin) as [EU _]. rewrite EU. eexists. reflexivity. }
    assert (Xh : x <> hname2).
    { intros E. rewrite E, Hhd2 in X1. injection X1 as <-. exact (Hn _ _ eq_refl). }
    rewrite (Lw2 x Xh).
    destruct (str_in_dec x (parents_of D)) as [Hin|Hnin].
    - rewrite (LP x Hin). destruct (HDpar x Hin) as [A|A]; fold f in A; congruence.
    - rewrite FR; [exact X1 | | exact Hnin | exact HxU |].
      + intros ->. fold f in HDn. congruence.
      + intros [s Es]. rewrite Es in Hx.
        rewrite (SnapshotProofs.below_nondir f D Hpe) in Hx; [discriminate | | rewrite HDn; discriminate].
        destruct HDabs as [restD ->]. discriminate. }
  intros j Hj Hjj. rewrite (G2 j Hjj). exact (Bfiles j Hj Hjj).
Qed.
Print Assumptions burst_then_project.

(* ---------- the same for handle_timeout: nothing else is due ---------- *)

Lemma bq_length k P es : length (bq k P es) = 2 * length es.
Proof. induction es as [|e es IH]; [reflexivity|]. rewrite bq_cons. cbn [length]. rewrite IH. lia. Qed.

Theorem handle_timeout_burst o rev w h k X name es rest :
  benign o -> burst_due w h k X name es rest ->
  not_due (w_clock w) (q_deb (h_q h)) rest ->
  exists qf w2,
    handle_timeout rev h o w =
      (Some (TPause (pause_of (w_clock w) (q_deb (h_q h)) rest), set_q qf h), w2) /\
    burst_result h k (X ++ ch_slash :: name) (w_fs w) (w_clock w) es (w_fs w2) /\
    QRel qf (w_fs w2) rest /\
    keys_nodup (w_fs w2) /\ parents_exist (w_fs w2) /\
    tr_ok (w_tr w2) = true /\ (t_post (w_tr w) = 0 -> w_tr w2 = w_tr w) /\
    w_clock w2 = w_clock w.
Proof.
  intros H HB Hstop.
  pose proof (QR_size _ _ _ (bd_queue _ _ _ _ _ _ _ HB)) as Hs.
  rewrite app_length, bq_length in Hs.
  assert (Hfuel : S (S (N.to_nat (q_size (h_q h)))) = length es + S (S (length es + length rest))).
  { rewrite Hs, Nat2N.id. lia. }
  unfold handle_timeout. rewrite Hfuel.
  destruct (burst_then_project o rev (S (length es + length rest)) w h k X name es rest H HB)
    as (qf & w1 & E1 & Hdir & Hdeb & HRes & HR1 & Hnd1 & Hpe1 & K1 & C1).
  set (h1 := set_q qf h) in *.
  assert (Hstop1 : not_due (w_clock w1) (q_deb (h_q h1)) rest).
  { cbn [h1 set_q h_q]. rewrite Hdeb, C1. exact Hstop. }
  destruct (pass_stops o w1 h1 rev (length es + length rest) rest H (tr_keep_ok _ _ K1) HR1 Hstop1)
    as (w2 & E2 & F2 & C2 & K2).
  rewrite <- E1 in E2. rewrite (bind_some _ _ _ _ _ _ E2).
  pose proof (tr_keep_trans _ _ _ K1 K2) as [K3 K4].
  rewrite (bind_some _ _ _ _ _ _ (is_ok_eq o w2)). rewrite K3. unfold ret_.
  exists qf, w2. cbn [h1 set_q h_q]. rewrite Hdeb, C1. split; [reflexivity|]. rewrite F2.
  split; [exact HRes|]. split; [exact HR1|]. split; [exact Hnd1|]. split; [exact Hpe1|].
  split; [exact K3|]. split; [exact K4 | congruence].
Qed.
Print Assumptions handle_timeout_burst.

(* ====================================================================== *)
(* 5. checkers, and a concrete burst                                       *)
(* ====================================================================== *)

Lemma nmem_cons x a l : negb (mem x (a :: l)) = true -> x <> a /\ ~ In x l.
Proof.
  intros Hm. apply negb_true_iff in Hm. pose proof (not_mem_not_in _ _ Hm) as Hn.
  split; [intros E; apply Hn; left; symmetry; exact E | intros Hin; apply Hn; right; exact Hin].
Qed.

Lemma nmem_in x l : negb (mem x l) = true -> ~ In x l.
Proof. intros Hm. apply negb_true_iff in Hm. exact (not_mem_not_in _ _ Hm). Qed.

Definition mindep2b (cfg : config) (cpl : nat) (now : Z) (k : nat) (p0 p : str) : bool :=
  let d0 := store_name cfg cpl now p0 in let d := store_name cfg cpl now p in
  let u0 := member_path cfg p0 k in let u := member_path cfg p k in
  let o := offset_name cfg cpl p in
  (negb (mem d (d0 :: parents_of d0)) && negb (mem d0 (parents_of d)) &&
   negb (mem o (d0 :: parents_of d0)) && negb (mem d0 (dchain (length o) o)) &&
   negb (str_eqb p u0) &&
   negb (mem d (u0 :: parents_of u0)) && negb (mem u0 (parents_of d)) &&
   negb (mem o (u0 :: parents_of u0)) && negb (mem u0 (dchain (length o) o)) &&
   negb (mem u (d0 :: parents_of d0)) && negb (mem d0 (parents_of u)) &&
   negb (mem u (u0 :: parents_of u0)) && negb (mem u0 (parents_of u)) &&
   negb (str_eqb p0 u))%bool.

Lemma mindep2b_sound cfg cpl now k p0 p :
  mindep2b cfg cpl now k p0 p = true -> mindep2 cfg cpl now k p0 p.
Proof.
  unfold mindep2b. cbv zeta. intros Hc.
  repeat (apply andb_true_iff in Hc; let H1 := fresh "C" in destruct Hc as [Hc H1]).
  destruct (nmem_cons _ _ _ Hc) as [D1 D2]. pose proof (nmem_in _ _ C11) as D3.
  destruct (nmem_cons _ _ _ C10) as [D4 D5]. pose proof (nmem_in _ _ C9) as D6.
  apply negb_true_iff, str_eqb_neq in C8.
  destruct (nmem_cons _ _ _ C7) as [E1 E2]. pose proof (nmem_in _ _ C6) as E3.
  destruct (nmem_cons _ _ _ C5) as [E4 E5]. pose proof (nmem_in _ _ C4) as E6.
  destruct (nmem_cons _ _ _ C3) as [F1 F2]. pose proof (nmem_in _ _ C2) as F3.
  destruct (nmem_cons _ _ _ C1) as [F4 F5]. pose proof (nmem_in _ _ C0) as F6.
  apply negb_true_iff, str_eqb_neq in C.
  constructor; [|exact C]. constructor; try assumption. constructor; assumption.
Qed.

Definition mokb (cfg : config) (cpl : nat) (jn : journal) (qdir : str) (f : fs) (now : Z)
           (k : nat) (e : mentry) : bool :=
  (plain_okb cfg cpl jn qdir f now (me_path e) (me_ino e) (me_bytes e) &&
   member_okb cfg cpl qdir f now (me_path e) k &&
   negb (str_eqb (me_path e) (member_path cfg (me_path e) k)))%bool.

Lemma mokb_sound cfg cpl jn qdir f now k e :
  mokb cfg cpl jn qdir f now k e = true -> mok cfg cpl (Some jn) qdir f now k e.
Proof.
  unfold mokb. intros Hc. apply andb_true_iff in Hc. destruct Hc as [Hc C3].
  apply andb_true_iff in Hc. destruct Hc as [C1 C2].
  constructor; [apply plain_okb_sound; exact C1 | apply member_okb_sound; exact C2|].
  apply str_eqb_neq, negb_true_iff. exact C3.
Qed.

From Coq Require Import String.

Module BurstExample.
  Import MemberExample.

  (* the project of MemberExample with a second member, n.h (inode 3) *)
  Definition p_n : str := lit "/w/proj/n.h".
  Definition fsC : fs :=
    mkFs [ (lit "/w", NDir); (lit "/w/proj", NDir); (lit "/w/proj/src", NDir);
           (lit "/w/proj/src/m.c", NFile 2); (lit "/w/proj/n.h", NFile 3);
           (lit "/j", NFile 1); (lit "/q", NDir) ]
         [ (1, mkFile [] true); (2, mkFile (lit "one") true); (3, mkFile (lit "hdr") true) ]
         4.

  (* both are written at 10 s: the queue reads m.c, proj, n.h, proj *)
  Definition e_m : mentry := mkME p_m 10 10 2 (lit "one") (lit "src/m.c").
  Definition e_n : mentry := mkME p_n 10 10 3 (lit "hdr") (lit "n.h").

  Definition qC1 := pushed p_m q0.
  Definition fC1 := add_dent (next_name q0) (NLink (encode (mmeta 7) p_m) 10%Z) fsC.
  Definition qC2 := pushed Pn qC1.
  Definition fC2 := add_dent (next_name qC1) (NLink (encode 1 Pn) 10%Z) fC1.
  Definition qC3 := pushed p_n qC2.
  Definition fC3 := add_dent (next_name qC2) (NLink (encode (mmeta 7) p_n) 10%Z) fC2.
  Definition qC4 := pushed Pn qC3.
  Definition fC4 := add_dent (next_name qC3) (NLink (encode 1 Pn) 10%Z) fC3.

  Definition hC : handler := mkH cfg0 None 3 qC4 (Some jn0) [] [].
  Definition wC : world := mkW fC4 0 [] 100%Z tr_empty.

  Lemma queueC : QRel (h_q hC) (w_fs wC) (bq 7 (lit "/w" ++ ch_slash :: lit "proj") [e_m; e_n] ++ []).
  Proof.
    assert (R0 : QRel q0 fsC []).
    { apply QRel_empty; [discriminate | reflexivity|].
      intros k. apply SnapshotProofs.nothing_under; [discriminate | discriminate | vm_compute; reflexivity]. }
    assert (R1 : QRel qC1 fC1 ([] ++ [(p_m, mmeta 7, 10%Z)])).
    { apply QRel_push; [exact R0 | apply normalb_spec; reflexivity | apply fits32; reflexivity]. }
    assert (R2 : QRel qC2 fC2 (([] ++ [(p_m, mmeta 7, 10%Z)]) ++ [(Pn, 1%N, 10%Z)])).
    { apply QRel_push; [exact R1 | apply normalb_spec; reflexivity | apply fits32; reflexivity]. }
    assert (R3 : QRel qC3 fC3 ((([] ++ [(p_m, mmeta 7, 10%Z)]) ++ [(Pn, 1%N, 10%Z)]) ++ [(p_n, mmeta 7, 10%Z)])).
    { apply QRel_push; [exact R2 | apply normalb_spec; reflexivity | apply fits32; reflexivity]. }
    exact (QRel_push _ _ _ Pn 1%N 10%Z R3 (proj1 (normalb_spec Pn) eq_refl) (fits32 Pn 1%N 10%Z eq_refl)).
  Qed.

  Ltac nnb := apply SnapshotProofs.nnb_sound; vm_compute; reflexivity.
  Ltac dir_or_absent :=
    let d := fresh "d" in let Hin := fresh "Hin" in
    intros d Hin; vm_compute in Hin;
    repeat (destruct Hin as [<-|Hin]; [vm_compute; auto|]); destruct Hin.

  Example dueC : burst_due wC hC 7 (lit "/w") (lit "proj") [e_m; e_n] [].
  Proof.
    constructor.
    - reflexivity.
    - apply SnapshotProofs.keys_nodup_check. vm_compute. reflexivity.
    - apply parents_exist_b_sound. vm_compute. reflexivity.
    - discriminate.
    - exact queueC.
    - repeat constructor; vm_compute; discriminate.
    - cbn [last_members]. repeat split; vm_compute; reflexivity.
    - reflexivity.
    - cbn [all_mok]. split; [apply mokb_sound; vm_compute; reflexivity|].
      split; [constructor; [apply mindep2b_sound; vm_compute; reflexivity | constructor]|].
      split; [apply mokb_sound; vm_compute; reflexivity|]. split; [constructor | exact I].
    - repeat constructor.
    - discriminate.
    - vm_compute. repeat constructor.
    - eexists. vm_compute. reflexivity.
    - vm_compute. discriminate.
    - nnb.
    - nnb.
    - nnb.
    - nnb.
    - nnb.
    - repeat constructor; try nnb; intros Hu; apply underb_spec in Hu; vm_compute in Hu; discriminate.
    - vm_compute. reflexivity.
    - dir_or_absent.
  Qed.

  Definition vm1 : str := lit "/s/proj/src/m.c/100.c".
  Definition vn1 : str := lit "/s/proj/n.h/100.h".
  Definition DC : str := lit "/ps/proj/100".

  (* direct evaluation (2-byte transfers): two versions, two unstable links,
     ONE snapshot holding both, each pair the same inode *)
  Example run_burst :
    match handle_timeout false hC o2 wC with
    | (Some (TPause z, h'), w') =>
        z = (-1)%Z /\ q_size (h_q h') = 0%N /\ w_tr w' = tr_empty /\
        lookup (w_fs w') vm1 = Some (NFile 4) /\ get_file (w_fs w') 4 = mkFile (lit "one") true /\
        lookup (w_fs w') vn1 = Some (NFile 5) /\ get_file (w_fs w') 5 = mkFile (lit "hdr") true /\
        lookup (w_fs w') (lit "/u/proj/src/m.c") = Some (NFile 4) /\
        lookup (w_fs w') (lit "/u/proj/n.h") = Some (NFile 5) /\
        lookup (w_fs w') (DC ++ lit "/src/m.c")%list = Some (NFile 4) /\
        lookup (w_fs w') (DC ++ lit "/n.h")%list = Some (NFile 5) /\
        lookup (w_fs w') (lit "/ps/proj/100-1") = None /\
        fs_next (w_fs w') = 6
    | _ => False
    end.
  Proof. vm_compute. repeat split. Qed.

  (* the same from the theorem, for every benign oracle and both orders *)
  Example burst_by_theorem o rv : benign o ->
    exists qf w',
      handle_timeout rv hC o wC = (Some (TPause (-1), set_q qf hC), w') /\
      lookup (w_fs w') vm1 = Some (NFile 4) /\ f_bytes (get_file (w_fs w') 4) = lit "one" /\
      lookup (w_fs w') vn1 = Some (NFile 5) /\ f_bytes (get_file (w_fs w') 5) = lit "hdr" /\
      lookup (w_fs w') (lit "/u/proj/src/m.c") = Some (NFile 4) /\
      lookup (w_fs w') (lit "/u/proj/n.h") = Some (NFile 5) /\
      lookup (w_fs w') (DC ++ lit "/src/m.c")%list = Some (NFile 4) /\
      lookup (w_fs w') (DC ++ lit "/n.h")%list = Some (NFile 5) /\
      QRel qf (w_fs w') [] /\ w_tr w' = tr_empty.
  Proof.
    intros H.
    destruct (handle_timeout_burst o rv wC hC 7 (lit "/w") (lit "proj") [e_m; e_n] [] H dueC I)
      as (qf & w' & E & (RD & RV & _ & _) & HRq & _ & _ & _ & T & _).
    destruct (RV 0 e_m eq_refl) as (M1 & M2 & M3 & M4).
    destruct (RV 1 e_n eq_refl) as (N1 & N2 & N3 & N4).
    exists qf, w'. split; [exact E|].
    split; [exact M1|]. split; [exact M2|]. split; [exact N1|]. split; [exact N2|].
    split; [exact M3|]. split; [exact N3|]. split; [exact M4|]. split; [exact N4|].
    split; [exact HRq|]. apply T. reflexivity.
  Qed.

End BurstExample.

Print Assumptions BurstExample.dueC.
Print Assumptions BurstExample.run_burst.
Print Assumptions BurstExample.burst_by_theorem.
