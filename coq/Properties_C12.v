(* C12 Root privileges are dropped before configuration or events are processed. *)
From K Require Import Str Main MainProofs.
Local Open Scope N_scope.

(* For every command line, mount table, ownership of the designated path and
   every combination of failing or ineffective stat / setgroups / setgid / setuid
   (and every outcome of the other calls): main's actions are a start-up phase
   that loads no handler, polls nothing and dispatches nothing, followed either by
   an exit or by loading the handler with a non-zero user id, a non-zero group id
   and no supplementary groups.  Configuration code only runs inside load_handler,
   and events are only handled after it. *)
Theorem C12_no_root_work : forall (env : env),
  exists pre tail, main env = pre ++ tail /\ no_work pre /\
    ((exists c t, tail = [OExit c t]) \/
     (exists cfg cpl u g rest ev3, tail = OLoad cfg cpl u g 0 :: rest /\ u <> 0 /\ g <> 0 /\
                                   drop_privileges env = (ev3, true, u, g, 0%nat))).
Proof. exact main_shape. Qed.
Print Assumptions C12_no_root_work.

(* started as root: if the path cannot be examined, is owned by user 0 or group
   0, or any switch fails or does not take effect, the handler is never loaded *)
Theorem C12_fail_closed : forall (env : env),
  e_uid env = 0 -> e_gid env = 0 -> (0 < e_groups env)%nat ->
  (e_stat env = None \/ (exists u g, e_stat env = Some (u, g) /\ (u = 0 \/ g = 0)) \/
   e_setgroups env <> SwOk \/ e_setgid env <> SwOk \/ e_setuid env <> SwOk) ->
  forall cfg cpl u g n, ~ In (OLoad cfg cpl u g n) (main env).
Proof. exact fail_closed. Qed.
Print Assumptions C12_fail_closed.

(* non-vacuity: a successful drop *)
Example C12_example :
  let env := mkEnv [] [([ch_dot], [ch_slash; "w"%char]); ([ch_slash], [ch_slash])] [[ch_slash]] true true true (fun _ => true)
                   (Some (1000, 100)) 0 0 3 SwOk SwOk SwOk true 7 [] in
  In (OLoad None 3 1000 100 0) (main env) /\
  ~ In (OLoad None 3 1000 100 0) (main (mkEnv [] [([ch_dot], [ch_slash; "w"%char]); ([ch_slash], [ch_slash])] [[ch_slash]] true true true (fun _ => true)
                   (Some (1000, 100)) 0 0 3 SwNoEffect SwOk SwOk true 7 [])).
Proof. split; [vm_compute; tauto | vm_compute; intuition discriminate]. Qed.
