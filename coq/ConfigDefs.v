(* Syntax of the configuration table (the target of tools/gen_config.py). *)
From Coq Require Export String.
From K Require Export Str.

Definition s (x : string) : str := list_ascii_of_string x.

Inductive tkey := KStr (k : str) | KOther.          (* table keys: strings, or anything else *)

Inductive value :=
| VNil
| VStr (v : str)
| VInt (z : Z)            (* a number with an integral value *)
| VFloat                  (* a number without one *)
| VBool (b : bool)
| VTab (ents : list (tkey * value)).   (* entries with non-nil values *)

(* default expressions of declare(): nil | 'str' | number | name | e .. e | e * e *)
Inductive dexpr :=
| DNil | DStr (v : str) | DInt (z : Z) | DVar (name : str)
| DConcat (a b : dexpr) | DMul (a b : dexpr).

Inductive tpred := TString | TNilOrString | TPositive | TSetOfStrings.

Record decl := mkDecl { d_name : str; d_default : dexpr; d_type : tpred }.
