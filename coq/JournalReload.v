(* C19 + C16: the journal over whole histories WITH reloads.

   JournalHistoryProofs / JournalHistoryPass describe the journal over a
   history of events under ONE configuration; ReloadHistory says which
   configuration is in force after any history that rewrites the
   configuration file.  Here the two are composed.  A history is a list of
   ReloadHistory.step (write / exec / pass / environment); the oracle is
   benign (no call fails, every write and sendfile may be cut into pieces).

   The specification [rspec] threads the configuration in force through the
   history with ReloadHistory.next_cfg (so the configuration of the k-th step
   is cfg_in_force of the first k steps) and lists, step by step, the journal
   FILE in force when the step began (its inode) and the LINES the step
   appended; the lines are built ([lines_of]) from the labels and the stamp
   pattern of the configuration in force when the step began:
     exec   one line  stamp <tab> label <tab> pid <tab> path   (none if the
            label is not configured);
     write  the same with the write label -- also for the write of the
            configuration file itself: it is journalled under the OLD
            configuration in the OLD journal, the reload comes afterwards;
     pass   lines `stored / deleted / forbidden' without pid; for a pass over a
            due prefix of plain heads exactly one `stored' line per head, in
            queue order; for a pass that only waits nothing;
     env    nothing.
   Main theorem [journal_history_with_reloads]: the run does not stop, it is
   described by [rspec], and the bytes of EVERY tracked journal file are, at
   the end, its bytes at the start (nothing for a file created by a reload)
   followed by the lines of exactly the steps during which it was in force, in
   order.  The tracked set T starts with the files chosen by the user (the
   journal in force must be among them) and grows by the journal files that
   reloads create.  A journal left behind by a reload keeps its content for
   good; the file a reload switches to continues from whatever it held.

   Part 1  one write event with ANY new configuration (benign oracle);
   Part 2  specification: lines_of, rspec, lines_for;
   Part 3  invariant, side conditions, the step theorem [step_journal];
   Part 4  the fold: journal_history_with_reloads; consequences;
   Part 5  a rejected reload;
   Part 6  Module JournalReloadExample. *)
From K Require Import Str Dec Trace Fs World Progs Elf Sieve SieveSpec Handler Linq LinqSpec LinqProofs Hoare Confine Confine2
     SyncProofs AbandonProofs JournalProofs QueueProofs StoreFs StoreLogic StoreProofs FdProofs PassProofs
     JournalHistoryProofs JournalHistoryPass AcceptProofs ReloadProofs ReloadHistory JournalFrame.
From Coq Require Import Lia.
Arguments N.add : simpl never.
Arguments N.sub : simpl never.
Arguments N.mul : simpl never.
Arguments N.of_nat : simpl never.
Arguments N.eqb : simpl never.
Arguments N.leb : simpl never.

Notation benign := JournalProofs.benign.

(* the bytes of inode i *)
Definition bytes (w : world) (i : nat) : str := f_bytes (get_file (w_fs w) i).

(* ====================================================================== *)
(* Part 1: one write event, any new configuration, benign oracle          *)
(* ====================================================================== *)

Lemma jok_write_tail_any K t (P : fs -> Prop) path nc h1 :
  cl_add P -> (forall p f, P f -> P (snd (fs_open_create p f))) ->
  jok K t P (write_tail path nc h1).
Proof.
  intros Ha Ho. unfold write_tail. apply jok_bind; [jk_with jleaf1|intros b].
  destruct b; [|apply jok_ret]. destruct (h_cfg_path h1); [|apply jok_ret].
  destruct (str_eqb path s); [|apply jok_ret].
  eapply jok_of_jt. apply jt_reload; assumption.
Qed.

(* JournalHistoryProofs.write_benign without the hypothesis [quiet_write]:
   the line of the write goes to the journal that is open when the event
   arrives, stamped and labelled by that journal / configuration; a reload
   that follows does not touch it *)
Lemma close_write_benign o w pid path nc h c jn cp :
  benign o -> HJ c jn cp h -> jsep c (j_ino jn) (w_fs w) ->
  exists h' w' ls,
    handle_close_write pid path nc h o w = (Some h', w') /\
    jsep c (j_ino jn) (w_fs w') /\
    f_bytes (get_file (w_fs w') (j_ino jn)) = f_bytes (get_file (w_fs w) (j_ino jn)) ++ concat ls /\
    (ls = jl jn (w_clock w) (write_label c h pid path) pid path \/ (ls = [] /\ tr_ok (w_tr w') = false)) /\
    w_clock w' = w_clock w.
Proof.
  intros Hb Hh Hsep.
  rewrite handle_close_write_parts. unfold close_write_parts, when_ok.
  rewrite (SyncProofs.bind_some _ _ _ _ _ _ (is_ok_eq o w)).
  set (b0 := f_bytes (get_file (w_fs w) (j_ino jn))).
  destruct (tr_ok (w_tr w)) eqn:Hok.
  - destruct (jt_benign_run (w_clock w) (JI c (j_ino jn) (eq b0)) _ _ o w
                (jt_push_body oc_benign (w_clock w) _ (JI_cl_add c (j_ino jn) (eq b0)) pid path h)
                Hb (conj Hsep eq_refl) eq_refl) as ([pushed h1] & w1 & E1 & [S1 B1] & C1 & Hs1 & Ep).
    cbn [fst snd] in Hs1, Ep. subst pushed.
    rewrite (SyncProofs.bind_some _ _ _ _ _ _ (eq_trans (push_to_linq_ok pid path h o w Hok) E1)). cbn [fst snd].
    pose proof (HJ_same c jn cp h h1 Hh Hs1) as Hh1. pose proof Hh1 as [Ec [Ej Ecp]].
    rewrite Ec. fold (write_label c h pid path).
    destruct (record_event_benign o w1 (write_label c h pid path) pid path h1 jn Hb Ej)
      as (w2 & E2 & C2 & Hc).
    rewrite (SyncProofs.bind_some _ _ _ _ _ _ E2).
    rewrite C1 in Hc.
    destruct Hc as [[_ A]|[F2 Hn]].
    + set (b2 := f_bytes (get_file (w_fs w2) (j_ino jn))).
      assert (S2 : jsep c (j_ino jn) (w_fs w2)) by (eapply appended_jsep; eauto).
      destruct (jt_benign_run (w_clock w) (JI c (j_ino jn) (eq b2)) (fun _ => True) (write_tail path nc h1) o w2
                  (jok_write_tail_any oc_benign (w_clock w) _ path nc h1 (JI_cl_add c (j_ino jn) (eq b2))
                     (fun p f => JI_open_create_any c (j_ino jn) (eq b2) p f))
                  Hb (conj S2 eq_refl) ltac:(congruence)) as (h2 & w3 & E3 & [S3 B3] & C3 & _).
      rewrite E3.
      exists h2, w3, (jl jn (w_clock w) (write_label c h pid path) pid path).
      split; [reflexivity|]. split; [exact S3|].
      split; [|split; [left; reflexivity | exact C3]].
      rewrite <- B3. unfold b2. rewrite (proj1 A), <- B1. reflexivity.
    + unfold write_tail. rewrite (SyncProofs.bind_some _ _ _ _ _ _ (is_ok_eq o w2)). rewrite Hn. unfold ret_.
      exists h1, w2, []. split; [reflexivity|]. rewrite F2.
      split; [exact S1|]. split; [cbn [concat]; rewrite app_nil_r; symmetry; exact B1|].
      split; [right; split; [reflexivity | exact Hn] | congruence].
  - exists h, w, []. unfold ret_. split; [reflexivity|]. split; [exact Hsep|].
    split; [cbn [concat]; rewrite app_nil_r; reflexivity|].
    split; [right; split; [reflexivity | exact Hok] | reflexivity].
Qed.

(* ====================================================================== *)
(* Part 2: the specification                                              *)
(* ====================================================================== *)

(* the time stamp / the lines of a labelled event under configuration c *)
Definition cstamp (c : config) (now : Z) : str :=
  expand_pattern (c_journal_pattern c) (dec (Z.to_N now)).

Definition cjl (c : config) (now : Z) (lbl : option str) (pid : N) (path : str) : list str :=
  match lbl with
  | Some l => [journal_line (cstamp c now) l pid path]
  | None => []
  end.

(* a line of a pass: label stored / deleted / forbidden of c, no pid *)
Definition ctline (c : config) (now : Z) (l : str) : Prop :=
  exists lbl rel, lbl3 c (Some lbl) /\ l = journal_line (cstamp c now) lbl 0%N rel.

(* one `stored' line per head *)
Definition stored_lines (c : config) (cpl : nat) (now : Z) (es : list entry) : list str :=
  flat_map (fun e => cjl c now (c_ev_stored c) 0%N (rel_of cpl (e_path e))) es.

(* the pass finds a due prefix [es] of plain heads (the hypotheses of
   PassProofs.handle_timeout_plain_pass) *)
Definition plain_pass (h : handler) (w : world) (es : list entry) (rest : list qent) : Prop :=
  keys_nodup (w_fs w) /\
  QRel (h_q h) (w_fs w) (map qent_of es ++ rest) /\
  Forall (fun e => (q_deb (h_q h) <= w_clock w - e_time e)%Z) es /\
  last_writes es rest /\
  not_due (w_clock w) (q_deb (h_q h)) rest /\
  all_ok (h_cfg h) (h_cpl h) (h_journal h) (q_dir (h_q h)) (w_fs w) (w_clock w) es.

(* the head of the queue is younger than the debounce interval *)
Definition waiting_pass (h : handler) (w : world) : Prop :=
  exists p m t rest, QRel (h_q h) (w_fs w) ((p, m, t) :: rest) /\ (w_clock w - t < q_deb (h_q h))%Z.

(* the lines step [st] appends when it starts with handler h in world w under
   configuration c *)
Definition lines_of (c : config) (st : step) (h : handler) (w : world) (ls : list str) : Prop :=
  match st with
  | HExec pid path => ls = cjl c (w_clock w) (exec_label c path) pid path
  | HWrite pid path _ => ls = cjl c (w_clock w) (write_label c h pid path) pid path
  | HPass _ =>
      Forall (ctline c (w_clock w)) ls /\
      (forall es rest, plain_pass h w es rest ->
         concat ls = concat (stored_lines c (h_cpl h) (w_clock w) es)) /\
      (waiting_pass h w -> ls = [])
  | HEnv _ => ls = []
  end.

(* ... when a journal is held; an exec or write event may also end with an
   error and no line (the stamp does not fit): the daemon then stops *)
Definition entry_lines (c : config) (st : step) (h : handler) (w w1 : world) (ls : list str) : Prop :=
  match h_journal h with
  | None => ls = []
  | Some _ => lines_of c st h w ls \/ (ls = [] /\ okw w1 = false)
  end.

(* the log of a run: per step taken, the inode of the journal in force when
   the step began and the lines it appended *)
Definition jlog := list (option nat * list str).

Definition jfile (h : handler) : option nat := option_map j_ino (h_journal h).

(* The run of ReloadHistory.run, step by step.  [c] is the configuration in
   force according to the specification (next_cfg); the handler carries it
   and holds the journal opened for it (journal_of: held iff configured, with
   the stamp pattern of c). *)
Inductive rspec (o : oracle) (cp : option str) :
  config -> list step -> handler -> world -> handler -> world -> jlog -> Prop :=
| RS_nil c h w : rspec o cp c [] h w h w []
| RS_stop c st s h w : okw w = false -> rspec o cp c (st :: s) h w h w []
| RS_cons c st s h w h1 w1 h2 w2 ls log :
    okw w = true ->
    h_cfg h = c -> journal_of c (h_journal h) ->
    step_run st h o w = (Some h1, w1) ->
    entry_lines c st h w w1 ls ->
    rspec o cp (next_cfg cp c st) s h1 w1 h2 w2 log ->
    rspec o cp c (st :: s) h w h2 w2 ((jfile h, ls) :: log).

(* the lines the log attributes to file i, in order *)
Definition sel (i : nat) (oj : option nat) (ls : list str) : list str :=
  match oj with
  | Some j => if Nat.eqb j i then ls else []
  | None => []
  end.

Definition lines_for (i : nat) (log : jlog) : list str :=
  flat_map (fun e => sel i (fst e) (snd e)) log.

Lemma rspec_run o cp c s h w h' w' log :
  rspec o cp c s h w h' w' log -> run o s h w = (Some h', w').
Proof.
  induction 1 as [c h w|c st s h w K|c st s h w h1 w1 h2 w2 ls log K Ec Hj E Hl _ IH]; cbn [run].
  - reflexivity.
  - rewrite K. reflexivity.
  - rewrite K, E. exact IH.
Qed.

(* the configuration index of rspec is cfg_in_force *)
Lemma rspec_app_inv o cp s1 : forall c s2 h w h' w' log,
  rspec o cp c (s1 ++ s2) h w h' w' log ->
  exists h1 w1 log1 log2,
    rspec o cp c s1 h w h1 w1 log1 /\ log = log1 ++ log2 /\
    (rspec o cp (cfg_in_force cp c s1) s2 h1 w1 h' w' log2 \/
     (okw w1 = false /\ h' = h1 /\ w' = w1 /\ log2 = [])).
Proof.
  induction s1 as [|st s1 IH]; intros c s2 h w h' w' log H.
  - exists h, w, [], log. split; [constructor|]. split; [reflexivity|]. left. exact H.
  - cbn [app] in H. inversion H as [| ? ? ? ? ? K | ? ? ? ? ? h1 w1 ? ? ls lg K Ec Hj E Hl R]; subst.
    + exists h', w', [], []. split; [apply RS_stop; assumption|]. split; [reflexivity|]. right. auto.
    + destruct (IH _ _ _ _ _ _ _ R) as (hm & wm & l1 & l2 & R1 & -> & Hr).
      exists hm, wm, ((jfile h, ls) :: l1), l2. split; [econstructor; eauto|].
      split; [reflexivity|]. exact Hr.
Qed.

(* ====================================================================== *)
(* Part 3: the invariant, the side conditions, one step                   *)
(* ====================================================================== *)

(* T: the tracked journal files.  The handler agrees with its configuration
   (ReloadHistory.coherent); no name below the offset root in force leads to
   a tracked file (the separation hypothesis of JournalHistoryProofs: offset
   files are truncated and rewritten); the journal in force is tracked;
   every directory entry names an allocated inode. *)
Record Inv (T : list nat) (h : handler) (w : world) : Prop := {
  inv_coh : coherent h;
  inv_off : joff_ok (h_cfg h);
  inv_sep : forall i, In i T -> jsep (h_cfg h) i (w_fs w);
  inv_j : forall jn, h_journal h = Some jn -> In (j_ino jn) T;
  inv_wf : wf_lt (w_fs w)
}.

(* What is assumed when a rewrite of the configuration file brings the
   well-formed configuration n, in the world where the write event arrives:
   n keeps the project stores apart from its offset root; its offset root
   does not reach a tracked file; its journal path is not below its offset
   root and, if it names an existing file, that file is tracked. *)
Definition reload_pre (T : list nat) (n : config) (w : world) : Prop :=
  joff_ok n /\
  (forall i, In i T -> jsep n i (w_fs w)) /\
  (forall jp, c_journal_path n = Some jp ->
     ~ under (c_offset_root n) jp /\
     forall k, lookup (w_fs w) jp = Some (NFile k) -> In k T).

(* The environment may do anything but touch the tracked files, link them
   below the offset root, or corrupt the inode table. *)
Definition step_pre (T : list nat) (st : step) (h : handler) (w : world) : Prop :=
  match st with
  | HEnv w2 =>
      wf_lt (w_fs w2) /\
      forall i, In i T -> bytes w2 i = bytes w i /\ jsep (h_cfg h) i (w_fs w2)
  | HWrite _ path (Some n) => h_cfg_path h = Some path -> reload_pre T n w
  | _ => True
  end.

Definition memb (i : nat) (T : list nat) : bool := existsb (Nat.eqb i) T.

Lemma memb_In i T : memb i T = true <-> In i T.
Proof.
  unfold memb. rewrite existsb_exists. split.
  - intros [x [Hx E]]. apply Nat.eqb_eq in E. subst. exact Hx.
  - intros H. exists i. split; [exact H | apply Nat.eqb_refl].
Qed.

Lemma memb_false i T : memb i T = false <-> ~ In i T.
Proof. rewrite <- memb_In. destruct (memb i T); split; congruence. Qed.

(* the journal file of the handler joins the tracked files *)
Definition grow (T : list nat) (h : handler) : list nat :=
  match h_journal h with
  | Some jn => if memb (j_ino jn) T then T else j_ino jn :: T
  | None => T
  end.

Lemma grow_incl T h : incl T (grow T h).
Proof.
  unfold grow. destruct (h_journal h) as [jn|]; [|apply incl_refl].
  destruct (memb (j_ino jn) T); [apply incl_refl | apply incl_tl, incl_refl].
Qed.

Lemma grow_same T h : (forall jn, h_journal h = Some jn -> In (j_ino jn) T) -> grow T h = T.
Proof.
  intros H. unfold grow. destruct (h_journal h) as [jn|]; [|reflexivity].
  rewrite (proj2 (memb_In _ _) (H jn eq_refl)). reflexivity.
Qed.

Lemma grow_j T h jn : h_journal h = Some jn -> In (j_ino jn) (grow T h).
Proof.
  intros E. unfold grow. rewrite E. destruct (memb (j_ino jn) T) eqn:M.
  - apply memb_In. exact M.
  - left. reflexivity.
Qed.

(* the side conditions along the run *)
Fixpoint pre_along (o : oracle) (T : list nat) (s : list step) (h : handler) (w : world) : Prop :=
  match s with
  | [] => True
  | st :: s' =>
      okw w = true ->
      step_pre T st h w /\
      match step_run st h o w with
      | (Some h1, w1) => pre_along o (grow T h1) s' h1 w1
      | (None, _) => True
      end
  end.

(* ---------- small facts ---------- *)

Lemma cjl_jl c jn now lbl pid path :
  j_pattern jn = c_journal_pattern c -> jl jn now lbl pid path = cjl c now lbl pid path.
Proof. intros E. unfold jl, cjl, stamp, cstamp. rewrite E. reflexivity. Qed.

Lemma ctline_tline c jn now l :
  j_pattern jn = c_journal_pattern c -> tline c jn now l -> ctline c now l.
Proof. intros E (lbl & rel & H1 & H2). exists lbl, rel. unfold cstamp. rewrite <- E. split; assumption. Qed.

Lemma stored_pass_lines c cpl jn now es :
  j_pattern jn = c_journal_pattern c -> pass_lines c cpl jn now es = stored_lines c cpl now es.
Proof.
  intros E. unfold pass_lines, stored_lines. induction es as [|e es IH]; [reflexivity|].
  cbn [flat_map]. rewrite IH, (cjl_jl c jn now _ _ _ E). reflexivity.
Qed.

Lemma ctlines_concat_nil c now ls : Forall (ctline c now) ls -> concat ls = [] -> ls = [].
Proof.
  intros H E. destruct ls as [|l ls]; [reflexivity|]. exfalso.
  inversion H as [|? ? (lbl & rel & _ & El) _]; subst.
  cbn [concat] in E. apply app_eq_nil in E. destruct E as [E _].
  exact (journal_line_nonempty _ _ _ _ E).
Qed.

Lemma coherent_pattern h jn : coherent h -> h_journal h = Some jn -> j_pattern jn = c_journal_pattern (h_cfg h).
Proof. intros (_ & _ & _ & H) E. exact (H jn E). Qed.

Lemma HJ_intro h jn : h_journal h = Some jn -> HJ (h_cfg h) jn (h_cfg_path h) h.
Proof. intros E. split; [reflexivity|]. split; [exact E | reflexivity]. Qed.

Lemma sel_same i ls : sel i (Some i) ls = ls.
Proof. unfold sel. rewrite Nat.eqb_refl. reflexivity. Qed.

Lemma sel_other i j ls : j <> i -> sel i (Some j) ls = [].
Proof. intros H. unfold sel. destruct (Nat.eqb_spec j i); [contradiction | reflexivity]. Qed.

Lemma pass_world rev h o w :
  w_fs (snd (step_run (HPass rev) h o w)) = w_fs (snd (handle_timeout rev h o w)).
Proof.
  cbn [step_run]. unfold bind. destruct (handle_timeout rev h o w) as [[r|] w1]; reflexivity.
Qed.

(* the world after a step of the daemon keeps the files that are not the
   journal in force, the separation and the inode table: EVERY oracle *)
Lemma step_frame (o : oracle) st h w h1 w1 i :
  (forall w2, st <> HEnv w2) ->
  step_run st h o w = (Some h1, w1) ->
  joff_ok (h_cfg h) ->
  (wf_lt (w_fs w) -> wf_lt (w_fs w1)) /\
  (journal_off (h_journal h) i -> jsep (h_cfg h) i (w_fs w) ->
   jsep (h_cfg h) i (w_fs w1) /\ bytes w1 i = bytes w i).
Proof.
  intros Hne E HC.
  assert (X : forall (P : fs -> Prop),
             (forall pid path nc rev,
                P (w_fs (snd (handle_open_exec pid path h o w))) /\
                P (w_fs (snd (handle_close_write pid path nc h o w))) /\
                P (w_fs (snd (handle_timeout rev h o w)))) -> P (w_fs w1)).
  { intros P HP. destruct st as [pid path nc|pid path|rev|w2].
    - destruct (HP pid path nc false) as (_ & H & _). cbn [step_run] in E. rewrite E in H. exact H.
    - destruct (HP pid path None false) as (H & _ & _). cbn [step_run] in E. rewrite E in H. exact H.
    - destruct (HP 0%N [] None rev) as (_ & _ & H). rewrite <- pass_world, E in H. exact H.
    - exfalso. exact (Hne w2 eq_refl). }
  split.
  - intros Hw. apply (X wf_lt). intros. apply step_keeps_wf; assumption.
  - intros Hoff Hs.
    assert (H : JI (h_cfg h) i (eq (bytes w i)) (w_fs w1)).
    { apply (X (JI (h_cfg h) i (eq (bytes w i)))). intros.
      apply step_keeps_other_file; [exact HC | exact Hoff | split; [exact Hs | reflexivity]]. }
    destruct H as [H1 H2]. split; [exact H1 | symmetry; exact H2].
Qed.

(* ---------- the journal in force, step by step (benign oracle) ---------- *)

Lemma exec_step_journal o pid path h w jn :
  benign o -> coherent h -> h_journal h = Some jn -> jsep (h_cfg h) (j_ino jn) (w_fs w) ->
  exists h1 w1 ls,
    step_run (HExec pid path) h o w = (Some h1, w1) /\
    jsep (h_cfg h) (j_ino jn) (w_fs w1) /\
    bytes w1 (j_ino jn) = bytes w (j_ino jn) ++ concat ls /\
    entry_lines (h_cfg h) (HExec pid path) h w w1 ls.
Proof.
  intros Hb Hc Ej Hsep.
  pose proof (coherent_pattern h jn Hc Ej) as Epat.
  destruct (exec_benign o w pid path h (h_cfg h) jn (h_cfg_path h) Hb (HJ_intro h jn Ej) Hsep)
    as (h1 & w1 & ls & E & _ & S1 & B1 & Sp).
  exists h1, w1, ls. split; [exact E|]. split; [exact S1|]. split; [exact B1|].
  unfold entry_lines. rewrite Ej. cbn [ev_spec] in Sp. cbn [lines_of].
  destruct Sp as [->|[-> Hn]]; [left; apply cjl_jl; exact Epat | right; split; [reflexivity | exact Hn]].
Qed.

Lemma pass_step_journal o rev h w jn :
  benign o -> okw w = true -> coherent h -> joff_ok (h_cfg h) ->
  h_journal h = Some jn -> jsep (h_cfg h) (j_ino jn) (w_fs w) ->
  exists h1 w1 ls,
    step_run (HPass rev) h o w = (Some h1, w1) /\
    jsep (h_cfg h) (j_ino jn) (w_fs w1) /\
    bytes w1 (j_ino jn) = bytes w (j_ino jn) ++ concat ls /\
    entry_lines (h_cfg h) (HPass rev) h w w1 ls.
Proof.
  intros Hb K Hc HC Ej Hsep.
  pose proof (coherent_pattern h jn Hc Ej) as Epat.
  destruct (timeout_benign o w rev h (h_cfg h) jn (h_cfg_path h) Hb HC (HJ_intro h jn Ej) Hsep)
    as (h1 & w1 & ls & E & _ & S1 & B1 & Sp).
  exists h1, w1, ls. split; [exact E|]. split; [exact S1|]. split; [exact B1|].
  unfold entry_lines. rewrite Ej. left. cbn [ev_spec] in Sp. cbn [lines_of].
  assert (Hct : Forall (ctline (h_cfg h) (w_clock w)) ls).
  { eapply Forall_impl; [|exact Sp]. intros l. apply ctline_tline. exact Epat. }
  split; [exact Hct|]. split.
  - intros es rest (Hnd & HR & Hdue & Hlast & Hstop & Hall).
    destruct (timeout_plain_pass_lines o rev es rest h w jn Hb Ej K Hnd HR Hdue Hlast Hstop Hall)
      as (w' & E' & B' & _).
    rewrite E in E'. injection E' as _ <-.
    unfold bytes in B1. rewrite B1 in B'. apply app_inv_head in B'.
    rewrite B'. rewrite (stored_pass_lines _ _ _ _ _ Epat). reflexivity.
  - intros (p & m & t & rest & HR & Hy).
    destruct (handle_timeout_not_due o w h rev p m t rest Hb K HR Hy) as (w' & E' & F' & _).
    cbn [jstep] in E. rewrite (SyncProofs.bind_some _ _ _ _ _ _ E') in E. unfold ret_ in E.
    injection E as _ <-.
    unfold bytes in B1. rewrite F' in B1.
    apply (ctlines_concat_nil _ _ _ Hct).
    rewrite <- (app_nil_r (f_bytes (get_file (w_fs w) (j_ino jn)))) in B1 at 1.
    apply app_inv_head in B1. symmetry. exact B1.
Qed.

Lemma write_step_journal o pid path nc h w jn :
  benign o -> coherent h -> h_journal h = Some jn -> jsep (h_cfg h) (j_ino jn) (w_fs w) ->
  exists h1 w1 ls,
    step_run (HWrite pid path nc) h o w = (Some h1, w1) /\
    jsep (h_cfg h) (j_ino jn) (w_fs w1) /\
    bytes w1 (j_ino jn) = bytes w (j_ino jn) ++ concat ls /\
    entry_lines (h_cfg h) (HWrite pid path nc) h w w1 ls.
Proof.
  intros Hb Hc Ej Hsep.
  pose proof (coherent_pattern h jn Hc Ej) as Epat.
  destruct (close_write_benign o w pid path nc h (h_cfg h) jn (h_cfg_path h) Hb (HJ_intro h jn Ej) Hsep)
    as (h1 & w1 & ls & E & S1 & B1 & Sp & _).
  exists h1, w1, ls. split; [exact E|]. split; [exact S1|]. split; [exact B1|].
  unfold entry_lines. rewrite Ej. cbn [lines_of].
  destruct Sp as [->|[-> Hn]]; [left; apply cjl_jl; exact Epat | right; split; [reflexivity | exact Hn]].
Qed.

(* ---------- the journal file a reload switches to ---------- *)

Section NewJournal.
Variables (T : list nat) (n : config) (jp : str).
Hypothesis Hjp : ~ under (c_offset_root n) jp.

(* whatever file the new journal path names is separated from the offset
   root of n, and it is a tracked file or an empty one *)
Definition PN (f : fs) : Prop :=
  wf_lt f /\
  forall k, lookup f jp = Some (NFile k) ->
    jsep n k f /\ (In k T \/ f_bytes (get_file f k) = []).

Lemma PN_add : cl_add PN.
Proof.
  intros f p nd Hnd [Hw H]. split; [apply wf_add; assumption|].
  intros k Hk. apply lookup_add_inv in Hk. destruct Hk as [Hk|[_ E]]; [|exfalso; exact (Hnd k (eq_sym E))].
  destruct (H k Hk) as [Hs Hb]. split; [|exact Hb].
  exact (proj1 (JI_cl_add n k (fun _ => True) f p nd Hnd (conj Hs I))).
Qed.

Lemma PN_open p f : PN f -> PN (snd (fs_open_create p f)).
Proof.
  intros [Hw H]. unfold fs_open_create, fs_create_excl.
  destruct (lookup f p) as [[|k0|tg m]|] eqn:El; cbn [snd]; try (split; assumption).
  destruct (parent_is_dir f p); cbn [snd]; [split; assumption|].
  change (mkFs (fs_dents f ++ [(p, NFile (fs_next f))]) ((fs_next f, mkFile [] true) :: fs_files f) (S (fs_next f)))
    with (SyncProofs.created p f).
  split; [apply wf_created; exact Hw|].
  intros k Hk.
  change (lookup (SyncProofs.created p f) jp) with (lookup (add_dent p (NFile (fs_next f)) f) jp) in Hk.
  apply lookup_add_inv in Hk. destruct Hk as [Hk|[Ep E]].
  - destruct (H k Hk) as [Hs Hb]. split.
    + exact (proj1 (JI_created n k (fun _ => True) p f (conj Hs I))).
    + rewrite get_file_created_other; [exact Hb|]. destruct Hs as [Hlt _]. lia.
  - inversion E; subst k p. split.
    + split; [cbn [SyncProofs.created fs_next]; lia|].
      intros q Hq. destruct (dent_created _ _ _ _ Hq) as [A|[-> _]]; [|exact Hjp].
      exfalso. specialize (Hw q _ A). lia.
    + right. rewrite get_file_created_new. reflexivity.
Qed.

Lemma PN_append k b f : In k T -> PN f -> PN (fs_append k b f).
Proof.
  intros Hk [Hw H]. unfold fs_append. split; [apply wf_set_file; exact Hw|].
  intros k0 Hk0. rewrite lookup_set_file in Hk0. destruct (H k0 Hk0) as [Hs Hb].
  split; [exact Hs|].
  destruct Hb as [Hb|Hb]; [left; exact Hb|].
  destruct (Nat.eq_dec k0 k) as [->|Hne]; [left; exact Hk|].
  right. rewrite get_set_other by exact Hne. exact Hb.
Qed.

(* EVERY oracle *)
Lemma close_write_keeps_PN (o : oracle) w h pid path nc :
  (forall jn, h_journal h = Some jn -> In (j_ino jn) T) ->
  PN (w_fs w) -> PN (w_fs (snd (handle_close_write pid path nc h o w))).
Proof.
  intros Hj Hp.
  apply (jok_run oc_all (w_clock w)); [|exact I|exact Hp|reflexivity].
  apply (gjok_handle_close_write _ _ (h_journal h)); [exact PN_add| |exact PN_open|reflexivity].
  intros ev pid' path'. apply (gjok_note _ _ PN (fun k => In k T)); [|exact Hj].
  intros k b f Hk Hf. apply PN_append; assumption.
Qed.

End NewJournal.

(* ---------- the daemon's steps return under a benign oracle ---------- *)

Lemma step_returns o st h w :
  benign o -> joff_ok (h_cfg h) -> exists h1 w1, step_run st h o w = (Some h1, w1).
Proof.
  intros Hb HC.
  set (P := fun _ : fs => True).
  assert (Hn : forall ev pid path, jok oc_benign (w_clock w) P (note ev pid path (h_journal h))).
  { intros. apply (gjok_note _ _ P (fun _ => True)); [intros; exact I | intros; exact I]. }
  assert (Ha : cl_add P) by (intros f p n _ _; exact I).
  destruct st as [pid path nc|pid path|rev|w2].
  - destruct (jt_benign_run (w_clock w) P (fun _ => True) (handle_close_write pid path nc h) o w) as (a & w1 & E & _);
      [|exact Hb|exact I|reflexivity|exists a, w1; exact E].
    apply (gjok_handle_close_write _ _ (h_journal h)); [exact Ha|exact Hn|intros; exact I|reflexivity].
  - destruct (jt_benign_run (w_clock w) P (fun _ => True) (handle_open_exec pid path h) o w) as (a & w1 & E & _);
      [|exact Hb|exact I|reflexivity|exists a, w1; exact E].
    apply (gjok_handle_open_exec _ _ (h_journal h)); [exact Hn|reflexivity].
  - destruct (jt_benign_run (w_clock w) P (fun _ => True) (handle_timeout rev h) o w) as (a & w1 & E & _);
      [|exact Hb|exact I|reflexivity|].
    + apply (gjok_handle_timeout oc_benign (w_clock w) (h_cfg h) (h_journal h) P (fun _ => False) HC).
      * exact Ha.
      * intros; exact I.
      * intros; exact I.
      * intros; split; [exact I|intros ? ? F; exact F].
      * intros; split; [exact I|intros ? ? F; exact F].
      * intros; exact I.
      * intros; exact I.
      * intros; exact I.
      * exact Hn.
      * split; reflexivity.
    + exists (snd a), w1. cbn [step_run]. rewrite (SyncProofs.bind_some _ _ _ _ _ _ E). reflexivity.
  - exists h, w2. reflexivity.
Qed.

Lemma sel_nil i oj : sel i oj [] = [].
Proof. destruct oj as [j|]; [|reflexivity]. unfold sel. destruct (Nat.eqb j i); reflexivity. Qed.

(* ---------- one step of the daemon: the tracked files ---------- *)

Lemma step_tracked o T st h w :
  benign o -> okw w = true -> Inv T h w -> (forall w2, st <> HEnv w2) ->
  exists h1 w1 ls,
    step_run st h o w = (Some h1, w1) /\
    entry_lines (h_cfg h) st h w w1 ls /\
    wf_lt (w_fs w1) /\
    forall i, In i T ->
      jsep (h_cfg h) i (w_fs w1) /\ bytes w1 i = bytes w i ++ concat (sel i (jfile h) ls).
Proof.
  intros Hb K [Hc HC Hsep Hj Hw] Hne.
  destruct (h_journal h) as [jn|] eqn:Ej.
  - assert (X : exists h1 w1 ls,
               step_run st h o w = (Some h1, w1) /\
               jsep (h_cfg h) (j_ino jn) (w_fs w1) /\
               bytes w1 (j_ino jn) = bytes w (j_ino jn) ++ concat ls /\
               entry_lines (h_cfg h) st h w w1 ls).
    { pose proof (Hsep _ (Hj jn eq_refl)) as Hs.
      destruct st as [pid path nc|pid path|rev|w2].
      - apply write_step_journal; assumption.
      - apply exec_step_journal; assumption.
      - apply pass_step_journal; assumption.
      - exfalso. exact (Hne w2 eq_refl). }
    destruct X as (h1 & w1 & ls & E & S1 & B1 & EL).
    exists h1, w1, ls. split; [exact E|]. split; [exact EL|].
    split; [exact (proj1 (step_frame o st h w h1 w1 0 Hne E HC) Hw)|].
    intros i Hi. unfold jfile. rewrite Ej. cbn [option_map].
    destruct (Nat.eq_dec (j_ino jn) i) as [<-|Hd].
    + rewrite sel_same. split; assumption.
    + rewrite (sel_other _ _ _ Hd). cbn [concat]. rewrite app_nil_r.
      apply (proj2 (step_frame o st h w h1 w1 i Hne E HC)); [|exact (Hsep i Hi)].
      intros jn' Ejn'. rewrite Ej in Ejn'. injection Ejn' as <-. exact Hd.
  - destruct (step_returns o st h w Hb HC) as (h1 & w1 & E).
    exists h1, w1, []. split; [exact E|].
    split; [unfold entry_lines; rewrite Ej; reflexivity|].
    split; [exact (proj1 (step_frame o st h w h1 w1 0 Hne E HC) Hw)|].
    intros i Hi. rewrite sel_nil. cbn [concat]. rewrite app_nil_r.
    apply (proj2 (step_frame o st h w h1 w1 i Hne E HC)); [|exact (Hsep i Hi)].
    intros jn' Ejn'. rewrite Ej in Ejn'. discriminate.
Qed.

Lemma formula_same T h w w1 ls T1 :
  T1 = T ->
  (forall i, In i T -> bytes w1 i = bytes w i ++ concat (sel i (jfile h) ls)) ->
  forall i, In i T1 ->
    bytes w1 i = (if memb i T then bytes w i else []) ++ concat (sel i (jfile h) ls).
Proof. intros -> H i Hi. rewrite (proj2 (memb_In i T) Hi). exact (H i Hi). Qed.

Lemma same_cfg_journal h h1 : same_cfg h h1 -> h_journal h1 = h_journal h.
Proof. intros (_ & _ & _ & E & _). exact E. Qed.

Lemma Inv_same T h w h1 w1 :
  same_cfg h h1 -> Inv T h w -> wf_lt (w_fs w1) ->
  (forall i, In i T -> jsep (h_cfg h) i (w_fs w1)) -> Inv T h1 w1.
Proof.
  intros S [Hc HC Hsep Hj Hw] Hw1 Hs1. pose proof S as (E1 & _ & _ & E4 & _).
  constructor.
  - exact (coherent_same_cfg _ _ S Hc).
  - rewrite E1. exact HC.
  - rewrite E1. exact Hs1.
  - rewrite E4. exact Hj.
  - exact Hw1.
Qed.

Lemma finish_same T h w h1 w1 ls :
  Inv T h w -> wf_lt (w_fs w1) ->
  (forall i, In i T ->
     jsep (h_cfg h) i (w_fs w1) /\ bytes w1 i = bytes w i ++ concat (sel i (jfile h) ls)) ->
  same_cfg h h1 ->
  (okw w1 = true -> Inv (grow T h1) h1 w1) /\
  (forall i, In i (grow T h1) ->
     bytes w1 i = (if memb i T then bytes w i else []) ++ concat (sel i (jfile h) ls)).
Proof.
  intros HI Hw1 HT S. pose proof HI as [Hc HC Hsep Hj Hw].
  assert (G : grow T h1 = T)
    by (apply grow_same; intros jn Ejn; apply Hj; rewrite <- (same_cfg_journal _ _ S); exact Ejn).
  split.
  - intros _. rewrite G. apply (Inv_same T h w h1 w1 S HI Hw1). intros i Hi. apply (HT i Hi).
  - apply formula_same; [exact G | intros i Hi; apply (HT i Hi)].
Qed.

(* ONE STEP.  Benign oracle, error-free world, invariant, side condition of
   the step: the step returns; the lines it appends to the journal in force
   are those of [entry_lines] for the configuration in force; every other
   tracked file keeps its bytes; a journal file created by the step is empty;
   the invariant holds again (for the tracked files grown by the journal now
   in force) unless the step left an error. *)
Theorem step_journal o T st h w :
  benign o -> okw w = true -> Inv T h w -> step_pre T st h w ->
  exists h1 w1 ls,
    step_run st h o w = (Some h1, w1) /\
    entry_lines (h_cfg h) st h w w1 ls /\
    (okw w1 = true -> Inv (grow T h1) h1 w1) /\
    (forall i, In i (grow T h1) ->
       bytes w1 i = (if memb i T then bytes w i else []) ++ concat (sel i (jfile h) ls)).
Proof.
  intros Hb K HI Hpre. pose proof HI as [Hc HC Hsep Hj Hw].
  destruct st as [pid path nc|pid path|rev|w2].
  4:{ (* the environment *)
      destruct Hpre as [Hw2 Hk].
      exists h, w2, []. split; [reflexivity|].
      split; [unfold entry_lines; destruct (h_journal h); [left|]; reflexivity|].
      assert (G : grow T h = T) by (apply grow_same; exact Hj).
      split.
      - intros _. rewrite G. constructor; auto. intros i Hi. apply (Hk i Hi).
      - apply formula_same; [exact G|]. intros i Hi. rewrite sel_nil. cbn [concat]. rewrite app_nil_r.
        apply (Hk i Hi). }
  - (* write *)
    destruct (step_tracked o T (HWrite pid path nc) h w Hb K HI) as (h1 & w1 & ls & E & EL & Hw1 & HT);
      [intros w2; discriminate|].
    exists h1, w1, ls. split; [exact E|]. split; [exact EL|].
    pose proof (finish_same T h w h1 w1 ls HI Hw1 HT) as Fsame.
    cbn [step_run] in E.
    destruct (step_config o w (HWrite pid path nc) h h1 w1 E Hc) as (P1 & P2 & Hc1 & Pok & Pbad).
    destruct (okw w1) eqn:K1; [|apply Fsame; exact (Pbad eq_refl)].
    specialize (Pok eq_refl). clear Pbad.
    destruct (h_cfg_path h) as [cp|] eqn:Ecp.
    2:{ apply Fsame. apply (rv_close_write_other pid path nc h) in E; [exact E | rewrite Ecp; discriminate]. }
    destruct (str_eqb_spec path cp) as [->|Hne].
    2:{ apply Fsame. apply (rv_close_write_other pid path nc h) in E; [exact E | rewrite Ecp; congruence]. }
    destruct nc as [n|].
    2:{ exfalso. destruct (rejected_malformed o w pid cp h h1 w1 Ecp E) as [Kbad _].
        unfold okw in *. congruence. }
    (* a well-formed configuration put in force *)
    clear Fsame. cbn [step_pre] in Hpre. rewrite Ecp in Hpre. destruct (Hpre eq_refl) as (HCn & Hsepn & Hjpn).
    assert (Ecfg : h_cfg h1 = n) by (rewrite Pok; cbn [next_cfg]; rewrite str_eqb_refl; reflexivity).
    assert (Hsn : forall i, In i T -> jsep n i (w_fs w1)).
    { intros i Hi. pose proof (close_write_keeps_sep o w h n i pid cp (Some n) (Hsepn i Hi)) as X.
      rewrite E in X. exact X. }
    destruct (h_journal h1) as [jn'|] eqn:Ej'.
    2:{ assert (G : grow T h1 = T) by (unfold grow; rewrite Ej'; reflexivity).
        split.
        - intros _. rewrite G. constructor; [exact Hc1|rewrite Ecfg; exact HCn|rewrite Ecfg; exact Hsn| |exact Hw1].
          intros jn Ejn. rewrite Ej' in Ejn. discriminate.
        - apply formula_same; [exact G | intros i Hi; apply (HT i Hi)]. }
    pose proof Hc1 as (_ & _ & Hiff & _). rewrite Ecfg, Ej' in Hiff.
    destruct (c_journal_path n) as [jp|] eqn:Ejp.
    2:{ exfalso. destruct Hiff as [_ X]. specialize (X eq_refl). discriminate. }
    destruct (Hjpn jp eq_refl) as (Hnu & Hex).
    destruct (config_write_journal o w h pid cp n h1 w1 Ecp E K1) as (_ & _ & Hlk).
    destruct (Hlk jp jn' Ejp Ej') as [Hlk1 _].
    assert (HPN : PN T n jp (w_fs w1)).
    { pose proof (close_write_keeps_PN T n jp Hnu o w h pid cp (Some n) Hj) as X.
      rewrite E in X. apply X. split; [exact Hw|].
      intros k Hk. split; [apply Hsepn; apply Hex; exact Hk | left; apply Hex; exact Hk]. }
    destruct HPN as [_ HPN]. destruct (HPN _ Hlk1) as [Hsk Hbk].
    unfold grow. rewrite Ej'. destruct (memb (j_ino jn') T) eqn:M.
    + split.
      * intros _. constructor; [exact Hc1|rewrite Ecfg; exact HCn|rewrite Ecfg; exact Hsn| |exact Hw1].
        intros jn Ejn. rewrite Ej' in Ejn. injection Ejn as <-. apply memb_In. exact M.
      * apply formula_same; [reflexivity | intros i Hi; apply (HT i Hi)].
    + split.
      * intros _. constructor; [exact Hc1|rewrite Ecfg; exact HCn| | |exact Hw1].
        -- rewrite Ecfg. intros i [<-|Hi]; [exact Hsk | apply Hsn; exact Hi].
        -- intros jn Ejn. rewrite Ej' in Ejn. injection Ejn as <-. left. reflexivity.
      * intros i [<-|Hi].
        -- rewrite M. cbn [app].
           destruct Hbk as [Hin|Hb0]; [apply memb_In in Hin; congruence|].
           unfold bytes. rewrite Hb0.
           unfold jfile. destruct (h_journal h) as [jn|] eqn:Ej; cbn [option_map]; [|reflexivity].
           rewrite sel_other; [reflexivity|].
           intros Heq. apply memb_false in M. apply M. rewrite <- Heq. apply Hj. reflexivity.
        -- rewrite (proj2 (memb_In i T) Hi). apply (HT i Hi).
  - (* exec *)
    destruct (step_tracked o T (HExec pid path) h w Hb K HI) as (h1 & w1 & ls & E & EL & Hw1 & HT);
      [intros w2; discriminate|].
    exists h1, w1, ls. split; [exact E|]. split; [exact EL|].
    apply (finish_same T h w h1 w1 ls HI Hw1 HT). cbn [step_run] in E. exact (proj1 (rv_handle_open_exec pid path h _ _ _ _ E)).
  - (* pass *)
    destruct (step_tracked o T (HPass rev) h w Hb K HI) as (h1 & w1 & ls & E & EL & Hw1 & HT);
      [intros w2; discriminate|].
    exists h1, w1, ls. split; [exact E|]. split; [exact EL|].
    apply (finish_same T h w h1 w1 ls HI Hw1 HT). cbn [step_run] in E.
    binv E as r wr Er. apply ret_some in E. destruct E as [_ ->].
    exact (rv_handle_timeout rev h _ _ _ _ Er).
Qed.
Print Assumptions close_write_benign.
Print Assumptions step_journal.

(* ====================================================================== *)
(* Part 4: whole histories                                                *)
(* ====================================================================== *)

Lemma jfile_some h i : jfile h = Some i -> exists jn, h_journal h = Some jn /\ j_ino jn = i.
Proof.
  unfold jfile. destruct (h_journal h) as [jn|]; cbn [option_map]; [|discriminate].
  intros E. injection E as <-. exists jn. split; reflexivity.
Qed.

Lemma sel_untracked T h i ls :
  (forall jn, h_journal h = Some jn -> In (j_ino jn) T) -> ~ In i T -> sel i (jfile h) ls = [].
Proof.
  intros Hj Hi. destruct (jfile h) as [j|] eqn:E; [|reflexivity].
  destruct (jfile_some h j E) as (jn & Ej & <-).
  apply sel_other. intros Heq. apply Hi. rewrite <- Heq. exact (Hj jn Ej).
Qed.

Lemma lines_for_cons i e log : lines_for i (e :: log) = sel i (fst e) (snd e) ++ lines_for i log.
Proof. reflexivity. Qed.

(* JOURNAL_HISTORY_WITH_RELOADS.  For every benign oracle (no failed call, no
   crash; every write and sendfile cut into arbitrary positive pieces), every
   history of steps -- writes (of ordinary files, of the configuration file
   with a well-formed or a malformed content), execs, passes, moves of the
   environment -- started from a state that satisfies [Inv] for the tracked
   files T, with the side conditions [pre_along]:
     - the run returns, and [rspec] describes it: step k is taken under the
       configuration cfg_in_force of the first k steps, by a handler that
       holds the journal opened for that configuration, and appends the lines
       [lines_of] built from the labels and the stamp pattern of THAT
       configuration to the journal file then in force;
     - T has grown to T' by the journal files created by reloads; every
       journal file that was in force at some step is in T';
     - the bytes of every file i of T' are, at the end: its bytes at the
       start (nothing if the file was created by a reload), then the
       concatenation, in order, of the lines of exactly the steps during which
       i was the journal in force.  Nothing else ever gets into a tracked
       file and nothing is ever removed from it. *)
Theorem journal_history_with_reloads (o : oracle) : forall s T h0 w0,
  benign o -> Inv T h0 w0 -> pre_along o T s h0 w0 ->
  exists h w log T',
    run o s h0 w0 = (Some h, w) /\
    rspec o (h_cfg_path h0) (h_cfg h0) s h0 w0 h w log /\
    incl T T' /\
    (okw w = true -> Inv T' h w) /\
    (forall i ls, In (Some i, ls) log -> In i T') /\
    (forall i, In i T' ->
       bytes w i = (if memb i T then bytes w0 i else []) ++ concat (lines_for i log)).
Proof.
  intros s. induction s as [|st s IH]; intros T h0 w0 Hb HI Hpre.
  - exists h0, w0, [], T. split; [reflexivity|]. split; [constructor|]. split; [apply incl_refl|].
    split; [intros _; exact HI|]. split; [intros i ls []|].
    intros i Hi. rewrite (proj2 (memb_In i T) Hi). cbn [lines_for flat_map concat]. rewrite app_nil_r. reflexivity.
  - destruct (okw w0) eqn:K.
    2:{ exists h0, w0, [], T. split; [cbn [run]; rewrite K; reflexivity|].
        split; [apply RS_stop; exact K|]. split; [apply incl_refl|].
        split; [intros X; congruence|]. split; [intros i ls []|].
        intros i Hi. rewrite (proj2 (memb_In i T) Hi). cbn [lines_for flat_map concat]. rewrite app_nil_r. reflexivity. }
    cbn [pre_along] in Hpre. destruct (Hpre K) as [Hst Hrest].
    destruct (step_journal o T st h0 w0 Hb K HI Hst) as (h1 & w1 & ls & E & EL & HI1 & F1).
    rewrite E in Hrest.
    pose proof HI as [Hc HC Hsep Hj Hw].
    destruct (step_config o w0 st h0 h1 w1 E Hc) as (P1 & _ & _ & Pok & _).
    assert (Hjo : journal_of (h_cfg h0) (h_journal h0)) by (destruct Hc as (_ & _ & X); exact X).
    assert (Hhead : forall i ls', (Some i, ls') = (jfile h0, ls) -> In i T).
    { intros i ls' X. injection X as X _. symmetry in X.
      destruct (jfile_some h0 i X) as (jn & Ej & <-). exact (Hj jn Ej). }
    destruct (okw w1) eqn:K1.
    + destruct (IH (grow T h1) h1 w1 Hb (HI1 eq_refl) Hrest) as (h & w & log & T' & R & RS & Incl & HI' & Hlog & F).
      exists h, w, ((jfile h0, ls) :: log), T'.
      split; [cbn [run]; rewrite K, E; exact R|].
      split.
      { apply (RS_cons o (h_cfg_path h0) (h_cfg h0) st s h0 w0 h1 w1 h w ls log K eq_refl Hjo E EL).
        rewrite <- (Pok eq_refl), <- P1. exact RS. }
      assert (Incl0 : incl T T') by (eapply incl_tran; [apply grow_incl | exact Incl]).
      split; [exact Incl0|]. split; [exact HI'|].
      split.
      { intros i ls' [X|X]; [apply Incl0; exact (Hhead i ls' (eq_sym X)) | exact (Hlog i ls' X)]. }
      intros i Hi. rewrite (F i Hi), lines_for_cons, concat_app. cbn [fst snd].
      destruct (memb i (grow T h1)) eqn:M.
      * apply memb_In in M. rewrite (F1 i M), <- app_assoc. reflexivity.
      * apply memb_false in M.
        assert (Hn : ~ In i T) by (intros X; apply M; apply grow_incl; exact X).
        rewrite (proj2 (memb_false i T) Hn), (sel_untracked T h0 i ls Hj Hn). reflexivity.
    + exists h1, w1, [(jfile h0, ls)], (grow T h1).
      split; [cbn [run]; rewrite K, E; apply run_not_ok; exact K1|].
      split.
      { apply (RS_cons o (h_cfg_path h0) (h_cfg h0) st s h0 w0 h1 w1 h1 w1 ls [] K eq_refl Hjo E EL).
        destruct s; [apply RS_nil | apply RS_stop; exact K1]. }
      split; [apply grow_incl|]. split; [intros X; congruence|].
      split.
      { intros i ls' [X|[]]. apply grow_incl. exact (Hhead i ls' (eq_sym X)). }
      intros i Hi. rewrite (F1 i Hi), lines_for_cons. cbn [fst snd lines_for flat_map]. rewrite app_nil_r. reflexivity.
Qed.
Print Assumptions journal_history_with_reloads.

(* ---------- consequences ---------- *)

(* append-only: the bytes at the start stay in front, whatever the history *)
Corollary journal_files_append_only (o : oracle) s T h0 w0 :
  benign o -> Inv T h0 w0 -> pre_along o T s h0 w0 ->
  forall i, In i T ->
    exists t, bytes (snd (run o s h0 w0)) i = bytes w0 i ++ t.
Proof.
  intros Hb HI Hpre i Hi.
  destruct (journal_history_with_reloads o s T h0 w0 Hb HI Hpre) as (h & w & log & T' & R & _ & Incl & _ & _ & F).
  rewrite R. cbn [snd]. exists (concat (lines_for i log)).
  rewrite (F i (Incl i Hi)), (proj2 (memb_In i T) Hi). reflexivity.
Qed.

(* a run that ended without an error: every step was taken from and left an
   error-free world, and every exec / write step has exactly its line *)
Inductive rexact (o : oracle) (cp : option str) :
  config -> list step -> handler -> world -> jlog -> Prop :=
| RE_nil c h w : rexact o cp c [] h w []
| RE_cons c st s h w h1 w1 ls log :
    okw w = true ->
    h_cfg h = c -> journal_of c (h_journal h) ->
    step_run st h o w = (Some h1, w1) -> okw w1 = true ->
    match h_journal h with None => ls = [] | Some _ => lines_of c st h w ls end ->
    rexact o cp (next_cfg cp c st) s h1 w1 log ->
    rexact o cp c (st :: s) h w ((jfile h, ls) :: log).

Lemma rspec_stopped o cp c s h w h' w' log :
  rspec o cp c s h w h' w' log -> okw w = false -> w' = w.
Proof. intros H K. inversion H; subst; try reflexivity. congruence. Qed.

Theorem rspec_all_ok o cp c s h w h' w' log :
  rspec o cp c s h w h' w' log -> okw w' = true -> rexact o cp c s h w log.
Proof.
  induction 1 as [c h w|c st s h w K|c st s h w h1 w1 h2 w2 ls log K Ec Hj E Hl R IH]; intros Kend.
  - constructor.
  - congruence.
  - assert (K1 : okw w1 = true).
    { destruct (okw w1) eqn:K1; [reflexivity|]. rewrite (rspec_stopped _ _ _ _ _ _ _ _ _ R K1) in Kend. congruence. }
    econstructor; eauto.
    unfold entry_lines in Hl. destruct (h_journal h); [|exact Hl].
    destruct Hl as [Hl|[_ Hn]]; [exact Hl | congruence].
Qed.

(* the configuration of every step of rspec is the one ReloadHistory computes *)
Theorem rspec_cfg_in_force o cp c s1 s2 h w h' w' log :
  rspec o cp c (s1 ++ s2) h w h' w' log -> okw w' = true ->
  exists h1 w1 log1 log2,
    rspec o cp c s1 h w h1 w1 log1 /\
    rspec o cp (cfg_in_force cp c s1) s2 h1 w1 h' w' log2 /\
    log = log1 ++ log2 /\
    (s2 <> [] -> h_cfg h1 = cfg_in_force cp c s1).
Proof.
  intros H K. destruct (rspec_app_inv o cp s1 c s2 h w h' w' log H) as (h1 & w1 & l1 & l2 & R1 & -> & Hr).
  exists h1, w1, l1, l2. split; [exact R1|].
  destruct Hr as [R2|(Kbad & -> & -> & ->)]; [|congruence].
  split; [exact R2|]. split; [reflexivity|].
  intros Hne. inversion R2; subst; try congruence.
Qed.

Print Assumptions journal_files_append_only.
Print Assumptions rspec_all_ok.
Print Assumptions rspec_cfg_in_force.

(* ====================================================================== *)
(* Part 5: a rejected reload                                              *)
(* ====================================================================== *)

(* The configuration file is rewritten with a malformed content, or with a
   configuration whose journal cannot be opened (ReloadHistory.
   rejected_reload_changes_nothing).  The write event itself is journalled
   under the configuration and in the journal in force; the event ends with
   an error (the daemon stops: no later step is taken); the handler keeps its
   configuration and its journal; no tracked file changes otherwise. *)
Theorem rejected_reload_journal o T h w pid path nc :
  benign o -> okw w = true -> Inv T h w -> step_pre T (HWrite pid path nc) h w ->
  h_cfg_path h = Some path ->
  (nc = None \/
   exists n jp, nc = Some n /\ c_journal_path n = Some jp /\ lookup (w_fs w) jp = Some NDir) ->
  exists h1 w1 ls,
    handle_close_write pid path nc h o w = (Some h1, w1) /\
    okw w1 = false /\
    h_cfg h1 = h_cfg h /\ h_journal h1 = h_journal h /\
    entry_lines (h_cfg h) (HWrite pid path nc) h w w1 ls /\
    (forall i, In i T -> bytes w1 i = bytes w i ++ concat (sel i (jfile h) ls)) /\
    (forall s2, run o (HWrite pid path nc :: s2) h w = (Some h1, w1)).
Proof.
  intros Hb K HI Hpre Ecp Hnc.
  destruct (step_journal o T _ h w Hb K HI Hpre) as (h1 & w1 & ls & E & EL & _ & F).
  cbn [step_run] in E.
  destruct (rejected_reload_changes_nothing o w pid path nc h h1 w1 Ecp Hnc E)
    as (Kbad & _ & _ & Ecfg & Ej & _).
  exists h1, w1, ls. split; [exact E|]. split; [exact Kbad|]. split; [exact Ecfg|]. split; [exact Ej|].
  split; [exact EL|]. split.
  - assert (G : grow T h1 = T).
    { apply grow_same. intros jn Ejn. rewrite Ej in Ejn. destruct HI as [_ _ _ Hj _]. exact (Hj jn Ejn). }
    intros i Hi. rewrite G in F. rewrite (F i Hi), (proj2 (memb_In i T) Hi). reflexivity.
  - intros s2. cbn [run step_run]. rewrite K, E. apply run_not_ok. exact Kbad.
Qed.
Print Assumptions rejected_reload_journal.

(* ---------- two more consequences, about single files ---------- *)

Lemma lines_for_nil i log : (forall ls, ~ In (Some i, ls) log) -> lines_for i log = [].
Proof.
  induction log as [|[oj ls] log IH]; intros H; [reflexivity|].
  rewrite lines_for_cons, IH by (intros ls' X; apply (H ls'); right; exact X).
  cbn [fst snd]. rewrite app_nil_r. destruct oj as [j|]; [|reflexivity].
  apply sel_other. intros ->. apply (H ls). left. reflexivity.
Qed.

(* a tracked file that is not the journal in force at any step of the
   history -- in particular the journal left behind by a reload that moved
   the journal, from then on -- keeps its content *)
Corollary file_out_of_force_unchanged (o : oracle) s T h0 w0 :
  benign o -> Inv T h0 w0 -> pre_along o T s h0 w0 ->
  exists h w log,
    run o s h0 w0 = (Some h, w) /\
    rspec o (h_cfg_path h0) (h_cfg h0) s h0 w0 h w log /\
    forall i, In i T -> (forall ls, ~ In (Some i, ls) log) -> bytes w i = bytes w0 i.
Proof.
  intros Hb HI Hpre.
  destruct (journal_history_with_reloads o s T h0 w0 Hb HI Hpre) as (h & w & log & T' & R & RS & Incl & _ & _ & F).
  exists h, w, log. split; [exact R|]. split; [exact RS|].
  intros i Hi Hout. rewrite (F i (Incl i Hi)), (proj2 (memb_In i T) Hi), (lines_for_nil i log Hout).
  cbn [concat]. apply app_nil_r.
Qed.

(* a reload that keeps the journal path (EVERY oracle): the handler holds the
   SAME file afterwards, with the stamp pattern of the new configuration *)
Theorem reload_keeps_journal_file (o : oracle) w h pid path n h1 w1 jp i :
  h_cfg_path h = Some path ->
  handle_close_write pid path (Some n) h o w = (Some h1, w1) -> okw w1 = true ->
  c_journal_path n = Some jp -> lookup (w_fs w) jp = Some (NFile i) ->
  h_cfg h1 = n /\
  exists jn', h_journal h1 = Some jn' /\ j_ino jn' = i /\ j_pattern jn' = c_journal_pattern n.
Proof.
  intros Ecp E K Ejp Hl.
  destruct (config_write_journal o w h pid path n h1 w1 Ecp E K) as (Ecfg & (wa & wb & Eo & Kb & _) & Hlk).
  split; [exact Ecfg|].
  destruct (open_journal_some _ _ _ _ _ _ Eo Kb) as [Hiff _].
  destruct (h_journal h1) as [jn'|] eqn:Ej.
  2:{ exfalso. destruct Hiff as [X _]. specialize (X eq_refl). congruence. }
  exists jn'. split; [reflexivity|].
  destruct (Hlk jp jn' Ejp eq_refl) as [L1 L2]. split; [|exact L2].
  pose proof (handle_close_write_keeps_dents o w pid path (Some n) h) as Kd.
  rewrite E in Kd. cbn [snd] in Kd. rewrite (Kd _ _ Hl) in L1. injection L1 as ->. reflexivity.
Qed.

Print Assumptions file_out_of_force_unchanged.
Print Assumptions reload_keeps_journal_file.


(* ====================================================================== *)
(* Part 6: a concrete history                                             *)
(* ====================================================================== *)

(* boolean checkers for the invariant and the side conditions *)
Definition wf_ltb (f : fs) : bool :=
  forallb (fun e => match snd e with NFile i => Nat.ltb i (fs_next f) | _ => true end) (fs_dents f).

Lemma wf_ltb_ok f : wf_ltb f = true -> wf_lt f.
Proof.
  intros H p i Hd. unfold wf_ltb in H. rewrite forallb_forall in H. specialize (H _ Hd).
  cbn [snd] in H. apply Nat.ltb_lt. exact H.
Qed.

Definition env_preb (T : list nat) (h : handler) (w w2 : world) : bool :=
  wf_ltb (w_fs w2) &&
  forallb (fun i => str_eqb (bytes w2 i) (bytes w i) && jsepb (h_cfg h) i (w_fs w2)) T.

Definition reload_preb (T : list nat) (n : config) (w : world) : bool :=
  joff_okb n && forallb (fun i => jsepb n i (w_fs w)) T &&
  match c_journal_path n with
  | None => true
  | Some jp =>
      negb (Str.under (c_offset_root n) jp) &&
      match lookup (w_fs w) jp with Some (NFile k) => memb k T | _ => true end
  end.

Definition step_preb (T : list nat) (st : step) (h : handler) (w : world) : bool :=
  match st with
  | HEnv w2 => env_preb T h w w2
  | HWrite _ path (Some n) =>
      match h_cfg_path h with
      | Some p => if str_eqb p path then reload_preb T n w else true
      | None => true
      end
  | _ => true
  end.

Fixpoint pre_alongb (o : oracle) (T : list nat) (s : list step) (h : handler) (w : world) : bool :=
  match s with
  | [] => true
  | st :: s' =>
      if okw w then
        step_preb T st h w &&
        match step_run st h o w with
        | (Some h1, w1) => pre_alongb o (grow T h1) s' h1 w1
        | (None, _) => true
        end
      else true
  end.

Lemma reload_preb_ok T n w : reload_preb T n w = true -> reload_pre T n w.
Proof.
  unfold reload_preb. intros H. apply andb_true_iff in H. destruct H as [H H3].
  apply andb_true_iff in H. destruct H as [H1 H2].
  split; [apply joff_okb_ok; exact H1|]. split.
  - intros i Hi. rewrite forallb_forall in H2. apply jsepb_ok. exact (H2 i Hi).
  - intros jp Ejp. rewrite Ejp in H3. apply andb_true_iff in H3. destruct H3 as [H3 H4]. split.
    + intros Hu. apply underb_spec in Hu. rewrite Hu in H3. discriminate.
    + intros k Hk. rewrite Hk in H4. apply memb_In. exact H4.
Qed.

Lemma step_preb_ok T st h w : step_preb T st h w = true -> step_pre T st h w.
Proof.
  destruct st as [pid path [n|]|pid path|rev|w2]; cbn [step_preb step_pre]; try (intros; exact I).
  - intros H Ecp. rewrite Ecp, str_eqb_refl in H. apply reload_preb_ok. exact H.
  - unfold env_preb. intros H. apply andb_true_iff in H. destruct H as [H1 H2].
    split; [apply wf_ltb_ok; exact H1|].
    intros i Hi. rewrite forallb_forall in H2. specialize (H2 i Hi). apply andb_true_iff in H2.
    destruct H2 as [H2 H3]. split; [|apply jsepb_ok; exact H3].
    destruct (str_eqb_spec (bytes w2 i) (bytes w i)); [assumption | discriminate].
Qed.

Lemma pre_alongb_ok o : forall s T h w, pre_alongb o T s h w = true -> pre_along o T s h w.
Proof.
  induction s as [|st s IH]; intros T h w H; cbn [pre_along]; [exact I|].
  intros K. cbn [pre_alongb] in H. rewrite K in H. apply andb_true_iff in H. destruct H as [H1 H2].
  split; [apply step_preb_ok; exact H1|].
  destruct (step_run st h o w) as [[h1|] w1]; [apply IH; exact H2 | exact I].
Qed.

Lemma Inv_check T h w :
  coherent h -> joff_okb (h_cfg h) = true ->
  forallb (fun i => jsepb (h_cfg h) i (w_fs w)) T = true ->
  match h_journal h with Some jn => memb (j_ino jn) T | None => true end = true ->
  wf_ltb (w_fs w) = true -> Inv T h w.
Proof.
  intros Hc H1 H2 H3 H4. constructor.
  - exact Hc.
  - apply joff_okb_ok. exact H1.
  - intros i Hi. rewrite forallb_forall in H2. apply jsepb_ok. exact (H2 i Hi).
  - intros jn Ej. rewrite Ej in H3. apply memb_In. exact H3.
  - apply wf_ltb_ok. exact H4.
Qed.

Module JournalReloadExample.
  Import String.
  Definition s (x : string) : str := list_ascii_of_string x.
  Local Open Scope string_scope.

  (* cfgA: every label configured, stamps "%s", journal /j.
     cfgB: the rewrite changes the stamp pattern to "t%s-" and removes the
           label of writes by editors; same journal path.
     cfgC: the second rewrite moves the journal to /k (which does not exist). *)
  Definition cfgA : config :=
    mkCfg [s"vi"] (mkRules [] [] [] [] [] []) (s"/s") (s"/p") (s"/u") (s"/q") (Some (s"/j")) (s"/o")
          (s"%s") (s"v%s") 0%Z 0 16
          (Some (s"run")) (Some (s"exec")) (Some (s"w")) (Some (s"write"))
          (Some (s"del")) (Some (s"forb")) (Some (s"stored")).
  Definition cfgB : config :=
    mkCfg [s"vi"] (mkRules [] [] [] [] [] []) (s"/s") (s"/p") (s"/u") (s"/q") (Some (s"/j")) (s"/o")
          (s"t%s-") (s"v%s") 0%Z 0 16
          (Some (s"run")) (Some (s"exec")) (Some (s"w")) None
          (Some (s"del")) (Some (s"forb")) (Some (s"stored")).
  Definition cfgC : config :=
    mkCfg [s"vi"] (mkRules [] [] [] [] [] []) (s"/s") (s"/p") (s"/u") (s"/q") (Some (s"/k")) (s"/o")
          (s"t%s-") (s"v%s") 0%Z 0 16
          (Some (s"run")) (Some (s"exec")) (Some (s"w")) None
          (Some (s"del")) (Some (s"forb")) (Some (s"stored")).

  (* /j is the journal (inode 3, one old line); /w/c is the configuration file *)
  Definition fs0 : fs :=
    mkFs [ (s"/s", NDir); (s"/p", NDir); (s"/u", NDir); (s"/q", NDir); (s"/o", NDir);
           (s"/w", NDir); (s"/bin", NDir);
           (s"/j", NFile 3); (s"/w/a", NFile 4); (s"/w/c", NFile 5);
           (s"/bin/vi", NFile 6); (s"/bin/ls", NFile 7); (s"/w/b", NFile 8) ]
         [ (3, mkFile ((s"old" ++ [ch_nl])%list) true); (4, mkFile (s"hello") true);
           (5, mkFile (s"cfg") true); (6, mkFile (s"x") true); (7, mkFile (s"y") true);
           (8, mkFile (s"bye") true) ]
         9.

  Definition h0 : handler :=
    mkH cfgA (Some (s"/w/c")) 1 (mkQ (s"/q") 0 0 0%Z 16 []) (Some (mkJ 3 (s"%s"))) [] [].
  Definition w0 : world := mkW fs0 0 [] 0%Z tr_empty.

  (* every write and every sendfile moves at most three bytes *)
  Definition o3 : oracle := fun _ => FShort 3.
  Lemma o3_benign : benign o3.
  Proof. intros i. right. exists 3. split; [lia | left; reflexivity]. Qed.

  Definition clk (t : Z) (w : world) : world := mkW (w_fs w) (w_n w) (w_log w) t (w_tr w).

  (* at 100 s: the editor starts (pid 7) and writes /w/a; pid 9 rewrites the
     configuration file to cfgB.
     at 200 s: /bin/ls starts (pid 8), the editor writes /w/b (no label any
     more), a pass stores /w/a and /w/b; pid 9 rewrites the configuration
     file to cfgC: the journal moves to /k.
     at 300 s: the editor starts again, writes /w/a; pid 9 writes /w/a. *)
  Definition S1 : list step :=
    [ HEnv (clk 100 w0); HExec 7 (s"/bin/vi"); HWrite 7 (s"/w/a") None; HWrite 9 (s"/w/c") (Some cfgB) ].
  Definition wS1 : world := snd (run o3 S1 h0 w0).
  Definition hS1 : handler := match fst (run o3 S1 h0 w0) with Some h => h | None => h0 end.
  Definition S2 : list step :=
    (S1 ++ [ HEnv (clk 200 wS1); HExec 8 (s"/bin/ls"); HWrite 7 (s"/w/b") None; HPass false;
            HWrite 9 (s"/w/c") (Some cfgC) ])%list.
  Definition wS2 : world := snd (run o3 S2 h0 w0).
  Definition S3 : list step :=
    (S2 ++ [ HEnv (clk 300 wS2); HExec 7 (s"/bin/vi"); HWrite 7 (s"/w/a") None; HWrite 9 (s"/w/a") None ])%list.

  Definition old : str := (s"old" ++ [ch_nl])%list.

  (* the lines of /j (inode 3): stamps "%s" and all labels of cfgA up to and
     including the write of the configuration file that installs cfgB, then
     stamps "t%s-" and the labels of cfgB, up to and including the write of
     the configuration file that installs cfgC *)
  Definition lines_j : list str :=
    [ journal_line (s"100") (s"exec") 7 (s"/bin/vi");
      journal_line (s"100") (s"write") 7 (s"/w/a");
      journal_line (s"100") (s"w") 9 (s"/w/c");
      journal_line (s"t200-") (s"run") 8 (s"/bin/ls");
      journal_line (s"t200-") (s"stored") 0 (s"w/a");
      journal_line (s"t200-") (s"stored") 0 (s"w/b");
      journal_line (s"t200-") (s"w") 9 (s"/w/c") ].
  (* the lines of /k (inode 11, created by the second reload) *)
  Definition lines_k : list str :=
    [ journal_line (s"t300-") (s"exec") 7 (s"/bin/vi");
      journal_line (s"t300-") (s"w") 9 (s"/w/a") ].

  (* ----- direct evaluation, three bytes per write ----- *)
  Example run_computed :
    let res := run o3 S3 h0 w0 in
    (match fst res with
     | Some h => h_cfg h = cfgC /\ h_journal h = Some (mkJ 11 (s"t%s-"))
     | None => False
     end) /\
    okw (snd res) = true /\
    lookup (w_fs (snd res)) (s"/j") = Some (NFile 3) /\
    lookup (w_fs (snd res)) (s"/k") = Some (NFile 11) /\
    bytes (snd res) 3 = (old ++ List.concat lines_j)%list /\
    bytes (snd res) 11 = List.concat lines_k.
  Proof. vm_compute. repeat split. Qed.

  Example run_readable :
    string_of_list_ascii (List.concat lines_j) =
    String.concat ""
      [ "100"; String "009" "exec"; String "009" "7"; String "009" "/bin/vi"; String "010" "";
        "100"; String "009" "write"; String "009" "7"; String "009" "/w/a"; String "010" "";
        "100"; String "009" "w"; String "009" "9"; String "009" "/w/c"; String "010" "";
        "t200-"; String "009" "run"; String "009" "8"; String "009" "/bin/ls"; String "010" "";
        "t200-"; String "009" "stored"; String "009" "w/a"; String "010" "";
        "t200-"; String "009" "stored"; String "009" "w/b"; String "010" "";
        "t200-"; String "009" "w"; String "009" "9"; String "009" "/w/c"; String "010" "" ] /\
    string_of_list_ascii (List.concat lines_k) =
    String.concat ""
      [ "t300-"; String "009" "exec"; String "009" "7"; String "009" "/bin/vi"; String "010" "";
        "t300-"; String "009" "w"; String "009" "9"; String "009" "/w/a"; String "010" "" ].
  Proof. vm_compute. split; reflexivity. Qed.

  (* ----- the hypotheses of the theorem hold ----- *)
  Lemma h0_coherent : coherent h0.
  Proof.
    unfold coherent, journal_of. cbn. split; [reflexivity|]. split; [reflexivity|].
    split; [split; discriminate|]. intros jn E. injection E as <-. reflexivity.
  Qed.

  Example hyps_hold : Inv [3] h0 w0 /\ pre_along o3 [3] S3 h0 w0.
  Proof.
    split.
    - apply Inv_check; [exact h0_coherent | vm_compute; reflexivity ..].
    - apply pre_alongb_ok. vm_compute. reflexivity.
  Qed.

  (* ----- the theorem instantiated ----- *)
  Example journal_history_instance :
    exists h w log T',
      run o3 S3 h0 w0 = (Some h, w) /\
      rspec o3 (Some (s"/w/c")) cfgA S3 h0 w0 h w log /\
      rexact o3 (Some (s"/w/c")) cfgA S3 h0 w0 log /\
      In 3 T' /\ In 11 T' /\
      bytes w 3 = (old ++ List.concat (lines_for 3 log))%list /\
      bytes w 11 = List.concat (lines_for 11 log) /\
      List.concat (lines_for 3 log) = List.concat lines_j /\
      List.concat (lines_for 11 log) = List.concat lines_k.
  Proof.
    destruct hyps_hold as [HI Hpre].
    destruct (journal_history_with_reloads o3 S3 [3] h0 w0 o3_benign HI Hpre)
      as (h & w & log & T' & R & RS & Incl & HI' & _ & F).
    destruct run_computed as (Hh & Kw & _ & _ & B3 & B11). cbv zeta in Hh, Kw, B3, B11.
    rewrite R in Hh, Kw, B3, B11. cbn [fst snd] in Hh, Kw, B3, B11. destruct Hh as [_ Ej].
    exists h, w, log, T'. split; [exact R|]. split; [exact RS|].
    split; [exact (rspec_all_ok _ _ _ _ _ _ _ _ _ RS Kw)|].
    assert (I3 : In 3 T') by (apply Incl; left; reflexivity).
    assert (I11 : In 11 T') by (destruct (HI' Kw) as [_ _ _ Hj _]; exact (Hj _ Ej)).
    split; [exact I3|]. split; [exact I11|].
    pose proof (F 3 I3) as F3. pose proof (F 11 I11) as F11.
    change (memb 3 [3]) with true in F3. change (memb 11 [3]) with false in F11.
    change (bytes w0 3) with old in F3. cbn [app] in F11.
    split; [exact F3|]. split; [exact F11|]. split.
    - rewrite B3 in F3. apply app_inv_head in F3. symmetry. exact F3.
    - rewrite B11 in F11. symmetry. exact F11.
  Qed.

  (* ----- the first rewrite, line by line: the write of the configuration
           file is journalled with the OLD stamp and label, the next event
           with the NEW stamp; the old content stays in front ----- *)
  Definition S1' : list step := (S1 ++ [ HEnv (clk 200 wS1); HExec 8 (s"/bin/ls") ])%list.

  Ltac inv1 :=
    match goal with
    | H : rexact _ _ _ (_ :: _) _ _ _ |- _ =>
        let E := fresh "E" in let L := fresh "L" in
        inversion H as [|? ? ? ? ? ? ? ? ? _ _ _ E _ L ?]; subst; clear H;
        vm_compute in E; injection E as <- <-; vm_compute in L; subst
    end.

  Example first_rewrite_exact_log :
    exists h w log,
      run o3 S1' h0 w0 = (Some h, w) /\
      rspec o3 (Some (s"/w/c")) cfgA S1' h0 w0 h w log /\
      log = [ (Some 3, []);
              (Some 3, [journal_line (s"100") (s"exec") 7 (s"/bin/vi")]);
              (Some 3, [journal_line (s"100") (s"write") 7 (s"/w/a")]);
              (Some 3, [journal_line (s"100") (s"w") 9 (s"/w/c")]);
              (Some 3, []);
              (Some 3, [journal_line (s"t200-") (s"run") 8 (s"/bin/ls")]) ] /\
      h_cfg h = cfgB /\
      bytes w 3 = (old ++ List.concat (lines_for 3 log))%list.
  Proof.
    assert (HI : Inv [3] h0 w0) by exact (proj1 hyps_hold).
    assert (Hpre : pre_along o3 [3] S1' h0 w0) by (apply pre_alongb_ok; vm_compute; reflexivity).
    destruct (journal_history_with_reloads o3 S1' [3] h0 w0 o3_benign HI Hpre)
      as (h & w & log & T' & R & RS & Incl & _ & _ & F).
    assert (Kw : okw (snd (run o3 S1' h0 w0)) = true) by (vm_compute; reflexivity).
    assert (Ec : match fst (run o3 S1' h0 w0) with Some h => h_cfg h = cfgB | None => False end)
      by (vm_compute; reflexivity).
    rewrite R in Kw, Ec. cbn [fst snd] in Kw, Ec.
    pose proof (F 3 (Incl 3 (or_introl eq_refl))) as F3.
    change (memb 3 [3]) with true in F3. change (bytes w0 3) with old in F3.
    exists h, w, log. split; [exact R|]. split; [exact RS|].
    split; [|split; [exact Ec | exact F3]].
    pose proof (rspec_all_ok _ _ _ _ _ _ _ _ _ RS Kw) as H. clear RS R F F3 Incl Kw Ec HI Hpre.
    unfold S1', S1 in H. cbn [app] in H.
    do 6 inv1.
    match goal with H : rexact _ _ _ [] _ _ _ |- _ => inversion H; subst end.
    reflexivity.
  Qed.

  (* ----- after the second rewrite: the old journal /j keeps its content for
           good, the new journal /k (inode 11, created empty by the reload)
           gets the lines, with the stamp pattern and labels of cfgC ----- *)
  (* the state after S2, evaluated *)
  Definition hS2 : handler := Eval vm_compute in match fst (run o3 S2 h0 w0) with Some h => h | None => h0 end.
  Definition wS2' : world := Eval vm_compute in wS2.
  Example wS2_eq : wS2 = wS2'.
  Proof. vm_compute. reflexivity. Qed.
  Example runS2_eq : run o3 S2 h0 w0 = (Some hS2, wS2').
  Proof. vm_compute. reflexivity. Qed.
  Definition S3tail : list step :=
    [ HEnv (clk 300 wS2'); HExec 7 (s"/bin/vi"); HWrite 7 (s"/w/a") None; HWrite 9 (s"/w/a") None ].

  Lemma hS2_coherent : coherent hS2.
  Proof.
    unfold coherent, journal_of. vm_compute. split; [reflexivity|]. split; [reflexivity|].
    split; [split; discriminate|]. intros jn E. injection E as <-. reflexivity.
  Qed.

  Example moved_journal_instance :
    h_cfg hS2 = cfgC /\ h_journal hS2 = Some (mkJ 11 (s"t%s-")) /\
    bytes wS2' 3 = (old ++ List.concat lines_j)%list /\ bytes wS2' 11 = [] /\
    exists h w log,
      run o3 S3tail hS2 wS2' = (Some h, w) /\
      rspec o3 (Some (s"/w/c")) cfgC S3tail hS2 wS2' h w log /\
      log = [ (Some 11, []);
              (Some 11, [journal_line (s"t300-") (s"exec") 7 (s"/bin/vi")]);
              (Some 11, []);
              (Some 11, [journal_line (s"t300-") (s"w") 9 (s"/w/a")]) ] /\
      bytes w 3 = bytes wS2' 3 /\
      bytes w 11 = List.concat (lines_for 11 log).
  Proof.
    split; [vm_compute; reflexivity|]. split; [vm_compute; reflexivity|].
    split; [vm_compute; reflexivity|].
    assert (B11 : bytes wS2' 11 = []) by (vm_compute; reflexivity).
    split; [exact B11|].
    assert (HI : Inv [11; 3] hS2 wS2') by (apply Inv_check; [exact hS2_coherent | vm_compute; reflexivity ..]).
    assert (Hpre : pre_along o3 [11; 3] S3tail hS2 wS2') by (apply pre_alongb_ok; vm_compute; reflexivity).
    destruct (journal_history_with_reloads o3 S3tail [11; 3] hS2 wS2' o3_benign HI Hpre)
      as (h & w & log & T' & R & RS & Incl & _ & _ & F).
    assert (Kw : okw (snd (run o3 S3tail hS2 wS2')) = true) by (vm_compute; reflexivity).
    rewrite R in Kw. cbn [snd] in Kw.
    pose proof (F 3 (Incl 3 (or_intror (or_introl eq_refl)))) as F3.
    pose proof (F 11 (Incl 11 (or_introl eq_refl))) as F11.
    change (memb 3 [11; 3]) with true in F3. change (memb 11 [11; 3]) with true in F11.
    rewrite B11 in F11. cbn [app] in F11.
    change (h_cfg_path hS2) with (Some (s"/w/c")) in RS. change (h_cfg hS2) with cfgC in RS.
    exists h, w, log. split; [exact R|]. split; [exact RS|].
    assert (Elog : log = [ (Some 11, []);
              (Some 11, [journal_line (s"t300-") (s"exec") 7 (s"/bin/vi")]);
              (Some 11, []);
              (Some 11, [journal_line (s"t300-") (s"w") 9 (s"/w/a")]) ]).
    { pose proof (rspec_all_ok _ _ _ _ _ _ _ _ _ RS Kw) as H. clear RS R F F3 F11 Incl Kw HI Hpre B11.
      unfold S3tail in H. do 4 inv1.
      match goal with H : rexact _ _ _ [] _ _ _ |- _ => inversion H; subst end.
      reflexivity. }
    split; [exact Elog|]. split; [|exact F11].
    rewrite F3, Elog. vm_compute. reflexivity.
  Qed.

  (* ----- a rejected reload: after S1 (cfgB in force) the configuration file
           is rewritten with a malformed content ----- *)
  Example runS1_eq : run o3 S1 h0 w0 = (Some hS1, wS1).
  Proof.
    assert (H : exists h, fst (run o3 S1 h0 w0) = Some h) by (vm_compute; eexists; reflexivity).
    unfold hS1, wS1. destruct (run o3 S1 h0 w0) as [[h|] w]; cbn [fst snd] in *; [reflexivity|].
    destruct H as [h H]. discriminate.
  Qed.

  Lemma hS1_coherent : coherent hS1.
  Proof.
    unfold coherent, journal_of. vm_compute. split; [reflexivity|]. split; [reflexivity|].
    split; [split; discriminate|]. intros jn E. injection E as <-. reflexivity.
  Qed.

  Example rejected_instance :
    exists h1 w1 ls,
      handle_close_write 9 (s"/w/c") None hS1 o3 wS1 = (Some h1, w1) /\
      okw w1 = false /\ h_cfg h1 = cfgB /\ h_journal h1 = Some (mkJ 3 (s"t%s-")) /\
      bytes w1 3 = (bytes wS1 3 ++ List.concat ls)%list /\
      (* the write of the malformed file is journalled under cfgB *)
      ls = [journal_line (s"t100-") (s"w") 9 (s"/w/c")] /\
      (forall s2, run o3 (S1 ++ HWrite 9 (s"/w/c") None :: s2) h0 w0 = (Some h1, w1)).
  Proof.
    assert (HI : Inv [3] hS1 wS1) by (apply Inv_check; [exact hS1_coherent | vm_compute; reflexivity ..]).
    assert (K : okw wS1 = true) by (vm_compute; reflexivity).
    destruct (rejected_reload_journal o3 [3] hS1 wS1 9 (s"/w/c") None o3_benign K HI I eq_refl (or_introl eq_refl))
      as (h1 & w1 & ls & E & Kbad & Ec & Ej & EL & F & Hstop).
    exists h1, w1, ls. split; [exact E|]. split; [exact Kbad|].
    split; [rewrite Ec; vm_compute; reflexivity|]. split; [rewrite Ej; vm_compute; reflexivity|].
    pose proof (F 3 (or_introl eq_refl)) as F3.
    change (jfile hS1) with (Some 3) in F3. rewrite sel_same in F3.
    split; [exact F3|]. split.
    - (* which of the two alternatives of entry_lines: by evaluation *)
      assert (B : bytes (snd (handle_close_write 9 (s"/w/c") None hS1 o3 wS1)) 3 =
                  (bytes wS1 3 ++ journal_line (s"t100-") (s"w") 9 (s"/w/c"))%list)
        by (vm_compute; reflexivity).
      rewrite E in B. cbn [snd] in B. rewrite F3 in B. apply app_inv_head in B.
      unfold entry_lines in EL. change (h_journal hS1) with (Some (mkJ 3 (s"t%s-"))) in EL.
      destruct EL as [EL|[-> _]].
      + cbn [lines_of] in EL. rewrite EL. vm_compute. reflexivity.
      + cbn [List.concat] in B. symmetry in B. exfalso. exact (journal_line_nonempty _ _ _ _ B).
    - intros s2. rewrite run_app, runS1_eq. apply Hstop.
  Qed.

End JournalReloadExample.

Print Assumptions JournalReloadExample.run_computed.
Print Assumptions JournalReloadExample.hyps_hold.
Print Assumptions JournalReloadExample.journal_history_instance.
Print Assumptions JournalReloadExample.first_rewrite_exact_log.
Print Assumptions JournalReloadExample.moved_journal_instance.
Print Assumptions JournalReloadExample.rejected_instance.
