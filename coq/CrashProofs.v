(* C03 "pending work and stored versions survive a crash at any point":
   WORLD-level crash theorems for the timeout pass (handle_timeout, the whole
   pass), for every oracle: failing calls, short transfers, and a crash before
   any call (result None).

   Files: CrashFrame.v (frame pass: everything but the queue operations leaves
   the queue directory alone), CrashLoad.v (load_linq reads back a directory
   related by QRel), CrashQueue.v (read_entry / q_pop_head / q_get_head and the
   invariant G of the pass under every oracle), CrashCopy.v (what sync_file has
   done when it reports no error, under every honest oracle), this file (the
   copy loop, the first iteration, the main theorems, a concrete pass crashed
   at every call index, witnesses for the necessity of the honesty condition).

   Main theorems (after the section "MAIN THEOREMS"):
     timeout_crash_queue_store        EVERY oracle: (1) the queue directory
                                      still decodes, (2) it holds a suffix of
                                      the entries under their original names,
                                      (4) stored versions are unchanged;
     timeout_crash_then_restart_loads EVERY oracle, then a fault-free restart:
                                      (1) load_linq succeeds and returns
                                      exactly that suffix;
     timeout_crash_pop_after_copy     every HONEST oracle: (3) if the first
                                      entry has left the queue directory, a
                                      complete version of its source is in
                                      the store ("pop only after the copy"). *)
From K Require Import Str Dec Trace Fs World Progs Elf Linq LinqSpec LinqProofs Sieve Handler Hoare
     Confine Confine2 SyncProofs AbandonProofs StoreFs StoreLogic StoreProgs StoreProofs DecProofs
     QueueProofs CrashFrame CrashLoad CrashQueue CrashCopy.
From Coq Require Import Lia.

(* ---------- catch_static ---------- *)

Lemma msg_eqb_eq a b : msg_eqb a b = true -> a = b.
Proof. destruct a, b; try reflexivity; discriminate. Qed.

Lemma catch_static_eq m o w :
  catch_static m o w =
  (Some (fst (tr_catch_static m (w_tr w))),
   mkW (w_fs w) (w_n w) (w_log w) (w_clock w) (snd (tr_catch_static m (w_tr w)))).
Proof.
  unfold catch_static, bind, get_tr, set_tr, ret_. destruct (tr_catch_static m (w_tr w)) as [b t'].
  reflexivity.
Qed.

(* a catch that does not fire changes nothing *)
Lemma ht_catch_false {B} O (P : world -> Prop) m (k : bool -> M B) Q C :
  (forall w, P w -> tr_catch_static m (w_tr w) = (false, w_tr w)) ->
  ht O P (k false) Q C -> ht O P (bind (catch_static m) k) Q C.
Proof.
  intros Hc Hk o w Ho Hp. unfold bind. rewrite catch_static_eq, (Hc w Hp). cbn [fst snd].
  destruct w as [f n l c t]. cbn [w_fs w_n w_log w_clock w_tr]. exact (Hk o _ Ho Hp).
Qed.

Lemma catch_empty m t : t_frames t = [] -> tr_catch_static m t = (false, t).
Proof. intros H. unfold tr_catch_static. rewrite H. destruct (Nat.eqb (t_post t) 0); reflexivity. Qed.

Lemma catch_other_frame m t fr rest :
  t_frames t = fr :: rest -> fr <> FStatic m -> tr_catch_static m t = (false, t).
Proof.
  intros H Hn. unfold tr_catch_static. rewrite H. destruct (Nat.eqb (t_post t) 0); [|reflexivity].
  destruct fr as [m'| | |]; try reflexivity.
  destruct (msg_eqb m m') eqn:E; [|reflexivity]. apply msg_eqb_eq in E. congruence.
Qed.

Lemma catch_true_frames m t : fst (tr_catch_static m t) = true -> t_frames (snd (tr_catch_static m t)) = [].
Proof.
  unfold tr_catch_static. destruct (Nat.eqb (t_post t) 0); [|discriminate].
  destruct (t_frames t) as [|[m'| | |] rest]; try discriminate.
  destruct (msg_eqb m m'); [reflexivity | discriminate].
Qed.

Lemma catch_false_same m t : fst (tr_catch_static m t) = false -> snd (tr_catch_static m t) = t.
Proof.
  unfold tr_catch_static. destruct (Nat.eqb (t_post t) 0); [|reflexivity].
  destruct (t_frames t) as [|[m'| | |] rest]; try reflexivity.
  destruct (msg_eqb m m'); [discriminate | reflexivity].
Qed.

Lemma ht_case {A} O (P : world -> Prop) (cond : world -> bool) (m : M A) Q C :
  ht O (fun w => P w /\ cond w = true) m Q C ->
  ht O (fun w => P w /\ cond w = false) m Q C -> ht O P m Q C.
Proof.
  intros H1 H2 o w Ho Hp. destruct (cond w) eqn:E; [apply H1 | apply H2]; auto.
Qed.

(* write_counter with an error in the trace does nothing *)
Lemma ht_write_counter_skip O (X : world -> Prop) p n :
  (forall w t, X w -> X (mkW (w_fs w) (w_n w) (w_log w) (w_clock w) t)) ->
  ht O (fun w => X w /\ tr_ok (w_tr w) = false) (write_counter p n)
     (fun _ w => X w /\ tr_ok (w_tr w) = false) (fun _ => True).
Proof.
  intros _. unfold write_counter, when_ok.
  eapply ht_bind with (R := fun b w => (X w /\ tr_ok (w_tr w) = false) /\ b = false).
  { apply ht_is_ok. intros w [H1 H2]. auto. }
  intros b. apply ht_pure_pre with (phi := b = false); [intros w [_ E]; exact E|]. intros ->.
  apply ht_ret. intros w [H _]. exact H.
Qed.

Lemma tr_finally_frames t : t_frames (tr_finally t) = t_frames t.
Proof. unfold tr_finally. apply tr_decrement_frames. Qed.

Lemma tr_try_frames t : t_frames (tr_try t) = t_frames t.
Proof. unfold tr_try. destruct (tr_ok t); reflexivity. Qed.

Lemma tr_ok_frames t : tr_ok t = true <-> t_frames t = [].
Proof. unfold tr_ok. destruct (t_frames t); split; intros H; congruence. Qed.

Lemma tok_lift {A} O (P : fs -> Prop) (m : M A) :
  tok P m -> ht O (fun w => P (w_fs w)) m (fun _ w => P (w_fs w)) (fun w => P (w_fs w)).
Proof.
  intros H. eapply ht_oracles with (O1 := fun _ => True); [auto|].
  eapply ht_conseq3; [| | |exact H]; cbn; auto. intros a w [H1 _]. exact H1.
Qed.

Lemma ht_catch_gen {B} O (P : world -> Prop) m (k : bool -> M B) Q C :
  (forall bb, ht O (fun w' => exists w, P w /\ fst (tr_catch_static m (w_tr w)) = bb /\
                       w' = mkW (w_fs w) (w_n w) (w_log w) (w_clock w) (snd (tr_catch_static m (w_tr w))))
                 (k bb) Q C) ->
  ht O P (bind (catch_static m) k) Q C.
Proof.
  intros Hk o w Ho Hp. unfold bind. rewrite catch_static_eq.
  apply (Hk _ o _ Ho). exists w. auto.
Qed.

(* ====================================================================== *)
(*                            the copy loop                               *)
(* ====================================================================== *)

Section Copy.
Variables (c : config) (oj : option journal) (f0 : fs) (d : str) (ents0 : list qent) (h0 : N).
Hypothesis D : disjoint_locs c.
Hypothesis Hd : qdir_ok2 c d.

(* the source, the offset, the bookkeeping paths *)
Variables (path : str) (i : nat) (b : str) (off : nat) (offp : str) (ish : bool) (cfg : config).
Hypothesis Hoffp : StoreFs.under (c_offset_root c) offp.

(* the store path: <store root>/<rel>/<version><ext> *)
Variables (rel version : str) (fs0 : fs).
Hypothesis Hver : ns version.

Let X : str := c_store_root c ++ ch_slash :: rel.
Let ext : str := get_file_extension rel.
Let sp0 : store_path := mkSP (X ++ ch_slash :: version) ext 0.
Let cnt : nat := length (children fs0 X).

Let HX : X <> [].
Proof. unfold X. intros E. apply app_eq_nil in E. destruct E as [_ E]. discriminate. Qed.

Let Hext : ns ext := extension_ns rel.

Notation Gk := (G c oj f0 f0 ents0 h0).

Definition PHd (f : fs) : Prop :=
  forall p, dirname p = X -> lookup f p <> None -> lookup fs0 p <> None.

Definition StoredCopy (f : fs) : Prop :=
  exists s j, StoreFs.under (c_store_root c) s /\ lookup f s = Some (NFile j) /\
              f_bytes (get_file f j) = skipn off b.

Definition fl_pre (k : nat) (q : qmem) (w : world) : Prop :=
  Gk k q (w_fs w) /\ Src path i b (w_fs w) /\ PHd (w_fs w) /\ t_frames (w_tr w) = [].

Definition fl_post (k : nat) (q : qmem) (r : option str * bool * store_path) (w : world) : Prop :=
  Gk k q (w_fs w) /\ spI (c_store_root c) (snd r) /\
  (tr_ok (w_tr w) = true -> StoredCopy (w_fs w)).

Lemma spI_at n : spI (c_store_root c) (sp_at sp0 n).
Proof. exists rel, version. unfold sp_at, sp0, X. cbn [sp_base]. rewrite <- app_assoc. reflexivity. Qed.

Lemma dst_under n : StoreFs.under (c_store_root c) (current_path (sp_at sp0 n)).
Proof. apply current_path_under. apply spI_at. Qed.

Lemma dst_dirname n : dirname (current_path (sp_at sp0 n)) = X.
Proof. apply (name_dirname X version ext HX Hver Hext n). Qed.

Ltac frq := first [ apply FRq_add | apply FRq_del | apply FRq_files ].

Lemma aw_store' p : inside (c_store_root c) p -> away d p.
Proof. apply (aw_store c d Hd). Qed.

Lemma G_sync_file k q n src o' :
  q_dir q = d -> tok (Gk k q) (sync_file (current_path (sp_at sp0 n)) src o').
Proof.
  intros Eq. apply G_tok; try (apply tok_sync_file; exact D).
  eapply fk_sync_file; try frq. rewrite Eq. apply aw_store'.
  destruct (dst_under n) as [x ->]. right. exists x. reflexivity.
Qed.

Lemma G_write_counter k q n : q_dir q = d -> tok (Gk k q) (write_counter offp n).
Proof.
  intros Eq. apply G_tok; try (apply tok_write_counter; assumption).
  eapply fk_write_counter; try frq. rewrite Eq. apply (aw_off c d Hd).
  destruct Hoffp as [x ->]. right. exists x. reflexivity.
Qed.

(* the end of an iteration when an error is in the trace: no claim to prove *)
Lemma cw_not_ok k q sp n ev :
  q_dir q = d -> spI (c_store_root c) sp ->
  ht honest (fun w => Gk k q (w_fs w) /\ tr_ok (w_tr w) = false)
     (write_counter offp n;; (do b0 <- is_ok; finally_;; ret_ (ev, b0, sp)))
     (fl_post k q) (fun w => Gk k q (w_fs w)).
Proof.
  intros Eq Hs.
  eapply ht_bind with (R := fun _ w => Gk k q (w_fs w) /\ tr_ok (w_tr w) = false).
  { eapply ht_conseq3;
      [| | |apply ht_conj;
            [apply (tok_lift honest _ _ (G_write_counter k q n Eq))
            |apply (ht_write_counter_skip honest (fun _ => True) offp n); auto]].
    - intros w [H1 H2]. auto.
    - intros ? w [H1 [_ H2]]. auto.
    - intros w [H _]. exact H. }
  intros ?.
  eapply ht_bind with (R := fun _ w => Gk k q (w_fs w) /\ tr_ok (w_tr w) = false);
    [apply ht_is_ok; auto|intros b0].
  eapply ht_bind with (R := fun _ w => Gk k q (w_fs w) /\ tr_ok (w_tr w) = false).
  { unfold finally_. apply ht_mod_tr. intros w [H1 H2]. split; [exact H1|].
    cbn [QueueProofs.upd_tr w_tr]. unfold tr_ok in *. rewrite tr_finally_frames. exact H2. }
  intros ?. apply ht_ret. intros w [H1 H2]. split; [exact H1|]. split; [exact Hs|].
  intros E. congruence.
Qed.

(* the end of an iteration after a complete copy *)
Lemma cw_copied k q n m ev :
  q_dir q = d ->
  ht honest (fun w => Gk k q (w_fs w) /\ Copied b (current_path (sp_at sp0 n)) off (w_fs w))
     (write_counter offp m;; (do b0 <- is_ok; finally_;; ret_ (ev, b0, sp_at sp0 n)))
     (fl_post k q) (fun w => Gk k q (w_fs w)).
Proof.
  intros Eq. apply ht_freeze. intros w1 [HG1 [j [Hl Hb]]].
  set (f1 := w_fs w1) in *.
  assert (HI1 : Inv c oj f1 f1).
  { destruct HG1 as [[[[_ HS] _] _] _]. split; [apply preserved_refl | exact HS]. }
  set (P := fun w : world => Gk k q (w_fs w) /\ Inv c oj f1 (w_fs w)).
  assert (Hfin : forall w, P w -> StoredCopy (w_fs w)).
  { intros w [_ [Hp _]]. destruct (Hp _ j (or_introl (dst_under n)) Hl) as [A B].
    exists (current_path (sp_at sp0 n)), j. split; [apply dst_under|]. split; [exact A|].
    rewrite B. exact Hb. }
  eapply ht_bind with (R := fun _ w => P w).
  { eapply ht_conseq3;
      [| | |apply ht_conj;
            [apply (tok_lift honest _ _ (G_write_counter k q m Eq))
            |apply (tok_lift honest _ _ (tok_write_counter c oj f1 D offp m Hoffp))]].
    - intros w ->. split; [exact HG1 | exact HI1].
    - intros ? w H. exact H.
    - intros w [H _]. exact H. }
  intros ?.
  eapply ht_bind with (R := fun _ w => P w); [apply ht_is_ok; auto|intros b0].
  eapply ht_bind with (R := fun _ w => P w).
  { unfold finally_. apply ht_mod_tr. intros w H. exact H. }
  intros ?. apply ht_ret. intros w H. split; [apply H|]. split; [apply spI_at|].
  intros _. apply Hfin. exact H.
Qed.


Lemma PH_PHd n f : PH (current_path (sp_at sp0 n)) fs0 f <-> PHd f.
Proof. unfold PH, PHd. rewrite dst_dirname. tauto. Qed.

Lemma ht_file_store_loop : forall fuel n k q,
  q_dir q = d -> fuel + n = S (S cnt) ->
  (forall m, m < n -> lookup fs0 (current_path (sp_at sp0 m)) <> None) ->
  ht honest (fl_pre k q) (file_store_loop fuel (sp_at sp0 n) path offp off ish cfg)
     (fl_post k q) (fun w => Gk k q (w_fs w)).
Proof.
  induction fuel as [|fuel IH]; intros n k q Eq Hfuel Htried.
  { (* every candidate name would have to exist *)
    exfalso. apply (no_room X version ext fs0 HX Hver Hext cnt eq_refl).
    intros m Hm. apply Htried. cbn in Hfuel. lia. }
  cbn [file_store_loop].
  set (dst := current_path (sp_at sp0 n)).
  eapply ht_bind with (R := fun _ w => fl_pre k q w).
  { unfold try_. apply ht_mod_tr. intros w [H1 [H2 [H3 H4]]].
    split; [exact H1|]. split; [exact H2|]. split; [exact H3|].
    cbn [QueueProofs.upd_tr w_tr]. rewrite tr_try_frames. exact H4. }
  intros ?.
  eapply ht_bind with (R := fun _ w => Gk k q (w_fs w) /\ sf_out path i b dst off fs0 w).
  { eapply ht_conseq3;
      [| | |apply ht_conj;
            [apply (tok_lift honest _ _ (G_sync_file k q n path off Eq))
            |apply (ht_sync_file path i b dst off fs0)]].
    - intros w [H1 [H2 [H3 H4]]]. split; [exact H1|]. split; [exact H2|]. split; [|exact H4].
      apply PH_PHd. exact H3.
    - intros ? w H. exact H.
    - intros w [H _]. exact H. }
  intros no.
  (* the three outcomes *)
  eapply ht_conseq3 with
    (P := fun w => (Gk k q (w_fs w) /\ t_frames (w_tr w) = [] /\ Copied b dst off (w_fs w)) \/
                   ((Gk k q (w_fs w) /\ Src path i b (w_fs w) /\ PHd (w_fs w) /\
                     t_frames (w_tr w) = [FStatic M_dst_exists] /\ lookup fs0 dst <> None) \/
                    (Gk k q (w_fs w) /\
                     exists fr rest, t_frames (w_tr w) = fr :: rest /\ other_frame fr)));
    [| intros r w H; exact H | intros w H; exact H |].
  { intros w [HG [HS [[H1 H2]|[[H1 [H2 H3]]|H1]]]]; [left; auto | right; left | right; right; auto].
    split; [exact HG|]. split; [exact HS|]. split; [apply (PH_PHd n); exact H2 | auto]. }
  apply ht_pre_or; [|apply ht_pre_or].
  - (* copied *)
    apply ht_catch_false; [intros w [_ [H _]]; apply catch_empty; exact H|]. cbv iota.
    apply ht_catch_false; [intros w [_ [H _]]; apply catch_empty; exact H|]. cbv iota.
    apply ht_catch_false; [intros w [_ [H _]]; apply catch_empty; exact H|]. cbv iota.
    apply ht_catch_false; [intros w [_ [H _]]; apply catch_empty; exact H|]. cbv iota.
    eapply ht_conseq3; [| | |apply (cw_copied k q n _ _ Eq)].
    + intros w [H1 [_ H2]]. auto.
    + auto.
    + auto.
  - (* the name is taken: next candidate *)
    apply ht_pure_pre with (phi := lookup fs0 dst <> None).
    { intros w [_ [_ [_ [_ H]]]]. exact H. }
    intros Hex.
    assert (Hc : forall m w,
               (Gk k q (w_fs w) /\ Src path i b (w_fs w) /\ PHd (w_fs w) /\
                t_frames (w_tr w) = [FStatic M_dst_exists] /\ lookup fs0 dst <> None) ->
               m <> M_dst_exists -> tr_catch_static m (w_tr w) = (false, w_tr w)).
    { intros m w [_ [_ [_ [Hf _]]]] Hm. apply (catch_other_frame m _ _ _ Hf). congruence. }
    apply ht_catch_false; [intros w H; apply Hc; [exact H | discriminate]|]. cbv iota.
    apply ht_catch_false; [intros w H; apply Hc; [exact H | discriminate]|]. cbv iota.
    apply ht_catch_false; [intros w H; apply Hc; [exact H | discriminate]|]. cbv iota.
    apply ht_catch_gen. intros bb. destruct bb.
    + (* caught: try the next name *)
      rewrite sp_at_S.
      eapply ht_conseq3; [| | |apply (IH (S n) k q Eq)].
      * intros w' [w [[H1 [H2 [H3 _]]] [Hb ->]]]. cbn [w_fs w_tr].
        split; [exact H1|]. split; [exact H2|]. split; [exact H3|].
        apply catch_true_frames. exact Hb.
      * auto.
      * auto.
      * lia.
      * intros m Hm. destruct (Nat.eq_dec m n) as [->|Hne]; [exact Hex | apply Htried; lia].
    + (* not caught (a failed try is pending): the error stays *)
      eapply ht_conseq3; [| | |apply (cw_not_ok k q (sp_at sp0 n) _ _ Eq (spI_at n))].
      * intros w' [w [[H1 [_ [_ [H4 _]]]] [Hb ->]]]. cbn [w_fs w_tr]. split; [exact H1|].
        rewrite (catch_false_same _ _ Hb). unfold tr_ok. rewrite H4. reflexivity.
      * auto.
      * auto.
  - (* another error *)
    assert (Hc : forall m w,
               (Gk k q (w_fs w) /\ exists fr rest, t_frames (w_tr w) = fr :: rest /\ other_frame fr) ->
               In m [M_src_missing; M_not_regular; M_src_denied; M_dst_exists] ->
               tr_catch_static m (w_tr w) = (false, w_tr w)).
    { intros m w [_ [fr [rest [Hf Ho]]]] Hin. apply (catch_other_frame m _ fr rest Hf).
      intros ->. cbn in Hin. destruct Hin as [<-|[<-|[<-|[<-|[]]]]]; exact Ho. }
    apply ht_catch_false; [intros w H; apply Hc; [exact H | cbn; tauto]|]. cbv iota.
    apply ht_catch_false; [intros w H; apply Hc; [exact H | cbn; tauto]|]. cbv iota.
    apply ht_catch_false; [intros w H; apply Hc; [exact H | cbn; tauto]|]. cbv iota.
    apply ht_catch_false; [intros w H; apply Hc; [exact H | cbn; tauto]|]. cbv iota.
    eapply ht_conseq3; [| | |apply (cw_not_ok k q (sp_at sp0 n) _ _ Eq (spI_at n))].
    + intros w [H1 [fr [rest [H2 _]]]]. split; [exact H1|]. unfold tr_ok. rewrite H2. reflexivity.
    + auto.
    + auto.
Qed.

End Copy.

(* ====================================================================== *)
(*                 the first entry of the queue: precise steps            *)
(* ====================================================================== *)

(* q_get_head on a queue whose first path does not occur again: nothing is
   removed, and a ready head is the first entry *)
Lemma ht_get_head_first O f1 q p1 m1 t1 rest fuel :
  QRel q f1 ((p1, m1, t1) :: rest) -> count_paths p1 ((p1, m1, t1) :: rest) = 1 ->
  ht O (fun w => w_fs w = f1) (q_get_head fuel q)
     (fun r w => w_fs w = f1 /\ snd r = q /\
                 forall path meta, fst r = Some (QReady path meta) -> path = p1 /\ meta = m1)
     (fun w => w_fs w = f1).
Proof.
  intros HR Hcnt. rewrite q_get_head_unfold.
  assert (Hret : forall hd, (forall path meta, hd = Some (QReady path meta) -> path = p1 /\ meta = m1) ->
            ht O (fun w => w_fs w = f1) (ret_ (hd, q))
               (fun r w => w_fs w = f1 /\ snd r = q /\
                  forall path meta, fst r = Some (QReady path meta) -> path = p1 /\ meta = m1)
               (fun w => w_fs w = f1)).
  { intros hd Hhd. apply ht_ret. intros w Hw. cbn [fst snd]. auto. }
  eapply ht_bind with (R := fun _ w => w_fs w = f1); [apply ht_is_ok; auto|intros b0].
  destruct (negb b0); [apply Hret; intros ? ? E; discriminate|].
  destruct (q_size q =? 0)%N; [apply Hret; intros ? ? E; discriminate|].
  eapply ht_bind with (R := fun _ w => w_fs w = f1).
  { unfold k_fstatat_mtime. apply ht_sys; [auto | intros w e H; exact H|].
    intros w H. destruct (fs_lstat_mtime _ (w_fs w)); exact H. }
  intros st. destruct st as [mtime|e].
  2:{ eapply ht_bind with (R := fun _ w => w_fs w = f1).
      - unfold throw_errno, throw. apply ht_mod_tr. auto.
      - intros ?. apply Hret. intros ? ? E; discriminate. }
  eapply ht_bind with (R := fun _ w => w_fs w = f1).
  { intros o w _ H. cbn. exact H. }
  intros now. match goal with |- ht _ _ (if ?x then _ else _) _ _ => destruct x end;
    [apply Hret; intros ? ? E; discriminate|].
  eapply ht_bind; [apply (ht_read_entry O f1 q)|]. intros t.
  eapply ht_bind with
    (R := fun _ w => w_fs w = f1 /\
            match t with
            | Some x => exists t', lookup f1 (join (q_dir q) (dec (q_head q))) = Some (NLink x t')
            | None => True
            end).
  { apply ht_is_ok. intros w [Hw Ht]. split; [exact Hw|]. destruct t; [exact Ht | exact I]. }
  intros b2. destruct t as [target|]; [|apply ht_conseq3 with (P := fun w => w_fs w = f1)
                                            (Q := fun r w => w_fs w = f1 /\ snd r = q /\
                  forall path meta, fst r = Some (QReady path meta) -> path = p1 /\ meta = m1)
                                            (C := fun w => w_fs w = f1); auto;
                                         [intros w [H _]; exact H | apply Hret; intros ? ? E; discriminate]].
  destruct b2.
  2:{ eapply ht_conseq3; [| | |apply (Hret None)]; [intros w [H _]; exact H | auto | auto | intros ? ? E; discriminate]. }
  apply ht_pure_pre with (phi := target = encode m1 p1).
  { intros w [_ [t' Hl]]. pose proof (QRel_head _ _ _ _ _ _ HR) as Hh. rewrite Hh in Hl.
    inversion Hl. reflexivity. }
  intros ->.
  pose proof (QR_wf _ _ _ HR) as Hw. apply Forall_inv in Hw. destruct Hw as [Hnorm _].
  unfold qpath in Hnorm. cbn [fst] in Hnorm.
  rewrite (decode_encode m1 p1 Hnorm).
  rewrite (QR_bag _ _ _ HR p1), Hcnt. cbn [Nat.ltb Nat.leb].
  eapply ht_conseq3; [| | |apply (Hret (Some (QReady p1 m1)))]; [intros w [H _]; exact H | auto | auto|].
  intros path meta E. inversion E. auto.
Qed.

(* q_pop_head with an error in the trace does nothing *)
Lemma ht_pop_skip O (X C : world -> Prop) q :
  ht O (fun w => X w /\ tr_ok (w_tr w) = false) (q_pop_head q)
     (fun q' w => q' = q /\ X w /\ tr_ok (w_tr w) = false) C.
Proof.
  unfold q_pop_head, when_ok.
  eapply ht_bind with (R := fun b w => (X w /\ tr_ok (w_tr w) = false) /\ b = false).
  { apply ht_is_ok. intros w [H1 H2]. auto. }
  intros b. apply ht_pure_pre with (phi := b = false); [intros w [_ E]; exact E|]. intros ->.
  apply ht_ret. intros w [[H1 H2] _]. auto.
Qed.

Lemma existsb_false_ns s : existsb is_slash s = false -> ns s.
Proof.
  unfold ns. induction s as [|x s IH]; cbn [existsb forallb]; [reflexivity|].
  intros H. apply orb_false_iff in H. destruct H as [H1 H2]. rewrite H1. cbn [negb andb]. auto.
Qed.

Section First.
Variables (c : config) (oj : option journal) (f0 : fs) (d : str) (h0 : N).
Variables (p1 : str) (m1 : N) (t1 : Z) (rest : list qent).
Hypothesis D : disjoint_locs c.
Hypothesis Hd : qdir_ok2 c d.
Variables (i : nat) (b : str).
Hypothesis Hsrc : Src p1 i b f0.
Hypothesis Hcnt : count_paths p1 ((p1, m1, t1) :: rest) = 1.
Hypothesis Hfile : N.odd m1 = false.

Let ents0 : list qent := (p1, m1, t1) :: rest.
Notation G0 := (G c oj f0 f0 ents0 h0).

(* a complete version of the source of the first entry is in the store; for an
   entry that is not a history path it is the whole file *)
Definition Done (f : fs) : Prop :=
  exists off, (N.testbit m1 1 = false -> off = 0) /\ StoredCopy c b off f.

Definition PostB (r : tresult * handler) (w : world) : Prop :=
  exists k', k' <= length ents0 /\ G0 k' (h_q (snd r)) (w_fs w) /\
             HI c oj (snd r) /\ q_dir (h_q (snd r)) = d /\ (1 <= k' -> Done (w_fs w)).

Definition CrashB (w : world) : Prop :=
  exists k' q', k' <= length ents0 /\ q_dir q' = d /\ G0 k' q' (w_fs w) /\
                (1 <= k' -> Done (w_fs w)).

Lemma Done_preserved fm f' : preserved c fm f' -> Done fm -> Done f'.
Proof.
  intros Hp [off [Ho [s [j [Hu [Hl Hb]]]]]]. exists off. split; [exact Ho|].
  destruct (Hp s j (or_introl Hu) Hl) as [A B]. exists s, j. split; [exact Hu|]. split; [exact A|].
  rewrite B. exact Hb.
Qed.

Lemma PostB_0 r h1 w : HI c oj h1 -> q_dir (h_q h1) = d -> G0 0 (h_q h1) (w_fs w) -> PostB (r, h1) w.
Proof.
  intros Hh Eq HG. exists 0. cbn [snd]. split; [lia|]. split; [exact HG|]. split; [exact Hh|].
  split; [exact Eq|]. intros; lia.
Qed.

Lemma CrashB_0 q w : q_dir q = d -> G0 0 q (w_fs w) -> CrashB w.
Proof.
  intros Eq HG. exists 0, q. split; [lia|]. split; [exact Eq|]. split; [exact HG|]. intros; lia.
Qed.

(* the tail of the iteration once the version is in the store *)
Lemma tail_after_copy fuel rev h1 path rel pre_off r2 :
  HI c oj h1 -> q_dir (h_q h1) = d -> spI (c_store_root c) (snd r2) ->
  ht honest (fun w => G0 0 (h_q h1) (w_fs w) /\ Done (w_fs w))
     (file_tail fuel rev h1 c path rel pre_off r2) PostB CrashB.
Proof.
  intros Hh1 Eq Hr2. apply ht_freeze. intros w1 [HG1 HD1].
  set (fm := w_fs w1) in *.
  pose proof (tailG c oj f0 fm d ents0 h0 D Hd fuel rev h1 path rel pre_off r2 0
                (loopG c oj f0 fm d ents0 h0 D Hd fuel) Hh1 Eq (Nat.le_0_l _) Hr2) as HT.
  eapply ht_oracles with (O1 := fun _ => True); [auto|].
  eapply ht_conseq3; [| | |exact HT].
  - intros w ->. fold fm. destruct HG1 as [[[H1 _] H2] HN]. split; [split; [split; [exact H1|] | exact H2] | exact HN].
    split; [apply preserved_refl | apply H1].
  - intros r w [k' [[_ Hk] [[[[H1 H2] H3] HN] [H4 H5]]]]. exists k'. split; [exact Hk|].
    split; [split; [split; [split; exact H1 | exact H3] | exact HN]|]. split; [exact H4|]. split; [exact H5|].
    intros _. apply (Done_preserved fm); [apply H2 | exact HD1].
  - intros w [k' [q' [[_ Hk] [Eq' [[[H1 H2] H3] HN]]]]]. exists k', q'. split; [exact Hk|].
    split; [exact Eq'|]. split; [split; [split; [split; exact H1 | exact H3] | exact HN]|].
    intros _. apply (Done_preserved fm); [apply H2 | exact HD1].
Qed.

(* the tail of the iteration when the copy loop has left an error: no pop *)
Lemma tail_not_ok fuel rev h1 path rel pre_off r2 :
  HI c oj h1 -> q_dir (h_q h1) = d ->
  ht honest (fun w => G0 0 (h_q h1) (w_fs w) /\ tr_ok (w_tr w) = false)
     (file_tail fuel rev h1 c path rel pre_off r2) PostB CrashB.
Proof.
  intros Hh1 Eq. destruct r2 as [[ev is_stored] sp']. unfold file_tail.
  eapply ht_bind.
  { eapply ht_conseq3; [| | |apply (ht_pop_skip honest (fun w => G0 0 (h_q h1) (w_fs w)) CrashB (h_q h1))].
    - auto.
    - intros q' w H. exact H.
    - auto. }
  intros q2. apply ht_pure_pre with (phi := q2 = h_q h1); [intros w [E _]; exact E|]. intros ->.
  cbv zeta.
  assert (Hh2 : HI c oj (set_q (h_q h1) h1)) by (apply HI_set_q; [exact Hh1 | reflexivity]).
  eapply ht_bind with (R := fun b4 w => G0 0 (h_q h1) (w_fs w) /\ b4 = false).
  { apply ht_is_ok. intros w [_ [H1 H2]]. auto. }
  intros b4. apply ht_pure_pre with (phi := b4 = false); [intros w [_ E]; exact E|]. intros ->.
  cbn [negb].
  eapply ht_bind with (R := fun _ w => G0 0 (h_q h1) (w_fs w)).
  { unfold throw_context, throw. apply ht_mod_tr. intros w [H _]. exact H. }
  intros ?.
  eapply ht_bind with (R := fun _ w => G0 0 (h_q h1) (w_fs w)).
  { unfold throw_static, throw. apply ht_mod_tr. intros w H. exact H. }
  intros ?. apply ht_ret. intros w H. apply PostB_0; [exact Hh2 | exact Eq | exact H].
Qed.


(* ---------- the loop, started on the first entry ---------- *)

Lemma store_path_form rel version :
  create_store_path (c_store_root c) rel version =
  sp_at (mkSP ((c_store_root c ++ ch_slash :: rel) ++ ch_slash :: version) (get_file_extension rel) 0) 0.
Proof. rewrite sp_at_0. unfold create_store_path. f_equal. rewrite <- app_assoc. reflexivity. Qed.

Lemma first_iter fuel rev h :
  HI c oj h -> q_dir (h_q h) = d -> G0 0 (h_q h) f0 ->
  ht honest (fun w => w_fs w = f0) (handle_timeout_loop fuel rev h) PostB CrashB.
Proof.
  intros Hh Eq HG0.
  assert (HC0 : forall w, w_fs w = f0 -> CrashB w).
  { intros w E. apply (CrashB_0 (h_q h)); [exact Eq | rewrite E; exact HG0]. }
  assert (HR : QRel (h_q h) f0 ((p1, m1, t1) :: rest)) by (destruct HG0 as [[_ [_ H]] _]; exact H).
  assert (Hro : forall {A} (m : M A), (forall P, tok P m) ->
            ht honest (fun w => w_fs w = f0) m (fun _ w => w_fs w = f0) CrashB).
  { intros A m Hm. eapply ht_conseq3; [| | |apply (tok_lift honest (fun f => f = f0) m (Hm _))]; auto. }
  destruct fuel as [|fuel]; cbn [handle_timeout_loop].
  { apply ht_ret. intros w E. apply PostB_0; [exact Hh | exact Eq | rewrite E; exact HG0]. }
  eapply ht_bind; [apply Hro; intros P; tk_with leaf1|intros b0].
  destruct (negb b0).
  { apply ht_ret. intros w E. apply PostB_0; [exact Hh | exact Eq | rewrite E; exact HG0]. }
  eapply ht_bind; [apply Hro; intros P; tk_with leaf1|intros ?].
  eapply ht_bind.
  { eapply ht_conseq3; [| | |apply (ht_get_head_first honest f0 (h_q h) p1 m1 t1 rest _ HR Hcnt)];
      [auto | intros r w H; exact H | exact HC0]. }
  intros r. destruct r as [hd q1]. cbn [fst snd].
  apply ht_pure_pre with
    (phi := q1 = h_q h /\ forall path meta, hd = Some (QReady path meta) -> path = p1 /\ meta = m1).
  { intros w [_ H]. exact H. }
  intros [-> Hhd].
  assert (Hh1 : HI c oj (set_q (h_q h) h)) by (apply HI_set_q; [exact Hh | reflexivity]).
  set (h1 := set_q (h_q h) h) in *.
  assert (Eq1 : q_dir (h_q h1) = d) by exact Eq.
  assert (Hret : forall r, ht honest (fun w => w_fs w = f0) (ret_ (r, h1)) PostB CrashB).
  { intros r. apply ht_ret. intros w E. apply PostB_0; [exact Hh1 | exact Eq1 | rewrite E; exact HG0]. }
  eapply ht_bind with (R := fun _ w => w_fs w = f0).
  { eapply ht_conseq3; [| | |apply (Hro _ (finally_rethrow_static M_linq_cannot_get_head))];
      [intros w [H _]; exact H | auto | auto |]. intros P. tk_with leaf1. }
  intros ?.
  eapply ht_bind; [apply Hro; intros P; tk_with leaf1|intros b1].
  destruct b1; [|apply Hret].
  destruct hd as [[z|path meta]|]; [apply Hret| |apply Hret].
  destruct (Hhd path meta eq_refl) as [-> ->].
  pose proof Hh1 as [Ecfg [Ej _]]. rewrite Ecfg.
  eapply ht_bind; [apply Hro; intros P; tk_with leaf1|intros v].
  eapply ht_bind with (R := fun bv w => w_fs w = f0 /\ bv = tr_ok (w_tr w)); [apply ht_is_ok; auto|intros bv].
  (* the check of the version string *)
  eapply ht_bind with
    (R := fun _ w => w_fs w = f0 /\
            (tr_ok (w_tr w) = true -> forall ver, v = Some ver -> existsb is_slash ver = false)).
  { destruct v as [ver|]; [destruct bv; [destruct (existsb is_slash ver) eqn:Es|]|].
    - eapply ht_bind with (R := fun _ w => w_fs w = f0 /\ tr_ok (w_tr w) = false).
      + unfold throw_context, throw. apply ht_mod_tr. intros w [H _]. split; [exact H | reflexivity].
      + intros ?. unfold throw_static, throw. apply ht_mod_tr. intros w [H _]. split; [exact H|].
        intros E. cbn in E. discriminate.
    - apply ht_ret. intros w [H _]. split; [exact H|]. intros _ ver' E. inversion E; subst. exact Es.
    - apply ht_ret. intros w [H Hb]. split; [exact H|]. intros E. congruence.
    - apply ht_ret. intros w [H _]. split; [exact H|]. intros _ ver' E. discriminate. }
  intros ?.
  eapply ht_bind with
    (R := fun b2 w => w_fs w = f0 /\ (b2 = true -> forall ver, v = Some ver -> existsb is_slash ver = false)).
  { apply ht_is_ok. intros w [H1 H2]. auto. }
  intros b2.
  destruct v as [version|];
    [|eapply ht_conseq3; [| | |apply (Hret TError)]; [intros w [H _]; exact H | auto | auto]].
  destruct b2;
    [|eapply ht_conseq3; [| | |apply (Hret TError)]; [intros w [H _]; exact H | auto | auto]].
  apply ht_pure_pre with (phi := ns version).
  { intros w [_ H]. apply existsb_false_ns. apply (H eq_refl version eq_refl). }
  intros Hver.
  eapply ht_conseq3 with (P := fun w => w_fs w = f0) (Q := PostB) (C := CrashB);
    [intros w [H _]; exact H | auto | auto |].
  cbv zeta.
  match goal with |- ht _ _ (if ?x then _ else _) _ _ => destruct x end.
  { eapply ht_bind; [apply Hro; intros P; tk_with leaf1|intros ?].
    eapply ht_bind; [apply Hro; intros P; tk_with leaf1|intros ?]. apply Hret. }
  rewrite Hfile.
  set (rel := skipn (Nat.min (length p1) (h_cpl h1)) p1).
  set (offp := c_offset_root c ++ ch_slash :: rel).
  assert (Hoffp : StoreFs.under (c_offset_root c) offp) by (exists rel; reflexivity).
  (* the stored offset *)
  eapply ht_bind with
    (R := fun off w => w_fs w = f0 /\ (N.testbit m1 1 = false -> off = 0%N)).
  { destruct (N.testbit m1 1).
    - eapply ht_conseq3; [| | |apply (Hro _ (read_counter offp))];
        [auto | intros ? w H; split; [exact H | discriminate] | auto |]. intros P. tk_with leaf1.
    - apply ht_ret. auto. }
  intros off. apply ht_pure_pre with (phi := N.testbit m1 1 = false -> off = 0%N); [intros w [_ H]; exact H|].
  intros Hoff.
  eapply ht_bind with (R := fun b3 w => w_fs w = f0 /\ b3 = tr_ok (w_tr w)).
  { apply ht_is_ok. intros w [H _]. auto. }
  intros b3. destruct b3; cbn [negb];
    [|eapply ht_conseq3; [| | |apply (Hret TError)]; [intros w [H _]; exact H | auto | auto]].
  eapply ht_bind with (R := fun f w => (w_fs w = f0 /\ t_frames (w_tr w) = []) /\ f = f0).
  { intros o w _ [H1 H2]. cbn. split; [split; [exact H1|] | exact H1]. apply tr_ok_frames. auto. }
  intros f. apply ht_pure_pre with (phi := f = f0); [intros w [_ E]; exact E|]. intros ->.
  (* the copy loop *)
  rewrite (store_path_form rel version).
  rewrite (dst_dirname c rel version Hver 0).
  eapply ht_bind.
  { eapply ht_conseq3;
      [| | |apply (ht_file_store_loop c oj f0 d ents0 h0 D Hd p1 i b (N.to_nat off) offp (N.testbit m1 1) c
                     Hoffp rel version f0 Hver _ 0 0 (h_q h1) Eq1)].
    - intros w [[H1 H2] _]. rewrite <- H1 in *. split; [exact HG0|]. split; [exact Hsrc|].
      split; [intros p _ H; exact H | exact H2].
    - intros r w H. exact H.
    - intros w H. apply (CrashB_0 (h_q h1)); [exact Eq1 | exact H].
    - unfold dir_entry_count. lia.
    - intros m Hm. lia. }
  intros r2.
  apply ht_pure_pre with (phi := spI (c_store_root c) (snd r2)); [intros w [_ [H _]]; exact H|].
  intros Hr2.
  apply ht_case with (cond := fun w => tr_ok (w_tr w)).
  - eapply ht_conseq3; [| | |apply (tail_after_copy fuel rev h1 p1 rel _ r2 Hh1 Eq1 Hr2)].
    + intros w [[H1 [_ H3]] Hok]. split; [exact H1|]. exists (N.to_nat off). split; [|apply H3; exact Hok].
      intros E. rewrite (Hoff E). reflexivity.
    + auto.
    + auto.
  - eapply ht_conseq3; [| | |apply (tail_not_ok fuel rev h1 p1 rel _ r2 Hh1 Eq1)].
    + intros w [[H1 _] Hok]. auto.
    + auto.
    + auto.
Qed.

End First.

(* ====================================================================== *)
(*                              MAIN THEOREMS                             *)
(* ====================================================================== *)

(* EVERY oracle -- any combination of failing calls, short transfers and a
   crash (result None) before any call.  Started from a world whose queue
   directory holds [ents] (QRel: link i is the well-formed encoding of entry i
   under the name head + i, every other numeric name is free) and nothing else
   (qclean), with unique dentry keys, in the final world:
     (1) the queue directory still decodes: some in-memory queue q' is related
         by QRel to it (every remaining link is a well-formed entry);
     (2) it holds the SUFFIX [skipn k ents] of the original entries, in order,
         under their original names (the first remaining link is head + k);
     (4) every file that was in the store or project store is still there with
         the same bytes, and the inode invariant SI holds;
   when the pass returned, q' is the queue of the returned handler: the
   hypotheses hold again of the result, so the theorem chains over passes. *)
Theorem timeout_crash_queue_store :
  forall (o : oracle) (w : world) (rev : bool) (h : handler) (ents : list qent),
  disjoint_locs (h_cfg h) ->
  qdir_ok2 (h_cfg h) (q_dir (h_q h)) ->
  SI (h_cfg h) (h_journal h) (w_fs w) ->
  keys_nodup (w_fs w) ->
  qclean (q_dir (h_q h)) (w_fs w) ->
  QRel (h_q h) (w_fs w) ents ->
  let res := handle_timeout rev h o w in
  let f' := w_fs (snd res) in
  exists (k : nat) (q' : qmem),
    k <= length ents /\
    q_dir q' = q_dir (h_q h) /\
    keys_nodup f' /\ qclean (q_dir (h_q h)) f' /\ QRel q' f' (skipn k ents) /\
    (k < length ents -> q_head q' = (q_head (h_q h) + N.of_nat k)%N) /\
    preserved (h_cfg h) (w_fs w) f' /\ SI (h_cfg h) (h_journal h) f' /\
    (forall r h', fst res = Some (r, h') ->
       h_q h' = q' /\ h_cfg h' = h_cfg h /\ h_journal h' = h_journal h).
Proof.
  intros o w rev h ents D Hd HS Hnd Hcl HR res f'.
  set (c := h_cfg h) in *. set (oj := h_journal h) in *. set (d := q_dir (h_q h)) in *.
  set (f0 := w_fs w) in *.
  assert (HI0 : HI c oj h) by (split; [reflexivity | split; [reflexivity | apply Hd]]).
  assert (HG : G c oj f0 f0 ents (q_head (h_q h)) 0 (h_q h) f0).
  { split; [split; [split; (split; [apply preserved_refl | exact HS]) | split; [split; [exact Hnd | exact Hcl] | exact HR]]|].
    intros _. lia. }
  pose proof (loopG c oj f0 f0 d ents (q_head (h_q h)) D Hd (S (S (N.to_nat (q_size (h_q h))))) rev h 0
                HI0 eq_refl (Nat.le_0_l _) o w I HG) as HL.
  subst res f'. unfold handle_timeout, bind.
  destruct (handle_timeout_loop (S (S (N.to_nat (q_size (h_q h))))) rev h o w) as [[r|] w1].
  - rewrite is_ok_eq. unfold ret_. cbn [fst snd].
    destruct HL as [k [[_ Hk] [[[[H1 _] [[H2 H2'] H3]] HN] [[E1 [E2 _]] E3]]]].
    exists k, (h_q (snd r)). split; [exact Hk|]. split; [exact E3|]. split; [exact H2|].
    split; [rewrite <- E3; exact H2'|]. split; [exact H3|]. split; [exact HN|]. split; [apply H1|]. split; [apply H1|].
    intros r0 h' E. destruct (tr_ok (w_tr w1)); inversion E; subst; cbn [snd] in *; auto.
  - cbn [fst snd].
    destruct HL as [k [q' [[_ Hk] [E3 [[[H1 _] [[H2 H2'] H3]] HN]]]]].
    exists k, q'. split; [exact Hk|]. split; [exact E3|]. split; [exact H2|].
    split; [rewrite <- E3; exact H2'|]. split; [exact H3|]. split; [exact HN|]. split; [apply H1|]. split; [apply H1|].
    intros r0 h' E. discriminate.
Qed.

(* EVERY HONEST oracle (CrashCopy.honest: no injected ENOENT / ENOTDIR / EACCES / EEXIST,
   no zero-length transfer; any other failure at any call, any short transfer,
   a crash before any call).  "Pop only after the copy": the first entry is a
   file entry (not a project entry) whose path is queued once and whose source
   is a readable regular file with bytes [b].  If, in the final world --
   whether the pass returned, failed or the process died -- the link of that
   entry is no longer in the queue directory, then the store holds a file whose
   bytes are [skipn off b]: the whole source (off = 0) unless the entry is a
   history path, for which [off] is the offset read from the offset store. *)
Theorem timeout_crash_pop_after_copy :
  forall (o : oracle) (w : world) (rev : bool) (h : handler)
         (p1 : str) (m1 : N) (t1 : Z) (rest : list qent) (i : nat) (b : str),
  honest o ->
  disjoint_locs (h_cfg h) ->
  qdir_ok2 (h_cfg h) (q_dir (h_q h)) ->
  SI (h_cfg h) (h_journal h) (w_fs w) ->
  keys_nodup (w_fs w) ->
  qclean (q_dir (h_q h)) (w_fs w) ->
  QRel (h_q h) (w_fs w) ((p1, m1, t1) :: rest) ->
  count_paths p1 ((p1, m1, t1) :: rest) = 1 ->
  N.odd m1 = false ->
  lookup (w_fs w) p1 = Some (NFile i) ->
  get_file (w_fs w) i = mkFile b true ->
  let res := handle_timeout rev h o w in
  let f' := w_fs (snd res) in
  lookup f' (join (q_dir (h_q h)) (dec (q_head (h_q h)))) = None ->
  exists (off : nat) (s : str) (j : nat),
    (N.testbit m1 1 = false -> off = 0) /\
    StoreFs.under (c_store_root (h_cfg h)) s /\
    lookup f' s = Some (NFile j) /\
    f_bytes (get_file f' j) = skipn off b.
Proof.
  intros o w rev h p1 m1 t1 rest i b Ho D Hd HS Hnd Hcl HR Hcnt Hfile Hl Hg res f' Hgone.
  set (c := h_cfg h) in *. set (oj := h_journal h) in *. set (d := q_dir (h_q h)) in *.
  set (f0 := w_fs w) in *. set (ents := (p1, m1, t1) :: rest) in *.
  assert (HI0 : HI c oj h) by (split; [reflexivity | split; [reflexivity | apply Hd]]).
  assert (HG : G c oj f0 f0 ents (q_head (h_q h)) 0 (h_q h) f0).
  { split; [split; [split; (split; [apply preserved_refl | exact HS]) | split; [split; [exact Hnd | exact Hcl] | exact HR]]|].
    intros _. lia. }
  assert (Hsrc : Src p1 i b f0).
  { split; [exact Hl|]. split; [exact Hg|]. apply (si_lt _ _ _ HS p1). apply lookup_dent. exact Hl. }
  pose proof (first_iter c oj f0 d (q_head (h_q h)) p1 m1 t1 rest D Hd i b Hsrc Hcnt Hfile
                (S (S (N.to_nat (q_size (h_q h))))) rev h HI0 eq_refl HG o w Ho eq_refl) as HL.
  assert (Hfin : forall k' q' fx, q_dir q' = d -> G c oj f0 f0 ents (q_head (h_q h)) k' q' fx ->
            lookup fx (join d (dec (q_head (h_q h)))) = None -> 1 <= k').
  { intros k' q' fx Eq' [[_ [_ HR']] HN'] Hnone. destruct k' as [|k']; [|lia]. exfalso.
    cbn [skipn] in HR'. pose proof (QRel_head _ _ _ _ _ _ HR') as Hh.
    rewrite Eq', (HN' ltac:(cbn; lia)) in Hh. replace (q_head (h_q h) + N.of_nat 0)%N with (q_head (h_q h)) in Hh by lia.
    congruence. }
  assert (Hdone : Done c m1 b f' -> exists off s j, (N.testbit m1 1 = false -> off = 0) /\
            StoreFs.under (c_store_root c) s /\ lookup f' s = Some (NFile j) /\
            f_bytes (get_file f' j) = skipn off b).
  { intros [off [H1 [s [j H2]]]]. exists off, s, j. tauto. }
  apply Hdone. subst res f'. unfold handle_timeout, bind in *.
  destruct (handle_timeout_loop (S (S (N.to_nat (q_size (h_q h))))) rev h o w) as [[r|] w1].
  - rewrite is_ok_eq in *. unfold ret_ in *. cbn [fst snd] in *.
    destruct HL as [k' [_ [HG' [_ [E3 HD]]]]]. apply HD. eapply Hfin; eauto.
  - cbn [fst snd] in *.
    destruct HL as [k' [q' [_ [E3 [HG' HD]]]]]. apply HD. eapply Hfin; eauto.
Qed.

Lemma Forall_skipn {A} (P : A -> Prop) k : forall l, Forall P l -> Forall P (skipn k l).
Proof.
  induction k as [|k IH]; intros [|x l] H; cbn [skipn]; try exact H.
  apply IH. inversion H; assumption.
Qed.

(* (1), connected to load_linq: whatever the oracle [o] of the pass did -- in
   particular if the process died -- a restart that meets no fault itself
   (benign oracle [o2], ok trace, any call counter / log / clock) loads the
   queue directory successfully, and the loaded queue holds exactly a suffix of
   the original entries; nothing on disk is changed by the load *)
Theorem timeout_crash_then_restart_loads :
  forall (o : oracle) (w : world) (rev : bool) (h : handler) (ents : list qent)
         (o2 : oracle) (w2 : world) (deb : Z) (g : nat),
  disjoint_locs (h_cfg h) ->
  qdir_ok2 (h_cfg h) (q_dir (h_q h)) ->
  SI (h_cfg h) (h_journal h) (w_fs w) ->
  keys_nodup (w_fs w) ->
  qclean (q_dir (h_q h)) (w_fs w) ->
  QRel (h_q h) (w_fs w) ents ->
  Forall (fits g) ents ->
  benign o2 -> tr_ok (w_tr w2) = true ->
  w_fs w2 = w_fs (snd (handle_timeout rev h o w)) ->
  exists (k : nat) (q2 : qmem) (w2' : world),
    k <= length ents /\
    load_linq (q_dir (h_q h)) deb g o2 w2 = (Some (Some q2), w2') /\
    QRel q2 (w_fs w2') (skipn k ents) /\
    w_fs w2' = w_fs w2 /\ tr_ok (w_tr w2') = true.
Proof.
  intros o w rev h ents o2 w2 deb g D Hd HS Hnd Hcl HR Hg Ho2 Hok2 Ef.
  destruct (timeout_crash_queue_store o w rev h ents D Hd HS Hnd Hcl HR)
    as [k [q' [Hk [Eq [Hnd' [Hcl' [HR' _]]]]]]].
  rewrite <- Ef in Hnd', Hcl', HR'. rewrite <- Eq in Hcl'.
  destruct (load_linq_ok o2 q' (skipn k ents) deb g w2 Ho2 Hok2 Hnd' Hcl' HR' (Forall_skipn _ k _ Hg))
    as [q2 [w2' [E [HR2 [_ [_ [_ [Hf Hok]]]]]]]].
  exists k, q2, w2'. rewrite <- Eq. auto.
Qed.

Print Assumptions timeout_crash_queue_store.
Print Assumptions timeout_crash_pop_after_copy.
Print Assumptions timeout_crash_then_restart_loads.

(* ====================================================================== *)
(*    a concrete pass, crashed / failed at EVERY call index; witnesses     *)
(* ====================================================================== *)

Fixpoint memb (x : str) (l : list str) : bool :=
  match l with [] => false | y :: l' => str_eqb x y || memb x l' end.
Fixpoint nodupb (l : list str) : bool :=
  match l with [] => true | x :: l' => negb (memb x l') && nodupb l' end.

Lemma memb_In x l : In x l -> memb x l = true.
Proof.
  induction l as [|y l IH]; cbn [In memb]; [tauto|]. intros [->|H].
  - rewrite str_eqb_refl. reflexivity.
  - rewrite (IH H). apply orb_true_r.
Qed.

Lemma nodupb_ok l : nodupb l = true -> NoDup l.
Proof.
  induction l as [|x l IH]; cbn [nodupb]; [constructor|]. intros H.
  apply andb_true_iff in H. destruct H as [H1 H2]. constructor; [|auto].
  intros Hin. rewrite (memb_In _ _ Hin) in H1. discriminate.
Qed.

Module CrashExample.
  Import StoreExample.
  Local Open Scope char_scope.

  Definition pa : str := ["/"; "w"; "/"; "a"].
  Definition pb : str := ["/"; "w"; "/"; "b"].
  Definition va : str := ["/"; "s"; "/"; "w"; "/"; "a"; "/"; "1"; "0"; "0"].
  Definition vb : str := ["/"; "s"; "/"; "w"; "/"; "b"; "/"; "1"; "0"; "0"].
  Definition n0 : str := ["/"; "q"; "/"; "0"].
  Definition n1 : str := ["/"; "q"; "/"; "1"].

  (* the configuration of StoreExample: store /s, project store /p, unstable
     tree /u, queue /q, offsets /o, journal /j (open, inode 3).  Two edited
     files: /w/a (inode 4, "newer") queued as a plain path under the name 0,
     /w/b (inode 5, "bee") queued as a history path under the name 1. *)
  Definition fsE : fs :=
    mkFs [ (["/"; "s"], NDir); (["/"; "p"], NDir); (["/"; "u"], NDir); (["/"; "o"], NDir);
           (["/"; "j"], NFile 3);
           (["/"; "q"], NDir);
           (n0, NLink (encode 0 pa) 0%Z);
           (n1, NLink (encode 2 pb) 0%Z);
           (["/"; "w"], NDir); (pa, NFile 4); (pb, NFile 5) ]
         [ (3, mkFile [] true); (4, mkFile ["n"; "e"; "w"; "e"; "r"] true);
           (5, mkFile ["b"; "e"; "e"] true) ]
         6.

  Definition entsE : list qent := [(pa, 0%N, 0%Z); (pb, 2%N, 0%Z)].

  Definition hE : handler :=
    mkH cfg0 None 1 (mkQ p_queue 0 2 0%Z 16 [pb; pa]) (Some (mkJ 3 ["%"; "s"])) [] [].

  Definition wE : world := mkW fsE 0 [] 100%Z tr_empty.

  (* ---------- the hypotheses of the theorems hold ---------- *)

  Lemma fsE_nodup : keys_nodup fsE.
  Proof. unfold keys_nodup. apply nodupb_ok. vm_compute. reflexivity. Qed.

  Lemma fsE_clean : qclean p_queue fsE.
  Proof.
    split; [discriminate|]. intros p Hd Hr Hl.
    assert (Hin : In p (map fst (fs_dents fsE))).
    { destruct (str_in_dec p (map fst (fs_dents fsE))) as [H|H]; [exact H|].
      exfalso. apply Hl. rewrite (lookup_nonroot _ _ Hr). apply notin_alookup_none. exact H. }
    cbn in Hin.
    repeat (destruct Hin as [Hin|Hin]; [subst p; try (vm_compute in Hd; discriminate Hd)|]);
      try contradiction.
    - exists 0%N. vm_compute. reflexivity.
    - exists 1%N. vm_compute. reflexivity.
  Qed.

  Lemma dec0 : dec 0 = ["0"].
  Proof. vm_compute. reflexivity. Qed.
  Lemma dec1 : dec 1 = ["1"].
  Proof. vm_compute. reflexivity. Qed.

  Lemma QRelE : QRel (h_q hE) fsE entsE.
  Proof.
    assert (Hnr : p_queue <> root_path) by discriminate.
    constructor; cbn [h_q hE q_dir q_head q_size q_bag q_len_guess entsE length].
    - reflexivity.
    - discriminate.
    - vm_compute. reflexivity.
    - exact Hnr.
    - intros i p m t Hi. destruct i as [|[|i]]; cbn [nth_error] in Hi.
      + inversion Hi; subst. vm_compute. reflexivity.
      + inversion Hi; subst. vm_compute. reflexivity.
      + destruct i; discriminate.
    - intros k Hk.
      assert (Hk2 : (2 <= k)%N) by lia.
      rewrite (lookup_nonroot _ _ (join_dec_nonroot p_queue k Hnr)).
      apply notin_alookup_none. rewrite (join_nonroot p_queue _ Hnr). cbn.
      intros Hin.
      repeat (destruct Hin as [Hin|Hin]; [try discriminate Hin|]); try contradiction.
      + injection Hin as Hin. rewrite <- dec0 in Hin. apply dec_inj in Hin. lia.
      + injection Hin as Hin. rewrite <- dec1 in Hin. apply dec_inj in Hin. lia.
    - intros v. unfold entsE. cbn [count_paths qpath fst]. rewrite !bag_count_cons. unfold bag_count. cbn [filter length].
      destruct (str_eqb v pa), (str_eqb v pb); reflexivity.
    - constructor; [|constructor; [|constructor]]; cbn [qpath fst snd]; (split; [apply normalb_spec; vm_compute; reflexivity|]);
        unfold fits; apply QueueExample.fits_small; vm_compute; lia.
  Qed.

  Example hyps_hold :
    disjoint_locs (h_cfg hE) /\
    qdir_ok2 (h_cfg hE) (q_dir (h_q hE)) /\
    SI (h_cfg hE) (h_journal hE) (w_fs wE) /\
    keys_nodup (w_fs wE) /\
    qclean (q_dir (h_q hE)) (w_fs wE) /\
    QRel (h_q hE) (w_fs wE) entsE /\
    count_paths pa entsE = 1 /\ N.odd 0 = false /\
    lookup (w_fs wE) pa = Some (NFile 4) /\
    get_file (w_fs wE) 4 = mkFile ["n"; "e"; "w"; "e"; "r"] true.
  Proof.
    assert (D : disjoint_locs cfg0) by (apply disjoint_locsb_ok; vm_compute; reflexivity).
    split; [exact D|]. split; [apply (qdir_ok2_queue cfg0 D)|].
    split; [apply SIb_ok; vm_compute; reflexivity|].
    split; [exact fsE_nodup|]. split; [exact fsE_clean|]. split; [exact QRelE|].
    repeat split; vm_compute; reflexivity.
  Qed.

  (* the theorems, instantiated: for every oracle ... *)
  Example every_oracle (o : oracle) (rev : bool) :
    let f' := w_fs (snd (handle_timeout rev hE o wE)) in
    exists k q', k <= 2 /\ QRel q' f' (skipn k entsE) /\
                 (k < 2 -> q_head q' = N.of_nat k) /\ preserved cfg0 fsE f'.
  Proof.
    destruct hyps_hold as [D [Hd [HS [Hnd [Hcl [HR _]]]]]].
    destruct (timeout_crash_queue_store o wE rev hE entsE D Hd HS Hnd Hcl HR)
      as [k [q' [H1 [_ [_ [_ [H2 [H3 [H4 _]]]]]]]]].
    exists k, q'. split; [exact H1|]. split; [exact H2|]. split; [|exact H4].
    intros Hk. rewrite (H3 Hk). cbn. lia.
  Qed.

  (* ... and for every honest oracle: if /q/0 is gone, "newer" is in the store *)
  Example every_honest_oracle (o : oracle) (rev : bool) : honest o ->
    let f' := w_fs (snd (handle_timeout rev hE o wE)) in
    lookup f' n0 = None ->
    exists s j, StoreFs.under p_store s /\ lookup f' s = Some (NFile j) /\
                f_bytes (get_file f' j) = ["n"; "e"; "w"; "e"; "r"].
  Proof.
    intros Ho f' Hgone. subst f'.
    destruct hyps_hold as [D [Hd [HS [Hnd [Hcl [HR [Hc [Hf [Hl Hg]]]]]]]]].
    destruct (timeout_crash_pop_after_copy o wE rev hE pa 0%N 0%Z [(pb, 2%N, 0%Z)] 4 _
                Ho D Hd HS Hnd Hcl HR Hc Hf Hl Hg Hgone) as [off [s [j [H0 [H1 [H2 H3]]]]]].
    exists s, j. split; [exact H1|]. split; [exact H2|]. rewrite H3, (H0 eq_refl). reflexivity.
  Qed.

  (* ---------- the pass crashed / failed at every call index ---------- *)

  Definition crash_at (k : nat) : oracle := fun i => if Nat.eqb i k then FCrash else FNone.
  Definition fail_at (k : nat) (e : errno) : oracle := fun i => if Nat.eqb i k then FFail e else FNone.
  Definition fail_then_crash (k j : nat) (e : errno) : oracle :=
    fun i => if Nat.eqb i k then FFail e else if Nat.eqb i j then FCrash else FNone.

  Definition node_eqb (a b : node) : bool :=
    match a, b with
    | NDir, NDir => true
    | NFile x, NFile y => Nat.eqb x y
    | NLink s m, NLink s' m' => str_eqb s s' && Z.eqb m m'
    | _, _ => false
    end.

  Fixpoint dents_eqb (a b : list (str * node)) : bool :=
    match a, b with
    | [], [] => true
    | (p, n) :: a', (p', n') :: b' => str_eqb p p' && node_eqb n n' && dents_eqb a' b'
    | _, _ => false
    end.

  (* the entries of the queue directory, in directory order *)
  Definition qlinks (f : fs) : list (str * node) :=
    filter (fun e => Str.under p_queue (fst e)) (fs_dents f).

  Definition linksE : list (str * node) :=
    [(n0, NLink (encode 0 pa) 0%Z); (n1, NLink (encode 2 pb) 0%Z)].

  Definition suffixb (f : fs) : bool :=
    existsb (fun k => dents_eqb (qlinks f) (skipn k linksE)) [0; 1; 2].

  Definition has_version (f : fs) (p content : str) : bool :=
    match lookup f p with
    | Some (NFile j) => str_eqb (f_bytes (get_file f j)) content
    | _ => false
    end.

  (* a restart (load_linq without faults) reads the directory back *)
  Definition loads (f : fs) : bool :=
    match load_linq p_queue 0%Z 16 no_faults (mkW f 0 [] 100%Z tr_empty) with
    | (Some (Some q), w') =>
        N.eqb (q_size q) (N.of_nat (length (qlinks f))) && tr_ok (w_tr w') &&
        (N.eqb (q_size q) 0 || N.eqb (q_head q + q_size q) 2)
    | _ => false
    end.

  (* the crash invariant, as a boolean: the queue directory holds a suffix of
     the two links, it loads, and a link is gone only if its version is complete *)
  Definition inv_ok (f : fs) : bool :=
    suffixb f && loads f &&
    match lookup f n0 with None => has_version f va ["n"; "e"; "w"; "e"; "r"] | Some _ => true end &&
    match lookup f n1 with None => has_version f vb ["b"; "e"; "e"] | Some _ => true end.

  Definition final (o : oracle) : fs := w_fs (snd (handle_timeout false hE o wE)).
  Definition died (o : oracle) : bool :=
    match fst (handle_timeout false hE o wE) with None => true | Some _ => false end.

  (* the fault-free pass issues 36 calls, stores both versions and empties the queue *)
  Example fault_free_pass :
    w_n (snd (handle_timeout false hE no_faults wE)) = 36 /\
    died no_faults = false /\
    qlinks (final no_faults) = [] /\
    has_version (final no_faults) va ["n"; "e"; "w"; "e"; "r"] = true /\
    has_version (final no_faults) vb ["b"; "e"; "e"] = true.
  Proof. vm_compute. repeat split. Qed.

  (* a crash before EVERY one of the 36 calls (and no crash: index 36) *)
  Example crash_at_every_call :
    forallb (fun k => inv_ok (final (crash_at k))) (seq 0 37) = true /\
    forallb (fun k => died (crash_at k)) (seq 0 36) = true /\
    (* all three stages occur among the crashed worlds *)
    map (fun k => length (qlinks (final (crash_at k)))) [0; 13; 14; 34; 35] = [2; 2; 1; 1; 0].
  Proof. vm_compute. repeat split. Qed.

  (* a failing call (EIO) at every index, and a failing call followed by a crash
     at every later index *)
  Example fail_at_every_call :
    forallb (fun k => inv_ok (final (fail_at k EIO))) (seq 0 37) = true /\
    forallb (fun k => forallb (fun j => inv_ok (final (fail_then_crash k j EIO))) (seq 0 40)) (seq 0 37) = true.
  Proof. vm_compute. split; reflexivity. Qed.

  (* the class of honest oracles contains every crash point, every EIO failure,
     and chunked transfers *)
  Example honest_oracles k j :
    honest no_faults /\ honest (crash_at k) /\ honest (fail_at k EIO) /\
    honest (fail_then_crash k j ENOSPC) /\ honest (fun i => if Nat.eqb i k then FCrash else FChunk 2).
  Proof.
    repeat split; intros i; unfold no_faults, crash_at, fail_at, fail_then_crash; cbn;
      repeat (destruct (Nat.eqb _ _)); cbn; auto; repeat split; try discriminate; lia.
  Qed.

  (* a restart after ANY behaviour of the pass loads the queue (by the theorem) *)
  Example every_oracle_restart (o o2 : oracle) (rev : bool) (w2 : world) :
    benign o2 -> tr_ok (w_tr w2) = true ->
    w_fs w2 = w_fs (snd (handle_timeout rev hE o wE)) ->
    exists k q2 w2', k <= 2 /\ load_linq p_queue 0%Z 16 o2 w2 = (Some (Some q2), w2') /\
                     QRel q2 (w_fs w2') (skipn k entsE).
  Proof.
    intros Ho2 Hok2 Ef.
    destruct hyps_hold as [D [Hd [HS [Hnd [Hcl [HR _]]]]]].
    assert (Hg : Forall (fits 16) entsE).
    { constructor; [|constructor; [|constructor]];
        unfold fits; apply QueueExample.fits_small; vm_compute; lia. }
    destruct (timeout_crash_then_restart_loads o wE rev hE entsE o2 w2 0%Z 16 D Hd HS Hnd Hcl HR Hg Ho2 Hok2 Ef)
      as [k [q2 [w2' [H1 [H2 [H3 _]]]]]].
    exists k, q2, w2'. auto.
  Qed.

  (* a crash in the middle of the copy (transfers of 2 bytes, death before the
     third sendfile) leaves an INCOMPLETE file under the version name -- sync_file
     writes the destination in place -- but the entry is still queued: a second
     pass after the restart stores the complete version under the next name *)
  Definition o_mid : oracle := fun i => if Nat.eqb i 10 then FCrash else FChunk 2.
  Definition va1 : str := va ++ ["-"; "1"].
  Example crash_mid_copy_then_second_pass :
    died o_mid = true /\
    has_version (final o_mid) va ["n"; "e"; "w"; "e"] = true /\
    dents_eqb (qlinks (final o_mid)) linksE = true /\
    inv_ok (final o_mid) = true /\
    match load_linq p_queue 0%Z 16 no_faults (mkW (final o_mid) 0 [] 100%Z tr_empty) with
    | (Some (Some q), w1) =>
        let h1 := mkH cfg0 None 1 q (Some (mkJ 3 ["%"; "s"])) [] [] in
        let f2 := w_fs (snd (handle_timeout false h1 no_faults w1)) in
        qlinks f2 = [] /\
        has_version f2 va1 ["n"; "e"; "w"; "e"; "r"] = true /\
        has_version f2 vb ["b"; "e"; "e"] = true /\
        has_version f2 va ["n"; "e"; "w"; "e"] = true
    | _ => False
    end.
  Proof. vm_compute. repeat split. Qed.

  (* ---------- why the oracle has to be honest for "pop only after the copy" ---------- *)

  Definition fault_list (l : list (nat * fault)) : oracle :=
    fun i => match find (fun e => Nat.eqb (fst e) i) l with Some e => snd e | None => FNone end.

  (* no file in the store has the bytes [content] *)
  Definition no_copy (f : fs) (content : str) : bool :=
    forallb (fun e => match snd e with
                      | NFile j => negb (Str.under p_store (fst e) && str_eqb (f_bytes (get_file f j)) content)
                      | _ => true
                      end) (fs_dents f).

  Lemma no_copy_ok f content : no_copy f content = true ->
    ~ exists s j, StoreFs.under p_store s /\ lookup f s = Some (NFile j) /\ f_bytes (get_file f j) = content.
  Proof.
    intros H [s [j [Hu [Hl Hb]]]]. unfold no_copy in H. rewrite forallb_forall in H.
    specialize (H (s, NFile j) (lookup_dent _ _ _ Hl)). cbn [fst snd] in H.
    apply underb_spec in Hu. rewrite Hu, Hb, str_eqb_refl in H. discriminate.
  Qed.

  (* the statement of timeout_crash_pop_after_copy without [honest o] is FALSE in the model: *)

  (* (a) two injected EEXIST on the O_EXCL opens exhaust the fuel of the copy loop
         (a model device: the C loop is unbounded and would try a third name) *)
  Definition o_eexist : oracle := fault_list [(6, FFail EEXIST); (15, FFail EEXIST)].
  Lemma pop_after_copy_any_oracle_refuted_eexist :
    ~ honest o_eexist /\
    lookup (final o_eexist) n0 = None /\
    ~ exists s j, StoreFs.under p_store s /\ lookup (final o_eexist) s = Some (NFile j) /\
                  f_bytes (get_file (final o_eexist) j) = ["n"; "e"; "w"; "e"; "r"].
  Proof.
    split; [intros H; specialize (H 6); cbn in H; tauto|].
    split; [vm_compute; reflexivity | apply no_copy_ok; vm_compute; reflexivity].
  Qed.

  (* (b) a sendfile that reports 0 bytes although bytes remain is taken for end of file *)
  Definition o_short0 : oracle := fault_list [(8, FShort 0)].
  Lemma pop_after_copy_any_oracle_refuted_short0 :
    ~ honest o_short0 /\
    lookup (final o_short0) n0 = None /\
    has_version (final o_short0) va [] = true /\
    ~ exists s j, StoreFs.under p_store s /\ lookup (final o_short0) s = Some (NFile j) /\
                  f_bytes (get_file (final o_short0) j) = ["n"; "e"; "w"; "e"; "r"].
  Proof.
    split; [intros H; specialize (H 8); cbn in H; lia|].
    split; [vm_compute; reflexivity|]. split; [vm_compute; reflexivity|].
    apply no_copy_ok. vm_compute. reflexivity.
  Qed.

  (* (c) an injected ENOENT on the open of the source is "the file was deleted" *)
  Definition o_enoent : oracle := fault_list [(5, FFail ENOENT)].
  Lemma pop_after_copy_any_oracle_refuted_enoent :
    ~ honest o_enoent /\
    lookup (final o_enoent) n0 = None /\
    ~ exists s j, StoreFs.under p_store s /\ lookup (final o_enoent) s = Some (NFile j) /\
                  f_bytes (get_file (final o_enoent) j) = ["n"; "e"; "w"; "e"; "r"].
  Proof.
    split; [intros H; specialize (H 5); cbn in H; tauto|].
    split; [vm_compute; reflexivity | apply no_copy_ok; vm_compute; reflexivity].
  Qed.

  (* (c') the same with ENOTDIR, which sync_file reads as "the path no longer leads to a file" *)
  Definition o_enotdir : oracle := fault_list [(5, FFail ENOTDIR)].
  Lemma pop_after_copy_any_oracle_refuted_enotdir :
    ~ honest o_enotdir /\
    lookup (final o_enotdir) n0 = None /\
    ~ exists s j, StoreFs.under p_store s /\ lookup (final o_enotdir) s = Some (NFile j) /\
                  f_bytes (get_file (final o_enotdir) j) = ["n"; "e"; "w"; "e"; "r"].
  Proof.
    split; [intros H; specialize (H 5); cbn in H; tauto|].
    split; [vm_compute; reflexivity | apply no_copy_ok; vm_compute; reflexivity].
  Qed.

  (* parts (1), (2), (4) need no honesty: they hold of these three runs as well *)
  Example dishonest_runs_keep_queue_and_store :
    suffixb (final o_eexist) && loads (final o_eexist) &&
    suffixb (final o_short0) && loads (final o_short0) &&
    suffixb (final o_enoent) && loads (final o_enoent) = true.
  Proof. vm_compute. reflexivity. Qed.

End CrashExample.

Print Assumptions CrashExample.hyps_hold.
Print Assumptions CrashExample.every_oracle.
Print Assumptions CrashExample.every_honest_oracle.
Print Assumptions CrashExample.crash_at_every_call.
Print Assumptions CrashExample.fail_at_every_call.
Print Assumptions CrashExample.honest_oracles.
Print Assumptions CrashExample.every_oracle_restart.
Print Assumptions CrashExample.crash_mid_copy_then_second_pass.
Print Assumptions CrashExample.pop_after_copy_any_oracle_refuted_eexist.
Print Assumptions CrashExample.pop_after_copy_any_oracle_refuted_short0.
Print Assumptions CrashExample.pop_after_copy_any_oracle_refuted_enoent.
Print Assumptions CrashExample.pop_after_copy_any_oracle_refuted_enotdir.
