(* C10 Failures are reported, never swallowed, and never lose work.
   Theorems available for every oracle (any number of failing calls): the calls
   issued stay confined (C09), store files are never modified (C04, when proved),
   descriptors are released (C20, when proved); a failed position update can only
   rewind (C08_torn_position_rewinds).  The outcome of each single fault (completed
   or reported, nothing pending lost, no partial version) is tied by enumerating
   every call index x errno against the model and judged by monitors. *)
From K Require Import Str Trace World Progs Handler Hoare Confine Confine2 Dec DecProofs.

(* the error trace bookkeeping of try/finally is balanced where it is used to
   decide catches: catch_static only fires at post-throw depth 0 *)
Theorem C10_catch_only_at_depth_0 : forall (m : msg) (t : trace),
  fst (tr_catch_static m t) = true -> t_post t = 0 /\ tr_ok (snd (tr_catch_static m t)) = true.
Proof.
  intros m t. unfold tr_catch_static. destruct (Nat.eqb_spec (t_post t) 0) as [E|E]; [|discriminate].
  destruct (t_frames t) as [|[m'| | |] fr]; simpl; try discriminate.
  destruct (msg_eqb m m'); simpl; [auto | discriminate].
Qed.
Print Assumptions C10_catch_only_at_depth_0.

(* a reported error is never dropped by finally: a non-empty trace stays non-empty *)
Theorem C10_finally_keeps_errors : forall (t : trace) (m : msg),
  tr_ok t = false ->
  tr_ok (tr_finally t) = false /\ tr_ok (tr_finally_rethrow_static m t) = false /\
  tr_ok (tr_try t) = false.
Proof.
  intros t m H. unfold tr_finally, tr_finally_rethrow_static, tr_decrement, tr_try, tr_ok in *.
  destruct (t_frames t) eqn:E; [discriminate|].
  destruct (t_post t); simpl; rewrite ?E; simpl; auto.
Qed.
Print Assumptions C10_finally_keeps_errors.

(* under every oracle a timeout pass touches only the configured locations *)
Theorem C10_faults_stay_confined : forall (L : list str) (rev : bool) (h : handler) (o : oracle) (w : world),
  hinv2 L h -> log_all (conf L) w -> log_all (conf L) (snd (handle_timeout rev h o w)).
Proof.
  intros L rev h o w Hh Hw. pose proof (lokv_handle_timeout L rev h Hh o w I Hw) as H.
  destruct (handle_timeout rev h o w) as [[r|] w']; simpl; [destruct H; assumption | assumption].
Qed.
Print Assumptions C10_faults_stay_confined.

(* a position update interrupted by a failing write leaves a position that is
   not ahead of the true one *)
Theorem C10_position_not_ahead : forall (n : N) (k : nat), (undec (firstn k (dec n)) <= n)%N.
Proof. exact undec_firstn_dec. Qed.
Print Assumptions C10_position_not_ahead.
