(* C04 "stored versions are immutable", part 3: every program of the handler,
   under every oracle, keeps the invariant

      Inv c oj f0 f  :=  preserved c f0 f /\ SI c oj f

   relative to the file system f0 at the start of the operation -- as
   postcondition when it returns and as crash condition when the process dies.
   Structure follows Confine.v / Confine2.v: one lemma per program. *)
From K Require Import Str Dec Trace Fs World Progs Elf Linq Sieve Handler Hoare Confine Confine2 SyncProofs
     StoreFs StoreLogic.
From Coq Require Import Lia.

Section Store.
Variables (c : config) (oj : option journal) (f0 : fs).
Hypothesis D : disjoint_locs c.

Let Hc : cdisj c := cdisj_of_dl c D.
Notation IV := (Inv c oj f0).

Lemma IV_add : cl_add IV.
Proof. intros f p n. apply Inv_add_other. Qed.

(* ---------- primitive calls ---------- *)

Lemma tok_rmdir p : tok IV (k_rmdir p).
Proof. apply tok_sys_unit. intros f. apply Inv_rmdir. Qed.

Lemma tok_unlink p : safe_path c f0 p -> tok IV (k_unlink p).
Proof. intros H. apply tok_sys_unit. intros f Hf. apply Inv_unlink; assumption. Qed.

Lemma tok_unlinkat d n : safe_path c f0 (join d n) -> tok IV (k_unlinkat d n).
Proof. intros H. apply tok_sys_unit. intros f Hf. apply Inv_unlink; assumption. Qed.

Lemma tri_open_excl p :
  tri IV (fun r => forall i, r = inl (FdFile i) -> safe_ino c f0 i /\ safe_path c f0 p) (k_open_excl p).
Proof.
  apply tri_open_gen; [intros e i E; discriminate|].
  intros f Hf. apply Inv_create_excl; assumption.
Qed.

Lemma tri_open_w p :
  mut c p -> tri IV (fun r => forall i, r = inl (FdFile i) -> safe_ino c f0 i) (k_open_w p).
Proof.
  intros Hm. apply tri_open_gen; [intros e i E; discriminate|].
  intros f Hf. apply Inv_open_create; assumption.
Qed.

Lemma tok_write i b : safe_ino c f0 i -> tok IV (k_write i b).
Proof.
  intros H. unfold k_write. apply tok_bind; [apply tok_transfer_limit|intros lim].
  apply tri_sys; [auto|]. intros f Hf. simpl. split; [apply Inv_append; assumption | exact I].
Qed.

Lemma tok_sendfile out inp off n : safe_ino c f0 out -> tok IV (k_sendfile out inp off n).
Proof.
  intros H. unfold k_sendfile. apply tok_bind; [apply tok_transfer_limit|intros lim].
  apply tri_sys; [auto|]. intros f Hf. simpl. split; [apply Inv_append; assumption | exact I].
Qed.

Lemma tok_ftruncate i : safe_ino c f0 i -> tok IV (k_ftruncate i).
Proof. intros H. apply tok_sys_unit. intros f Hf. simpl. apply Inv_truncate; assumption. Qed.

Lemma tok_link a b : imm c a -> imm c b -> tok IV (k_link a b).
Proof. intros Ha Hb. apply tok_sys_unit. intros f Hf. apply Inv_link; assumption. Qed.

Lemma tok_linkat a d r : imm c a -> imm c (join d r) -> tok IV (k_linkat a d r).
Proof. intros Ha Hb. apply tok_sys_unit. intros f Hf. apply Inv_link; assumption. Qed.

Ltac leaf2 :=
  first [ leaf1 | apply tok_rmdir
        | apply tok_mkdir; exact IV_add | apply tok_mkdirat; exact IV_add
        | apply tok_symlinkat; exact IV_add
        | apply tok_create_parents; exact IV_add
        | apply tok_unlink; assumption | apply tok_unlinkat; assumption
        | apply tok_write; assumption | apply tok_sendfile; assumption
        | apply tok_ftruncate; assumption
        | apply tok_link; assumption | apply tok_linkat; assumption ].
Ltac tk := tk_with leaf2.

(* ---------- parents.c, clean_up ---------- *)

Lemma tok_rmdir_up ds : tok IV (rmdir_up ds).
Proof.
  induction ds as [|d ds IH]; simpl; [apply tok_ret|].
  apply tok_bind; [apply tok_rmdir|]. intros r.
  destruct r as [e|]; [destruct e|]; try exact IH; tk.
Qed.

Lemma tok_remove_empty_parents p : tok IV (remove_empty_parents p).
Proof. unfold remove_empty_parents. tk. apply tok_rmdir_up. Qed.

Lemma tok_clean_up p : tok IV (clean_up p).
Proof. unfold clean_up. tk. apply tok_remove_empty_parents. Qed.

(* ---------- counter.c ---------- *)

Lemma tok_write_digits i ds : safe_ino c f0 i -> tok IV (write_digits i ds).
Proof.
  intros Hi. induction ds as [|ch ds IH]; simpl; [apply tok_ret|].
  tk. exact IH.
Qed.

Lemma tok_write_counter p n : under (c_offset_root c) p -> tok IV (write_counter p n).
Proof.
  intros Hu.
  assert (Hs : safe_path c f0 p) by (apply not_kept_safe; apply off_not_kept; assumption).
  assert (Hm : mut c p) by (left; assumption).
  unfold write_counter, when_ok.
  apply tok_bind; [tk|intros b0]. destruct b0; [|apply tok_ret].
  destruct (n =? 0)%N.
  - tk. apply tok_remove_empty_parents.
  - apply tok_bind; [apply tok_create_parents; exact IV_add|intros ?].
    apply tok_bind; [tk|intros b]. destruct b; [|apply tok_ret].
    eapply tok_bindv; [apply tri_open_w; exact Hm|intros r Hr].
    destruct r as [[i|d]|e]; [|tk|tk].
    pose proof (Hr i eq_refl) as Hi. tk. apply tok_write_digits. assumption.
Qed.

(* ---------- sync.c ---------- *)

Lemma tok_sendfile_loop fuel : forall out inp off size,
  safe_ino c f0 out -> tok IV (sendfile_loop fuel out inp off size).
Proof.
  induction fuel as [|fuel IH]; intros out inp off size Ho; simpl; [apply tok_ret|].
  destruct size; [apply tok_ret|].
  apply tok_bind; [apply tok_sendfile; assumption|]. intros r.
  destruct r as [[|w]|e]; tk. apply IH. assumption.
Qed.

(* no side condition: the destination is only unlinked after this very call
   has created it with O_CREAT|O_EXCL, and only the fresh inode is written *)
Lemma tok_sync_file dst src off : tok IV (sync_file dst src off).
Proof.
  unfold sync_file, when_ok.
  apply tok_bind; [tk|intros b0]. destruct b0; [|apply tok_ret].
  apply tok_bind; [apply tok_create_parents; exact IV_add|intros ?].
  apply tok_bind; [tk|intros b]. destruct (negb b); [tk; apply tok_clean_up|].
  apply tok_bind; [apply tok_open_read|intros rin].
  destruct rin as [ind|e]; [|destruct e; tk; apply tok_clean_up].
  eapply tok_bindv; [apply tri_open_excl|intros rout Hr].
  destruct rout as [[out|d]|e]; [|apply tok_ret|destruct e; tk; apply tok_clean_up].
  destruct (Hr out eq_refl) as [Hino Hpath].
  apply tok_bind; [apply tok_fstat|intros st].
  destruct st as [[[|] size]|e]; [| tk; apply tok_clean_up | tk; apply tok_clean_up].
  apply tok_bind; [apply tok_sendfile_loop; assumption|intros r].
  destruct r as [off'|]; tk; apply tok_clean_up.
Qed.

(* ---------- journal.c ---------- *)

Lemma tok_write_all fuel : forall i b, safe_ino c f0 i -> tok IV (write_all fuel i b).
Proof.
  induction fuel as [|fuel IH]; intros i b Hi; simpl; [apply tok_ret|].
  destruct b; [apply tok_ret|].
  apply tok_bind; [apply tok_write; assumption|]. intros r. destruct r; tk. apply IH. assumption.
Qed.

Lemma tok_note ev pid path j : j = oj -> tok IV (note ev pid path j).
Proof.
  intros E. unfold note. destruct j as [jn|]; [|apply tok_ret]. destruct ev; [|apply tok_ret].
  apply tok_from. intros f [Hp Hs]. rewrite <- E in Hs.
  assert (Hi : safe_ino c f0 (j_ino jn)) by (eapply journal_safe_ino; eauto).
  tk. apply tok_write_all. assumption.
Qed.

Lemma tok_record_event ev pid path h : h_journal h = oj -> tok IV (record_event ev pid path h).
Proof. intros E. unfold record_event. tk. apply tok_note. assumption. Qed.

(* ---------- the queue ---------- *)

Ltac tvok := solve [apply tri_of_tok; tk].

Lemma tri_q_pop_head q :
  qdir_ok c (q_dir q) -> tri IV (fun q' => q_dir q' = q_dir q) (q_pop_head q).
Proof.
  intros Hd. unfold q_pop_head. tv; try reflexivity; try tvok.
  apply tri_of_tok. apply tok_unlinkat. apply not_kept_safe. apply qdir_not_kept. assumption.
Qed.

Lemma tri_q_get_head fuel : forall q,
  qdir_ok c (q_dir q) -> tri IV (fun r => q_dir (snd r) = q_dir q) (q_get_head fuel q).
Proof.
  induction fuel as [|fuel IH]; intros q Hd; simpl.
  - tv; try reflexivity; try tvok.
  - tv; try reflexivity; try tvok.
    + apply tri_q_pop_head. assumption.
    + match goal with H : (fun q' : qmem => _) _ |- _ => simpl in H; rename H into Hq end.
      eapply tri_weaken; [apply IH; rewrite Hq; assumption|].
      intros r Hr. simpl in Hr. congruence.
Qed.

(* ---------- sync_shallow_tree ---------- *)

Lemma tok_tree_loop ents : forall src_len dst filt,
  (forall rel, imm c (join dst rel)) ->
  (forall p k, In (p, k) ents -> under (c_unstable_root c) p) ->
  tok IV (tree_loop ents src_len dst filt).
Proof.
  induction ents as [|[p k] ents IH]; intros src_len dst filt Hd Hall; simpl; [apply tok_ret|].
  assert (Hp : under (c_unstable_root c) p) by (apply (Hall p k); left; reflexivity).
  assert (Hpi : imm c p) by (right; exact Hp).
  assert (Hps : safe_path c f0 p) by (apply not_kept_safe; apply unst_not_kept; assumption).
  assert (Hj : imm c (join dst (skipn (S src_len) p))) by apply Hd.
  assert (IH' : tok IV (tree_loop ents src_len dst filt))
    by (apply IH; [assumption | intros p' k' Hin; apply (Hall p' k'); right; assumption]).
  tk; exact IH'.
Qed.

Lemma tok_sync_shallow_tree rev dst src filt :
  dst <> root_path -> under (c_project_store_root c) dst ->
  under (c_unstable_root c) src -> src <> root_path -> src <> [] ->
  tok IV (sync_shallow_tree rev dst src filt).
Proof.
  intros Hd1 Hd2 Hs Hsr Hse. unfold sync_shallow_tree.
  assert (Hd : forall rel, imm c (join dst rel)).
  { intros rel. rewrite (join_ne _ _ Hd1). left. right.
    eapply under_trans; [exact Hd2 | exists rel; reflexivity]. }
  apply tok_bind; [apply tok_create_parents; exact IV_add|intros ?].
  apply tok_bind; [tk|intros b].
  apply tok_bind; [tk|intros ?].
  apply tok_bind; [tk|intros b1].
  apply tok_bind; [tk|intros opened].
  apply tok_bind; [tk|intros b2].
  destruct (negb b2).
  - tk; apply tok_clean_up.
  - eapply tok_bindv with
      (R1 := fun r => forall ents, r = inl ents -> forall p k, In (p, k) ents -> under (c_unstable_root c) p).
    + unfold k_fts. apply tri_sys; [intros e ents E; discriminate|].
      intros f Hf. simpl. split; [exact Hf|].
      intros ents E p k Hin. inversion E; subst.
      destruct (fs_walk_inside _ _ _ _ _ Hsr Hse Hin) as [r ->].
      eapply under_trans; [exact Hs | exists r; reflexivity].
    + intros r Hr. apply tok_bind.
      * destruct r as [ents|e].
        -- apply tok_tree_loop; [exact Hd | apply (Hr ents eq_refl)].
        -- destruct e; tk.
      * intros ?. tk. apply tok_clean_up.
Qed.

(* ---------- handle_timeout ---------- *)

Lemma current_path_under root sp : spI root sp -> under root (current_path sp).
Proof. intros H. destruct (current_path_inside root sp H) as [r Hr]. exists r. exact Hr. Qed.

Lemma tok_project_store_loop fuel : forall rev sp unstable head cfg ev,
  spI (c_project_store_root c) sp ->
  under (c_unstable_root c) unstable -> unstable <> root_path -> unstable <> [] ->
  tok IV (project_store_loop fuel rev sp unstable head cfg ev).
Proof.
  induction fuel as [|fuel IH]; intros rev sp unstable head cfg ev Hs Hu Hu1 Hu2; simpl; [apply tok_ret|].
  apply tok_bind; [tk|intros b]. destruct (negb b); [apply tok_ret|].
  apply tok_bind; [tk|intros ?].
  apply tok_bind.
  { apply tok_sync_shallow_tree; try assumption.
    - eapply current_path_ne_root; eauto.
    - apply current_path_under. assumption. }
  intros ?.
  apply tok_bind; [tk|intros c1]. destruct c1.
  - apply tok_bind; [tk|intros ?]. apply IH; auto using spI_increment.
  - tk.
Qed.

Lemma tri_file_store_loop fuel : forall sp head offp off ish cfg root,
  spI root sp -> under (c_offset_root c) offp ->
  tri IV (fun r => spI root (snd r)) (file_store_loop fuel sp head offp off ish cfg).
Proof.
  induction fuel as [|fuel IH]; intros sp head offp off ish cfg root Hs Ho; simpl;
    [apply tri_ret; exact Hs|].
  eapply tri_bind; [tvok|intros ? _].
  eapply tri_bind; [apply tri_of_tok; apply tok_sync_file|intros no _].
  eapply tri_bind; [tvok|intros c1 _].
  eapply tri_bind; [apply tri_of_tok; destruct c1; tk|intros c2 _].
  destruct c2.
  { eapply tri_bind; [tvok|intros ? _]. apply tri_ret. exact Hs. }
  eapply tri_bind; [tvok|intros c3 _]. destruct c3.
  { eapply tri_bind; [tvok|intros ? _]. apply tri_ret. exact Hs. }
  eapply tri_bind; [tvok|intros c4 _]. destruct c4.
  - apply IH; auto using spI_increment.
  - eapply tri_bind; [apply tri_of_tok; apply tok_write_counter; assumption|intros ? _].
    eapply tri_bind; [tvok|intros ? _].
    eapply tri_bind; [tvok|intros ? _].
    apply tri_ret. exact Hs.
Qed.

(* what stays fixed about the handler during an operation *)
Definition HI (h : handler) : Prop :=
  h_cfg h = c /\ h_journal h = oj /\ qdir_ok c (q_dir (h_q h)).

Lemma HI_set_q q h : HI h -> q_dir q = q_dir (h_q h) -> HI (set_q q h).
Proof. intros [H1 [H2 H3]] Hq. split; [|split]; simpl; auto. rewrite Hq. exact H3. Qed.

Lemma tri_handle_timeout_loop fuel : forall rev h,
  HI h -> tri IV (fun r => HI (snd r)) (handle_timeout_loop fuel rev h).
Proof.
  induction fuel as [|fuel IH]; intros rev h Hh; cbn [handle_timeout_loop]; [apply tri_ret; assumption|].
  eapply tri_bind; [tvok|intros b _]. destruct (negb b); [apply tri_ret; assumption|].
  eapply tri_bind; [tvok|intros ? _].
  eapply tri_bind; [apply tri_q_get_head; apply Hh|intros r Hr].
  eapply tri_bind; [tvok|intros ? _].
  destruct r as [hd q1]. simpl in Hr.
  assert (Hh1 : HI (set_q q1 h)) by (apply HI_set_q; assumption).
  set (h1 := set_q q1 h) in *.
  eapply tri_bind; [tvok|intros b1 _].
  destruct b1; [|apply tri_ret; assumption].
  destruct hd as [[z|path meta]|]; [apply tri_ret; assumption| |apply tri_ret; assumption].
  pose proof Hh1 as [Ecfg [Ej Hqd]].
  rewrite Ecfg.
  eapply tri_bind; [tvok|intros v _].
  eapply tri_bind; [tvok|intros bv _].
  eapply tri_bind; [apply tri_of_tok; destruct v; [destruct bv; [destruct (existsb is_slash s)|]|]; tk|intros ? _].
  eapply tri_bind; [tvok|intros b2 _].
  destruct v as [version|]; [|apply tri_ret; assumption].
  destruct b2; [|apply tri_ret; assumption].
  match goal with |- tri _ _ (if ?x then _ else _) => destruct x end.
  { eapply tri_bind; [tvok|intros ? _]. eapply tri_bind; [tvok|intros ? _]. apply tri_ret. assumption. }
  destruct (N.odd meta).
  - (* project head *)
    eapply tri_bind; [tvok|intros f _].
    eapply tri_bind.
    + apply tri_of_tok. apply tok_project_store_loop.
      * apply spI_create.
      * exists (basename path). reflexivity.
      * apply app_slash_ne_root. apply dl_unst_ne. exact D.
      * destruct (c_unstable_root c); discriminate.
    + intros ev _.
      eapply tri_bind; [apply tri_of_tok; apply tok_record_event; exact Ej|intros ? _].
      eapply tri_bind; [apply tri_q_pop_head; exact Hqd|intros q2 Hq2].
      apply IH. apply HI_set_q; assumption.
  - (* file head *)
    eapply tri_bind; [apply tri_of_tok; destruct (N.testbit meta 1); [apply tok_read_counter | apply tok_ret]|intros off _].
    eapply tri_bind; [tvok|intros b3 _].
    destruct (negb b3); [apply tri_ret; assumption|].
    eapply tri_bind; [tvok|intros f _].
    eapply tri_bind.
    + eapply (tri_file_store_loop _ _ path _ _ _ c (c_store_root c)).
      * apply spI_create.
      * eexists. reflexivity.
    + intros r2 Hr2. destruct r2 as [[ev is_stored] sp']. simpl in Hr2.
      eapply tri_bind; [apply tri_q_pop_head; exact Hqd|intros q2 Hq2].
      assert (Hh2 : HI (set_q q2 h1)) by (apply HI_set_q; assumption).
      eapply tri_bind; [tvok|intros b4 _].
      destruct (negb b4).
      { eapply tri_bind; [tvok|intros ? _]. eapply tri_bind; [tvok|intros ? _]. apply tri_ret. assumption. }
      eapply tri_bind.
      * apply tri_of_tok.
        match goal with |- tok _ (if ?x then _ else _) => destruct x end; [|apply tok_ret].
        match goal with |- context [k_unlink ?pp] => set (project_path := pp) end.
        assert (Hpu : under (c_unstable_root c) project_path) by (eexists; reflexivity).
        assert (Hps : safe_path c f0 project_path)
          by (apply not_kept_safe; apply unst_not_kept; assumption).
        assert (Hpi : imm c project_path) by (right; exact Hpu).
        assert (Hcur : imm c (current_path sp'))
          by (left; left; apply current_path_under; exact Hr2).
        tk.
      * intros ? _.
        eapply tri_bind; [apply tri_of_tok; apply tok_record_event; destruct Hh2 as [_ [E _]]; exact E|intros ? _].
        apply IH. assumption.
Qed.

Lemma tri_handle_timeout rev h :
  HI h -> tri IV (fun r => HI (snd r)) (handle_timeout rev h).
Proof.
  intros Hh. unfold handle_timeout.
  eapply tri_bind; [apply tri_handle_timeout_loop; assumption|intros r Hr].
  eapply tri_bind; [tvok|intros b _].
  apply tri_ret. destruct b; assumption.
Qed.

(* ---------- handle_open_exec ---------- *)

Lemma tri_handle_open_exec pid path h : HI h -> tri IV HI (handle_open_exec pid path h).
Proof.
  intros Hh. unfold handle_open_exec, when_ok.
  eapply tri_bind; [tvok|intros b _]. destruct b; [|apply tri_ret; assumption].
  eapply tri_bind; [tvok|intros f _].
  eapply tri_bind with (R1 := fun r => HI (fst r)).
  - destruct (mem (basename path) (c_editors (h_cfg h))).
    + eapply tri_bind; [apply tri_of_tok|intros ? _].
      * destruct (lookup f path) as [[| |]|]; try apply tok_ret. apply tok_get_elf_interpreter.
      * eapply tri_bind; [tvok|intros ? _]. apply tri_ret. exact Hh.
    + destruct (pid_mem pid (h_pids h)).
      * eapply tri_bind; [tvok|intros b _].
        destruct (b && negb (mem path (h_interps h))); apply tri_ret; exact Hh.
      * apply tri_ret. exact Hh.
  - intros r Hr.
    eapply tri_bind; [apply tri_of_tok; apply tok_record_event; destruct Hr as [_ [E _]]; exact E|intros ? _].
    apply tri_ret. assumption.
Qed.

End Store.
