(* C19, continued: the journal lines of a timeout pass over plain heads.
   JournalHistoryProofs.journal_whole_lines says of a timeout event only that
   its lines carry the label stored / deleted / forbidden and no pid.  For a
   pass over a due prefix of PLAIN heads (PassProofs.all_ok: flags 0, readable
   source, free destination, ...) PassProofs.handle_timeout_plain_pass gives
   the bytes PassProofs.jlines; here they are identified as exactly one
   `stored' line per head handled, in queue order (none if the label is not
   configured), and composed with a preceding history. *)
From K Require Import Str Dec Trace Fs World Progs Elf Linq LinqSpec LinqProofs Sieve Handler Hoare SyncProofs AbandonProofs
     StoreFs JournalProofs QueueProofs PassProofs JournalHistoryProofs.
From Coq Require Import Lia.

(* one stored line per head of the prefix, in order *)
Definition pass_lines (cfg : config) (cpl : nat) (jn : journal) (now : Z) (es : list entry) : list str :=
  flat_map (fun e => jl jn now (c_ev_stored cfg) 0%N (rel_of cpl (e_path e))) es.

Lemma jlines_pass_lines cfg cpl jn now es :
  jlines cfg cpl (Some jn) now es = concat (pass_lines cfg cpl jn now es).
Proof.
  unfold jlines, pass_lines. induction es as [|e es IH]; [reflexivity|].
  cbn [map flat_map concat]. rewrite concat_app, IH. f_equal.
  unfold jline, jl, ts_of, stamp. destruct (c_ev_stored cfg); cbn [concat]; [rewrite app_nil_r|]; reflexivity.
Qed.

Lemma pass_lines_length_labelled cfg cpl jn now es l :
  c_ev_stored cfg = Some l -> length (pass_lines cfg cpl jn now es) = length es.
Proof.
  intros E. unfold pass_lines. induction es as [|e es IH]; [reflexivity|].
  cbn [flat_map]. rewrite app_length, IH, E. reflexivity.
Qed.

Lemma pass_lines_unlabelled cfg cpl jn now es :
  c_ev_stored cfg = None -> pass_lines cfg cpl jn now es = [].
Proof.
  intros E. unfold pass_lines. induction es as [|e es IH]; [reflexivity|].
  cbn [flat_map]. rewrite IH, E. reflexivity.
Qed.

Lemma pass_lines_tline cfg cpl jn now es : Forall (tline cfg jn now) (pass_lines cfg cpl jn now es).
Proof.
  unfold pass_lines. induction es as [|e es IH]; [constructor|].
  cbn [flat_map]. apply Forall_app. split; [|exact IH].
  destruct (c_ev_stored cfg) as [l|] eqn:E; cbn [jl]; [|constructor].
  constructor; [|constructor]. exists l, (rel_of cpl (e_path e)). split; [left; symmetry; exact E | reflexivity].
Qed.

(* a timeout event over a due prefix of plain heads: one stored line per head *)
Theorem timeout_plain_pass_lines o rev es rest h w jn :
  JournalProofs.benign o ->
  h_journal h = Some jn ->
  tr_ok (w_tr w) = true -> keys_nodup (w_fs w) ->
  QRel (h_q h) (w_fs w) (map qent_of es ++ rest) ->
  Forall (fun e => (q_deb (h_q h) <= w_clock w - e_time e)%Z) es ->
  last_writes es rest ->
  not_due (w_clock w) (q_deb (h_q h)) rest ->
  all_ok (h_cfg h) (h_cpl h) (h_journal h) (q_dir (h_q h)) (w_fs w) (w_clock w) es ->
  exists w',
    jstep (JTimeout rev) h o w = (Some (set_q (pops es (h_q h)) h), w') /\
    f_bytes (get_file (w_fs w') (j_ino jn)) =
      f_bytes (get_file (w_fs w) (j_ino jn)) ++
      concat (pass_lines (h_cfg h) (h_cpl h) jn (w_clock w) es) /\
    Forall (tline (h_cfg h) jn (w_clock w)) (pass_lines (h_cfg h) (h_cpl h) jn (w_clock w) es) /\
    tr_ok (w_tr w') = true /\ w_clock w' = w_clock w.
Proof.
  intros Hb Ej Hok Hnd HR Hdue Hlast Hstop Hall.
  destruct (handle_timeout_plain_pass o rev es rest h w Hb Hok Hnd HR Hdue Hlast Hstop Hall)
    as (w' & E & _ & _ & _ & _ & _ & J & _ & _ & Hok' & _ & C).
  exists w'. cbn [jstep]. rewrite (bind_some _ _ _ _ _ _ E). unfold ret_. cbn [snd].
  split; [reflexivity|]. split; [|split; [apply pass_lines_tline | split; assumption]].
  rewrite (J jn Ej), Ej. rewrite jlines_pass_lines. reflexivity.
Qed.

(* a history (exec, write, timeouts of any kind, clock) followed by a pass
   over plain heads: the journal holds the old bytes, then the whole lines of
   the history as described by hist_spec, then one stored line per head *)
Theorem journal_history_then_plain_pass :
  forall (evs : list jevent) (o : oracle) (w : world) (h : handler) (jn : journal)
         (rev : bool) (es : list entry) (rest : list qent),
  JournalProofs.benign o ->
  h_journal h = Some jn ->
  joff_ok (h_cfg h) ->
  jsep (h_cfg h) (j_ino jn) (w_fs w) ->
  Forall (quiet (h_cfg_path h)) evs ->
  (* the state reached by the history satisfies the hypotheses of PassProofs *)
  (forall h1 w1, jrun evs h o w = (Some h1, w1) ->
     tr_ok (w_tr w1) = true /\ keys_nodup (w_fs w1) /\
     QRel (h_q h1) (w_fs w1) (map qent_of es ++ rest) /\
     Forall (fun e => (q_deb (h_q h1) <= w_clock w1 - e_time e)%Z) es /\
     last_writes es rest /\
     not_due (w_clock w1) (q_deb (h_q h1)) rest /\
     all_ok (h_cfg h1) (h_cpl h1) (h_journal h1) (q_dir (h_q h1)) (w_fs w1) (w_clock w1) es) ->
  exists h1 w1 h2 w2 lines,
    jrun evs h o w = (Some h1, w1) /\
    jrun (evs ++ [JTimeout rev]) h o w = (Some h2, w2) /\
    hist_spec o (h_cfg h) jn evs h w h1 w1 lines /\
    f_bytes (get_file (w_fs w2) (j_ino jn)) =
      f_bytes (get_file (w_fs w) (j_ino jn)) ++ concat lines ++
      concat (pass_lines (h_cfg h) (h_cpl h1) jn (w_clock w1) es).
Proof.
  intros evs o w h jn rev es rest Hb Ej HC Hsep Hq Hpass.
  destruct (journal_whole_lines evs o w h jn Hb Ej HC Hsep Hq)
    as (h1 & w1 & lines & Er & HS & B & Ec & Ej1 & _ & _).
  destruct (Hpass h1 w1 Er) as (Hok & Hnd & HR & Hdue & Hlast & Hstop & Hall).
  destruct (timeout_plain_pass_lines o rev es rest h1 w1 jn Hb Ej1 Hok Hnd HR Hdue Hlast Hstop Hall)
    as (w2 & E2 & B2 & _).
  exists h1, w1, (set_q (pops es (h_q h1)) h1), w2, lines.
  split; [exact Er|]. split; [|split; [exact HS|]].
  - rewrite jrun_app, Er. cbn [jrun]. rewrite (bind_some _ _ _ _ _ _ E2). reflexivity.
  - rewrite B2, B, Ec, <- app_assoc. reflexivity.
Qed.

Print Assumptions jlines_pass_lines.
Print Assumptions timeout_plain_pass_lines.
Print Assumptions journal_history_then_plain_pass.

(* ---------- non-vacuity: the pass of PassProofs.PassExample ---------- *)

Module JournalPassExample.
  Import PassExample.
  Local Open Scope char_scope.

  Definition jn1 : journal := mkJ 1 ["%"; "s"].
  (* the same world fifty seconds earlier *)
  Definition w_early : world := mkW f3 0 [] 50%Z tr_empty.

  Example run_early o : jrun [JClock 100] h0 o w_early = (Some h0, w0).
  Proof. reflexivity. Qed.

  (* the pass of PassExample: two due plain heads, one stored line each *)
  Example pass_lines_instance o : JournalProofs.benign o ->
    exists w',
      jstep (JTimeout false) h0 o w0 = (Some (set_q (pops [e_a; e_b] (h_q h0)) h0), w') /\
      f_bytes (get_file (w_fs w') 1) =
        old ++ journal_line ["1"; "0"; "0"] stored 0 ["a"; "."; "t"; "x"; "t"]
            ++ journal_line ["1"; "0"; "0"] stored 0 ["b"].
  Proof.
    intros Hb.
    destruct PassExample.hyps_hold as (Hok & Hnd & HR & Hdue & Hlast & Hstop & Hall).
    destruct (timeout_plain_pass_lines o false [e_a; e_b] rest0 h0 w0 jn1 Hb eq_refl
                Hok Hnd HR Hdue Hlast Hstop Hall) as (w' & E & B & _).
    exists w'. split; [exact E|]. change (j_ino jn1) with 1 in B. rewrite B. vm_compute. reflexivity.
  Qed.

  (* and composed with a (short) history before it *)
  Example history_then_pass_instance o : JournalProofs.benign o ->
    exists h2 w2,
      jrun ([JClock 100] ++ [JTimeout false]) h0 o w_early = (Some h2, w2) /\
      f_bytes (get_file (w_fs w2) 1) =
        old ++ journal_line ["1"; "0"; "0"] stored 0 ["a"; "."; "t"; "x"; "t"]
            ++ journal_line ["1"; "0"; "0"] stored 0 ["b"].
  Proof.
    intros Hb.
    assert (HC : joff_ok (h_cfg h0)) by (apply joff_okb_ok; vm_compute; reflexivity).
    assert (Hs : jsep (h_cfg h0) (j_ino jn1) (w_fs w_early)) by (apply jsepb_ok; vm_compute; reflexivity).
    assert (Hq : Forall (quiet (h_cfg_path h0)) [JClock 100]) by repeat constructor.
    destruct (journal_history_then_plain_pass [JClock 100] o w_early h0 jn1 false [e_a; e_b] rest0
                Hb eq_refl HC Hs Hq) as (h1 & w1 & h2 & w2 & lines & E1 & E2 & HS & B).
    { intros h1 w1 E. rewrite run_early in E. injection E as <- <-. exact PassExample.hyps_hold. }
    rewrite run_early in E1. injection E1 as <- <-.
    exists h2, w2. split; [exact E2|]. change (j_ino jn1) with 1 in B. rewrite B.
    (* the history before the pass wrote nothing *)
    inversion HS as [|? ? ? ? ? ? ? ? ? ? Ea Sa HSb]; subst.
    cbn [ev_spec] in Sa. subst. inversion HSb; subst. vm_compute. reflexivity.
  Qed.
End JournalPassExample.

Print Assumptions JournalPassExample.pass_lines_instance.
Print Assumptions JournalPassExample.history_then_pass_instance.
