(* The queue over system calls (Handler.v: q_push / q_pop_head / q_get_head /
   read_entry) behaves, under every benign oracle and an ok error trace,
   exactly like the reference FIFO of LinqSpec.v. *)
From K Require Import Str Dec Trace Fs World Progs Handler Linq LinqSpec LinqProofs
     DecProofs SyncProofs AbandonProofs.
From Coq Require Import Lia.
Arguments N.add : simpl never.
Arguments N.sub : simpl never.
Arguments N.mul : simpl never.
Arguments N.of_nat : simpl never.
Arguments N.eqb : simpl never.
Arguments N.leb : simpl never.
Arguments Nat.pow : simpl never.
Arguments Nat.mul : simpl never.

(* ---------- names in the queue directory ---------- *)

Lemma is_digit_not_slash c : is_digit c = true -> is_slash c = false.
Proof.
  intros Hd. unfold is_slash. destruct (Ascii.eqb_spec c ch_slash) as [->|]; [|reflexivity].
  vm_compute in Hd. discriminate.
Qed.

Lemma rindex_from_app f a : forall b i acc,
  rindex_from f (a ++ b) i acc = rindex_from f b (i + length a) (rindex_from f a i acc).
Proof.
  induction a as [|x a IH]; intros b i acc; cbn [app rindex_from length].
  - rewrite Nat.add_0_r. reflexivity.
  - rewrite IH. f_equal. lia.
Qed.

Lemma rindex_from_none f b : forall i acc,
  forallb (fun c => negb (f c)) b = true -> rindex_from f b i acc = acc.
Proof.
  induction b as [|x b IH]; intros i acc H; cbn [rindex_from forallb] in *; [reflexivity|].
  apply andb_true_iff in H. destruct H as [H1 H2]. apply negb_true_iff in H1.
  rewrite H1. apply IH. exact H2.
Qed.

Lemma digits_no_slash s :
  forallb is_digit s = true -> forallb (fun c => negb (is_slash c)) s = true.
Proof.
  induction s as [|c s IH]; cbn [forallb]; [reflexivity|].
  intros H. apply andb_true_iff in H. destruct H as [H1 H2].
  rewrite (is_digit_not_slash c H1). cbn [negb andb]. apply IH. exact H2.
Qed.

Lemma join_nonroot d n : d <> root_path -> join d n = d ++ ch_slash :: n.
Proof. intros H. unfold join. apply str_eqb_neq in H. rewrite H. reflexivity. Qed.

(* the directory part of <d>/<digits> is d (or "/" when d is empty) *)
Lemma dirname_join_digits d s :
  d <> root_path -> forallb is_digit s = true ->
  dirname (join d s) = match d with [] => root_path | _ => d end.
Proof.
  intros Hd Hs. rewrite (join_nonroot d s Hd). unfold dirname, rindex.
  rewrite rindex_from_app. cbn [rindex_from]. change (is_slash ch_slash) with true. cbv iota.
  rewrite rindex_from_none by (apply digits_no_slash; exact Hs).
  cbn [Nat.add]. destruct d as [|x d]; [reflexivity|].
  change (length (x :: d)) with (S (length d)).
  change (S (length d)) with (length (x :: d)).
  rewrite firstn_app, Nat.sub_diag, firstn_all. cbn [firstn]. rewrite app_nil_r. reflexivity.
Qed.

Lemma parent_of_name f d n :
  d <> root_path -> lookup f d = Some NDir -> parent_is_dir f (join d (dec n)) = None.
Proof.
  intros Hd Hl. unfold parent_is_dir.
  rewrite (dirname_join_digits d (dec n) Hd (dec_digits n)).
  destruct d as [|x d]; [reflexivity|]. rewrite Hl. reflexivity.
Qed.

Lemma join_inj d a b : join d a = join d b -> a = b.
Proof.
  unfold join. destruct (str_eqb d root_path).
  - intros E. injection E as E. exact E.
  - intros E. apply app_inv_head in E. injection E as E. exact E.
Qed.

Lemma join_dec_inj d a b : join d (dec a) = join d (dec b) -> a = b.
Proof. intros E. apply dec_inj. apply (join_inj d). exact E. Qed.

Lemma join_neq_dir d n : d <> root_path -> join d n <> d.
Proof.
  intros Hd E. rewrite (join_nonroot d n Hd) in E.
  apply (f_equal (@length ascii)) in E. rewrite app_length in E. cbn [length] in E. lia.
Qed.

Lemma join_dec_nonroot d n : d <> root_path -> join d (dec n) <> root_path.
Proof.
  intros Hd E. rewrite (join_nonroot d _ Hd) in E. unfold root_path in E.
  destruct d as [|x d]; cbn [app] in E.
  - injection E as E. exact (dec_nonempty n E).
  - injection E as _ E. destruct d; discriminate.
Qed.

(* ---------- the bag ---------- *)

Lemma bag_count_cons v x b :
  bag_count v (x :: b) = ((if str_eqb v x then 1 else 0) + bag_count v b)%nat.
Proof. unfold bag_count. cbn [filter]. destruct (str_eqb v x); reflexivity. Qed.

Lemma bag_count_remove v p b :
  bag_count v (bag_remove p b) =
  if str_eqb v p then Nat.pred (bag_count v b) else bag_count v b.
Proof.
  induction b as [|x b IH]; cbn [bag_remove].
  - destruct (str_eqb v p); reflexivity.
  - destruct (str_eqb_spec p x) as [<-|Hpx].
    + rewrite bag_count_cons. destruct (str_eqb v p); reflexivity.
    + rewrite !bag_count_cons, IH.
      destruct (str_eqb_spec v p) as [->|Hvp].
      * apply str_eqb_neq in Hpx. rewrite Hpx. reflexivity.
      * reflexivity.
Qed.

(* ---------- the error trace ---------- *)

(* what a balanced try ... finally does to a trace: an ok trace stays ok, and
   it is unchanged when no failed try is pending *)
Definition tr_keep (t t' : trace) : Prop :=
  tr_ok t' = true /\ (t_post t = 0 -> t' = t).

Lemma tr_keep_refl t : tr_ok t = true -> tr_keep t t.
Proof. intros H. split; [exact H | reflexivity]. Qed.

Lemma tr_keep_trans a b c : tr_keep a b -> tr_keep b c -> tr_keep a c.
Proof.
  intros [H1 H2] [H3 H4]. split; [exact H3|].
  intros H0. specialize (H2 H0). subst b. exact (H4 H0).
Qed.

Lemma tr_keep_ok a b : tr_keep a b -> tr_ok b = true.
Proof. intros [H _]. exact H. Qed.

Lemma tr_cycle s m t :
  tr_ok t = true ->
  tr_keep t (tr_finally_rethrow_static m (tr_rethrow_context s (tr_try t))).
Proof.
  destruct t as [fr pre post]. unfold tr_ok. cbn [t_frames].
  destruct fr as [|x fr]; [intros _ | discriminate].
  unfold tr_try, tr_ok. cbn [t_frames t_pre t_post].
  unfold tr_rethrow_context, tr_ok. cbn [t_frames t_pre t_post negb]. rewrite andb_false_r.
  unfold tr_finally_rethrow_static, tr_decrement. cbn [t_frames t_pre t_post].
  destruct post as [|post]; unfold tr_ok; cbn [t_frames t_pre t_post negb andb Nat.pred].
  - split; reflexivity.
  - split; [reflexivity | discriminate].
Qed.

(* ---------- single steps under a benign oracle ---------- *)

Definition upd_tr (f : trace -> trace) (w : world) : world :=
  mkW (w_fs w) (w_n w) (w_log w) (w_clock w) (f (w_tr w)).

Lemma mod_tr_eq f o w : mod_tr f o w = (Some tt, upd_tr f w).
Proof. reflexivity. Qed.

Lemma when_ok_true {A} (d : A) (m : M A) o w :
  tr_ok (w_tr w) = true -> when_ok d m o w = m o w.
Proof. intros H. unfold when_ok, bind. rewrite is_ok_eq, H. reflexivity. Qed.

Lemma k_readlinkat_link o w d n size target t :
  benign o ->
  lookup (w_fs w) (join d n) = Some (NLink target t) ->
  k_readlinkat d n size o w =
  (Some (inl (firstn size target)),
   mkW (w_fs w) (S (w_n w))
       ((CReadlinkat d n size, RInt (Z.of_nat (Nat.min size (length target)))) :: w_log w)
       (w_clock w) (w_tr w)).
Proof.
  intros H Hl. unfold k_readlinkat. rewrite sys_benign by exact H.
  unfold fs_readlink. rewrite Hl. reflexivity.
Qed.

Lemma k_fstatat_link o w d n target t :
  benign o ->
  lookup (w_fs w) (join d n) = Some (NLink target t) ->
  k_fstatat_mtime d n o w =
  (Some (inl t),
   mkW (w_fs w) (S (w_n w)) ((CFstatat d n, RInt 0) :: w_log w) (w_clock w) (w_tr w)).
Proof.
  intros H Hl. unfold k_fstatat_mtime. rewrite sys_benign by exact H.
  unfold fs_lstat_mtime. rewrite Hl. reflexivity.
Qed.

Lemma k_unlinkat_link o w d n target t :
  benign o ->
  lookup (w_fs w) (join d n) = Some (NLink target t) ->
  k_unlinkat d n o w =
  (Some None,
   mkW (del_dent (join d n) (w_fs w)) (S (w_n w)) ((CUnlinkat d n, RInt 0) :: w_log w)
       (w_clock w) (w_tr w)).
Proof.
  intros H Hl. unfold k_unlinkat, sys_unit. rewrite sys_benign by exact H.
  unfold fs_unlink. rewrite Hl. reflexivity.
Qed.

Lemma k_symlinkat_new o w d n target :
  benign o ->
  lookup (w_fs w) (join d n) = None ->
  parent_is_dir (w_fs w) (join d n) = None ->
  k_symlinkat target d n o w =
  (Some None,
   mkW (add_dent (join d n) (NLink target (w_clock w)) (w_fs w)) (S (w_n w))
       ((CSymlinkat target d n, RInt 0) :: w_log w) (w_clock w) (w_tr w)).
Proof.
  intros H Hl Hp. unfold k_symlinkat, bind, get_clock, sys_unit.
  rewrite sys_benign by exact H.
  unfold fs_symlink. rewrite Hl, Hp. reflexivity.
Qed.

(* ---------- read_entry ---------- *)

Lemma read_loop_step fuel d n size o w target t :
  benign o -> tr_ok (w_tr w) = true ->
  lookup (w_fs w) (join d n) = Some (NLink target t) ->
  exists w1,
    w_fs w1 = w_fs w /\ w_clock w1 = w_clock w /\ tr_keep (w_tr w) (w_tr w1) /\
    read_entry_loop (S fuel) d n size o w =
    if Nat.ltb (length target) size then (Some (Some target), w1)
    else read_entry_loop fuel d n (size * 2) o w1.
Proof.
  intros H Hok Hl.
  pose proof (tr_cycle n M_invalid_entry (w_tr w) Hok) as Hk.
  cbn [read_entry_loop].
  unfold try_ at 1. unfold bind at 1. rewrite mod_tr_eq.
  unfold bind at 1.
  rewrite (k_readlinkat_link o (upd_tr tr_try w) d n size target t H Hl).
  unfold bind at 1. unfold ret_ at 1.
  unfold rethrow_context at 1. unfold bind at 1. rewrite mod_tr_eq.
  unfold finally_rethrow_static at 1. unfold bind at 1. rewrite mod_tr_eq.
  unfold bind at 1. rewrite is_ok_eq.
  unfold upd_tr. cbn [w_fs w_n w_log w_clock w_tr].
  rewrite (tr_keep_ok _ _ Hk). cbn [negb].
  exists (mkW (w_fs w) (S (w_n w))
              ((CReadlinkat d n size, RInt (Z.of_nat (Nat.min size (length target)))) :: w_log w)
              (w_clock w)
              (tr_finally_rethrow_static M_invalid_entry (tr_rethrow_context n (tr_try (w_tr w))))).
  cbn [w_fs w_n w_log w_clock w_tr].
  split; [reflexivity|]. split; [reflexivity|]. split; [exact Hk|].
  rewrite firstn_length.
  destruct (Nat.ltb_spec (length target) size) as [Hlt|Hge].
  - rewrite Nat.min_r by lia.
    destruct (Nat.ltb_spec (length target) size) as [_|Hx]; [|lia].
    rewrite firstn_all2 by lia. reflexivity.
  - rewrite Nat.min_l by lia.
    destruct (Nat.ltb_spec size size) as [Hx|_]; [lia|]. reflexivity.
Qed.

Lemma read_loop_ok d n target t o : benign o -> forall fuel size w,
  tr_ok (w_tr w) = true ->
  lookup (w_fs w) (join d n) = Some (NLink target t) ->
  length target < size * 2 ^ fuel ->
  exists w',
    read_entry_loop (S fuel) d n size o w = (Some (Some target), w') /\
    w_fs w' = w_fs w /\ w_clock w' = w_clock w /\ tr_keep (w_tr w) (w_tr w').
Proof.
  intros H. induction fuel as [|fuel IH]; intros size w Hok Hl Hlen.
  - destruct (read_loop_step 0 d n size o w target t H Hok Hl) as (w1 & Hf & Hc & Hk & E).
    rewrite E. rewrite Nat.pow_0_r, Nat.mul_1_r in Hlen.
    destruct (Nat.ltb_spec (length target) size) as [_|Hx]; [|lia].
    exists w1. auto.
  - destruct (read_loop_step (S fuel) d n size o w target t H Hok Hl) as (w1 & Hf & Hc & Hk & E).
    rewrite E.
    destruct (Nat.ltb_spec (length target) size) as [_|Hge].
    + exists w1. auto.
    + destruct (IH (size * 2) w1) as (w' & E' & Hf' & Hc' & Hk').
      * exact (tr_keep_ok _ _ Hk).
      * rewrite Hf. exact Hl.
      * rewrite Nat.pow_succ_r' in Hlen. lia.
      * exists w'. split; [exact E'|]. split; [congruence|]. split; [congruence|].
        exact (tr_keep_trans _ _ _ Hk Hk').
Qed.

(* READ_ENTRY: the target is found whatever its length, as long as the
   doubling buffer reaches it within the 64 attempts *)
Theorem read_entry_ok q name target t o w :
  benign o -> tr_ok (w_tr w) = true ->
  lookup (w_fs w) (join (q_dir q) name) = Some (NLink target t) ->
  length target < S (q_len_guess q) * 2 ^ 63 ->
  exists w',
    read_entry q name o w = (Some (Some target), w') /\
    w_fs w' = w_fs w /\ w_clock w' = w_clock w /\
    tr_ok (w_tr w') = true /\ (t_post (w_tr w) = 0 -> w_tr w' = w_tr w).
Proof.
  intros H Hok Hl Hlen. unfold read_entry. rewrite when_ok_true by exact Hok.
  destruct (read_loop_ok (q_dir q) name target t o H 63 (S (q_len_guess q)) w Hok Hl Hlen)
    as (w' & E & Hf & Hc & Hk1 & Hk2).
  exists w'. auto.
Qed.

(* ---------- the representation relation ---------- *)

(* the link target of an entry is reached by the doubling buffer of read_entry
   (first attempt S guess bytes, 64 attempts) *)
Definition fits (guess : nat) (e : qent) : Prop :=
  length (encode (snd (fst e)) (qpath e)) < S guess * 2 ^ 63.

Record QRel (q : qmem) (f : fs) (ents : list qent) : Prop := {
  QR_size : q_size q = N.of_nat (length ents);
  QR_head0 : ents = [] -> q_head q = 0%N;
  QR_dir : lookup f (q_dir q) = Some NDir;
  QR_nroot : q_dir q <> root_path;
  QR_ent : forall i p m t, nth_error ents i = Some (p, m, t) ->
      lookup f (join (q_dir q) (dec (q_head q + N.of_nat i))) = Some (NLink (encode m p) t);
  (* every numeric name outside the window [head, head + size) is free *)
  QR_free : forall k, (k < q_head q \/ q_head q + N.of_nat (length ents) <= k)%N ->
      lookup f (join (q_dir q) (dec k)) = None;
  QR_bag : forall v, bag_count v (q_bag q) = count_paths v ents;
  QR_wf : Forall (fun e => normal (qpath e) /\ fits (q_len_guess q) e) ents
}.

(* in particular the next name is free *)
Lemma QRel_next_free q f ents : QRel q f ents ->
  lookup f (join (q_dir q) (dec (q_head q + N.of_nat (length ents)))) = None.
Proof. intros HR. apply (QR_free _ _ _ HR). right. lia. Qed.

Lemma QRel_head q f p m t rest : QRel q f ((p, m, t) :: rest) ->
  lookup f (join (q_dir q) (dec (q_head q))) = Some (NLink (encode m p) t).
Proof.
  intros HR. pose proof (QR_ent _ _ _ HR 0 p m t eq_refl) as E.
  change (N.of_nat 0) with 0%N in E. rewrite N.add_0_r in E. exact E.
Qed.

Definition pushed (p : str) (q : qmem) : qmem :=
  mkQ (q_dir q) (q_head q) (q_size q + 1) (q_deb q) (q_len_guess q) (p :: q_bag q).

Definition popped (p : str) (q : qmem) : qmem :=
  mkQ (q_dir q) (if (q_size q - 1 =? 0)%N then 0%N else (q_head q + 1)%N) (q_size q - 1)
      (q_deb q) (q_len_guess q) (bag_remove p (q_bag q)).

Definition next_name (q : qmem) : str := join (q_dir q) (dec (q_head q + q_size q)).
Definition head_name (q : qmem) : str := join (q_dir q) (dec (q_head q)).

Lemma QRel_push q f ents p m now :
  QRel q f ents -> normal p -> fits (q_len_guess q) (p, m, now) ->
  QRel (pushed p q) (add_dent (next_name q) (NLink (encode m p) now) f) (ents ++ [(p, m, now)]).
Proof.
  intros HR Hp Hfit. pose proof (QRel_next_free _ _ _ HR) as Hnew.
  destruct HR as [Hs Hh0 Hd Hnr He Hf Hb Hw]. rewrite <- Hs in Hnew.
  unfold next_name.
  constructor; unfold pushed; cbn [q_dir q_head q_size q_deb q_len_guess q_bag].
  - rewrite app_length. cbn [length]. lia.
  - intros E. destruct ents; discriminate.
  - rewrite lookup_add_dent_other; [exact Hd|].
    intros E. symmetry in E. exact (join_neq_dir _ _ Hnr E).
  - exact Hnr.
  - intros i p' m' t' Hi. destruct (Nat.lt_ge_cases i (length ents)) as [Hlt|Hge].
    + rewrite nth_error_app1 in Hi by exact Hlt.
      rewrite lookup_add_dent_other; [apply He; exact Hi|].
      intros E. apply join_dec_inj in E. lia.
    + rewrite nth_error_app2 in Hi by exact Hge.
      destruct (i - length ents) as [|j] eqn:Ei; cbn [nth_error] in Hi.
      * injection Hi as <- <- <-. assert (i = length ents) by lia. subst i.
        rewrite <- Hs. apply lookup_add_dent_same. exact Hnew.
      * destruct j; discriminate.
  - intros k Hk. rewrite app_length in Hk. cbn [length] in Hk.
    rewrite lookup_add_dent_other; [apply Hf; lia|].
    intros E. apply join_dec_inj in E. lia.
  - intros v. rewrite bag_count_cons, Hb, count_paths_app. unfold qpath. cbn [fst].
    destruct (str_eqb v p); lia.
  - apply Forall_app. split; [exact Hw|]. constructor; [split; assumption | constructor].
Qed.

Lemma popped_head q f e1 e2 rest p : QRel q f (e1 :: e2 :: rest) ->
  q_head (popped p q) = (q_head q + 1)%N.
Proof.
  intros HR. pose proof (QR_size _ _ _ HR) as Hs. cbn [length] in Hs.
  unfold popped. cbn [q_head].
  destruct (N.eqb_spec (q_size q - 1) 0) as [E|_]; [lia | reflexivity].
Qed.

Lemma QRel_pop q f p m t rest :
  keys_nodup f -> QRel q f ((p, m, t) :: rest) ->
  QRel (popped p q) (del_dent (head_name q) f) rest.
Proof.
  intros Hnd HR. pose proof (QRel_head _ _ _ _ _ _ HR) as Hh.
  destruct HR as [Hs Hh0 Hd Hnr He Hf Hb Hw]. cbn [length] in Hs, Hf.
  unfold head_name.
  assert (Hxr : join (q_dir q) (dec (q_head q)) <> root_path)
    by (apply join_dec_nonroot; exact Hnr).
  assert (Hs' : (q_size q - 1 = N.of_nat (length rest))%N) by lia.
  assert (Hhd : rest <> [] ->
                (if (q_size q - 1 =? 0)%N then 0%N else (q_head q + 1)%N) = (q_head q + 1)%N).
  { intros Hne. destruct rest as [|e r]; [congruence|]. cbn [length] in Hs'.
    destruct (N.eqb_spec (q_size q - 1) 0) as [E|_]; [lia | reflexivity]. }
  constructor; unfold popped; cbn [q_dir q_head q_size q_deb q_len_guess q_bag].
  - exact Hs'.
  - intros ->. cbn [length] in Hs'. change (N.of_nat 0) with 0%N in Hs'.
    rewrite Hs'. rewrite N.eqb_refl. reflexivity.
  - rewrite lookup_del_dent_other; [exact Hd|].
    intros E. symmetry in E. exact (join_neq_dir _ _ Hnr E).
  - exact Hnr.
  - intros i p' m' t' Hi. rewrite Hhd by (intros ->; destruct i; discriminate).
    rewrite lookup_del_dent_other.
    + replace (q_head q + 1 + N.of_nat i)%N with (q_head q + N.of_nat (S i))%N by lia.
      apply He. exact Hi.
    + intros E. apply join_dec_inj in E. lia.
  - intros k Hk. destruct (N.eq_dec k (q_head q)) as [->|Hne].
    + apply lookup_del_dent_same; assumption.
    + rewrite lookup_del_dent_other; [|intros E; apply join_dec_inj in E; contradiction].
      apply Hf. destruct rest as [|e r].
      * cbn [length]. lia.
      * rewrite Hhd in Hk by discriminate. cbn [length] in Hk |- *. lia.
  - intros v. rewrite bag_count_remove, Hb. cbn [count_paths]. unfold qpath. cbn [fst].
    destruct (str_eqb v p); cbn [Nat.add Nat.pred]; reflexivity.
  - inversion Hw; assumption.
Qed.

(* ---------- PUSH ---------- *)

Theorem push_ok q ents p m o w :
  benign o -> tr_ok (w_tr w) = true ->
  QRel q (w_fs w) ents ->
  normal p -> fits (q_len_guess q) (p, m, w_clock w) ->
  exists w',
    q_push p m q o w = (Some (pushed p q), w') /\
    QRel (pushed p q) (w_fs w') (ents ++ [(p, m, w_clock w)]) /\
    w_fs w' = add_dent (next_name q) (NLink (encode m p) (w_clock w)) (w_fs w) /\
    w_tr w' = w_tr w /\ w_clock w' = w_clock w /\
    (forall x, x <> next_name q -> lookup (w_fs w') x = lookup (w_fs w) x) /\
    fs_files (w_fs w') = fs_files (w_fs w) /\
    (keys_nodup (w_fs w) -> keys_nodup (w_fs w')).
Proof.
  intros H Hok HR Hp Hfit.
  pose proof (QRel_next_free _ _ _ HR) as Hnew. rewrite <- (QR_size _ _ _ HR) in Hnew.
  pose proof (parent_of_name (w_fs w) (q_dir q) (q_head q + q_size q)
                (QR_nroot _ _ _ HR) (QR_dir _ _ _ HR)) as Hpar.
  unfold q_push. rewrite when_ok_true by exact Hok.
  unfold bind at 1.
  rewrite (k_symlinkat_new o w (q_dir q) (dec (q_head q + q_size q)) (encode m p) H Hnew Hpar).
  unfold ret_. fold (pushed p q). fold (next_name q).
  eexists. split; [reflexivity|]. cbn [w_fs w_tr w_clock].
  split; [apply QRel_push; assumption|].
  split; [reflexivity|]. split; [reflexivity|]. split; [reflexivity|].
  split; [intros x Hx; apply lookup_add_dent_other; exact Hx|].
  split; [reflexivity|].
  intros Hnd. apply keys_nodup_add; [exact Hnd | exact Hnew].
Qed.

(* ---------- POP ---------- *)

Theorem pop_ok q p m t rest o w :
  benign o -> tr_ok (w_tr w) = true -> keys_nodup (w_fs w) ->
  QRel q (w_fs w) ((p, m, t) :: rest) ->
  exists w',
    q_pop_head q o w = (Some (popped p q), w') /\
    QRel (popped p q) (w_fs w') rest /\
    w_fs w' = del_dent (head_name q) (w_fs w) /\
    keys_nodup (w_fs w') /\
    tr_keep (w_tr w) (w_tr w') /\ w_clock w' = w_clock w /\
    lookup (w_fs w') (head_name q) = None /\
    (forall x, x <> head_name q -> lookup (w_fs w') x = lookup (w_fs w) x) /\
    fs_files (w_fs w') = fs_files (w_fs w).
Proof.
  intros H Hok Hnd HR.
  pose proof (QRel_head _ _ _ _ _ _ HR) as Hh.
  pose proof (QR_wf _ _ _ HR) as Hw. inversion Hw as [|? ? [Hp Hfit] Hw']; subst.
  unfold qpath in Hp. cbn [fst] in Hp. unfold fits, qpath in Hfit. cbn [fst snd] in Hfit.
  destruct (read_entry_ok q (dec (q_head q)) (encode m p) t o w H Hok Hh Hfit)
    as (w1 & E1 & Hf1 & Hc1 & Hok1 & Htr1).
  unfold q_pop_head. rewrite when_ok_true by exact Hok.
  unfold bind at 1. rewrite E1.
  unfold bind at 1. rewrite is_ok_eq, Hok1. cbn [negb].
  unfold bind at 1.
  rewrite <- Hf1 in Hh.
  rewrite (k_unlinkat_link o w1 (q_dir q) (dec (q_head q)) (encode m p) t H Hh).
  unfold ret_. rewrite strip_encode by exact Hp. fold (popped p q). fold (head_name q).
  eexists. split; [reflexivity|]. cbn [w_fs w_tr w_clock]. rewrite Hf1.
  assert (Hxr : head_name q <> root_path)
    by (apply join_dec_nonroot; exact (QR_nroot _ _ _ HR)).
  split; [apply (QRel_pop q (w_fs w) p m t rest Hnd HR)|].
  split; [reflexivity|].
  split; [apply keys_nodup_del; exact Hnd|].
  split; [split; assumption|].
  split; [exact Hc1|].
  split; [apply lookup_del_dent_same; assumption|].
  split; [intros x Hx; apply lookup_del_dent_other; exact Hx|].
  reflexivity.
Qed.

(* ---------- GET_HEAD ---------- *)

Definition hres (r : qhead) : head_res :=
  match r with QPause z => HPause z | QReady p m => HReady p m end.

(* how many heads the reference skips *)
Fixpoint ref_skip (now deb : Z) (q : list qent) : nat :=
  match q with
  | [] => 0
  | (p, m, t) :: q' =>
      if (now - t <? deb)%Z then 0
      else if occurs p q' then S (ref_skip now deb q') else 0
  end.

Lemma ref_head_skip now deb q :
  snd (ref_head now deb q) = skipn (ref_skip now deb q) q.
Proof.
  induction q as [|[[p m] t] q IH]; cbn [ref_head ref_skip]; [reflexivity|].
  destruct (now - t <? deb)%Z; [reflexivity|].
  destruct (occurs p q); [exact IH | reflexivity].
Qed.

(* removal of k consecutive names starting at h *)
Fixpoint del_heads (d : str) (h : N) (k : nat) (f : fs) : fs :=
  match k with
  | O => f
  | S k' => del_heads d (h + 1) k' (del_dent (join d (dec h)) f)
  end.

Lemma del_heads_files d : forall k h f, fs_files (del_heads d h k f) = fs_files f.
Proof. induction k as [|k IH]; intros h f; cbn [del_heads]; [reflexivity|]. rewrite IH. reflexivity. Qed.

Lemma del_heads_nodup d : forall k h f, keys_nodup f -> keys_nodup (del_heads d h k f).
Proof.
  induction k as [|k IH]; intros h f Hnd; cbn [del_heads]; [exact Hnd|].
  apply IH. apply keys_nodup_del. exact Hnd.
Qed.

Lemma lookup_del_heads_other d x : forall k h f,
  (forall i, i < k -> x <> join d (dec (h + N.of_nat i))) ->
  lookup (del_heads d h k f) x = lookup f x.
Proof.
  induction k as [|k IH]; intros h f Hx; cbn [del_heads]; [reflexivity|].
  rewrite IH.
  - apply lookup_del_dent_other. specialize (Hx 0 ltac:(lia)).
    change (N.of_nat 0) with 0%N in Hx. rewrite N.add_0_r in Hx. exact Hx.
  - intros i Hi. specialize (Hx (S i) ltac:(lia)).
    replace (h + 1 + N.of_nat i)%N with (h + N.of_nat (S i))%N by lia. exact Hx.
Qed.

Lemma lookup_del_heads_same d : d <> root_path -> forall k h f i,
  keys_nodup f -> i < k ->
  lookup (del_heads d h k f) (join d (dec (h + N.of_nat i))) = None.
Proof.
  intros Hd. induction k as [|k IH]; intros h f i Hnd Hi; [lia|]. cbn [del_heads].
  destruct i as [|i].
  - change (N.of_nat 0) with 0%N. rewrite N.add_0_r.
    rewrite lookup_del_heads_other.
    + apply lookup_del_dent_same; [exact Hnd | apply join_dec_nonroot; exact Hd].
    + intros j _ E. apply join_dec_inj in E. lia.
  - replace (h + N.of_nat (S i))%N with (h + 1 + N.of_nat i)%N by lia.
    apply IH; [apply keys_nodup_del; exact Hnd | lia].
Qed.

Lemma q_get_head_unfold fuel q :
  q_get_head fuel q =
  (do b <- is_ok;
   if negb b then ret_ (None, q)
   else if (q_size q =? 0)%N then ret_ (Some (QPause (-1)), q)
   else
     do st <- k_fstatat_mtime (q_dir q) (dec (q_head q));
     match st with
     | inr e => throw_errno e;; ret_ (None, q)
     | inl mtime =>
         do now <- get_clock;
         if (now - mtime <? q_deb q)%Z then ret_ (Some (QPause (q_deb q - (now - mtime))%Z), q)
         else
           do t <- read_entry q (dec (q_head q));
           do b2 <- is_ok;
           match t, b2 with
           | Some target, true =>
               let '(meta, path) := decode target in
               if Nat.ltb 1 (bag_count path (q_bag q)) then
                 match fuel with
                 | O => ret_ (None, q)
                 | S fuel' => do q' <- q_pop_head q; q_get_head fuel' q'
                 end
               else ret_ (Some (QReady path meta), q)
           | _, _ => ret_ (None, q)
           end
     end).
Proof. destruct fuel; reflexivity. Qed.

Theorem get_head_ok o : benign o -> forall ents fuel q w,
  tr_ok (w_tr w) = true -> keys_nodup (w_fs w) ->
  QRel q (w_fs w) ents -> length ents <= fuel ->
  exists r q' w',
    q_get_head fuel q o w = (Some (Some r, q'), w') /\
    hres r = fst (ref_head (w_clock w) (q_deb q) ents) /\
    QRel q' (w_fs w') (snd (ref_head (w_clock w) (q_deb q) ents)) /\
    w_fs w' = del_heads (q_dir q) (q_head q) (ref_skip (w_clock w) (q_deb q) ents) (w_fs w) /\
    keys_nodup (w_fs w') /\
    tr_keep (w_tr w) (w_tr w') /\ w_clock w' = w_clock w /\
    q_dir q' = q_dir q /\ q_deb q' = q_deb q /\ q_len_guess q' = q_len_guess q.
Proof.
  intros H. induction ents as [|[[p m] t] rest IH]; intros fuel q w Hok Hnd HR Hfuel.
  - rewrite q_get_head_unfold. unfold bind at 1. rewrite is_ok_eq, Hok. cbn [negb].
    rewrite (QR_size _ _ _ HR). cbn [length]. change (N.of_nat 0) with 0%N. rewrite N.eqb_refl.
    unfold ret_. exists (QPause (-1)), q, w. cbn [ref_head ref_skip del_heads fst snd hres].
    split; [reflexivity|]. split; [reflexivity|]. split; [exact HR|]. split; [reflexivity|].
    split; [exact Hnd|]. split; [apply tr_keep_refl; exact Hok|]. auto.
  - pose proof (QRel_head _ _ _ _ _ _ HR) as Hh.
    pose proof (QR_wf _ _ _ HR) as Hw. inversion Hw as [|? ? [Hp Hfit] Hw']; subst.
    unfold qpath in Hp. cbn [fst] in Hp. unfold fits, qpath in Hfit. cbn [fst snd] in Hfit.
    rewrite q_get_head_unfold. unfold bind at 1. rewrite is_ok_eq, Hok. cbn [negb].
    pose proof (QR_size _ _ _ HR) as Hs. cbn [length] in Hs.
    destruct (N.eqb_spec (q_size q) 0) as [E0|_]; [lia|].
    unfold bind at 1.
    rewrite (k_fstatat_link o w (q_dir q) (dec (q_head q)) (encode m p) t H Hh).
    set (w1 := mkW (w_fs w) (S (w_n w)) _ (w_clock w) (w_tr w)).
    unfold bind at 1. unfold get_clock at 1. change (w_clock w1) with (w_clock w).
    cbn [ref_head ref_skip].
    destruct (w_clock w - t <? q_deb q)%Z eqn:Eage.
    + unfold ret_. exists (QPause (q_deb q - (w_clock w - t))), q, w1.
      cbn [fst snd hres del_heads]. subst w1. cbn [w_fs w_tr w_clock].
      split; [reflexivity|]. split; [reflexivity|]. split; [exact HR|]. split; [reflexivity|].
      split; [exact Hnd|]. split; [apply tr_keep_refl; exact Hok|]. auto.
    + destruct (read_entry_ok q (dec (q_head q)) (encode m p) t o w1 H Hok Hh Hfit)
        as (w2 & E2 & Hf2 & Hc2 & Hok2 & Htr2).
      change (w_fs w1) with (w_fs w) in Hf2. change (w_clock w1) with (w_clock w) in Hc2.
      change (w_tr w1) with (w_tr w) in Htr2.
      unfold bind at 1. rewrite E2.
      unfold bind at 1. rewrite is_ok_eq, Hok2.
      rewrite decode_encode by exact Hp.
      rewrite (QR_bag _ _ _ HR). cbn [count_paths]. unfold qpath at 1. cbn [fst].
      rewrite str_eqb_refl. rewrite occurs_count.
      destruct (count_paths p rest) as [|c] eqn:Ec.
      * cbn [Nat.add Nat.ltb Nat.leb]. unfold ret_. exists (QReady p m), q, w2.
        cbn [fst snd hres del_heads].
        split; [reflexivity|]. split; [reflexivity|]. rewrite Hf2.
        split; [exact HR|]. split; [reflexivity|].
        split; [exact Hnd|]. split; [split; assumption|]. auto.
      * cbn [Nat.add Nat.ltb Nat.leb].
        destruct fuel as [|fuel']; [cbn [length] in Hfuel; lia|].
        assert (HR2 : QRel q (w_fs w2) ((p, m, t) :: rest)) by (rewrite Hf2; exact HR).
        assert (Hnd2 : keys_nodup (w_fs w2)) by (rewrite Hf2; exact Hnd).
        destruct (pop_ok q p m t rest o w2 H Hok2 Hnd2 HR2)
          as (w3 & E3 & HR3 & Hf3 & Hnd3 & Hk3 & Hc3 & _).
        unfold bind at 1. rewrite E3.
        destruct (IH fuel' (popped p q) w3 (tr_keep_ok _ _ Hk3) Hnd3 HR3)
          as (r & q' & w' & E & Hr & HR' & Hf' & Hnd' & Hk' & Hc' & Hd' & Hdeb' & Hg').
        { cbn [length] in Hfuel. lia. }
        assert (Hhd : q_head (popped p q) = (q_head q + 1)%N).
        { destruct rest as [|e2 rest']; [discriminate Ec|].
          exact (popped_head q (w_fs w) _ _ _ p HR). }
        rewrite Hc3, Hc2 in Hr, HR', Hf', Hc'. rewrite Hhd in Hf'.
        change (q_deb (popped p q)) with (q_deb q) in Hr, HR', Hf', Hdeb'.
        change (q_dir (popped p q)) with (q_dir q) in Hf', Hd'.
        change (q_len_guess (popped p q)) with (q_len_guess q) in Hg'.
        exists r, q', w'. cbn [del_heads].
        split; [exact E|]. split; [exact Hr|]. split; [exact HR'|].
        split; [rewrite Hf', Hf3, Hf2; reflexivity|].
        split; [exact Hnd'|].
        split; [|auto].
        apply (tr_keep_trans _ (w_tr w2)); [split; assumption|].
        exact (tr_keep_trans _ _ _ Hk3 Hk').
Qed.

(* the file system after q_get_head, entry by entry *)
Corollary get_head_fs o ents fuel q w r q' w' :
  benign o -> tr_ok (w_tr w) = true -> keys_nodup (w_fs w) ->
  QRel q (w_fs w) ents -> length ents <= fuel ->
  q_get_head fuel q o w = (Some (Some r, q'), w') ->
  let k := ref_skip (w_clock w) (q_deb q) ents in
  (forall i, i < k -> lookup (w_fs w') (join (q_dir q) (dec (q_head q + N.of_nat i))) = None) /\
  (forall x, (forall i, i < k -> x <> join (q_dir q) (dec (q_head q + N.of_nat i))) ->
             lookup (w_fs w') x = lookup (w_fs w) x) /\
  fs_files (w_fs w') = fs_files (w_fs w).
Proof.
  intros H Hok Hnd HR Hfuel E.
  destruct (get_head_ok o H ents fuel q w Hok Hnd HR Hfuel)
    as (r0 & q0 & w0 & E0 & _ & _ & Hf & _).
  rewrite E in E0. injection E0 as <- <- <-.
  cbv zeta. rewrite Hf. split; [|split].
  - intros i Hi. apply lookup_del_heads_same; [exact (QR_nroot _ _ _ HR) | exact Hnd | exact Hi].
  - intros x Hx. apply lookup_del_heads_other. exact Hx.
  - apply del_heads_files.
Qed.

(* ---------- sequences of operations ---------- *)

Definition tick (n : Z) : M unit :=
  fun _ w => (Some tt, mkW (w_fs w) (w_n w) (w_log w) (w_clock w + n) (w_tr w)).

Definition set_deb (d : Z) (q : qmem) : qmem :=
  mkQ (q_dir q) (q_head q) (q_size q) d (q_len_guess q) (q_bag q).

(* the operations of LinqSpec.lop over system calls; get_head runs with the
   fuel handle_timeout gives it; pop_head is guarded like the assert of linq.c;
   a reload is not modelled here (the reference says it changes nothing) *)
Definition wstep (q : qmem) (op : lop) : M (qmem * list lout) :=
  match op with
  | LPush p m => do q' <- q_push p m q; ret_ (q', [OPush PushOk])
  | LHead => do r <- q_get_head (S (N.to_nat (q_size q))) q;
             ret_ (snd r, [OHead (match fst r with Some x => hres x | None => HErr end)])
  | LPop => if (q_size q =? 0)%N then ret_ (q, [OPop PopAbort])
            else do q' <- q_pop_head q; ret_ (q', [OPop PopOk])
  | LTick n => tick n;; ret_ (q, [])
  | LRedeb d => ret_ (set_deb d q, [])
  | LReload _ => ret_ (q, [])
  end.

Fixpoint wrun (q : qmem) (ops : list lop) : M (qmem * list lout) :=
  match ops with
  | [] => ret_ (q, [])
  | op :: r => do x <- wstep q op; do y <- wrun (fst x) r; ret_ (fst y, snd x ++ snd y)
  end.

Definition wf_wop (guess : nat) (op : lop) : Prop :=
  match op with
  | LPush p m => normal p /\ (m < meta_limit)%N /\ length (encode m p) < S guess * 2 ^ 63
  | _ => True
  end.

Lemma wf_wop_op g op : wf_wop g op -> wf_op op.
Proof. destruct op; cbn; tauto. Qed.

Record WS (q : qmem) (w : world) (r : rstate) : Prop := {
  WS_rel : QRel q (w_fs w) (rs_q r);
  WS_nodup : keys_nodup (w_fs w);
  WS_ok : tr_ok (w_tr w) = true;
  WS_deb : q_deb q = rs_deb r;
  WS_now : w_clock w = rs_now r
}.

Lemma QRel_set_deb d q f ents : QRel q f ents -> QRel (set_deb d q) f ents.
Proof. intros [Hs Hh0 Hd Hnr He Hf Hb Hw]. constructor; assumption. Qed.

Lemma wstep_sim o q w r op :
  benign o -> WS q w r -> wf_wop (q_len_guess q) op ->
  exists q' w',
    wstep q op o w = (Some (q', snd (rstep r op)), w') /\
    WS q' w' (fst (rstep r op)) /\
    q_len_guess q' = q_len_guess q /\ q_dir q' = q_dir q.
Proof.
  intros H [HR Hnd Hok Hdeb Hnow] Hwf. destruct r as [ents deb now].
  cbn [rs_q rs_deb rs_now] in *. subst deb now.
  destruct op as [p m| | |n|d|g]; cbn [wstep rstep rs_q rs_deb rs_now].
  - destruct Hwf as (Hp & Hm & Hlen).
    destruct (N.leb_spec meta_limit m) as [Hle|_]; [lia|].
    destruct (push_ok q ents p m o w H Hok HR Hp Hlen)
      as (w' & E & HR' & Hf' & Htr' & Hc' & _ & _ & Hnd').
    unfold bind at 1. rewrite E. unfold ret_. cbn [fst snd].
    exists (pushed p q), w'. split; [reflexivity|]. split; [|split; reflexivity].
    constructor; cbn [rs_q rs_deb rs_now]; auto. rewrite Htr'. exact Hok.
  - destruct (get_head_ok o H ents (S (N.to_nat (q_size q))) q w Hok Hnd HR)
      as (r & q' & w' & E & Hr & HR' & _ & Hnd' & Hk' & Hc' & Hd' & Hdeb' & Hg').
    { rewrite (QR_size _ _ _ HR). lia. }
    unfold bind at 1. rewrite E. unfold ret_. cbn [fst snd]. rewrite Hr.
    destruct (ref_head (w_clock w) (q_deb q) ents) as [hr ents'] eqn:Er. cbn [fst snd] in *.
    exists q', w'. split; [reflexivity|]. split; [|split; assumption].
    constructor; cbn [rs_q rs_deb rs_now]; auto. exact (tr_keep_ok _ _ Hk').
  - destruct ents as [|[[p m] t] rest].
    + rewrite (QR_size _ _ _ HR). cbn [length]. change (N.of_nat 0) with 0%N. rewrite N.eqb_refl.
      unfold ret_. cbn [fst snd]. exists q, w. split; [reflexivity|]. split; [|split; reflexivity].
      constructor; auto.
    + pose proof (QR_size _ _ _ HR) as Hs. cbn [length] in Hs.
      destruct (N.eqb_spec (q_size q) 0) as [E0|_]; [lia|].
      destruct (pop_ok q p m t rest o w H Hok Hnd HR)
        as (w' & E & HR' & _ & Hnd' & Hk' & Hc' & _).
      unfold bind at 1. rewrite E. unfold ret_. cbn [fst snd].
      exists (popped p q), w'. split; [reflexivity|]. split; [|split; reflexivity].
      constructor; cbn [rs_q rs_deb rs_now]; auto. exact (tr_keep_ok _ _ Hk').
  - unfold bind, tick, ret_. cbn [fst snd]. eexists q, _. split; [reflexivity|].
    split; [|split; reflexivity]. constructor; cbn [w_fs w_tr w_clock rs_q rs_deb rs_now]; auto.
  - unfold ret_. cbn [fst snd]. exists (set_deb d q), w. split; [reflexivity|].
    split; [|split; reflexivity]. constructor; cbn [rs_q rs_deb rs_now]; auto.
    apply QRel_set_deb. exact HR.
  - unfold ret_. cbn [fst snd]. exists q, w. split; [reflexivity|].
    split; [|split; reflexivity]. constructor; auto.
Qed.

Lemma wrun_sim o : benign o -> forall ops q w r,
  WS q w r -> Forall (wf_wop (q_len_guess q)) ops ->
  exists q' w',
    wrun q ops o w = (Some (q', snd (rrun r ops)), w') /\
    WS q' w' (fst (rrun r ops)) /\
    q_len_guess q' = q_len_guess q /\ q_dir q' = q_dir q.
Proof.
  intros H. induction ops as [|op ops IH]; intros q w r HW Hwf; cbn [wrun rrun].
  - unfold ret_. cbn [fst snd]. exists q, w. auto.
  - inversion Hwf as [|? ? Hop Hops]; subst.
    destruct (wstep_sim o q w r op H HW Hop) as (q1 & w1 & E1 & HW1 & Hg1 & Hd1).
    destruct (rstep r op) as [r1 out1]. cbn [fst snd] in *.
    rewrite <- Hg1 in Hops.
    destruct (IH q1 w1 r1 HW1 Hops) as (q2 & w2 & E2 & HW2 & Hg2 & Hd2).
    destruct (rrun r1 ops) as [r2 out2]. cbn [fst snd] in *.
    unfold bind at 1. rewrite E1. cbn [fst snd].
    unfold bind at 1. rewrite E2. unfold ret_. cbn [fst snd].
    exists q2, w2. split; [reflexivity|]. split; [exact HW2|]. split; congruence.
Qed.

(* the queue over system calls refines the reference FIFO: same outputs, and
   the representation relation holds again afterwards *)
Theorem world_refines_ref o ops q w ents :
  benign o -> tr_ok (w_tr w) = true -> keys_nodup (w_fs w) ->
  QRel q (w_fs w) ents ->
  Forall (wf_wop (q_len_guess q)) ops ->
  let ref := rrun (mkRS ents (q_deb q) (w_clock w)) ops in
  exists q' w',
    wrun q ops o w = (Some (q', snd ref), w') /\
    QRel q' (w_fs w') (rs_q (fst ref)) /\
    keys_nodup (w_fs w') /\ tr_ok (w_tr w') = true /\
    q_deb q' = rs_deb (fst ref) /\ w_clock w' = rs_now (fst ref).
Proof.
  intros H Hok Hnd HR Hwf. cbv zeta.
  destruct (wrun_sim o H ops q w (mkRS ents (q_deb q) (w_clock w))) as (q' & w' & E & [A B C D F] & _).
  - constructor; auto.
  - exact Hwf.
  - exists q', w'. auto 10.
Qed.

(* an empty queue directory *)
Lemma QRel_empty d deb g f :
  d <> root_path -> lookup f d = Some NDir ->
  (forall k, lookup f (join d (dec k)) = None) ->
  QRel (mkQ d 0 0 deb g []) f [].
Proof.
  intros Hd Hl Hfree. constructor; cbn [q_dir q_head q_size q_bag q_len_guess length]; auto.
  - intros i p m t Hi. destruct i; discriminate.
Qed.

(* from an empty directory the outputs are also those of the abstract model of
   linq.c (Linq.v), by LinqProofs.refines *)
Corollary world_refines_model o ops d deb g guess w :
  benign o -> tr_ok (w_tr w) = true -> keys_nodup (w_fs w) ->
  d <> root_path -> lookup (w_fs w) d = Some NDir ->
  (forall k, lookup (w_fs w) (join d (dec k)) = None) ->
  Forall (wf_wop g) ops ->
  exists q' w',
    wrun (mkQ d 0 0 deb g []) ops o w =
      (Some (q', snd (lrun (linit deb guess (w_clock w)) ops)), w') /\
    tr_ok (w_tr w') = true.
Proof.
  intros H Hok Hnd Hd Hl Hfree Hwf.
  destruct (world_refines_ref o ops (mkQ d 0 0 deb g []) w [] H Hok Hnd
              (QRel_empty d deb g (w_fs w) Hd Hl Hfree) Hwf)
    as (q' & w' & E & _ & _ & Hok' & _).
  cbn [q_deb] in E.
  rewrite (refines deb guess (w_clock w) ops).
  - exists q', w'. auto.
  - apply Forall_impl with (2 := Hwf). apply wf_wop_op.
Qed.

(* ---------- a concrete run ---------- *)

Module QueueExample.
  Local Open Scope char_scope.

  Definition p_q : str := ["/"; "q"].
  Definition p_a : str := ["/"; "a"].
  Definition p_b : str := ["/"; "b"].
  Definition n0 : str := ["/"; "q"; "/"; "0"].
  Definition n1 : str := ["/"; "q"; "/"; "1"].
  Definition n2 : str := ["/"; "q"; "/"; "2"].
  Definition n3 : str := ["/"; "q"; "/"; "3"].

  Definition fs0 : fs := mkFs [(p_q, NDir)] [] 1.
  Definition w0 : world := mkW fs0 0 [] 100%Z tr_empty.
  Definition q0 : qmem := mkQ p_q 0 0 0%Z 8 [].

  Definition prog : M (option qhead * qmem) :=
    do q1 <- q_push p_a 2 q0;
    do q2 <- q_push p_b 0 q1;
    do q3 <- q_push p_a 2 q2;
    q_get_head 3 q3.

  (* "/a" was pushed twice: its first link is skipped and removed, "/b" is the head *)
  Example run_skips_duplicate :
    match prog no_faults w0 with
    | (Some (Some (QReady p m), q'), w') =>
        p = p_b /\ m = 0%N /\ q_head q' = 1%N /\ q_size q' = 2%N /\ q_bag q' = [p_b; p_a] /\
        lookup (w_fs w') n0 = None /\
        lookup (w_fs w') n1 = Some (NLink p_b 100%Z) /\
        lookup (w_fs w') n2 = Some (NLink (encode 2 p_a) 100%Z) /\
        lookup (w_fs w') n3 = None /\
        length (fs_dents (w_fs w')) = 3 /\
        w_tr w' = tr_empty /\
        (* symlinkat x3, fstatat + readlinkat (head 0), readlinkat + unlinkat (pop),
           fstatat + readlinkat (head 1) *)
        w_n w' = 9
    | _ => False
    end.
  Proof. vm_compute. repeat split. Qed.

  Lemma no_faults_benign : benign no_faults.
  Proof. intros i. left. reflexivity. Qed.

  Lemma q0_rel : QRel q0 (w_fs w0) [].
  Proof.
    apply QRel_empty; [discriminate | reflexivity |].
    intros k. unfold lookup.
    destruct (str_eqb_spec (join p_q (dec k)) root_path) as [E|_].
    - exfalso. revert E. apply join_dec_nonroot. discriminate.
    - cbn [w_fs w0 fs0 fs_dents alookup].
      destruct (str_eqb_spec (join p_q (dec k)) p_q) as [E|_]; [|reflexivity].
      exfalso. revert E. apply join_neq_dir. discriminate.
  Qed.

  Lemma w0_nodup : keys_nodup (w_fs w0).
  Proof. unfold keys_nodup. cbn. constructor; [intros []|constructor]. Qed.

  Definition ops : list lop := [LPush p_a 2; LPush p_b 0; LPush p_a 2; LHead; LPop; LHead].

  Lemma fits_small n g : n <= g -> n < S g * 2 ^ 63.
  Proof.
    intros Hn. assert (Hb : 1 <= 2 ^ 63) by (apply Nat.neq_0_lt_0, Nat.pow_nonzero; discriminate).
    apply Nat.lt_le_trans with (S g); [lia|].
    rewrite <- (Nat.mul_1_r (S g)) at 1. apply Nat.mul_le_mono_l. exact Hb.
  Qed.

  Lemma push_wf p m : normalb p = true -> (m <? meta_limit)%N = true ->
    Nat.leb (length (encode m p)) 8 = true -> wf_wop (q_len_guess q0) (LPush p m).
  Proof.
    intros Hp Hm Hl. cbn [wf_wop]. split; [apply normalb_spec; exact Hp|].
    split; [apply N.ltb_lt; exact Hm|].
    apply fits_small. apply Nat.leb_le. exact Hl.
  Qed.

  Lemma ops_wf : Forall (wf_wop (q_len_guess q0)) ops.
  Proof.
    unfold ops.
    constructor; [apply push_wf; vm_compute; reflexivity|].
    constructor; [apply push_wf; vm_compute; reflexivity|].
    constructor; [apply push_wf; vm_compute; reflexivity|].
    constructor; [exact I|]. constructor; [exact I|]. constructor; [exact I|]. constructor.
  Qed.

  (* the same by the theorem, for every benign oracle: the outputs are those of
     the reference FIFO *)
  Example run_by_theorem o : benign o ->
    exists q' w',
      wrun q0 ops o w0 =
        (Some (q', [OPush PushOk; OPush PushOk; OPush PushOk;
                    OHead (HReady p_b 0); OPop PopOk; OHead (HReady p_a 2)]), w') /\
      QRel q' (w_fs w') [(p_a, 2%N, 100%Z)] /\ tr_ok (w_tr w') = true.
  Proof.
    intros H.
    destruct (world_refines_ref o ops q0 w0 [] H eq_refl w0_nodup q0_rel ops_wf)
      as (q' & w' & E & HR & _ & Hok & _).
    exists q', w'. split; [exact E|]. split; [exact HR | exact Hok].
  Qed.

  (* the buffer of read_entry doubles until the target fits: with a guess of 0
     the sizes are 1, 2, 4, 8, so a 5-byte target takes four readlinkat calls *)
  Definition fs1 : fs := mkFs [(p_q, NDir); (n0, NLink (encode 2 p_a) 5%Z)] [] 1.
  Definition q1 : qmem := mkQ p_q 0 1 0%Z 0 [p_a].

  Example read_entry_doubles :
    match read_entry q1 ["0"] no_faults (mkW fs1 0 [] 100%Z tr_empty) with
    | (Some (Some target), w') =>
        target = encode 2 p_a /\ length target = 5 /\ w_n w' = 4 /\
        w_fs w' = fs1 /\ w_tr w' = tr_empty
    | _ => False
    end.
  Proof. vm_compute. repeat split. Qed.

  (* why [w_tr w' = w_tr w] needs [t_post (w_tr w) = 0]: with a failed try
     pending (and the trace nevertheless ok) the try/finally pair of read_entry
     moves one level from the post-throw depth to the pre-throw depth *)
  Example trace_moves_when_try_pending :
    match read_entry q0 ["0"] no_faults (mkW fs1 0 [] 100%Z (mkTr [] 0 1)) with
    | (Some (Some _), w') => w_tr w' = mkTr [] 1 0
    | _ => False
    end.
  Proof. vm_compute. reflexivity. Qed.
End QueueExample.

Print Assumptions read_entry_ok.
Print Assumptions push_ok.
Print Assumptions pop_ok.
Print Assumptions get_head_ok.
Print Assumptions get_head_fs.
Print Assumptions world_refines_ref.
Print Assumptions world_refines_model.
Print Assumptions QueueExample.run_skips_duplicate.
Print Assumptions QueueExample.run_by_theorem.
