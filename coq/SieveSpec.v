(* Declarative specification of path matching and of the selection policy. *)
From K Require Export Sieve.

(* ---------- matching by whole components ---------- *)

(* a prefix of length k (1 <= k <= length path) ends on a component boundary:
   it is "/" itself, the whole path, or is followed by '/' *)
Definition boundary (path : str) (k : nat) : bool :=
  Nat.eqb k 1 || Nat.eqb k (length path) ||
  match nth_error path k with Some c => is_slash c | None => false end.

(* the rule set contains that prefix, absolutely or relative to the common
   parent (offset off), the latter only for prefixes reaching below it *)
Definition matches_at (path : str) (off : nat) (s : list str) (k : nat) : bool :=
  boundary path k &&
  (mem (firstn k path) s || (Nat.ltb off k && mem (firstn (k - off) (skipn off path)) s)).

Definition greatest (P : nat -> bool) (n : nat) : option nat :=
  fold_left (fun acc k => if P k then Some k else acc) (seq 1 n) None.

(* the deepest matching entry of a set: its end offset in the path *)
Definition spec_end (path : str) (off : nat) (s : list str) : option nat :=
  greatest (matches_at path off s) (length path).

(* a hidden component starts at index j: path[j-1] = '/' and path[j] = '.' *)
Definition dot_at (path : str) (j : nat) : bool :=
  match nth_error path (j - 1), nth_error path j with
  | Some a, Some b => is_slash a && is_dot b
  | _, _ => false
  end.

Definition spec_dot (path : str) : option nat := greatest (dot_at path) (length path).

(* ---------- the policy: the deepest candidate decides ---------- *)

Inductive cand := CHidden | CRule (k : kind).

Definition outcome (editor : bool) (c : cand) : bool :=
  match c with
  | CHidden => false
  | CRule KCluded => editor
  | CRule KIncluded => true
  | CRule KHistory => true
  | CRule KExcluded => false
  | CRule _ => editor
  end.

(* candidates in the fixed tie-breaking order *)
Definition candidates (ec ei ee eh dot : option nat) : list (cand * option nat) :=
  [(CHidden, dot); (CRule KCluded, ec); (CRule KIncluded, ei); (CRule KExcluded, ee); (CRule KHistory, eh)].

(* candidate c at position k decides: strictly deeper than every candidate
   before it in the order, at least as deep as every one after it *)
Definition decides (c : cand) (k : nat) (cs : list (cand * option nat)) : Prop :=
  exists l1 l2, cs = l1 ++ (c, Some k) :: l2 /\
    (forall c' e', In (c', e') l1 -> ptr_gt (Some k) e' = true) /\
    (forall c' e', In (c', e') l2 -> ptr_gt e' (Some k) = false).
