(* C08 / C03 for HISTORY entries, part 2: the fault-free pass after a restart.

   The disk a crashed pass leaves differs from the disks of PassProofs2 in
   two ways: the first candidate name of the version may be TAKEN (by the
   complete or partial version of the crashed pass), and the position file
   may hold a TORN value: any string of digits, possibly empty (a decimal
   prefix of the new position, counter.c writes digit by digit).

     read_counter_any        whatever a readable position file holds, the
                             position read is the number its leading digits
                             spell (undec), 0 for an empty file
     file_store_hist_gen     PassProofs2.file_store_hist for an arbitrary
                             position file (absent, or any readable file)
     hist_taken_iteration    one iteration of handle_timeout_loop on a due
                             HISTORY head whose first k candidate names are
                             taken and whose position file reads [off]: the
                             version goes to candidate k and holds
                             [skipn off b]; the position becomes [length b]
     hist_taken_pass         the same for handle_timeout on a queue of one *)
From K Require Import Str Dec Trace Fs World Progs Sieve Handler Linq LinqSpec LinqProofs
     DecProofs SyncProofs AbandonProofs JournalProofs QueueProofs Confine HistoryProofs PassProofs PassProofs2.
From K Require CrashCopy.
From Coq Require Import Lia.
Arguments N.add : simpl never.
Arguments N.sub : simpl never.
Arguments N.mul : simpl never.
Arguments N.of_nat : simpl never.
Arguments N.eqb : simpl never.
Arguments N.leb : simpl never.
Arguments Nat.pow : simpl never.
Arguments Nat.mul : simpl never.

(* ====================================================================== *)
(* 1. read_counter on any readable file                                    *)
(* ====================================================================== *)

Lemma read_counter_any o w p io :
  benign o -> tr_ok (w_tr w) = true ->
  lookup (w_fs w) p = Some (NFile io) -> f_readable (get_file (w_fs w) io) = true ->
  exists w', read_counter p o w = (Some (undec (f_bytes (get_file (w_fs w) io))), w') /\
             w_fs w' = w_fs w /\ w_tr w' = w_tr w /\ w_clock w' = w_clock w.
Proof.
  intros H Hok Hl Hr. unfold read_counter. rewrite when_ok_true by exact Hok.
  destruct (k_open_read_file o w p io H Hl Hr) as (w1 & E1 & F1 & T1).
  assert (C1 : w_clock w1 = w_clock w).
  { unfold k_open_read, k_open_gen in E1. rewrite sys_benign in E1 by exact H.
    apply (f_equal snd) in E1. cbn [snd] in E1. rewrite <- E1. reflexivity. }
  rewrite (bind_some _ _ _ _ _ _ E1).
  unfold file_len. unfold bind at 2. unfold get_fs, ret_. unfold bind at 1.
  destruct (read_digits_benign o io H (S (length (f_bytes (get_file (w_fs w1) io)))) 0 0%N w1)
    as (w2 & E2 & F2 & T2 & C2); [lia|].
  rewrite (bind_some _ _ _ _ _ _ E2). cbn [skipn] in *.
  destruct (k_close_benign o w2 H) as (w3 & E3 & F3 & T3).
  assert (C3 : w_clock w3 = w_clock w2).
  { unfold k_close in E3. rewrite sys_unit_benign in E3 by exact H.
    apply (f_equal snd) in E3. cbn [snd] in E3. rewrite <- E3. reflexivity. }
  rewrite (bind_some _ _ _ _ _ _ E3). unfold ret_.
  exists w3. rewrite F1. fold (undec (f_bytes (get_file (w_fs w) io))).
  split; [reflexivity|]. split; [congruence|]. split; congruence.
Qed.

(* ====================================================================== *)
(* 2. the copy loop of a history head, any position file                   *)
(* ====================================================================== *)

(* the position file: absent, or a readable regular file other than the
   source (its content is not constrained) *)
Definition pos_any (f : fs) (offp : str) (i : nat) : Prop :=
  lookup f offp = None \/
  exists io, lookup f offp = Some (NFile io) /\ io < fs_next f /\ io <> i /\
             f_readable (get_file f io) = true.

Lemma file_store_hist_gen o w cfg n sp src offp off i b :
  benign o -> tr_ok (w_tr w) = true -> keys_nodup (w_fs w) ->
  (exists rest, current_path sp = ch_slash :: rest) ->
  lookup (w_fs w) src = Some (NFile i) ->
  get_file (w_fs w) i = mkFile b true ->
  i < fs_next (w_fs w) ->
  lookup (w_fs w) (current_path sp) = None ->
  (forall d, In d (parents_of (current_path sp)) ->
             lookup (w_fs w) d = Some NDir \/ lookup (w_fs w) d = None) ->
  off <= length b -> 0 < length b ->
  (exists r, offp = ch_slash :: r) ->
  (forall d, In d (parents_of offp) -> lookup (w_fs w) d = Some NDir \/ lookup (w_fs w) d = None) ->
  pos_any (w_fs w) offp i ->
  offp <> current_path sp -> ~ In offp (parents_of (current_path sp)) ->
  ~ In (current_path sp) (parents_of offp) ->
  exists w',
    file_store_loop (S n) sp src offp off true cfg o w = (Some (c_ev_stored cfg, true, sp), w') /\
    tr_keep (w_tr w) (w_tr w') /\ w_clock w' = w_clock w /\
    hist_store (current_path sp) offp b off (w_fs w) (w_fs w').
Proof.
  intros H Hok Hnd Habs Hsrc Hfile Hino Hdst Hpar Hle Hbpos Hoabs Hopar Hpos Hod Hop Hdo.
  set (dst := current_path sp) in *.
  cbn [file_store_loop]. fold dst.
  rewrite (bind_some _ _ _ _ _ _ (try_eq o w)).
  set (w1 := upd_tr tr_try w).
  assert (Hok1 : tr_ok (w_tr w1) = true) by (apply tr_try_ok; exact Hok).
  destruct (sync_file_correct_mkparents o w1 dst src off i b H Hok1 Habs Hsrc Hfile Hino Hdst Hpar)
    as (w2 & j & E2 & Hok2 & T2 & J2 & L2 & B2 & I2 & O2 & P2 & G2i & G2).
  destruct (sync_file_struct o w1 dst src off i b H Hok1 Habs Hsrc Hfile Hino Hdst Hpar)
    as (w2' & E2' & N2 & C2 & ND2).
  rewrite E2 in E2'. injection E2' as <-.
  change (w_fs w1) with (w_fs w) in *. change (w_clock w1) with (w_clock w) in *.
  subst j.
  rewrite (bind_some _ _ _ _ _ _ E2).
  rewrite (bind_some _ _ _ _ _ _ (catch_static_ok M_src_missing o w2 Hok2)). cbv iota.
  rewrite (bind_some _ _ _ _ _ _ (catch_static_ok M_not_regular o w2 Hok2)). cbv iota.
  rewrite (bind_some _ _ _ _ _ _ (catch_static_ok M_src_denied o w2 Hok2)). cbv iota.
  rewrite (bind_some _ _ _ _ _ _ (catch_static_ok M_dst_exists o w2 Hok2)). cbv iota.
  rewrite (Nat.max_r _ _ Hle).
  assert (Hopar2 : forall d, In d (parents_of offp) ->
                             lookup (w_fs w2) d = Some NDir \/ lookup (w_fs w2) d = None).
  { intros d Hd. destruct (str_in_dec d (parents_of dst)) as [Hin|Hnin].
    - left. exact (I2 d Hin).
    - rewrite O2; [exact (Hopar d Hd) | | exact Hnin]. intros ->. exact (Hdo Hd). }
  assert (Lo2 : lookup (w_fs w2) offp = lookup (w_fs w) offp) by (apply O2; assumption).
  assert (Hfin : forall w3, tr_ok (w_tr w3) = true -> w_tr w3 = w_tr w2 ->
             (do b0 <- is_ok; finally_;; ret_ (c_ev_stored cfg, b0, sp)) o w3 =
             (Some (c_ev_stored cfg, true, sp), upd_tr tr_finally w3) /\
             tr_keep (w_tr w) (w_tr (upd_tr tr_finally w3))).
  { intros w3 Hok3 T3.
    rewrite (bind_some _ _ _ _ _ _ (is_ok_eq o w3)). rewrite Hok3.
    rewrite (bind_some _ _ _ _ _ _ (finally_eq o w3)). unfold ret_. split; [reflexivity|].
    cbn [upd_tr w_tr]. rewrite T3, T2.
    apply tr_keep_finally; [exact Hok | apply tr_keep_refl; exact Hok1]. }
  assert (Hbne : length b <> 0) by lia.
  assert (Hc : N.of_nat (length b) <> 0%N) by lia.
  assert (Hnode : exists io, pos_node (w_fs w2) offp io /\
            (lookup (w_fs w) offp = None -> io = S (fs_next (w_fs w))) /\
            (lookup (w_fs w) offp <> None ->
             io < fs_next (w_fs w) /\ io <> i /\ f_readable (get_file (w_fs w) io) = true)).
  { destruct Hpos as [A|(io & A1 & A2 & A3 & A4)].
    - exists (S (fs_next (w_fs w))). split; [left; rewrite Lo2, N2; auto|].
      split; [reflexivity | congruence].
    - exists io. split; [right; rewrite Lo2; exact A1|]. split; [congruence|].
      intros _. auto. }
  destruct Hnode as (io & Hnode & Hio_new & Hio_old).
  destruct (write_counter_pos o w2 offp (N.of_nat (length b)) io H Hok2 Hc Hoabs Hopar2 Hnode)
    as (w3 & E3 & T3 & C3 & L3 & B3 & R3 & N3 & I3 & O3 & P3 & G3 & ND3).
  rewrite (bind_some _ _ _ _ _ _ E3).
  destruct (Hfin w3) as [Ef Kf]; [rewrite T3; exact Hok2 | exact T3|].
  rewrite Ef. eexists. split; [reflexivity|]. split; [exact Kf|].
  cbn [upd_tr w_fs w_clock]. split; [congruence|].
  assert (Hio_ne : fs_next (w_fs w) <> io).
  { destruct (lookup (w_fs w) offp) eqn:El.
    - destruct Hio_old as [A _]; [discriminate | lia].
    - rewrite (Hio_new eq_refl). lia. }
  constructor.
  + rewrite P3; [exact L2 | congruence].
  + rewrite (G3 _ Hio_ne). exact B2.
  + intros d Hd. rewrite P3; [exact (I2 d Hd) | rewrite (I2 d Hd); discriminate].
  + right. split; [lia|]. exists io. split; [exact L3|]. split.
    * assert (Hr : f_readable (get_file (w_fs w3) io) = true).
      { rewrite R3, Lo2. destruct (lookup (w_fs w) offp) eqn:El; [|reflexivity].
        destruct Hio_old as (A1 & A2 & A3); [discriminate|].
        rewrite G2 by lia. exact A3. }
      destruct (get_file (w_fs w3) io) as [bs rd]. cbn [f_bytes f_readable] in *. congruence.
    * rewrite N3, Lo2, N2. destruct (lookup (w_fs w) offp) eqn:El.
      -- destruct Hio_old as [A _]; [discriminate | lia].
      -- rewrite (Hio_new eq_refl). lia.
  + intros io' Hio'. rewrite L3 in Hio'. injection Hio' as <-.
    destruct (lookup (w_fs w) offp) eqn:El.
    * left. destruct Hnode as [[A _]|A]; [rewrite Lo2 in A; discriminate | rewrite Lo2 in A; exact A].
    * right. split; [reflexivity | exact (Hio_new eq_refl)].
  + intros _ d Hd. exact (I3 d Hd).
  + intros x X1 X2 X3 X4. rewrite (O3 x X3 X4). exact (O2 x X1 X2).
  + intros Hb0. contradiction.
  + intros x Hx.
    assert (Hx2 : lookup (w_fs w2) x = lookup (w_fs w) x).
    { apply P2; [|exact Hx]. intros ->. exact (Hx Hdst). }
    rewrite P3; [exact Hx2 | rewrite Hx2; exact Hx].
  + intros k K1 K2. rewrite G3; [exact (G2 k K1) | exact (K2 io L3)].
  + rewrite N3, Lo2, N2. unfold pos_new.
    destruct (lookup (w_fs w) offp); [lia|].
    destruct (Nat.eqb_spec (length b) 0); lia.
  + exact (ND3 (ND2 Hnd)).
Qed.

(* ====================================================================== *)
(* 3. one iteration: k taken names, position file reading [off]            *)
(* ====================================================================== *)

(* the number the position file spells *)
Definition pos_reads (f : fs) (offp : str) (i : nat) (off : nat) : Prop :=
  (lookup f offp = None /\ off = 0) \/
  exists io, lookup f offp = Some (NFile io) /\ io < fs_next f /\ io <> i /\
             f_readable (get_file f io) = true /\
             undec (f_bytes (get_file f io)) = N.of_nat off.

Lemma pos_reads_any f offp i off : pos_reads f offp i off -> pos_any f offp i.
Proof.
  intros [[A _]|(io & A1 & A2 & A3 & A4 & _)]; [left; exact A | right; exists io; auto].
Qed.

Lemma pos_is_reads f offp i off :
  pos_is f offp off -> (forall io, lookup f offp = Some (NFile io) -> io <> i) -> pos_reads f offp i off.
Proof.
  intros [[A B]|[A (io & B1 & B2 & B3)]] Hne; [left; auto|].
  right. exists io. rewrite B2. cbn [f_readable f_bytes]. rewrite undec_dec. auto.
Qed.

Record hist_taken_ok (cfg : config) (cpl : nat) (oj : option journal) (qdir : str)
       (f : fs) (now : Z) (p : str) (i : nat) (b : str) (off k : nat) : Prop := {
  HT_abs : prefixb [ch_slash] p = true;
  HT_last : is_slash (last p ch_dot) = false;
  HT_cpl : cpl <= length p;
  HT_vlen : length (version_of cfg now) <= name_max;
  HT_vslash : existsb is_slash (version_of cfg now) = false;
  HT_src : lookup f p = Some (NFile i);
  HT_file : get_file f i = mkFile b true;
  HT_ino : i < fs_next f;
  HT_root_abs : exists r, c_store_root cfg = ch_slash :: r;
  (* the candidates 0 .. k-1 exist below directories, outside the queue directory *)
  HT_taken : forall j, j < k -> taken f (cand cfg cpl now p j);
  HT_taken_q : forall j, j < k -> Str.under qdir (cand cfg cpl now p j) = false;
  (* candidate k is free *)
  HT_dst_free : lookup f (cand cfg cpl now p k) = None;
  HT_dst_par : forall d, In d (parents_of (cand cfg cpl now p k)) ->
                         lookup f d = Some NDir \/ lookup f d = None;
  HT_dst_q : Str.under qdir (cand cfg cpl now p k) = false;
  (* the remembered position, whatever the file holds *)
  HT_off_le : off <= length b;
  HT_bpos : 0 < length b;
  HT_pos : pos_reads f (offset_name cfg cpl p) i off;
  HT_oroot_abs : exists r, c_offset_root cfg = ch_slash :: r;
  HT_off_par : forall d, In d (parents_of (offset_name cfg cpl p)) ->
                         lookup f d = Some NDir \/ lookup f d = None;
  HT_off_q : Str.under qdir (offset_name cfg cpl p) = false;
  HT_off_ne : offset_name cfg cpl p <> cand cfg cpl now p k;
  HT_off_nin : ~ In (offset_name cfg cpl p) (parents_of (cand cfg cpl now p k));
  HT_dst_nin : ~ In (cand cfg cpl now p k) (parents_of (offset_name cfg cpl p));
  HT_jfits : journal_fits oj (c_ev_stored cfg) now;
  HT_jino : forall jn, oj = Some jn ->
              j_ino jn <> i /\ j_ino jn < fs_next f /\
              forall io, lookup f (offset_name cfg cpl p) = Some (NFile io) -> j_ino jn <> io
}.

(* the file system after the iteration, relative to the one before *)
Record hist_taken_post (cfg : config) (cpl : nat) (oj : option journal) (hname : str)
       (f f' : fs) (now : Z) (p : str) (b : str) (off k : nat) : Prop := {
  (* (1) exactly one new version, at candidate k, holding the bytes from [off] on *)
  TH_dst : lookup f' (cand cfg cpl now p k) = Some (NFile (fs_next f));
  TH_bytes : f_bytes (get_file f' (fs_next f)) = skipn off b;
  TH_par : forall d, In d (parents_of (cand cfg cpl now p k)) -> lookup f' d = Some NDir;
  TH_pos_par : forall d, In d (parents_of (offset_name cfg cpl p)) -> lookup f' d = Some NDir;
  (* (2) the position file holds the decimal of the length of the source *)
  TH_pos : pos_is f' (offset_name cfg cpl p) (length b);
  TH_pos_ino : forall io, lookup f' (offset_name cfg cpl p) = Some (NFile io) ->
      lookup f (offset_name cfg cpl p) = Some (NFile io) \/
      (lookup f (offset_name cfg cpl p) = None /\ io = S (fs_next f));
  (* (3) the head link is gone *)
  TH_head : lookup f' hname = None;
  (* every name that existed stays; every other name is as before *)
  TH_other : forall x, x <> cand cfg cpl now p k -> ~ In x (parents_of (cand cfg cpl now p k)) ->
                       x <> offset_name cfg cpl p -> ~ In x (parents_of (offset_name cfg cpl p)) ->
                       x <> hname -> lookup f' x = lookup f x;
  TH_exist : forall x, x <> hname -> lookup f x <> None -> lookup f' x = lookup f x;
  (* every other inode but the position file and the journal is as before *)
  TH_files : forall j, j <> fs_next f ->
                       (forall io, lookup f' (offset_name cfg cpl p) = Some (NFile io) -> j <> io) ->
                       (forall jn, oj = Some jn -> j <> j_ino jn) ->
                       get_file f' j = get_file f j;
  TH_next : fs_next f' = S (fs_next f) + pos_new f (offset_name cfg cpl p) b
}.

Theorem hist_taken_iteration o w h rev fuel p t rest i b off k :
  benign o -> tr_ok (w_tr w) = true ->
  t_post (w_tr w) = 0 ->
  keys_nodup (w_fs w) ->
  QRel (h_q h) (w_fs w) ((p, 2%N, t) :: rest) ->
  (q_deb (h_q h) <= w_clock w - t)%Z ->
  occurs p rest = false ->
  hist_taken_ok (h_cfg h) (h_cpl h) (h_journal h) (q_dir (h_q h)) (w_fs w) (w_clock w) p i b off k ->
  exists w',
    handle_timeout_loop (S fuel) rev h o w =
      handle_timeout_loop fuel rev (set_q (popped p (h_q h)) h) o w' /\
    hist_taken_post (h_cfg h) (h_cpl h) (h_journal h) (head_name (h_q h))
                    (w_fs w) (w_fs w') (w_clock w) p b off k /\
    QRel (popped p (h_q h)) (w_fs w') rest /\
    keys_nodup (w_fs w') /\
    w_tr w' = mkTr [] (k + t_pre (w_tr w)) 0 /\
    w_clock w' = w_clock w.
Proof.
  intros H Hok Hpost Hnd HR Hdue Hocc TO.
  destruct TO as [Pabs Plast Pcpl Pvlen Pvslash Psrc Pfile Pino Prabs Ptaken Ptakenq Pfree Ppar Pq
                  Ple Pbpos Ppos Porabs Popar Poq Pone Ponin Pdnin Pjfits Pjino].
  set (q := h_q h) in *. set (cfg := h_cfg h) in *. set (cpl := h_cpl h) in *.
  set (dst := cand cfg cpl (w_clock w) p k) in *.
  set (offp := offset_name cfg cpl p) in *.
  pose proof (offset_name_abs cfg cpl p Porabs) as Hoabs. fold offp in Hoabs.
  assert (Etr : w_tr w = mkTr [] (t_pre (w_tr w)) 0).
  { destruct (w_tr w) as [fr pre po]. unfold tr_ok in Hok. cbn [t_frames t_post t_pre] in *.
    destruct fr; [|discriminate]. subst po. reflexivity. }
  change 2%N with (meta_of true) in HR.
  destruct (file_head_iteration o w h rev fuel p true t rest (c_ev_stored cfg) k
              (hist_store dst offp b off (w_fs w)) H Hok Hnd HR Hdue Hocc Pabs Plast Pcpl Pvlen Pvslash Pjfits)
    as (w' & f1 & E & HS & HPP & HR' & Hnd' & K' & C').
  { (* the copy phase *)
    intros wc Fc Cc Kc. fold cfg cpl offp.
    assert (Tc : w_tr wc = mkTr [] (t_pre (w_tr w)) 0) by (rewrite (proj2 Kc Hpost); exact Etr).
    assert (Hokc : tr_ok (w_tr wc) = true) by (rewrite Tc; reflexivity).
    assert (Hread : exists wr, read_counter offp o wc = (Some (N.of_nat off), wr) /\
                               w_fs wr = w_fs w /\ w_tr wr = w_tr wc /\ w_clock wr = w_clock w).
    { destruct Ppos as [[A ->]|(io & A1 & A2 & A3 & A4 & A5)].
      - destruct (read_counter_absent o wc offp H Hokc) as (wr & Er & Fr & Tr & Cr).
        { rewrite Fc. exact A. }
        { rewrite Fc. apply missing_enoent_parents; assumption. }
        exists wr. split; [exact Er|]. split; [congruence|]. split; [exact Tr | congruence].
      - destruct (read_counter_any o wc offp io H Hokc) as (wr & Er & Fr & Tr & Cr).
        { rewrite Fc. exact A1. }
        { rewrite Fc. exact A4. }
        rewrite Fc, A5 in Er.
        exists wr. split; [exact Er|]. split; [congruence|]. split; [exact Tr | congruence]. }
    destruct Hread as (wr & Er & Fr & Tr & Cr).
    exists (N.of_nat off), wr. rewrite Nat2N.id.
    set (sp0 := sp_of cfg cpl (w_clock w) p).
    set (cnt := dir_entry_count (w_fs w) (dirname (current_path sp0))).
    assert (Hk : k <= cnt).
    { apply taken_fuel; [exact Pvslash|]. intros j Hj. exact (proj1 (Ptaken j Hj)). }
    destruct (file_store_skips o cfg p offp off true i sp0 H k (S (S cnt)) 0 wr (t_pre (w_tr w)))
      as (w1 & E1 & F1 & C1 & T1).
    { lia. }
    { rewrite Tr. exact Tc. }
    { rewrite Fr. exact Psrc. }
    { rewrite Fr, Pfile. reflexivity. }
    { intros j Hj. cbn [Nat.add]. split.
      - apply (cand_abs cfg cpl (w_clock w) p j Prabs).
      - rewrite Fr. exact (Ptaken j Hj). }
    rewrite CrashCopy.sp_at_0 in E1. cbn [Nat.add] in E1.
    replace (S (S cnt) - k) with (S (S cnt - k)) in E1 by lia.
    assert (Hok1 : tr_ok (w_tr w1) = true) by (rewrite T1; reflexivity).
    destruct (file_store_hist_gen o w1 cfg (S cnt - k) (CrashCopy.sp_at sp0 k) p offp off i b H Hok1)
      as (wd & Ed & Kd & Cd & HSd);
      try (lazymatch goal with
           | |- context [file_store_loop] => idtac
           | _ => fold (cand cfg cpl (w_clock w) p k); fold dst; rewrite ?F1, ?Fr; assumption
           end).
    { fold (cand cfg cpl (w_clock w) p k). apply cand_abs. exact Prabs. }
    { rewrite F1, Fr. apply (pos_reads_any _ _ _ off). exact Ppos. }
    fold (cand cfg cpl (w_clock w) p k) in HSd. fold dst in HSd.
    rewrite F1, Fr in HSd.
    exists true, (CrashCopy.sp_at sp0 k), wd.
    split; [exact Er|]. split; [exact Fr|]. split; [rewrite Tr; exact Hokc|].
    split; [rewrite E1; exact Ed|].
    split.
    { split; [exact (tr_keep_ok _ _ Kd)|]. intros _.
      rewrite (proj2 Kd) by (rewrite T1; reflexivity). rewrite T1, Etr. reflexivity. }
    split; [congruence|]. exact HSd. }
  { (* the copy phase keeps the queue *)
    intros f1 HS. constructor.
    - exact (HS_exist _ _ _ _ _ _ HS).
    - intros j Hj.
      destruct (under_join_dec (q_dir q) j dst (QR_nroot _ _ _ HR) Pq) as [A1 A2].
      destruct (under_join_dec (q_dir q) j offp (QR_nroot _ _ _ HR) Poq) as [B1 B2].
      rewrite (HS_other _ _ _ _ _ _ HS);
        [exact Hj | exact (fun X => A1 (eq_sym X)) | exact A2 | exact (fun X => B1 (eq_sym X)) | exact B2].
    - exact (HS_nodup _ _ _ _ _ _ HS). }
  exists w'. split; [exact E|].
  split; [|split; [exact HR'|]; split; [exact Hnd'|]; split; [|exact C']].
  2:{ rewrite (proj2 K' Hpost). rewrite Etr at 1. reflexivity. }
  destruct HS as [Sdst Sbytes Spar Spos Sposino Spospar Sother Sother0 Sexist Sfiles Snext Snd].
  destruct HPP as [Phead Pother Pfiles Pjournal Pnext].
  fold q cfg cpl dst offp in Phead, Pother, Pfiles, Pjournal, Pnext |- *.
  destruct (under_join_dec (q_dir q) (q_head q) dst (QR_nroot _ _ _ HR) Pq) as [Hhd Hhp].
  destruct (under_join_dec (q_dir q) (q_head q) offp (QR_nroot _ _ _ HR) Poq) as [Hho Hhop].
  fold (head_name q) in Hhd, Hhp, Hho, Hhop.
  constructor; fold dst offp.
  - rewrite Pother by exact Hhd. exact Sdst.
  - rewrite Pfiles; [exact Sbytes|]. intros jn Hj. destruct (Pjino jn Hj) as (_ & J2 & _). lia.
  - intros d Hd. rewrite Pother; [exact (Spar d Hd)|]. intros ->. exact (Hhp Hd).
  - intros d Hd. rewrite Pother; [exact (Spospar Pbpos d Hd)|]. intros ->. exact (Hhop Hd).
  - destruct Spos as [[A1 A2]|[A1 (io & A2 & A3 & A4)]].
    + left. split; [exact A1|]. rewrite Pother by exact Hho. exact A2.
    + right. split; [exact A1|]. exists io. split; [rewrite Pother by exact Hho; exact A2|].
      split; [|rewrite Pnext; exact A4].
      rewrite Pfiles; [exact A3|]. intros jn Hj. destruct (Pjino jn Hj) as (_ & J2 & J3).
      destruct (Sposino io A2) as [A|[_ A]]; [intros X; exact (J3 io A (eq_sym X)) | lia].
  - intros io Hio. rewrite Pother in Hio by exact Hho. exact (Sposino io Hio).
  - exact Phead.
  - intros x X1 X2 X3 X4 X5. rewrite (Pother x X5). exact (Sother x X1 X2 X3 X4).
  - intros x X1 X2. rewrite (Pother x X1). exact (Sexist x X2).
  - intros j K1 K2 K3. rewrite (Pfiles j K3). apply Sfiles; [exact K1|].
    intros io Hio. apply K2. rewrite Pother by exact Hho. exact Hio.
  - rewrite Pnext. exact Snext.
Qed.
Print Assumptions hist_taken_iteration.

(* ---------- the same for handle_timeout: the head is the only entry ---------- *)

Theorem hist_taken_pass o rev h w p t i b off k :
  benign o -> tr_ok (w_tr w) = true -> t_post (w_tr w) = 0 ->
  keys_nodup (w_fs w) ->
  QRel (h_q h) (w_fs w) [(p, 2%N, t)] ->
  (q_deb (h_q h) <= w_clock w - t)%Z ->
  hist_taken_ok (h_cfg h) (h_cpl h) (h_journal h) (q_dir (h_q h)) (w_fs w) (w_clock w) p i b off k ->
  exists w',
    handle_timeout rev h o w = (Some (TPause (-1), set_q (popped p (h_q h)) h), w') /\
    hist_taken_post (h_cfg h) (h_cpl h) (h_journal h) (head_name (h_q h))
                    (w_fs w) (w_fs w') (w_clock w) p b off k /\
    QRel (popped p (h_q h)) (w_fs w') [] /\ keys_nodup (w_fs w') /\
    tr_ok (w_tr w') = true /\ w_clock w' = w_clock w.
Proof.
  intros H Hok Hpost Hnd HR Hdue HT. unfold handle_timeout.
  destruct (hist_taken_iteration o w h rev (S (N.to_nat (q_size (h_q h)))) p t [] i b off k
              H Hok Hpost Hnd HR Hdue eq_refl HT) as (w1 & E1 & S1 & HR1 & Hnd1 & T1 & C1).
  set (h1 := set_q (popped p (h_q h)) h) in *.
  assert (Hok1 : tr_ok (w_tr w1) = true) by (rewrite T1; reflexivity).
  destruct (pass_idle o w1 h1 rev (N.to_nat (q_size (h_q h))) Hok1 HR1)
    as (w' & E & F & _ & _ & C & K).
  rewrite <- E1 in E. rewrite (bind_some _ _ _ _ _ _ E).
  rewrite (bind_some _ _ _ _ _ _ (is_ok_eq o w')). rewrite (tr_keep_ok _ _ K). unfold ret_.
  exists w'. split; [reflexivity|]. rewrite F.
  split; [exact S1|]. split; [exact HR1|]. split; [exact Hnd1|].
  split; [exact (tr_keep_ok _ _ K) | congruence].
Qed.
Print Assumptions hist_taken_pass.
Print Assumptions read_counter_any.
Print Assumptions file_store_hist_gen.
