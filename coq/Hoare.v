(* A small program logic for the effect monad: triples with a crash condition,
   relative to a class of oracles. *)
From K Require Import Str World.

(* {P} m {Q | C} for oracles in O: started in a world satisfying P, under any
   oracle of the class, m either returns a with Q a, or the process died in a
   world satisfying C. *)
Definition ht {A} (O : oracle -> Prop) (P : world -> Prop) (m : M A)
           (Q : A -> world -> Prop) (C : world -> Prop) : Prop :=
  forall o w, O o -> P w ->
    match m o w with
    | (Some a, w') => Q a w'
    | (None, w') => C w'
    end.

Lemma ht_ret {A} O (P : world -> Prop) (a : A) (Q : A -> world -> Prop) (C : world -> Prop) :
  (forall w, P w -> Q a w) -> ht O P (ret_ a) Q C.
Proof. intros H o w _ Hp. simpl. auto. Qed.

Lemma ht_bind {A B} O (P : world -> Prop) (m : M A) (k : A -> M B) (R : A -> world -> Prop)
      (Q : B -> world -> Prop) (C : world -> Prop) :
  ht O P m R C -> (forall a, ht O (R a) (k a) Q C) -> ht O P (bind m k) Q C.
Proof.
  intros Hm Hk o w Ho Hp. unfold bind. specialize (Hm o w Ho Hp).
  destruct (m o w) as [[a|] w']; [|assumption].
  apply (Hk a o w' Ho Hm).
Qed.

Lemma ht_conseq {A} O (P P' : world -> Prop) (m : M A) (Q Q' : A -> world -> Prop) (C : world -> Prop) :
  (forall w, P' w -> P w) -> (forall a w, Q a w -> Q' a w) -> ht O P m Q C -> ht O P' m Q' C.
Proof.
  intros H1 H2 H o w Ho Hp. specialize (H o w Ho (H1 w Hp)).
  destruct (m o w) as [[a|] w']; auto.
Qed.

Lemma ht_pre {A} O (P P' : world -> Prop) (m : M A) (Q : A -> world -> Prop) (C : world -> Prop) :
  (forall w, P' w -> P w) -> ht O P m Q C -> ht O P' m Q C.
Proof. intros H1 H. apply (ht_conseq O P P' m Q Q C); auto. Qed.

Lemma ht_post {A} O (P : world -> Prop) (m : M A) (Q Q' : A -> world -> Prop) (C : world -> Prop) :
  (forall a w, Q a w -> Q' a w) -> ht O P m Q C -> ht O P m Q' C.
Proof. intros H2 H. apply (ht_conseq O P P m Q Q' C); auto. Qed.

(* facts that do not depend on the world can be moved out of the precondition *)
Lemma ht_pure {A} O (phi : Prop) (P : world -> Prop) (m : M A) (Q : A -> world -> Prop) (C : world -> Prop) :
  (phi -> ht O P m Q C) -> ht O (fun w => phi /\ P w) m Q C.
Proof. intros H o w Ho [Hphi Hp]. apply (H Hphi o w Ho Hp). Qed.

(* state-only primitives *)
Definition upd_tr (t : trace) (w : world) : world := mkW (w_fs w) (w_n w) (w_log w) (w_clock w) t.

Lemma ht_get_tr O (P C : world -> Prop) : ht O P get_tr (fun t w => P w /\ t = w_tr w) C.
Proof. intros o w _ Hp. simpl. auto. Qed.
Lemma ht_set_tr O (P : world -> Prop) t (C : world -> Prop) :
  ht O P (set_tr t) (fun _ w => exists w0, P w0 /\ w = upd_tr t w0) C.
Proof. intros o w _ Hp. simpl. exists w. auto. Qed.
Lemma ht_get_clock O (P C : world -> Prop) : ht O P get_clock (fun t w => P w /\ t = w_clock w) C.
Proof. intros o w _ Hp. simpl. auto. Qed.
Lemma ht_get_fs O (P C : world -> Prop) : ht O P get_fs (fun f w => P w /\ f = w_fs w) C.
Proof. intros o w _ Hp. simpl. auto. Qed.

(* one system call *)
Definition after_call (c : call) (r : ret) (f' : fs) (w : world) : world :=
  mkW f' (S (w_n w)) ((c, r) :: w_log w) (w_clock w) (w_tr w).

Lemma ht_sys {A} O (P : world -> Prop) c (perform : fs -> ret * A * fs) (on_fail : errno -> A)
      (Q : A -> world -> Prop) (C : world -> Prop) :
  (forall w, P w -> C w) ->
  (forall w e, P w -> Q (on_fail e) (after_call c (RFault e) (w_fs w) w)) ->
  (forall w, P w -> let '(r, a, f') := perform (w_fs w) in Q a (after_call c r f' w)) ->
  ht O P (sys c perform on_fail) Q C.
Proof.
  intros Hc Hf Hs o w _ Hp. unfold sys.
  destruct (o (w_n w)) eqn:E; try (specialize (Hs w Hp); destruct (perform (w_fs w)) as [[r a] f']; exact Hs).
  - apply Hf. assumption.
  - apply Hc. assumption.
Qed.

(* ---------- properties of the call log only ---------- *)

Definition calls (w : world) : list call := map fst (w_log w).
Definition log_all (Pc : call -> Prop) (w : world) : Prop := Forall Pc (calls w).

(* every call the program issues satisfies Pc, under every oracle *)
Definition logs_ok {A} (Pc : call -> Prop) (m : M A) : Prop :=
  ht (fun _ => True) (log_all Pc) m (fun _ => log_all Pc) (log_all Pc).

Lemma logs_ok_ret {A} (Pc : call -> Prop) (a : A) : logs_ok Pc (ret_ a).
Proof. apply ht_ret. auto. Qed.

Lemma logs_ok_bind {A B} (Pc : call -> Prop) (m : M A) (k : A -> M B) :
  logs_ok Pc m -> (forall a, logs_ok Pc (k a)) -> logs_ok Pc (bind m k).
Proof. intros Hm Hk. eapply ht_bind; [exact Hm | intros a; apply Hk]. Qed.

Lemma logs_ok_sys {A} (Pc : call -> Prop) c (perform : fs -> ret * A * fs) on_fail :
  Pc c -> logs_ok Pc (sys c perform on_fail).
Proof.
  intros Hc. apply ht_sys.
  - auto.
  - intros w e Hw. unfold log_all, calls, after_call. simpl. constructor; assumption.
  - intros w Hw. destruct (perform (w_fs w)) as [[r a] f'].
    unfold log_all, calls, after_call. simpl. constructor; assumption.
Qed.

Lemma logs_ok_state {A} (Pc : call -> Prop) (m : M A) :
  (forall o w, exists a t, m o w = (Some a, upd_tr t w)) -> logs_ok Pc m.
Proof.
  intros H o w _ Hw. destruct (H o w) as [a [t E]]. rewrite E. exact Hw.
Qed.

Lemma logs_ok_get_tr (Pc : call -> Prop) : logs_ok Pc get_tr.
Proof. intros o w _ Hw. exact Hw. Qed.
Lemma logs_ok_set_tr (Pc : call -> Prop) t : logs_ok Pc (set_tr t).
Proof. intros o w _ Hw. exact Hw. Qed.
Lemma logs_ok_get_clock (Pc : call -> Prop) : logs_ok Pc get_clock.
Proof. intros o w _ Hw. exact Hw. Qed.
Lemma logs_ok_get_fs (Pc : call -> Prop) : logs_ok Pc get_fs.
Proof. intros o w _ Hw. exact Hw. Qed.
Lemma logs_ok_transfer_limit (Pc : call -> Prop) b n : logs_ok Pc (transfer_limit b n).
Proof. intros o w _ Hw. exact Hw. Qed.

(* ---------- call-log property together with a fact about the result ---------- *)

Definition lokv {A} (Pc : call -> Prop) (R : A -> Prop) (m : M A) : Prop :=
  ht (fun _ => True) (log_all Pc) m (fun a w => log_all Pc w /\ R a) (log_all Pc).

Lemma lokv_ret {A} (Pc : call -> Prop) (R : A -> Prop) (a : A) : R a -> lokv Pc R (ret_ a).
Proof. intros H. apply ht_ret. auto. Qed.

Lemma lokv_bind {A B} (Pc : call -> Prop) (R1 : A -> Prop) (R : B -> Prop) (m : M A) (k : A -> M B) :
  lokv Pc R1 m -> (forall a, R1 a -> lokv Pc R (k a)) -> lokv Pc R (bind m k).
Proof.
  intros Hm Hk. eapply ht_bind; [exact Hm|]. intros a.
  intros o w Ho [Hw Ha]. apply (Hk a Ha o w Ho Hw).
Qed.

Lemma lokv_weaken {A} (Pc : call -> Prop) (R R' : A -> Prop) (m : M A) :
  lokv Pc R m -> (forall a, R a -> R' a) -> lokv Pc R' m.
Proof. intros H Hw. eapply ht_post; [|exact H]. intros a w [H1 H2]. auto. Qed.

Lemma lokv_of_logs_ok {A} (Pc : call -> Prop) (m : M A) : logs_ok Pc m -> lokv Pc (fun _ => True) m.
Proof. intros H. eapply ht_post; [|exact H]. simpl. auto. Qed.

Lemma logs_ok_of_lokv {A} (Pc : call -> Prop) (R : A -> Prop) (m : M A) : lokv Pc R m -> logs_ok Pc m.
Proof. intros H. eapply ht_post; [|exact H]. simpl. intros a w [H1 _]. exact H1. Qed.
