(* Functional correctness of sync_file (Progs.v) under oracles that never fail
   or crash a call but may shorten / chunk every transfer arbitrarily. *)
From K Require Import Str Dec Trace Fs World Progs.

(* ---------- the class of oracles ---------- *)

Definition benign (o : oracle) : Prop :=
  forall i, o i = FNone \/ (exists n, 0 < n /\ (o i = FShort n \/ o i = FChunk n)).

(* ---------- monad stepping ---------- *)

Lemma bind_some {A B} (m : M A) (k : A -> M B) o w a w' :
  m o w = (Some a, w') -> bind m k o w = k a o w'.
Proof. intros E. unfold bind. rewrite E. reflexivity. Qed.

Lemma is_ok_eq o w : is_ok o w = (Some (tr_ok (w_tr w)), w).
Proof. reflexivity. Qed.

Lemma sys_benign {A} c (perform : fs -> ret * A * fs) on_fail o w :
  benign o ->
  sys c perform on_fail o w =
  (Some (snd (fst (perform (w_fs w)))),
   mkW (snd (perform (w_fs w))) (S (w_n w))
       ((c, fst (fst (perform (w_fs w)))) :: w_log w) (w_clock w) (w_tr w)).
Proof.
  intros H. unfold sys. destruct (perform (w_fs w)) as [[r a] f'] eqn:E.
  destruct (H (w_n w)) as [E1|[n [Hn [E1|E1]]]]; rewrite E1; reflexivity.
Qed.

(* ---------- association lists ---------- *)

Lemma alookup_app_new {A} k (v : A) l :
  alookup k l = None -> alookup k (l ++ [(k, v)]) = Some v.
Proof.
  induction l as [|[k' v'] l IH]; simpl; intros H.
  - rewrite str_eqb_refl. reflexivity.
  - destruct (str_eqb k k'); [discriminate | auto].
Qed.

Lemma alookup_app_other {A} p k (v : A) l :
  p <> k -> alookup p (l ++ [(k, v)]) = alookup p l.
Proof.
  intros Hn. induction l as [|[k' v'] l IH]; simpl.
  - apply str_eqb_neq in Hn. rewrite Hn. reflexivity.
  - destruct (str_eqb p k'); [reflexivity | exact IH].
Qed.

Lemma nlookup_nupdate_same {A} k (v : A) l : nlookup k (nupdate k v l) = Some v.
Proof.
  induction l as [|[k' v'] l IH]; simpl.
  - rewrite Nat.eqb_refl. reflexivity.
  - destruct (Nat.eqb k k') eqn:E; simpl.
    + rewrite Nat.eqb_refl. reflexivity.
    + rewrite E. exact IH.
Qed.

Lemma nlookup_nupdate_other {A} k k' (v : A) l :
  k <> k' -> nlookup k (nupdate k' v l) = nlookup k l.
Proof.
  intros Hn. induction l as [|[k2 v2] l IH]; simpl.
  - apply Nat.eqb_neq in Hn. rewrite Hn. reflexivity.
  - destruct (Nat.eqb k' k2) eqn:E; simpl.
    + apply Nat.eqb_eq in E. subst k2.
      apply Nat.eqb_neq in Hn. rewrite Hn. reflexivity.
    + destruct (Nat.eqb k k2); [reflexivity | exact IH].
Qed.

(* ---------- file system facts ---------- *)

Lemma get_file_append_same i c f :
  get_file (fs_append i c f) i =
  mkFile (f_bytes (get_file f i) ++ c) (f_readable (get_file f i)).
Proof.
  unfold fs_append, set_file. unfold get_file at 1. cbn [fs_files].
  rewrite nlookup_nupdate_same. reflexivity.
Qed.

Lemma get_file_append_other i k c f :
  k <> i -> get_file (fs_append i c f) k = get_file f k.
Proof.
  intros Hn. unfold fs_append, set_file. unfold get_file at 1. cbn [fs_files].
  rewrite nlookup_nupdate_other by exact Hn. reflexivity.
Qed.

Lemma lookup_append i c f p : lookup (fs_append i c f) p = lookup f p.
Proof. reflexivity. Qed.

Lemma fs_next_append i c f : fs_next (fs_append i c f) = fs_next f.
Proof. reflexivity. Qed.

Lemma lookup_none_not_root f p : lookup f p = None -> str_eqb p root_path = false.
Proof. unfold lookup. destruct (str_eqb p root_path); [discriminate | reflexivity]. Qed.

(* the file system after a successful O_CREAT|O_EXCL of [p] *)
Definition created (p : str) (f : fs) : fs :=
  mkFs (fs_dents f ++ [(p, NFile (fs_next f))])
       ((fs_next f, mkFile [] true) :: fs_files f) (S (fs_next f)).

Lemma fs_create_excl_ok p f :
  lookup f p = None -> lookup f (dirname p) = Some NDir ->
  fs_create_excl p f = (inl (FdFile (fs_next f)), created p f).
Proof.
  intros H1 H2. unfold fs_create_excl, parent_is_dir. rewrite H1, H2. reflexivity.
Qed.

Lemma lookup_created_same p f :
  lookup f p = None -> lookup (created p f) p = Some (NFile (fs_next f)).
Proof.
  intros H. pose proof (lookup_none_not_root _ _ H) as Hr.
  unfold lookup in *. rewrite Hr in *. cbn [created fs_dents].
  apply alookup_app_new. exact H.
Qed.

Lemma lookup_created_other p q f :
  q <> p -> lookup (created p f) q = lookup f q.
Proof.
  intros Hn. unfold lookup. destruct (str_eqb q root_path); [reflexivity|].
  cbn [created fs_dents]. apply alookup_app_other. exact Hn.
Qed.

Lemma get_file_created_new p f : get_file (created p f) (fs_next f) = mkFile [] true.
Proof. unfold get_file, created. cbn. rewrite Nat.eqb_refl. reflexivity. Qed.

Lemma get_file_created_other p f k :
  k <> fs_next f -> get_file (created p f) k = get_file f k.
Proof.
  intros Hn. unfold get_file, created. cbn [fs_files nlookup].
  apply Nat.eqb_neq in Hn. rewrite Hn. reflexivity.
Qed.

(* ---------- list facts ---------- *)

Lemma firstn_skipn_len {A} n (l : list A) :
  firstn n l ++ skipn (length (firstn n l)) l = l.
Proof.
  revert l; induction n as [|n IH]; intros [|x l]; simpl; try reflexivity.
  rewrite IH. reflexivity.
Qed.

Lemma skipn_add {A} a c (l : list A) : skipn (a + c) l = skipn c (skipn a l).
Proof.
  revert l; induction a as [|a IH]; intros l; simpl; [reflexivity|].
  destruct l as [|x l]; [rewrite skipn_nil; reflexivity | apply IH].
Qed.

Lemma skipn_nil_iff {A} n (l : list A) : skipn n l = [] <-> length l <= n.
Proof.
  split; intros H.
  - pose proof (skipn_length n l) as E. rewrite H in E. simpl in E. lia.
  - apply skipn_all2. exact H.
Qed.

(* ---------- the individual calls under a benign oracle ---------- *)

Lemma k_mkdir_exists o w d :
  benign o -> lookup (w_fs w) d = Some NDir ->
  exists w', k_mkdir d o w = (Some (Some EEXIST), w') /\
             w_fs w' = w_fs w /\ w_tr w' = w_tr w.
Proof.
  intros H Hd. unfold k_mkdir, sys_unit. rewrite sys_benign by exact H.
  unfold fs_mkdir. rewrite Hd. cbn. eexists. split; [reflexivity|]. split; reflexivity.
Qed.

Lemma mkdir_all_exist o ds : benign o -> forall w,
  (forall d, In d ds -> lookup (w_fs w) d = Some NDir) ->
  exists w', mkdir_all ds o w = (Some tt, w') /\ w_fs w' = w_fs w /\ w_tr w' = w_tr w.
Proof.
  intros H. induction ds as [|d ds IH]; intros w Hall.
  - exists w. simpl. repeat split; reflexivity.
  - destruct (k_mkdir_exists o w d H (Hall d (or_introl eq_refl))) as [w1 [E1 [F1 T1]]].
    cbn [mkdir_all]. rewrite (bind_some _ _ _ _ _ _ E1).
    destruct (IH w1) as [w2 [E2 [F2 T2]]].
    + intros d' Hin. rewrite F1. apply Hall. right. exact Hin.
    + exists w2. split; [exact E2|]. split; congruence.
Qed.

Lemma create_parents_exist o w p :
  benign o -> tr_ok (w_tr w) = true ->
  (forall d, In d (parents_of p) -> lookup (w_fs w) d = Some NDir) ->
  exists w', create_parents p o w = (Some tt, w') /\ w_fs w' = w_fs w /\ w_tr w' = w_tr w.
Proof.
  intros H Htr Hall. unfold create_parents, when_ok.
  rewrite (bind_some _ _ _ _ _ _ (is_ok_eq o w)). rewrite Htr.
  apply mkdir_all_exist; assumption.
Qed.

Lemma k_open_read_file o w p i :
  benign o -> lookup (w_fs w) p = Some (NFile i) ->
  f_readable (get_file (w_fs w) i) = true ->
  exists w', k_open_read p o w = (Some (inl (FdFile i)), w') /\
             w_fs w' = w_fs w /\ w_tr w' = w_tr w.
Proof.
  intros H Hl Hr. unfold k_open_read, k_open_gen. rewrite sys_benign by exact H.
  unfold fs_open_read. rewrite Hl, Hr. cbn.
  eexists. split; [reflexivity|]. split; reflexivity.
Qed.

Lemma k_open_excl_new o w p :
  benign o -> lookup (w_fs w) p = None -> lookup (w_fs w) (dirname p) = Some NDir ->
  exists w', k_open_excl p o w = (Some (inl (FdFile (fs_next (w_fs w)))), w') /\
             w_fs w' = created p (w_fs w) /\ w_tr w' = w_tr w.
Proof.
  intros H H1 H2. unfold k_open_excl, k_open_gen. rewrite sys_benign by exact H.
  rewrite (fs_create_excl_ok _ _ H1 H2). cbn.
  eexists. split; [reflexivity|]. split; reflexivity.
Qed.

Lemma k_fstat_file o w i :
  benign o ->
  exists w', k_fstat (FdFile i) o w =
               (Some (inl (true, length (f_bytes (get_file (w_fs w) i)))), w') /\
             w_fs w' = w_fs w /\ w_tr w' = w_tr w.
Proof.
  intros H. unfold k_fstat. rewrite sys_benign by exact H. cbn.
  eexists. split; [reflexivity|]. split; reflexivity.
Qed.

Lemma k_close_benign o w :
  benign o ->
  exists w', k_close o w = (Some None, w') /\ w_fs w' = w_fs w /\ w_tr w' = w_tr w.
Proof.
  intros H. unfold k_close, sys_unit. rewrite sys_benign by exact H. cbn.
  eexists. split; [reflexivity|]. split; reflexivity.
Qed.

(* one sendfile: some positive limit [lim <= count] is chosen by the oracle *)
Lemma k_sendfile_benign o w out inp cur size :
  benign o -> 0 < size ->
  exists lim w', 0 < lim /\ lim <= size /\
    k_sendfile out inp cur size o w =
      (Some (inl (length (firstn lim (skipn cur (f_bytes (get_file (w_fs w) inp)))))), w') /\
    w_fs w' = fs_append out (firstn lim (skipn cur (f_bytes (get_file (w_fs w) inp)))) (w_fs w) /\
    w_tr w' = w_tr w.
Proof.
  intros H Hs.
  assert (Hlim : exists lim, 0 < lim /\ lim <= size /\
                   transfer_limit true size o w = (Some lim, w)).
  { unfold transfer_limit.
    destruct (H (w_n w)) as [E|[n [Hn [E|E]]]]; rewrite E.
    - exists size. repeat split; lia.
    - exists (Nat.min n size). repeat split; lia.
    - exists (Nat.min n size). repeat split; lia. }
  destruct Hlim as [lim [L1 [L2 EL]]].
  exists lim. unfold k_sendfile. rewrite (bind_some _ _ _ _ _ _ EL).
  rewrite sys_benign by exact H. cbn.
  eexists. split; [exact L1|]. split; [exact L2|].
  split; [reflexivity|]. split; reflexivity.
Qed.

(* ---------- the sendfile loop ---------- *)

Lemma sendfile_loop_ok o b off out inp :
  benign o -> inp <> out ->
  forall fuel cur size w,
    f_bytes (get_file (w_fs w) inp) = b ->
    off <= cur -> cur <= Nat.max off (length b) ->
    size + (cur - off) = length b ->
    size < fuel ->
    f_bytes (get_file (w_fs w) out) ++ skipn cur b = skipn off b ->
    exists w',
      sendfile_loop fuel out inp cur size o w = (Some (Some (Nat.max off (length b))), w') /\
      w_tr w' = w_tr w /\
      (forall p, lookup (w_fs w') p = lookup (w_fs w) p) /\
      fs_next (w_fs w') = fs_next (w_fs w) /\
      (forall k, k <> out -> get_file (w_fs w') k = get_file (w_fs w) k) /\
      f_bytes (get_file (w_fs w') out) = skipn off b.
Proof.
  intros H Hio. induction fuel as [|fuel IH]; intros cur size w Hb H1 H2 H3 H4 H5.
  - lia.
  - cbn [sendfile_loop]. destruct size as [|s].
    + (* nothing left to ask for *)
      exists w. unfold ret_.
      assert (Hlen : length b <= cur) by lia.
      split; [do 3 f_equal; lia|]. split; [reflexivity|]. split; [reflexivity|].
      split; [reflexivity|]. split; [reflexivity|].
      rewrite <- H5. apply (proj2 (skipn_nil_iff cur b)) in Hlen. rewrite Hlen.
      rewrite app_nil_r. reflexivity.
    + destruct (k_sendfile_benign o w out inp cur (S s) H ltac:(lia))
        as [lim [w1 [L1 [L2 [E1 [F1 T1]]]]]].
      rewrite Hb in E1, F1.
      rewrite (bind_some _ _ _ _ _ _ E1).
      set (chunk := firstn lim (skipn cur b)) in *.
      destruct (length chunk) as [|n] eqn:En.
      * (* end of file *)
        assert (Hc : chunk = []) by (destruct chunk; [reflexivity | discriminate]).
        assert (Hsk : skipn cur b = []).
        { unfold chunk in Hc. destruct (skipn cur b) as [|x l]; [reflexivity|].
          destruct lim; [lia | discriminate]. }
        exists w1. unfold ret_.
        pose proof (proj1 (skipn_nil_iff cur b) Hsk) as Hlen.
        split; [do 3 f_equal; lia|]. split; [exact T1|].
        rewrite F1, Hc.
        split; [reflexivity|]. split; [reflexivity|].
        split; [intros k Hk; apply get_file_append_other; exact Hk|].
        rewrite get_file_append_same. cbn [f_bytes]. rewrite app_nil_r.
        rewrite <- H5, Hsk, app_nil_r. reflexivity.
      * (* n+1 bytes moved *)
        assert (Hle : length chunk <= lim) by (unfold chunk; apply firstn_le_length).
        assert (Hle2 : length chunk <= length b - cur).
        { unfold chunk. rewrite firstn_length, skipn_length. lia. }
        destruct (IH (cur + S n) (S s - S n) w1) as [w2 [E2 [T2 [D2 [N2 [O2 B2]]]]]].
        -- rewrite F1. rewrite get_file_append_other by exact Hio. exact Hb.
        -- lia.
        -- lia.
        -- lia.
        -- lia.
        -- rewrite F1, get_file_append_same. cbn [f_bytes].
           rewrite <- En, skipn_add, <- app_assoc.
           unfold chunk. rewrite firstn_skipn_len. exact H5.
        -- exists w2. split; [exact E2|]. split; [congruence|].
           split; [intros p; rewrite D2, F1; reflexivity|].
           split; [rewrite N2, F1; reflexivity|].
           split; [|exact B2].
           intros k Hk. rewrite (O2 k Hk), F1. apply get_file_append_other. exact Hk.
Qed.

(* ---------- sync_file ---------- *)

(* everything after create_parents, relative to the world [w1] it leaves *)
Lemma sync_file_core o w w1 dst src off i b :
  benign o ->
  tr_ok (w_tr w) = true ->
  create_parents dst o w = (Some tt, w1) ->
  w_tr w1 = w_tr w ->
  lookup (w_fs w1) src = Some (NFile i) ->
  get_file (w_fs w1) i = mkFile b true ->
  i < fs_next (w_fs w1) ->
  lookup (w_fs w1) dst = None ->
  lookup (w_fs w1) (dirname dst) = Some NDir ->
  exists w' j,
    sync_file dst src off o w = (Some (Nat.max off (length b)), w') /\
    w_tr w' = w_tr w /\
    j = fs_next (w_fs w1) /\
    lookup (w_fs w') dst = Some (NFile j) /\
    f_bytes (get_file (w_fs w') j) = skipn off b /\
    (forall p, p <> dst -> lookup (w_fs w') p = lookup (w_fs w1) p) /\
    (forall k, k <> j -> get_file (w_fs w') k = get_file (w_fs w1) k).
Proof.
  intros H Htr E1 T1 Hsrc Hfile Hino Hdst Hdir.
  unfold sync_file, when_ok.
  rewrite (bind_some _ _ _ _ _ _ (is_ok_eq o w)). rewrite Htr.
  rewrite (bind_some _ _ _ _ _ _ E1).
  rewrite (bind_some _ _ _ _ _ _ (is_ok_eq o w1)). rewrite T1, Htr. cbn [negb].
  (* open the source *)
  destruct (k_open_read_file o w1 src i H) as [w2 [E2 [F2 T2]]].
  { exact Hsrc. }
  { rewrite Hfile. reflexivity. }
  rewrite (bind_some _ _ _ _ _ _ E2).
  (* create the destination *)
  destruct (k_open_excl_new o w2 dst H) as [w3 [E3 [F3 T3]]].
  { rewrite F2. exact Hdst. }
  { rewrite F2. exact Hdir. }
  rewrite (bind_some _ _ _ _ _ _ E3).
  rewrite F2 in E3, F3. clear E3.
  (* fstat *)
  destruct (k_fstat_file o w3 i H) as [w4 [E4 [F4 T4]]].
  rewrite (bind_some _ _ _ _ _ _ E4). clear E4.
  rewrite F2.
  assert (Hne : i <> fs_next (w_fs w1)) by lia.
  assert (Hb3 : get_file (w_fs w3) i = mkFile b true).
  { rewrite F3, get_file_created_other by exact Hne. exact Hfile. }
  rewrite Hb3. cbn [f_bytes].
  (* the loop *)
  destruct (sendfile_loop_ok o b off (fs_next (w_fs w1)) i H Hne
              (S (length b)) off (length b) w4) as [w5 [E5 [T5 [D5 [N5 [O5 B5]]]]]].
  { rewrite F4, Hb3. reflexivity. }
  { lia. }
  { lia. }
  { lia. }
  { lia. }
  { rewrite F4, F3, get_file_created_new. reflexivity. }
  rewrite (bind_some _ _ _ _ _ _ E5). clear E5.
  (* the two closes *)
  destruct (k_close_benign o w5 H) as [w6 [E6 [F6 T6]]].
  rewrite (bind_some _ _ _ _ _ _ E6). clear E6.
  destruct (k_close_benign o w6 H) as [w7 [E7 [F7 T7]]].
  rewrite (bind_some _ _ _ _ _ _ E7). clear E7.
  unfold ret_.
  exists w7, (fs_next (w_fs w1)).
  split; [reflexivity|]. split; [congruence|]. split; [reflexivity|].
  rewrite F7, F6.
  split; [rewrite D5, F4, F3; apply lookup_created_same; exact Hdst|].
  split; [exact B5|].
  split; [intros p Hp; rewrite D5, F4, F3; apply lookup_created_other; exact Hp|].
  intros k Hk. rewrite (O5 k Hk), F4, F3. apply get_file_created_other. exact Hk.
Qed.

(* Main theorem: all ancestors of dst exist already. *)
Theorem sync_file_correct o w dst src off i b :
  benign o ->
  tr_ok (w_tr w) = true ->
  lookup (w_fs w) src = Some (NFile i) ->
  get_file (w_fs w) i = mkFile b true ->
  i < fs_next (w_fs w) ->
  lookup (w_fs w) dst = None ->
  lookup (w_fs w) (dirname dst) = Some NDir ->
  (forall d, In d (parents_of dst) -> lookup (w_fs w) d = Some NDir) ->
  exists w' j,
    sync_file dst src off o w = (Some (Nat.max off (length b)), w') /\
    tr_ok (w_tr w') = true /\
    w_tr w' = w_tr w /\
    j = fs_next (w_fs w) /\
    lookup (w_fs w') dst = Some (NFile j) /\
    f_bytes (get_file (w_fs w') j) = skipn off b /\
    (forall p, p <> dst -> lookup (w_fs w') p = lookup (w_fs w) p) /\
    get_file (w_fs w') i = get_file (w_fs w) i /\
    (forall k, k <> j -> get_file (w_fs w') k = get_file (w_fs w) k).
Proof.
  intros H Htr Hsrc Hfile Hino Hdst Hdir Hpar.
  destruct (create_parents_exist o w dst H Htr Hpar) as [w1 [E1 [F1 T1]]].
  destruct (sync_file_core o w w1 dst src off i b H Htr E1 T1)
    as [w' [j [E [T [J [L [B [P G]]]]]]]]; try (rewrite F1; assumption).
  rewrite F1 in *.
  exists w', j. split; [exact E|]. split; [rewrite T; exact Htr|]. split; [exact T|].
  split; [exact J|]. split; [exact L|]. split; [exact B|]. split; [exact P|].
  split; [apply G; lia | exact G].
Qed.

(* ---------- stronger version: missing ancestors are created ---------- *)

(* each directory in the list is a child of the one before it *)
Fixpoint chain (prev : str) (ds : list str) : Prop :=
  match ds with
  | [] => True
  | d :: ds' => dirname d = prev /\ chain d ds'
  end.

Fixpoint last_or (prev : str) (ds : list str) : str :=
  match ds with
  | [] => prev
  | d :: ds' => last_or d ds'
  end.

Lemma rindex_from_snoc f s c : forall i acc,
  rindex_from f (s ++ [c]) i acc =
  if f c then Some (i + length s) else rindex_from f s i acc.
Proof.
  induction s as [|x s IH]; intros i acc; simpl.
  - rewrite Nat.add_0_r. reflexivity.
  - rewrite IH. destruct (f c); [f_equal; lia | reflexivity].
Qed.

Lemma rindex_from_range f s : forall i acc k,
  rindex_from f s i acc = Some k -> acc = Some k \/ (i <= k < i + length s).
Proof.
  induction s as [|x s IH]; intros i acc k Hk; simpl in *.
  - left. exact Hk.
  - apply IH in Hk. destruct Hk as [Hk|Hk].
    + destruct (f x).
      * injection Hk as <-. right. lia.
      * left. exact Hk.
    + right. lia.
Qed.

Lemma dirname_snoc_slash pre c :
  is_slash c = true -> pre <> [] -> dirname (pre ++ [c]) = pre.
Proof.
  intros Hc Hne. unfold dirname, rindex. rewrite rindex_from_snoc, Hc.
  destruct pre as [|x pre]; [congruence|].
  change (0 + length (x :: pre)) with (S (length pre)).
  change (S (length pre)) with (length (x :: pre)).
  rewrite firstn_app, Nat.sub_diag, firstn_all. simpl. rewrite app_nil_r. reflexivity.
Qed.

Lemma dirname_snoc_other pre c :
  is_slash c = false -> dirname (pre ++ [c]) = dirname pre.
Proof.
  intros Hc. unfold dirname, rindex. rewrite rindex_from_snoc, Hc.
  destruct (rindex_from is_slash pre 0 None) as [k|] eqn:E; [|reflexivity].
  destruct k as [|k]; [reflexivity|].
  apply rindex_from_range in E. destruct E as [E|E]; [discriminate|].
  rewrite firstn_app. replace (S k - length pre) with 0 by lia.
  simpl. rewrite app_nil_r. reflexivity.
Qed.

Lemma parents_aux_chain : forall rest pre_rev,
  pre_rev <> [] ->
  chain (dirname (rev pre_rev)) (parents_of_aux pre_rev rest) /\
  dirname (rev pre_rev ++ rest) =
    last_or (dirname (rev pre_rev)) (parents_of_aux pre_rev rest).
Proof.
  induction rest as [|c r IH]; intros pre_rev Hne.
  - simpl. rewrite app_nil_r. split; [exact I | reflexivity].
  - assert (Hrev : rev pre_rev <> []).
    { destruct pre_rev as [|y pr]; [congruence|]. simpl.
      intros E. apply app_eq_nil in E. destruct E as [_ E]. discriminate. }
    destruct (IH (c :: pre_rev) ltac:(discriminate)) as [IH1 IH2].
    cbn [rev] in IH1, IH2. rewrite <- app_assoc in IH2. cbn [app] in IH2.
    cbn [parents_of_aux].
    destruct pre_rev as [|y pr]; [congruence|].
    destruct (is_slash c) eqn:Hc; cbn [andb negb app].
    + rewrite (dirname_snoc_slash _ _ Hc Hrev) in IH1, IH2.
      cbn [chain last_or]. split; [split; [reflexivity | exact IH1] | exact IH2].
    + rewrite (dirname_snoc_other _ _ Hc) in IH1, IH2.
      split; [exact IH1 | exact IH2].
Qed.

Lemma parents_of_chain rest :
  chain root_path (parents_of (ch_slash :: rest)) /\
  dirname (ch_slash :: rest) = last_or root_path (parents_of (ch_slash :: rest)).
Proof.
  destruct (parents_aux_chain rest [ch_slash] ltac:(discriminate)) as [H1 H2].
  exact (conj H1 H2).
Qed.

Lemma parents_aux_shorter : forall rest pre_rev d,
  In d (parents_of_aux pre_rev rest) -> length d < length pre_rev + length rest.
Proof.
  induction rest as [|c r IH]; intros pre_rev d Hin; [destruct Hin|].
  cbn [parents_of_aux] in Hin. apply in_app_or in Hin. destruct Hin as [Hin|Hin].
  - destruct (is_slash c && _); [|destruct Hin].
    destruct Hin as [<-|[]]. rewrite rev_length. simpl. lia.
  - apply IH in Hin. simpl in *. lia.
Qed.

Lemma parents_of_not_self p : ~ In p (parents_of p).
Proof.
  intros Hin. apply parents_aux_shorter in Hin. simpl in Hin. lia.
Qed.

Lemma lookup_add_dent_same f d n :
  lookup f d = None -> lookup (add_dent d n f) d = Some n.
Proof.
  intros Hl. pose proof (lookup_none_not_root _ _ Hl) as Hr.
  unfold lookup in *. rewrite Hr in *. cbn [add_dent fs_dents].
  apply alookup_app_new. exact Hl.
Qed.

Lemma lookup_add_dent_other f d n p :
  p <> d -> lookup (add_dent d n f) p = lookup f p.
Proof.
  intros Hn. unfold lookup. destruct (str_eqb p root_path); [reflexivity|].
  cbn [add_dent fs_dents]. apply alookup_app_other. exact Hn.
Qed.

(* mkdir of a directory that exists or whose parent exists *)
Lemma k_mkdir_step o w d :
  benign o ->
  lookup (w_fs w) (dirname d) = Some NDir ->
  lookup (w_fs w) d = Some NDir \/ lookup (w_fs w) d = None ->
  exists w' r,
    k_mkdir d o w = (Some r, w') /\ (r = None \/ r = Some EEXIST) /\
    w_tr w' = w_tr w /\
    fs_files (w_fs w') = fs_files (w_fs w) /\
    fs_next (w_fs w') = fs_next (w_fs w) /\
    lookup (w_fs w') d = Some NDir /\
    (forall p, p <> d -> lookup (w_fs w') p = lookup (w_fs w) p).
Proof.
  intros H Hpar [Hd|Hd].
  - destruct (k_mkdir_exists o w d H Hd) as [w' [E [F T]]].
    exists w', (Some EEXIST). rewrite F. auto 10.
  - unfold k_mkdir, sys_unit. rewrite sys_benign by exact H.
    unfold fs_mkdir, parent_is_dir. rewrite Hd, Hpar. cbn.
    eexists. exists None. split; [reflexivity|]. cbn.
    split; [left; reflexivity|]. split; [reflexivity|]. split; [reflexivity|].
    split; [reflexivity|].
    split; [apply lookup_add_dent_same; exact Hd|].
    intros p Hp. apply lookup_add_dent_other. exact Hp.
Qed.

Lemma mkdir_all_make o : benign o -> forall ds prev w,
  lookup (w_fs w) prev = Some NDir ->
  chain prev ds ->
  (forall d, In d ds -> lookup (w_fs w) d = Some NDir \/ lookup (w_fs w) d = None) ->
  exists w',
    mkdir_all ds o w = (Some tt, w') /\
    w_tr w' = w_tr w /\
    fs_files (w_fs w') = fs_files (w_fs w) /\
    fs_next (w_fs w') = fs_next (w_fs w) /\
    (forall p, In p ds -> lookup (w_fs w') p = Some NDir) /\
    (forall p, ~ In p ds -> lookup (w_fs w') p = lookup (w_fs w) p) /\
    (forall p, lookup (w_fs w) p <> None -> lookup (w_fs w') p = lookup (w_fs w) p) /\
    lookup (w_fs w') (last_or prev ds) = Some NDir.
Proof.
  intros H. induction ds as [|d ds IH]; intros prev w Hprev Hch Hall.
  - exists w. cbn [mkdir_all last_or]. unfold ret_.
    split; [reflexivity|]. split; [reflexivity|]. split; [reflexivity|].
    split; [reflexivity|]. split; [intros p []|]. split; [reflexivity|].
    split; [reflexivity | exact Hprev].
  - destruct Hch as [Hdn Hch].
    destruct (k_mkdir_step o w d H) as [w1 [r [E1 [Hr [T1 [F1 [N1 [L1 O1]]]]]]]].
    { rewrite Hdn. exact Hprev. }
    { apply Hall. left. reflexivity. }
    cbn [mkdir_all]. rewrite (bind_some _ _ _ _ _ _ E1).
    assert (Hpres1 : forall p, lookup (w_fs w) p <> None ->
                               lookup (w_fs w1) p = lookup (w_fs w) p).
    { intros p Hp. destruct (str_eqb_spec p d) as [->|Hpd]; [|apply O1; exact Hpd].
      rewrite L1. destruct (Hall d (or_introl eq_refl)) as [Hd|Hd]; congruence. }
    destruct (IH d w1 L1 Hch) as [w2 [E2 [T2 [F2 [N2 [I2 [O2 [P2 L2]]]]]]]].
    { intros d' Hin. destruct (str_eqb_spec d' d) as [->|Hd'].
      - left. exact L1.
      - rewrite (O1 d' Hd'). apply Hall. right. exact Hin. }
    exists w2.
    split; [destruct Hr as [->| ->]; exact E2|].
    split; [congruence|]. split; [congruence|]. split; [congruence|].
    split; [|split; [|split]].
    + intros p [<-|Hin]; [|apply I2; exact Hin].
      rewrite P2; [exact L1 | congruence].
    + intros p Hnin.
      assert (Hpd : p <> d) by (intros ->; apply Hnin; left; reflexivity).
      rewrite O2; [apply O1; exact Hpd|]. intros Hin. apply Hnin. right. exact Hin.
    + intros p Hp. rewrite <- (Hpres1 p Hp). apply P2. rewrite (Hpres1 p Hp). exact Hp.
    + exact L2.
Qed.

Theorem sync_file_correct_mkparents o w dst src off i b :
  benign o ->
  tr_ok (w_tr w) = true ->
  (exists rest, dst = ch_slash :: rest) ->          (* dst is an absolute path *)
  lookup (w_fs w) src = Some (NFile i) ->
  get_file (w_fs w) i = mkFile b true ->
  i < fs_next (w_fs w) ->
  lookup (w_fs w) dst = None ->
  (* no ancestor of dst is a file or a link *)
  (forall d, In d (parents_of dst) ->
             lookup (w_fs w) d = Some NDir \/ lookup (w_fs w) d = None) ->
  exists w' j,
    sync_file dst src off o w = (Some (Nat.max off (length b)), w') /\
    tr_ok (w_tr w') = true /\
    w_tr w' = w_tr w /\
    j = fs_next (w_fs w) /\
    lookup (w_fs w') dst = Some (NFile j) /\
    f_bytes (get_file (w_fs w') j) = skipn off b /\
    (forall d, In d (parents_of dst) -> lookup (w_fs w') d = Some NDir) /\
    (forall p, p <> dst -> ~ In p (parents_of dst) ->
               lookup (w_fs w') p = lookup (w_fs w) p) /\
    (forall p, p <> dst -> lookup (w_fs w) p <> None ->
               lookup (w_fs w') p = lookup (w_fs w) p) /\
    get_file (w_fs w') i = get_file (w_fs w) i /\
    (forall k, k <> j -> get_file (w_fs w') k = get_file (w_fs w) k).
Proof.
  intros H Htr [rest Habs] Hsrc Hfile Hino Hdst Hpar.
  destruct (parents_of_chain rest) as [Hch Hlast]. rewrite <- Habs in Hch, Hlast.
  destruct (mkdir_all_make o H (parents_of dst) root_path w eq_refl Hch Hpar)
    as [w1 [E1 [T1 [F1 [N1 [I1 [O1 [P1 L1]]]]]]]].
  assert (Ecp : create_parents dst o w = (Some tt, w1)).
  { unfold create_parents, when_ok.
    rewrite (bind_some _ _ _ _ _ _ (is_ok_eq o w)). rewrite Htr. exact E1. }
  assert (G1 : forall k, get_file (w_fs w1) k = get_file (w_fs w) k).
  { intros k. unfold get_file. rewrite F1. reflexivity. }
  destruct (sync_file_core o w w1 dst src off i b H Htr Ecp T1)
    as [w' [j [E [T [J [L [B [P G]]]]]]]].
  { rewrite P1; [exact Hsrc | congruence]. }
  { rewrite G1. exact Hfile. }
  { rewrite N1. exact Hino. }
  { rewrite O1; [exact Hdst | apply parents_of_not_self]. }
  { rewrite Hlast. exact L1. }
  rewrite N1 in J.
  exists w', j. split; [exact E|]. split; [rewrite T; exact Htr|]. split; [exact T|].
  split; [exact J|]. split; [exact L|]. split; [exact B|].
  split; [|split; [|split; [|split]]].
  - intros d Hin. rewrite P; [apply I1; exact Hin|].
    intros ->. exact (parents_of_not_self _ Hin).
  - intros p Hp Hnin. rewrite (P p Hp). apply O1. exact Hnin.
  - intros p Hp Hex. rewrite (P p Hp). apply P1. exact Hex.
  - rewrite G; [apply G1 | lia].
  - intros k Hk. rewrite (G k Hk). apply G1.
Qed.

(* ---------- the hypotheses are satisfiable: a concrete instance ---------- *)

Module SyncExample.
  Local Open Scope char_scope.

  Definition p_s : str := ["/"; "s"].
  Definition p_d : str := ["/"; "d"].
  Definition p_src : str := ["/"; "s"; "/"; "f"].
  Definition p_dst : str := ["/"; "d"; "/"; "v"].
  Definition hello : str := ["h"; "e"; "l"; "l"; "o"].

  (* /s, /d directories; /s/f a readable 5-byte file (inode 1) *)
  Definition fs0 : fs :=
    let f1 := snd (fs_mkdir p_s fs_empty) in
    let f2 := snd (fs_mkdir p_d f1) in
    let f3 := snd (fs_create_excl p_src f2) in
    fs_append 1 hello f3.

  Definition w0 : world := mkW fs0 0 [] 0%Z tr_empty.

  (* the kernel hands out at most 2 bytes per transfer *)
  Definition o2 : oracle := fun _ => FShort 2.

  Lemma o2_benign : benign o2.
  Proof. intros i. right. exists 2. split; [lia | left; reflexivity]. Qed.

  (* all hypotheses of sync_file_correct hold of this instance *)
  Example hyps_hold :
    tr_ok (w_tr w0) = true /\
    lookup (w_fs w0) p_src = Some (NFile 1) /\
    get_file (w_fs w0) 1 = mkFile hello true /\
    1 < fs_next (w_fs w0) /\
    lookup (w_fs w0) p_dst = None /\
    lookup (w_fs w0) (dirname p_dst) = Some NDir /\
    (forall d, In d (parents_of p_dst) -> lookup (w_fs w0) d = Some NDir).
  Proof.
    split; [reflexivity|]. split; [vm_compute; reflexivity|].
    split; [vm_compute; reflexivity|]. split; [vm_compute; repeat constructor|].
    split; [vm_compute; reflexivity|]. split; [vm_compute; reflexivity|].
    intros d Hin. vm_compute in Hin. destruct Hin as [<-|[]]. vm_compute. reflexivity.
  Qed.

  (* direct evaluation: whole file and from offset 2, in 2-byte pieces *)
  Example run_from_0 :
    let '(r, w') := sync_file p_dst p_src 0 o2 w0 in
    r = Some 5 /\ tr_ok (w_tr w') = true /\
    lookup (w_fs w') p_dst = Some (NFile 2) /\
    get_file (w_fs w') 2 = mkFile hello true /\
    get_file (w_fs w') 1 = mkFile hello true /\
    w_n w' = 9.
  Proof. vm_compute. repeat split; reflexivity. Qed.

  Example run_from_2 :
    let '(r, w') := sync_file p_dst p_src 2 o2 w0 in
    r = Some 5 /\ tr_ok (w_tr w') = true /\
    lookup (w_fs w') p_dst = Some (NFile 2) /\
    f_bytes (get_file (w_fs w') 2) = ["l"; "l"; "o"].
  Proof. vm_compute. repeat split; reflexivity. Qed.

  (* and the theorem instantiated *)
  Example by_theorem off :
    exists w' j,
      sync_file p_dst p_src off o2 w0 = (Some (Nat.max off 5), w') /\
      lookup (w_fs w') p_dst = Some (NFile j) /\
      f_bytes (get_file (w_fs w') j) = skipn off hello.
  Proof.
    destruct hyps_hold as [H1 [H2 [H3 [H4 [H5 [H6 H7]]]]]].
    destruct (sync_file_correct o2 w0 p_dst p_src off 1 hello o2_benign H1 H2 H3 H4 H5 H6 H7)
      as [w' [j [E [_ [_ [_ [L [B _]]]]]]]].
    exists w', j. auto.
  Qed.

  (* a destination whose ancestors /d/x and /d/x/y do not exist yet *)
  Definition p_deep : str := ["/"; "d"; "/"; "x"; "/"; "y"; "/"; "v"].

  Example deep_hyps_hold :
    (exists rest, p_deep = ch_slash :: rest) /\
    lookup (w_fs w0) p_deep = None /\
    (forall d, In d (parents_of p_deep) ->
               lookup (w_fs w0) d = Some NDir \/ lookup (w_fs w0) d = None).
  Proof.
    split; [eexists; reflexivity|]. split; [vm_compute; reflexivity|].
    intros d Hin. vm_compute in Hin.
    destruct Hin as [<-|[<-|[<-|[]]]]; vm_compute; auto.
  Qed.

  Example run_deep :
    let '(r, w') := sync_file p_deep p_src 1 o2 w0 in
    r = Some 5 /\ tr_ok (w_tr w') = true /\
    lookup (w_fs w') p_deep = Some (NFile 2) /\
    f_bytes (get_file (w_fs w') 2) = ["e"; "l"; "l"; "o"] /\
    lookup (w_fs w') ["/"; "d"; "/"; "x"] = Some NDir /\
    lookup (w_fs w') ["/"; "d"; "/"; "x"; "/"; "y"] = Some NDir.
  Proof. vm_compute. repeat split; reflexivity. Qed.

  Example deep_by_theorem off :
    exists w' j,
      sync_file p_deep p_src off o2 w0 = (Some (Nat.max off 5), w') /\
      lookup (w_fs w') p_deep = Some (NFile j) /\
      f_bytes (get_file (w_fs w') j) = skipn off hello.
  Proof.
    destruct hyps_hold as [H1 [H2 [H3 [H4 _]]]].
    destruct deep_hyps_hold as [D1 [D2 D3]].
    destruct (sync_file_correct_mkparents o2 w0 p_deep p_src off 1 hello
                o2_benign H1 D1 H2 H3 H4 D2 D3)
      as [w' [j [E [_ [_ [_ [L [B _]]]]]]]].
    exists w', j. auto.
  Qed.
End SyncExample.

Print Assumptions sync_file_correct.
Print Assumptions sync_file_correct_mkparents.
