(* C16 "the whole new configuration governs all later events" for the daemon as
   a whole: after any exit-free run of the event loop with the real handler the
   configuration, the debounce of the queue, the queue directory and the journal
   are those of cfg_in_force folded over the notifications.  Proof in
   DaemonProofs.v. *)
From K Require Import Str Dec Trace Fs World Progs Elf Sieve SieveSpec Handler Linq LinqSpec LinqProofs
     Hoare Confine Confine2 SyncProofs AbandonProofs JournalProofs QueueProofs StoreFs StoreLogic StoreProofs
     FdProofs PassProofs JournalHistoryProofs AcceptProofs ReloadProofs AttrProofs ReloadHistory MixedHistory
     Main MainProofs Daemon DaemonProofs.

(* every oracle *)
Theorem C16_daemon_config_in_force :
  forall (self : N) (rev : bool) (o : oracle) (ns : list notif) (pause : Z) 
         (h : handler) (w : world) (outs : list out) (h' : handler) (w' : world),
       coherent h ->
       okw w = true ->
       envs_ok ns ->
       daemon_loop self rev ns pause h o w = (Some (outs, h'), w') ->
       no_exit outs ->
       let c := cfg_of_notifs self (h_cfg_path h) (h_cfg h) ns in
       c = cfg_in_force (h_cfg_path h) (h_cfg h) (steps_of self rev ns) /\
       h_cfg h' = c /\
       q_deb (h_q h') = c_debounce c /\
       q_dir (h_q h') = c_queue_path c /\
       journal_of c (h_journal h') /\ h_cfg_path h' = h_cfg_path h /\ h_cpl h' = h_cpl h.
Proof. exact daemon_config_in_force. Qed.
Print Assumptions C16_daemon_config_in_force.

