(* C02 (and the journal of C19) for the DAEMON AS A WHOLE: the event loop of
   main.c (Daemon.daemon_loop, calling the real handler programs) is run over

       NEvent ex xpath xnc :: bs ++ [NEnv wT; NWake]

   ex: the exec event of a configured editor (is_editor) by the process
   P = ev_pid ex; bs: a burst of write events and changes of the environment
   (DaemonBurst.burst_ok, the analogue of BurstProofs.hist_ok along the daemon's
   run: each write event is dispatched to handle_close_write and accepted as a
   plain entry -- BurstProofs.write_ok: no history flag, no project, not the
   configuration file --, THE PASS main.c RUNS AFTER IT FINDS NOTHING DUE, i.e.
   the whole burst happens before (time of its first write + debounce):
   DaemonBurst.not_due_snoc; each change of the environment leaves the queue
   directory and the journal file alone and does not move the clock backwards);
   NEnv wT: the clock moves to T; NWake: poll times out.  For every benign
   oracle.  es: the winners of the queue at T with what the file system of wT
   holds for them (PassProofs.all_ok). *)
From K Require Import Str Dec Trace Fs World Progs Sieve Handler Linq LinqSpec LinqProofs
     SyncProofs AbandonProofs QueueProofs JournalProofs DebounceProofs PassProofs AcceptProofs
     AttrProofs Main Daemon DaemonProofs DaemonBurst.
From K Require BurstProofs.

Theorem C02_daemon_burst_then_wakeup : forall self rev o h0 w0 ex xpath xnc bs wT pause0 es,
  benign o -> tr_ok (w_tr w0) = true -> QRel (h_q h0) (w_fs w0) [] ->
  sane ex -> ev_exec ex = true -> is_editor h0 xpath = true ->
  exec_dangling h0 (w_fs w0) xpath = false ->
  journal_fits (h_journal h0) (exec_event_name h0 xpath) (w_clock w0) ->
  let P := ev_pid ex in
  let hE := h_step h0 P xpath (interp_of (w_fs w0) xpath) in
  (forall outs z h1 w1,
     iteration self rev (NEvent ex xpath xnc) h0 o w0 = (Some (Next outs z h1), w1) ->
     burst_ok self rev o (bs ++ [NEnv wT]) [] h1 w1) ->
  let ents := BurstProofs.accepted (w_clock w0) (wsteps bs) in
  let deb := q_deb (h_q h0) in
  let T := w_clock wT in
  let due := BurstProofs.due_part T deb ents in
  let rest := BurstProofs.rest_part T deb ents in
  keys_nodup (w_fs wT) ->
  map qent_of es = BurstProofs.winners due rest ->
  all_ok (h_cfg h0) (h_cpl h0) (h_journal h0) (q_dir (h_q h0)) (w_fs wT) T es ->
  exists qf w',
    daemon_loop self rev (NEvent ex xpath xnc :: bs ++ [NEnv wT; NWake]) pause0 h0 o w0 =
      (Some (OPoll (poll_ms pause0) :: [ORead; OExec P (ev_fd ex); OClose (ev_fd ex); OTimeout] ++
             burst_outs deb bs (w_clock w0) [] (-1) ++
             [OPoll (poll_ms (burst_pause deb bs (w_clock w0) [] (-1))); OTimeout;
              OPoll (poll_ms (pause_of T deb rest)); OEnd],
             set_q qf hE), w') /\
    pid_mem P (h_pids hE) = true /\
    (rest = [] -> pause_of T deb rest = (-1)%Z) /\
    times_sorted ents /\ ents = due ++ rest /\
    Forall (BurstProofs.due_at T deb) due /\ Forall (fun e => (T - snd e < deb)%Z) rest /\
    NoDup (map e_path es) /\
    (forall p, In p (map e_path es) <-> exists t, last_time p ents = Some t /\ (deb <= T - t)%Z) /\
    BurstProofs.pass_facts (h_cfg h0) (h_cpl h0) (h_journal h0) (q_dir (h_q h0)) T (w_fs wT) es (w_fs w') /\
    QRel qf (w_fs w') rest /\
    q_dir qf = q_dir (h_q h0) /\ q_deb qf = deb /\ q_len_guess qf = q_len_guess (h_q h0) /\
    (rest = [] -> qf = mkQ (q_dir (h_q h0)) 0 0 deb (q_len_guess (h_q h0)) []) /\
    (forall p, In p (map e_path es) -> occurs p rest = false) /\
    (forall p t, last_time p ents = Some t -> (T - t < deb)%Z ->
                 ~ In p (map e_path es) /\ last_time p rest = Some t) /\
    keys_nodup (w_fs w') /\ tr_ok (w_tr w') = true /\ w_clock w' = T /\
    (forall jn, h_journal h0 = Some jn ->
       f_bytes (get_file (w_fs w') (j_ino jn)) =
       f_bytes (get_file (w_fs w0) (j_ino jn)) ++
       exec_line h0 (w_clock w0) P xpath ++
       wlines (h_journal h0) (c_ev_write_by_editor (h_cfg h0)) (w_clock w0) bs ++
       jlines (h_cfg h0) (h_cpl h0) (h_journal h0) T es).
Proof. exact daemon_burst_then_wakeup. Qed.
Print Assumptions C02_daemon_burst_then_wakeup.

(* the same read path by path, for whatever daemon_loop returns *)
Theorem C02_daemon_burst_per_path : forall self rev o h0 w0 ex xpath xnc bs wT pause0 es,
  benign o -> tr_ok (w_tr w0) = true -> QRel (h_q h0) (w_fs w0) [] ->
  sane ex -> ev_exec ex = true -> is_editor h0 xpath = true ->
  exec_dangling h0 (w_fs w0) xpath = false ->
  journal_fits (h_journal h0) (exec_event_name h0 xpath) (w_clock w0) ->
  (forall outs z h1 w1,
     iteration self rev (NEvent ex xpath xnc) h0 o w0 = (Some (Next outs z h1), w1) ->
     burst_ok self rev o (bs ++ [NEnv wT]) [] h1 w1) ->
  let ents := BurstProofs.accepted (w_clock w0) (wsteps bs) in
  let deb := q_deb (h_q h0) in
  let T := w_clock wT in
  let due := BurstProofs.due_part T deb ents in
  let rest := BurstProofs.rest_part T deb ents in
  keys_nodup (w_fs wT) ->
  map qent_of es = BurstProofs.winners due rest ->
  all_ok (h_cfg h0) (h_cpl h0) (h_journal h0) (q_dir (h_q h0)) (w_fs wT) T es ->
  forall r w',
    daemon_loop self rev (NEvent ex xpath xnc :: bs ++ [NEnv wT; NWake]) pause0 h0 o w0 = (r, w') ->
    exists outs hF,
      r = Some (outs, hF) /\ no_exit outs /\
      QRel (h_q hF) (w_fs w') rest /\
      forall p t, last_time p ents = Some t ->
        ((deb <= T - t)%Z ->
           exists k e,
             nth_error es k = Some e /\ e_path e = p /\ e_time e = t /\
             lookup (w_fs wT) p = Some (NFile (e_ino e)) /\
             get_file (w_fs wT) (e_ino e) = mkFile (e_bytes e) true /\
             lookup (w_fs wT) (store_name (h_cfg h0) (h_cpl h0) T p) = None /\
             lookup (w_fs w') (store_name (h_cfg h0) (h_cpl h0) T p) = Some (NFile (fs_next (w_fs wT) + k)) /\
             f_bytes (get_file (w_fs w') (fs_next (w_fs wT) + k)) = e_bytes e /\
             occurs p rest = false) /\
        ((T - t < deb)%Z ->
           ~ In p (map e_path es) /\ last_time p rest = Some t).
Proof. exact daemon_burst_per_path. Qed.
Print Assumptions C02_daemon_burst_per_path.

(* one file written k >= 1 times and left alone for the debounce: exactly one
   version with the content at T, the queue empty, an indefinite wait *)
Theorem C02_daemon_one_file_burst : forall self rev o h0 w0 ex xpath xnc bs wT pause0 p t i b,
  benign o -> tr_ok (w_tr w0) = true -> QRel (h_q h0) (w_fs w0) [] ->
  sane ex -> ev_exec ex = true -> is_editor h0 xpath = true ->
  exec_dangling h0 (w_fs w0) xpath = false ->
  journal_fits (h_journal h0) (exec_event_name h0 xpath) (w_clock w0) ->
  let P := ev_pid ex in
  let hE := h_step h0 P xpath (interp_of (w_fs w0) xpath) in
  (forall outs z h1 w1,
     iteration self rev (NEvent ex xpath xnc) h0 o w0 = (Some (Next outs z h1), w1) ->
     burst_ok self rev o (bs ++ [NEnv wT]) [] h1 w1) ->
  let ents := BurstProofs.accepted (w_clock w0) (wsteps bs) in
  let deb := q_deb (h_q h0) in
  let T := w_clock wT in
  writes_only p bs -> last_time p ents = Some t -> (deb <= T - t)%Z ->
  keys_nodup (w_fs wT) ->
  plain_ok (h_cfg h0) (h_cpl h0) (h_journal h0) (q_dir (h_q h0)) (w_fs wT) T p i b ->
  let qe := mkQ (q_dir (h_q h0)) 0 0 deb (q_len_guess (h_q h0)) [] in
  let v := store_name (h_cfg h0) (h_cpl h0) T p in
  exists w',
    daemon_loop self rev (NEvent ex xpath xnc :: bs ++ [NEnv wT; NWake]) pause0 h0 o w0 =
      (Some (OPoll (poll_ms pause0) :: [ORead; OExec P (ev_fd ex); OClose (ev_fd ex); OTimeout] ++
             burst_outs deb bs (w_clock w0) [] (-1) ++
             [OPoll (poll_ms (burst_pause deb bs (w_clock w0) [] (-1))); OTimeout;
              OPoll (poll_ms (-1)); OEnd],
             set_q qe hE), w') /\
    lookup (w_fs w') v = Some (NFile (fs_next (w_fs wT))) /\
    f_bytes (get_file (w_fs w') (fs_next (w_fs wT))) = b /\
    get_file (w_fs wT) i = mkFile b true /\ lookup (w_fs wT) p = Some (NFile i) /\
    fs_next (w_fs w') = S (fs_next (w_fs wT)) /\
    (forall x i', lookup (w_fs w') x = Some (NFile i') -> lookup (w_fs wT) x = None -> x = v) /\
    (forall x, lookup (w_fs wT) x <> None -> Str.under (q_dir (h_q h0)) x = false ->
               lookup (w_fs w') x = lookup (w_fs wT) x) /\
    QRel qe (w_fs w') [] /\
    keys_nodup (w_fs w') /\ tr_ok (w_tr w') = true /\ w_clock w' = T /\
    (forall jn, h_journal h0 = Some jn ->
       f_bytes (get_file (w_fs w') (j_ino jn)) =
       f_bytes (get_file (w_fs w0) (j_ino jn)) ++
       exec_line h0 (w_clock w0) P xpath ++
       wlines (h_journal h0) (c_ev_write_by_editor (h_cfg h0)) (w_clock w0) bs ++
       jline (h_journal h0) (c_ev_stored (h_cfg h0)) (rel_of (h_cpl h0) p) T).
Proof. exact daemon_one_file_burst. Qed.
Print Assumptions C02_daemon_one_file_burst.

(* ... and woken up too early: nothing stored, still pending, a positive wait *)
Theorem C02_daemon_one_file_burst_young : forall self rev o h0 w0 ex xpath xnc bs wT pause0 p t,
  benign o -> tr_ok (w_tr w0) = true -> QRel (h_q h0) (w_fs w0) [] ->
  sane ex -> ev_exec ex = true -> is_editor h0 xpath = true ->
  exec_dangling h0 (w_fs w0) xpath = false ->
  journal_fits (h_journal h0) (exec_event_name h0 xpath) (w_clock w0) ->
  let P := ev_pid ex in
  let hE := h_step h0 P xpath (interp_of (w_fs w0) xpath) in
  (forall outs z h1 w1,
     iteration self rev (NEvent ex xpath xnc) h0 o w0 = (Some (Next outs z h1), w1) ->
     burst_ok self rev o (bs ++ [NEnv wT]) [] h1 w1) ->
  let ents := BurstProofs.accepted (w_clock w0) (wsteps bs) in
  let deb := q_deb (h_q h0) in
  let T := w_clock wT in
  let rest := BurstProofs.rest_part T deb ents in
  writes_only p bs -> last_time p ents = Some t -> (T - t < deb)%Z ->
  keys_nodup (w_fs wT) ->
  exists qf w',
    daemon_loop self rev (NEvent ex xpath xnc :: bs ++ [NEnv wT; NWake]) pause0 h0 o w0 =
      (Some (OPoll (poll_ms pause0) :: [ORead; OExec P (ev_fd ex); OClose (ev_fd ex); OTimeout] ++
             burst_outs deb bs (w_clock w0) [] (-1) ++
             [OPoll (poll_ms (burst_pause deb bs (w_clock w0) [] (-1))); OTimeout;
              OPoll (poll_ms (pause_of T deb rest)); OEnd],
             set_q qf hE), w') /\
    fs_next (w_fs w') = fs_next (w_fs wT) /\
    (forall x i', lookup (w_fs w') x = Some (NFile i') -> lookup (w_fs wT) x <> None) /\
    (forall x, lookup (w_fs wT) x <> None -> Str.under (q_dir (h_q h0)) x = false ->
               lookup (w_fs w') x = lookup (w_fs wT) x) /\
    QRel qf (w_fs w') rest /\ last_time p rest = Some t /\ (0 < pause_of T deb rest)%Z /\
    keys_nodup (w_fs w') /\ tr_ok (w_tr w') = true /\ w_clock w' = T /\
    (forall jn, h_journal h0 = Some jn ->
       f_bytes (get_file (w_fs w') (j_ino jn)) =
       f_bytes (get_file (w_fs w0) (j_ino jn)) ++
       exec_line h0 (w_clock w0) P xpath ++
       wlines (h_journal h0) (c_ev_write_by_editor (h_cfg h0)) (w_clock w0) bs).
Proof. exact daemon_one_file_burst_young. Qed.
Print Assumptions C02_daemon_one_file_burst_young.

(* non-vacuity: DaemonExample's world; exec of vim by pid 7, /h/a written at
   100 s and (rewritten) at 101 s, /h/x/i at 102 s, wake-up at 106 s: all the
   hypotheses hold; by evaluation and by the theorems *)
Example C02_daemon_hyps := DaemonBurstExample.hyps_hold.
Example C02_daemon_run := DaemonBurstExample.run_burst.
Example C02_daemon_instance := DaemonBurstExample.burst_by_theorem.
Example C02_daemon_per_path_instance := DaemonBurstExample.per_path_by_theorem.
Example C02_daemon_one_file_instance := DaemonBurstExample.one_file_by_theorem.
