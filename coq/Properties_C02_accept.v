(* C02, write and pass composed: a qualifying write accepted on an empty queue at
   time t0 (handle_close_write), then ANY change of the world that leaves the queue
   directory alone (the file may be rewritten, the clock moves), then a timeout
   pass: before t0 + debounce the pass stores nothing and asks for exactly the time
   left; at or after t0 + debounce it stores exactly one version holding the
   content the file has AT THE PASS, empties the queue and asks for an indefinite
   wait.  For every benign oracle. *)
From K Require Import Str Dec Trace Fs World Progs Sieve Handler Linq LinqSpec
     LinqProofs SyncProofs AbandonProofs QueueProofs JournalProofs PassProofs AcceptProofs.

Theorem C02_accept_then_pass : forall o rev h w pid path nc,
  benign o -> tr_ok (w_tr w) = true ->
  QRel (h_q h) (w_fs w) [] ->
  push_decision (c_rules (h_cfg h)) (h_cpl h) (pid_mem pid (h_pids h)) path = (true, false, None) ->
  h_cfg_path h <> Some path ->
  journal_fits (h_journal h) (c_ev_write_by_editor (h_cfg h)) (w_clock w) ->
  normal path -> fits (q_len_guess (h_q h)) (path, 0%N, w_clock w) ->
  let t0 := w_clock w in
  let deb := q_deb (h_q h) in
  let h1 := set_q (pushed path (h_q h)) h in
  exists w1,
    handle_close_write pid path nc h o w = (Some h1, w1) /\
    QRel (h_q h1) (w_fs w1) [(path, 0%N, t0)] /\
    tr_ok (w_tr w1) = true /\ w_clock w1 = t0 /\
    forall w2,
      queue_untouched (h_q h) (w_fs w1) (w_fs w2) -> tr_ok (w_tr w2) = true ->
      ((w_clock w2 - t0 < deb)%Z ->
       exists w3,
         handle_timeout rev h1 o w2 = (Some (TPause (deb - (w_clock w2 - t0)), h1), w3) /\
         w_fs w3 = w_fs w2 /\ QRel (h_q h1) (w_fs w3) [(path, 0%N, t0)] /\
         tr_ok (w_tr w3) = true) /\
      (forall i b,
         (deb <= w_clock w2 - t0)%Z -> keys_nodup (w_fs w2) ->
         plain_ok (h_cfg h) (h_cpl h) (h_journal h) (q_dir (h_q h)) (w_fs w2) (w_clock w2) path i b ->
         exists w3,
           handle_timeout rev h1 o w2 = (Some (TPause (-1), set_q (popped path (h_q h1)) h1), w3) /\
           step_post (h_cfg h) (h_cpl h) (h_journal h) (next_name (h_q h))
                     (w_fs w2) (w_fs w3) (w_clock w2) path b /\
           QRel (popped path (h_q h1)) (w_fs w3) [] /\ keys_nodup (w_fs w3) /\
           tr_ok (w_tr w3) = true /\ (t_post (w_tr w2) = 0 -> w_tr w3 = w_tr w2) /\
           w_clock w3 = w_clock w2).
Proof. exact accept_then_pass. Qed.
Print Assumptions C02_accept_then_pass.

(* non-vacuity: written "one" at 100 s, rewritten "two!!" before the pass; the pass
   at 103 s stores nothing, the pass at 105 s stores "two!!" *)
Example C02_accept_instance := AcceptExample.accept_then_pass_by_theorem.
