(* C01 in terms of what a pass STORES (BurstProofs.v): the queue built by any history
   of accepted writes lists (path, flags, time of that write) with times sorted
   (C02_history_queue); a pass at clock `now` with debounce `deb` stores exactly the
   "winners" of its due part (C02_dup_pass).  Then:
     a path is stored by the pass IFF its LAST accepted write is at least `deb` old -
     so nothing is stored while a newer write of the same path is younger than the
     debounce, however many older entries of that path are due (no early version),
     and nothing that is quiet is held back (no late version);
     everything the pass leaves in the queue is younger than the debounce. *)
From K Require Import Str Linq LinqSpec DebounceProofs QueueProofs PassProofs BurstProofs.

Theorem C01_stored_iff_quiet : forall now deb q p,
  times_sorted q ->
  In p (map qpath (winners (due_part now deb q) (rest_part now deb q))) <->
  exists t, last_time p q = Some t /\ (deb <= now - t)%Z.
Proof. exact stored_iff_quiet. Qed.
Print Assumptions C01_stored_iff_quiet.

Theorem C01_left_entries_are_young : forall now deb q,
  times_sorted q -> Forall (fun e => (now - snd e < deb)%Z) (rest_part now deb q).
Proof. exact rest_part_all_young. Qed.
Print Assumptions C01_left_entries_are_young.

Theorem C01_due_prefix_closed : forall now deb a e b,
  times_sorted (a ++ e :: b) -> due_at now deb e -> Forall (due_at now deb) a.
Proof. exact due_prefix_closed. Qed.
Print Assumptions C01_due_prefix_closed.

(* non-vacuity: written a@100, b@100, a@101 with debounce 5: the pass at 105 stores b
   and not a (its last write is 4 s old); the pass at 110 stores both *)
Example C01_early_pass_instance := BurstPassExample.early_pass_by_theorem.
