(* C20, descriptor part: the number of descriptors acquired minus the number
   released, read off the call log, for every program of the daemon and under
   EVERY oracle (faults, short transfers; a crash ends the run and nothing is
   claimed about it).

   The open wrappers log [RFd] exactly when a descriptor was obtained; every
   logged [CClose] releases one descriptor (a faulted close still releases it
   in the harness). *)
From K Require Import Str World Progs Elf Linq Sieve Handler Hoare.
From Coq Require Import Lia ZArith.
Local Open Scope Z_scope.

(* ---------- the measure ---------- *)

Definition fd_delta (e : call * ret) : Z :=
  match e with
  | (CClose, _) => -1
  | (COpenR _, RFd) | (COpenExcl _, RFd) | (COpenW _, RFd) | (COpenA _, RFd) | (COpenDir _, RFd) => 1
  | _ => 0
  end.

Definition fd_sum (l : list (call * ret)) : Z := fold_right (fun e acc => fd_delta e + acc) 0 l.
Definition fd_count (w : world) : Z := fd_sum (w_log w).

(* calls that neither acquire nor release a descriptor *)
Definition quiet (c : call) : Prop :=
  match c with
  | COpenR _ | COpenExcl _ | COpenW _ | COpenA _ | COpenDir _ | CClose => False
  | _ => True
  end.

Lemma quiet_delta c r : quiet c -> fd_delta (c, r) = 0.
Proof. destruct c; simpl; intros H; try contradiction; reflexivity. Qed.

Lemma fd_count_after c r f' w : fd_count (after_call c r f' w) = fd_delta (c, r) + fd_count w.
Proof. reflexivity. Qed.

Lemma fd_count_upd_tr t w : fd_count (upd_tr t w) = fd_count w.
Proof. reflexivity. Qed.

(* ---------- the judgement ---------- *)

(* Started in a world satisfying P, under any oracle, if m returns a in world
   w' then R a (descriptors acquired - released by m) w'. *)
Definition fdj {A} (P : world -> Prop) (m : M A) (R : A -> Z -> world -> Prop) : Prop :=
  forall n, ht (fun _ => True) (fun w => fd_count w = n /\ P w) m
               (fun a w => R a (fd_count w - n) w) (fun _ => True).

(* no assumption on the world, conclusion about value and balance only *)
Definition fdr {A} (m : M A) (R : A -> Z -> Prop) : Prop :=
  fdj (fun _ => True) m (fun a d _ => R a d).

(* neutral: every descriptor opened is closed again *)
Definition fdn {A} (m : M A) : Prop := fdr m (fun _ d => d = 0).

Lemma fdj_elim {A} P (m : M A) R :
  fdj P m R -> forall o w, P w ->
  match m o w with
  | (Some a, w') => R a (fd_count w' - fd_count w) w'
  | (None, _) => True
  end.
Proof. intros H o w Hp. exact (H (fd_count w) o w I (conj eq_refl Hp)). Qed.

Lemma fdj_intro {A} (P : world -> Prop) (m : M A) (R : A -> Z -> world -> Prop) :
  (forall o w, P w ->
     match m o w with
     | (Some a, w') => R a (fd_count w' - fd_count w) w'
     | (None, _) => True
     end) -> fdj P m R.
Proof. intros H n o w _ [Hn Hp]. subst n. apply H. assumption. Qed.

Lemma fdr_elim {A} (m : M A) R :
  fdr m R -> forall o w a w', m o w = (Some a, w') -> R a (fd_count w' - fd_count w).
Proof. intros H o w a w' E. pose proof (fdj_elim _ _ _ H o w I) as H'. rewrite E in H'. exact H'. Qed.

Lemma fdj_ret {A} (P : world -> Prop) (a : A) (R : A -> Z -> world -> Prop) :
  (forall w, P w -> R a 0 w) -> fdj P (ret_ a) R.
Proof.
  intros H. apply fdj_intro. intros o w Hp. cbn [ret_].
  replace (fd_count w - fd_count w) with 0 by lia. auto.
Qed.

Lemma fdj_bind {A B} P (m : M A) (k : A -> M B) (R1 : A -> Z -> world -> Prop) R :
  fdj P m R1 ->
  (forall a d1, fdj (R1 a d1) (k a) (fun b d2 w => R b (d1 + d2) w)) ->
  fdj P (bind m k) R.
Proof.
  intros Hm Hk. apply fdj_intro. intros o w Hp. unfold bind.
  pose proof (fdj_elim _ _ _ Hm o w Hp) as H1.
  destruct (m o w) as [[a|] w1]; [|exact I].
  pose proof (fdj_elim _ _ _ (Hk a _) o w1 H1) as H2.
  destruct (k a o w1) as [[b|] w2]; [|exact I].
  replace (fd_count w2 - fd_count w) with (fd_count w1 - fd_count w + (fd_count w2 - fd_count w1)) by lia.
  exact H2.
Qed.

Lemma fdj_conseq {A} (P P' : world -> Prop) (m : M A) (R R' : A -> Z -> world -> Prop) :
  (forall w, P' w -> P w) -> (forall a d w, R a d w -> R' a d w) -> fdj P m R -> fdj P' m R'.
Proof.
  intros H1 H2 H. apply fdj_intro. intros o w Hp.
  pose proof (fdj_elim _ _ _ H o w (H1 w Hp)) as H'.
  destruct (m o w) as [[a|] w']; auto.
Qed.

Lemma fdj_pre {A} (P P' : world -> Prop) (m : M A) (R : A -> Z -> world -> Prop) :
  (forall w, P' w -> P w) -> fdj P m R -> fdj P' m R.
Proof. intros H1 H. eapply fdj_conseq; [exact H1| |exact H]. auto. Qed.

(* facts that do not depend on the world move out of the precondition *)
Lemma fdj_pure {A} (phi : Prop) (P : world -> Prop) (m : M A) R :
  (forall w, P w -> phi) -> (phi -> fdj P m R) -> fdj P m R.
Proof.
  intros H1 H2. apply fdj_intro. intros o w Hp.
  exact (fdj_elim _ _ _ (H2 (H1 w Hp)) o w Hp).
Qed.

(* forget the precondition: continue with the value/balance judgement *)
Lemma fdj_of_fdr {A} (P : world -> Prop) (m : M A) (R : A -> Z -> Prop) :
  fdr m R -> fdj P m (fun a d _ => R a d).
Proof. intros H. eapply fdj_conseq; [| |exact H]; simpl; auto. Qed.

(* first component is a value/balance fact: it becomes a hypothesis *)
Lemma fdj_bind_r {A B} P (m : M A) (k : A -> M B) (R1 : A -> Z -> Prop) R :
  fdr m R1 ->
  (forall a d1, R1 a d1 -> fdj (fun _ => True) (k a) (fun b d2 w => R b (d1 + d2) w)) ->
  fdj P (bind m k) R.
Proof.
  intros Hm Hk. eapply fdj_bind; [apply fdj_of_fdr; exact Hm|].
  intros a d1. apply fdj_pure with (phi := R1 a d1); [auto|].
  intros H1. eapply fdj_conseq; [| |apply (Hk a d1 H1)]; simpl; auto.
Qed.

(* first component is neutral and keeps (or establishes) a world fact *)
Lemma fdj_bind_keep {A B} P (P' : world -> Prop) (m : M A) (k : A -> M B) R :
  fdj P m (fun _ d w => d = 0 /\ P' w) ->
  (forall a, fdj P' (k a) R) ->
  fdj P (bind m k) R.
Proof.
  intros Hm Hk. eapply fdj_bind; [exact Hm|]. intros a d1. simpl.
  apply fdj_pure with (phi := d1 = 0); [tauto|]. intros ->.
  eapply fdj_conseq; [| |apply (Hk a)]; simpl; [tauto|auto].
Qed.

Lemma fdr_ret {A} (a : A) (R : A -> Z -> Prop) : R a 0 -> fdr (ret_ a) R.
Proof. intros H. apply fdj_ret. auto. Qed.

Lemma fdr_bind {A B} (m : M A) (k : A -> M B) (R1 : A -> Z -> Prop) (R : B -> Z -> Prop) :
  fdr m R1 ->
  (forall a d1, R1 a d1 -> fdr (k a) (fun b d2 => R b (d1 + d2))) ->
  fdr (bind m k) R.
Proof. intros Hm Hk. unfold fdr. eapply fdj_bind_r; [exact Hm|]. intros a d1 H1. apply (Hk a d1 H1). Qed.

Lemma fdr_weaken {A} (m : M A) (R R' : A -> Z -> Prop) :
  fdr m R -> (forall a d, R a d -> R' a d) -> fdr m R'.
Proof. intros H Hw. unfold fdr. eapply fdj_conseq; [| |exact H]; simpl; auto. Qed.

Lemma fdr_of_fdn {A} (m : M A) : fdn m -> fdr m (fun _ d => d = 0).
Proof. auto. Qed.

Lemma fdn_ret {A} (a : A) : fdn (ret_ a).
Proof. apply fdr_ret. reflexivity. Qed.

Lemma fdn_bind {A B} (m : M A) (k : A -> M B) : fdn m -> (forall a, fdn (k a)) -> fdn (bind m k).
Proof.
  intros Hm Hk. unfold fdn. apply fdr_bind with (R1 := fun _ d => d = 0); [exact Hm|]. intros a d1 ->.
  eapply fdr_weaken; [apply (Hk a)|]. intros b d ->. reflexivity.
Qed.

(* ---------- primitives ---------- *)

(* programs that touch only the trace / read the state *)
Lemma fdj_state {A} (P : world -> Prop) (m : M A) (R : A -> Z -> world -> Prop) :
  (forall o w, P w -> exists a t, m o w = (Some a, upd_tr t w) /\ R a 0 (upd_tr t w)) -> fdj P m R.
Proof.
  intros H. apply fdj_intro. intros o w Hp. destruct (H o w Hp) as [a [t [E Hr]]]. rewrite E.
  rewrite fd_count_upd_tr. replace (fd_count w - fd_count w) with 0 by lia. exact Hr.
Qed.

Lemma upd_tr_same w : upd_tr (w_tr w) w = w.
Proof. destruct w; reflexivity. Qed.

Lemma fdn_get_tr : fdn get_tr.
Proof. apply fdj_state. intros o w _. exists (w_tr w), (w_tr w). rewrite upd_tr_same. auto. Qed.
Lemma fdn_set_tr t : fdn (set_tr t).
Proof. apply fdj_state. intros o w _. exists tt, t. auto. Qed.
Lemma fdn_get_clock : fdn get_clock.
Proof. apply fdj_state. intros o w _. exists (w_clock w), (w_tr w). rewrite upd_tr_same. auto. Qed.
Lemma fdn_get_fs : fdn get_fs.
Proof. apply fdj_state. intros o w _. exists (w_fs w), (w_tr w). rewrite upd_tr_same. auto. Qed.
Lemma fdn_transfer_limit b n : fdn (transfer_limit b n).
Proof. apply fdj_state. intros o w _. eexists. exists (w_tr w). rewrite upd_tr_same. split; reflexivity. Qed.

(* one system call: the balance is the fd_delta of the logged entry *)
Lemma fdr_sys {A} c (perform : fs -> ret * A * fs) (on_fail : errno -> A) (R : A -> Z -> Prop) :
  (forall e, R (on_fail e) (fd_delta (c, RFault e))) ->
  (forall f, let '(r, a, f') := perform f in R a (fd_delta (c, r))) ->
  fdr (sys c perform on_fail) R.
Proof.
  intros Hf Hs n. apply ht_sys.
  - auto.
  - intros w e [Hn _]. rewrite fd_count_after.
    replace (fd_delta (c, RFault e) + fd_count w - n) with (fd_delta (c, RFault e)) by lia. apply Hf.
  - intros w [Hn _]. specialize (Hs (w_fs w)). destruct (perform (w_fs w)) as [[r a] f'].
    rewrite fd_count_after. replace (fd_delta (c, r) + fd_count w - n) with (fd_delta (c, r)) by lia.
    exact Hs.
Qed.

Lemma fdn_sys_quiet {A} c (perform : fs -> ret * A * fs) (on_fail : errno -> A) :
  quiet c -> fdn (sys c perform on_fail).
Proof.
  intros Hq. apply fdr_sys.
  - intros e. apply quiet_delta. assumption.
  - intros f. destruct (perform f) as [[r a] f']. apply quiet_delta. assumption.
Qed.

(* close: always -1, whatever the result *)
Lemma fdr_close : fdr k_close (fun _ d => d = -1).
Proof.
  unfold k_close, sys_unit. apply fdr_sys.
  - intros e. reflexivity.
  - intros f. reflexivity.
Qed.

(* open wrappers: +1 exactly when a descriptor is returned *)
Lemma fdr_open_gen c (op : fs -> (fd + errno) * fs) (R : fd + errno -> Z -> Prop) :
  fd_delta (c, RFd) = 1 -> (forall e, fd_delta (c, RErr e) = 0) -> (forall e, fd_delta (c, RFault e) = 0) ->
  (forall e, R (inr e) 0) ->
  (forall f d f', op f = (inl d, f') -> R (inl d) 1) ->
  fdr (k_open_gen c op) R.
Proof.
  intros H1 H2 H3 He Hd. unfold k_open_gen. apply fdr_sys.
  - intros e. rewrite H3. apply He.
  - intros f. destruct (op f) as [[d|e] f'] eqn:E.
    + rewrite H1. eapply Hd. eassumption.
    + rewrite H2. apply He.
Qed.

Lemma fdr_open_read p : fdr (k_open_read p) (fun r d => d = match r with inl _ => 1 | inr _ => 0 end).
Proof. unfold k_open_read. apply fdr_open_gen; auto. Qed.

Lemma fdr_open_dir p : fdr (k_open_dir p) (fun r d => d = match r with inl _ => 1 | inr _ => 0 end).
Proof. unfold k_open_dir. apply fdr_open_gen; auto. Qed.

(* O_CREAT opens never yield a directory descriptor *)
Lemma fs_create_excl_file p f d f' : fs_create_excl p f = (inl d, f') -> exists i, d = FdFile i.
Proof.
  unfold fs_create_excl. destruct (lookup f p); [intros E; discriminate|].
  destruct (parent_is_dir f p); intros E; inversion E; eauto.
Qed.

Lemma fs_open_create_file p f d f' : fs_open_create p f = (inl d, f') -> exists i, d = FdFile i.
Proof.
  unfold fs_open_create. destruct (lookup f p) as [[| |]|]; try (intros E; discriminate).
  - intros E; inversion E; eauto.
  - apply fs_create_excl_file.
Qed.

Definition created (r : fd + errno) (d : Z) : Prop :=
  match r with
  | inl (FdFile _) => d = 1
  | inl (FdDir _) => False
  | inr _ => d = 0
  end.

Lemma fdr_open_excl p : fdr (k_open_excl p) created.
Proof.
  unfold k_open_excl. apply fdr_open_gen; auto; try reflexivity.
  intros f d f' E. destruct (fs_create_excl_file _ _ _ _ E) as [i ->]. reflexivity.
Qed.
Lemma fdr_open_w p : fdr (k_open_w p) created.
Proof.
  unfold k_open_w. apply fdr_open_gen; auto; try reflexivity.
  intros f d f' E. destruct (fs_open_create_file _ _ _ _ E) as [i ->]. reflexivity.
Qed.
Lemma fdr_open_a p : fdr (k_open_a p) created.
Proof.
  unfold k_open_a. apply fdr_open_gen; auto; try reflexivity.
  intros f d f' E. destruct (fs_open_create_file _ _ _ _ E) as [i ->]. reflexivity.
Qed.

(* 1 when x is present *)
Definition jz {A} (x : option A) : Z := match x with Some _ => 1 | None => 0 end.

(* result of load_linq: see fdr_load_linq_aux *)
Definition loaded (r : option qmem) (d : Z) : Prop :=
  match r with Some _ => d = 1 | None => 0 <= d <= 1 end.

(* ---------- stepping tactics (syntactic: never unfold a program by conversion) ---------- *)

Create HintDb fdn discriminated.
Create HintDb fdr discriminated.

Ltac fd0 :=
  repeat (lazymatch goal with
          | |- fdn (ret_ _) => apply fdn_ret
          | |- fdn (bind _ _) => apply fdn_bind; [|intros ?]
          | |- fdn get_tr => apply fdn_get_tr
          | |- fdn (set_tr _) => apply fdn_set_tr
          | |- fdn get_clock => apply fdn_get_clock
          | |- fdn get_fs => apply fdn_get_fs
          | |- fdn (transfer_limit _ _) => apply fdn_transfer_limit
          | |- fdn (mod_tr _) => unfold mod_tr
          | |- fdn is_ok => unfold is_ok
          | |- fdn (throw _) => unfold throw
          | |- fdn (throw_static _) => unfold throw_static
          | |- fdn (throw_errno _) => unfold throw_errno
          | |- fdn (throw_context _) => unfold throw_context
          | |- fdn try_ => unfold try_
          | |- fdn finally_ => unfold finally_
          | |- fdn (finally_rethrow_static _) => unfold finally_rethrow_static
          | |- fdn (rethrow_context _) => unfold rethrow_context
          | |- fdn (catch_static _) => unfold catch_static
          | |- fdn (when_ok _ _) => unfold when_ok
          | |- fdn (sys _ _ _) => apply fdn_sys_quiet; exact I
          | |- fdn (sys_unit _ _) => unfold sys_unit
          | |- fdn (k_mkdir _) => unfold k_mkdir
          | |- fdn (k_mkdirat _ _) => unfold k_mkdirat
          | |- fdn (k_rmdir _) => unfold k_rmdir
          | |- fdn (k_unlink _) => unfold k_unlink
          | |- fdn (k_unlinkat _ _) => unfold k_unlinkat
          | |- fdn (k_link _ _) => unfold k_link
          | |- fdn (k_linkat _ _ _) => unfold k_linkat
          | |- fdn (k_symlinkat _ _ _) => unfold k_symlinkat
          | |- fdn (k_fstat _) => unfold k_fstat
          | |- fdn (k_sendfile _ _ _ _) => unfold k_sendfile
          | |- fdn (k_write _ _) => unfold k_write
          | |- fdn (k_read1 _ _) => unfold k_read1
          | |- fdn (k_read _ _ _) => unfold k_read
          | |- fdn (k_ftruncate _) => unfold k_ftruncate
          | |- fdn (k_readlinkat _ _ _) => unfold k_readlinkat
          | |- fdn (k_fstatat_mtime _ _) => unfold k_fstatat_mtime
          | |- fdn (k_access _) => unfold k_access
          | |- fdn (k_scandir _) => unfold k_scandir
          | |- fdn (k_fts _ _) => unfold k_fts
          | |- fdn (k_read_at _ _ _) => unfold k_read_at
          | |- fdn (match ?x with _ => _ end) => destruct x
          | |- fdn (let _ := _ in _) => cbv zeta
          | |- fdn _ => solve [auto with fdn nocore]
          end).

(* closing step for value/balance goals *)
Ltac fdfin :=
  unfold created, loaded, jz in *; cbv beta iota in *;
  repeat match goal with H : _ /\ _ |- _ => destruct H end;
  try contradiction; try lia;
  try (repeat split; first [lia | reflexivity | assumption | congruence]).

Ltac fd1_leaf := first [ solve [apply fdr_of_fdn; fd0] | solve [eauto with fdr nocore] ].

Ltac fd1 :=
  repeat (lazymatch goal with
          | |- fdr (ret_ _) _ => apply fdr_ret
          | |- fdr (bind _ _) _ => eapply fdr_bind; [fd1_leaf | intros ? ? ?]
          | |- fdr (when_ok _ _) _ => unfold when_ok
          | |- fdr (match ?x with _ => _ end) _ => destruct x
          | |- fdr (let _ := _ in _) _ => cbv zeta
          | |- fdr _ _ => eapply fdr_weaken; [fd1_leaf | intros ? ? ?]
          end).

#[export] Hint Resolve fdr_close fdr_open_read fdr_open_dir fdr_open_excl fdr_open_w fdr_open_a : fdr.

Lemma fdr_close_ret {A} (a : A) : fdr (k_close;; ret_ a) (fun _ d => d = -1).
Proof. fd1; fdfin. Qed.
#[export] Hint Resolve fdr_close_ret : fdr.

(* ---------- parents.c ---------- *)

Lemma fdn_mkdir_all ds : fdn (mkdir_all ds).
Proof. induction ds as [|d ds IH]; cbn [mkdir_all]; fd0. Qed.
#[export] Hint Resolve fdn_mkdir_all : fdn.

Lemma fdn_create_parents p : fdn (create_parents p).
Proof. unfold create_parents. fd0. Qed.
#[export] Hint Resolve fdn_create_parents : fdn.

Lemma fdn_rmdir_up ds : fdn (rmdir_up ds).
Proof. induction ds as [|d ds IH]; cbn [rmdir_up]; fd0. Qed.
#[export] Hint Resolve fdn_rmdir_up : fdn.

Lemma fdn_remove_empty_parents p : fdn (remove_empty_parents p).
Proof. unfold remove_empty_parents. fd0. Qed.
#[export] Hint Resolve fdn_remove_empty_parents : fdn.

Lemma fdn_clean_up p : fdn (clean_up p).
Proof. unfold clean_up. fd0. Qed.
#[export] Hint Resolve fdn_clean_up : fdn.

(* ---------- counter.c ---------- *)

Lemma fdn_read_digits fuel : forall d pos acc, fdn (read_digits fuel d pos acc).
Proof. induction fuel as [|fuel IH]; intros d pos acc; cbn [read_digits]; fd0. Qed.
#[export] Hint Resolve fdn_read_digits : fdn.

Lemma fdn_file_len d : fdn (file_len d).
Proof. unfold file_len. fd0. Qed.
#[export] Hint Resolve fdn_file_len : fdn.

(* read_counter closes the descriptor it opened, whatever the reads do *)
Lemma fdn_read_counter p : fdn (read_counter p).
Proof. unfold fdn, read_counter. fd1; fdfin. Qed.
#[export] Hint Resolve fdn_read_counter : fdn.

Lemma fdn_write_digits i ds : fdn (write_digits i ds).
Proof. induction ds as [|c ds IH]; cbn [write_digits]; fd0. Qed.
#[export] Hint Resolve fdn_write_digits : fdn.

Lemma fdn_write_counter p n : fdn (write_counter p n).
Proof. unfold fdn, write_counter. fd1; fdfin. Qed.
#[export] Hint Resolve fdn_write_counter : fdn.

(* ---------- sync.c ---------- *)

Lemma fdn_sendfile_loop fuel : forall out inp off size, fdn (sendfile_loop fuel out inp off size).
Proof.
  induction fuel as [|fuel IH]; intros out inp off size; cbn [sendfile_loop]; fd0.
Qed.
#[export] Hint Resolve fdn_sendfile_loop : fdn.

(* sync_file closes both descriptors on every path *)
Lemma fdn_sync_file dst src off : fdn (sync_file dst src off).
Proof. unfold fdn, sync_file. fd1; fdfin. Qed.
#[export] Hint Resolve fdn_sync_file : fdn.

(* ---------- journal.c ---------- *)

Lemma fdn_write_all fuel : forall i b, fdn (write_all fuel i b).
Proof. induction fuel as [|fuel IH]; intros i b; cbn [write_all]; fd0. Qed.
#[export] Hint Resolve fdn_write_all : fdn.

Lemma fdn_get_timestamp p : fdn (get_timestamp p).
Proof. unfold get_timestamp. fd0. Qed.
#[export] Hint Resolve fdn_get_timestamp : fdn.

Lemma fdn_note ev pid path j : fdn (note ev pid path j).
Proof. unfold note. fd0. Qed.
#[export] Hint Resolve fdn_note : fdn.

(* open_journal keeps exactly one descriptor when it returns a journal *)
Lemma fdr_open_journal path pat : fdr (open_journal path pat) (fun j d => d = jz j).
Proof. unfold open_journal. fd1; fdfin. Qed.
#[export] Hint Resolve fdr_open_journal : fdr.

(* ---------- the queue over system calls ---------- *)

Lemma fdn_read_entry_loop fuel : forall dir name size, fdn (read_entry_loop fuel dir name size).
Proof. induction fuel as [|fuel IH]; intros dir name size; cbn [read_entry_loop]; fd0. Qed.
#[export] Hint Resolve fdn_read_entry_loop : fdn.

Lemma fdn_read_entry q name : fdn (read_entry q name).
Proof. unfold read_entry. fd0. Qed.
#[export] Hint Resolve fdn_read_entry : fdn.

Lemma fdn_fill_bag q names : forall bag, fdn (fill_bag q names bag).
Proof. induction names as [|n names IH]; intros bag; cbn [fill_bag]; fd0. Qed.
#[export] Hint Resolve fdn_fill_bag : fdn.

(* ----- balance together with the error trace ----- *)

Definition notok (w : world) : Prop := tr_ok (w_tr w) = false.
(* "if phi then an error is pending" *)
Definition NK (phi : Prop) (w : world) : Prop := phi -> notok w.

Lemma fdj_is_ok P : fdj P is_ok (fun b d w => d = 0 /\ b = tr_ok (w_tr w) /\ P w).
Proof.
  apply fdj_state. intros o w Hp. exists (tr_ok (w_tr w)), (w_tr w). rewrite upd_tr_same.
  split; [reflexivity|auto].
Qed.

Lemma fdj_mod_tr P f :
  fdj P (mod_tr f) (fun _ d w => d = 0 /\ exists w0, P w0 /\ w = upd_tr (f (w_tr w0)) w0).
Proof.
  apply fdj_state. intros o w Hp. exists tt, (f (w_tr w)). split; [reflexivity|].
  split; [reflexivity|]. exists w. auto.
Qed.

Lemma fdj_throw P f : fdj P (throw f) (fun _ d w => d = 0 /\ notok w).
Proof.
  unfold throw. eapply fdj_conseq; [| |apply (fdj_mod_tr P (tr_push f))].
  - intros w H. exact H.
  - intros a d w [Hd [w0 [_ ->]]]. split; [assumption|reflexivity].
Qed.

(* predicates that depend on the world only through "is an error pending" *)
Definition okdep (P : world -> Prop) : Prop :=
  forall w w', tr_ok (w_tr w) = tr_ok (w_tr w') -> P w -> P w'.
(* "if phi then the trace status is b" *)
Definition TS (b : bool) (phi : Prop) (w : world) : Prop := phi -> tr_ok (w_tr w) = b.

Lemma okdep_TS b phi : okdep (TS b phi).
Proof. intros w w' E H Hphi. rewrite <- E. apply H. assumption. Qed.
Lemma okdep_NK phi : okdep (NK phi).
Proof. apply (okdep_TS false). Qed.
Lemma okdep_and P Q : okdep P -> okdep Q -> okdep (fun w => P w /\ Q w).
Proof. intros HP HQ w w' E [H1 H2]. split; [eapply HP|eapply HQ]; eauto. Qed.
Lemma okdep_pure (phi : Prop) : okdep (fun _ => phi).
Proof. intros w w' _ H. exact H. Qed.
#[export] Hint Resolve okdep_TS okdep_NK okdep_and okdep_pure : okdep.

(* trace operations that keep the status *)
Lemma fdj_keep_mod_tr P f :
  okdep P -> (forall t, tr_ok (f t) = tr_ok t) ->
  fdj P (mod_tr f) (fun _ d w => d = 0 /\ P w).
Proof.
  intros HP Hf. eapply fdj_conseq; [| |apply (fdj_mod_tr P f)].
  - intros w H. exact H.
  - intros a d w [Hd [w0 [H0 ->]]]. split; [assumption|].
    apply (HP w0); [|assumption]. symmetry. apply Hf.
Qed.

Lemma tr_ok_try t : tr_ok (tr_try t) = tr_ok t.
Proof. unfold tr_try. destruct (tr_ok t) eqn:E; exact E. Qed.

Lemma tr_ok_rethrow_context s t : tr_ok (tr_rethrow_context s t) = tr_ok t.
Proof.
  unfold tr_rethrow_context. destruct (tr_ok t) eqn:E.
  - rewrite Bool.andb_false_r. exact E.
  - destruct (_ && _); [reflexivity|exact E].
Qed.

Lemma tr_ok_finally_rethrow_static m t : tr_ok (tr_finally_rethrow_static m t) = tr_ok t.
Proof.
  unfold tr_finally_rethrow_static, tr_decrement.
  destruct (t_post t); cbv beta iota; [|reflexivity].
  change (tr_ok {| t_frames := t_frames t; t_pre := Nat.pred (t_pre t); t_post := 0 |}) with (tr_ok t).
  destruct (tr_ok t) eqn:E; cbn [negb andb]; [exact E|reflexivity].
Qed.

Lemma fdj_keep_try P : okdep P -> fdj P try_ (fun _ d w => d = 0 /\ P w).
Proof. intros H. apply fdj_keep_mod_tr; [assumption|apply tr_ok_try]. Qed.
Lemma fdj_keep_rethrow_context P s : okdep P -> fdj P (rethrow_context s) (fun _ d w => d = 0 /\ P w).
Proof. intros H. apply fdj_keep_mod_tr; [assumption|apply tr_ok_rethrow_context]. Qed.
Lemma fdj_keep_finally_rethrow_static P m :
  okdep P -> fdj P (finally_rethrow_static m) (fun _ d w => d = 0 /\ P w).
Proof. intros H. apply fdj_keep_mod_tr; [assumption|apply tr_ok_finally_rethrow_static]. Qed.

(* a system call does not touch the trace *)
Lemma fdj_keep_sys {A} P c (perform : fs -> ret * A * fs) (on_fail : errno -> A) (R : A -> Z -> Prop) :
  okdep P -> fdr (sys c perform on_fail) R ->
  fdj P (sys c perform on_fail) (fun a d w => R a d /\ P w).
Proof.
  intros HP H. apply fdj_intro. intros o w Hp.
  pose proof (fdj_elim _ _ _ H o w I) as H1. cbv beta in H1.
  assert (Ht : forall a w', sys c perform on_fail o w = (Some a, w') -> w_tr w' = w_tr w).
  { unfold sys. intros a w'. destruct (o (w_n w)); try destruct (perform (w_fs w)) as [[r x] f'];
      intros E; inversion E; reflexivity. }
  destruct (sys c perform on_fail o w) as [[a|] w'] eqn:E; [|exact I].
  split; [exact H1|]. apply (HP w); [|assumption]. rewrite (Ht a w' eq_refl). reflexivity.
Qed.

Lemma fdj_when_ok {A} (dflt : A) (m : M A) (R : A -> Z -> world -> Prop) :
  (forall w, notok w -> R dflt 0 w) ->
  fdj (fun _ => True) m R -> fdj (fun _ => True) (when_ok dflt m) R.
Proof.
  intros Hd Hm. unfold when_ok. eapply fdj_bind; [apply fdj_is_ok|]. intros b d. cbv beta.
  destruct b.
  - apply fdj_pure with (phi := d = 0); [tauto|]. intros ->.
    eapply fdj_conseq; [| |exact Hm]; cbv beta; auto.
  - apply fdj_ret. intros w [-> [Hb _]]. apply Hd. symmetry. exact Hb.
Qed.

(* fill_bag does nothing when an error is pending *)
Lemma fdj_NK_fill_bag phi q names bag :
  fdj (NK phi) (fill_bag q names bag) (fun _ d w => d = 0 /\ NK phi w).
Proof.
  destruct names as [|n names]; cbn [fill_bag].
  - apply fdj_ret. auto.
  - eapply fdj_bind; [apply fdj_is_ok|]. intros b d. cbv beta. destruct b; cbn [negb].
    + apply fdj_pure with (phi := ~ phi).
      { intros w [_ [Hb Hn]] Hphi. specialize (Hn Hphi). unfold notok in Hn. congruence. }
      intros Hnphi. apply fdj_pure with (phi := d = 0); [tauto|]. intros ->.
      eapply fdj_conseq with (P := fun _ => True) (R := fun _ d _ => d = 0); [auto| |].
      * intros a d w ->. split; [reflexivity|]. intros Hphi. contradiction.
      * apply fdj_of_fdr. fd1; fdfin.
    + apply fdj_ret. intros w [-> [_ Hn]]. auto.
Qed.

(* load_linq: +1 (the directory descriptor) when a queue is returned.  When it
   fails an error is pending and the balance is 0 or 1: the directory
   descriptor obtained by k_open_dir is NOT closed when reading an entry fails
   afterwards (see load_linq_leak below). *)
Definition loaded_w (r : option qmem) (d : Z) (w : world) : Prop :=
  match r with Some _ => d = 1 | None => 0 <= d <= 1 /\ notok w end.

Lemma fdj_ll_tail path (q0 : qmem) (sorted : list str) (mk : list str -> qmem) :
  fdj (fun _ => True)
    (do d <- k_open_dir path;
     match d with inr e => throw_errno e | inl _ => ret_ tt end;;
     is_ok;;
     (do bag <- fill_bag q0 sorted [];
      do b' <- is_ok;
      if b' then ret_ (Some (mk bag)) else ret_ None))
    loaded_w.
Proof.
  eapply fdj_bind_r; [apply fdr_open_dir|intros dd d2 H2]. cbv beta in H2.
  (* an error is pending unless the directory was opened *)
  eapply fdj_bind_keep with (P' := NK (d2 = 0)).
  { destruct dd as [x|e].
    - apply fdj_ret. intros w _. split; [reflexivity|]. intros E. lia.
    - unfold throw_errno. eapply fdj_conseq; [| |apply (fdj_throw (fun _ => True))].
      + auto.
      + intros a d w [Hd Hn]. split; [assumption|]. intros _. exact Hn. }
  intros _.
  eapply fdj_bind_keep with (P' := NK (d2 = 0)).
  { eapply fdj_conseq; [| |apply (fdj_is_ok (NK (d2 = 0)))]; [auto|]. cbv beta. tauto. }
  intros _.
  eapply fdj_bind_keep; [apply fdj_NK_fill_bag|]. intros bag.
  eapply fdj_bind; [apply fdj_is_ok|]. intros b d. cbv beta.
  destruct b.
  - apply fdj_ret. intros w [-> [Hb Hn]]. unfold loaded_w.
    destruct dd as [x|e]; [lia|]. exfalso. specialize (Hn H2). unfold notok in Hn. congruence.
  - apply fdj_ret. intros w [-> [Hb _]]. unfold loaded_w. split.
    + destruct dd; lia.
    + symmetry. exact Hb.
Qed.

Lemma fdj_throw_none e :
  fdj (fun _ => True) (throw_errno e;; ret_ (@None qmem)) loaded_w.
Proof.
  unfold throw_errno. eapply fdj_bind_keep; [apply fdj_throw|]. intros _.
  apply fdj_ret. intros w Hw. split; [lia|exact Hw].
Qed.

Lemma fdj_load_linq_aux fuel : forall tc path deb lg,
  fdj (fun _ => True) (load_linq_aux tc fuel path deb lg) loaded_w.
Proof.
  induction fuel as [|fuel IH]; intros tc path deb lg; cbn [load_linq_aux].
  all: apply fdj_when_ok; [intros w Hw; split; [lia|exact Hw]|].
  all: eapply fdj_bind_r; [fd1_leaf|intros r d1 H1]; cbv beta in H1; subst d1.
  all: destruct r as [names|e]; [apply fdj_ll_tail|].
  all: destruct e, tc; try apply fdj_throw_none.
  eapply fdj_bind_r; [fd1_leaf|intros ? d1 H1]; cbv beta in H1; subst d1.
  eapply fdj_bind_r; [fd1_leaf|intros b d1 H1]; cbv beta in H1; subst d1.
  eapply fdj_bind_r; [fd1_leaf|intros ? d1 H1]; cbv beta in H1; subst d1.
  apply IH.
Qed.

Lemma fdj_load_linq path deb lg : fdj (fun _ => True) (load_linq path deb lg) loaded_w.
Proof. apply fdj_load_linq_aux. Qed.

Lemma fdr_load_linq path deb lg : fdr (load_linq path deb lg) loaded.
Proof.
  unfold fdr. eapply fdj_conseq; [| |apply fdj_load_linq]; [auto|].
  intros q d w H. destruct q; [exact H|]. destruct H as [H _]. exact H.
Qed.
#[export] Hint Resolve fdr_load_linq : fdr.

Lemma fdn_q_push path meta q : fdn (q_push path meta q).
Proof. unfold q_push. fd0. Qed.
#[export] Hint Resolve fdn_q_push : fdn.

Lemma fdn_q_pop_head q : fdn (q_pop_head q).
Proof. unfold q_pop_head. fd0. Qed.
#[export] Hint Resolve fdn_q_pop_head : fdn.

Lemma fdn_q_get_head fuel : forall q, fdn (q_get_head fuel q).
Proof. induction fuel as [|fuel IH]; intros q; cbn [q_get_head]; fd0. Qed.
#[export] Hint Resolve fdn_q_get_head : fdn.

(* ---------- elfinterp.c ---------- *)

Lemma fdn_read_full i pos want : fdn (read_full i pos want).
Proof. unfold read_full. fd0. Qed.
#[export] Hint Resolve fdn_read_full : fdn.

Lemma fdn_phdr_loop count : forall i pos, fdn (phdr_loop count i pos).
Proof. induction count as [|count IH]; intros i pos; cbn [phdr_loop]; fd0. Qed.
#[export] Hint Resolve fdn_phdr_loop : fdn.

Lemma fdn_get_elf_interpreter i : fdn (get_elf_interpreter i).
Proof. unfold get_elf_interpreter, get_elf_interpreter_raw. fd0. Qed.
#[export] Hint Resolve fdn_get_elf_interpreter : fdn.

(* ---------- sync_shallow_tree ---------- *)

Lemma fdn_tree_loop ents : forall src_len dst filt, fdn (tree_loop ents src_len dst filt).
Proof. induction ents as [|[p k] ents IH]; intros src_len dst filt; cbn [tree_loop]; fd0. Qed.
#[export] Hint Resolve fdn_tree_loop : fdn.

(* the destination descriptor is closed on every path: when the open failed
   an error is pending, so the branch that closes unconditionally is not taken *)
Lemma fdn_sync_shallow_tree rev dst src filt : fdn (sync_shallow_tree rev dst src filt).
Proof.
  unfold fdn, fdr, sync_shallow_tree.
  eapply fdj_bind_r; [fd1_leaf|intros ? d1 H1]; cbv beta in H1; subst d1.
  eapply fdj_bind_r; [fd1_leaf|intros b d1 H1]; cbv beta in H1; subst d1.
  eapply fdj_bind_r; [fd1_leaf|intros ? d1 H1]; cbv beta in H1; subst d1.
  eapply fdj_bind; [apply fdj_is_ok|intros b1 d4]. cbv beta.
  eapply fdj_bind with
    (R1 := fun (opened : bool) d w => d4 = 0 /\ d = (if opened then 1 else 0) /\ (opened = false -> notok w)).
  { destruct b1.
    - apply fdj_pure with (phi := d4 = 0); [tauto|]. intros ->.
      eapply fdj_bind_r; [apply fdr_open_read|intros r d H]. cbv beta in H.
      destruct r as [x|e].
      + apply fdj_ret. intros w _. repeat split; [lia|discriminate].
      + unfold throw_errno. eapply fdj_bind_keep; [apply fdj_throw|]. intros _.
        apply fdj_ret. intros w Hw. repeat split; [lia|auto].
    - apply fdj_ret. intros w [-> [Hb _]]. repeat split. intros _. symmetry. exact Hb. }
  intros opened d5.
  eapply fdj_bind; [apply fdj_is_ok|intros b2 d6]. cbv beta.
  apply fdj_pure with
    (phi := d4 = 0 /\ d6 = 0 /\ d5 = (if opened then 1 else 0) /\ (b2 = true -> opened = true)).
  { intros w [? [Hb [? [? Hn]]]]. repeat split; auto. intros ->. destruct opened; [reflexivity|].
    specialize (Hn eq_refl). unfold notok in Hn. congruence. }
  intros [-> [-> [-> Hop]]].
  apply fdj_conseq with (P := fun _ => True) (R := fun _ d _ => d = - (if opened then 1 else 0)); [auto| |].
  { intros x d w ->. lia. }
  apply fdj_of_fdr.
  destruct b2; [rewrite (Hop eq_refl)|destruct opened]; cbn [negb]; fd1; fdfin.
Qed.
#[export] Hint Resolve fdn_sync_shallow_tree : fdn.

(* ---------- handler.c ---------- *)

Lemma fdn_record_event ev pid path h : fdn (record_event ev pid path h).
Proof. unfold record_event. fd0. Qed.
#[export] Hint Resolve fdn_record_event : fdn.

Lemma fdn_project_store_loop fuel : forall rev sp unstable head cfg ev,
  fdn (project_store_loop fuel rev sp unstable head cfg ev).
Proof.
  induction fuel as [|fuel IH]; intros rev sp unstable head cfg ev; cbn [project_store_loop]; fd0.
Qed.
#[export] Hint Resolve fdn_project_store_loop : fdn.

Lemma fdn_file_store_loop fuel : forall sp head offp off ish cfg,
  fdn (file_store_loop fuel sp head offp off ish cfg).
Proof.
  induction fuel as [|fuel IH]; intros sp head offp off ish cfg; cbn [file_store_loop]; fd0.
Qed.
#[export] Hint Resolve fdn_file_store_loop : fdn.

(* descriptors held by a handler: the queue directory and, if any, the journal *)
Definition held (h : handler) : Z := 1 + jz (h_journal h).

(* neutral, and the handler keeps its journal (and its configuration path) *)
Definition keeps (h : handler) (h' : handler) (d : Z) : Prop :=
  d = 0 /\ h_journal h' = h_journal h /\ h_cfg_path h' = h_cfg_path h.

Lemma fdr_handle_timeout_loop fuel : forall rev h,
  fdr (handle_timeout_loop fuel rev h) (fun r d => keeps h (snd r) d).
Proof.
  induction fuel as [|fuel IH]; intros rev h; cbn [handle_timeout_loop]; unfold keeps in *.
  - fd1; fdfin.
  - fd1; cbn [snd set_q h_journal h_cfg_path] in *; fdfin.
Qed.

Lemma fdr_handle_timeout rev h : fdr (handle_timeout rev h) (fun r d => keeps h (snd r) d).
Proof.
  unfold handle_timeout.
  eapply fdr_bind; [apply fdr_handle_timeout_loop|intros r d1 [H1 [H2 H3]]].
  fd1. cbv beta in *. unfold keeps. split; [lia|]. destruct a; auto.
Qed.

Lemma fdr_handle_open_exec pid path h : fdr (handle_open_exec pid path h) (keeps h).
Proof.
  unfold handle_open_exec, keeps. unfold when_ok.
  eapply fdr_bind; [fd1_leaf|intros b d1 H1]. destruct b; [|fd1; fdfin].
  eapply fdr_bind; [fd1_leaf|intros f d2 H2].
  eapply fdr_bind with
    (R1 := fun (r : handler * option str) d =>
             d = 0 /\ h_journal (fst r) = h_journal h /\ h_cfg_path (fst r) = h_cfg_path h).
  { fd1; cbn [fst h_journal h_cfg_path]; fdfin. }
  intros r d3 [H3 [H4 H5]]. fd1; fdfin.
Qed.

Lemma fdr_push_to_linq pid path h :
  fdr (push_to_linq pid path h)
      (fun r d => d = 0 /\ h_journal (snd r) = h_journal h /\ h_cfg_path (snd r) = h_cfg_path h).
Proof.
  unfold push_to_linq. fd1; cbn [snd set_q h_journal h_cfg_path]; fdfin.
Qed.

(* releasing the handler gives back everything it holds *)
Lemma fdr_free_handler h : fdr (free_handler h) (fun _ d => d = - held h).
Proof.
  unfold free_handler, held. destruct (h_journal h); fd1; fdfin.
Qed.

(* ---------- load_handler / reload: balance together with the trace ---------- *)

(* open_journal: the journal is returned exactly when its descriptor is held;
   no journal although one is configured means an error is pending; a journal
   was opened only if no error is pending *)
Definition journal_w (path : option str) (j : option journal) (d : Z) (w : world) : Prop :=
  d = jz j /\ (path = None -> j = None) /\
  TS false (j = None /\ path <> None) w /\ TS true (j <> None) w.

Lemma fdj_open_journal path pat : fdj (fun _ => True) (open_journal path pat) (journal_w path).
Proof.
  unfold open_journal, journal_w, TS. destruct path as [p|].
  2:{ apply fdj_ret. intros w _. repeat split; try tauto; try (intros [_ H]; congruence). }
  eapply fdj_bind_r; [fd1_leaf|intros ? d1 H1]; cbv beta in H1; subst d1.
  eapply fdj_bind; [apply fdj_is_ok|intros b d2]. cbv beta.
  destruct b; cbn [negb].
  - apply fdj_pure with (phi := d2 = 0); [tauto|]. intros ->.
    apply fdj_pre with (P := TS true True); [intros w [_ [Hb _]] _; symmetry; exact Hb|].
    eapply fdj_bind; [unfold k_open_a, k_open_gen; apply fdj_keep_sys; [apply okdep_TS|apply fdr_open_a]|].
    intros r d3. cbv beta. apply fdj_pure with (phi := created r d3); [tauto|]. unfold created. intros H3.
    destruct r as [[i|p']|e]; [|contradiction|].
    + apply fdj_ret. intros w [_ Hok]. subst d3. repeat split; try (intros; discriminate).
      * intros [H _]. discriminate.
      * intros _. apply Hok. exact I.
    + unfold throw_errno. eapply fdj_bind_keep; [apply fdj_throw|]. intros _.
      apply fdj_ret. intros w Hw. subst d3. repeat split; try (intros; discriminate); try tauto.
      all: try (intros _; exact Hw).
  - apply fdj_ret. intros w [-> [Hb _]]. repeat split; try (intros; discriminate); try tauto.
    all: try (intros _; symmetry; exact Hb).
Qed.

(* load_handler: on success the handler holds the queue directory and, exactly
   when a journal is configured, the journal; on failure at most the queue
   directory descriptor of a failed load_linq is left open *)
Definition load_handler_post (cfg : config) (cp : option str) (r : option handler) (d : Z) : Prop :=
  match r with
  | Some h => d = held h /\ (h_journal h = None <-> c_journal_path cfg = None) /\ h_cfg_path h = cp
  | None => 0 <= d <= 1
  end.

Lemma fdr_load_handler cfg cp cpl : fdr (load_handler cfg cp cpl) (load_handler_post cfg cp).
Proof.
  unfold fdr, load_handler.
  eapply fdj_bind_r; [fd1_leaf|intros ? d1 H1]; cbv beta in H1; subst d1.
  eapply fdj_bind_r; [apply fdr_load_linq|intros q dq Hq]. unfold loaded in Hq.
  eapply fdj_bind_r; [fd1_leaf|intros ? d1 H1]; cbv beta in H1; subst d1.
  eapply fdj_bind_r; [fd1_leaf|intros ? d1 H1]; cbv beta in H1; subst d1.
  eapply fdj_bind_r; [fd1_leaf|intros ? d1 H1]; cbv beta in H1; subst d1.
  eapply fdj_bind; [apply fdj_open_journal|intros j dj].
  apply fdj_pure with (phi := dj = jz j /\ (c_journal_path cfg = None -> j = None));
    [unfold journal_w; tauto|]. intros [-> Hjn].
  apply fdj_pre with (P := TS false (j = None /\ c_journal_path cfg <> None));
    [unfold journal_w; tauto|].
  eapply fdj_bind_keep with (P' := TS false (j = None /\ c_journal_path cfg <> None)).
  { destruct (c_journal_path cfg).
    - apply fdj_keep_rethrow_context. apply okdep_TS.
    - apply fdj_ret. intros w H. split; [reflexivity|exact H]. }
  intros _.
  eapply fdj_bind_keep; [apply fdj_keep_finally_rethrow_static; apply okdep_TS|]. intros _.
  eapply fdj_bind; [apply fdj_is_ok|intros b d]. cbv beta.
  apply fdj_pure with (phi := d = 0 /\ (b = true -> j = None -> c_journal_path cfg = None)).
  { intros w [-> [Hb Hn]]. split; [reflexivity|]. intros -> Hj.
    destruct (c_journal_path cfg) eqn:E; [|reflexivity]. exfalso.
    assert (Hk : tr_ok (w_tr w) = false) by (apply Hn; split; [assumption|discriminate]). congruence. }
  intros [-> Hb]. cbv beta. apply fdj_of_fdr. unfold load_handler_post, held.
  destruct j, b, q; fd1; cbn [h_journal h_cfg_path]; fdfin.
  all: try (split; [intros; discriminate|]).
  all: try (intros E; specialize (Hjn E); discriminate).
  all: try tauto.
  split; [lia|]. split; [|reflexivity]. split; [intros _; apply Hb; reflexivity|reflexivity].
Qed.

(* reload.  Either the balance is exactly the change of what the handler holds
   (old journal closed, new journal opened; old queue descriptor closed when a
   new queue was loaded), or an error is pending, the handler is unchanged as
   far as descriptors go, and at most one descriptor is left open: the new
   queue's directory descriptor (new queue loaded but the new journal cannot
   be opened, or the leak inside a failed load_linq). *)
Definition reload_post (h h' : handler) (d : Z) (w : world) : Prop :=
  d = held h' - held h \/ (notok w /\ h_journal h' = h_journal h /\ 0 <= d <= 1).

Lemma fdj_reload nc h : fdj (fun _ => True) (reload nc h) (reload_post h).
Proof.
  unfold reload, reload_post.
  destruct (h_cfg_path h) as [cp|]; [|apply fdj_ret; intros; left; lia].
  eapply fdj_bind_r; [fd1_leaf|intros ? d1 H1]; cbv beta in H1; subst d1.
  eapply fdj_bind_r; [fd1_leaf|intros ? d1 H1]; cbv beta in H1; subst d1.
  eapply fdj_bind_r; [fd1_leaf|intros ? d1 H1]; cbv beta in H1; subst d1.
  eapply fdj_bind_r; [fd1_leaf|intros ? d1 H1]; cbv beta in H1; subst d1.
  destruct nc as [nc|]; [|apply fdj_ret; intros; left; lia].
  eapply fdj_bind_r; [fd1_leaf|intros b d1 H1]; cbv beta in H1; subst d1.
  (* the new queue *)
  eapply fdj_bind with
    (R1 := fun (nq : option qmem) d w =>
             0 <= d <= 1 /\ (nq <> None -> d = 1) /\ TS false (nq = None /\ d <> 0) w).
  { destruct (b && negb (str_eqb (c_queue_path (h_cfg h)) (c_queue_path nc))).
    - eapply fdj_bind_r; [fd1_leaf|intros ? d1 H1]; cbv beta in H1; subst d1.
      eapply fdj_bind; [apply fdj_load_linq|intros q dq].
      apply fdj_pure with (phi := 0 <= dq <= 1 /\ (q <> None -> dq = 1)).
      { unfold loaded_w. intros w H. destruct q; [split; [lia|auto]|]. split; [tauto|congruence]. }
      intros [Hr Hq].
      apply fdj_pre with (P := TS false (q = None /\ dq <> 0)).
      { unfold loaded_w. intros w H [-> _]. apply H. }
      eapply fdj_bind_keep; [apply fdj_keep_rethrow_context; apply okdep_TS|]. intros _.
      eapply fdj_bind_keep; [apply fdj_keep_finally_rethrow_static; apply okdep_TS|]. intros _.
      apply fdj_ret. intros w Hn. split; [lia|]. split; [intros Hne; specialize (Hq Hne); lia|].
      intros [E Hd]. apply Hn. split; [assumption|lia].
    - apply fdj_ret. intros w _. split; [lia|]. split; [congruence|]. intros [_ Hd]. lia. }
  intros nq dq.
  eapply fdj_bind; [apply fdj_is_ok|intros b2 d2]. cbv beta.
  apply fdj_pure with
    (phi := d2 = 0 /\ 0 <= dq <= 1 /\ (nq <> None -> dq = 1) /\ (b2 = true -> nq = None -> dq = 0)).
  { intros w [-> [Hb [Hr [Hq Hn]]]]. repeat split; auto; try lia. intros -> ->.
    destruct (Z.eq_dec dq 0) as [E|E]; [assumption|]. exfalso.
    assert (Hk : tr_ok (w_tr w) = false) by (apply Hn; auto). congruence. }
  intros [-> [Hr [Hq Hb2]]].
  (* the new journal *)
  eapply fdj_bind with
    (R1 := fun (nj : option journal) d w =>
             d = jz nj /\ TS false (b2 = false) w /\ TS true (nj <> None) w).
  { destruct b2.
    - eapply fdj_bind_r; [fd1_leaf|intros ? d1 H1]; cbv beta in H1; subst d1.
      eapply fdj_bind; [apply fdj_open_journal|intros j dj].
      apply fdj_pure with (phi := dj = jz j); [unfold journal_w; tauto|]. intros ->.
      apply fdj_pre with (P := TS true (j <> None)); [unfold journal_w; tauto|].
      eapply fdj_bind_keep with (P' := TS true (j <> None)).
      { destruct (c_journal_path nc).
        - apply fdj_keep_rethrow_context. apply okdep_TS.
        - apply fdj_ret. intros w H. split; [reflexivity|exact H]. }
      intros _.
      eapply fdj_bind_keep; [apply fdj_keep_finally_rethrow_static; apply okdep_TS|]. intros _.
      apply fdj_ret. intros w H. split; [lia|]. split; [intros E; discriminate|exact H].
    - apply fdj_ret. intros w [_ [Hb _]]. split; [reflexivity|]. split.
      + intros _. symmetry. exact Hb.
      + intros E. congruence. }
  intros nj dj.
  eapply fdj_bind; [apply fdj_is_ok|intros b3 d3]. cbv beta.
  destruct b3.
  - apply fdj_pure with (phi := d3 = 0 /\ dj = jz nj /\ b2 = true).
    { intros w [-> [Hb [-> [Hn _]]]]. repeat split. destruct b2; [reflexivity|].
      specialize (Hn eq_refl). congruence. }
    intros [-> [-> ->]]. specialize (Hb2 eq_refl).
    apply fdj_conseq with (P := fun _ => True)
      (R := fun (h' : handler) d _ => d = - jz (h_journal h) - jz nq /\ h_journal h' = nj); [auto| |].
    + intros h' d w [-> Hj]. left. unfold held. rewrite Hj.
      destruct nq; unfold jz in *.
      * assert (dq = 1) by (apply Hq; discriminate). lia.
      * specialize (Hb2 eq_refl). lia.
    + apply fdj_of_fdr. destruct (h_journal h), nq; fd1; cbn [h_journal]; fdfin.
  - apply fdj_ret. intros w [-> [Hb [-> [_ Hok]]]]. right.
    split; [symmetry; exact Hb|]. split; [reflexivity|].
    destruct nj; [|unfold jz; lia]. exfalso.
    assert (Hk : tr_ok (w_tr w) = true) by (apply Hok; discriminate). congruence.
Qed.

(* handle_close_write, complete statement *)
Lemma fdj_handle_close_write pid path nc h :
  fdj (fun _ => True) (handle_close_write pid path nc h) (reload_post h).
Proof.
  unfold handle_close_write.
  apply fdj_when_ok; [intros w Hw; left; lia|].
  eapply fdj_bind_r; [apply fdr_push_to_linq|intros r d1 [H1 [Hj Hc]]]. subst d1.
  destruct r as [pushed h1]. cbn [snd] in Hj, Hc.
  eapply fdj_bind_r; [fd1_leaf|intros ? d1 H1]; cbv beta in H1; subst d1.
  eapply fdj_bind_r; [fd1_leaf|intros b d1 H1]; cbv beta in H1; subst d1.
  assert (Hret : fdj (fun _ => True) (ret_ h1)
                   (fun (b0 : handler) (d2 : Z) (w : world) => reload_post h b0 (0 + (0 + (0 + d2))) w)).
  { apply fdj_ret. intros w _. left. unfold held. rewrite Hj. lia. }
  destruct b; [|exact Hret].
  destruct (h_cfg_path h1) as [cp|]; [|exact Hret].
  destruct (str_eqb path cp); [|exact Hret].
  eapply fdj_conseq; [| |apply (fdj_reload nc h1)]; [auto|].
  intros h' d w. unfold reload_post, held. rewrite Hj. intros [H|H]; [left|right]; [lia|].
  replace (0 + (0 + (0 + d))) with d by lia. exact H.
Qed.

(* handle_close_write when no reload happens: no configuration path, or the
   written file is not the configuration file *)
Lemma fdr_handle_close_write_plain pid path nc h :
  (forall cp, h_cfg_path h = Some cp -> str_eqb path cp = false) ->
  fdr (handle_close_write pid path nc h) (keeps h).
Proof.
  intros Hcp. unfold handle_close_write, keeps. unfold when_ok.
  eapply fdr_bind; [fd1_leaf|intros b0 d0 H0]. destruct b0; [|fd1; fdfin].
  eapply fdr_bind; [apply fdr_push_to_linq|intros r d1 [H1 [Hj Hc]]].
  destruct r as [pushed h1]. cbn [snd] in Hj, Hc.
  eapply fdr_bind; [fd1_leaf|intros ? d2 H2].
  eapply fdr_bind; [fd1_leaf|intros b d3 H3].
  destruct b; [|fd1; fdfin].
  destruct (h_cfg_path h1) as [cp|] eqn:E; [|fd1; fdfin].
  rewrite (Hcp cp) by congruence. fd1; fdfin.
Qed.

(* the part of handle_close_write before the reload *)
Lemma fdr_push_and_record pid path ev h :
  fdr (do r <- push_to_linq pid path h; record_event ev pid path (snd r);; ret_ (snd r)) (keeps h).
Proof.
  unfold keeps. eapply fdr_bind; [apply fdr_push_to_linq|intros r d1 [H1 [Hj Hc]]]. fd1; fdfin.
Qed.

(* ---------- sequences of events ---------- *)

Inductive event :=
| EvTimeout (reverse : bool)
| EvExec (pid : N) (path : str)
| EvWrite (pid : N) (path : str) (new_cfg : option config).

Definition handle_event (e : event) (h : handler) : M handler :=
  match e with
  | EvTimeout rev => do r <- handle_timeout rev h; ret_ (snd r)
  | EvExec pid path => handle_open_exec pid path h
  | EvWrite pid path nc => handle_close_write pid path nc h
  end.

Fixpoint handle_events (es : list event) (h : handler) : M handler :=
  match es with
  | [] => ret_ h
  | e :: es' => do h' <- handle_event e h; handle_events es' h'
  end.

(* without a configuration path (no reloads): any number of events is neutral *)
Lemma fdr_handle_events_plain es : forall h,
  h_cfg_path h = None -> fdr (handle_events es h) (keeps h).
Proof.
  induction es as [|e es IH]; intros h Hc; cbn [handle_events]; unfold keeps.
  - fd1; fdfin.
  - eapply fdr_bind with (R1 := keeps h).
    + destruct e as [rev|pid path|pid path nc]; cbn [handle_event].
      * eapply fdr_bind; [apply fdr_handle_timeout|intros r d1 H1]. fd1. unfold keeps in *. fdfin.
      * apply fdr_handle_open_exec.
      * apply fdr_handle_close_write_plain. intros cp E. congruence.
    + intros h1 d1 [H1 [Hj Hp]].
      eapply fdr_weaken; [apply (IH h1); congruence|].
      intros h2 d2 [H2 [Hj2 Hp2]]. repeat split; [lia|congruence|congruence].
Qed.

(* with reloads: when an error is pending every operation returns at once *)
Lemma bind_is_ok {B} (k : bool -> M B) o w : bind is_ok k o w = k (tr_ok (w_tr w)) o w.
Proof. reflexivity. Qed.

Lemma when_ok_notok {A} (dflt : A) m o w : notok w -> when_ok dflt m o w = (Some dflt, w).
Proof. intros H. unfold when_ok. rewrite bind_is_ok, H. reflexivity. Qed.

Lemma handle_timeout_notok rev h o w : notok w -> handle_timeout rev h o w = (Some (TError, h), w).
Proof.
  intros H. unfold handle_timeout. cbn [handle_timeout_loop]. unfold bind at 1.
  rewrite bind_is_ok, H. cbn [negb]. cbv beta iota delta [ret_]. rewrite bind_is_ok, H. reflexivity.
Qed.

Lemma handle_event_notok e h o w : notok w -> handle_event e h o w = (Some h, w).
Proof.
  intros H. destruct e as [rev|pid path|pid path nc]; cbn [handle_event].
  - unfold bind at 1. rewrite handle_timeout_notok by assumption. reflexivity.
  - unfold handle_open_exec. apply when_ok_notok. assumption.
  - unfold handle_close_write. apply when_ok_notok. assumption.
Qed.

Lemma handle_events_notok es : forall h o w, notok w -> handle_events es h o w = (Some h, w).
Proof.
  induction es as [|e es IH]; intros h o w H; cbn [handle_events]; [reflexivity|].
  unfold bind. rewrite handle_event_notok by assumption. apply IH. assumption.
Qed.

Fixpoint writes (es : list event) : Z :=
  match es with
  | [] => 0
  | EvWrite _ _ _ :: es' => 1 + writes es'
  | _ :: es' => writes es'
  end.

Lemma writes_nonneg es : 0 <= writes es.
Proof. induction es as [|e es IH]; [cbn [writes]; lia|]. destruct e; cbn [writes]; lia. Qed.

(* [fd_count - held] is the number of descriptors not owned by the handler.
   After any sequence of events it is unchanged, unless an error is pending,
   in which case it grew by at most the number of configuration writes. *)
Definition events_post (es : list event) (h h' : handler) (d : Z) (w : world) : Prop :=
  d = held h' - held h \/ (notok w /\ 0 <= d - (held h' - held h) <= writes es).

Lemma fdj_pre_or {A} (P1 P2 : world -> Prop) (m : M A) R :
  fdj P1 m R -> fdj P2 m R -> fdj (fun w => P1 w \/ P2 w) m R.
Proof.
  intros H1 H2. apply fdj_intro. intros o w [H|H]; [apply (fdj_elim _ _ _ H1)|apply (fdj_elim _ _ _ H2)]; assumption.
Qed.

Lemma fdj_handle_event e h :
  fdj (fun _ => True) (handle_event e h) (events_post [e] h).
Proof.
  destruct e as [rev|pid path|pid path nc]; cbn [handle_event]; unfold events_post.
  - eapply fdj_conseq with (P := fun _ => True) (R := fun h' d _ => keeps h h' d); [auto| |].
    + intros h' d w [-> [Hj _]]. left. unfold held. rewrite Hj. lia.
    + apply fdj_of_fdr. eapply fdr_bind; [apply fdr_handle_timeout|intros r d1 H1]. fd1. unfold keeps in *. fdfin.
  - eapply fdj_conseq with (P := fun _ => True) (R := fun h' d _ => keeps h h' d); [auto| |].
    + intros h' d w [-> [Hj _]]. left. unfold held. rewrite Hj. lia.
    + apply fdj_of_fdr. apply fdr_handle_open_exec.
  - eapply fdj_conseq; [| |apply fdj_handle_close_write]; [auto|].
    intros h' d w [H|[Hn [Hj Hd]]]; [left; assumption|right].
    split; [assumption|]. unfold held. rewrite Hj. cbn [writes]. lia.
Qed.

Lemma fdj_handle_events es : forall h,
  fdj (fun _ => True) (handle_events es h) (events_post es h).
Proof.
  induction es as [|e es IH]; intros h; cbn [handle_events]; unfold events_post.
  - apply fdj_ret. intros w _. left. lia.
  - eapply fdj_bind; [apply fdj_handle_event|]. intros h1 d1. unfold events_post.
    apply fdj_pre_or.
    + apply fdj_pure with (phi := d1 = held h1 - held h); [auto|]. intros ->.
      eapply fdj_conseq; [| |apply (IH h1)]; [intros; exact I|].
      intros h2 d2 w [H|[Hn Hd]]; [left; lia|right]. split; [assumption|].
      destruct e; cbn [writes]; lia.
    + apply fdj_intro. intros o w [Hn Hd]. rewrite handle_events_notok by assumption.
      right. split; [assumption|]. replace (fd_count w - fd_count w) with 0 by lia.
      pose proof (writes_nonneg es). destruct e; cbn [writes] in *; lia.
Qed.

(* a whole session without configuration path: load, any events, free *)
Definition session (cfg : config) (cpl : nat) (es : list event) : M bool :=
  do r <- load_handler cfg None cpl;
  match r with
  | None => ret_ false
  | Some h => do h' <- handle_events es h; free_handler h';; ret_ true
  end.

Lemma fdr_session cfg cpl es :
  fdr (session cfg cpl es) (fun loaded_ok d => if loaded_ok then d = 0 else 0 <= d <= 1).
Proof.
  unfold session. eapply fdr_bind; [apply fdr_load_handler|intros r d1 H1]. unfold load_handler_post in H1.
  destruct r as [h|]; [|fd1; fdfin]. destruct H1 as [H1 [_ Hc]].
  eapply fdr_bind; [apply fdr_handle_events_plain; assumption|intros h' d2 [H2 [Hj _]]].
  eapply fdr_bind; [apply fdr_free_handler|intros ? d3 H3]. cbv beta in H3.
  fd1. unfold held in *. rewrite Hj in H3. lia.
Qed.

(* ================================================================== *)
(* The theorems, stated on runs: for EVERY oracle o and world w.       *)
(* ================================================================== *)

Lemma fdn_elim {A} (m : M A) : fdn m ->
  forall o w a w', m o w = (Some a, w') -> fd_count w' = fd_count w.
Proof. intros H o w a w' E. pose proof (fdr_elim m (fun _ d => d = 0) H o w a w' E) as H1. cbv beta in H1. lia. Qed.

(* the copy routines and the counter *)
Theorem sync_file_fd dst src off o w r w' :
  sync_file dst src off o w = (Some r, w') -> fd_count w' = fd_count w.
Proof. apply fdn_elim. apply fdn_sync_file. Qed.

Theorem sync_shallow_tree_fd rev dst src filt o w r w' :
  sync_shallow_tree rev dst src filt o w = (Some r, w') -> fd_count w' = fd_count w.
Proof. apply fdn_elim. apply fdn_sync_shallow_tree. Qed.

Theorem read_counter_fd p o w r w' : read_counter p o w = (Some r, w') -> fd_count w' = fd_count w.
Proof. apply fdn_elim. apply fdn_read_counter. Qed.

Theorem write_counter_fd p n o w r w' : write_counter p n o w = (Some r, w') -> fd_count w' = fd_count w.
Proof. apply fdn_elim. apply fdn_write_counter. Qed.

(* a timeout pass, whatever fails inside it, closes every descriptor it opened *)
Theorem handle_timeout_fd rev h o w r w' :
  handle_timeout rev h o w = (Some r, w') ->
  fd_count w' = fd_count w /\ h_journal (snd r) = h_journal h.
Proof.
  intros E. destruct (fdr_elim _ _ (fdr_handle_timeout rev h) o w r w' E) as [H1 [H2 _]].
  split; [lia|assumption].
Qed.

Theorem handle_timeout_loop_fd fuel rev h o w r w' :
  handle_timeout_loop fuel rev h o w = (Some r, w') ->
  fd_count w' = fd_count w /\ h_journal (snd r) = h_journal h.
Proof.
  intros E. destruct (fdr_elim _ _ (fdr_handle_timeout_loop fuel rev h) o w r w' E) as [H1 [H2 _]].
  split; [lia|assumption].
Qed.

Theorem handle_open_exec_fd pid path h o w h' w' :
  handle_open_exec pid path h o w = (Some h', w') ->
  fd_count w' = fd_count w /\ h_journal h' = h_journal h.
Proof.
  intros E. destruct (fdr_elim _ _ (fdr_handle_open_exec pid path h) o w h' w' E) as [H1 [H2 _]].
  split; [lia|assumption].
Qed.

(* close-write without reload *)
Theorem handle_close_write_no_cfg_fd pid path nc h o w h' w' :
  h_cfg_path h = None ->
  handle_close_write pid path nc h o w = (Some h', w') ->
  fd_count w' = fd_count w /\ h_journal h' = h_journal h.
Proof.
  intros Hc E.
  assert (Hp : forall cp, h_cfg_path h = Some cp -> str_eqb path cp = false) by (intros cp E'; congruence).
  destruct (fdr_elim _ _ (fdr_handle_close_write_plain pid path nc h Hp) o w h' w' E) as [H1 [H2 _]].
  split; [lia|assumption].
Qed.

Theorem handle_close_write_other_file_fd pid path nc h o w h' w' :
  (forall cp, h_cfg_path h = Some cp -> str_eqb path cp = false) ->
  handle_close_write pid path nc h o w = (Some h', w') ->
  fd_count w' = fd_count w /\ h_journal h' = h_journal h.
Proof.
  intros Hp E.
  destruct (fdr_elim _ _ (fdr_handle_close_write_plain pid path nc h Hp) o w h' w' E) as [H1 [H2 _]].
  split; [lia|assumption].
Qed.

(* close-write in general (reload included): when no error is pending at the
   end, the descriptors not owned by the handler are unchanged; in any case at
   most one descriptor is lost *)
Theorem handle_close_write_fd pid path nc h o w h' w' :
  handle_close_write pid path nc h o w = (Some h', w') ->
  (tr_ok (w_tr w') = true -> fd_count w' - held h' = fd_count w - held h) /\
  0 <= (fd_count w' - held h') - (fd_count w - held h) <= 1.
Proof.
  intros E. pose proof (fdj_elim _ _ _ (fdj_handle_close_write pid path nc h) o w I) as H.
  rewrite E in H. destruct H as [H|[Hn [Hj Hd]]].
  - split; [intros _|]; lia.
  - split; [intros Hok; unfold notok in Hn; congruence|]. unfold held. rewrite Hj. lia.
Qed.

Theorem reload_fd nc h o w h' w' :
  reload nc h o w = (Some h', w') ->
  (tr_ok (w_tr w') = true -> fd_count w' - held h' = fd_count w - held h) /\
  0 <= (fd_count w' - held h') - (fd_count w - held h) <= 1.
Proof.
  intros E. pose proof (fdj_elim _ _ _ (fdj_reload nc h) o w I) as H.
  rewrite E in H. destruct H as [H|[Hn [Hj Hd]]].
  - split; [intros _|]; lia.
  - split; [intros Hok; unfold notok in Hn; congruence|]. unfold held. rewrite Hj. lia.
Qed.

(* load_handler and free_handler *)
Theorem load_handler_fd cfg cp cpl o w h w' :
  load_handler cfg cp cpl o w = (Some (Some h), w') ->
  fd_count w' = fd_count w + 1 + (match c_journal_path cfg with Some _ => 1 | None => 0 end) /\
  fd_count w' = fd_count w + held h.
Proof.
  intros E. pose proof (fdr_elim _ _ (fdr_load_handler cfg cp cpl) o w _ w' E) as [H1 [H2 _]].
  split; [|lia]. unfold held, jz in H1.
  destruct (c_journal_path cfg); destruct (h_journal h) eqn:Ej; try lia.
  - destruct H2 as [H2 _]. specialize (H2 eq_refl). discriminate.
  - destruct H2 as [_ H2]. specialize (H2 eq_refl). discriminate.
Qed.

Theorem load_handler_fail_fd cfg cp cpl o w w' :
  load_handler cfg cp cpl o w = (Some None, w') ->
  fd_count w <= fd_count w' <= fd_count w + 1.
Proof.
  intros E. pose proof (fdr_elim _ _ (fdr_load_handler cfg cp cpl) o w _ w' E) as H.
  unfold load_handler_post in H. lia.
Qed.

Theorem free_handler_fd h o w r w' :
  free_handler h o w = (Some r, w') ->
  fd_count w' = fd_count w - 1 - (match h_journal h with Some _ => 1 | None => 0 end).
Proof.
  intros E. pose proof (fdr_elim _ _ (fdr_free_handler h) o w r w' E) as H. cbv beta in H.
  unfold held, jz in H. destruct (h_journal h); lia.
Qed.

Theorem load_linq_fd path deb lg o w r w' :
  load_linq path deb lg o w = (Some r, w') ->
  match r with
  | Some _ => fd_count w' = fd_count w + 1
  | None => fd_count w <= fd_count w' <= fd_count w + 1 /\ tr_ok (w_tr w') = false
  end.
Proof.
  intros E. pose proof (fdj_elim _ _ _ (fdj_load_linq path deb lg) o w I) as H. rewrite E in H.
  unfold loaded_w in H. destruct r; [lia|]. destruct H as [H1 H2]. split; [lia|exact H2].
Qed.

(* any number of events: C20, descriptor part *)
Theorem handle_events_no_cfg_fd es h o w h' w' :
  h_cfg_path h = None ->
  handle_events es h o w = (Some h', w') ->
  fd_count w' = fd_count w /\ h_journal h' = h_journal h.
Proof.
  intros Hc E. destruct (fdr_elim _ _ (fdr_handle_events_plain es h Hc) o w h' w' E) as [H1 [H2 _]].
  split; [lia|assumption].
Qed.

Theorem handle_events_fd es h o w h' w' :
  handle_events es h o w = (Some h', w') ->
  (tr_ok (w_tr w') = true -> fd_count w' - held h' = fd_count w - held h) /\
  0 <= (fd_count w' - held h') - (fd_count w - held h) <= writes es.
Proof.
  intros E. pose proof (fdj_elim _ _ _ (fdj_handle_events es h) o w I) as H.
  rewrite E in H. destruct H as [H|[Hn Hd]].
  - pose proof (writes_nonneg es). split; [intros _|]; lia.
  - split; [intros Hok; unfold notok in Hn; congruence|lia].
Qed.

Theorem session_fd cfg cpl es o w b w' :
  session cfg cpl es o w = (Some b, w') ->
  if b then fd_count w' = fd_count w else fd_count w <= fd_count w' <= fd_count w + 1.
Proof.
  intros E. pose proof (fdr_elim _ _ (fdr_session cfg cpl es) o w b w' E) as H. cbv beta in H.
  destruct b; lia.
Qed.

(* ================================================================== *)
(* Concrete runs (vm_compute)                                          *)
(* ================================================================== *)

Module FdExample.
  Local Open Scope char_scope.

  Definition fail_at (i : nat) (e : errno) : oracle := fun n => if Nat.eqb n i then FFail e else FNone.

  Definition p_s : str := ["/"; "s"].
  Definition p_d : str := ["/"; "d"].
  Definition p_src : str := ["/"; "s"; "/"; "f"].
  Definition p_dst : str := ["/"; "d"; "/"; "v"].
  Definition p_cnt : str := ["/"; "s"; "/"; "n"].

  (* /s, /d directories; /s/f a 5-byte file (inode 1); /s/n a counter file "42" (inode 2) *)
  Definition fs0 : fs :=
    let f1 := snd (fs_mkdir p_s fs_empty) in
    let f2 := snd (fs_mkdir p_d f1) in
    let f3 := snd (fs_create_excl p_src f2) in
    let f4 := fs_append 1 ["h"; "e"; "l"; "l"; "o"] f3 in
    let f5 := snd (fs_create_excl p_cnt f4) in
    fs_append 2 ["4"; "2"] f5.

  Definition w0 : world := mkW fs0 0 [] 0%Z tr_empty.

  Definition opens (w : world) : nat := length (filter (fun e => Z.eqb (fd_delta e) 1) (w_log w)).
  Definition closes (w : world) : nat := length (filter (fun e => Z.eqb (fd_delta e) (-1)) (w_log w)).

  (* sync_file without faults: two descriptors opened, two closed *)
  Example sync_file_no_faults :
    let '(r, w') := sync_file p_dst p_src 0 no_faults w0 in
    r = Some 5%nat /\ opens w' = 2%nat /\ closes w' = 2%nat /\ fd_count w' = 0.
  Proof. vm_compute. repeat split; reflexivity. Qed.

  (* call 2 (the O_EXCL open of the destination) fails: the source descriptor is closed *)
  Example sync_file_fail_2 :
    let '(r, w') := sync_file p_dst p_src 0 (fail_at 2 EMFILE) w0 in
    r = Some 0%nat /\ opens w' = 1%nat /\ closes w' = 1%nat /\ fd_count w' = 0.
  Proof. vm_compute. repeat split; reflexivity. Qed.

  (* whichever single call fails (fstat, sendfile, either close, ...), the balance is 0 *)
  Example sync_file_any_single_fault :
    forallb (fun i => Z.eqb (fd_count (snd (sync_file p_dst p_src 0 (fail_at i EIO) w0))) 0) (seq 0 12) = true.
  Proof. vm_compute. reflexivity. Qed.

  Example read_counter_no_faults :
    let '(r, w') := read_counter p_cnt no_faults w0 in
    r = Some 42%N /\ opens w' = 1%nat /\ closes w' = 1%nat /\ fd_count w' = 0.
  Proof. vm_compute. repeat split; reflexivity. Qed.

  (* call 2 (the second read) fails: the descriptor is still closed *)
  Example read_counter_fail_2 :
    let '(r, w') := read_counter p_cnt (fail_at 2 EIO) w0 in
    opens w' = 1%nat /\ closes w' = 1%nat /\ fd_count w' = 0 /\ tr_ok (w_tr w') = false.
  Proof. vm_compute. repeat split; reflexivity. Qed.

  (* ----- the leaks are real (in the model, which mirrors linq.c / handler.c) ----- *)

  Definition p_q : str := ["/"; "q"].
  Definition p_q2 : str := ["/"; "r"].
  Definition p_j : str := ["/"; "j"; "/"; "l"].

  (* /q with one entry /q/0 -> "/x"; /r an empty directory *)
  Definition fsq : fs :=
    let f1 := snd (fs_mkdir p_q fs_empty) in
    let f2 := snd (fs_symlink (p_q ++ ["/"; "0"]) ["/"; "x"] 0%Z f1) in
    snd (fs_mkdir p_q2 f2).
  Definition wq : world := mkW fsq 0 [] 100%Z tr_empty.

  Example load_linq_ok :
    let '(r, w') := load_linq p_q 0%Z 8 no_faults wq in
    (exists q, r = Some (Some q)) /\ fd_count w' = 1.
  Proof. vm_compute. split; [eexists; reflexivity|reflexivity]. Qed.

  (* LEAK 1: scandir (call 0) and open(O_DIRECTORY) (call 1) succeed, readlinkat
     (call 2) fails: load_linq returns NULL without closing the directory descriptor *)
  Example load_linq_leak :
    let '(r, w') := load_linq p_q 0%Z 8 (fail_at 2 EIO) wq in
    r = Some None /\ fd_count w' = 1 /\ tr_ok (w_tr w') = false.
  Proof. vm_compute. repeat split; reflexivity. Qed.

  Definition no_rules : rules := mkRules [] [] [] [] [] [].
  Definition cfg_with (queue : str) (journal : option str) : config :=
    mkCfg [] no_rules ["/"; "s"; "t"] ["/"; "p"; "s"] ["/"; "u"] queue journal ["/"; "o"]
          [] [] 0%Z 0 8 None None None None None None None.
  Definition p_cfg : str := ["/"; "c"].
  Definition h0 : handler :=
    mkH (cfg_with p_q None) (Some p_cfg) 0 (mkQ p_q 0 1 0%Z 8 []) None [] [].

  (* a clean reload to the queue /r with a journal: the old queue descriptor is
     closed, the new queue and the journal are open: +1 = held h' - held h *)
  Example reload_ok :
    let '(r, w') := reload (Some (cfg_with p_q2 (Some p_j))) h0 no_faults wq in
    (exists h', r = Some h' /\ held h' - held h0 = 1) /\ fd_count w' = 1 /\ tr_ok (w_tr w') = true.
  Proof. vm_compute. split; [eexists; split; reflexivity|split; reflexivity]. Qed.

  (* LEAK 2: the new queue is loaded (calls 0, 1), then opening the new journal
     fails (mkdir /j is call 2, the open is call 3): the handler is kept as it
     was, and the new queue's directory descriptor stays open *)
  Example reload_leak :
    let '(r, w') := reload (Some (cfg_with p_q2 (Some p_j))) h0 (fail_at 3 EMFILE) wq in
    r = Some h0 /\ fd_count w' = 1 /\ tr_ok (w_tr w') = false.
  Proof. vm_compute. repeat split; reflexivity. Qed.
End FdExample.

Print Assumptions handle_timeout_fd.
Print Assumptions handle_open_exec_fd.
Print Assumptions handle_close_write_no_cfg_fd.
Print Assumptions handle_close_write_other_file_fd.
Print Assumptions handle_close_write_fd.
Print Assumptions reload_fd.
Print Assumptions load_handler_fd.
Print Assumptions load_handler_fail_fd.
Print Assumptions free_handler_fd.
Print Assumptions load_linq_fd.
Print Assumptions sync_file_fd.
Print Assumptions sync_shallow_tree_fd.
Print Assumptions read_counter_fd.
Print Assumptions write_counter_fd.
Print Assumptions handle_events_no_cfg_fd.
Print Assumptions handle_events_fd.
Print Assumptions session_fd.
Print Assumptions FdExample.load_linq_leak.
Print Assumptions FdExample.reload_leak.
