(* C18: the command line grammar (params.c), the common parent of the write
   roots (parents.c) and "bind-mount exactly when not a mount point" (main.c),
   proved about the model in Main.v. *)
From K Require Import Str Main.
From Coq Require Import Lia.
Local Open Scope nat_scope.

(* ====================================================================== *)
(* 1. The grammar of command lines                                         *)
(* ====================================================================== *)

Inductive item :=
| IHelp | IVersion
| ICfg (p : str) | IDrop (p : str) | IWatch (p : str) | IExec (p : str).

(* the token "-X" *)
Definition dash_opt (c : ascii) : str := [ch_dash; c].

Definition item_args (it : item) : list str :=
  match it with
  | IHelp => [dash_opt "h"]
  | IVersion => [dash_opt "v"]
  | ICfg p => [dash_opt "c"; p]
  | IDrop p => [dash_opt "d"; p]
  | IWatch p => [dash_opt "w"; p]
  | IExec p => [dash_opt "e"; p]
  end.

Definition items_args (its : list item) : list str := flat_map item_args its.

Definition is_stop (it : item) : bool :=
  match it with IHelp | IVersion => true | _ => false end.

Definition nostop (its : list item) : Prop :=
  forallb (fun it => negb (is_stop it)) its = true.

Fixpoint cfgs (its : list item) : list str :=
  match its with [] => [] | ICfg p :: r => p :: cfgs r | _ :: r => cfgs r end.
Fixpoint drops (its : list item) : list str :=
  match its with [] => [] | IDrop p :: r => p :: drops r | _ :: r => drops r end.
Fixpoint watches (its : list item) : list str :=
  match its with [] => [] | IWatch p :: r => p :: watches r | _ :: r => watches r end.
Fixpoint execs (its : list item) : list str :=
  match its with [] => [] | IExec p :: r => p :: execs r | _ :: r => execs r end.

(* at most one -c and at most one -d *)
Definition valid_items (its : list item) : Prop :=
  length (cfgs its) <= 1 /\ length (drops its) <= 1.

(* [args = items_args its ++ rest] is a valid command line: either no -h / -v
   at all and nothing left over, or [its] ends with its first -h / -v and
   whatever follows is ignored *)
Definition cmdline (its : list item) (rest : list str) : Prop :=
  valid_items its /\
  ((nostop its /\ rest = []) \/
   (exists body s, its = body ++ [s] /\ nostop body /\ is_stop s = true)).

Definition ends_with_help (its : list item) : bool :=
  match last its (IWatch []) with IHelp => true | _ => false end.
Definition ends_with_version (its : list item) : bool :=
  match last its (IWatch []) with IVersion => true | _ => false end.

(* what a valid item list denotes *)
Definition denote (its : list item) : params :=
  mkP (ends_with_help its) (ends_with_version its)
      (hd_error (cfgs its))
      (Some (hd dot_str (drops its)))
      (match watches its with [] => [dot_str] | l => rev l end)
      (match execs its with [] => [root_str] | l => rev l end).

(* ---------- projections and append ---------- *)

Lemma cfgs_app a b : cfgs (a ++ b) = cfgs a ++ cfgs b.
Proof. induction a as [|[] a IH]; cbn [cfgs app]; rewrite ?IH; reflexivity. Qed.
Lemma drops_app a b : drops (a ++ b) = drops a ++ drops b.
Proof. induction a as [|[] a IH]; cbn [drops app]; rewrite ?IH; reflexivity. Qed.
Lemma watches_app a b : watches (a ++ b) = watches a ++ watches b.
Proof. induction a as [|[] a IH]; cbn [watches app]; rewrite ?IH; reflexivity. Qed.
Lemma execs_app a b : execs (a ++ b) = execs a ++ execs b.
Proof. induction a as [|[] a IH]; cbn [execs app]; rewrite ?IH; reflexivity. Qed.

Lemma items_args_app a b : items_args (a ++ b) = items_args a ++ items_args b.
Proof. unfold items_args. apply flat_map_app. Qed.

Lemma nostop_cons it its : nostop (it :: its) <-> is_stop it = false /\ nostop its.
Proof.
  unfold nostop. cbn [forallb]. rewrite andb_true_iff, negb_true_iff. reflexivity.
Qed.

Lemma nostop_last its : nostop its -> is_stop (last its (IWatch [])) = false.
Proof.
  induction its as [|it its IH]; intros H; [reflexivity|].
  apply nostop_cons in H. destruct H as [H1 H2].
  destruct its as [|it2 its]; [exact H1|]. exact (IH H2).
Qed.

(* ---------- the option token ---------- *)

Lemma option_letter_dash c : option_letter (dash_opt c) = Some c.
Proof. reflexivity. Qed.

Lemma option_letter_some a c : option_letter a = Some c -> a = dash_opt c.
Proof.
  unfold option_letter, dash_opt.
  destruct a as [|d [|c' [|x a]]]; try discriminate.
  unfold ch. destruct (Ascii.eqb_spec d "-"%char) as [->|]; [|discriminate].
  intros H. injection H as ->. reflexivity.
Qed.

Lemma option_letter_none_iff a : option_letter a = None <-> forall c, a <> dash_opt c.
Proof.
  split.
  - intros H c ->. rewrite option_letter_dash in H. discriminate.
  - intros H. destruct (option_letter a) as [c|] eqn:E; [|reflexivity].
    apply option_letter_some in E. destruct (H c E).
Qed.

(* the letters that are options *)
Definition known (c : ascii) : bool :=
  ch c "h"%char || ch c "v"%char || ch c "c"%char || ch c "d"%char || ch c "w"%char || ch c "e"%char.

Definition takes_value (c : ascii) : bool :=
  ch c "c"%char || ch c "d"%char || ch c "w"%char || ch c "e"%char.

(* ---------- one step of the state machine ---------- *)

Lemma loop_opt c rest prev p :
  parse_loop (dash_opt c :: rest) prev None p = parse_loop rest (dash_opt c) (Some c) p.
Proof. reflexivity. Qed.

Lemma loop_nonopt a rest prev p :
  option_letter a = None -> parse_loop (a :: rest) prev None p = inl (PUnknown a).
Proof. intros H. cbn [parse_loop stops]. rewrite H. reflexivity. Qed.

Lemma loop_end prev opt p : parse_loop [] prev opt p = inr (p, opt).
Proof. reflexivity. Qed.

Lemma loop_stop x rest prev c p :
  stops (Some c) = true -> parse_loop (x :: rest) prev (Some c) p = inr (p, Some c).
Proof. intros H. cbn [parse_loop]. rewrite H. reflexivity. Qed.

Lemma step_cfg x rest prev p :
  parse_loop (x :: rest) prev (Some "c"%char) p =
  match p_cfg p with
  | Some _ => inl (PRedefined prev)
  | None => parse_loop rest x None (mkP (p_help p) (p_version p) (Some x) (p_drop p) (p_w p) (p_e p))
  end.
Proof. reflexivity. Qed.

Lemma step_drop x rest prev p :
  parse_loop (x :: rest) prev (Some "d"%char) p =
  match p_drop p with
  | Some _ => inl (PRedefined prev)
  | None => parse_loop rest x None (mkP (p_help p) (p_version p) (p_cfg p) (Some x) (p_w p) (p_e p))
  end.
Proof. reflexivity. Qed.

Lemma step_watch x rest prev p :
  parse_loop (x :: rest) prev (Some "w"%char) p =
  parse_loop rest x None (mkP (p_help p) (p_version p) (p_cfg p) (p_drop p) (x :: p_w p) (p_e p)).
Proof. reflexivity. Qed.

Lemma step_exec x rest prev p :
  parse_loop (x :: rest) prev (Some "e"%char) p =
  parse_loop rest x None (mkP (p_help p) (p_version p) (p_cfg p) (p_drop p) (p_w p) (x :: p_e p)).
Proof. reflexivity. Qed.

Lemma step_unknown x rest prev c p :
  known c = false -> parse_loop (x :: rest) prev (Some c) p = inl (PUnknown prev).
Proof.
  unfold known. intros H.
  repeat (apply orb_false_iff in H; destruct H as [H ?]).
  cbn [parse_loop stops].
  repeat match goal with E : ch c _ = false |- _ => rewrite E; clear E end.
  reflexivity.
Qed.

(* ---------- the effect of a -h/-v free item list on the accumulator ---------- *)

Definition upd (its : list item) (p : params) : params :=
  mkP (p_help p) (p_version p)
      (match p_cfg p with Some c => Some c | None => hd_error (cfgs its) end)
      (match p_drop p with Some c => Some c | None => hd_error (drops its) end)
      (rev (watches its) ++ p_w p) (rev (execs its) ++ p_e p).

Definition olen {A} (o : option A) : nat := match o with Some _ => 1 | None => 0 end.

Definition compat (its : list item) (p : params) : Prop :=
  nostop its /\
  length (cfgs its) + olen (p_cfg p) <= 1 /\
  length (drops its) + olen (p_drop p) <= 1.

Lemma upd_nil p : upd [] p = p.
Proof. destruct p as [h v [c|] [d|] w e]; reflexivity. Qed.

Lemma compat_nil p : compat [] p.
Proof.
  split; [reflexivity|]. cbn [cfgs drops length].
  destruct (p_cfg p), (p_drop p); cbn [olen]; lia.
Qed.

Lemma compat_empty its : compat its p_empty <-> nostop its /\ valid_items its.
Proof.
  unfold compat, valid_items. cbn [p_empty p_cfg p_drop olen]. rewrite !Nat.add_0_r. tauto.
Qed.

Definition set_cfg (x : str) (p : params) := mkP (p_help p) (p_version p) (Some x) (p_drop p) (p_w p) (p_e p).
Definition set_drop (x : str) (p : params) := mkP (p_help p) (p_version p) (p_cfg p) (Some x) (p_w p) (p_e p).
Definition add_w (x : str) (p : params) := mkP (p_help p) (p_version p) (p_cfg p) (p_drop p) (x :: p_w p) (p_e p).
Definition add_e (x : str) (p : params) := mkP (p_help p) (p_version p) (p_cfg p) (p_drop p) (p_w p) (x :: p_e p).

Lemma upd_cfg x its p : p_cfg p = None -> upd its (set_cfg x p) = upd (ICfg x :: its) p.
Proof. destruct p as [h v c d w e]. cbn. intros ->. reflexivity. Qed.
Lemma upd_drop x its p : p_drop p = None -> upd its (set_drop x p) = upd (IDrop x :: its) p.
Proof. destruct p as [h v c d w e]. cbn. intros ->. reflexivity. Qed.
Lemma upd_watch x its p : upd its (add_w x p) = upd (IWatch x :: its) p.
Proof. destruct p as [h v c d w e]. unfold upd. cbn. rewrite <- app_assoc. reflexivity. Qed.
Lemma upd_exec x its p : upd its (add_e x p) = upd (IExec x :: its) p.
Proof. destruct p as [h v c d w e]. unfold upd. cbn. rewrite <- app_assoc. reflexivity. Qed.

(* soundness of the loop: a compatible item list is consumed entirely *)
Lemma parse_loop_items its : forall p prev rest,
  compat its p ->
  exists prev', parse_loop (items_args its ++ rest) prev None p = parse_loop rest prev' None (upd its p).
Proof.
  induction its as [|it its IH]; intros p prev rest Hc.
  - exists prev. rewrite upd_nil. reflexivity.
  - destruct Hc as [Hns [Hcf Hdr]]. apply nostop_cons in Hns. destruct Hns as [Hit Hns].
    destruct it as [| |x|x|x|x]; try discriminate Hit;
      cbn [items_args flat_map item_args app]; fold (items_args its);
      rewrite loop_opt; cbn [cfgs drops length] in Hcf, Hdr.
    + rewrite step_cfg. destruct (p_cfg p) eqn:E; cbn [olen] in Hcf; [lia|].
      rewrite <- (upd_cfg x its p E). apply IH.
      split; [assumption|]. cbn [set_cfg p_cfg p_drop olen]. split; lia.
    + rewrite step_drop. destruct (p_drop p) eqn:E; cbn [olen] in Hdr; [lia|].
      rewrite <- (upd_drop x its p E). apply IH.
      split; [assumption|]. cbn [set_drop p_cfg p_drop olen]. split; lia.
    + rewrite step_watch. rewrite <- (upd_watch x its p). apply IH.
      split; [assumption|]. cbn [add_w p_cfg p_drop]. split; lia.
    + rewrite step_exec. rewrite <- (upd_exec x its p). apply IH.
      split; [assumption|]. cbn [add_e p_cfg p_drop]. split; lia.
Qed.

(* ---------- every outcome of the loop ---------- *)

(* [its] is the longest acceptable -h/-v free item prefix of the arguments,
   [rest] what follows it; the loop started with accumulator [p] *)
Inductive loop_outcome (its : list item) (p : params) : list str -> perr + (params * option ascii) -> Prop :=
| LO_done :
    loop_outcome its p [] (inr (upd its p, None))
| LO_pending c rest :
    stops (Some c) = true \/ rest = [] ->
    loop_outcome its p (dash_opt c :: rest) (inr (upd its p, Some c))
| LO_nonopt a rest :
    option_letter a = None ->
    loop_outcome its p (a :: rest) (inl (PUnknown a))
| LO_letter c x rest :
    known c = false ->
    loop_outcome its p (dash_opt c :: x :: rest) (inl (PUnknown (dash_opt c)))
| LO_recfg x rest :
    cfgs its <> [] \/ p_cfg p <> None ->
    loop_outcome its p (dash_opt "c" :: x :: rest) (inl (PRedefined (dash_opt "c")))
| LO_redrop x rest :
    drops its <> [] \/ p_drop p <> None ->
    loop_outcome its p (dash_opt "d" :: x :: rest) (inl (PRedefined (dash_opt "d"))).

Lemma loop_outcome_transfer its' p' its p rest res :
  upd its' p' = upd its p ->
  (cfgs its' <> [] \/ p_cfg p' <> None -> cfgs its <> [] \/ p_cfg p <> None) ->
  (drops its' <> [] \/ p_drop p' <> None -> drops its <> [] \/ p_drop p <> None) ->
  loop_outcome its' p' rest res -> loop_outcome its p rest res.
Proof.
  intros Hu Hc Hd H. inversion H; subst; rewrite ?Hu;
    [apply LO_done | apply LO_pending | apply LO_nonopt | apply LO_letter | apply LO_recfg | apply LO_redrop]; auto.
Qed.

Lemma parse_loop_classify : forall n args, length args <= n -> forall prev p,
  exists its rest, args = items_args its ++ rest /\ compat its p /\
                   loop_outcome its p rest (parse_loop args prev None p).
Proof.
  induction n as [|n IH]; intros args Hlen prev p.
  { destruct args; [|cbn in Hlen; lia].
    exists [], []. split; [reflexivity|]. split; [apply compat_nil|].
    rewrite loop_end. rewrite <- (upd_nil p) at 2. constructor. }
  destruct args as [|a args].
  { exists [], []. split; [reflexivity|]. split; [apply compat_nil|].
    rewrite loop_end. rewrite <- (upd_nil p) at 2. constructor. }
  destruct (option_letter a) as [c|] eqn:Ea.
  2:{ exists [], (a :: args). split; [reflexivity|]. split; [apply compat_nil|].
      rewrite (loop_nonopt _ _ _ _ Ea). constructor. exact Ea. }
  apply option_letter_some in Ea. subst a. rewrite loop_opt.
  destruct args as [|x args].
  { exists [], [dash_opt c]. split; [reflexivity|]. split; [apply compat_nil|].
    rewrite loop_end. rewrite <- (upd_nil p) at 2. constructor. right; reflexivity. }
  cbn [length] in Hlen.
  destruct (stops (Some c)) eqn:Es.
  { exists [], (dash_opt c :: x :: args). split; [reflexivity|]. split; [apply compat_nil|].
    rewrite (loop_stop _ _ _ _ _ Es). rewrite <- (upd_nil p) at 2. constructor. left; exact Es. }
  destruct (ch c "c"%char) eqn:Ec.
  { apply Ascii.eqb_eq in Ec. subst c. rewrite step_cfg.
    destruct (p_cfg p) eqn:Ecfg.
    - exists [], (dash_opt "c" :: x :: args). split; [reflexivity|]. split; [apply compat_nil|].
      constructor. right. congruence.
    - destruct (IH args ltac:(lia) x (set_cfg x p)) as [its [rest [Ha [Hc Ho]]]].
      exists (ICfg x :: its), rest. split; [rewrite Ha; reflexivity|].
      destruct Hc as [Hns [Hcf Hdr]]. cbn [set_cfg p_cfg p_drop olen] in Hcf, Hdr.
      split.
      + split; [apply nostop_cons; split; [reflexivity | assumption]|].
        cbn [cfgs drops length]. rewrite Ecfg. cbn [olen]. split; lia.
      + eapply loop_outcome_transfer; [apply (upd_cfg x its p Ecfg) | | | exact Ho].
        * intros _. left. discriminate.
        * cbn [drops set_cfg p_drop]. tauto. }
  destruct (ch c "d"%char) eqn:Ed.
  { apply Ascii.eqb_eq in Ed. subst c. rewrite step_drop.
    destruct (p_drop p) eqn:Edrop.
    - exists [], (dash_opt "d" :: x :: args). split; [reflexivity|]. split; [apply compat_nil|].
      constructor. right. congruence.
    - destruct (IH args ltac:(lia) x (set_drop x p)) as [its [rest [Ha [Hc Ho]]]].
      exists (IDrop x :: its), rest. split; [rewrite Ha; reflexivity|].
      destruct Hc as [Hns [Hcf Hdr]]. cbn [set_drop p_cfg p_drop olen] in Hcf, Hdr.
      split.
      + split; [apply nostop_cons; split; [reflexivity | assumption]|].
        cbn [cfgs drops length]. rewrite Edrop. cbn [olen]. split; lia.
      + eapply loop_outcome_transfer; [apply (upd_drop x its p Edrop) | | | exact Ho].
        * cbn [cfgs set_drop p_cfg]. tauto.
        * intros _. left. discriminate. }
  destruct (ch c "w"%char) eqn:Ew.
  { apply Ascii.eqb_eq in Ew. subst c. rewrite step_watch.
    destruct (IH args ltac:(lia) x (add_w x p)) as [its [rest [Ha [Hc Ho]]]].
    exists (IWatch x :: its), rest. split; [rewrite Ha; reflexivity|].
    destruct Hc as [Hns [Hcf Hdr]]. cbn [add_w p_cfg p_drop] in Hcf, Hdr.
    split.
    + split; [apply nostop_cons; split; [reflexivity | assumption]|].
      cbn [cfgs drops]. split; lia.
    + eapply loop_outcome_transfer; [apply (upd_watch x its p) | | | exact Ho].
      * cbn [cfgs add_w p_cfg]. tauto.
      * cbn [drops add_w p_drop]. tauto. }
  destruct (ch c "e"%char) eqn:Ee.
  { apply Ascii.eqb_eq in Ee. subst c. rewrite step_exec.
    destruct (IH args ltac:(lia) x (add_e x p)) as [its [rest [Ha [Hc Ho]]]].
    exists (IExec x :: its), rest. split; [rewrite Ha; reflexivity|].
    destruct Hc as [Hns [Hcf Hdr]]. cbn [add_e p_cfg p_drop] in Hcf, Hdr.
    split.
    + split; [apply nostop_cons; split; [reflexivity | assumption]|].
      cbn [cfgs drops]. split; lia.
    + eapply loop_outcome_transfer; [apply (upd_exec x its p) | | | exact Ho].
      * cbn [cfgs add_e p_cfg]. tauto.
      * cbn [drops add_e p_drop]. tauto. }
  assert (Hk : known c = false).
  { unfold known. cbn [stops] in Es. apply orb_false_iff in Es. destruct Es as [-> ->].
    rewrite Ec, Ed, Ew, Ee. reflexivity. }
  exists [], (dash_opt c :: x :: args). split; [reflexivity|]. split; [apply compat_nil|].
  rewrite (step_unknown _ _ _ _ _ Hk). apply LO_letter. exact Hk.
Qed.

(* ---------- parse_params ---------- *)

Definition fin (p : params) : params :=
  mkP (p_help p) (p_version p) (p_cfg p)
      (match p_drop p with Some d => Some d | None => Some dot_str end)
      (match p_w p with [] => [dot_str] | l => l end)
      (match p_e p with [] => [root_str] | l => l end).
Definition set_help (p : params) := mkP true (p_version p) (p_cfg p) (p_drop p) (p_w p) (p_e p).
Definition set_version (p : params) := mkP (p_help p) true (p_cfg p) (p_drop p) (p_w p) (p_e p).

Lemma parse_params_unfold args :
  parse_params args =
  match parse_loop args [] None p_empty with
  | inl e => inl e
  | inr (p, None) => inr (fin p)
  | inr (p, Some c) =>
      if ch c "h"%char then inr (fin (set_help p))
      else if ch c "v"%char then inr (fin (set_version p))
      else if takes_value c then inl (PStray (last args []))
      else inl (PUnknown (last args []))
  end.
Proof.
  unfold parse_params. destruct (parse_loop args [] None p_empty) as [e|[p [c|]]]; reflexivity.
Qed.

Lemma loop_stopped rest prev c p :
  stops (Some c) = true -> parse_loop rest prev (Some c) p = inr (p, Some c).
Proof. intros H. destruct rest; [apply loop_end | apply loop_stop; exact H]. Qed.

Lemma rev_match {A} (d : list A) (l : list A) :
  match rev l ++ [] with [] => d | x :: r => x :: r end =
  match l with [] => d | x :: r => rev (x :: r) end.
Proof.
  rewrite app_nil_r. destruct l as [|x r]; [reflexivity|].
  destruct (rev (x :: r)) eqn:E; [|reflexivity].
  apply (f_equal (@length A)) in E. rewrite rev_length in E. discriminate.
Qed.

Lemma fin_upd_body its h v :
  fin (mkP h v (p_cfg (upd its p_empty)) (p_drop (upd its p_empty)) (p_w (upd its p_empty)) (p_e (upd its p_empty))) =
  mkP h v (hd_error (cfgs its)) (Some (hd dot_str (drops its)))
      (match watches its with [] => [dot_str] | l => rev l end)
      (match execs its with [] => [root_str] | l => rev l end).
Proof.
  unfold fin, upd. cbn [p_empty p_help p_version p_cfg p_drop p_w p_e].
  rewrite !rev_match. destruct (drops its); reflexivity.
Qed.

Lemma ends_nostop its : nostop its -> ends_with_help its = false /\ ends_with_version its = false.
Proof.
  intros H. apply nostop_last in H. unfold ends_with_help, ends_with_version.
  destruct (last its (IWatch [])); cbn [is_stop] in H; try discriminate; split; reflexivity.
Qed.

Lemma fin_upd its : nostop its -> fin (upd its p_empty) = denote its.
Proof.
  intros H. destruct (ends_nostop its H) as [Hh Hv]. unfold denote. rewrite Hh, Hv.
  rewrite <- fin_upd_body. reflexivity.
Qed.

Lemma fin_help its : fin (set_help (upd its p_empty)) = denote (its ++ [IHelp]).
Proof.
  unfold denote, ends_with_help, ends_with_version.
  rewrite last_last, cfgs_app, drops_app, watches_app, execs_app. cbn [cfgs drops watches execs].
  rewrite !app_nil_r. rewrite <- fin_upd_body. reflexivity.
Qed.

Lemma fin_version its : fin (set_version (upd its p_empty)) = denote (its ++ [IVersion]).
Proof.
  unfold denote, ends_with_help, ends_with_version.
  rewrite last_last, cfgs_app, drops_app, watches_app, execs_app. cbn [cfgs drops watches execs].
  rewrite !app_nil_r. rewrite <- fin_upd_body. reflexivity.
Qed.

Lemma valid_items_stop body s : is_stop s = true -> (valid_items (body ++ [s]) <-> valid_items body).
Proof.
  intros Hs. unfold valid_items. rewrite cfgs_app, drops_app.
  destruct s; try discriminate Hs; cbn [cfgs drops]; rewrite !app_nil_r; tauto.
Qed.

(* (a) soundness: every valid command line is accepted, with its denotation *)
Theorem parse_params_sound its rest :
  cmdline its rest -> parse_params (items_args its ++ rest) = inr (denote its).
Proof.
  intros [Hv [[Hns ->]|[body [s [-> [Hns Hs]]]]]].
  - rewrite parse_params_unfold.
    destruct (parse_loop_items its p_empty [] [] (proj2 (compat_empty its) (conj Hns Hv))) as [prev' E].
    rewrite E, loop_end. f_equal. apply fin_upd. exact Hns.
  - apply (valid_items_stop body s Hs) in Hv.
    rewrite parse_params_unfold, items_args_app, <- app_assoc.
    destruct (parse_loop_items body p_empty [] (items_args [s] ++ rest)
                (proj2 (compat_empty body) (conj Hns Hv))) as [prev' E].
    rewrite E.
    destruct s; try discriminate Hs; cbn [items_args flat_map item_args app];
      rewrite loop_opt, loop_stopped by reflexivity.
    + change (ch "h" "h") with true. cbv iota. f_equal. apply fin_help.
    + change (ch "v" "h") with false. change (ch "v" "v") with true. cbv iota. f_equal. apply fin_version.
Qed.

(* (a) completeness: whatever is accepted is a valid command line, and the
   result is its denotation *)
Theorem parse_params_complete args p :
  parse_params args = inr p ->
  exists its rest, args = items_args its ++ rest /\ cmdline its rest /\ p = denote its.
Proof.
  intros H.
  destruct (parse_loop_classify (length args) args (le_n _) [] p_empty) as [its [rest [Ha [Hc Ho]]]].
  apply compat_empty in Hc. destruct Hc as [Hns Hv].
  rewrite parse_params_unfold in H.
  remember (parse_loop args [] None p_empty) as res eqn:Er. clear Er.
  destruct Ho as [|c rest Hor|a rest Hn|c x rest Hk|x rest Hr|x rest Hr]; try discriminate H.
  - exists its, []. split; [exact Ha|]. split; [split; [exact Hv | left; split; [exact Hns | reflexivity]]|].
    injection H as <-. apply fin_upd. exact Hns.
  - destruct (ch c "h"%char) eqn:Eh.
    { apply Ascii.eqb_eq in Eh. subst c. injection H as <-.
      exists (its ++ [IHelp]), rest. rewrite items_args_app, <- app_assoc.
      split; [exact Ha|]. split; [|apply fin_help].
      split; [apply valid_items_stop; [reflexivity | exact Hv]|].
      right. exists its, IHelp. split; [reflexivity|]. split; [exact Hns | reflexivity]. }
    destruct (ch c "v"%char) eqn:Ev.
    { apply Ascii.eqb_eq in Ev. subst c. injection H as <-.
      exists (its ++ [IVersion]), rest. rewrite items_args_app, <- app_assoc.
      split; [exact Ha|]. split; [|apply fin_version].
      split; [apply valid_items_stop; [reflexivity | exact Hv]|].
      right. exists its, IVersion. split; [reflexivity|]. split; [exact Hns | reflexivity]. }
    destruct (takes_value c); discriminate H.
Qed.

Theorem parse_params_iff args p :
  parse_params args = inr p <->
  exists its rest, args = items_args its ++ rest /\ cmdline its rest /\ p = denote its.
Proof.
  split; [apply parse_params_complete|].
  intros [its [rest [-> [Hc ->]]]]. apply parse_params_sound. exact Hc.
Qed.

(* (b) the rejected command lines: [its] is a valid -h/-v free item list and
   [rest], which follows it, starts with the offending token *)
Inductive parse_failure (its : list item) : list str -> perr -> Prop :=
| PF_nonopt a rest :            (* an option is expected and the token is not "-X" *)
    option_letter a = None -> parse_failure its (a :: rest) (PUnknown a)
| PF_letter c rest :            (* "-X" with X outside h v c d w e *)
    known c = false -> parse_failure its (dash_opt c :: rest) (PUnknown (dash_opt c))
| PF_recfg x rest :             (* a second -c that has a value *)
    cfgs its <> [] -> parse_failure its (dash_opt "c" :: x :: rest) (PRedefined (dash_opt "c"))
| PF_redrop x rest :            (* a second -d that has a value *)
    drops its <> [] -> parse_failure its (dash_opt "d" :: x :: rest) (PRedefined (dash_opt "d"))
| PF_stray c :                  (* the command line ends right after -c/-d/-w/-e *)
    takes_value c = true -> parse_failure its [dash_opt c] (PStray (dash_opt c)).

Lemma known_false c : known c = false ->
  ch c "h"%char = false /\ ch c "v"%char = false /\ takes_value c = false.
Proof.
  unfold known, takes_value. intros H.
  repeat (apply orb_false_iff in H; destruct H as [H ?]).
  repeat match goal with E : ch c _ = false |- _ => rewrite E; clear E end. auto.
Qed.

Lemma takes_value_true c : takes_value c = true ->
  ch c "h"%char = false /\ ch c "v"%char = false /\ known c = true.
Proof.
  unfold takes_value. intros H.
  repeat (apply orb_true_iff in H; destruct H as [H|H]); apply Ascii.eqb_eq in H; subst c; auto.
Qed.

Theorem parse_params_error_complete args e :
  parse_params args = inl e ->
  exists its rest, args = items_args its ++ rest /\ nostop its /\ valid_items its /\ parse_failure its rest e.
Proof.
  intros H.
  destruct (parse_loop_classify (length args) args (le_n _) [] p_empty) as [its [rest [Ha [Hc Ho]]]].
  apply compat_empty in Hc. destruct Hc as [Hns Hv].
  rewrite parse_params_unfold in H.
  exists its, rest. split; [exact Ha|]. split; [exact Hns|]. split; [exact Hv|].
  remember (parse_loop args [] None p_empty) as res eqn:Er. clear Er.
  destruct Ho as [|c rest Hor|a rest Hn|c x rest Hk|x rest Hr|x rest Hr]; try discriminate H.
  - destruct (ch c "h"%char) eqn:Eh; [discriminate H|].
    destruct (ch c "v"%char) eqn:Ev; [discriminate H|].
    destruct Hor as [Hs| ->]; [cbn [stops] in Hs; rewrite Eh, Ev in Hs; discriminate Hs|].
    assert (El : last args [] = dash_opt c) by (rewrite Ha; apply last_last).
    rewrite El in H.
    destruct (takes_value c) eqn:Et; injection H as <-.
    + apply PF_stray. exact Et.
    + apply PF_letter. unfold known. unfold takes_value in Et.
      rewrite Eh, Ev. cbn [orb]. rewrite <- !orb_assoc in *. exact Et.
  - injection H as <-. apply PF_nonopt. exact Hn.
  - injection H as <-. apply PF_letter. exact Hk.
  - injection H as <-. apply PF_recfg. destruct Hr as [Hr|Hr]; [exact Hr | destruct Hr; reflexivity].
  - injection H as <-. apply PF_redrop. destruct Hr as [Hr|Hr]; [exact Hr | destruct Hr; reflexivity].
Qed.

Theorem parse_params_error_sound its rest e :
  nostop its -> valid_items its -> parse_failure its rest e ->
  parse_params (items_args its ++ rest) = inl e.
Proof.
  intros Hns Hv Hf. rewrite parse_params_unfold.
  destruct (parse_loop_items its p_empty [] rest (proj2 (compat_empty its) (conj Hns Hv))) as [prev' E].
  rewrite E.
  destruct Hf as [a rest Hn|c rest Hk|x rest Hr|x rest Hr|c Ht].
  - rewrite (loop_nonopt _ _ _ _ Hn). reflexivity.
  - rewrite loop_opt. destruct rest as [|x rest].
    + rewrite loop_end. destruct (known_false c Hk) as [-> [-> ->]]. rewrite last_last. reflexivity.
    + rewrite (step_unknown _ _ _ _ _ Hk). reflexivity.
  - rewrite loop_opt, step_cfg. cbn [upd p_cfg p_empty].
    destruct (cfgs its); [destruct Hr; reflexivity | reflexivity].
  - rewrite loop_opt, step_drop. cbn [upd p_drop p_empty].
    destruct (drops its); [destruct Hr; reflexivity | reflexivity].
  - rewrite loop_opt, loop_end. destruct (takes_value_true c Ht) as [-> [-> _]]. rewrite Ht, last_last. reflexivity.
Qed.

Theorem parse_params_error_iff args e :
  parse_params args = inl e <->
  exists its rest, args = items_args its ++ rest /\ nostop its /\ valid_items its /\ parse_failure its rest e.
Proof.
  split; [apply parse_params_error_complete|].
  intros [its [rest [-> [Hns [Hv Hf]]]]]. apply parse_params_error_sound; assumption.
Qed.

(* a malformed command line has no effect: nothing is mounted or watched *)
Theorem parse_error_no_effect env e :
  parse_params (e_args env) = inl e -> main env = [OExit 1 (Some T_parse)].
Proof. intros H. unfold main. rewrite H. reflexivity. Qed.

(* the same in terms of the grammar *)
Corollary invalid_cmdline_no_effect env :
  (forall its rest, e_args env = items_args its ++ rest -> ~ cmdline its rest) ->
  main env = [OExit 1 (Some T_parse)].
Proof.
  intros H. destruct (parse_params (e_args env)) as [e|p] eqn:E.
  - exact (parse_error_no_effect env e E).
  - apply parse_params_complete in E. destruct E as [its [rest [Ha [Hc _]]]]. destruct (H its rest Ha Hc).
Qed.

(* ====================================================================== *)
(* 2. The common parent (get_common_parent_path_length)                    *)
(* ====================================================================== *)

(* the loop without fuel and indices: [a] and [b] are what is left of the two
   paths from offset [i] on, [r] is the offset after the last common '/' *)
Fixpoint cl (a b : str) (i r : nat) : nat :=
  match a, b with
  | x :: a', y :: b' =>
      if is_slash x && is_slash y then cl a' b' (S i) (S i)
      else if Ascii.eqb x y then cl a' b' (S i) r else r
  | [], y :: _ => if is_slash y then S i else r
  | x :: _, [] => if is_slash x then S i else r
  | [], [] => S i
  end.

Lemma skipn_nth {A} (l : list A) : forall i,
  skipn i l = match nth_error l i with Some x => x :: skipn (S i) l | None => [] end.
Proof.
  induction l as [|x l IH]; intros [|i]; try reflexivity.
  cbn [skipn nth_error]. rewrite IH. destruct (nth_error l i); reflexivity.
Qed.

Lemma common_loop_cl : forall fuel a b i r,
  Nat.min (length (skipn i a)) (length (skipn i b)) < fuel ->
  common_loop fuel a b i r = cl (skipn i a) (skipn i b) i r.
Proof.
  induction fuel as [|fuel IH]; intros a b i r Hf; [lia|].
  cbn [common_loop].
  rewrite (skipn_nth a i), (skipn_nth b i) in Hf |- *.
  destruct (nth_error a i) as [x|], (nth_error b i) as [y|]; cbn [is_sep cl andb length] in *.
  - destruct (is_slash x && is_slash y).
    + apply IH. lia.
    + destruct (Ascii.eqb x y); [apply IH; lia | reflexivity].
  - rewrite andb_true_r. destruct (is_slash x); reflexivity.
  - destruct (is_slash y); reflexivity.
  - reflexivity.
Qed.

Lemma common_len_cl a b :
  common_len a b = match a, b with
                   | [_], [_] => 1
                   | _, _ => cl (tl a) (tl b) 1 1
                   end.
Proof.
  assert (H : common_loop (S (Nat.max (length a) (length b))) a b 1 1 = cl (tl a) (tl b) 1 1).
  { rewrite common_loop_cl; [destruct a, b; reflexivity|].
    destruct a, b; cbn [skipn length]; lia. }
  unfold common_len. destruct a as [|a0 [|a1 a]], b as [|b0 [|b1 b]]; try exact H; reflexivity.
Qed.

(* ---------- symmetry ---------- *)

Lemma cl_sym : forall a b i r, cl a b i r = cl b a i r.
Proof.
  induction a as [|x a IH]; intros [|y b] i r; cbn [cl]; try reflexivity.
  rewrite (andb_comm (is_slash y)), (Ascii.eqb_sym y x), (IH b (S i) (S i)), (IH b (S i) r). reflexivity.
Qed.

Theorem common_len_sym a b : common_len a b = common_len b a.
Proof.
  rewrite !common_len_cl. rewrite (cl_sym (tl a) (tl b)).
  destruct a as [|a0 [|a1 a]], b as [|b0 [|b1 b]]; reflexivity.
Qed.

(* ---------- a path and itself ---------- *)

Lemma cl_self : forall a i r, cl a a i r = S (i + length a).
Proof.
  induction a as [|x a IH]; intros i r; cbn [cl length]; [lia|].
  rewrite Ascii.eqb_refl. destruct (is_slash x && is_slash x); rewrite IH; lia.
Qed.

Theorem common_len_self_gen a : 2 <= length a -> common_len a a = S (length a).
Proof.
  intros H. rewrite common_len_cl. destruct a as [|a0 [|a1 a]]; cbn [length] in H; try lia.
  cbn [tl]. rewrite cl_self. cbn [length]. lia.
Qed.

Theorem common_len_root : common_len [ch_slash] [ch_slash] = 1.
Proof. reflexivity. Qed.

(* ---------- bounds ---------- *)

Lemma cl_lower : forall a b i r, r <= S i -> r <= cl a b i r.
Proof.
  induction a as [|x a IH]; intros [|y b] i r H; cbn [cl].
  - exact H.
  - destruct (is_slash y); lia.
  - destruct (is_slash x); lia.
  - destruct (is_slash x && is_slash y).
    + specialize (IH b (S i) (S i)). lia.
    + destruct (Ascii.eqb x y); [apply IH; lia | lia].
Qed.

Lemma cl_upper : forall a b i r, cl a b i r <= Nat.max r (S (i + Nat.min (length a) (length b))).
Proof.
  induction a as [|x a IH]; intros [|y b] i r; cbn [cl length].
  - lia.
  - destruct (is_slash y); lia.
  - destruct (is_slash x); lia.
  - destruct (is_slash x && is_slash y).
    + specialize (IH b (S i) (S i)). lia.
    + destruct (Ascii.eqb x y); [specialize (IH b (S i) r); lia | lia].
Qed.

Theorem common_len_pos a b : 1 <= common_len a b.
Proof.
  rewrite common_len_cl.
  destruct a as [|a0 [|a1 a]], b as [|b0 [|b1 b]]; try apply cl_lower; lia.
Qed.

Theorem common_len_upper a b :
  a <> [] -> b <> [] -> common_len a b <= S (length a) /\ common_len a b <= S (length b).
Proof.
  intros Ha Hb. rewrite common_len_cl.
  assert (H := cl_upper (tl a) (tl b) 1 1).
  destruct a as [|a0 a]; [congruence|]. destruct b as [|b0 b]; [congruence|].
  cbn [tl length] in *.
  destruct a as [|a1 a], b as [|b1 b]; cbn [length] in *; lia.
Qed.

(* walking over a common prefix *)
Lemma cl_app_common : forall d sa sb i r, r <= S i ->
  exists r', r' <= S (i + length d) /\ cl (d ++ sa) (d ++ sb) i r = cl sa sb (i + length d) r'.
Proof.
  induction d as [|x d IH]; intros sa sb i r Hr; cbn [app length cl].
  - exists r. rewrite Nat.add_0_r. auto.
  - rewrite Ascii.eqb_refl. replace (i + S (length d)) with (S i + length d) by lia.
    destruct (is_slash x && is_slash x); apply IH; lia.
Qed.

(* [d] is [a] itself or a directory above [a] *)
Definition at_or_under (d a : str) : Prop := a = d \/ exists r, a = d ++ ch_slash :: r.

(* every common directory other than "/" is at most as deep as the result *)
Theorem common_len_prefix d a b :
  2 <= length d -> at_or_under d a -> at_or_under d b -> S (length d) <= common_len a b.
Proof.
  intros Hd Ha Hb.
  assert (Ha' : exists sa, a = d ++ sa /\ (sa = [] \/ exists r, sa = ch_slash :: r)).
  { destruct Ha as [->|[r ->]]; [exists []; rewrite app_nil_r; auto | exists (ch_slash :: r); eauto]. }
  assert (Hb' : exists sb, b = d ++ sb /\ (sb = [] \/ exists r, sb = ch_slash :: r)).
  { destruct Hb as [->|[r ->]]; [exists []; rewrite app_nil_r; auto | exists (ch_slash :: r); eauto]. }
  destruct Ha' as [sa [-> Hsa]], Hb' as [sb [-> Hsb]].
  rewrite common_len_cl.
  destruct d as [|d0 [|d1 d]]; cbn [length] in Hd; try lia.
  cbn [app tl].
  destruct (cl_app_common (d1 :: d) sa sb 1 1 ltac:(lia)) as [r' [Hr' E]].
  change (d1 :: d ++ sa) with ((d1 :: d) ++ sa). change (d1 :: d ++ sb) with ((d1 :: d) ++ sb).
  rewrite E. cbn [length] in *.
  destruct Hsa as [->|[ra ->]], Hsb as [->|[rb ->]]; cbn [cl].
  - lia.
  - change (is_slash ch_slash) with true. cbv iota. lia.
  - change (is_slash ch_slash) with true. cbv iota. lia.
  - change (is_slash ch_slash) with true. cbn [andb]. cbv iota.
    assert (H := cl_lower ra rb (S (1 + S (length d))) (S (1 + S (length d))) ltac:(lia)). lia.
Qed.

(* ---------- the result marks a common directory ---------- *)

(* the first [k] characters of [a] and [b] agree and are followed, in both, by
   a '/' or by the end of the path *)
Definition common_dir_at (a b : str) (k : nat) : Prop :=
  firstn k a = firstn k b /\ is_sep (nth_error a k) = true /\ is_sep (nth_error b k) = true.

Lemma firstn_length_app {A} (p s : list A) : firstn (length p) (p ++ s) = p.
Proof. induction p as [|x p IH]; [reflexivity|]. cbn [length app firstn]. rewrite IH. reflexivity. Qed.

Lemma nth_error_length_app {A} (p s : list A) : nth_error (p ++ s) (length p) = hd_error s.
Proof. induction p as [|x p IH]; [destruct s; reflexivity|]. exact IH. Qed.

Lemma at_boundary p sa sb :
  is_sep (hd_error sa) = true -> is_sep (hd_error sb) = true ->
  common_dir_at (p ++ sa) (p ++ sb) (length p).
Proof.
  intros Ha Hb. unfold common_dir_at. rewrite !firstn_length_app, !nth_error_length_app. auto.
Qed.

Definition dir_result (A B : str) (n : nat) : Prop :=
  n = 1 \/ exists k, n = S k /\ common_dir_at A B k.

Lemma cl_is_dir A B : forall sa sb p i r,
  A = p ++ sa -> B = p ++ sb -> length p = i -> dir_result A B r ->
  dir_result A B (cl sa sb i r).
Proof.
  induction sa as [|x sa IH]; intros [|y sb] p i r HA HB Hp Hr; cbn [cl].
  - right. exists i. split; [reflexivity|]. subst. apply at_boundary; reflexivity.
  - destruct (is_slash y) eqn:Ey; [|exact Hr].
    right. exists i. split; [reflexivity|]. subst. apply at_boundary; [reflexivity | exact Ey].
  - destruct (is_slash x) eqn:Ex; [|exact Hr].
    right. exists i. split; [reflexivity|]. subst. apply at_boundary; [exact Ex | reflexivity].
  - destruct (is_slash x && is_slash y) eqn:Exy.
    + apply andb_true_iff in Exy. destruct Exy as [Ex Ey].
      assert (x = y).
      { unfold is_slash in Ex, Ey. apply Ascii.eqb_eq in Ex, Ey. congruence. }
      subst y.
      apply (IH sb (p ++ [x]) (S i) (S i)).
      * rewrite <- app_assoc. exact HA.
      * rewrite <- app_assoc. exact HB.
      * rewrite app_length. cbn [length]. lia.
      * right. exists i. split; [reflexivity|]. subst. apply at_boundary; assumption.
    + destruct (Ascii.eqb_spec x y) as [<-|Hne]; [|exact Hr].
      apply (IH sb (p ++ [x]) (S i) r).
      * rewrite <- app_assoc. exact HA.
      * rewrite <- app_assoc. exact HB.
      * rewrite app_length. cbn [length]. lia.
      * exact Hr.
Qed.

(* for two paths with the same first character (two absolute paths) *)
Theorem common_len_dir_at a b :
  hd_error a = hd_error b ->
  common_len a b = 1 \/ exists k, common_len a b = S k /\ common_dir_at a b k.
Proof.
  intros Hh. rewrite common_len_cl.
  destruct a as [|a0 ta], b as [|b0 tb]; try discriminate Hh.
  - right. exists 1. repeat split; reflexivity.
  - injection Hh as <-.
    assert (H : dir_result (a0 :: ta) (a0 :: tb) (cl ta tb 1 1)).
    { apply (cl_is_dir _ _ ta tb [a0] 1 1); try reflexivity. left; reflexivity. }
    destruct ta as [|a1 ta], tb as [|b1 tb]; try exact H. left; reflexivity.
Qed.

Lemma sep_cases a k : is_sep (nth_error a k) = true ->
  firstn k a = a \/ nth_error a k = Some ch_slash.
Proof.
  destruct (nth_error a k) as [c|] eqn:E; cbn [is_sep]; intros H.
  - right. unfold is_slash in H. apply Ascii.eqb_eq in H. congruence.
  - left. apply firstn_all2. apply nth_error_None. exact E.
Qed.

(* the form asked for: with n = common_len a b, either n = 1 (the common
   directory is "/") or the first n-1 characters of a and b agree and are, in
   each of the two, the whole path or followed by '/' *)
Theorem common_len_is_dir a b :
  hd_error a = hd_error b ->
  let n := common_len a b in
  n = 1 \/
  (firstn (n - 1) a = firstn (n - 1) b /\
   (firstn (n - 1) a = a \/ nth_error a (n - 1) = Some ch_slash) /\
   (firstn (n - 1) b = b \/ nth_error b (n - 1) = Some ch_slash)).
Proof.
  intros Hh n. destruct (common_len_dir_at a b Hh) as [H|[k [Hk [H1 [H2 H3]]]]]; [left; exact H|].
  right. unfold n. rewrite Hk. replace (S k - 1) with k by lia.
  split; [exact H1|]. split; apply sep_cases; assumption.
Qed.

(* ---------- canonical paths as lists of components ---------- *)

Definition noslash (c : str) : Prop := forallb (fun x => negb (is_slash x)) c = true.
Definition comp_ok (c : str) : Prop := c <> [] /\ noslash c.

(* "/" for no component, "/c1/c2/.../cn" otherwise *)
Definition path_of (comps : list str) : str := ch_slash :: join_slash comps.

Definition canonical (p : str) : Prop := exists comps, Forall comp_ok comps /\ p = path_of comps.

(* longest common prefix of two component lists: the deepest common directory *)
Fixpoint lcp (ca cb : list str) : list str :=
  match ca, cb with
  | x :: ca', y :: cb' => if str_eqb x y then x :: lcp ca' cb' else []
  | _, _ => []
  end.

Lemma lcp_spec ca cb :
  exists ra rb, ca = lcp ca cb ++ ra /\ cb = lcp ca cb ++ rb /\
                match ra, rb with x :: _, y :: _ => x <> y | _, _ => True end.
Proof.
  revert cb. induction ca as [|x ca IH]; intros cb.
  - exists [], cb. auto.
  - destruct cb as [|y cb].
    + exists (x :: ca), []. auto.
    + cbn [lcp]. destruct (str_eqb_spec x y) as [<-|Hne].
      * destruct (IH cb) as [ra [rb [Ha [Hb Hd]]]]. exists ra, rb.
        cbn [app]. rewrite <- Ha, <- Hb. auto.
      * exists (x :: ca), (y :: cb). auto.
Qed.

Lemma lcp_greatest l ra rb : lcp (l ++ ra) (l ++ rb) = l ++ lcp ra rb.
Proof. induction l as [|x l IH]; [reflexivity|]. cbn [app lcp]. rewrite str_eqb_refl, IH. reflexivity. Qed.

Definition jtail (cs : list str) : str :=
  match cs with [] => [] | _ => ch_slash :: join_slash cs end.

Lemma join_slash_cons c cs : join_slash (c :: cs) = c ++ jtail cs.
Proof. destruct cs; [cbn [join_slash jtail]; rewrite app_nil_r|]; reflexivity. Qed.

Lemma jtail_sep cs : is_sep (hd_error (jtail cs)) = true.
Proof. destruct cs; reflexivity. Qed.

Lemma noslash_cons x c : noslash (x :: c) <-> is_slash x = false /\ noslash c.
Proof. unfold noslash. cbn [forallb]. rewrite andb_true_iff, negb_true_iff. reflexivity. Qed.

Lemma cl_comp_eq : forall c ta tb i r, noslash c ->
  cl (c ++ ta) (c ++ tb) i r = cl ta tb (i + length c) r.
Proof.
  induction c as [|x c IH]; intros ta tb i r Hc; cbn [app length].
  - rewrite Nat.add_0_r. reflexivity.
  - apply noslash_cons in Hc. destruct Hc as [Hx Hc]. cbn [cl].
    rewrite Hx, Ascii.eqb_refl. cbn [andb]. rewrite IH by exact Hc. f_equal. lia.
Qed.

Lemma slash_vs_not s y : is_slash s = true -> is_slash y = false -> Ascii.eqb s y = false.
Proof.
  intros Hs Hy. destruct (Ascii.eqb_spec s y) as [->|]; [congruence | reflexivity].
Qed.

Lemma cl_comp_neq : forall c d ta tb i r,
  noslash c -> noslash d -> c <> d ->
  is_sep (hd_error ta) = true -> is_sep (hd_error tb) = true ->
  cl (c ++ ta) (d ++ tb) i r = r.
Proof.
  induction c as [|x c IH]; intros [|y d] ta tb i r Hc Hd Hne Hta Htb; cbn [app].
  - congruence.
  - apply noslash_cons in Hd. destruct Hd as [Hy Hd].
    destruct ta as [|s ta]; cbn [cl]; [rewrite Hy; reflexivity|].
    cbn [hd_error is_sep] in Hta. rewrite Hta, Hy. cbn [andb].
    rewrite (slash_vs_not s y Hta Hy). reflexivity.
  - apply noslash_cons in Hc. destruct Hc as [Hx Hc].
    destruct tb as [|s tb]; cbn [cl]; [rewrite Hx; reflexivity|].
    cbn [hd_error is_sep] in Htb. rewrite Htb, Hx. cbn [andb].
    rewrite Ascii.eqb_sym, (slash_vs_not s x Htb Hx). reflexivity.
  - apply noslash_cons in Hc. destruct Hc as [Hx Hc].
    apply noslash_cons in Hd. destruct Hd as [Hy Hd].
    cbn [cl]. rewrite Hx. cbn [andb].
    destruct (Ascii.eqb_spec x y) as [<-|Hxy]; [|reflexivity].
    apply IH; try assumption. congruence.
Qed.

Lemma cl_lcp : forall ca cb i r,
  ca <> [] -> cb <> [] -> Forall comp_ok ca -> Forall comp_ok cb ->
  cl (join_slash ca) (join_slash cb) i r =
  match lcp ca cb with [] => r | l => i + length (join_slash l) + 1 end.
Proof.
  induction ca as [|c ca IH]; intros [|d cb] i r Hca Hcb Fa Fb; try congruence.
  inversion Fa as [|? ? [_ Hc] Fa']; subst. inversion Fb as [|? ? [_ Hd] Fb']; subst.
  rewrite !join_slash_cons. cbn [lcp].
  destruct (str_eqb_spec c d) as [<-|Hne].
  2:{ apply cl_comp_neq; auto using jtail_sep. }
  rewrite cl_comp_eq by exact Hc.
  destruct ca as [|c' ca], cb as [|d' cb]; cbn [jtail cl].
  - cbn [lcp join_slash]. lia.
  - change (is_slash ch_slash) with true. cbv iota. cbn [lcp join_slash]. lia.
  - change (is_slash ch_slash) with true. cbv iota. cbn [lcp join_slash]. lia.
  - change (is_slash ch_slash) with true. cbn [andb]. cbv iota.
    rewrite IH by (assumption || discriminate).
    destruct (lcp (c' :: ca) (d' :: cb)) as [|l0 l] eqn:El.
    + cbn [join_slash]. lia.
    + change (join_slash (c :: l0 :: l)) with (c ++ ch_slash :: join_slash (l0 :: l)).
      rewrite app_length. cbn [length]. lia.
Qed.

Lemma comp_ok_cons c : comp_ok c -> exists x c', c = x :: c' /\ is_slash x = false.
Proof.
  intros [Hn Hs]. destruct c as [|x c']; [congruence|].
  apply noslash_cons in Hs. destruct Hs as [Hx _]. eauto.
Qed.

(* THE CHARACTERISATION: for canonical absolute paths given by their
   components, the result is 1 when the deepest common directory is "/", and
   the length of the deepest common directory plus 1 otherwise *)
Theorem common_len_components ca cb :
  Forall comp_ok ca -> Forall comp_ok cb ->
  common_len (path_of ca) (path_of cb) =
  match lcp ca cb with [] => 1 | l => S (length (path_of l)) end.
Proof.
  intros Fa Fb. rewrite common_len_cl. unfold path_of.
  destruct ca as [|c ca], cb as [|d cb].
  - reflexivity.
  - inversion Fb as [|? ? Hd _]; subst. destruct (comp_ok_cons d Hd) as [y [d' [-> Hy]]].
    rewrite join_slash_cons. cbn [join_slash app tl cl lcp]. rewrite Hy. reflexivity.
  - inversion Fa as [|? ? Hc _]; subst. destruct (comp_ok_cons c Hc) as [x [c' [-> Hx]]].
    rewrite join_slash_cons. cbn [join_slash app tl cl lcp]. rewrite Hx. reflexivity.
  - assert (E : match ch_slash :: join_slash (c :: ca), ch_slash :: join_slash (d :: cb) with
                | [_], [_] => 1
                | _, _ => cl (tl (ch_slash :: join_slash (c :: ca))) (tl (ch_slash :: join_slash (d :: cb))) 1 1
                end = cl (join_slash (c :: ca)) (join_slash (d :: cb)) 1 1).
    { inversion Fa as [|? ? Hc _]; subst. destruct (comp_ok_cons c Hc) as [x [c' [-> Hx]]].
      rewrite (join_slash_cons (x :: c')). reflexivity. }
    rewrite E. rewrite cl_lcp by (assumption || discriminate).
    destruct (lcp (c :: ca) (d :: cb)); cbn [length]; lia.
Qed.

(* the definition of canonical agrees with split_slash *)
Lemma ssa_noslash : forall c t cur, noslash c ->
  split_slash_aux (c ++ t) cur = split_slash_aux t (rev c ++ cur).
Proof.
  induction c as [|x c IH]; intros t cur Hc; [reflexivity|].
  apply noslash_cons in Hc. destruct Hc as [Hx Hc].
  cbn [app split_slash_aux rev]. rewrite Hx, IH by exact Hc. rewrite <- app_assoc. reflexivity.
Qed.

Lemma split_join : forall cs, cs <> [] -> Forall comp_ok cs -> split_slash_aux (join_slash cs) [] = cs.
Proof.
  induction cs as [|c cs IH]; intros Hn F; [congruence|].
  inversion F as [|? ? [_ Hc] F']; subst.
  rewrite join_slash_cons, ssa_noslash by exact Hc. rewrite app_nil_r.
  destruct cs as [|c' cs]; cbn [jtail split_slash_aux].
  - rewrite rev_involutive. reflexivity.
  - change (is_slash ch_slash) with true. cbv iota. rewrite rev_involutive, IH by (assumption || discriminate).
    reflexivity.
Qed.

Theorem split_slash_path_of cs : cs <> [] -> Forall comp_ok cs -> split_slash (path_of cs) = [] :: cs.
Proof.
  intros Hn F. unfold split_slash, path_of. cbn [split_slash_aux].
  change (is_slash ch_slash) with true. cbv iota. rewrite split_join by assumption. reflexivity.
Qed.

(* ---------- the requested corollaries for canonical paths ---------- *)

Lemma canonical_length a : canonical a -> a <> [ch_slash] -> 2 <= length a.
Proof.
  intros [cs [F ->]] Hn. destruct cs as [|c cs]; [destruct Hn; reflexivity|].
  inversion F as [|? ? Hc _]; subst. destruct (comp_ok_cons c Hc) as [x [c' [-> _]]].
  unfold path_of. rewrite join_slash_cons. cbn [app length]. lia.
Qed.

Lemma canonical_hd a : canonical a -> hd_error a = Some ch_slash.
Proof. intros [cs [_ ->]]. reflexivity. Qed.

Theorem common_len_self a : canonical a -> a <> [ch_slash] -> common_len a a = S (length a).
Proof. intros Hc Hn. apply common_len_self_gen. apply canonical_length; assumption. Qed.

Theorem common_len_prefix_canonical d a b :
  canonical d -> d <> [ch_slash] -> at_or_under d a -> at_or_under d b ->
  S (length d) <= common_len a b /\ common_len a b <= S (length a) /\ common_len a b <= S (length b).
Proof.
  intros Hd Hn Ha Hb. pose proof (canonical_length d Hd Hn) as Hl.
  split; [apply common_len_prefix; assumption|].
  apply common_len_upper.
  - destruct Ha as [->|[r ->]]; destruct d; cbn [length] in Hl; try lia; discriminate.
  - destruct Hb as [->|[r ->]]; destruct d; cbn [length] in Hl; try lia; discriminate.
Qed.

Theorem common_len_is_dir_canonical a b :
  canonical a -> canonical b ->
  let n := common_len a b in
  n = 1 \/
  (firstn (n - 1) a = firstn (n - 1) b /\
   (firstn (n - 1) a = a \/ nth_error a (n - 1) = Some ch_slash) /\
   (firstn (n - 1) b = b \/ nth_error b (n - 1) = Some ch_slash)).
Proof.
  intros Ha Hb. apply common_len_is_dir. rewrite (canonical_hd a Ha), (canonical_hd b Hb). reflexivity.
Qed.

(* ====================================================================== *)
(* 3. A root is bind-mounted exactly when it is not a mount point          *)
(* ====================================================================== *)

Definition is_mount_of (m : str) (o : out) : bool :=
  match o with OMount p => str_eqb p m | _ => false end.

(* number of occurrences of [OMount m] *)
Definition mount_count (m : str) (evs : list out) : nat := length (filter (is_mount_of m) evs).

Lemma is_mount_of_true m o : is_mount_of m o = true <-> o = OMount m.
Proof.
  destruct o; cbn [is_mount_of]; try (split; [discriminate | intros H; discriminate H]).
  rewrite str_eqb_eq. split; [intros ->; reflexivity | intros H; injection H as ->; reflexivity].
Qed.

Lemma mount_count_app m a b : mount_count m (a ++ b) = mount_count m a + mount_count m b.
Proof. unfold mount_count. rewrite filter_app, app_length. reflexivity. Qed.

Lemma mount_count_pos m evs : In (OMount m) evs <-> 0 < mount_count m evs.
Proof.
  unfold mount_count. split.
  - intros H. assert (H' : In (OMount m) (filter (is_mount_of m) evs)).
    { apply filter_In. split; [exact H | apply is_mount_of_true; reflexivity]. }
    destruct (filter (is_mount_of m) evs); [destruct H' | cbn [length]; lia].
  - intros H. destruct (filter (is_mount_of m) evs) as [|o l] eqn:E; [cbn [length] in H; lia|].
    assert (H' : In o (filter (is_mount_of m) evs)) by (rewrite E; left; reflexivity).
    apply filter_In in H'. destruct H' as [Hin Ho]. apply is_mount_of_true in Ho. subst o. exact Hin.
Qed.

Lemma mount_count_zero m evs : ~ In (OMount m) evs -> mount_count m evs = 0.
Proof. intros H. rewrite mount_count_pos in H. lia. Qed.

Lemma memstr_true m l : memstr m l = true <-> In m l.
Proof.
  unfold memstr. rewrite existsb_exists. split.
  - intros [x [Hin Hx]]. apply str_eqb_eq in Hx. subst x. exact Hin.
  - intros H. exists m. split; [exact H | apply str_eqb_refl].
Qed.

Lemma memstr_false m l : memstr m l = false <-> ~ In m l.
Proof. rewrite <- memstr_true. destruct (memstr m l); split; congruence. Qed.

Definition resolves (env : env) (roots : list str) (m : str) : Prop :=
  exists r, In r roots /\ assoc r (e_realpath env) = Some m.

Ltac mr_parts :=
  split; [intros m Hin; split
         | split; [intros m
                  | split; [
                           | split; [intros m Hin | intros ie m Hin; split]]]].

(* what holds of every run, successful or not *)
Lemma mark_roots_mounts is_exec env roots : forall mounted n prev cpl evs ok mounted' n' cpl',
  mark_roots is_exec env roots mounted n prev cpl = (evs, ok, mounted', n', cpl') ->
  (forall m, In (OMount m) evs -> memstr m mounted = false /\ resolves env roots m) /\
  (forall m, mount_count m evs <= 1) /\
  incl mounted mounted' /\
  (forall m, In m mounted' -> In m mounted \/ In (OMount m) evs) /\
  (forall ie m, In (OMark ie m) evs -> ie = is_exec /\ resolves env roots m).
Proof.
  induction roots as [|r roots IH]; intros mounted n prev cpl evs ok mounted' n' cpl' H; cbn [mark_roots] in H.
  { injection H as <- <- <- <- <-. mr_parts; try destruct Hin; auto using incl_refl. }
  destruct (assoc r (e_realpath env)) as [m0|] eqn:Er.
  2:{ injection H as <- <- <- <- <-. mr_parts; try destruct Hin; auto using incl_refl. }
  assert (Hres : resolves env (r :: roots) m0) by (exists r; split; [left; reflexivity | exact Er]).
  assert (Hlift : forall m, resolves env roots m -> resolves env (r :: roots) m).
  { intros m [r' [Hin Hr']]. exists r'. split; [right; exact Hin | exact Hr']. }
  destruct (memstr m0 mounted) eqn:Emem; cbn [negb andb] in H.
  - (* already a mount point: no mount *)
    destruct (e_mark_ok env n).
    + destruct (mark_roots is_exec env roots mounted (S n) (Some m0) _) as [[[[evs1 ok1] mo1] nm1] c1] eqn:E1.
      injection H as <- <- <- <- <-.
      destruct (IH _ _ _ _ _ _ _ _ _ E1) as [I1 [I2 [I3 [I4 I5]]]].
      cbn [app]. mr_parts.
      * destruct Hin as [Hin|Hin]; [discriminate Hin|]. apply (I1 m Hin).
      * destruct Hin as [Hin|Hin]; [discriminate Hin|]. apply Hlift, (I1 m Hin).
      * change (mount_count m (OMark is_exec m0 :: evs1)) with (mount_count m evs1). apply I2.
      * exact I3.
      * destruct (I4 m Hin); [left | right; right]; assumption.
      * destruct Hin as [Hin|Hin]; [injection Hin as -> _; reflexivity | apply (I5 _ _ Hin)].
      * destruct Hin as [Hin|Hin]; [injection Hin as _ <-; exact Hres | apply Hlift, (I5 _ _ Hin)].
    + injection H as <- <- <- <- <-. cbn [app]. mr_parts.
      * destruct Hin as [Hin|[]]. discriminate Hin.
      * destruct Hin as [Hin|[]]. discriminate Hin.
      * cbn. lia.
      * apply incl_refl.
      * auto.
      * destruct Hin as [Hin|[]]. injection Hin as -> _. reflexivity.
      * destruct Hin as [Hin|[]]. injection Hin as _ <-. exact Hres.
  - (* not a mount point: mount, then mark *)
    destruct (e_mount_ok env); cbn [negb] in H.
    2:{ injection H as <- <- <- <- <-. mr_parts.
        - destruct Hin as [Hin|[]]. injection Hin as <-. exact Emem.
        - destruct Hin as [Hin|[]]. injection Hin as <-. exact Hres.
        - unfold mount_count. cbn [filter]. destruct (is_mount_of m (OMount m0)); cbn [length]; lia.
        - apply incl_refl.
        - auto.
        - destruct Hin as [Hin|[]]. discriminate Hin.
        - destruct Hin as [Hin|[]]. discriminate Hin. }
    destruct (e_mark_ok env n).
    + destruct (mark_roots is_exec env roots (m0 :: mounted) (S n) (Some m0) _) as [[[[evs1 ok1] mo1] nm1] c1] eqn:E1.
      injection H as <- <- <- <- <-.
      destruct (IH _ _ _ _ _ _ _ _ _ E1) as [I1 [I2 [I3 [I4 I5]]]].
      cbn [app]. mr_parts.
      * destruct Hin as [Hin|[Hin|Hin]]; [injection Hin as <-; exact Emem | discriminate Hin|].
        destruct (I1 m Hin) as [Hm _]. apply memstr_false in Hm. apply memstr_false.
        intros Hin'. apply Hm. right. exact Hin'.
      * destruct Hin as [Hin|[Hin|Hin]]; [injection Hin as <-; exact Hres | discriminate Hin|].
        apply Hlift, (I1 m Hin).
      * change (OMount m0 :: OMark is_exec m0 :: evs1) with ([OMount m0; OMark is_exec m0] ++ evs1).
        rewrite mount_count_app. unfold mount_count at 1. cbn [filter is_mount_of].
        destruct (str_eqb_spec m0 m) as [<-|Hne]; cbn [length]; [|apply I2].
        rewrite mount_count_zero; [lia|].
        intros Hin. destruct (I1 m0 Hin) as [Hm _]. apply memstr_false in Hm. apply Hm. left; reflexivity.
      * intros x Hx. apply I3. right. exact Hx.
      * destruct (I4 m Hin) as [[<-|Hin']|Hin']; [right; left; reflexivity | left; exact Hin' | right; right; right; exact Hin'].
      * destruct Hin as [Hin|[Hin|Hin]]; [discriminate Hin | injection Hin as -> _; reflexivity | apply (I5 _ _ Hin)].
      * destruct Hin as [Hin|[Hin|Hin]]; [discriminate Hin | injection Hin as _ <-; exact Hres | apply Hlift, (I5 _ _ Hin)].
    + injection H as <- <- <- <- <-. cbn [app]. mr_parts.
      * destruct Hin as [Hin|[Hin|[]]]; [injection Hin as <-; exact Emem | discriminate Hin].
      * destruct Hin as [Hin|[Hin|[]]]; [injection Hin as <-; exact Hres | discriminate Hin].
      * unfold mount_count. cbn [filter is_mount_of]. destruct (str_eqb m0 m); cbn [length]; lia.
      * intros x Hx. right. exact Hx.
      * destruct Hin as [<-|Hm]; [right; left; reflexivity | left; exact Hm].
      * destruct Hin as [Hin|[Hin|[]]]; [discriminate Hin | injection Hin as -> _; reflexivity].
      * destruct Hin as [Hin|[Hin|[]]]; [discriminate Hin | injection Hin as _ <-; exact Hres].
Qed.

(* the events of a successful run, exactly *)
Fixpoint mark_spec (is_exec : bool) (ms : list str) (mounted : list str) : list out :=
  match ms with
  | [] => []
  | m :: rest =>
      if memstr m mounted then OMark is_exec m :: mark_spec is_exec rest mounted
      else OMount m :: OMark is_exec m :: mark_spec is_exec rest (m :: mounted)
  end.

Fixpoint mounted_after (ms : list str) (mounted : list str) : list str :=
  match ms with
  | [] => mounted
  | m :: rest => mounted_after rest (if memstr m mounted then mounted else m :: mounted)
  end.

(* the running minimum of common_len over adjacent pairs of resolved roots *)
Fixpoint cpl_fold (ms : list str) (prev : option str) (cpl : nat) : nat :=
  match ms with
  | [] => cpl
  | m :: rest =>
      cpl_fold rest (Some m)
               (match prev with None => common_len m m | Some pm => Nat.min cpl (common_len pm m) end)
  end.

Lemma mark_roots_exact is_exec env roots : forall mounted n prev cpl evs mounted' n' cpl',
  mark_roots is_exec env roots mounted n prev cpl = (evs, true, mounted', n', cpl') ->
  exists ms, Forall2 (fun r m => assoc r (e_realpath env) = Some m) roots ms /\
             evs = mark_spec is_exec ms mounted /\
             mounted' = mounted_after ms mounted /\
             n' = n + length roots /\
             cpl' = cpl_fold ms prev cpl.
Proof.
  induction roots as [|r roots IH]; intros mounted n prev cpl evs mounted' n' cpl' H; cbn [mark_roots] in H.
  { injection H as <- <- <- <-. exists []. repeat split; [constructor | cbn [length]; lia]. }
  destruct (assoc r (e_realpath env)) as [m0|] eqn:Er; [|discriminate H].
  destruct (memstr m0 mounted) eqn:Emem; cbn [negb andb] in H.
  - destruct (e_mark_ok env n); [|discriminate H].
    destruct (mark_roots is_exec env roots mounted (S n) (Some m0) _) as [[[[evs1 ok1] mo1] nm1] c1] eqn:E1.
    injection H as <- -> <- <- <-.
    destruct (IH _ _ _ _ _ _ _ _ E1) as [ms [F [Ee [Em [En Ec]]]]].
    exists (m0 :: ms). split; [constructor; assumption|].
    cbn [mark_spec mounted_after cpl_fold app length]. rewrite Emem. subst. repeat split. lia.
  - destruct (e_mount_ok env); cbn [negb] in H; [|discriminate H].
    destruct (e_mark_ok env n); [|discriminate H].
    destruct (mark_roots is_exec env roots (m0 :: mounted) (S n) (Some m0) _) as [[[[evs1 ok1] mo1] nm1] c1] eqn:E1.
    injection H as <- -> <- <- <-.
    destruct (IH _ _ _ _ _ _ _ _ E1) as [ms [F [Ee [Em [En Ec]]]]].
    exists (m0 :: ms). split; [constructor; assumption|].
    cbn [mark_spec mounted_after cpl_fold app length]. rewrite Emem. subst. repeat split. lia.
Qed.

Lemma cpl_fold_le_acc : forall ms pm c, cpl_fold ms (Some pm) c <= c.
Proof.
  induction ms as [|m ms IH]; intros pm c; cbn [cpl_fold]; [lia|].
  specialize (IH m (Nat.min c (common_len pm m))). lia.
Qed.

(* the value handed to the handler is at most the common parent offset of
   every pair of adjacent write roots *)
Lemma cpl_fold_adjacent : forall ms pm c l1 x y l2,
  pm :: ms = l1 ++ x :: y :: l2 -> cpl_fold ms (Some pm) c <= common_len x y.
Proof.
  induction ms as [|m ms IH]; intros pm c l1 x y l2 E.
  - apply (f_equal (@length str)) in E. rewrite app_length in E. cbn [length] in E. lia.
  - cbn [cpl_fold]. destruct l1 as [|z l1]; cbn [app] in E.
    + injection E as <- <- _. pose proof (cpl_fold_le_acc ms m (Nat.min c (common_len pm m))). lia.
    + injection E as _ E. apply (IH m _ l1 x y l2 E).
Qed.

(* a successful run: every root resolves, is marked, is bind-mounted exactly
   when it was not a mount point (a root given twice only the first time), and
   is a mount point afterwards *)
Theorem mark_roots_ok is_exec env roots : forall mounted n prev cpl evs mounted' n' cpl',
  mark_roots is_exec env roots mounted n prev cpl = (evs, true, mounted', n', cpl') ->
  (forall r, In r roots -> exists m, assoc r (e_realpath env) = Some m) /\
  (forall m, resolves env roots m -> In (OMark is_exec m) evs) /\
  (forall m, resolves env roots m -> memstr m mounted = false -> In (OMount m) evs) /\
  (forall m, In (OMount m) evs -> memstr m mounted = false /\ resolves env roots m) /\
  (forall m, mount_count m evs <= 1) /\
  incl mounted mounted' /\
  (forall m, In m mounted' <-> In m mounted \/ In (OMount m) evs) /\
  (forall m, resolves env roots m -> In m mounted').
Proof.
  induction roots as [|r roots IH]; intros mounted n prev cpl evs mounted' n' cpl' H.
  { cbn [mark_roots] in H. injection H as <- <- <- <-.
    split; [intros r []|]. split; [intros m [r [[] _]]|]. split; [intros m [r [[] _]]|].
    split; [intros m []|]. split; [intros m; cbn; lia|]. split; [apply incl_refl|].
    split; [intros m; split; [auto | intros [Hm|[]]; exact Hm] | intros m [r [[] _]]]. }
  destruct (mark_roots_mounts _ _ _ _ _ _ _ _ _ _ _ _ H) as [G1 [G2 [G3 [G4 _]]]].
  cbn [mark_roots] in H.
  destruct (assoc r (e_realpath env)) as [m0|] eqn:Er; [|discriminate H].
  assert (Hcases : forall m, resolves env (r :: roots) m -> m = m0 \/ resolves env roots m).
  { intros m [r' [[<-|Hin] Hr']]; [left; congruence | right; exists r'; auto]. }
  destruct (memstr m0 mounted) eqn:Emem; cbn [negb andb] in H.
  - destruct (e_mark_ok env n); [|discriminate H].
    destruct (mark_roots is_exec env roots mounted (S n) (Some m0) _) as [[[[evs1 ok1] mo1] nm1] c1] eqn:E1.
    injection H as <- -> <- <- <-.
    destruct (IH _ _ _ _ _ _ _ _ E1) as [I1 [I2 [I3 [_ [_ [I6 [I7 I8]]]]]]].
    cbn [app] in *.
    split; [intros r' [<-|Hin]; [eauto | apply I1; exact Hin]|].
    split; [intros m Hm; destruct (Hcases m Hm) as [->|Hm']; [left; reflexivity | right; apply I2; exact Hm']|].
    split; [intros m Hm Hf; destruct (Hcases m Hm) as [->|Hm']; [congruence | right; apply I3; assumption]|].
    split; [exact G1|]. split; [exact G2|]. split; [exact G3|].
    split.
    + intros m. rewrite I7. split; (intros [Hm|Hm]; [left; exact Hm | right]).
      * right. exact Hm.
      * destruct Hm as [Hm|Hm]; [discriminate Hm | exact Hm].
    + intros m Hm. destruct (Hcases m Hm) as [->|Hm']; [|apply I8; exact Hm'].
      apply I6. apply memstr_true. exact Emem.
  - destruct (e_mount_ok env); cbn [negb] in H; [|discriminate H].
    destruct (e_mark_ok env n); [|discriminate H].
    destruct (mark_roots is_exec env roots (m0 :: mounted) (S n) (Some m0) _) as [[[[evs1 ok1] mo1] nm1] c1] eqn:E1.
    injection H as <- -> <- <- <-.
    destruct (IH _ _ _ _ _ _ _ _ E1) as [I1 [I2 [I3 [_ [_ [I6 [I7 I8]]]]]]].
    cbn [app] in *.
    split; [intros r' [<-|Hin]; [eauto | apply I1; exact Hin]|].
    split; [intros m Hm; destruct (Hcases m Hm) as [->|Hm']; [right; left; reflexivity | right; right; apply I2; exact Hm']|].
    split.
    { intros m Hm Hf. destruct (Hcases m Hm) as [->|Hm']; [left; reflexivity|].
      destruct (str_eqb_spec m0 m) as [->|Hne]; [left; reflexivity|].
      right. right. apply I3; [exact Hm'|].
      apply memstr_false. apply memstr_false in Hf. intros [Hx|Hx]; [exact (Hne Hx) | exact (Hf Hx)]. }
    split; [exact G1|]. split; [exact G2|]. split; [exact G3|].
    split.
    + intros m. rewrite I7. split.
      * intros [[<-|Hm]|Hm]; [right; left; reflexivity | left; exact Hm | right; right; right; exact Hm].
      * intros [Hm|[Hm|[Hm|Hm]]]; [left; right; exact Hm | injection Hm as <-; left; left; reflexivity
                                    | discriminate Hm | right; exact Hm].
    + intros m Hm. destruct (Hcases m Hm) as [->|Hm']; [|apply I8; exact Hm'].
      apply I6. left. reflexivity.
Qed.

(* the form asked for *)
Corollary mount_iff_not_mounted is_exec env roots mounted n prev cpl evs mounted' n' cpl' :
  mark_roots is_exec env roots mounted n prev cpl = (evs, true, mounted', n', cpl') ->
  forall r m, In r roots -> assoc r (e_realpath env) = Some m ->
    In (OMark is_exec m) evs /\
    (In (OMount m) evs <-> memstr m mounted = false) /\
    mount_count m evs <= 1.
Proof.
  intros H r m Hin Hr.
  destruct (mark_roots_ok _ _ _ _ _ _ _ _ _ _ _ H) as [_ [I2 [I3 [I4 [I5 _]]]]].
  assert (Hres : resolves env roots m) by (exists r; auto).
  split; [apply I2; exact Hres|]. split; [|apply I5].
  split; [intros Hm; apply (I4 m Hm) | apply I3; exact Hres].
Qed.

(* ---------- the same for the whole of main ---------- *)

Definition no_mount (l : list out) : Prop := forall m, ~ In (OMount m) l.

Lemma no_mount_count l m : no_mount l -> mount_count m l = 0.
Proof. intros H. apply mount_count_zero. apply H. Qed.

Ltac in_cases H :=
  repeat match type of H with
         | In _ [] => destruct H
         | In _ (_ :: _) => destruct H as [H|H]; [discriminate H|]
         end.

Lemma loop_no_mount self slots : forall pause, no_mount (loop self slots pause).
Proof.
  induction slots as [|s slots IH]; intros pause m Hin; cbn [loop] in Hin.
  { in_cases Hin. }
  in_cases Hin.
  assert (Ht : ~ In (OMount m) (match s_timeout s with
                                | Some z => loop self slots z
                                | None => [OExit 1 (Some T_timeout)]
                                end)).
  { intros Hin'. destruct (s_timeout s); [exact (IH _ _ Hin') | in_cases Hin']. }
  destruct (s_poll s); [|in_cases Hin; exact (Ht Hin)|in_cases Hin|in_cases Hin].
  in_cases Hin.
  destruct (s_read s); [|in_cases Hin|in_cases Hin].
  destruct (negb (ev_vers_ok (s_ev s))); [in_cases Hin|].
  destruct (ev_overflow (s_ev s)); [in_cases Hin|].
  destruct (ev_exec (s_ev s)).
  - cbn [app] in Hin. in_cases Hin. destruct (s_exec_ok s); [in_cases Hin; exact (Ht Hin) | in_cases Hin].
  - destruct (ev_write (s_ev s) && negb (N.eqb (ev_pid (s_ev s)) self)).
    + cbn [app] in Hin. in_cases Hin. destruct (s_write_ok s); [in_cases Hin; exact (Ht Hin) | in_cases Hin].
    + cbn [app] in Hin. in_cases Hin. exact (Ht Hin).
Qed.

Lemma drop_no_mount env ev3 ok3 u g gr :
  drop_privileges env = (ev3, ok3, u, g, gr) -> no_mount ev3.
Proof.
  unfold drop_privileges. intros H m Hin.
  destruct (e_stat env) as [[su sg]|].
  - destruct (negb (N.eqb sg 0) && negb (N.eqb su 0));
      [destruct (e_setgroups env), (e_setgid env), (e_setuid env)|];
      injection H as <- _ _ _ _; in_cases Hin.
  - injection H as <- _ _ _ _. in_cases Hin.
Qed.

Lemma no_mount_exit c t : no_mount [OExit c t].
Proof. intros m Hin. in_cases Hin. Qed.

(* main's output: nothing is mounted, or it is the marking of the write roots,
   then (if that succeeded) of the exec roots, then a mount-free tail *)
Lemma main_decomp env :
  no_mount (main env) \/
  exists p ev1 ok1 mounted1 n1 cpl ev2 tail,
    parse_params (e_args env) = inr p /\
    mark_roots false env (p_w p) (e_mounted env) 0 None 0 = (ev1, ok1, mounted1, n1, cpl) /\
    main env = OFanInit :: ev1 ++ ev2 ++ tail /\ no_mount tail /\
    (ev2 = [] \/
     (ok1 = true /\ exists ok2 mo2 n2 c2,
         mark_roots true env (p_e p) mounted1 n1 None 0 = (ev2, ok2, mo2, n2, c2))).
Proof.
  unfold main. destruct (parse_params (e_args env)) as [e|p] eqn:Ep.
  { left. apply no_mount_exit. }
  destruct (p_version p). { left. apply no_mount_exit. }
  destruct (p_help p). { left. apply no_mount_exit. }
  destruct (e_fan_init_ok env); cbn [negb].
  2:{ left. intros m Hin. in_cases Hin. }
  destruct (e_mountinfo_ok env); cbn [negb].
  2:{ left. intros m Hin. in_cases Hin. }
  right.
  destruct (mark_roots false env (p_w p) (e_mounted env) 0 None 0) as [[[[ev1 ok1] mounted1] n1] cpl] eqn:E1.
  exists p, ev1, ok1, mounted1, n1, cpl.
  destruct ok1; cbn [negb].
  2:{ exists [], [OExit 1 (Some T_watch)]. split; [reflexivity|]. split; [exact E1|].
      split; [reflexivity|]. split; [apply no_mount_exit | left; reflexivity]. }
  destruct (mark_roots true env (p_e p) mounted1 n1 None 0) as [[[[ev2 ok2] mo2] n2] c2] eqn:E2.
  exists ev2.
  destruct ok2; cbn [negb].
  2:{ exists [OExit 1 (Some T_watch)]. split; [reflexivity|]. split; [exact E1|].
      split; [reflexivity|]. split; [apply no_mount_exit | right; split; [reflexivity | do 4 eexists; first [reflexivity | exact E2]]]. }
  destruct (drop_privileges env) as [[[[ev3 ok3] uid] gid] groups] eqn:E3.
  pose proof (drop_no_mount _ _ _ _ _ _ E3) as N3.
  set (drop := match p_drop p with Some d => d | None => dot_str end).
  destruct (negb ok3 || N.eqb uid 0 || N.eqb gid 0 || negb (Nat.eqb groups 0)).
  - exists (OStat drop :: ev3 ++ [OExit 1 (Some T_drop)]).
    split; [reflexivity|]. split; [exact E1|].
    split; [cbn [app]; rewrite <- !app_assoc; reflexivity|].
    split; [|right; split; [reflexivity | do 4 eexists; first [reflexivity | exact E2]]].
    intros m Hin. in_cases Hin. apply in_app_or in Hin. destruct Hin as [Hin|Hin]; [exact (N3 _ Hin) | in_cases Hin].
  - eexists (OStat drop :: ev3 ++ OLoad (p_cfg p) cpl uid gid groups :: _).
    split; [reflexivity|]. split; [exact E1|].
    split; [cbn [app]; rewrite <- !app_assoc; cbn [app]; reflexivity|].
    split; [|right; split; [reflexivity | do 4 eexists; first [reflexivity | exact E2]]].
    intros m Hin. in_cases Hin. apply in_app_or in Hin. destruct Hin as [Hin|Hin]; [exact (N3 _ Hin)|].
    in_cases Hin. destruct (negb (e_load_ok env)); [in_cases Hin | exact (loop_no_mount _ _ _ _ Hin)].
Qed.

(* every bind mount main performs is of the real path of a -w or -e root that
   was not a mount point, and no path is mounted twice *)
Theorem main_mounts env m :
  In (OMount m) (main env) ->
  memstr m (e_mounted env) = false /\
  mount_count m (main env) <= 1 /\
  exists p, parse_params (e_args env) = inr p /\ (resolves env (p_w p) m \/ resolves env (p_e p) m).
Proof.
  intros Hin.
  destruct (main_decomp env) as [Hn|[p [ev1 [ok1 [mounted1 [n1 [cpl [ev2 [tail [Ep [E1 [Em [Nt R]]]]]]]]]]]]].
  { destruct (Hn m Hin). }
  rewrite Em in Hin |- *.
  change (OFanInit :: ev1 ++ ev2 ++ tail) with ([OFanInit] ++ ev1 ++ ev2 ++ tail).
  rewrite !mount_count_app, (no_mount_count tail m Nt).
  change (mount_count m [OFanInit]) with 0.
  destruct (mark_roots_mounts _ _ _ _ _ _ _ _ _ _ _ _ E1) as [G1 [G2 [G3 [G4 _]]]].
  in_cases Hin. apply in_app_or in Hin.
  destruct R as [->|[-> [ok2 [mo2 [n2 [c2 E2]]]]]].
  - cbn [app] in Hin. change (mount_count m []) with 0.
    destruct Hin as [Hin|Hin]; [|destruct (Nt m Hin)].
    destruct (G1 m Hin) as [Hm Hr]. split; [exact Hm|]. split; [specialize (G2 m); lia | eauto].
  - destruct (mark_roots_mounts _ _ _ _ _ _ _ _ _ _ _ _ E2) as [K1 [K2 _]].
    destruct (mark_roots_ok _ _ _ _ _ _ _ _ _ _ _ E1) as [_ [_ [_ [_ [_ [_ [I7 _]]]]]]].
    assert (Hex : In (OMount m) ev1 -> mount_count m ev2 = 0).
    { intros H1. apply mount_count_zero. intros H2. destruct (K1 m H2) as [Hf _].
      apply memstr_false in Hf. apply Hf. apply I7. right. exact H1. }
    destruct Hin as [Hin|Hin].
    + destruct (G1 m Hin) as [Hm Hr]. split; [exact Hm|].
      split; [specialize (G2 m); rewrite (Hex Hin); lia | eauto].
    + apply in_app_or in Hin. destruct Hin as [Hin|Hin]; [|destruct (Nt m Hin)].
      destruct (K1 m Hin) as [Hm Hr].
      split; [apply memstr_false; apply memstr_false in Hm; intros Hx; apply Hm, G3, Hx|].
      split; [|eauto].
      assert (mount_count m ev1 = 0).
      { apply mount_count_zero. intros H1. specialize (Hex H1). apply mount_count_pos in Hin. lia. }
      specialize (K2 m). lia.
Qed.

(* ====================================================================== *)
(* Examples and assumptions                                                *)
(* ====================================================================== *)

From Coq Require Import String.

Definition lit (x : string) : str := list_ascii_of_string x.

Example ex_common_1 : common_len (lit "/abc/def") (lit "/abc/de") = 5.      Proof. reflexivity. Qed.
Example ex_common_2 : common_len (lit "/abc/def") (lit "/abc/def/ghi") = 9. Proof. reflexivity. Qed.
Example ex_common_3 : common_len (lit "/abc/def") (lit "/") = 1.            Proof. reflexivity. Qed.
Example ex_common_4 : common_len (lit "/") (lit "/") = 1.                   Proof. reflexivity. Qed.
Example ex_common_5 : common_len (lit "/ab") (lit "/abc/def") = 1.          Proof. reflexivity. Qed.
Example ex_common_6 : path_of [lit "abc"; lit "def"] = lit "/abc/def" /\
                      lcp [lit "abc"; lit "def"] [lit "abc"; lit "de"] = [lit "abc"].
Proof. split; reflexivity. Qed.

(* "-h" after -c is a value, and everything after -v is ignored *)
Example ex_parse_1 :
  parse_params [lit "-c"; lit "-h"; lit "-w"; lit "a"; lit "-w"; lit "b"; lit "-v"; lit "junk"] =
  inr (denote [ICfg (lit "-h"); IWatch (lit "a"); IWatch (lit "b"); IVersion]).
Proof. reflexivity. Qed.
Example ex_parse_2 : parse_params [] = inr (mkP false false None (Some (lit ".")) [lit "."] [lit "/"]).
Proof. reflexivity. Qed.
Example ex_parse_3 : parse_params [lit "-c"; lit "x"; lit "-c"; lit "y"] = inl (PRedefined (lit "-c")).
Proof. reflexivity. Qed.
Example ex_parse_4 : parse_params [lit "-c"; lit "x"; lit "-c"] = inl (PStray (lit "-c")).
Proof. reflexivity. Qed.
Example ex_parse_5 : parse_params [lit "-w"; lit "x"; lit "-x"] = inl (PUnknown (lit "-x")).
Proof. reflexivity. Qed.
Example ex_parse_6 : parse_params [lit "-w"; lit "x"; lit "y"] = inl (PUnknown (lit "y")).
Proof. reflexivity. Qed.

Print Assumptions parse_params_iff.
Print Assumptions parse_params_error_iff.
Print Assumptions parse_error_no_effect.
Print Assumptions invalid_cmdline_no_effect.
Print Assumptions common_len_sym.
Print Assumptions common_len_self.
Print Assumptions common_len_root.
Print Assumptions common_len_prefix_canonical.
Print Assumptions common_len_is_dir_canonical.
Print Assumptions common_len_components.
Print Assumptions split_slash_path_of.
Print Assumptions mark_roots_mounts.
Print Assumptions mark_roots_exact.
Print Assumptions mark_roots_ok.
Print Assumptions mount_iff_not_mounted.
Print Assumptions cpl_fold_adjacent.
Print Assumptions main_mounts.
