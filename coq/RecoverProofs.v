(* C03 "pending work and stored versions survive a crash at any point":
   the RECOVERY theorem.

   crash_then_recover : the queue holds plain entries [es] (flags 0, pairwise
   distinct paths).  handle_timeout runs under ANY HONEST oracle o: it may
   return, report an error, or the process may die at any call.  On the disk
   it leaves, the restart: load_linq reloads the queue (a suffix of the
   entries), then a fault-free pass runs at a clock now2.  Then
     (R1) every entry of [es] has AT LEAST ONE complete version in the store
          (bytes = the bytes of its source), under one of the names
          cand now e 0 / cand now2 e 0 / cand now2 e 1;
     (R2) no file outside the queue directory that existed before the first
          pass has changed (the journal, which is appended to, aside);
     (R3) the new files are at most TWO per entry (one when the entry was
          popped before the crash; for the entry being copied at the crash
          the possibly PARTIAL file of the crashed pass plus the complete
          version of the second pass -- at-least-once, not exactly-once);
     (R4) the queue is empty and the second pass reports no error.

   Files: RecoverFrame.v (what the crashed pass leaves: crash_frame_pass),
   RecoverPass.v (the fault-free pass over names that may be taken:
   pass_taken), this file (composition, the one-entry corollary, a concrete
   world crashed at every call index). *)
From K Require Import Str Dec Trace Fs World Progs Elf Linq LinqSpec LinqProofs Sieve Handler Hoare
     Confine Confine2 SyncProofs AbandonProofs StoreFs StoreLogic StoreProgs DecProofs
     QueueProofs CrashFrame CrashLoad CrashQueue CrashCopy CrashProofs PassProofs PassProofs2
     RecoverFrame RecoverPass.
From Coq Require Import Lia.

(* ====================================================================== *)
(* 1. load_linq leaves no failed try pending                               *)
(* ====================================================================== *)

Definition Zt (t : trace) : Prop := tr_ok t = true -> t_post t = 0.
Definition zt {A} (m : M A) : Prop := forall o w, Zt (w_tr w) -> Zt (w_tr (snd (m o w))).

Lemma zt_ret {A} (a : A) : zt (ret_ a).
Proof. intros o w H. exact H. Qed.

Lemma zt_bind {A B} (m : M A) (k : A -> M B) : zt m -> (forall a, zt (k a)) -> zt (bind m k).
Proof.
  intros Hm Hk o w Hz. unfold bind. specialize (Hm o w Hz).
  destruct (m o w) as [[a|] w'] eqn:E; cbn [snd] in *; [apply Hk; exact Hm | exact Hm].
Qed.

Lemma zt_sys {A} c (perform : fs -> ret * A * fs) on_fail : zt (sys c perform on_fail).
Proof.
  intros o w Hz. unfold sys. destruct (o (w_n w)); try exact Hz;
    destruct (perform (w_fs w)) as [[r a] f']; exact Hz.
Qed.

Lemma zt_get_tr : zt get_tr. Proof. intros o w H. exact H. Qed.
Lemma zt_mod_tr g : (forall t, Zt t -> Zt (g t)) -> zt (mod_tr g).
Proof. intros Hg o w H. cbn. apply Hg. exact H. Qed.

Lemma Zt_push fr t : Zt (tr_push fr t).
Proof. intros H. discriminate H. Qed.
Lemma Zt_try t : Zt t -> Zt (tr_try t).
Proof.
  intros H. unfold tr_try. destruct (tr_ok t) eqn:E.
  - intros _. cbn [t_post]. apply H. exact E.
  - intros H'. unfold tr_ok in *. cbn [t_frames] in H'. congruence.
Qed.
Lemma Zt_rethrow_context s t : Zt t -> Zt (tr_rethrow_context s t).
Proof.
  intros H. unfold tr_rethrow_context. destruct (Nat.eqb (t_post t) 0 && negb (tr_ok t)); [apply Zt_push | exact H].
Qed.
Lemma Zt_decrement t : Zt t -> Zt (snd (tr_decrement t)).
Proof.
  intros H. unfold tr_decrement. destruct (t_post t) as [|p] eqn:E; cbn [snd].
  - intros _. reflexivity.
  - intros H'. unfold tr_ok in *. cbn [t_frames] in H'. specialize (H H'). congruence.
Qed.
Lemma Zt_finally_rethrow m t : Zt t -> Zt (tr_finally_rethrow_static m t).
Proof.
  intros H. unfold tr_finally_rethrow_static. pose proof (Zt_decrement t H) as H'.
  destruct (tr_decrement t) as [b t']. cbn [snd] in H'.
  destruct (b && negb (tr_ok t')); [apply Zt_push | exact H'].
Qed.

Ltac zt_with leaf :=
  repeat (lazymatch goal with
          | |- zt (ret_ _) => apply zt_ret
          | |- zt (bind _ _) => apply zt_bind; [|intros ?]
          | |- zt get_tr => apply zt_get_tr
          | |- zt (sys _ _ _) => apply zt_sys
          | |- zt (sys_unit _ _) => unfold sys_unit
          | |- zt (k_open_gen _ _) => unfold k_open_gen
          | |- zt is_ok => unfold is_ok
          | |- zt (throw _) => unfold throw; apply zt_mod_tr; intros ? ?; apply Zt_push
          | |- zt (throw_static _) => unfold throw_static
          | |- zt (throw_errno _) => unfold throw_errno
          | |- zt (throw_context _) => unfold throw_context
          | |- zt try_ => unfold try_; apply zt_mod_tr; apply Zt_try
          | |- zt (finally_rethrow_static _) =>
              unfold finally_rethrow_static; apply zt_mod_tr; apply Zt_finally_rethrow
          | |- zt (rethrow_context _) => unfold rethrow_context; apply zt_mod_tr; apply Zt_rethrow_context
          | |- zt (when_ok _ _) => unfold when_ok
          | |- zt (k_mkdir _) => unfold k_mkdir
          | |- zt (k_open_dir _) => unfold k_open_dir
          | |- zt (k_readlinkat _ _ _) => unfold k_readlinkat
          | |- zt (k_scandir _) => unfold k_scandir
          | |- zt (match ?x with _ => _ end) => destruct x
          | |- zt (if ?b then _ else _) => destruct b
          | |- zt (let '(_, _) := ?x in _) => destruct x
          | |- zt _ => leaf
          end).

Lemma zt_mkdir_all ds : zt (mkdir_all ds).
Proof. induction ds as [|a ds IH]; cbn [mkdir_all]; zt_with ltac:(exact IH). Qed.
Lemma zt_create_parents p : zt (create_parents p).
Proof. unfold create_parents. zt_with ltac:(apply zt_mkdir_all). Qed.
Lemma zt_read_entry_loop fuel : forall dir name size, zt (read_entry_loop fuel dir name size).
Proof.
  induction fuel as [|fuel IH]; intros dir name size; cbn [read_entry_loop]; [apply zt_ret|].
  zt_with ltac:(apply IH).
Qed.
Lemma zt_read_entry q name : zt (read_entry q name).
Proof. unfold read_entry. zt_with ltac:(apply zt_read_entry_loop). Qed.
Lemma zt_fill_bag q names : forall bag, zt (fill_bag q names bag).
Proof.
  induction names as [|x names IH]; intros bag; cbn [fill_bag]; [apply zt_ret|].
  zt_with ltac:(first [apply zt_read_entry | apply IH]).
Qed.
Lemma zt_load_linq_aux fuel : forall tc path deb g, zt (load_linq_aux tc fuel path deb g).
Proof.
  induction fuel as [|fuel IH]; intros tc path deb g; cbn [load_linq_aux];
    zt_with ltac:(first [apply zt_create_parents | apply zt_fill_bag | apply IH]).
Qed.
Lemma zt_load_linq path deb g : zt (load_linq path deb g).
Proof. apply zt_load_linq_aux. Qed.

(* the restart: load_linq_ok, with the clock and the trace *)
Lemma restart_loads o q ents deb g w :
  benign o -> tr_ok (w_tr w) = true -> t_post (w_tr w) = 0 ->
  keys_nodup (w_fs w) -> qclean (q_dir q) (w_fs w) -> QRel q (w_fs w) ents ->
  Forall (fits g) ents ->
  exists q' w',
    load_linq (q_dir q) deb g o w = (Some (Some q'), w') /\
    QRel q' (w_fs w') ents /\ q_dir q' = q_dir q /\ q_deb q' = deb /\ q_len_guess q' = g /\
    w_fs w' = w_fs w /\ tr_ok (w_tr w') = true /\ t_post (w_tr w') = 0 /\ w_clock w' = w_clock w.
Proof.
  intros Ho Hok Hp Hnd Hcl HR Hg.
  destruct (load_linq_ok o q ents deb g w Ho Hok Hnd Hcl HR Hg) as (q' & w' & E & A1 & A2 & A3 & A4 & A5 & A6).
  exists q', w'. repeat (split; [assumption|]).
  pose proof (zt_load_linq (q_dir q) deb g o w (fun _ => Hp)) as Hz.
  pose proof (ck_load_linq (q_dir q) deb g o w) as Hc.
  rewrite E in Hz, Hc. cbn [snd] in Hz, Hc. split; [apply Hz; exact A6 | exact Hc].
Qed.

(* ====================================================================== *)
(* 2. the side conditions                                                  *)
(* ====================================================================== *)

Section Recover.
Variables (cfg : config) (cpl : nat) (oj : option journal) (d : str) (f0 : fs) (now now2 : Z)
          (es : list entry) (q0 : qmem).

Notation n := (length es).
Notation ents := (map qent_of es).
Notation h0 := (q_head q0).

(* the candidate names: base, base-1 (before the extension) at a clock c *)
Definition cdn (c : Z) (e : entry) (j : nat) : str := cand cfg cpl c (e_path e) j.
Definition offp (e : entry) : str := offset_name cfg cpl (e_path e).
(* the two clocks: of the crashed pass and of the pass after the restart *)
Definition clk (c : Z) : Prop := c = now \/ c = now2.

(* conditions on the names alone: the candidate names of different entries,
   their ancestors, the offset paths and the queue directory do not collide *)
Record rec_names : Prop := {
  RN_nodup : NoDup (map e_path es);
  RN_inj : forall c c' e e' j j', clk c -> clk c' -> In e es -> In e' es -> j <= 1 -> j' <= 1 ->
             cdn c e j = cdn c' e' j' -> e_path e = e_path e' /\ j = j';
  RN_npar : forall c c' e e' j j', clk c -> clk c' -> In e es -> In e' es -> j <= 1 -> j' <= 1 ->
             ~ In (cdn c e j) (parents_of (cdn c' e' j'));
  RN_dq : forall c e j, clk c -> In e es -> j <= 1 -> Str.under d (cdn c e j) = false;
  RN_off_dq : forall e, In e es -> Str.under d (offp e) = false;
  RN_off : forall c e e' j, clk c -> In e es -> In e' es -> j <= 1 ->
             offp e <> cdn c e' j /\ ~ In (offp e) (parents_of (cdn c e' j)) /\
             ~ In (cdn c e' j) (parents_of (offp e)) /\
             ~ In (cdn c e' j) (dchain (length (offp e)) (offp e))
}.

(* conditions on the initial world *)
Record rec_init : Prop := {
  RI_shape : forall e, In e es ->
      prefixb [ch_slash] (e_path e) = true /\ is_slash (last (e_path e) ch_dot) = false /\
      cpl <= length (e_path e);
  RI_ver : forall c, clk c ->
      length (version_of cfg c) <= name_max /\ existsb is_slash (version_of cfg c) = false /\
      journal_fits oj (c_ev_stored cfg) c;
  RI_root : exists r, c_store_root cfg = ch_slash :: r;
  RI_offroot : exists r, c_offset_root cfg = ch_slash :: r;
  (* no version with these names yet; nothing but directories above them *)
  RI_free : forall c e j, clk c -> In e es -> j <= 1 -> lookup f0 (cdn c e j) = None;
  RI_par : forall c e j x, clk c -> In e es -> j <= 1 -> In x (parents_of (cdn c e j)) ->
      lookup f0 x = Some NDir \/ lookup f0 x = None;
  (* no remembered position (the paths are not history paths) *)
  RI_off : forall e, In e es ->
      lookup f0 (offp e) = None /\
      forall x, In x (parents_of (offp e)) -> lookup f0 x = Some NDir \/ lookup f0 x = None;
  (* the sources: readable regular files *)
  RI_src : forall e, In e es ->
      lookup f0 (e_path e) = Some (NFile (e_ino e)) /\
      get_file f0 (e_ino e) = mkFile (e_bytes e) true /\
      e_ino e < fs_next f0 /\ nj oj (e_ino e);
  RI_j : forall jn, oj = Some jn -> j_ino jn < fs_next f0;
  RI_nodup : keys_nodup f0;
  RI_wft : wft f0;
  RI_qclean : qclean d f0;
  (* the queue holds exactly the entries *)
  RI_q : QRel q0 f0 ents;
  RI_qd : q_dir q0 = d
}.

Hypothesis RN : rec_names.
Hypothesis RI : rec_init.

Lemma clk_now : clk now. Proof. left. reflexivity. Qed.
Lemma clk_now2 : clk now2. Proof. right. reflexivity. Qed.

Lemma cdn_dst e : cdn now e 0 = dstE cfg cpl now e.
Proof. apply cand_0. Qed.

Lemma NK_of : names_ok cfg cpl d now es.
Proof.
  constructor.
  - exact (RN_nodup RN).
  - intros e e' He He' E. rewrite <- !cdn_dst in E.
    exact (proj1 (RN_inj RN now now e e' 0 0 clk_now clk_now He He' (Nat.le_0_l _) (Nat.le_0_l _) E)).
  - intros e e' He He'. rewrite <- !cdn_dst.
    apply (RN_npar RN); auto using clk_now.
  - intros e He. rewrite <- cdn_dst. apply (RN_dq RN); auto using clk_now.
  - exact (RN_off_dq RN).
  - intros e e' He He'. rewrite <- cdn_dst.
    destruct (RN_off RN now e e' 0 clk_now He He' (Nat.le_0_l _)) as [A [B _]]. split; assumption.
Qed.

Lemma IK_of : init_ok cfg cpl oj d f0 now es h0 q0.
Proof.
  constructor.
  - intros e He. rewrite <- cdn_dst. apply (RI_free RI); auto using clk_now.
  - intros e x He Hx. rewrite <- cdn_dst in Hx. apply (RI_par RI now e 0 x); auto using clk_now.
  - intros e He. exact (proj1 (RI_off RI e He)).
  - exact (RI_src RI).
  - exact (RI_j RI).
  - exact (RI_nodup RI).
  - exact (RI_wft RI).
  - exact (RI_q RI).
  - exact (RI_qd RI).
  - reflexivity.
Qed.

Let Hdnr : d <> root_path.
Proof. rewrite <- (RI_qd RI). exact (QR_nroot _ _ _ (RI_q RI)). Qed.

Lemma same_path_eq e e' : In e es -> In e' es -> e_path e = e_path e' -> e = e'.
Proof.
  intros He He' E.
  destruct (In_nth_error _ _ He) as [j Hj]. destruct (In_nth_error _ _ He') as [j' Hj'].
  pose proof (RN_nodup RN) as Hnd. rewrite NoDup_nth_error in Hnd.
  assert (j = j').
  { apply Hnd.
    - rewrite map_length. apply nth_error_Some. congruence.
    - rewrite (map_nth_error e_path _ _ Hj), (map_nth_error e_path _ _ Hj'). congruence. }
  subst j'. congruence.
Qed.

(* ====================================================================== *)
(* 3. from the crash frame to the hypotheses of the second pass            *)
(* ====================================================================== *)

Section After.
Variables (k : nat) (q : qmem) (f : fs).
Hypothesis HL : L cfg cpl oj d f0 now es h0 k q f.

Lemma not_qname x j : Str.under d x = false -> x <> qname d h0 j.
Proof.
  intros Hu ->. unfold qname in Hu. rewrite (under_join d _ Hdnr) in Hu. discriminate.
Qed.

(* a candidate name of the second pass: the first candidate of the crashed
   pass for the same entry, or a name that is still free *)
Lemma cand_status e jj : In e es -> jj <= 1 ->
  (cdn now2 e jj = dstE cfg cpl now e /\ jj = 0) \/ lookup f (cdn now2 e jj) = None.
Proof.
  intros He Hjj. set (x := cdn now2 e jj).
  destruct (str_in_dec x (map (dstE cfg cpl now) es)) as [Hin|Hnin].
  - left. apply in_map_iff in Hin. destruct Hin as [e' [E He']].
    rewrite <- cdn_dst in E. symmetry in E.
    destruct (RN_inj RN now2 now e e' jj 0 clk_now2 clk_now He He' Hjj (Nat.le_0_l _) E) as [Ep Ej].
    rewrite (same_path_eq e e' He He' Ep). rewrite <- cdn_dst. split; [exact E | exact Ej].
  - right. rewrite (L_other _ _ _ _ _ _ _ _ _ _ _ HL x).
    + apply (RI_free RI); auto using clk_now2.
    + split.
      * intros j _. apply not_qname. apply (RN_dq RN); auto using clk_now2.
      * intros e' He'. split.
        -- intros E. apply Hnin. apply in_map_iff. exists e'. auto.
        -- rewrite <- cdn_dst. apply (RN_npar RN); auto using clk_now, clk_now2.
Qed.

Lemma cur_status j e : nth_error es j = Some e -> k <= j ->
  lookup f (dstE cfg cpl now e) = None \/
  exists i, lookup f (dstE cfg cpl now e) = Some (NFile i).
Proof.
  intros He Hj. destruct (Nat.eq_dec j k) as [->|Hne].
  - destruct (L_cur _ _ _ _ _ _ _ _ _ _ _ HL e He) as [A|[i [A _]]]; [left; exact A | right; exists i; exact A].
  - left. apply (L_todo _ _ _ _ _ _ _ _ _ _ _ HL j e He). lia.
Qed.

Lemma Exists_parent_dec y :
  {Exists (fun e' => In y (parents_of (dstE cfg cpl now e'))) es} +
  {~ Exists (fun e' => In y (parents_of (dstE cfg cpl now e'))) es}.
Proof. apply Exists_dec. intros e'. apply str_in_dec. Qed.

(* above a candidate name there is nothing but directories *)
Lemma par_status c e jj y : clk c -> In e es -> jj <= 1 -> In y (parents_of (cdn c e jj)) ->
  lookup f y = Some NDir \/ lookup f y = None.
Proof.
  intros Hc He Hjj Hy.
  destruct (Exists_parent_dec y) as [Hex|Hnex].
  - apply Exists_exists in Hex. destruct Hex as [e' [He' Hp]].
    exact (L_par _ _ _ _ _ _ _ _ _ _ _ HL e' y He' Hp).
  - rewrite (L_other _ _ _ _ _ _ _ _ _ _ _ HL y).
    + exact (RI_par RI c e jj y Hc He Hjj Hy).
    + split.
      * intros j _. apply not_qname.
        exact (proj1 (under_parent_false d _ _ (RN_dq RN c e jj Hc He Hjj) Hy)).
      * intros e' He'. split.
        -- intros ->. rewrite <- cdn_dst in Hy.
           exact (RN_npar RN now c e' e 0 jj clk_now Hc He' He (Nat.le_0_l _) Hjj Hy).
        -- intros Hp. apply Hnex. apply Exists_exists. exists e'. auto.
Qed.

Lemma off_par_status e y : In e es -> In y (parents_of (offp e)) ->
  lookup f y = Some NDir \/ lookup f y = None.
Proof.
  intros He Hy.
  destruct (Exists_parent_dec y) as [Hex|Hnex].
  - apply Exists_exists in Hex. destruct Hex as [e' [He' Hp]].
    exact (L_par _ _ _ _ _ _ _ _ _ _ _ HL e' y He' Hp).
  - rewrite (L_other _ _ _ _ _ _ _ _ _ _ _ HL y).
    + exact (proj2 (RI_off RI e He) y Hy).
    + split.
      * intros j _. apply not_qname.
        exact (proj1 (under_parent_false d _ _ (RN_off_dq RN e He) Hy)).
      * intros e' He'. split.
        -- intros ->. rewrite <- cdn_dst in Hy.
           destruct (RN_off RN now e e' 0 clk_now He He' (Nat.le_0_l _)) as [_ [_ [A _]]]. exact (A Hy).
        -- intros Hp. apply Hnex. apply Exists_exists. exists e'. auto.
Qed.

Lemma taken_ok_build e kk :
  In e es -> kk <= 1 ->
  (forall j, j < kk -> taken f (cdn now2 e j)) ->
  lookup f (cdn now2 e kk) = None ->
  taken_ok cfg cpl oj d f now2 (e_path e) (e_ino e) (e_bytes e) kk.
Proof.
  intros He Hkk Htk Hfree.
  destruct (RI_shape RI e He) as [Sa [Sl Sc]].
  destruct (RI_ver RI now2 clk_now2) as [Vl [Vs Vj]].
  destruct (L_src _ _ _ _ _ _ _ _ _ IK_of _ _ _ e HL He) as [S1 [S2 S3]].
  destruct (RN_off RN now2 e e kk clk_now2 He He Hkk) as [O1 [O2 [_ O4]]].
  constructor; fold (cdn now2 e kk); fold (offp e); try assumption.
  - exact (RI_root RI).
  - intros j Hj. apply (RN_dq RN); auto using clk_now2. lia.
  - intros y Hy. exact (par_status now2 e kk y clk_now2 He Hkk Hy).
  - apply (RN_dq RN); auto using clk_now2.
  - exact (L_off _ _ _ _ _ _ _ _ _ NK_of IK_of _ _ _ e HL He).
  - apply missing_enoent_parents.
    + apply offset_name_abs. exact (RI_offroot RI).
    + intros y Hy. exact (off_par_status e y He Hy).
  - intros jn Hj. destruct (RI_src RI e He) as [_ [_ [_ Hn]]]. split.
    + intros E. exact (Hn jn Hj (eq_sym E)).
    + pose proof (RI_j RI jn Hj). pose proof (L_next _ _ _ _ _ _ _ _ _ _ _ HL). lia.
Qed.

(* the number of taken candidate names of an entry, read off the disk *)
Definition ke (e : entry) : nat :=
  match lookup f (cdn now2 e 0) with None => 0 | Some _ => 1 end.

Lemma ke_le e : ke e <= 1.
Proof. unfold ke. destruct (lookup f (cdn now2 e 0)); lia. Qed.

Lemma remaining_taken_ok j e : nth_error es j = Some e -> k <= j ->
  taken_ok cfg cpl oj d f now2 (e_path e) (e_ino e) (e_bytes e) (ke e).
Proof.
  intros He Hj. pose proof (nth_error_In _ _ He) as Hin. unfold ke.
  destruct (lookup f (cdn now2 e 0)) as [nd|] eqn:E0.
  - apply taken_ok_build; [exact Hin | lia | |].
    + intros j0 Hj0. assert (j0 = 0) by lia. subst j0.
      destruct (cand_status e 0 Hin (Nat.le_0_l _)) as [[Ex _]|Ex]; [|congruence].
      apply taken_of_wft.
      * exact (L_wft _ _ _ _ _ _ _ _ _ _ _ HL).
      * apply cand_abs. exact (RI_root RI).
      * rewrite E0. discriminate.
      * intros Er. destruct (cur_status j e He Hj) as [A|[i A]]; rewrite <- Ex, Er in A; cbn in A; discriminate.
    + destruct (cand_status e 1 Hin (Nat.le_refl _)) as [[_ Ex]|Ex]; [discriminate | exact Ex].
  - apply taken_ok_build; [exact Hin | lia | intros j0 Hj0; lia | exact E0].
Qed.

Lemma pair_ok_of e' k' e k1 :
  In e es -> In e' es -> e_path e <> e_path e' -> k1 <= 1 -> k' <= 1 ->
  pair_ok cfg cpl now2 e' k' e k1.
Proof.
  intros He He' Hne H1 H2.
  destruct (RN_off RN now2 e e' k' clk_now2 He He' H2) as [O1 [O2 [_ O4]]].
  constructor; fold (cdn now2 e k1); fold (cdn now2 e' k'); fold (offp e).
  - intros E. apply Hne. exact (proj1 (RN_inj RN now2 now2 e e' k1 k' clk_now2 clk_now2 He He' H1 H2 E)).
  - apply (RN_npar RN); auto using clk_now2.
  - apply (RN_npar RN); auto using clk_now2.
  - exact O1.
  - exact O2.
  - exact O4.
Qed.

Definition with_ke (l : list entry) : list (entry * nat) := map (fun e => (e, ke e)) l.

Lemma all_taken_build : forall l,
  (forall e, In e l -> In e es) -> NoDup (map e_path l) ->
  (forall e, In e l -> taken_ok cfg cpl oj d f now2 (e_path e) (e_ino e) (e_bytes e) (ke e)) ->
  all_taken cfg cpl oj d now2 f (with_ke l).
Proof.
  induction l as [|e l IH]; intros Hsub Hnd Hok; [exact I|].
  cbn [with_ke map all_taken]. inversion Hnd as [|? ? Hnin Hnd']; subst.
  split; [apply Hok; left; reflexivity|]. split.
  - apply Forall_forall. intros [e1 k1] Hin. apply in_map_iff in Hin. destruct Hin as [e2 [E He2]].
    inversion E; subst e2 k1. cbn [fst snd].
    apply pair_ok_of; [apply Hsub; right; exact He2 | apply Hsub; left; reflexivity | | apply ke_le | apply ke_le].
    intros Ep. apply Hnin. rewrite <- Ep. apply in_map. exact He2.
  - apply IH; [intros e' He'; apply Hsub; right; exact He' | exact Hnd' | intros e' He'; apply Hok; right; exact He'].
Qed.

Lemma skipn_In {A} j (l : list A) x : In x (skipn j l) -> exists i, j <= i /\ nth_error l i = Some x.
Proof.
  revert l. induction j as [|j IH]; intros l Hin.
  - destruct (In_nth_error _ _ Hin) as [i Hi]. exists i. split; [lia | exact Hi].
  - destruct l as [|y l]; [destruct Hin|]. cbn [skipn] in Hin.
    destruct (IH l Hin) as [i [Hi Hn]]. exists (S i). split; [lia | exact Hn].
Qed.

Lemma NoDup_skipn {A} j (l : list A) : NoDup l -> NoDup (skipn j l).
Proof.
  revert l. induction j as [|j IH]; intros l H; [exact H|].
  destruct l as [|y l]; [exact H|]. cbn [skipn]. apply IH. inversion H; assumption.
Qed.

Lemma remaining_all_taken : all_taken cfg cpl oj d now2 f (with_ke (skipn k es)).
Proof.
  apply all_taken_build.
  - intros e He. destruct (skipn_In k es e He) as [i [_ Hi]]. eapply nth_error_In; eauto.
  - rewrite <- skipn_map. apply NoDup_skipn. exact (RN_nodup RN).
  - intros e He. destruct (skipn_In k es e He) as [i [Hi Hn]]. exact (remaining_taken_ok i e Hn Hi).
Qed.

Lemma remaining_ents : map ek_ent (with_ke (skipn k es)) = skipn k ents.
Proof. unfold with_ke. rewrite map_map. unfold ek_ent. cbn [fst]. rewrite <- skipn_map. reflexivity. Qed.

Lemma no_repeat_nodup : forall l, NoDup (map e_path l) -> no_repeat (with_ke l).
Proof.
  induction l as [|e l IH]; intros Hnd; [exact I|]. inversion Hnd as [|? ? Hnin Hnd']; subst.
  cbn [with_ke map no_repeat fst]. split; [|apply IH; exact Hnd'].
  rewrite occurs_count. fold (with_ke l).
  assert (Hc : count_paths (e_path e) (map ek_ent (with_ke l)) = 0).
  { apply count_paths_none. intros x Hx E. apply in_map_iff in Hx. destruct Hx as [[e1 k1] [<- Hx]].
    apply in_map_iff in Hx. destruct Hx as [e2 [E2 He2]]. inversion E2; subst e2 k1.
    apply Hnin. unfold ek_ent, qent_of, qpath in E. cbn [fst] in E. rewrite <- E. apply in_map. exact He2. }
  rewrite Hc. reflexivity.
Qed.

(* the queue directory still holds nothing but numbered links *)
Lemma L_qclean : qclean d f.
Proof.
  destruct (RI_qclean RI) as [Hne Hc]. split; [exact Hne|].
  intros p Hd Hr Hp.
  destruct (dirname_inside p d Hd Hdnr Hne) as [r Er].
  assert (Hu : Str.under d p = true).
  { unfold Str.under. apply prefixb_spec. exists r. rewrite Er, <- app_assoc. reflexivity. }
  destruct (lookup f0 p) as [nd|] eqn:E0.
  - apply (Hc p Hd Hr). congruence.
  - (* p is new: impossible inside the queue directory *)
    exfalso.
    assert (Hun : untouched cfg cpl d now es h0 p \/ exists j, p = qname d h0 j).
    { destruct (str_in_dec p (map (qname d h0) (seq 0 n))) as [Hin|Hnin].
      - right. apply in_map_iff in Hin. destruct Hin as [j [E _]]. exists j. auto.
      - left. split.
        + intros j Hj E. apply Hnin. apply in_map_iff. exists j. split; [auto|]. apply in_seq. lia.
        + intros e He. pose proof (NK_dq _ _ _ _ _ NK_of e He) as Hq. split.
          * intros E. congruence.
          * intros Hpp. rewrite (proj1 (under_parent_false d _ _ Hq Hpp)) in Hu. discriminate. }
    destruct Hun as [Hun|[j ->]].
    + rewrite (L_other _ _ _ _ _ _ _ _ _ _ _ HL p Hun) in Hp. congruence.
    + (* a numbered name: free in f0, and the pass creates no link *)
      pose proof (L_q _ _ _ _ _ _ _ _ _ _ _ HL) as HR.
      destruct (lookup f (qname d h0 j)) as [nd|] eqn:Ef; [|congruence].
      (* it is in the window of the current queue: then it was a link at the start *)
      destruct (Nat.lt_ge_cases j k) as [Hlt|Hge].
      * (* popped: free *)
        assert (Hfree : lookup f (qname d h0 j) = None).
        { unfold qname. rewrite <- (L_dir _ _ _ _ _ _ _ _ _ _ _ HL).
          apply (QR_free _ _ _ HR).
          destruct (Nat.lt_ge_cases k n) as [Hkn|Hkn].
          - left. rewrite (L_head _ _ _ _ _ _ _ _ _ _ _ HL Hkn). lia.
          - right. rewrite skipn_all2 by (rewrite map_length; lia). cbn [length].
            rewrite (QR_head0 _ _ _ HR) by (apply skipn_all2; rewrite map_length; lia). lia. }
        congruence.
      * destruct (Nat.lt_ge_cases j n) as [Hjn|Hjn].
        -- (* still queued: a link at the start *)
           destruct (nth_error ents j) as [[[p1 m1] t1]|] eqn:En.
           ++ pose proof (QR_ent _ _ _ (RI_q RI) j p1 m1 t1 En) as Hl.
              rewrite (RI_qd RI) in Hl. fold (qname d h0 j) in Hl. congruence.
           ++ apply nth_error_None in En. rewrite map_length in En. lia.
        -- assert (Hfree : lookup f (qname d h0 j) = None).
           { unfold qname. rewrite <- (L_dir _ _ _ _ _ _ _ _ _ _ _ HL).
             apply (QR_free _ _ _ HR). rewrite skipn_length, map_length.
             destruct (Nat.lt_ge_cases k n) as [Hkn|Hkn].
             - right. rewrite (L_head _ _ _ _ _ _ _ _ _ _ _ HL Hkn). lia.
             - right. rewrite (QR_head0 _ _ _ HR) by (apply skipn_all2; rewrite map_length; lia). lia. }
           congruence.
Qed.

End After.

(* ====================================================================== *)
(* 4. the recovery theorem                                                 *)
(* ====================================================================== *)

Lemma nth_skipn_In {A} (l : list A) : forall k j x, nth_error l j = Some x -> k <= j -> In x (skipn k l).
Proof.
  induction l as [|y l IH]; intros k j x H Hk; [destruct j; discriminate|].
  destruct k as [|k]; [eapply nth_error_In; exact H|].
  destruct j as [|j]; [lia|]. cbn [skipn nth_error] in *. apply (IH k j x H). lia.
Qed.

Lemma firstn_In_nth {A} (l : list A) : forall k x, In x (firstn k l) -> exists j, j < k /\ nth_error l j = Some x.
Proof.
  induction l as [|y l IH]; intros k x H; [destruct k; destruct H|].
  destruct k as [|k]; [destruct H|]. cbn [firstn] in H. destruct H as [<-|H].
  - exists 0. split; [lia | reflexivity].
  - destruct (IH k x H) as [j [Hj Hn]]. exists (S j). split; [lia | exact Hn].
Qed.

Lemma nth_firstn_In {A} (l : list A) : forall k j x, nth_error l j = Some x -> j < k -> In x (firstn k l).
Proof.
  induction l as [|y l IH]; intros k j x H Hk; [destruct j; discriminate|].
  destruct k as [|k]; [lia|]. destruct j as [|j]; cbn [firstn nth_error] in *.
  - left. congruence.
  - right. apply (IH k j x H). lia.
Qed.

(* the new names of an entry: one if it was popped before the crash, else two *)
Definition versions (k : nat) (f : fs) (e : entry) : list str :=
  if str_in_dec (e_path e) (map e_path (firstn k es))
  then [cdn now e 0] else [cdn now e 0; cdn now2 e (ke f e)].

Theorem crash_then_recover (o : oracle) (rev : bool) (h : handler) (w : world)
        (o2 : oracle) (w2 : world) (rev2 : bool) :
  honest o -> benign o2 ->
  h_cfg h = cfg -> h_cpl h = cpl -> h_journal h = oj -> h_q h = q0 ->
  w_fs w = f0 -> w_clock w = now ->
  (* the restart finds the disk the pass has left, at a clock at which the entries are due *)
  w_fs w2 = w_fs (snd (handle_timeout rev h o w)) -> w_clock w2 = now2 ->
  tr_ok (w_tr w2) = true -> t_post (w_tr w2) = 0 ->
  Forall (fun e => (q_deb q0 <= now2 - e_time e)%Z) es ->
  exists (k : nat) (q2 : qmem) (w2' : world) (h3 : handler) (w3 : world),
    k <= n /\
    (* the queue is reloaded: the entries k, k+1, ... *)
    load_linq d (q_deb q0) (q_len_guess q0) o2 w2 = (Some (Some q2), w2') /\
    QRel q2 (w_fs w2') (skipn k ents) /\ w_fs w2' = w_fs w2 /\
    (* the pass after the restart: no error, the queue is empty *)
    handle_timeout rev2 (set_q q2 h) o2 w2' = (Some (TPause (-1), h3), w3) /\
    QRel (h_q h3) (w_fs w3) [] /\ tr_ok (w_tr w3) = true /\
    let f3 := w_fs w3 in
    (* (R1) at least one complete version of every entry *)
    (forall e, In e es -> exists x i,
        (x = cdn now e 0 \/ x = cdn now2 e 0 \/ x = cdn now2 e 1) /\
        lookup f3 x = Some (NFile i) /\ f_bytes (get_file f3 i) = e_bytes e) /\
    (* (R2) what was there is unchanged *)
    (forall x i, lookup f0 x = Some (NFile i) -> Str.under d x = false -> i < fs_next f0 -> nj oj i ->
        lookup f3 x = Some (NFile i) /\ get_file f3 i = get_file f0 i) /\
    (* (R3) at most two new files per entry, one for the entries popped before the crash *)
    exists vs : entry -> list str,
      (forall e, length (vs e) <= 2) /\
      (forall e x, In x (vs e) -> x = cdn now e 0 \/ x = cdn now2 e 0 \/ x = cdn now2 e 1) /\
      (forall j e, nth_error es j = Some e -> j < k -> vs e = [cdn now e 0]) /\
      (forall x i, lookup f3 x = Some (NFile i) -> lookup f0 x = None ->
                   exists e, In e es /\ In x (vs e)).
Proof.
  intros Ho Ho2 Hcfg Hcpl Hoj Hq Hf Hc Hf2 Hc2 Hok2 Hp2 Hdue.
  pose proof NK_of as NK. pose proof IK_of as IK.
  destruct (crash_frame_pass cfg cpl oj d f0 now es h0 q0 NK IK o rev h w Ho
              (conj Hcfg (conj Hcpl Hoj)) Hq Hf Hc) as [k [q' [Hk HL]]].
  set (f := w_fs (snd (handle_timeout rev h o w))) in *.
  (* the restart *)
  pose proof (L_qclean k q' f HL) as Hcl.
  pose proof (L_q _ _ _ _ _ _ _ _ _ _ _ HL) as HRq.
  pose proof (L_dir _ _ _ _ _ _ _ _ _ _ _ HL) as Hdq.
  assert (Hfits : Forall (fits (q_len_guess q0)) (skipn k ents)).
  { apply Forall_skipn. pose proof (QR_wf _ _ _ (RI_q RI)) as Hw.
    eapply Forall_impl; [|exact Hw]. intros x [_ Hx]. exact Hx. }
  destruct (restart_loads o2 q' (skipn k ents) (q_deb q0) (q_len_guess q0) w2 Ho2 Hok2 Hp2)
    as (q2 & w2' & El & HR2 & Hd2 & Hdeb2 & Hg2 & Hfs2 & Hok2' & Hp2' & Hc2');
    try (rewrite Hf2); try assumption.
  { exact (L_nodup _ _ _ _ _ _ _ _ _ _ _ HL). }
  { rewrite Hdq. exact Hcl. }
  rewrite Hdq in El, Hd2. rewrite Hf2 in Hfs2. fold f in Hfs2.
  (* the second pass *)
  set (l := with_ke f (skipn k es)).
  assert (Hlen : length l = length (skipn k ents)).
  { unfold l, with_ke. rewrite !map_length, !skipn_length, map_length. reflexivity. }
  destruct (pass_taken cfg cpl oj d now2 o2 rev2 Ho2 l (S (S (N.to_nat (q_size q2)))) (set_q q2 h) w2')
    as (h3 & w3 & E3 & HR3 & Hd3 & Hok3 & Hc3 & HK); try assumption.
  { congruence. }
  { rewrite Hfs2. exact (L_nodup _ _ _ _ _ _ _ _ _ _ _ HL). }
  { cbn [set_q h_q]. unfold l. rewrite remaining_ents. exact HR2. }
  { cbn [set_q h_q]. rewrite Hdeb2. unfold l, with_ke. apply Forall_forall.
    intros [e1 k1] Hin. apply in_map_iff in Hin. destruct Hin as [e2 [E He2]]. inversion E; subst e2 k1.
    cbn [fst]. rewrite Forall_forall in Hdue. apply Hdue.
    destruct (skipn_In k es e1 He2) as [i [_ Hi]]. eapply nth_error_In; eauto. }
  { unfold l. apply no_repeat_nodup. rewrite <- skipn_map. apply NoDup_skipn. exact (RN_nodup RN). }
  { rewrite Hfs2. unfold l. exact (remaining_all_taken k q' f HL). }
  { cbn [set_q h_q]. rewrite (QR_size _ _ _ HR2), Nat2N.id. lia. }
  rewrite Hfs2 in HK.
  exists k, q2, w2', h3, w3.
  split; [exact Hk|]. split; [exact El|]. split; [exact HR2|]. split; [congruence|].
  split.
  { unfold handle_timeout. cbn [set_q h_q].
    rewrite (bind_some _ _ _ _ _ _ E3). rewrite (bind_some _ _ _ _ _ _ (is_ok_eq o2 w3)). rewrite Hok3.
    reflexivity. }
  split; [exact HR3|]. split; [exact Hok3|].
  cbv zeta. set (f3 := w_fs w3) in *.
  destruct HK as [K1 K2 K3 K4 K5 K6].
  assert (Hnew : forall i, fs_next f0 <= i -> nj2 oj i).
  { intros i Hi jn Hj E. pose proof (RI_j RI jn Hj). lia. }
  assert (Hdst_u : forall e, In e es -> Str.under d (dstE cfg cpl now e) = false)
    by (intros e He; apply (NK_dq _ _ _ _ _ NK e He)).
  split; [|split].
  - (* R1 *)
    intros e He. destruct (In_nth_error _ _ He) as [j Hj].
    destruct (Nat.lt_ge_cases j k) as [Hlt|Hge].
    + destruct (L_done _ _ _ _ _ _ _ _ _ _ _ HL j e Hj Hlt) as [i [A [B [C D]]]].
      exists (cdn now e 0), i. split; [left; reflexivity|]. rewrite cdn_dst. split.
      * rewrite K1; [exact A | congruence | apply Hdst_u; exact He].
      * rewrite K2; [exact D | exact C | apply Hnew; exact B].
    + assert (Hin : In (e, ke f e) l).
      { unfold l, with_ke. apply in_map_iff. exists e. split; [reflexivity|]. eapply nth_skipn_In; eauto. }
      destruct (K4 e (ke f e) Hin) as [i [A [_ B]]].
      exists (cdn now2 e (ke f e)), i. split; [|split; [exact A | exact B]].
      pose proof (ke_le f e). destruct (ke f e) as [|[|?]]; [right; left; reflexivity | right; right; reflexivity | lia].
  - (* R2 *)
    intros x i Hx Hu Hi Hn.
    assert (Hun : untouched cfg cpl d now es h0 x).
    { split.
      - intros j _. apply not_qname. exact Hu.
      - intros e He. split.
        + intros ->. rewrite (IK_free _ _ _ _ _ _ _ _ _ IK e He) in Hx. discriminate.
        + intros Hp. destruct (IK_par _ _ _ _ _ _ _ _ _ IK e x He Hp) as [A|A]; rewrite A in Hx; discriminate. }
    pose proof (L_other _ _ _ _ _ _ _ _ _ _ _ HL x Hun) as Hlx. rewrite Hx in Hlx.
    split.
    + rewrite K1; [exact Hlx | congruence | exact Hu].
    + rewrite K2; [apply (L_files _ _ _ _ _ _ _ _ _ _ _ HL i Hi Hn) | | exact Hn].
      pose proof (L_next _ _ _ _ _ _ _ _ _ _ _ HL). lia.
  - (* R3 *)
    exists (versions k f). split; [|split; [|split]].
    + intros e. unfold versions. destruct (str_in_dec _ _); cbn [length]; lia.
    + intros e x. unfold versions. destruct (str_in_dec _ _); cbn [In].
      * intros [<-|[]]. left. reflexivity.
      * intros [<-|[<-|[]]]; [left; reflexivity|].
        pose proof (ke_le f e). destruct (ke f e) as [|[|?]]; [right; left; reflexivity | right; right; reflexivity | lia].
    + intros j e Hj Hlt. unfold versions. destruct (str_in_dec _ _) as [_|Hnin]; [reflexivity|].
      exfalso. apply Hnin. apply in_map. eapply nth_firstn_In; eauto.
    + intros x i Hx H0.
      assert (Hvs_dst : forall e, In (cdn now e 0) (versions k f e)).
      { intros e. unfold versions. destruct (str_in_dec _ _); left; reflexivity. }
      destruct (lookup f x) as [nd|] eqn:Efx.
      * (* left by the crashed pass *)
        destruct (str_in_dec x (map (dstE cfg cpl now) es)) as [Hin|Hnin].
        { apply in_map_iff in Hin. destruct Hin as [e [E He]]. exists e. split; [exact He|].
          rewrite <- E, <- cdn_dst. apply Hvs_dst. }
        exfalso.
        destruct (Exists_parent_dec x) as [Hex|Hnex].
        { apply Exists_exists in Hex. destruct Hex as [e [He Hp]].
          assert (Hxu : Str.under d x = false)
            by exact (proj1 (under_parent_false d _ _ (Hdst_u e He) Hp)).
          destruct (L_par _ _ _ _ _ _ _ _ _ _ _ HL e x He Hp) as [A|A]; [|congruence].
          rewrite K1 in Hx; [congruence | congruence | exact Hxu]. }
        destruct (str_in_dec x (map (qname d h0) (seq 0 n))) as [Hqn|Hnq].
        { apply in_map_iff in Hqn. destruct Hqn as [j [E _]]. subst x.
          pose proof (QR_free _ _ _ HR3 (h0 + N.of_nat j)%N) as Hfr. rewrite Hd3 in Hfr.
          fold (qname d h0 j) in Hfr. rewrite Hfr in Hx; [discriminate|].
          right. cbn [length]. rewrite (QR_head0 _ _ _ HR3 eq_refl). lia. }
        assert (Hun : untouched cfg cpl d now es h0 x).
        { split.
          - intros j Hj E. apply Hnq. apply in_map_iff. exists j. split; [auto|]. apply in_seq. lia.
          - intros e He. split.
            + intros E. apply Hnin. apply in_map_iff. exists e. auto.
            + intros Hp. apply Hnex. apply Exists_exists. exists e. auto. }
        rewrite (L_other _ _ _ _ _ _ _ _ _ _ _ HL x Hun) in Efx. congruence.
      * (* stored by the second pass *)
        destruct (K5 x i Hx Efx) as [e [k1 [Hin ->]]].
        unfold l, with_ke in Hin. apply in_map_iff in Hin. destruct Hin as [e2 [E He2]].
        inversion E; subst e2 k1.
        destruct (skipn_In k es e He2) as [j [Hj Hn]].
        exists e. split; [eapply nth_error_In; eauto|].
        unfold versions. destruct (str_in_dec _ _) as [Hin|_].
        -- exfalso. apply in_map_iff in Hin. destruct Hin as [e' [Ep He']].
           destruct (firstn_In_nth es k e' He') as [j' [Hj' Hn']].
           assert (e' = e).
           { apply same_path_eq; [eapply nth_error_In; eauto | eapply nth_error_In; eauto | exact Ep]. }
           subst e'. pose proof (RN_nodup RN) as Hnd. rewrite NoDup_nth_error in Hnd.
           assert (j' = j).
           { apply Hnd.
             - rewrite map_length. apply nth_error_Some. congruence.
             - rewrite (map_nth_error e_path _ _ Hn), (map_nth_error e_path _ _ Hn'). reflexivity. }
           lia.
        -- right. left. reflexivity.
Qed.

(* what the crashed pass leaves on disk (RecoverFrame.L lists the clauses): for
   some k, the queue directory holds the entries k, k+1, ...; the entries
   before k have a complete version at cand now e 0; the entry k has nothing
   there or a new file holding a PREFIX of its source; the later ones have
   nothing; above these names there are directories or nothing; every other
   name but the popped links, and every old inode but the journal, is as before *)
Theorem crash_leaves (o : oracle) (rev : bool) (h : handler) (w : world) :
  honest o ->
  h_cfg h = cfg -> h_cpl h = cpl -> h_journal h = oj -> h_q h = q0 ->
  w_fs w = f0 -> w_clock w = now ->
  exists k q', k <= n /\
    L cfg cpl oj d f0 now es (q_head q0) k q' (w_fs (snd (handle_timeout rev h o w))).
Proof.
  intros Ho Hcfg Hcpl Hoj Hq Hf Hc.
  exact (crash_frame_pass cfg cpl oj d f0 now es h0 q0 NK_of IK_of o rev h w Ho
           (conj Hcfg (conj Hcpl Hoj)) Hq Hf Hc).
Qed.

End Recover.

Print Assumptions crash_then_recover.
Print Assumptions crash_leaves.

(* ====================================================================== *)
(* 5. a queue of ONE plain entry                                           *)
(* ====================================================================== *)

(* crash at any call of the pass, restart, fault-free pass: the queue is empty,
   no error, ONE OR TWO new files, at least one of them complete *)
Corollary crash_then_recover_one cfg cpl oj d f0 now now2 e q0
          (o : oracle) (rev : bool) (h : handler) (w : world) (o2 : oracle) (w2 : world) (rev2 : bool) :
  rec_names cfg cpl d now now2 [e] -> rec_init cfg cpl oj d f0 now now2 [e] q0 ->
  honest o -> benign o2 ->
  h_cfg h = cfg -> h_cpl h = cpl -> h_journal h = oj -> h_q h = q0 ->
  w_fs w = f0 -> w_clock w = now ->
  w_fs w2 = w_fs (snd (handle_timeout rev h o w)) -> w_clock w2 = now2 ->
  tr_ok (w_tr w2) = true -> t_post (w_tr w2) = 0 ->
  (q_deb q0 <= now2 - e_time e)%Z ->
  exists (q2 : qmem) (w2' : world) (h3 : handler) (w3 : world),
    load_linq d (q_deb q0) (q_len_guess q0) o2 w2 = (Some (Some q2), w2') /\
    handle_timeout rev2 (set_q q2 h) o2 w2' = (Some (TPause (-1), h3), w3) /\
    QRel (h_q h3) (w_fs w3) [] /\ tr_ok (w_tr w3) = true /\
    let f3 := w_fs w3 in
    (* a complete version, in a file that did not exist *)
    (exists x i, lookup f0 x = None /\ lookup f3 x = Some (NFile i) /\
                 f_bytes (get_file f3 i) = e_bytes e) /\
    (* at most two new files *)
    (exists vs : list str, length vs <= 2 /\
       (forall x, In x vs -> x = cdn cfg cpl now e 0 \/ x = cdn cfg cpl now2 e 0 \/ x = cdn cfg cpl now2 e 1) /\
       forall x i, lookup f3 x = Some (NFile i) -> lookup f0 x = None -> In x vs).
Proof.
  intros RN RI Ho Ho2 Hcfg Hcpl Hoj Hq Hf Hc Hf2 Hc2 Hok2 Hp2 Hdue.
  assert (Hdue' : Forall (fun e0 : entry => (q_deb q0 <= now2 - e_time e0)%Z) [e])
    by (constructor; [exact Hdue | constructor]).
  destruct (crash_then_recover cfg cpl oj d f0 now now2 [e] q0 RN RI o rev h w o2 w2 rev2
              Ho Ho2 Hcfg Hcpl Hoj Hq Hf Hc Hf2 Hc2 Hok2 Hp2 Hdue')
    as (k & q2 & w2' & h3 & w3 & _ & El & _ & _ & E3 & HR3 & Hok3 & R1 & _ & vs & V1 & V2 & _ & V4).
  exists q2, w2', h3, w3. split; [exact El|]. split; [exact E3|]. split; [exact HR3|]. split; [exact Hok3|].
  cbv zeta in *. split.
  - destruct (R1 e (or_introl eq_refl)) as [x [i [Hx [A B]]]]. exists x, i. split; [|auto].
    destruct Hx as [->|[->| ->]]; apply (RI_free _ _ _ _ _ _ _ _ _ RI); try (left; reflexivity); try lia;
      first [left; reflexivity | right; reflexivity].
  - exists (vs e). split; [apply V1|]. split; [apply V2|].
    intros x i A B. destruct (V4 x i A B) as [e' [[<-|[]] Hin]]. exact Hin.
Qed.
Print Assumptions crash_then_recover_one.

(* ====================================================================== *)
(* 6. a concrete world: one file queued, the pass crashed at EVERY call    *)
(* ====================================================================== *)

Lemma wftb_ok f :
  forallb (fun e => str_eqb (fst e) root_path ||
                    match lookup f (dirname (fst e)) with Some NDir => true | _ => false end)
          (fs_dents f) = true -> wft f.
Proof.
  intros H x Hx Hr. rewrite forallb_forall in H.
  rewrite (lookup_nonroot _ _ Hr) in Hx.
  destruct (alookup x (fs_dents f)) as [v|] eqn:E; [|congruence].
  specialize (H (x, v) (alookup_in _ _ _ E)). cbn [fst] in H.
  apply str_eqb_neq in Hr. rewrite Hr in H. cbn [orb] in H.
  destruct (lookup f (dirname x)) as [[| |]|]; try discriminate. reflexivity.
Qed.

Module RecoverExample.
  Local Open Scope char_scope.

  Definition p_q : str := ["/"; "q"].
  Definition p_st : str := ["/"; "s"; "t"].
  Definition p_off : str := ["/"; "o"; "f"; "f"].
  Definition p_j : str := ["/"; "j"].
  Definition p_w : str := ["/"; "w"].
  Definition p_inc : str := ["/"; "w"; "/"; "i"; "n"; "c"].
  Definition p_a : str := ["/"; "w"; "/"; "i"; "n"; "c"; "/"; "a"; "."; "t"; "x"; "t"].
  Definition hello : str := ["h"; "e"; "l"; "l"; "o"].
  Definition stored : str := ["s"; "t"; "o"; "r"; "e"; "d"].

  (* store /st and offsets /off do not exist yet; versions are "v<seconds>";
     debounce 5 s; the journal /j (inode 1) is open, time stamp "<seconds>" *)
  Definition cfg0 : config :=
    mkCfg [] (mkRules [] [] [] [] [] []) p_st ["/"; "p"] ["/"; "u"] p_q (Some p_j) p_off
          ["%"; "s"] ["v"; "%"; "s"] 5%Z 0 16 None None None None None None (Some stored).
  Definition jn0 : journal := mkJ 1 ["%"; "s"].

  (* /q the queue directory, /w/inc/a.txt (inode 2, "hello") the edited file *)
  Definition fbase : fs :=
    mkFs [ (p_q, NDir); (p_w, NDir); (p_inc, NDir); (p_j, NFile 1); (p_a, NFile 2) ]
         [ (1, mkFile [] true); (2, mkFile hello true) ] 3.

  Definition q0 : qmem := mkQ p_q 0 0 5%Z 16 [].
  (* one accepted write at 10 s *)
  Definition q1 := pushed p_a q0.
  Definition f1 := add_dent (next_name q0) (NLink (encode 0 p_a) 10%Z) fbase.
  (* the common parent is "/w/" *)
  Definition h0 : handler := mkH cfg0 None 3 q1 (Some jn0) [] [].
  (* it is now 100 s *)
  Definition w0 : world := mkW f1 0 [] 100%Z tr_empty.
  Definition e_a : entry := mkE p_a 10%Z 2 hello.

  (* the two candidate names of the version *)
  Definition v0 : str := cdn cfg0 3 100 e_a 0.   (* /st/inc/a.txt/v100.txt *)
  Definition v1 : str := cdn cfg0 3 100 e_a 1.   (* /st/inc/a.txt/v100-1.txt *)

  (* ---------- evaluation: crash at every call index, restart, pass ---------- *)

  Definition crash_at (k : nat) : oracle := fun i => if Nat.eqb i k then FCrash else FNone.
  Definition fail_at (k : nat) (e : errno) : oracle := fun i => if Nat.eqb i k then FFail e else FNone.
  (* a kernel that moves 2 bytes per transfer, and the process dies at call k *)
  Definition short_crash_at (k : nat) : oracle := fun i => if Nat.eqb i k then FCrash else FShort 2.

  Definition complete (f : fs) (x : str) : bool :=
    match lookup f x with
    | Some (NFile i) => str_eqb (f_bytes (get_file f i)) hello
    | _ => false
    end.

  (* the number of files below the store *)
  Definition versions_in (f : fs) : nat :=
    length (filter (fun e => Str.under p_st (fst e) &&
                             match snd e with NFile _ => true | _ => false end) (fs_dents f)).

  (* run the pass under o; restart on the disk it leaves (fresh process:
     empty trace, call counter 0), at clock now2, with no faults *)
  Definition recovers (now2 : Z) (o : oracle) : bool :=
    let wc := snd (handle_timeout false h0 o w0) in
    let w2 := mkW (w_fs wc) 0 [] now2 tr_empty in
    match load_linq p_q 5%Z 16 no_faults w2 with
    | (Some (Some q2), w2') =>
        match handle_timeout false (set_q q2 h0) no_faults w2' with
        | (Some (TPause z, h3), w3) =>
            Z.eqb z (-1) && N.eqb (q_size (h_q h3)) 0 && tr_ok (w_tr w3) &&
            (* the queue directory is empty *)
            match children (w_fs w3) p_q with [] => true | _ => false end &&
            (* a complete version is in the store; one or two files in all *)
            (complete (w_fs w3) v0 || complete (w_fs w3) v1 ||
             complete (w_fs w3) (cdn cfg0 3 now2 e_a 0)) &&
            Nat.leb 1 (versions_in (w_fs w3)) && Nat.leb (versions_in (w_fs w3)) 2
        | _ => false
        end
    | _ => false
    end.

  (* the fault-free pass makes 15 calls *)
  Example pass_calls : w_n (snd (handle_timeout false h0 no_faults w0)) = 15.
  Proof. vm_compute. reflexivity. Qed.

  (* the process dies before call k, for EVERY k (k = 15: it does not die) *)
  Example crash_at_every_call :
    forallb (fun k => recovers 100 (crash_at k)) (seq 0 16) = true.
  Proof. vm_compute. reflexivity. Qed.

  (* the same with a restart 7 s later (another version name) *)
  Example crash_at_every_call_later :
    forallb (fun k => recovers 107 (crash_at k)) (seq 0 16) = true.
  Proof. vm_compute. reflexivity. Qed.

  (* with 2-byte transfers the pass makes more calls; crash before each of them *)
  Example short_pass_calls : w_n (snd (handle_timeout false h0 (fun _ => FShort 2) w0)) = 27.
  Proof. vm_compute. reflexivity. Qed.
  Example short_crash_at_every_call :
    forallb (fun k => recovers 100 (short_crash_at k)) (seq 0 28) = true.
  Proof. vm_compute. reflexivity. Qed.

  (* EIO at call k, for every k *)
  Example fail_at_every_call :
    forallb (fun k => recovers 100 (fail_at k EIO)) (seq 0 16) = true.
  Proof. vm_compute. reflexivity. Qed.

  (* the crash after the copy and before the pop: TWO versions (at-least-once) *)
  Example two_versions :
    existsb (fun k =>
      let wc := snd (handle_timeout false h0 (crash_at k) w0) in
      complete (w_fs wc) v0 &&
      match lookup (w_fs wc) (head_name q1) with Some _ => true | None => false end)
      (seq 0 16) = true.
  Proof. vm_compute. reflexivity. Qed.

  (* the crash during the transfer leaves a PARTIAL file at the first name *)
  Example partial_version :
    existsb (fun k =>
      let wc := snd (handle_timeout false h0 (short_crash_at k) w0) in
      match lookup (w_fs wc) v0 with
      | Some (NFile i) => str_eqb (f_bytes (get_file (w_fs wc) i)) ["h"; "e"]
      | _ => false
      end) (seq 0 28) = true.
  Proof. vm_compute. reflexivity. Qed.

  (* ---------- the theorem, instantiated ---------- *)

  Ltac neq := let E := fresh in intros E; vm_compute in E; discriminate E.
  Ltac not_in := let Hin := fresh in intros Hin; vm_compute in Hin;
                 repeat (destruct Hin as [Hin|Hin]; [discriminate Hin|]); exact Hin.
  Ltac cases :=
    repeat match goal with
           | H : clk _ _ _ |- _ => destruct H as [->| ->]
           | H : In _ [_] |- _ => destruct H as [<-|[]]
           | H : ?j <= 1 |- _ => first [is_var j | fail 1]; (destruct j as [|[|?]]; [| |exfalso; lia]); clear H
           end.

  Lemma base_free k : lookup fbase (join p_q (dec k)) = None.
  Proof.
    unfold lookup.
    destruct (str_eqb_spec (join p_q (dec k)) root_path) as [E|_].
    { exfalso. revert E. apply join_dec_nonroot. discriminate. }
    rewrite (join_nonroot p_q (dec k)) by discriminate.
    unfold fbase, p_q, p_w, p_inc, p_j, p_a. cbn [fs_dents alookup app].
    repeat (destruct (str_eqb_spec _ _) as [E|_]; [discriminate E|]). reflexivity.
  Qed.

  Lemma q1_rel : QRel q1 f1 (map qent_of [e_a]).
  Proof.
    assert (R0 : QRel q0 fbase []).
    { apply QRel_empty; [discriminate | reflexivity | exact base_free]. }
    assert (R1 : QRel q1 f1 ([] ++ [(p_a, 0%N, 10%Z)])).
    { apply QRel_push; [exact R0 | apply normalb_spec; reflexivity | apply PassExample.fits16; reflexivity]. }
    exact R1.
  Qed.

  Lemma f1_nodup : keys_nodup f1.
  Proof. unfold keys_nodup. apply nodupb_ok. vm_compute. reflexivity. Qed.

  Lemma f1_clean : qclean p_q f1.
  Proof.
    split; [discriminate|]. intros p Hd Hr Hl.
    assert (Hin : In p (map fst (fs_dents f1))).
    { destruct (str_in_dec p (map fst (fs_dents f1))) as [H|H]; [exact H|].
      exfalso. apply Hl. rewrite (lookup_nonroot _ _ Hr). apply notin_alookup_none. exact H. }
    cbn in Hin.
    repeat (destruct Hin as [Hin|Hin]; [subst p; try (vm_compute in Hd; discriminate Hd)|]);
      try contradiction.
    exists 0%N. vm_compute. reflexivity.
  Qed.

  Lemma names_100 (now2 : Z) : now2 = 100%Z \/ now2 = 107%Z -> rec_names cfg0 3 p_q 100 now2 [e_a].
  Proof.
    intros Hn2. constructor.
    - constructor; [intros [] | constructor].
    - intros c c' e e' j j' Hc Hc' He He' Hj Hj' E. cases; split; try reflexivity;
        exfalso; destruct Hn2 as [-> | ->]; vm_compute in E; discriminate E.
    - intros c c' e e' j j' Hc Hc' He He' Hj Hj'. cases; destruct Hn2 as [-> | ->]; not_in.
    - intros c e j Hc He Hj. cases; destruct Hn2 as [-> | ->]; vm_compute; reflexivity.
    - intros e He. cases. vm_compute. reflexivity.
    - intros c e e' j Hc He He' Hj. cases; destruct Hn2 as [-> | ->];
        (split; [neq|]; split; [not_in|]; split; not_in).
  Qed.

  Lemma init_100 (now2 : Z) : now2 = 100%Z \/ now2 = 107%Z ->
    rec_init cfg0 3 (Some jn0) p_q f1 100 now2 [e_a] q1.
  Proof.
    intros Hn2. constructor.
    - intros e He. cases. repeat split; vm_compute; try reflexivity. lia.
    - intros c Hc. cases; destruct Hn2 as [-> | ->];
        (split; [vm_compute; lia|]; split; [vm_compute; reflexivity|];
         intros jn ev Hj Hev; inversion Hj; subst jn; vm_compute; lia).
    - eexists. reflexivity.
    - eexists. reflexivity.
    - intros c e j Hc He Hj. cases; destruct Hn2 as [-> | ->]; vm_compute; reflexivity.
    - intros c e j x Hc He Hj Hx. cases; destruct Hn2 as [-> | ->]; vm_compute in Hx;
        repeat (destruct Hx as [<-|Hx]; [vm_compute; auto|]); destruct Hx.
    - intros e He. cases. split; [vm_compute; reflexivity|].
      intros x Hx. vm_compute in Hx. repeat (destruct Hx as [<-|Hx]; [vm_compute; auto|]). destruct Hx.
    - intros e He. cases. split; [vm_compute; reflexivity|]. split; [vm_compute; reflexivity|].
      split; [vm_compute; lia|]. intros jn Hj. inversion Hj; subst jn. cbn. lia.
    - intros jn Hj. inversion Hj; subst jn. vm_compute. lia.
    - exact f1_nodup.
    - apply wftb_ok. vm_compute. reflexivity.
    - exact f1_clean.
    - exact q1_rel.
    - reflexivity.
  Qed.

  (* non-vacuity: the hypotheses of crash_then_recover hold of this world *)
  Example hyps_hold :
    rec_names cfg0 3 p_q 100 100 [e_a] /\ rec_init cfg0 3 (Some jn0) p_q f1 100 100 [e_a] q1 /\
    rec_names cfg0 3 p_q 100 107 [e_a] /\ rec_init cfg0 3 (Some jn0) p_q f1 100 107 [e_a] q1.
  Proof.
    split; [apply names_100; left; reflexivity|]. split; [apply init_100; left; reflexivity|].
    split; [apply names_100; right; reflexivity | apply init_100; right; reflexivity].
  Qed.

  (* EVERY honest oracle for the first pass, every benign one for the second;
     the restart at 100 s or at 107 s: the queue is empty, no error, "hello" is
     in a new file, at most two new files *)
  Example every_honest_oracle (o o2 : oracle) (rev rev2 : bool) (now2 : Z) (w2 : world) :
    honest o -> benign o2 -> now2 = 100%Z \/ now2 = 107%Z ->
    w_fs w2 = w_fs (snd (handle_timeout rev h0 o w0)) -> w_clock w2 = now2 ->
    tr_ok (w_tr w2) = true -> t_post (w_tr w2) = 0 ->
    exists q2 w2' h3 w3,
      load_linq p_q 5%Z 16 o2 w2 = (Some (Some q2), w2') /\
      handle_timeout rev2 (set_q q2 h0) o2 w2' = (Some (TPause (-1), h3), w3) /\
      QRel (h_q h3) (w_fs w3) [] /\ tr_ok (w_tr w3) = true /\
      (exists x i, lookup f1 x = None /\ lookup (w_fs w3) x = Some (NFile i) /\
                   f_bytes (get_file (w_fs w3) i) = hello) /\
      (exists vs : list str, length vs <= 2 /\
         forall x i, lookup (w_fs w3) x = Some (NFile i) -> lookup f1 x = None -> In x vs).
  Proof.
    intros Ho Ho2 Hn2 Hf2 Hc2 Hok2 Hp2.
    destruct (crash_then_recover_one cfg0 3 (Some jn0) p_q f1 100 now2 e_a q1 o rev h0 w0 o2 w2 rev2
                (names_100 now2 Hn2) (init_100 now2 Hn2) Ho Ho2 eq_refl eq_refl eq_refl eq_refl eq_refl eq_refl
                Hf2 Hc2 Hok2 Hp2)
      as (q2 & w2' & h3 & w3 & A & B & C & D & E & vs & V1 & _ & V3).
    { destruct Hn2 as [-> | ->]; vm_compute; discriminate. }
    exists q2, w2', h3, w3. split; [exact A|]. split; [exact B|]. split; [exact C|]. split; [exact D|].
    split; [exact E|]. exists vs. split; [exact V1 | exact V3].
  Qed.
End RecoverExample.

Print Assumptions RecoverExample.every_honest_oracle.

(* ---------- two files queued ---------- *)

Module RecoverExample2.
  Import RecoverExample.
  Local Open Scope char_scope.

  Definition p_b : str := ["/"; "w"; "/"; "b"].
  Definition world_ : str := ["w"; "o"; "r"; "l"; "d"; "!"].

  Definition fbase2 : fs :=
    mkFs [ (p_q, NDir); (p_w, NDir); (p_inc, NDir); (p_j, NFile 1); (p_a, NFile 2); (p_b, NFile 3) ]
         [ (1, mkFile [] true); (2, mkFile hello true); (3, mkFile world_ true) ] 4.

  (* two accepted writes, at 10 s and at 20 s *)
  Definition qa := pushed p_a q0.
  Definition fa := add_dent (next_name q0) (NLink (encode 0 p_a) 10%Z) fbase2.
  Definition qb := pushed p_b qa.
  Definition fb := add_dent (next_name qa) (NLink (encode 0 p_b) 20%Z) fa.
  Definition h2 : handler := mkH cfg0 None 3 qb (Some jn0) [] [].
  Definition w2 : world := mkW fb 0 [] 100%Z tr_empty.
  Definition e_b : entry := mkE p_b 20%Z 3 world_.
  Definition es2 : list entry := [e_a; e_b].

  Definition holds (f : fs) (x content : str) : bool :=
    match lookup f x with
    | Some (NFile i) => str_eqb (f_bytes (get_file f i)) content
    | _ => false
    end.

  Definition recovers2 (o : oracle) : bool :=
    let wc := snd (handle_timeout false h2 o w2) in
    let wr := mkW (w_fs wc) 0 [] 100%Z tr_empty in
    match load_linq p_q 5%Z 16 no_faults wr with
    | (Some (Some q'), wr') =>
        match handle_timeout false (set_q q' h2) no_faults wr' with
        | (Some (TPause z, h3), w3) =>
            Z.eqb z (-1) && N.eqb (q_size (h_q h3)) 0 && tr_ok (w_tr w3) &&
            match children (w_fs w3) p_q with [] => true | _ => false end &&
            (holds (w_fs w3) (cdn cfg0 3 100 e_a 0) hello || holds (w_fs w3) (cdn cfg0 3 100 e_a 1) hello) &&
            (holds (w_fs w3) (cdn cfg0 3 100 e_b 0) world_ || holds (w_fs w3) (cdn cfg0 3 100 e_b 1) world_) &&
            Nat.leb 2 (versions_in (w_fs w3)) && Nat.leb (versions_in (w_fs w3)) 3
        | _ => false
        end
    | _ => false
    end.

  Example pass_calls2 : w_n (snd (handle_timeout false h2 no_faults w2)) = 29.
  Proof. vm_compute. reflexivity. Qed.

  (* the process dies before call k, for every k; EIO at call k, for every k *)
  Example crash_at_every_call2 : forallb (fun k => recovers2 (crash_at k)) (seq 0 30) = true.
  Proof. vm_compute. reflexivity. Qed.
  Example fail_at_every_call2 : forallb (fun k => recovers2 (fail_at k EIO)) (seq 0 30) = true.
  Proof. vm_compute. reflexivity. Qed.

  (* the hypotheses of crash_then_recover hold of this world *)
  Ltac cases2 :=
    repeat match goal with
           | H : clk _ _ _ |- _ => destruct H as [->| ->]
           | H : In _ es2 |- _ => destruct H as [<-|[<-|[]]]
           | H : ?j <= 1 |- _ => first [is_var j | fail 1]; (destruct j as [|[|?]]; [| |exfalso; lia]); clear H
           end.

  Lemma base2_free k : lookup fbase2 (join p_q (dec k)) = None.
  Proof.
    unfold lookup.
    destruct (str_eqb_spec (join p_q (dec k)) root_path) as [E|_].
    { exfalso. revert E. apply join_dec_nonroot. discriminate. }
    rewrite (join_nonroot p_q (dec k)) by discriminate.
    unfold fbase2, p_q, p_w, p_inc, p_j, p_a, p_b. cbn [fs_dents alookup app].
    repeat (destruct (str_eqb_spec _ _) as [E|_]; [discriminate E|]). reflexivity.
  Qed.

  Lemma qb_rel : QRel qb fb (map qent_of es2).
  Proof.
    assert (R0 : QRel q0 fbase2 []).
    { apply QRel_empty; [discriminate | reflexivity | exact base2_free]. }
    assert (R1 : QRel qa fa ([] ++ [(p_a, 0%N, 10%Z)])).
    { apply QRel_push; [exact R0 | apply normalb_spec; reflexivity | apply PassExample.fits16; reflexivity]. }
    assert (R2 : QRel qb fb (([] ++ [(p_a, 0%N, 10%Z)]) ++ [(p_b, 0%N, 20%Z)])).
    { apply QRel_push; [exact R1 | apply normalb_spec; reflexivity | apply PassExample.fits16; reflexivity]. }
    exact R2.
  Qed.

  Lemma fb_clean : qclean p_q fb.
  Proof.
    split; [discriminate|]. intros p Hd Hr Hl.
    assert (Hin : In p (map fst (fs_dents fb))).
    { destruct (str_in_dec p (map fst (fs_dents fb))) as [H|H]; [exact H|].
      exfalso. apply Hl. rewrite (lookup_nonroot _ _ Hr). apply notin_alookup_none. exact H. }
    cbn in Hin.
    repeat (destruct Hin as [Hin|Hin]; [subst p; try (vm_compute in Hd; discriminate Hd)|]);
      try contradiction.
    - exists 0%N. vm_compute. reflexivity.
    - exists 1%N. vm_compute. reflexivity.
  Qed.

  Lemma names2 : rec_names cfg0 3 p_q 100 100 es2.
  Proof.
    constructor.
    - apply nodupb_ok. vm_compute. reflexivity.
    - intros c c' e e' j j' Hc Hc' He He' Hj Hj' E. cases2; split; try reflexivity;
        exfalso; vm_compute in E; discriminate E.
    - intros c c' e e' j j' Hc Hc' He He' Hj Hj'. cases2; not_in.
    - intros c e j Hc He Hj. cases2; vm_compute; reflexivity.
    - intros e He. cases2; vm_compute; reflexivity.
    - intros c e e' j Hc He He' Hj. cases2; (split; [neq|]; split; [not_in|]; split; not_in).
  Qed.

  Lemma init2 : rec_init cfg0 3 (Some jn0) p_q fb 100 100 es2 qb.
  Proof.
    constructor.
    - intros e He. cases2; repeat split; vm_compute; try reflexivity; lia.
    - intros c Hc. cases2;
        (split; [vm_compute; lia|]; split; [vm_compute; reflexivity|];
         intros jn ev Hj Hev; inversion Hj; subst jn; vm_compute; lia).
    - eexists. reflexivity.
    - eexists. reflexivity.
    - intros c e j Hc He Hj. cases2; vm_compute; reflexivity.
    - intros c e j x Hc He Hj Hx. cases2; vm_compute in Hx;
        repeat (destruct Hx as [<-|Hx]; [vm_compute; auto|]); destruct Hx.
    - intros e He. cases2; (split; [vm_compute; reflexivity|];
        intros x Hx; vm_compute in Hx; repeat (destruct Hx as [<-|Hx]; [vm_compute; auto|]); destruct Hx).
    - intros e He. cases2; (split; [vm_compute; reflexivity|]; split; [vm_compute; reflexivity|];
        split; [vm_compute; lia|]; intros jn Hj; inversion Hj; subst jn; cbn; lia).
    - intros jn Hj. inversion Hj; subst jn. vm_compute. lia.
    - unfold keys_nodup. apply nodupb_ok. vm_compute. reflexivity.
    - apply wftb_ok. vm_compute. reflexivity.
    - exact fb_clean.
    - exact qb_rel.
    - reflexivity.
  Qed.

  Example hyps_hold2 : rec_names cfg0 3 p_q 100 100 es2 /\ rec_init cfg0 3 (Some jn0) p_q fb 100 100 es2 qb.
  Proof. split; [exact names2 | exact init2]. Qed.

  (* the theorem for this world: every honest oracle, then every benign one *)
  Example every_honest_oracle2 (o o2 : oracle) (rev rev2 : bool) (wr : world) :
    honest o -> benign o2 ->
    w_fs wr = w_fs (snd (handle_timeout rev h2 o w2)) -> w_clock wr = 100%Z ->
    tr_ok (w_tr wr) = true -> t_post (w_tr wr) = 0 ->
    exists k q' wr' h3 w3,
      k <= 2 /\
      load_linq p_q 5%Z 16 o2 wr = (Some (Some q'), wr') /\
      handle_timeout rev2 (set_q q' h2) o2 wr' = (Some (TPause (-1), h3), w3) /\
      QRel (h_q h3) (w_fs w3) [] /\ tr_ok (w_tr w3) = true /\
      (exists x i, (x = cdn cfg0 3 100 e_a 0 \/ x = cdn cfg0 3 100 e_a 1) /\
                   lookup (w_fs w3) x = Some (NFile i) /\ f_bytes (get_file (w_fs w3) i) = hello) /\
      (exists x i, (x = cdn cfg0 3 100 e_b 0 \/ x = cdn cfg0 3 100 e_b 1) /\
                   lookup (w_fs w3) x = Some (NFile i) /\ f_bytes (get_file (w_fs w3) i) = world_).
  Proof.
    intros Ho Ho2 Hf Hc Hok Hp.
    destruct (crash_then_recover cfg0 3 (Some jn0) p_q fb 100 100 es2 qb names2 init2 o rev h2 w2 o2 wr rev2
                Ho Ho2 eq_refl eq_refl eq_refl eq_refl eq_refl eq_refl Hf Hc Hok Hp)
      as (k & q' & wr' & h3 & w3 & Hk & A & _ & _ & B & C & D & R1 & _).
    { repeat constructor; vm_compute; discriminate. }
    exists k, q', wr', h3, w3. split; [exact Hk|]. split; [exact A|]. split; [exact B|].
    split; [exact C|]. split; [exact D|]. cbv zeta in R1. split.
    - destruct (R1 e_a (or_introl eq_refl)) as [x [i [Hx H]]]. exists x, i. split; [tauto | exact H].
    - destruct (R1 e_b (or_intror (or_introl eq_refl))) as [x [i [Hx H]]]. exists x, i. split; [tauto | exact H].
  Qed.
End RecoverExample2.

Print Assumptions RecoverExample2.every_honest_oracle2.
