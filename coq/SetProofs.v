(* Proofs about SetM.v: the hash cache and the multiset. *)
From K Require Import Str SetM.
From Coq Require Import Arith PeanoNat.

(* ---------- reference multiset ---------- *)

Definition ref_step (m : str -> nat) (o : set_op) : str -> nat :=
  match o with
  | SAdd w => fun v => if str_eqb v w then S (m v) else m v
  | SPop w => fun v => if str_eqb v w then Nat.pred (m v) else m v
  end.

Definition ref_count (ops : list set_op) : str -> nat :=
  fold_left ref_step ops (fun _ => 0).

(* ---------- hash cache ---------- *)

Definition buf_ok (b : buffer) : Prop :=
  b_seen b <= length (b_str b) /\ b_hval b = hash (firstn (b_seen b) (b_str b)).

Lemma buf_ok_empty : buf_ok buf_empty.
Proof. split; simpl; auto. Qed.

Lemma firstn_app_le {A} n (l l' : list A) : n <= length l -> firstn n (l ++ l') = firstn n l.
Proof.
  intros H. rewrite firstn_app. replace (n - length l) with 0 by lia. simpl. apply app_nil_r.
Qed.

Lemma buf_ok_concat_string s b : buf_ok b -> buf_ok (buf_concat_string s b).
Proof.
  intros [H1 H2]; split; simpl.
  - rewrite app_length; lia.
  - rewrite firstn_app_le by assumption. assumption.
Qed.

Lemma buf_ok_concat_char c b : buf_ok b -> buf_ok (buf_concat_char c b).
Proof. apply (buf_ok_concat_string [c]). Qed.

Lemma buf_ok_set_length n b : buf_ok (buf_set_length n b).
Proof. split; simpl; [lia | reflexivity]. Qed.

Lemma buf_get_hash_correct b :
  buf_ok b -> fst (buf_get_hash b) = hash (b_str b) /\ buf_ok (snd (buf_get_hash b)) /\
              b_str (snd (buf_get_hash b)) = b_str b.
Proof.
  intros [H1 H2]. unfold buf_get_hash; simpl.
  assert (E : fold_left hash_step (skipn (b_seen b) (b_str b)) (b_hval b) = hash (b_str b)).
  { rewrite H2. unfold hash. rewrite <- fold_left_app, firstn_skipn. reflexivity. }
  rewrite E. split; [reflexivity|]. split; [|reflexivity].
  split; simpl.
  - lia.
  - rewrite Nat.max_r by assumption. rewrite firstn_all. reflexivity.
Qed.

(* every observation of get_hash equals the hash of the contents at that moment *)
Fixpoint buf_ref (ops : list buf_op) (s : str) : list N :=
  match ops with
  | [] => []
  | BChar c :: r => buf_ref r (s ++ [c])
  | BStr t :: r => buf_ref r (s ++ t)
  | BSetLen n :: r => buf_ref r (firstn n s)
  | BHash :: r => hash s :: buf_ref r s
  end.

Lemma firstn_min {A} n (l : list A) : firstn (Nat.min n (length l)) l = firstn n l.
Proof.
  destruct (Nat.le_ge_cases n (length l)) as [H|H].
  - rewrite Nat.min_l by assumption. reflexivity.
  - rewrite Nat.min_r by assumption. rewrite firstn_all. symmetry. apply firstn_all2. assumption.
Qed.

Lemma buf_run_correct ops : forall b, buf_ok b ->
  fst (buf_run ops b) = buf_ref ops (b_str b) /\ buf_ok (snd (buf_run ops b)).
Proof.
  induction ops as [|o ops IH]; intros b Hb; cbn [buf_run buf_ref].
  - simpl; auto.
  - destruct o as [c|s|n|].
    + apply (IH (buf_concat_char c b)). apply buf_ok_concat_char; assumption.
    + apply (IH (buf_concat_string s b)). apply buf_ok_concat_string; assumption.
    + specialize (IH (buf_set_length (Nat.min n (length (b_str b))) b) (buf_ok_set_length _ _)).
      simpl in IH. rewrite firstn_min in IH. exact IH.
    + destruct (buf_get_hash_correct b Hb) as [E1 [E2 E3]].
      destruct (buf_get_hash b) as [h b'] eqn:Eg. simpl in E1, E2, E3.
      specialize (IH b' E2). destruct (buf_run ops b') as [hs b''] eqn:Er. simpl in *.
      destruct IH as [IH1 IH2]. rewrite E3 in IH1. subst. auto.
Qed.

(* ---------- list helpers ---------- *)

Lemma update_nth_length {A} i (x : A) l : length (update_nth i x l) = length l.
Proof. revert i; induction l as [|y l IH]; intros [|i]; simpl; auto. Qed.

Lemma nth_update_nth_eq {A} i (x d : A) l : i < length l -> nth i (update_nth i x l) d = x.
Proof.
  revert i; induction l as [|y l IH]; intros [|i] H; simpl in *; try lia; auto.
  apply IH; lia.
Qed.

Lemma nth_update_nth_neq {A} i j (x d : A) l : i <> j -> nth j (update_nth i x l) d = nth j l d.
Proof.
  revert i j; induction l as [|y l IH]; intros [|i] [|j] H; simpl; auto; try congruence.
Qed.

Definition empties (l : list chain) : nat := length (filter is_nil l).

Definition b2n (b : bool) : nat := if b then 1 else 0.

Lemma empties_update i c l :
  i < length l ->
  empties (update_nth i c l) + b2n (is_nil (nth i l [])) = empties l + b2n (is_nil c).
Proof.
  unfold empties. revert i; induction l as [|y l IH]; intros [|i] H; simpl in *; try lia.
  - destruct (is_nil y), (is_nil c); simpl; lia.
  - specialize (IH i ltac:(lia)). destruct (is_nil y); simpl; lia.
Qed.

Lemma empties_repeat n : empties (repeat [] n) = n.
Proof. unfold empties. induction n; simpl; auto. Qed.

Lemma empties_le l : empties l <= length l.
Proof. unfold empties. induction l as [|y l IH]; simpl; [lia|]. destruct (is_nil y); simpl; lia. Qed.

Lemma empties_all l : empties l = length l -> forall i, nth i l [] = [].
Proof.
  unfold empties. induction l as [|y l IH]; simpl; intros H i.
  - destruct i; reflexivity.
  - destruct y as [|e y]; simpl in H.
    + destruct i; [reflexivity|]. apply IH. lia.
    + pose proof (empties_le l). unfold empties in *. lia.
Qed.

(* ---------- chains ---------- *)

Definition keys (c : chain) : list str := map fst c.

Lemma chain_mem_In v c : chain_mem v c = true <-> In v (keys c).
Proof.
  induction c as [|[w n] c IH]; simpl.
  - split; [discriminate | tauto].
  - rewrite orb_true_iff, IH, str_eqb_eq. split; intros [H|H]; auto.
Qed.

Lemma chain_count_notin v c : ~ In v (keys c) -> chain_count v c = 0.
Proof.
  induction c as [|[w n] c IH]; simpl; intros H; [reflexivity|].
  destruct (str_eqb_spec v w) as [->|Hn]; [tauto|]. apply IH. tauto.
Qed.

Definition chain_pos (c : chain) : Prop := Forall (fun e => 0 < snd e) c.

Lemma chain_count_pos v c : chain_pos c -> In v (keys c) -> 0 < chain_count v c.
Proof.
  induction c as [|[w n] c IH]; simpl; intros Hp Hi; [tauto|].
  inversion Hp as [|? ? Hw Hc]; subst. simpl in Hw.
  destruct (str_eqb_spec v w) as [->|Hn]; [assumption|].
  apply IH; [assumption|]. destruct Hi; congruence.
Qed.

Lemma keys_incr v c : keys (chain_incr v c) = keys c.
Proof.
  induction c as [|[w n] c IH]; simpl; [reflexivity|].
  destruct (str_eqb v w); simpl; congruence.
Qed.

Lemma chain_count_incr v u c :
  In v (keys c) ->
  chain_count u (chain_incr v c) = if str_eqb u v then S (chain_count u c) else chain_count u c.
Proof.
  induction c as [|[w n] c IH]; simpl; intros Hi; [tauto|].
  destruct (str_eqb_spec v w) as [->|Hvw]; simpl.
  - destruct (str_eqb u w); reflexivity.
  - destruct (str_eqb_spec u w) as [->|Huw].
    + destruct (str_eqb_spec w v); congruence.
    + apply IH. destruct Hi; congruence.
Qed.

Lemma chain_pos_incr v c : chain_pos c -> chain_pos (chain_incr v c).
Proof.
  unfold chain_pos. induction c as [|[w n] c IH]; simpl; intros H; [constructor|].
  inversion H; subst. destruct (str_eqb v w); constructor; simpl in *; auto; lia.
Qed.

Lemma keys_decr_incl v c : incl (keys (chain_decr v c)) (keys c).
Proof.
  induction c as [|[w n] c IH]; simpl; [apply incl_refl|].
  destruct (str_eqb v w).
  - destruct (Nat.eqb (Nat.pred n) 0); simpl; [apply incl_tl, incl_refl | apply incl_refl].
  - simpl. apply incl_cons; [left; reflexivity | apply incl_tl; assumption].
Qed.

Lemma nodup_decr v c : NoDup (keys c) -> NoDup (keys (chain_decr v c)).
Proof.
  induction c as [|[w n] c IH]; simpl; intros H; [constructor|].
  inversion H as [|? ? Hw Hc]; subst.
  destruct (str_eqb v w).
  - destruct (Nat.eqb (Nat.pred n) 0); simpl; [assumption | constructor; assumption].
  - simpl. constructor; [|auto]. intros Hin. apply Hw. apply (keys_decr_incl v c). assumption.
Qed.

Lemma chain_pos_decr v c : chain_pos c -> chain_pos (chain_decr v c).
Proof.
  unfold chain_pos. induction c as [|[w n] c IH]; simpl; intros H; [constructor|].
  inversion H; subst. destruct (str_eqb v w).
  - destruct (Nat.eqb_spec (Nat.pred n) 0); [assumption|]. constructor; simpl in *; auto; lia.
  - constructor; auto.
Qed.

Lemma chain_count_decr v u c :
  NoDup (keys c) -> chain_pos c ->
  chain_count u (chain_decr v c) = if str_eqb u v then Nat.pred (chain_count u c) else chain_count u c.
Proof.
  induction c as [|[w n] c IH]; simpl; intros Hnd Hp.
  - destruct (str_eqb u v); reflexivity.
  - inversion Hnd as [|? ? Hw Hc]; subst. inversion Hp as [|? ? Hpw Hpc]; subst. simpl in Hpw.
    destruct (str_eqb_spec v w) as [->|Hvw].
    + destruct (Nat.eqb_spec (Nat.pred n) 0) as [E|E]; simpl.
      * destruct (str_eqb_spec u w) as [->|Huw]; [|reflexivity].
        rewrite chain_count_notin by assumption. lia.
      * destruct (str_eqb u w); reflexivity.
    + simpl. destruct (str_eqb_spec u w) as [->|Huw].
      * destruct (str_eqb_spec w v); congruence.
      * apply IH; assumption.
Qed.

(* ---------- the set invariant ---------- *)

Definition bk (v : str) (n : nat) : nat := N.to_nat (hash v mod N.of_nat n).

Lemma bk_lt v n : 0 < n -> bk v n < n.
Proof.
  intros H. unfold bk.
  assert (hash v mod N.of_nat n < N.of_nat n)%N by (apply N.mod_lt; lia). lia.
Qed.

Record Inv (s : set) : Prop := {
  inv_size : 0 < set_size s;
  inv_nodup : forall i, NoDup (keys (nth i (s_heads s) []));
  inv_pos : forall i, chain_pos (nth i (s_heads s) []);
  inv_bucket : forall i w, In w (keys (nth i (s_heads s) [])) -> bk w (set_size s) = i;
  inv_ehc : s_ehc s = empties (s_heads s)
}.

Lemma nth_repeat_nil {A} i n : nth i (repeat (@nil A) n) [] = [].
Proof. revert i; induction n; intros [|i]; simpl; auto. Qed.

Lemma Inv_create g : Inv (create_set g).
Proof.
  unfold create_set. constructor; unfold set_size; cbn [s_heads s_ehc].
  - rewrite repeat_length. lia.
  - intros i. rewrite nth_repeat_nil. constructor.
  - intros i. rewrite nth_repeat_nil. constructor.
  - intros i w. rewrite nth_repeat_nil. simpl. tauto.
  - rewrite empties_repeat. reflexivity.
Qed.

Lemma bucket_of_bk v s : bucket_of v s = bk v (set_size s).
Proof. reflexivity. Qed.

Lemma Inv_add v s : Inv s -> Inv (set_add v s).
Proof.
  intros [Hs Hnd Hp Hb He]. unfold set_add. rewrite bucket_of_bk.
  set (i := bk v (set_size s)). set (c := nth i (s_heads s) []).
  assert (Hi : i < length (s_heads s)) by (apply bk_lt; assumption).
  destruct (chain_mem v c) eqn:Em.
  - constructor; unfold set_size in *; simpl; rewrite ?update_nth_length; auto.
    + intros j. destruct (Nat.eq_dec i j) as [<-|Hn].
      * rewrite nth_update_nth_eq by assumption. rewrite keys_incr. apply Hnd.
      * rewrite nth_update_nth_neq by assumption. apply Hnd.
    + intros j. destruct (Nat.eq_dec i j) as [<-|Hn].
      * rewrite nth_update_nth_eq by assumption. apply chain_pos_incr, Hp.
      * rewrite nth_update_nth_neq by assumption. apply Hp.
    + intros j w. destruct (Nat.eq_dec i j) as [<-|Hn].
      * rewrite nth_update_nth_eq by assumption. rewrite keys_incr. apply Hb.
      * rewrite nth_update_nth_neq by assumption. apply Hb.
    + pose proof (empties_update i (chain_incr v c) (s_heads s) Hi) as E.
      fold c in E. apply chain_mem_In in Em.
      assert (is_nil c = false) by (destruct c; [simpl in Em; tauto | reflexivity]).
      assert (is_nil (chain_incr v c) = false).
      { destruct c as [|[w n] c']; [discriminate|]. simpl. destruct (str_eqb v w); reflexivity. }
      rewrite H, H0 in E. simpl in E. lia.
  - assert (Hnin : ~ In v (keys c)) by (rewrite <- chain_mem_In; congruence).
    constructor; unfold set_size in *; simpl; rewrite ?update_nth_length; auto.
    + intros j. destruct (Nat.eq_dec i j) as [<-|Hn].
      * rewrite nth_update_nth_eq by assumption. simpl. constructor; [assumption | apply Hnd].
      * rewrite nth_update_nth_neq by assumption. apply Hnd.
    + intros j. destruct (Nat.eq_dec i j) as [<-|Hn].
      * rewrite nth_update_nth_eq by assumption. constructor; [simpl; lia | apply Hp].
      * rewrite nth_update_nth_neq by assumption. apply Hp.
    + intros j w. destruct (Nat.eq_dec i j) as [<-|Hn].
      * rewrite nth_update_nth_eq by assumption. simpl. intros [<-|Hin]; [reflexivity | apply Hb; assumption].
      * rewrite nth_update_nth_neq by assumption. apply Hb.
    + pose proof (empties_update i ((v, 1) :: c) (s_heads s) Hi) as E.
      fold c in E. simpl in E.
      destruct (is_nil c) eqn:En; simpl in E.
      * assert (0 < empties (s_heads s)).
        { assert (Ec : c = []) by (destruct c; [reflexivity | discriminate]).
          unfold c in Ec. unfold empties.
          assert (In [] (filter is_nil (s_heads s))).
          { apply filter_In. split; [|reflexivity]. rewrite <- Ec. apply nth_In. assumption. }
          destruct (filter is_nil (s_heads s)); simpl in *; [tauto | lia]. }
        lia.
      * lia.
Qed.

Lemma Inv_pop v s : Inv s -> Inv (set_pop v s).
Proof.
  intros HI. pose proof HI as [Hs Hnd Hp Hb He]. unfold set_pop. rewrite bucket_of_bk.
  set (i := bk v (set_size s)). set (c := nth i (s_heads s) []).
  assert (Hi : i < length (s_heads s)) by (apply bk_lt; assumption).
  destruct (chain_mem v c) eqn:Em; [|assumption].
  constructor; unfold set_size in *; simpl; rewrite ?update_nth_length; auto.
  - intros j. destruct (Nat.eq_dec i j) as [<-|Hn].
    + rewrite nth_update_nth_eq by assumption. apply nodup_decr, Hnd.
    + rewrite nth_update_nth_neq by assumption. apply Hnd.
  - intros j. destruct (Nat.eq_dec i j) as [<-|Hn].
    + rewrite nth_update_nth_eq by assumption. apply chain_pos_decr, Hp.
    + rewrite nth_update_nth_neq by assumption. apply Hp.
  - intros j w. destruct (Nat.eq_dec i j) as [<-|Hn].
    + rewrite nth_update_nth_eq by assumption. intros Hin. apply Hb.
      apply (keys_decr_incl v c). assumption.
    + rewrite nth_update_nth_neq by assumption. apply Hb.
  - pose proof (empties_update i (chain_decr v c) (s_heads s) Hi) as E. fold c in E.
    apply chain_mem_In in Em.
    assert (is_nil c = false) by (destruct c; [simpl in Em; tauto | reflexivity]).
    rewrite H in E. simpl in E. destruct (is_nil (chain_decr v c)); simpl in E; lia.
Qed.

Lemma Inv_run g ops : Inv (set_run g ops).
Proof.
  unfold set_run. generalize (Inv_create g). generalize (create_set g).
  induction ops as [|o ops IH]; intros s Hs; simpl; [assumption|].
  apply IH. destruct o; [apply Inv_add | apply Inv_pop]; assumption.
Qed.

(* raw count: look in the value's own bucket, without the is_empty shortcut *)
Definition raw_count (v : str) (s : set) : nat :=
  chain_count v (nth (bk v (set_size s)) (s_heads s) []).

Lemma is_empty_spec s : Inv s -> (is_empty s = true <-> forall v, raw_count v s = 0).
Proof.
  intros [Hs Hnd Hp Hb He]. unfold is_empty, set_size in *. rewrite Nat.eqb_eq, He. split.
  - intros E v. unfold raw_count. rewrite (empties_all _ E). reflexivity.
  - intros H. destruct (Nat.eq_dec (empties (s_heads s)) (length (s_heads s))) as [E|E]; [assumption|].
    exfalso.
    assert (exists i, i < length (s_heads s) /\ nth i (s_heads s) [] <> []) as [i [Hi Hn]].
    { clear -E. pose proof (empties_le (s_heads s)) as Hle. unfold empties in *.
      induction (s_heads s) as [|y l IH]; simpl in *; [lia|].
      destruct y as [|e y]; simpl in *.
      - destruct IH as [i [Hi Hn]]; [lia | lia |]. exists (S i). split; [lia | assumption].
      - exists 0. split; [lia | discriminate]. }
    destruct (nth i (s_heads s) []) as [|[w n] c'] eqn:Ec; [congruence|].
    assert (Hw : In w (keys (nth i (s_heads s) []))) by (rewrite Ec; left; reflexivity).
    pose proof (Hb i w Hw) as Hbw. specialize (H w). unfold raw_count, set_size in H.
    rewrite Hbw in H. pose proof (chain_count_pos w _ (Hp i) Hw). lia.
Qed.

Lemma get_count_raw v s : Inv s -> get_count v s = raw_count v s.
Proof.
  intros HI. unfold get_count. destruct (is_empty s) eqn:E.
  - symmetry. apply is_empty_spec; assumption.
  - reflexivity.
Qed.

Lemma set_size_add v s : set_size (set_add v s) = set_size s.
Proof.
  unfold set_add, set_size. destruct (chain_mem _ _); simpl; apply update_nth_length.
Qed.

Lemma set_size_pop v s : set_size (set_pop v s) = set_size s.
Proof.
  unfold set_pop, set_size. destruct (chain_mem _ _); simpl; [apply update_nth_length | reflexivity].
Qed.

Lemma raw_count_add w v s : Inv s ->
  raw_count v (set_add w s) = if str_eqb v w then S (raw_count v s) else raw_count v s.
Proof.
  intros [Hs Hnd Hp Hb He]. unfold raw_count. rewrite set_size_add.
  unfold set_add. rewrite bucket_of_bk.
  set (n := set_size s) in *. set (i := bk w n). set (c := nth i (s_heads s) []).
  assert (Hi : i < length (s_heads s)) by (apply bk_lt; assumption).
  destruct (str_eqb_spec v w) as [->|Hvw].
  - fold i. destruct (chain_mem w c) eqn:Em; simpl; rewrite nth_update_nth_eq by assumption.
    + rewrite chain_count_incr by (apply chain_mem_In; assumption). rewrite str_eqb_refl. reflexivity.
    + simpl. rewrite str_eqb_refl. rewrite chain_count_notin; [reflexivity|].
      rewrite <- chain_mem_In. fold c. congruence.
  - destruct (Nat.eq_dec i (bk v n)) as [E|E].
    + rewrite <- E. destruct (chain_mem w c) eqn:Em; simpl; rewrite nth_update_nth_eq by assumption.
      * rewrite chain_count_incr by (apply chain_mem_In; assumption). fold c.
        destruct (str_eqb_spec v w); congruence.
      * simpl. fold c. destruct (str_eqb_spec v w); congruence.
    + destruct (chain_mem w c); simpl; rewrite nth_update_nth_neq by assumption; reflexivity.
Qed.

Lemma raw_count_pop w v s : Inv s ->
  raw_count v (set_pop w s) = if str_eqb v w then Nat.pred (raw_count v s) else raw_count v s.
Proof.
  intros [Hs Hnd Hp Hb He]. unfold raw_count. rewrite set_size_pop.
  unfold set_pop. rewrite bucket_of_bk.
  set (n := set_size s) in *. set (i := bk w n). set (c := nth i (s_heads s) []).
  assert (Hi : i < length (s_heads s)) by (apply bk_lt; assumption).
  destruct (chain_mem w c) eqn:Em; simpl.
  - destruct (Nat.eq_dec i (bk v n)) as [E|E].
    + rewrite <- E. rewrite nth_update_nth_eq by assumption.
      apply chain_count_decr; [apply Hnd | apply Hp].
    + rewrite nth_update_nth_neq by assumption.
      destruct (str_eqb_spec v w) as [->|]; [exfalso; apply E; reflexivity | reflexivity].
  - destruct (str_eqb_spec v w) as [->|]; [|reflexivity].
    fold i. fold c. rewrite chain_count_notin; [reflexivity|].
    rewrite <- chain_mem_In. congruence.
Qed.

Lemma counts_fold ops : forall s m, Inv s -> (forall v, raw_count v s = m v) ->
  forall v, raw_count v (fold_left set_step ops s) = fold_left ref_step ops m v.
Proof.
  induction ops as [|o ops IH]; intros s m HI Hm v; simpl; [apply Hm|].
  apply IH.
  - destruct o; [apply Inv_add | apply Inv_pop]; assumption.
  - intros u. destruct o as [w|w]; simpl.
    + rewrite raw_count_add by assumption. rewrite Hm. reflexivity.
    + rewrite raw_count_pop by assumption. rewrite Hm. reflexivity.
Qed.

Lemma raw_count_create g v : raw_count v (create_set g) = 0.
Proof. unfold raw_count, create_set; simpl. rewrite nth_repeat_nil. reflexivity. Qed.

Lemma counts_correct g ops v : get_count v (set_run g ops) = ref_count ops v.
Proof.
  rewrite get_count_raw by apply Inv_run.
  unfold set_run, ref_count. apply counts_fold; [apply Inv_create|].
  intros u. apply raw_count_create.
Qed.

Lemma empty_iff g ops :
  is_empty (set_run g ops) = true <-> forall v, get_count v (set_run g ops) = 0.
Proof.
  rewrite is_empty_spec by apply Inv_run. split; intros H v.
  - rewrite get_count_raw by apply Inv_run. apply H.
  - rewrite <- get_count_raw by apply Inv_run. apply H.
Qed.

Lemma ehc_bounded g ops : s_ehc (set_run g ops) <= set_size (set_run g ops).
Proof.
  destruct (Inv_run g ops) as [_ _ _ _ He]. rewrite He. apply empties_le.
Qed.
