(* C09 "... and never modifies or removes a watched file", the directory level:
   under EVERY oracle no handler operation changes what a NAME resolves to --
   its directory entry: kind, inode number, link target -- unless the name is
   inside one of the configured locations L or is an ancestor directory of
   one (Confine.near_loc).  In particular no file outside the locations is
   removed, renamed, replaced or created.

   The structure follows Confine.v / Confine2.v / StoreProgs.v: one lemma per
   program, in the one-predicate triples of StoreLogic.v, for the predicate

      WP f  :=  forall p, ~ near_loc L p -> lookup f p = lookup f0 p

   relative to the file system f0 at the start, as postcondition when the
   program returns and as crash condition when the process dies.  The value
   facts (queue directory, handler invariant hinv / hinv2) are those of
   Confine2.v.  The lifting to daemon_loop and klunok is at the end.

   NOT covered here: the BYTES of the files outside the locations (that needs
   the inode-sharing invariant of StoreFs.v for the class "outside L"). *)
From K Require Import Str Dec Trace Fs World Progs Elf Sieve SieveSpec Handler Linq LinqSpec LinqProofs
     Hoare Confine Confine2 SyncProofs StoreFs StoreLogic.
From Coq Require Import Lia.

Section Watched.
Variables (L : list str) (f0 : fs).
Notation in_loc := (in_loc L).
Notation near_loc := (near_loc L).
Notation dir_ok := (dir_ok L).
Notation hinv := (hinv L).
Notation hinv2 := (hinv2 L).

Definition WP (f : fs) : Prop := forall p, ~ near_loc p -> lookup f p = lookup f0 p.

(* ---------- file-system level ---------- *)

(* f' differs from f at most in what the name q resolves to *)
Definition touch_only (q : str) (f f' : fs) : Prop := forall p, p <> q -> lookup f' p = lookup f p.

Lemma touch_refl q f : touch_only q f f.
Proof. intros p _. reflexivity. Qed.

Lemma WP_touch q f f' : near_loc q -> touch_only q f f' -> WP f -> WP f'.
Proof.
  intros Hq Ht H p Hp. rewrite Ht; [apply H; exact Hp|]. intros ->. exact (Hp Hq).
Qed.

Lemma WP_same f f' : fs_dents f' = fs_dents f -> WP f -> WP f'.
Proof. intros E H p Hp. unfold lookup. rewrite E. apply H. exact Hp. Qed.

Lemma alookup_app_ne {A} p q (v : A) l : p <> q -> alookup p (l ++ [(q, v)]) = alookup p l.
Proof.
  intros Hn. induction l as [|[k x] l IH]; simpl.
  - apply str_eqb_neq in Hn. rewrite Hn. reflexivity.
  - destruct (str_eqb p k); [reflexivity | exact IH].
Qed.

Lemma lookup_app_ne f q n files nxt p :
  p <> q -> lookup (mkFs (fs_dents f ++ [(q, n)]) files nxt) p = lookup f p.
Proof.
  intros Hn. unfold lookup. destruct (str_eqb p root_path); [reflexivity|].
  cbn [fs_dents]. apply alookup_app_ne. exact Hn.
Qed.

Lemma touch_add q n f : touch_only q f (add_dent q n f).
Proof. intros p Hn. apply lookup_app_ne. exact Hn. Qed.

Lemma touch_del q f : touch_only q f (del_dent q f).
Proof. intros p Hn. apply lookup_del_other. exact Hn. Qed.

Lemma touch_mkdir q f : touch_only q f (snd (fs_mkdir q f)).
Proof.
  unfold fs_mkdir. destruct (lookup f q); [apply touch_refl|].
  destruct (parent_is_dir f q); [apply touch_refl | apply touch_add].
Qed.

Lemma touch_rmdir q f : touch_only q f (snd (fs_rmdir q f)).
Proof.
  unfold fs_rmdir. destruct (lookup f q) as [[| |]|]; try apply touch_refl.
  destruct (children f q); [apply touch_del | apply touch_refl].
Qed.

Lemma touch_unlink q f : touch_only q f (snd (fs_unlink q f)).
Proof.
  unfold fs_unlink. destruct (lookup f q) as [[| |]|]; try apply touch_refl; apply touch_del.
Qed.

Lemma touch_create_excl q f : touch_only q f (snd (fs_create_excl q f)).
Proof.
  unfold fs_create_excl. destruct (lookup f q); [apply touch_refl|].
  destruct (parent_is_dir f q); [apply touch_refl|]. intros p Hn. apply lookup_app_ne. exact Hn.
Qed.

Lemma touch_open_create q f : touch_only q f (snd (fs_open_create q f)).
Proof.
  unfold fs_open_create. destruct (lookup f q) as [[| |]|]; try apply touch_refl. apply touch_create_excl.
Qed.

Lemma touch_link a q f : touch_only q f (snd (fs_link a q f)).
Proof.
  unfold fs_link. destruct (lookup f a) as [[| |]|]; try apply touch_refl;
    (destruct (lookup f q); [apply touch_refl|];
     destruct (parent_is_dir f q); [apply touch_refl | apply touch_add]).
Qed.

Lemma touch_symlink q t m f : touch_only q f (snd (fs_symlink q t m f)).
Proof.
  unfold fs_symlink. destruct (lookup f q); [apply touch_refl|].
  destruct (parent_is_dir f q); [apply touch_refl | apply touch_add].
Qed.

(* ---------- primitive calls ---------- *)

Lemma W_mkdir p : near_loc p -> tok WP (k_mkdir p).
Proof. intros H. apply tok_sys_unit. intros f. apply WP_touch with (q := p); [exact H | apply touch_mkdir]. Qed.
Lemma W_mkdirat d r : in_loc (join d r) -> tok WP (k_mkdirat d r).
Proof.
  intros H. apply tok_sys_unit. intros f.
  apply WP_touch with (q := join d r); [apply in_loc_near; exact H | apply touch_mkdir].
Qed.
Lemma W_rmdir p : near_loc p -> tok WP (k_rmdir p).
Proof. intros H. apply tok_sys_unit. intros f. apply WP_touch with (q := p); [exact H | apply touch_rmdir]. Qed.
Lemma W_unlink p : in_loc p -> tok WP (k_unlink p).
Proof.
  intros H. apply tok_sys_unit. intros f.
  apply WP_touch with (q := p); [apply in_loc_near; exact H | apply touch_unlink].
Qed.
Lemma W_unlinkat d n : in_loc (join d n) -> tok WP (k_unlinkat d n).
Proof.
  intros H. apply tok_sys_unit. intros f.
  apply WP_touch with (q := join d n); [apply in_loc_near; exact H | apply touch_unlink].
Qed.
Lemma W_open_excl p : in_loc p -> tok WP (k_open_excl p).
Proof.
  intros H. apply tok_of_tri with (R := fun _ => True). apply tri_open_gen; [auto|]. intros f Hf.
  split; [|exact I]. revert Hf. apply WP_touch with (q := p); [apply in_loc_near; exact H | apply touch_create_excl].
Qed.
Lemma W_open_w p : in_loc p -> tok WP (k_open_w p).
Proof.
  intros H. apply tok_of_tri with (R := fun _ => True). apply tri_open_gen; [auto|]. intros f Hf.
  split; [|exact I]. revert Hf. apply WP_touch with (q := p); [apply in_loc_near; exact H | apply touch_open_create].
Qed.
Lemma W_open_a p : in_loc p -> tok WP (k_open_a p).
Proof.
  intros H. apply tok_of_tri with (R := fun _ => True). apply tri_open_gen; [auto|]. intros f Hf.
  split; [|exact I]. revert Hf. apply WP_touch with (q := p); [apply in_loc_near; exact H | apply touch_open_create].
Qed.
Lemma W_link a b : in_loc b -> tok WP (k_link a b).
Proof.
  intros H. apply tok_sys_unit. intros f.
  apply WP_touch with (q := b); [apply in_loc_near; exact H | apply touch_link].
Qed.
Lemma W_linkat a d b : in_loc (join d b) -> tok WP (k_linkat a d b).
Proof.
  intros H. apply tok_sys_unit. intros f.
  apply WP_touch with (q := join d b); [apply in_loc_near; exact H | apply touch_link].
Qed.
Lemma W_symlinkat t d n : in_loc (join d n) -> tok WP (k_symlinkat t d n).
Proof.
  intros H. unfold k_symlinkat. apply tok_bind; [apply tok_get_clock|intros now].
  apply tok_sys_unit. intros f.
  apply WP_touch with (q := join d n); [apply in_loc_near; exact H | apply touch_symlink].
Qed.

(* transfers on descriptors change no directory entry *)
Lemma W_write i b : tok WP (k_write i b).
Proof.
  unfold k_write. apply tok_bind; [apply tok_transfer_limit|intros lim].
  apply tri_sys; [auto|]. intros f Hf. simpl. split; [|exact I]. revert Hf. apply WP_same. reflexivity.
Qed.
Lemma W_sendfile out inp off n : tok WP (k_sendfile out inp off n).
Proof.
  unfold k_sendfile. apply tok_bind; [apply tok_transfer_limit|intros lim].
  apply tri_sys; [auto|]. intros f Hf. simpl. split; [|exact I]. revert Hf. apply WP_same. reflexivity.
Qed.
Lemma W_ftruncate i : tok WP (k_ftruncate i).
Proof. apply tok_sys_unit. intros f. simpl. apply WP_same. reflexivity. Qed.

Ltac leafW :=
  first [ leaf1 | apply W_write | apply W_sendfile | apply W_ftruncate
        | apply W_mkdir; assumption | apply W_rmdir; assumption
        | apply W_mkdir; apply in_loc_near; assumption | apply W_rmdir; apply in_loc_near; assumption
        | apply W_mkdirat; assumption | apply W_unlink; assumption | apply W_unlinkat; assumption
        | apply W_open_excl; assumption | apply W_open_w; assumption | apply W_open_a; assumption
        | apply W_link; assumption | apply W_linkat; assumption | apply W_symlinkat; assumption ].
Ltac tk := tk_with leafW.
Ltac tvok := solve [apply tri_of_tok; tk].

(* ---------- parents.c ---------- *)

Lemma W_mkdir_all ds : (forall d, In d ds -> near_loc d) -> tok WP (mkdir_all ds).
Proof.
  induction ds as [|d ds IH]; intros H; simpl; [apply tok_ret|].
  apply tok_bind; [apply W_mkdir; apply H; left; reflexivity|].
  intros r. assert (IH' : tok WP (mkdir_all ds)) by (apply IH; intros; apply H; right; assumption).
  destruct r as [e|]; [destruct e|]; try exact IH'; tk.
Qed.

Lemma W_create_parents p : in_loc p -> tok WP (create_parents p).
Proof.
  intros H. unfold create_parents. tk. apply W_mkdir_all.
  intros d Hd. eapply in_loc_parents; eauto.
Qed.

Lemma W_rmdir_up ds : (forall d, In d ds -> near_loc d) -> tok WP (rmdir_up ds).
Proof.
  induction ds as [|d ds IH]; intros H; simpl; [apply tok_ret|].
  apply tok_bind; [apply W_rmdir; apply H; left; reflexivity|].
  intros r. assert (IH' : tok WP (rmdir_up ds)) by (apply IH; intros; apply H; right; assumption).
  destruct r as [e|]; [destruct e|]; try exact IH'; tk.
Qed.

Lemma W_remove_empty_parents p : in_loc p -> tok WP (remove_empty_parents p).
Proof.
  intros H. unfold remove_empty_parents. tk. apply W_rmdir_up.
  intros d Hd. apply in_rev in Hd. eapply in_loc_parents; eauto.
Qed.

Lemma W_clean_up p : in_loc p -> tok WP (clean_up p).
Proof. intros H. unfold clean_up. tk. apply W_remove_empty_parents. assumption. Qed.

(* ---------- counter.c ---------- *)

Lemma W_write_digits i ds : tok WP (write_digits i ds).
Proof. induction ds as [|c ds IH]; simpl; [apply tok_ret|]. tk. exact IH. Qed.

Lemma W_write_counter p n : in_loc p -> tok WP (write_counter p n).
Proof.
  intros H. unfold write_counter. tk.
  all: try (apply W_remove_empty_parents; assumption).
  all: try (apply W_create_parents; assumption).
  all: try apply W_write_digits.
Qed.

(* ---------- sync.c ---------- *)

Lemma W_sendfile_loop fuel : forall out inp off size, tok WP (sendfile_loop fuel out inp off size).
Proof.
  induction fuel as [|fuel IH]; intros out inp off size; simpl; [apply tok_ret|].
  destruct size; [apply tok_ret|].
  apply tok_bind; [apply W_sendfile|]. intros r.
  destruct r as [[|w]|e]; tk. apply IH.
Qed.

Lemma W_sync_file dst src off : in_loc dst -> tok WP (sync_file dst src off).
Proof.
  intros H. unfold sync_file. tk.
  all: try (apply W_create_parents; assumption).
  all: try (apply W_clean_up; assumption).
  all: try apply W_sendfile_loop.
Qed.

(* ---------- journal.c ---------- *)

Lemma W_open_journal p pat : (forall q, p = Some q -> in_loc q) -> tok WP (open_journal p pat).
Proof.
  intros H. unfold open_journal. destruct p as [q|]; [|apply tok_ret].
  specialize (H q eq_refl). tk.
  all: try (apply W_create_parents; assumption).
Qed.

Lemma W_write_all fuel : forall i b, tok WP (write_all fuel i b).
Proof.
  induction fuel as [|fuel IH]; intros i b; simpl; [apply tok_ret|].
  destruct b; [apply tok_ret|].
  apply tok_bind; [apply W_write|]. intros r. destruct r; tk. apply IH.
Qed.

Lemma W_note ev pid path j : tok WP (note ev pid path j).
Proof.
  unfold note. destruct j; [|apply tok_ret]. destruct ev; [|apply tok_ret].
  tk; try apply W_write_all.
Qed.

Lemma W_record_event ev pid path h : tok WP (record_event ev pid path h).
Proof. unfold record_event. tk. apply W_note. Qed.

(* ---------- the queue ---------- *)

Lemma W_load_linq_aux fuel : forall tc path deb lg,
  in_loc path -> tri WP (some_dir path) (load_linq_aux tc fuel path deb lg).
Proof.
  induction fuel as [|fuel IH]; intros tc path deb lg Hp.
  - simpl. tv; try tvok; try (intros q Hq; discriminate).
    all: try (intros q Hq; inversion Hq; reflexivity).
    all: try exact I.
  - simpl. tv; try tvok; try (intros q Hq; discriminate).
    all: try (intros q Hq; inversion Hq; reflexivity).
    all: try exact I.
    all: try (apply tri_of_tok; apply W_create_parents; assumption).
    all: try (apply tri_of_tok; apply W_mkdir; apply in_loc_near; assumption).
    all: try (apply IH; assumption).
Qed.

Lemma W_load_linq path deb lg : in_loc path -> tri WP (some_dir path) (load_linq path deb lg).
Proof. intros H. apply W_load_linq_aux. assumption. Qed.

Lemma W_q_push path meta q :
  dir_ok (q_dir q) -> tri WP (fun q' => q_dir q' = q_dir q) (q_push path meta q).
Proof.
  intros Hd. unfold q_push. tv; try reflexivity; try tvok.
  apply tri_of_tok. apply W_symlinkat. apply dir_join. assumption.
Qed.

Lemma W_q_pop_head q :
  dir_ok (q_dir q) -> tri WP (fun q' => q_dir q' = q_dir q) (q_pop_head q).
Proof.
  intros Hd. unfold q_pop_head. tv; try reflexivity; try tvok.
  apply tri_of_tok. apply W_unlinkat. apply dir_join. assumption.
Qed.

Lemma W_q_get_head fuel : forall q,
  dir_ok (q_dir q) -> tri WP (fun r => q_dir (snd r) = q_dir q) (q_get_head fuel q).
Proof.
  induction fuel as [|fuel IH]; intros q Hd; simpl.
  - tv; try reflexivity; try tvok.
  - tv; try reflexivity; try tvok.
    + apply W_q_pop_head. assumption.
    + match goal with H : (fun q' : qmem => _) _ |- _ => simpl in H; rename H into Hq end.
      eapply tri_weaken; [apply IH; rewrite Hq; assumption|].
      intros r Hr. simpl in Hr. congruence.
Qed.

(* ---------- handler.c ---------- *)

Lemma W_load_handler cfg cp cpl :
  incl (cfg_locs cfg) L -> c_queue_path cfg <> root_path ->
  tri WP (fun r => forall h, r = Some h -> hinv h) (load_handler cfg cp cpl).
Proof.
  intros Hi Hne. unfold load_handler.
  eapply tri_bind; [tvok|intros ? _].
  eapply tri_bind; [apply W_load_linq; apply (in_cfg_locs L cfg _ Hi); unfold cfg_locs; simpl; tauto|].
  intros q Hq.
  eapply tri_bind; [tvok|intros ? _].
  eapply tri_bind; [tvok|intros ? _].
  eapply tri_bind; [tvok|intros ? _].
  eapply tri_bind; [apply tri_of_tok; apply W_open_journal; apply journal_in_loc; assumption|].
  intros j _.
  eapply tri_bind; [apply tri_of_tok; destruct (c_journal_path cfg); tk|intros ? _].
  eapply tri_bind; [tvok|intros ? _].
  eapply tri_bind; [tvok|intros b _].
  destruct b; [destruct q as [qm|]|].
  - apply tri_ret. intros h Hh. inversion Hh; subst. constructor; simpl; auto.
    rewrite (Hq qm eq_refl). apply queue_dir_ok; assumption.
  - eapply tri_bind; [apply tri_of_tok; destruct j; tk|intros ? _]. eapply tri_bind; [tvok|intros ? _].
    apply tri_ret. intros h Hh. discriminate.
  - eapply tri_bind; [apply tri_of_tok; destruct j; tk|intros ? _].
    eapply tri_bind; [apply tri_of_tok; destruct q; tk|intros ? _].
    apply tri_ret. intros h Hh. discriminate.
Qed.

Lemma W_handle_open_exec pid path h :
  hinv h -> tri WP hinv (handle_open_exec pid path h).
Proof.
  intros Hh. unfold handle_open_exec, when_ok.
  eapply tri_bind; [tvok|intros b _]. destruct b; [|apply tri_ret; assumption].
  eapply tri_bind; [tvok|intros f _].
  eapply tri_bind with (R1 := fun r => hinv (fst r)).
  - destruct (mem (basename path) (c_editors (h_cfg h))).
    + eapply tri_bind; [apply tri_of_tok|intros ? _].
      * destruct (lookup f path) as [[| |]|]; try apply tok_ret. apply tok_get_elf_interpreter.
      * eapply tri_bind; [tvok|intros ? _]. apply tri_ret. simpl.
        destruct Hh as [H1 H2]. constructor; simpl; assumption.
    + destruct (pid_mem pid (h_pids h)).
      * eapply tri_bind; [tvok|intros b _].
        destruct (b && negb (mem path (h_interps h))); apply tri_ret; simpl; [|assumption].
        destruct Hh as [H1 H2]. constructor; simpl; assumption.
      * apply tri_ret. assumption.
  - intros r Hr. eapply tri_bind; [apply tri_of_tok; apply W_record_event|intros ? _].
    apply tri_ret. assumption.
Qed.

Lemma W_push_to_linq pid path h :
  hinv h -> tri WP (fun r => hinv (snd r)) (push_to_linq pid path h).
Proof.
  intros Hh. unfold push_to_linq, when_ok.
  eapply tri_bind; [tvok|intros b _]. destruct b; [|apply tri_ret; assumption].
  destruct (push_decision _ _ _ _) as [[pushed is_hist] pre].
  destruct (negb pushed); [apply tri_ret; assumption|].
  eapply tri_bind; [tvok|intros ? _].
  eapply tri_bind; [apply W_q_push; apply hinv_dir_ok; assumption|intros q1 Hq1].
  eapply tri_bind; [tvok|intros ? _].
  eapply tri_bind; [tvok|intros ? _].
  destruct pre as [k|].
  - eapply tri_bind; [tvok|intros ? _].
    eapply tri_bind.
    + apply W_q_push. rewrite Hq1. apply hinv_dir_ok; assumption.
    + intros q2 Hq2.
      eapply tri_bind; [tvok|intros ? _].
      eapply tri_bind; [tvok|intros ? _].
      apply tri_ret. simpl. apply hinv_set_q; [assumption | congruence].
  - apply tri_ret. simpl. apply hinv_set_q; assumption.
Qed.

Lemma W_reload nc h :
  hinv h ->
  (forall c, nc = Some c -> incl (cfg_locs c) L /\ c_queue_path c <> root_path) ->
  tri WP hinv (reload nc h).
Proof.
  intros Hh Hnc. unfold reload.
  destruct (h_cfg_path h) as [cp|]; [|apply tri_ret; assumption].
  eapply tri_bind; [tvok|intros ? _].
  eapply tri_bind; [tvok|intros ? _].
  eapply tri_bind; [tvok|intros ? _].
  eapply tri_bind; [tvok|intros ? _].
  destruct nc as [c|]; [|apply tri_ret; assumption].
  destruct (Hnc c eq_refl) as [Hi Hne].
  eapply tri_bind; [tvok|intros b _].
  eapply tri_bind with (R1 := some_dir (c_queue_path c)).
  - destruct (b && negb (str_eqb (c_queue_path (h_cfg h)) (c_queue_path c))).
    + eapply tri_bind; [tvok|intros ? _].
      eapply tri_bind; [apply W_load_linq; apply (in_cfg_locs L c _ Hi); unfold cfg_locs; simpl; tauto|].
      intros q Hq.
      eapply tri_bind; [tvok|intros ? _].
      eapply tri_bind; [tvok|intros ? _].
      apply tri_ret. assumption.
    + apply tri_ret. intros q Hq. discriminate.
  - intros nq Hnq.
    eapply tri_bind; [tvok|intros b2 _].
    eapply tri_bind with (R1 := fun _ => True).
    + destruct b2; [|apply tri_ret; exact I].
      eapply tri_bind; [tvok|intros ? _].
      eapply tri_bind; [apply tri_of_tok; apply W_open_journal; apply journal_in_loc; assumption|intros ? _].
      eapply tri_bind; [apply tri_of_tok; destruct (c_journal_path c); tk|intros ? _].
      eapply tri_bind; [tvok|intros ? _].
      apply tri_ret. exact I.
    + intros nj _.
      eapply tri_bind; [tvok|intros b3 _].
      destruct b3; [|apply tri_ret; assumption].
      eapply tri_bind; [apply tri_of_tok; destruct (h_journal h); tk|intros ? _].
      eapply tri_bind; [apply tri_of_tok; destruct nq; tk|intros ? _].
      apply tri_ret. constructor; simpl; auto.
      destruct nq as [q'|]; simpl.
      * rewrite (Hnq q' eq_refl). apply queue_dir_ok; assumption.
      * apply hinv_dir_ok. assumption.
Qed.

Lemma W_handle_close_write pid path nc h :
  hinv h ->
  (forall c, nc = Some c -> incl (cfg_locs c) L /\ c_queue_path c <> root_path) ->
  tri WP hinv (handle_close_write pid path nc h).
Proof.
  intros Hh Hnc. unfold handle_close_write, when_ok.
  eapply tri_bind; [tvok|intros b _]. destruct b; [|apply tri_ret; assumption].
  eapply tri_bind; [apply W_push_to_linq; assumption|intros r Hr].
  destruct r as [pushed h1]. simpl in Hr.
  eapply tri_bind; [apply tri_of_tok; apply W_record_event|intros ? _].
  eapply tri_bind; [tvok|intros b _].
  destruct b; [|apply tri_ret; assumption].
  destruct (h_cfg_path h1) as [cp|]; [|apply tri_ret; assumption].
  destruct (str_eqb path cp); [|apply tri_ret; assumption].
  apply W_reload; assumption.
Qed.

(* ---------- sync_shallow_tree ---------- *)

Lemma W_tree_loop ents : forall src_len dst filt,
  dir_ok dst -> (forall p k, In (p, k) ents -> in_loc p) ->
  tok WP (tree_loop ents src_len dst filt).
Proof.
  induction ents as [|[p k] ents IH]; intros src_len dst filt Hd Hall; simpl; [apply tok_ret|].
  assert (Hp : in_loc p) by (apply (Hall p k); left; reflexivity).
  assert (Hj : forall rel, in_loc (join dst rel)) by (intros rel; apply dir_join; assumption).
  assert (Hj' : in_loc (join dst (skipn (S src_len) p))) by apply Hj.
  assert (IH' : tok WP (tree_loop ents src_len dst filt))
    by (apply IH; [assumption | intros p' k' Hin; apply (Hall p' k'); right; assumption]).
  tk; try exact IH'.
Qed.

Lemma W_sync_shallow_tree rev dst src filt :
  dir_ok dst -> in_loc src -> src <> root_path -> src <> [] ->
  tok WP (sync_shallow_tree rev dst src filt).
Proof.
  intros Hd Hs Hsr Hse. pose proof Hd as [Hd1 Hd2]. unfold sync_shallow_tree.
  apply tok_bind; [apply W_create_parents; assumption|intros ?].
  apply tok_bind; [tk|intros b].
  apply tok_bind; [tk|intros ?].
  apply tok_bind; [tk|intros b1].
  apply tok_bind; [tk|intros opened].
  apply tok_bind; [tk|intros b2].
  destruct (negb b2).
  - tk; apply W_clean_up; assumption.
  - eapply tok_bindv with
      (R1 := fun r => forall ents, r = inl ents -> forall p k, In (p, k) ents -> in_loc p).
    + unfold k_fts. apply tri_sys; [intros e ents E; discriminate|].
      intros f Hf. simpl. split; [exact Hf|].
      intros ents E p k Hin. inversion E; subst.
      destruct (fs_walk_inside _ _ _ _ _ Hsr Hse Hin) as [r ->].
      eapply in_loc_inside; [exact Hs | apply inside_app].
    + intros r Hr. apply tok_bind.
      * destruct r as [ents|e].
        -- apply W_tree_loop; [exact Hd | apply (Hr ents eq_refl)].
        -- destruct e; tk.
      * intros ?. tk. apply W_clean_up. assumption.
Qed.

(* ---------- handle_timeout ---------- *)

Lemma W_project_store_loop fuel : forall rev sp unstable head cfg ev root,
  in_loc root -> spI root sp -> in_loc unstable -> unstable <> root_path -> unstable <> [] ->
  tok WP (project_store_loop fuel rev sp unstable head cfg ev).
Proof.
  induction fuel as [|fuel IH]; intros rev sp unstable head cfg ev root Hr Hs Hu Hu1 Hu2; simpl;
    [apply tok_ret|].
  apply tok_bind; [tk|intros b]. destruct (negb b); [apply tok_ret|].
  apply tok_bind; [tk|intros ?].
  apply tok_bind;
    [apply W_sync_shallow_tree; [apply (current_path_dir_ok L root sp Hr Hs) | assumption | assumption | assumption]|intros ?].
  apply tok_bind; [tk|intros c]. destruct c.
  - apply tok_bind; [tk|intros ?].
    apply (IH rev (increment sp) unstable head cfg ev root); auto using spI_increment.
  - tk.
Qed.

Lemma W_file_store_loop fuel : forall sp head offp off ish cfg root,
  in_loc root -> spI root sp -> in_loc offp ->
  tok WP (file_store_loop fuel sp head offp off ish cfg).
Proof.
  induction fuel as [|fuel IH]; intros sp head offp off ish cfg root Hr Hs Ho; simpl;
    [apply tok_ret|].
  assert (Hd : in_loc (current_path sp)) by (destruct (current_path_dir_ok L root sp Hr Hs); assumption).
  apply tok_bind; [tk|intros ?].
  apply tok_bind; [apply W_sync_file; assumption|intros no].
  apply tok_bind; [tk|intros c1].
  apply tok_bind; [destruct c1; tk|intros c2].
  destruct c2; [tk|].
  apply tok_bind; [tk|intros c3]. destruct c3; [tk|].
  apply tok_bind; [tk|intros c4]. destruct c4.
  - apply (IH (increment sp) head offp off ish cfg root); auto using spI_increment.
  - apply tok_bind; [apply W_write_counter; assumption|intros ?]. tk.
Qed.

Lemma W_handle_timeout_loop fuel : forall rev h,
  hinv2 h -> tri WP (fun r => hinv2 (snd r)) (handle_timeout_loop fuel rev h).
Proof.
  induction fuel as [|fuel IH]; intros rev h Hh; cbn [handle_timeout_loop]; [apply tri_ret; assumption|].
  eapply tri_bind; [tvok|intros b _]. destruct (negb b); [apply tri_ret; assumption|].
  eapply tri_bind; [tvok|intros ? _].
  eapply tri_bind; [apply W_q_get_head; apply hinv_dir_ok; apply Hh|intros r Hr].
  eapply tri_bind; [tvok|intros ? _].
  destruct r as [hd q1]. simpl in Hr.
  assert (Hh1 : hinv2 (set_q q1 h)) by (apply hinv2_set_q; assumption).
  set (h1 := set_q q1 h) in *.
  eapply tri_bind; [tvok|intros b1 _].
  destruct b1; [|apply tri_ret; assumption].
  destruct hd as [[z|path meta]|]; [apply tri_ret; assumption| |apply tri_ret; assumption].
  pose proof Hh1 as [[Hlocs Hqd] Hne].
  assert (Hstore : in_loc (c_store_root (h_cfg h1)))
    by (apply (in_cfg_locs L (h_cfg h1) _ Hlocs); unfold cfg_locs; simpl; tauto).
  assert (Hpstore : in_loc (c_project_store_root (h_cfg h1)))
    by (apply (in_cfg_locs L (h_cfg h1) _ Hlocs); unfold cfg_locs; simpl; tauto).
  assert (Hunst : in_loc (c_unstable_root (h_cfg h1)))
    by (apply (in_cfg_locs L (h_cfg h1) _ Hlocs); unfold cfg_locs; simpl; tauto).
  assert (Hoffs : in_loc (c_offset_root (h_cfg h1)))
    by (apply (in_cfg_locs L (h_cfg h1) _ Hlocs); unfold cfg_locs; simpl; tauto).
  assert (Hunst_ne : c_unstable_root (h_cfg h1) <> [])
    by (apply Hne; unfold cfg_locs; simpl; tauto).
  eapply tri_bind; [tvok|intros v _].
  eapply tri_bind; [tvok|intros bv _].
  eapply tri_bind; [apply tri_of_tok; destruct v; [destruct bv; [destruct (existsb is_slash s)|]|]; tk|intros ? _].
  eapply tri_bind; [tvok|intros b2 _].
  destruct v as [version|]; [|apply tri_ret; assumption].
  destruct b2; [|apply tri_ret; assumption].
  match goal with |- tri _ _ (if ?c then _ else _) => destruct c end.
  { eapply tri_bind; [tvok|intros ? _]. eapply tri_bind; [tvok|intros ? _]. apply tri_ret. assumption. }
  destruct (N.odd meta).
  - (* project head *)
    eapply tri_bind; [tvok|intros f _].
    eapply tri_bind.
    + apply tri_of_tok.
      eapply (W_project_store_loop _ rev _ _ path (h_cfg h1) _ (c_project_store_root (h_cfg h1))).
      * assumption.
      * apply spI_create.
      * apply in_loc_sub. assumption.
      * apply app_slash_ne_root. assumption.
      * destruct (c_unstable_root (h_cfg h1)); [congruence | discriminate].
    + intros ev _.
      eapply tri_bind; [apply tri_of_tok; apply W_record_event|intros ? _].
      eapply tri_bind; [apply W_q_pop_head; apply hinv_dir_ok; apply Hh1|intros q2 Hq2].
      apply IH. apply hinv2_set_q; assumption.
  - (* file head *)
    eapply tri_bind; [apply tri_of_tok; destruct (N.testbit meta 1); [apply tok_read_counter | apply tok_ret]|intros off _].
    eapply tri_bind; [tvok|intros b3 _].
    destruct (negb b3); [apply tri_ret; assumption|].
    eapply tri_bind; [tvok|intros f _].
    eapply tri_bind.
    + apply tri_of_tok.
      eapply (W_file_store_loop _ _ path _ _ _ (h_cfg h1) (c_store_root (h_cfg h1))).
      * assumption.
      * apply spI_create.
      * apply in_loc_sub. assumption.
    + intros r2 _. destruct r2 as [[ev is_stored] sp'].
      eapply tri_bind; [apply W_q_pop_head; apply hinv_dir_ok; apply Hh1|intros q2 Hq2].
      assert (Hh2 : hinv2 (set_q q2 h1)) by (apply hinv2_set_q; assumption).
      eapply tri_bind; [tvok|intros b4 _].
      destruct (negb b4).
      { eapply tri_bind; [tvok|intros ? _]. eapply tri_bind; [tvok|intros ? _]. apply tri_ret. assumption. }
      eapply tri_bind.
      * apply tri_of_tok.
        match goal with |- tok _ (if ?c then _ else _) => destruct c end; [|apply tok_ret].
        match goal with |- context [k_unlink ?pp] => set (project_path := pp) end.
        assert (Hpp : in_loc project_path) by (apply in_loc_sub; assumption).
        tk.
        all: try (apply W_create_parents; assumption).
      * intros ? _.
        eapply tri_bind; [apply tri_of_tok; apply W_record_event|intros ? _].
        apply IH. assumption.
Qed.

Lemma W_handle_timeout rev h :
  hinv2 h -> tri WP (fun r => hinv2 (snd r)) (handle_timeout rev h).
Proof.
  intros Hh. unfold handle_timeout.
  eapply tri_bind; [apply W_handle_timeout_loop; assumption|intros r Hr].
  eapply tri_bind; [tvok|intros b _].
  apply tri_ret. destruct b; assumption.
Qed.

End Watched.

(* ====================================================================== *)
(*                 The statements, one per handler operation               *)
(* ====================================================================== *)

(* every name that is not inside a location of L and not an ancestor directory
   of one resolves in f' to what it resolves to in f: same kind, same inode
   number, same link target -- or to nothing in both *)
Definition untouched (L : list str) (f f' : fs) : Prop :=
  forall p, ~ near_loc L p -> lookup f' p = lookup f p.

Lemma untouched_refl L f : untouched L f f.
Proof. intros p _. reflexivity. Qed.

Lemma untouched_trans L f1 f2 f3 : untouched L f1 f2 -> untouched L f2 f3 -> untouched L f1 f3.
Proof. intros H12 H23 p Hp. rewrite (H23 p Hp). apply H12. exact Hp. Qed.

Lemma untouched_WP L f0 f : untouched L f0 f <-> WP L f0 f.
Proof. split; intros H; exact H. Qed.

(* EVERY oracle: whether the operation returned, reported an error or the
   process died in it (None) *)
Theorem handle_timeout_untouched : forall (L : list str) (rev : bool) (h : handler) (o : oracle) (w : world),
  hinv2 L h ->
  untouched L (w_fs w) (w_fs (snd (handle_timeout rev h o w))) /\
  (forall r, fst (handle_timeout rev h o w) = Some r -> hinv2 L (snd r)).
Proof.
  intros L rev h o w Hh.
  pose proof (W_handle_timeout L (w_fs w) rev h Hh o w I (untouched_refl L (w_fs w))) as H.
  destruct (handle_timeout rev h o w) as [[r|] w']; cbn [fst snd] in *.
  - destruct H as [H1 H2]. split; [exact H1|]. intros r0 E. injection E as <-. exact H2.
  - split; [exact H | intros r0 E; discriminate E].
Qed.

Theorem handle_open_exec_untouched : forall (L : list str) (pid : N) (path : str) (h : handler) (o : oracle) (w : world),
  hinv L h ->
  untouched L (w_fs w) (w_fs (snd (handle_open_exec pid path h o w))) /\
  (forall h', fst (handle_open_exec pid path h o w) = Some h' -> hinv L h').
Proof.
  intros L pid path h o w Hh.
  pose proof (W_handle_open_exec L (w_fs w) pid path h Hh o w I (untouched_refl L (w_fs w))) as H.
  destruct (handle_open_exec pid path h o w) as [[r|] w']; cbn [fst snd] in *.
  - destruct H as [H1 H2]. split; [exact H1|]. intros r0 E. injection E as <-. exact H2.
  - split; [exact H | intros r0 E; discriminate E].
Qed.

Theorem handle_close_write_untouched :
  forall (L : list str) (pid : N) (path : str) (nc : option config) (h : handler) (o : oracle) (w : world),
  hinv L h ->
  (forall c, nc = Some c -> incl (cfg_locs c) L /\ c_queue_path c <> root_path) ->
  untouched L (w_fs w) (w_fs (snd (handle_close_write pid path nc h o w))) /\
  (forall h', fst (handle_close_write pid path nc h o w) = Some h' -> hinv L h').
Proof.
  intros L pid path nc h o w Hh Hnc.
  pose proof (W_handle_close_write L (w_fs w) pid path nc h Hh Hnc o w I (untouched_refl L (w_fs w))) as H.
  destruct (handle_close_write pid path nc h o w) as [[r|] w']; cbn [fst snd] in *.
  - destruct H as [H1 H2]. split; [exact H1|]. intros r0 E. injection E as <-. exact H2.
  - split; [exact H | intros r0 E; discriminate E].
Qed.

Theorem load_handler_untouched :
  forall (L : list str) (cfg : config) (cp : option str) (cpl : nat) (o : oracle) (w : world),
  incl (cfg_locs cfg) L -> c_queue_path cfg <> root_path ->
  untouched L (w_fs w) (w_fs (snd (load_handler cfg cp cpl o w))) /\
  (forall h, fst (load_handler cfg cp cpl o w) = Some (Some h) -> hinv L h).
Proof.
  intros L cfg cp cpl o w Hi Hne.
  pose proof (W_load_handler L (w_fs w) cfg cp cpl Hi Hne o w I (untouched_refl L (w_fs w))) as H.
  destruct (load_handler cfg cp cpl o w) as [[r|] w']; cbn [fst snd] in *.
  - destruct H as [H1 H2]. split; [exact H1|]. intros r0 E. injection E as ->. apply H2. reflexivity.
  - split; [exact H | intros r0 E; discriminate E].
Qed.

Print Assumptions handle_timeout_untouched.
Print Assumptions handle_open_exec_untouched.
Print Assumptions handle_close_write_untouched.
Print Assumptions load_handler_untouched.
