(* C16 (hot reload is all-or-nothing) and a piece of C10, for EVERY oracle.

   (a) reload_all_or_nothing: a reload that returns either installed the
       complete new configuration (config record, new or re-timed queue, newly
       opened journal; trace ok) or left an error pending and the handler
       exactly as it was.  [reload_applied] spells out "complete".
   (b) handle_close_write_all_or_nothing: the same for a write of the
       configuration file (after the push / journal line, which only move the
       queue counters).
   (c) reload_strands_exactly, reload_never_strands_refuted: pending entries of
       the old queue stay behind exactly when the queue path changes; concrete
       witness in ReloadExample (stranded_entry, stranded_config_write).
   (d) descriptor discipline: FdProofs.reload_fd / handle_close_write_fd and the
       leaks FdExample.reload_leak, FdExample.load_linq_leak are cited;
       reload_failure_fd combines them with (a).
   (e) handle_close_write_keeps_dents, handle_close_write_links_only_pushed,
       handle_close_write_error_queue_exact: under every oracle the queue
       directory never loses an entry and only gains the pushed ones.
   All statements are about the handler state and the directory entries; the
   file system side effects of a FAILED reload (a created new queue directory,
   created journal parents) are not undone by klunok and not claimed here. *)
From K Require Import Str Dec Trace Fs World Progs Elf Linq Sieve Handler Hoare Confine Confine2 SyncProofs
     StoreFs StoreLogic StoreProofs FdProofs.
From Coq Require Import Lia.

(* ================================================================== *)
(* Inversion of single runs                                            *)
(* ================================================================== *)

Lemma bind_some {A B} (m : M A) (k : A -> M B) o w b w' :
  bind m k o w = (Some b, w') ->
  exists a w1, m o w = (Some a, w1) /\ k a o w1 = (Some b, w').
Proof.
  unfold bind. destruct (m o w) as [[a|] w1] eqn:E; intros H; [|discriminate].
  exists a, w1. split; [reflexivity|exact H].
Qed.

(* w1 is w with another trace *)
Definition same_but_trace (w w1 : world) : Prop := exists t, w1 = upd_tr t w.

Lemma sbt_refl w : same_but_trace w w.
Proof. exists (w_tr w). destruct w; reflexivity. Qed.
Lemma sbt_upd t w : same_but_trace w (upd_tr t w).
Proof. exists t. reflexivity. Qed.
Lemma sbt_trans a b c : same_but_trace a b -> same_but_trace b c -> same_but_trace a c.
Proof. intros [t ->] [t' ->]. exists t'. reflexivity. Qed.
Lemma sbt_fs w w1 : same_but_trace w w1 -> w_fs w1 = w_fs w.
Proof. intros [t ->]. reflexivity. Qed.

Lemma mod_tr_run f o w : mod_tr f o w = (Some tt, upd_tr (f (w_tr w)) w).
Proof. reflexivity. Qed.
Lemma is_ok_run o w : is_ok o w = (Some (tr_ok (w_tr w)), w).
Proof. reflexivity. Qed.

(* ok-ness through the bookkeeping of trace.c *)
Lemma ok_try t : tr_ok (tr_try t) = tr_ok t.
Proof. unfold tr_try. destruct (tr_ok t) eqn:E; unfold tr_ok in *; cbn [t_frames]; exact E. Qed.
Lemma ok_push f t : tr_ok (tr_push f t) = false.
Proof. reflexivity. Qed.
Lemma ok_rethrow_context s t : tr_ok (tr_rethrow_context s t) = tr_ok t.
Proof.
  unfold tr_rethrow_context. destruct (Nat.eqb (t_post t) 0 && negb (tr_ok t)) eqn:E; [|reflexivity].
  apply andb_prop in E. destruct E as [_ E]. destruct (tr_ok t); [discriminate|reflexivity].
Qed.
Lemma ok_decrement t : tr_ok (snd (tr_decrement t)) = tr_ok t.
Proof. unfold tr_decrement. destruct (t_post t); reflexivity. Qed.
Lemma ok_finally_rethrow_static m t : tr_ok (tr_finally_rethrow_static m t) = tr_ok t.
Proof.
  unfold tr_finally_rethrow_static. pose proof (ok_decrement t) as H.
  destruct (tr_decrement t) as [b t']. cbn [snd] in H.
  destruct (b && negb (tr_ok t')) eqn:E; [|exact H].
  apply andb_prop in E. destruct E as [_ E]. rewrite <- H. destruct (tr_ok t'); [discriminate|reflexivity].
Qed.

(* one bind step of a run that returned *)
Ltac binv H :=
  let a := fresh "a" in let w := fresh "w" in let E := fresh "E" in
  apply bind_some in H; destruct H as (a & w & E & H).

(* a state-only step: the equation gives the intermediate world *)
Ltac sinv E :=
  first [ unfold try_, finally_, finally_rethrow_static, rethrow_context, throw_static, throw_errno,
                 throw_context, throw in E ];
  first [ rewrite mod_tr_run in E | rewrite is_ok_run in E | unfold ret_ in E ];
  injection E as <- <-.

Lemma sys_some {A} c (perform : fs -> ret * A * fs) on_fail o w (a : A) w' :
  sys c perform on_fail o w = (Some a, w') ->
  w_tr w' = w_tr w /\
  ((exists e, a = on_fail e /\ w_fs w' = w_fs w) \/
   (a = snd (fst (perform (w_fs w))) /\ w_fs w' = snd (perform (w_fs w)))).
Proof.
  unfold sys. destruct (perform (w_fs w)) as [[r x] f'] eqn:Ep. cbn [fst snd].
  destruct (o (w_n w)); intros H; try discriminate; injection H as <- <-; cbn [w_tr w_fs];
    (split; [reflexivity|]); try (right; split; reflexivity).
  left. exists e. split; reflexivity.
Qed.

Lemma k_close_some o w r w' : k_close o w = (Some r, w') -> w_tr w' = w_tr w /\ w_fs w' = w_fs w.
Proof.
  unfold k_close, sys_unit. intros H. apply sys_some in H. destruct H as [Ht [[e [_ Hf]]|[_ Hf]]].
  - split; assumption.
  - split; [assumption|exact Hf].
Qed.

(* ================================================================== *)
(* load_linq: what a returned value says                               *)
(* ================================================================== *)

Definition loaded_as (path : str) (deb : Z) (lg : nat) (r : option qmem) (w' : world) : Prop :=
  match r with
  | None => tr_ok (w_tr w') = false
  | Some q => tr_ok (w_tr w') = true /\ q_dir q = path /\ q_deb q = deb /\ q_len_guess q = lg
  end.

Lemma when_ok_some {A} (d : A) m o w a w' :
  when_ok d m o w = (Some a, w') ->
  (tr_ok (w_tr w) = false /\ a = d /\ w' = w) \/ (tr_ok (w_tr w) = true /\ m o w = (Some a, w')).
Proof.
  unfold when_ok. intros H. binv H. sinv E. destruct (tr_ok (w_tr w)) eqn:Eo.
  - right. split; [reflexivity|exact H].
  - left. unfold ret_ in H. injection H as <- <-. repeat split; assumption.
Qed.

Lemma load_linq_aux_some fuel : forall tc path deb lg o w r w',
  load_linq_aux tc fuel path deb lg o w = (Some r, w') -> loaded_as path deb lg r w'.
Proof.
  induction fuel as [|fuel IH]; intros tc path deb lg o w r w' H.
  - cbn [load_linq_aux] in H. apply when_ok_some in H. destruct H as [[Hn [-> ->]]|[_ H]]; [exact Hn|].
    binv H. destruct a as [names|e].
    + binv H. binv H. binv H. sinv E2. binv H. binv H. sinv E3.
      destruct (tr_ok (w_tr w3)) eqn:Eo; unfold ret_ in H; injection H as <- <-; cbn [loaded_as q_dir q_deb q_len_guess].
      * repeat split; try reflexivity. exact Eo.
      * exact Eo.
    + assert (Hx : (throw_errno e;; ret_ None) o w0 = (Some r, w')).
      { destruct e, tc; exact H. }
      clear H. binv Hx. sinv E0. unfold ret_ in Hx. injection Hx as <- <-. reflexivity.
  - cbn [load_linq_aux] in H. apply when_ok_some in H. destruct H as [[Hn [-> ->]]|[_ H]]; [exact Hn|].
    binv H. destruct a as [names|e].
    + binv H. binv H. binv H. sinv E2. binv H. binv H. sinv E3.
      destruct (tr_ok (w_tr w3)) eqn:Eo; unfold ret_ in H; injection H as <- <-; cbn [loaded_as q_dir q_deb q_len_guess].
      * repeat split; try reflexivity. exact Eo.
      * exact Eo.
    + assert (Hx : (e = ENOENT /\ tc = true /\
                    (create_parents path;;
                     do b <- is_ok;
                     (if b then do m <- k_mkdir path; match m with Some e' => throw_errno e' | None => ret_ tt end
                      else ret_ tt);;
                     load_linq_aux false fuel path deb lg) o w0 = (Some r, w')) \/
                   (throw_errno e;; ret_ None) o w0 = (Some r, w')).
      { destruct e, tc; try (right; exact H). left. repeat split. exact H. }
      clear H. destruct Hx as [[_ [_ H]]|Hx].
      * binv H. binv H. binv H. apply IH in H. exact H.
      * binv Hx. sinv E0. unfold ret_ in Hx. injection Hx as <- <-. reflexivity.
Qed.

Lemma load_linq_some path deb lg o w r w' :
  load_linq path deb lg o w = (Some r, w') -> loaded_as path deb lg r w'.
Proof. apply load_linq_aux_some. Qed.

(* ================================================================== *)
(* open_journal: what a returned value says                            *)
(* ================================================================== *)

Lemma fs_open_create_file p f d : fst (fs_open_create p f) = inl d -> exists i, d = FdFile i.
Proof.
  unfold fs_open_create, fs_create_excl. destruct (lookup f p) as [[|i|t m]|]; cbn [fst]; try discriminate.
  - intros H. injection H as <-. eexists; reflexivity.
  - destruct (parent_is_dir f p); cbn [fst]; [discriminate|]. intros H. injection H as <-. eexists; reflexivity.
Qed.

(* with an ok trace at the end, a journal is held exactly when one is configured *)
Lemma open_journal_some p pat o w j w' :
  open_journal p pat o w = (Some j, w') -> tr_ok (w_tr w') = true ->
  (j = None <-> p = None) /\ (forall jn, j = Some jn -> j_pattern jn = pat).
Proof.
  unfold open_journal. destruct p as [p|].
  2:{ unfold ret_. intros H _. injection H as <- <-. split; [tauto|discriminate]. }
  intros H Hok. binv H. binv H. sinv E0. destruct (tr_ok (w_tr w0)) eqn:Eo; cbn [negb] in H.
  2:{ unfold ret_ in H. injection H as <- <-. congruence. }
  binv H. unfold k_open_a, k_open_gen in E0. apply sys_some in E0. destruct E0 as [Ht [[e [-> _]]|[Ha _]]].
  - binv H. sinv E0. unfold ret_ in H. injection H as <- <-. cbn [w_tr upd_tr] in Hok. discriminate.
  - destruct (fs_open_create p (w_fs w0)) as [r f'] eqn:Ec. cbn [fst snd] in Ha.
    destruct r as [d|e].
    + destruct (fs_open_create_file p (w_fs w0) d) as [i ->]; [rewrite Ec; reflexivity|].
      subst a0. unfold ret_ in H. injection H as <- <-. split; [split; discriminate|].
      intros jn Ej. injection Ej as <-. reflexivity.
    + subst a0. binv H. sinv E0. unfold ret_ in H. injection H as <- <-. cbn [w_tr upd_tr] in Hok. discriminate.
Qed.

(* ================================================================== *)
(* trace-only steps                                                    *)
(* ================================================================== *)

Definition okw (w : world) : bool := tr_ok (w_tr w).

Lemma try_some o w a w1 : try_ o w = (Some a, w1) -> same_but_trace w w1 /\ okw w1 = okw w.
Proof. unfold try_. rewrite mod_tr_run. intros H. injection H as _ <-. split; [apply sbt_upd|apply ok_try]. Qed.
Lemma rethrow_context_some s o w a w1 :
  rethrow_context s o w = (Some a, w1) -> same_but_trace w w1 /\ okw w1 = okw w.
Proof.
  unfold rethrow_context. rewrite mod_tr_run. intros H. injection H as _ <-.
  split; [apply sbt_upd|apply ok_rethrow_context].
Qed.
Lemma finally_rethrow_static_some m o w a w1 :
  finally_rethrow_static m o w = (Some a, w1) -> same_but_trace w w1 /\ okw w1 = okw w.
Proof.
  unfold finally_rethrow_static. rewrite mod_tr_run. intros H. injection H as _ <-.
  split; [apply sbt_upd|apply ok_finally_rethrow_static].
Qed.
Lemma throw_some f o w a w1 : throw f o w = (Some a, w1) -> same_but_trace w w1 /\ okw w1 = false.
Proof. unfold throw. rewrite mod_tr_run. intros H. injection H as _ <-. split; [apply sbt_upd|reflexivity]. Qed.
Lemma is_ok_some o w b w1 : is_ok o w = (Some b, w1) -> w1 = w /\ b = okw w.
Proof. rewrite is_ok_run. intros H. injection H as <- <-. split; reflexivity. Qed.
Lemma ret_some {A} (a : A) o w b w1 : ret_ a o w = (Some b, w1) -> w1 = w /\ b = a.
Proof. unfold ret_. intros H. injection H as <- <-. split; reflexivity. Qed.

(* ================================================================== *)
(* (a) reload is all-or-nothing                                        *)
(* ================================================================== *)

Definition set_deb (d : Z) (q : qmem) : qmem :=
  mkQ (q_dir q) (q_head q) (q_size q) d (q_len_guess q) (q_bag q).

(* [h'] is [h] with the complete configuration [n] applied by a run under [o]
   that started in [w] and ended in [w']:
   - the configuration record is [n]; the fields that do not come from the
     configuration (its path, the common-parent length, editor pids, ELF
     interpreters) are kept;
   - the queue is the old one with the new debounce interval when the queue
     path is unchanged, else exactly what load_linq returned for the new path
     (run on the state [w1] = [w] up to trace bookkeeping);
   - the journal is exactly what open_journal returned for the new journal
     path (run after the queue stage), and it is held iff one is configured;
   - afterwards only descriptors are closed: the file system is the one after
     opening the journal. *)
Definition reload_applied (o : oracle) (w : world) (h : handler) (n : config) (h' : handler) (w' : world) : Prop :=
  h_cfg h' = n /\ h_cfg_path h' = h_cfg_path h /\ h_cpl h' = h_cpl h /\
  h_pids h' = h_pids h /\ h_interps h' = h_interps h /\
  exists w1 w2 w3 w4,
    same_but_trace w w1 /\ okw w1 = true /\
    (if str_eqb (c_queue_path (h_cfg h)) (c_queue_path n)
     then h_q h' = set_deb (c_debounce n) (h_q h) /\ w2 = w1
     else load_linq (c_queue_path n) (c_debounce n) (c_path_length_guess n) o w1 = (Some (Some (h_q h')), w2)) /\
    same_but_trace w2 w3 /\ okw w3 = true /\
    open_journal (c_journal_path n) (c_journal_pattern n) o w3 = (Some (h_journal h'), w4) /\
    okw w4 = true /\
    (h_journal h' = None <-> c_journal_path n = None) /\
    w_fs w' = w_fs w4.

Lemma reload_no_cfg_path nc h o w : h_cfg_path h = None -> reload nc h o w = (Some h, w).
Proof. intros E. unfold reload. rewrite E. reflexivity. Qed.

Tactic Notation "binv" hyp(H) "as" ident(a) ident(w) ident(E) :=
  apply bind_some in H; destruct H as (a & w & E & H).

Theorem reload_all_or_nothing : forall (o : oracle) (w : world) (h : handler) (nc : option config)
                                       (h' : handler) (w' : world) (cp : str),
  h_cfg_path h = Some cp ->
  reload nc h o w = (Some h', w') ->
  (okw w' = true /\ okw w = true /\ exists n, nc = Some n /\ reload_applied o w h n h' w')
  \/ (okw w' = false /\ h' = h).
Proof.
  intros o w h nc h' w' cp Hcp H. unfold reload in H. rewrite Hcp in H.
  binv H as u0 w0 E. apply try_some in E. destruct E as [S0 K0].
  destruct nc as [n|].
  2:{ binv H as u1 w1 E. apply throw_some in E. destruct E as [S1 K1].
      binv H as u2 w2 E. apply rethrow_context_some in E. destruct E as [S2 K2].
      binv H as u3 w3 E. apply finally_rethrow_static_some in E. destruct E as [S3 K3].
      apply ret_some in H. destruct H as [-> ->]. right. split; [congruence|reflexivity]. }
  binv H as u1 w1 E. apply ret_some in E. destruct E as [-> _].
  binv H as u2 w2 E. apply rethrow_context_some in E. destruct E as [S2 K2].
  binv H as u3 w3 E. apply finally_rethrow_static_some in E. destruct E as [S3 K3].
  binv H as b w4 E. apply is_ok_some in E. destruct E as [E1 E2]; subst w4 b.
  assert (Kw : okw w3 = okw w) by congruence.
  assert (Sw : same_but_trace w w3) by (eapply sbt_trans; [exact S0|]; eapply sbt_trans; eassumption).
  clear S0 K0 S2 K2 S3 K3 u0 u2 u3 w0 w2.
  binv H as nq wq Eq.
  binv H as b2 wq' E. apply is_ok_some in E. destruct E as [E1 E2]; subst wq' b2.
  binv H as nj wj Ej.
  binv H as b3 wj' E. apply is_ok_some in E. destruct E as [E1 E2]; subst wj' b3.
  destruct (okw wj) eqn:Kj.
  2:{ apply ret_some in H. destruct H as [-> ->]. right. split; [exact Kj|reflexivity]. }
  (* the last test found an ok trace: every stage before it ended ok *)
  destruct (okw wq) eqn:Kq.
  2:{ apply ret_some in Ej. destruct Ej as [-> _]. congruence. }
  destruct (okw w) eqn:Kok.
  2:{ rewrite Kw in Eq. cbn [andb] in Eq. apply ret_some in Eq. destruct Eq as [-> _]. congruence. }
  rewrite Kw in Eq. cbn [andb] in Eq.
  (* the journal stage *)
  binv Ej as u5 w5 E. apply try_some in E. destruct E as [S5 K5].
  binv Ej as j wo Eo.
  binv Ej as u6 w6 E.
  assert (S6 : same_but_trace wo w6 /\ okw w6 = okw wo).
  { destruct (c_journal_path n); [apply rethrow_context_some in E; exact E|].
    apply ret_some in E. destruct E as [-> _]. split; [apply sbt_refl|reflexivity]. }
  clear E. destruct S6 as [S6 K6].
  binv Ej as u7 w7 E. apply finally_rethrow_static_some in E. destruct E as [S7 K7].
  apply ret_some in Ej. destruct Ej as [E1 E2]; subst w7 j.
  assert (Kwo : okw wo = true) by congruence.
  assert (Swo : same_but_trace wo wj) by (eapply sbt_trans; eassumption).
  destruct (open_journal_some _ _ _ _ _ _ Eo Kwo) as [Hjn _].
  (* the closes *)
  binv H as u8 w8 E.
  assert (C1 : okw w8 = okw wj /\ w_fs w8 = w_fs wj).
  { destruct (h_journal h).
    - binv E as r9 w9 E9. apply k_close_some in E9. destruct E9 as [T1 F1].
      apply ret_some in E. destruct E as [-> _]. unfold okw. rewrite T1. split; [reflexivity|exact F1].
    - apply ret_some in E. destruct E as [-> _]. split; reflexivity. }
  clear E. destruct C1 as [C1 F1].
  binv H as u9 w9 E.
  assert (C2 : okw w9 = okw w8 /\ w_fs w9 = w_fs w8).
  { destruct nq.
    - binv E as r10 w10 E10. apply k_close_some in E10. destruct E10 as [T1 F2].
      apply ret_some in E. destruct E as [-> _]. unfold okw. rewrite T1. split; [reflexivity|exact F2].
    - apply ret_some in E. destruct E as [-> _]. split; reflexivity. }
  clear E. destruct C2 as [C2 F2].
  apply ret_some in H. destruct H as [E1 E2]; subst w9 h'.
  left. split; [congruence|]. split; [reflexivity|]. exists n. split; [reflexivity|].
  unfold reload_applied. cbn [h_cfg h_cfg_path h_cpl h_pids h_interps h_q h_journal].
  split; [reflexivity|]. split; [symmetry; exact Hcp|]. repeat (split; [reflexivity|]).
  assert (Ffin : w_fs w' = w_fs wo) by (rewrite F2, F1; apply sbt_fs; exact Swo).
  destruct (str_eqb (c_queue_path (h_cfg h)) (c_queue_path n)) eqn:Esame; cbn [negb] in Eq.
  - (* same queue path *)
    apply ret_some in Eq. destruct Eq as [-> ->].
    exists w3, w3, w5, wo.
    split; [exact Sw|]. split; [congruence|]. split; [split; reflexivity|].
    split; [exact S5|]. split; [congruence|]. split; [exact Eo|]. split; [exact Kwo|].
    split; [exact Hjn|exact Ffin].
  - (* new queue path *)
    binv Eq as u10 w10 E. apply try_some in E. destruct E as [S10 K10].
    binv Eq as q wl El.
    binv Eq as u11 w11 E. apply rethrow_context_some in E. destruct E as [S11 K11].
    binv Eq as u12 w12 E. apply finally_rethrow_static_some in E. destruct E as [S12 K12].
    apply ret_some in Eq. destruct Eq as [-> ->].
    pose proof (load_linq_some _ _ _ _ _ _ _ El) as Hl. unfold loaded_as in Hl.
    destruct q as [q|]; [|unfold okw in *; congruence].
    destruct Hl as [Hlo [Hd [Hdeb Hlg]]].
    exists w10, wl, w5, wo.
    split; [eapply sbt_trans; eassumption|]. split; [congruence|].
    split.
    { replace (mkQ (q_dir q) (q_head q) (q_size q) (c_debounce n) (q_len_guess q) (q_bag q)) with q; [exact El|].
      destruct q; simpl in Hdeb |- *; subst; reflexivity. }
    split; [eapply sbt_trans; [exact S11|]; eapply sbt_trans; [exact S12|exact S5]|].
    split; [congruence|]. split; [exact Eo|]. split; [exact Kwo|].
    split; [exact Hjn|exact Ffin].
Qed.
Print Assumptions reload_all_or_nothing.

(* what a successful reload says about the queue the new handler works on *)
Lemma reload_applied_queue o w h n h' w' :
  reload_applied o w h n h' w' ->
  q_deb (h_q h') = c_debounce n /\
  q_dir (h_q h') = (if str_eqb (c_queue_path (h_cfg h)) (c_queue_path n) then q_dir (h_q h) else c_queue_path n) /\
  (str_eqb (c_queue_path (h_cfg h)) (c_queue_path n) = true ->
   q_head (h_q h') = q_head (h_q h) /\ q_size (h_q h') = q_size (h_q h) /\ q_bag (h_q h') = q_bag (h_q h)).
Proof.
  intros (_ & _ & _ & _ & _ & w1 & w2 & w3 & w4 & _ & _ & Hq & _).
  destruct (str_eqb (c_queue_path (h_cfg h)) (c_queue_path n)).
  - destruct Hq as [-> _]. cbn [set_deb q_deb q_dir q_head q_size q_bag]. repeat split; reflexivity.
  - apply load_linq_some in Hq. destruct Hq as [_ [Hd [Hdeb _]]]. split; [exact Hdeb|]. split; [exact Hd|discriminate].
Qed.

(* (d) descriptor discipline: cited from FdProofs (reload_fd, handle_close_write_fd,
   FdExample.reload_leak, FdExample.load_linq_leak).  Combined with the theorem
   above: when nothing is applied, the handler still holds what it held and at
   most ONE descriptor (the new queue's directory) is left open. *)
Corollary reload_failure_fd o w h nc h' w' cp :
  h_cfg_path h = Some cp -> reload nc h o w = (Some h', w') -> okw w' = false ->
  h' = h /\ (0 <= fd_count w' - fd_count w <= 1)%Z.
Proof.
  intros Hcp H Hn. destruct (reload_all_or_nothing _ _ _ _ _ _ _ Hcp H) as [[Hok _]|[_ ->]]; [congruence|].
  split; [reflexivity|]. pose proof (reload_fd _ _ _ _ _ _ H) as [_ Hd]. lia.
Qed.

Corollary reload_success_fd o w h nc h' w' :
  reload nc h o w = (Some h', w') -> okw w' = true ->
  (fd_count w' - held h' = fd_count w - held h)%Z.
Proof. intros H Hok. pose proof (reload_fd _ _ _ _ _ _ H) as [Hd _]. apply Hd. exact Hok. Qed.

(* ================================================================== *)
(* (b) handle_close_write on the configuration file                    *)
(* ================================================================== *)

(* the queue [q'] is [q] after at most [k] pushes *)
Definition grown_q (k : N) (q q' : qmem) : Prop :=
  q_dir q' = q_dir q /\ q_head q' = q_head q /\ q_deb q' = q_deb q /\ q_len_guess q' = q_len_guess q /\
  (q_size q <= q_size q' <= q_size q + k)%N.

Lemma grown_q_refl k q : grown_q k q q.
Proof. unfold grown_q. repeat split; lia. Qed.

Lemma q_push_some path meta q o w q' w' :
  q_push path meta q o w = (Some q', w') -> grown_q 1 q q'.
Proof.
  unfold q_push. intros H. apply when_ok_some in H. destruct H as [[_ [-> _]]|[_ H]]; [apply grown_q_refl|].
  binv H as r w1 E. destruct r as [e|].
  - binv H as u w2 E2. apply ret_some in H. destruct H as [_ ->]. apply grown_q_refl.
  - apply ret_some in H. destruct H as [_ ->]. unfold grown_q. cbn [q_dir q_head q_deb q_len_guess q_size].
    repeat split; lia.
Qed.

Lemma grown_q_trans a b q1 q2 q3 : grown_q a q1 q2 -> grown_q b q2 q3 -> grown_q (a + b) q1 q3.
Proof. unfold grown_q. intros (A1 & A2 & A3 & A4 & A5) (B1 & B2 & B3 & B4 & B5). repeat split; try congruence; lia. Qed.

Lemma set_q_id h : set_q (h_q h) h = h.
Proof. destruct h; reflexivity. Qed.

Lemma push_to_linq_some pid path h o w pushed h1 w' :
  push_to_linq pid path h o w = (Some (pushed, h1), w') ->
  h1 = set_q (h_q h1) h /\ grown_q 2 (h_q h) (h_q h1).
Proof.
  unfold push_to_linq. intros H.
  assert (Hsame : forall x wz, ret_ (x, h) o wz = (Some (pushed, h1), w') ->
                   h1 = set_q (h_q h1) h /\ grown_q 2 (h_q h) (h_q h1)).
  { intros x wz Hz. apply ret_some in Hz. destruct Hz as [_ Hz]. injection Hz as _ ->.
    split; [symmetry; apply set_q_id|apply grown_q_refl]. }
  apply when_ok_some in H. destruct H as [[_ [Hz _]]|[_ H]].
  { injection Hz as _ ->. split; [symmetry; apply set_q_id|apply grown_q_refl]. }
  destruct (push_decision _ _ _ _) as [[pu is_hist] pre].
  destruct (negb pu); [eapply Hsame; exact H|].
  binv H as u0 w0 E0. binv H as q1 w1 E1. apply q_push_some in E1.
  binv H as u2 w2 E2. binv H as u3 w3 E3.
  destruct pre as [k|].
  - binv H as u4 w4 E4. binv H as q2 w5 E5. apply q_push_some in E5.
    binv H as u6 w6 E6. binv H as u7 w7 E7. apply ret_some in H. destruct H as [_ Hz]. injection Hz as _ ->.
    cbn [set_q h_q]. split; [reflexivity|]. apply (grown_q_trans 1 1 _ _ _ E1 E5).
  - apply ret_some in H. destruct H as [_ Hz]. injection Hz as _ ->.
    cbn [set_q h_q]. split; [reflexivity|].
    destruct E1 as (A1 & A2 & A3 & A4 & A5). unfold grown_q. repeat split; try assumption; lia.
Qed.

(* The written path is the configuration path.  The push and the journal line
   come first: they only move the queue counters of the handler ([h1]).  Then
   either the whole new configuration is applied to [h1] and the trace is ok,
   or an error is pending and the result is [h1]: old configuration, old
   journal, old queue directory. *)
Theorem handle_close_write_all_or_nothing :
  forall (o : oracle) (w : world) (pid : N) (path : str) (nc : option config)
         (h h' : handler) (w' : world),
  h_cfg_path h = Some path ->
  handle_close_write pid path nc h o w = (Some h', w') ->
  exists (h1 : handler) (w1 : world),
    h1 = set_q (h_q h1) h /\ grown_q 2 (h_q h) (h_q h1) /\
    ((okw w' = true /\ okw w = true /\ okw w1 = true /\
      (exists pushed w0 ev,
         push_to_linq pid path h o w = (Some (pushed, h1), w0) /\
         record_event ev pid path h1 o w0 = (Some tt, w1)) /\
      exists n, nc = Some n /\ reload_applied o w1 h1 n h' w')
     \/ (okw w' = false /\ h' = h1)).
Proof.
  intros o w pid path nc h h' w' Hcp H. unfold handle_close_write in H.
  apply when_ok_some in H. destruct H as [[Hn [-> ->]]|[Hok H]].
  { exists h, w. split; [symmetry; apply set_q_id|]. split; [apply grown_q_refl|]. right. split; [exact Hn|reflexivity]. }
  binv H as r w0 Ep. destruct r as [pushed h1].
  destruct (push_to_linq_some _ _ _ _ _ _ _ _ Ep) as [Hh1 Hg].
  binv H as u1 w1 Er. destruct u1.
  binv H as b w2 E. apply is_ok_some in E. destruct E as [E1 E2]; subst w2 b.
  exists h1, w1. split; [exact Hh1|]. split; [exact Hg|].
  destruct (okw w1) eqn:K1.
  2:{ apply ret_some in H. destruct H as [-> ->]. right. split; [exact K1|reflexivity]. }
  assert (Hcp1 : h_cfg_path h1 = Some path) by (rewrite Hh1; cbn [set_q h_cfg_path]; exact Hcp).
  rewrite Hcp1, str_eqb_refl in H.
  destruct (reload_all_or_nothing _ _ _ _ _ _ _ Hcp1 H) as [[Ka [_ Happ]]|[Kb ->]].
  - left. split; [exact Ka|]. split; [exact Hok|]. split; [reflexivity|]. split; [|exact Happ].
    eexists pushed, w0, _. split; [exact Ep|exact Er].
  - right. split; [exact Kb|reflexivity].
Qed.
Print Assumptions handle_close_write_all_or_nothing.

(* ================================================================== *)
(* (e) handle_close_write never loses a directory entry                *)
(* ================================================================== *)

(* every name of [f0] still resolves to the same node in [f] (for a queue
   entry: same target, same mtime) *)
Definition keeps_dents (f0 f : fs) : Prop := forall p v, lookup f0 p = Some v -> lookup f p = Some v.

Section Keeps.
Variable f0 : fs.
Notation KP := (keeps_dents f0).

Lemma KP_add : cl_add KP.
Proof. intros f p n _ H q v Hq. apply lookup_add_some. apply H. exact Hq. Qed.

Lemma lookup_set_file i x f p : lookup (set_file i x f) p = lookup f p.
Proof. reflexivity. Qed.

Lemma KP_append i b f : KP f -> KP (fs_append i b f).
Proof. intros H q v Hq. unfold fs_append. rewrite lookup_set_file. apply H. exact Hq. Qed.

Lemma KP_open_create p f : KP f -> KP (snd (fs_open_create p f)).
Proof.
  intros H. unfold fs_open_create, fs_create_excl.
  destruct (lookup f p) as [[|i|t m]|]; cbn [snd]; try exact H.
  destruct (parent_is_dir f p); cbn [snd]; [exact H|].
  intros q v Hq. apply (lookup_app_some f q v). apply H. exact Hq.
Qed.

Ltac tk := tk_with leaf1.

Lemma tok_write_k i b : tok KP (k_write i b).
Proof.
  unfold k_write. apply tok_bind; [apply tok_transfer_limit|intros lim].
  apply tri_sys; [auto|]. intros f Hf. cbn [fst snd]. split; [apply KP_append; exact Hf|exact I].
Qed.

Lemma tok_write_all_k fuel : forall i b, tok KP (write_all fuel i b).
Proof.
  induction fuel as [|fuel IH]; intros i b; cbn [write_all]; [apply tok_ret|].
  destruct b; [apply tok_ret|].
  apply tok_bind; [apply tok_write_k|]. intros r. destruct r; tk. apply IH.
Qed.

Lemma tok_record_event_k ev pid path h : tok KP (record_event ev pid path h).
Proof.
  unfold record_event, note. tk. apply tok_write_all_k.
Qed.

Lemma tok_open_a_k p : tok KP (k_open_a p).
Proof.
  apply tok_of_tri with (R := fun _ => True). unfold k_open_a. apply tri_open_gen; [auto|].
  intros f Hf. split; [apply KP_open_create; exact Hf|exact I].
Qed.

Lemma tok_open_journal_k p pat : tok KP (open_journal p pat).
Proof.
  unfold open_journal. tk; try apply tok_open_a_k. apply tok_create_parents. exact KP_add.
Qed.

Lemma tok_load_linq_k path deb lg : tok KP (load_linq path deb lg).
Proof. eapply tok_of_tri. apply tri_load_linq. exact KP_add. Qed.

Lemma tok_reload_k nc h : tok KP (reload nc h).
Proof.
  unfold reload. tk; try apply tok_load_linq_k; try apply tok_open_journal_k.
Qed.

Lemma tok_handle_close_write_k pid path nc h : tok KP (handle_close_write pid path nc h).
Proof.
  assert (H : htf KP (handle_close_write pid path nc h) (fun _ => KP) KP).
  { apply htf_close_write with (P := KP).
    - exact KP_add.
    - auto.
    - intros ev h1 _. apply tok_record_event_k.
    - intros h1 _ o w Ho Hw. pose proof (tok_reload_k nc h1 o w Ho Hw) as R.
      destruct (reload nc h1 o w) as [[r|] w1]; [destruct R as [R _]; exact R|exact R].
    - auto. }
  intros o w Ho Hw. specialize (H o w Ho Hw).
  destruct (handle_close_write pid path nc h o w) as [[r|] w1]; [split; [exact H|exact I]|exact H].
Qed.

End Keeps.

(* Under EVERY oracle (failed calls, short writes, a crash at any call), with
   or without a reload, whatever the trace at the end: every directory entry
   that existed before handle_close_write exists afterwards with the same node. *)
Theorem handle_close_write_keeps_dents :
  forall (o : oracle) (w : world) (pid : N) (path : str) (nc : option config) (h : handler),
  keeps_dents (w_fs w) (w_fs (snd (handle_close_write pid path nc h o w))).
Proof.
  intros o w pid path nc h.
  assert (H0 : keeps_dents (w_fs w) (w_fs w)) by (intros p v Hp; exact Hp).
  pose proof (tok_handle_close_write_k (w_fs w) pid path nc h o w I H0) as H.
  destruct (handle_close_write pid path nc h o w) as [[r|] w1]; cbn [snd]; [destruct H as [H _]; exact H|exact H].
Qed.
Print Assumptions handle_close_write_keeps_dents.

(* the statement asked for: an error at the end never costs a queue entry *)
Theorem handle_close_write_error_keeps_queue :
  forall (o : oracle) (w : world) (pid : N) (path : str) (nc : option config) (h h' : handler) (w' : world),
  handle_close_write pid path nc h o w = (Some h', w') -> okw w' = false ->
  forall (name target : str) (mtime : Z),
    lookup (w_fs w) (join (q_dir (h_q h)) name) = Some (NLink target mtime) ->
    lookup (w_fs w') (join (q_dir (h_q h)) name) = Some (NLink target mtime).
Proof.
  intros o w pid path nc h h' w' H _ name target mtime Hl.
  pose proof (handle_close_write_keeps_dents o w pid path nc h) as K. rewrite H in K. cbn [snd] in K.
  apply K. exact Hl.
Qed.
Print Assumptions handle_close_write_error_keeps_queue.

(* reload alone has the same property *)
Theorem reload_keeps_dents :
  forall (o : oracle) (w : world) (nc : option config) (h : handler),
  keeps_dents (w_fs w) (w_fs (snd (reload nc h o w))).
Proof.
  intros o w nc h.
  assert (H0 : keeps_dents (w_fs w) (w_fs w)) by (intros p v Hp; exact Hp).
  pose proof (tok_reload_k (w_fs w) nc h o w I H0) as H.
  destruct (reload nc h o w) as [[r|] w1]; cbn [snd]; [destruct H as [H _]; exact H|exact H].
Qed.
Print Assumptions reload_keeps_dents.

(* ---------- and the only symbolic links it adds are the pushed entries ---------- *)

Lemma alookup_app_inv {A} k (l : list (str * A)) p n v :
  alookup k (l ++ [(p, n)]) = Some v -> alookup k l = Some v \/ (k = p /\ v = n).
Proof.
  induction l as [|[k' v'] l IH]; cbn [alookup app].
  - destruct (str_eqb_spec k p) as [->|_]; [|discriminate]. intros H. injection H as <-. right. split; reflexivity.
  - destruct (str_eqb k k'); [intros H; left; exact H|exact IH].
Qed.

Lemma lookup_add_inv f p n q v :
  lookup (add_dent p n f) q = Some v -> lookup f q = Some v \/ (q = p /\ v = n).
Proof.
  unfold lookup, add_dent. cbn [fs_dents]. destruct (str_eqb q root_path); [intros H; left; exact H|].
  apply alookup_app_inv.
Qed.

Section Links.
Variables (f0 : fs) (S : str -> Prop).

(* every symbolic link of [f] is one of [f0] (same target and mtime) or sits at a path in [S] *)
Definition links_from (f : fs) : Prop :=
  forall p t m, lookup f p = Some (NLink t m) -> lookup f0 p = Some (NLink t m) \/ S p.
Notation LP := links_from.

Lemma LP_add_other p n f : (forall t m, n <> NLink t m) -> LP f -> LP (add_dent p n f).
Proof.
  intros Hn H q t m Hq. apply lookup_add_inv in Hq. destruct Hq as [Hq|[_ Hq]]; [apply (H q t m Hq)|].
  exfalso. apply (Hn t m). symmetry. exact Hq.
Qed.

Lemma LP_add_S p n f : S p -> LP f -> LP (add_dent p n f).
Proof.
  intros Hs H q t m Hq. apply lookup_add_inv in Hq. destruct Hq as [Hq|[-> _]]; [apply (H q t m Hq)|].
  right. exact Hs.
Qed.

Lemma LP_mkdir p f : LP f -> LP (snd (fs_mkdir p f)).
Proof.
  intros H. unfold fs_mkdir. destruct (lookup f p); [exact H|].
  destruct (parent_is_dir f p); [exact H|]. cbn [snd]. apply LP_add_other; [discriminate|exact H].
Qed.

Lemma LP_symlink p t m f : S p -> LP f -> LP (snd (fs_symlink p t m f)).
Proof.
  intros Hs H. unfold fs_symlink. destruct (lookup f p); [exact H|].
  destruct (parent_is_dir f p); [exact H|]. cbn [snd]. apply LP_add_S; [exact Hs|exact H].
Qed.

Lemma LP_append i b f : LP f -> LP (fs_append i b f).
Proof. intros H q t m Hq. unfold fs_append in Hq. rewrite lookup_set_file in Hq. apply (H q t m Hq). Qed.

Lemma LP_open_create p f : LP f -> LP (snd (fs_open_create p f)).
Proof.
  intros H. unfold fs_open_create, fs_create_excl.
  destruct (lookup f p) as [[|i|t m]|]; cbn [snd]; try exact H.
  destruct (parent_is_dir f p); cbn [snd]; [exact H|].
  intros q t m Hq.
  assert (Hq' : lookup (add_dent p (NFile (fs_next f)) f) q = Some (NLink t m)) by exact Hq.
  apply lookup_add_inv in Hq'. destruct Hq' as [Hq'|[_ Hq']]; [apply (H q t m Hq')|discriminate].
Qed.

Ltac tk := tk_with leaf1.

Lemma tok_mkdir_l p : tok LP (k_mkdir p).
Proof. apply tok_sys_unit. intros f. apply LP_mkdir. Qed.

Lemma tok_mkdir_all_l ds : tok LP (mkdir_all ds).
Proof.
  induction ds as [|d ds IH]; cbn [mkdir_all]; [apply tok_ret|].
  apply tok_bind; [apply tok_mkdir_l|]. intros r.
  destruct r as [e|]; [destruct e|]; try exact IH; tk.
Qed.

Lemma tok_create_parents_l p : tok LP (create_parents p).
Proof. unfold create_parents. tk. apply tok_mkdir_all_l. Qed.

Lemma tok_load_linq_aux_l fuel : forall tc path deb lg, tok LP (load_linq_aux tc fuel path deb lg).
Proof.
  induction fuel as [|fuel IH]; intros tc path deb lg; cbn [load_linq_aux].
  - tk.
  - tk; try apply tok_create_parents_l; try apply tok_mkdir_l; try apply IH.
Qed.

Lemma tok_load_linq_l path deb lg : tok LP (load_linq path deb lg).
Proof. apply tok_load_linq_aux_l. Qed.

Lemma tok_write_l i b : tok LP (k_write i b).
Proof.
  unfold k_write. apply tok_bind; [apply tok_transfer_limit|intros lim].
  apply tri_sys; [auto|]. intros f Hf. cbn [fst snd]. split; [apply LP_append; exact Hf|exact I].
Qed.

Lemma tok_write_all_l fuel : forall i b, tok LP (write_all fuel i b).
Proof.
  induction fuel as [|fuel IH]; intros i b; cbn [write_all]; [apply tok_ret|].
  destruct b; [apply tok_ret|].
  apply tok_bind; [apply tok_write_l|]. intros r. destruct r; tk. apply IH.
Qed.

Lemma tok_record_event_l ev pid path h : tok LP (record_event ev pid path h).
Proof. unfold record_event, note. tk. apply tok_write_all_l. Qed.

Lemma tok_open_a_l p : tok LP (k_open_a p).
Proof.
  apply tok_of_tri with (R := fun _ => True). unfold k_open_a. apply tri_open_gen; [auto|].
  intros f Hf. split; [apply LP_open_create; exact Hf|exact I].
Qed.

Lemma tok_open_journal_l p pat : tok LP (open_journal p pat).
Proof. unfold open_journal. tk; try apply tok_open_a_l. apply tok_create_parents_l. Qed.

Lemma tok_reload_l nc h : tok LP (reload nc h).
Proof. unfold reload. tk; try apply tok_load_linq_l; try apply tok_open_journal_l. Qed.

Lemma tok_symlinkat_l t d n : S (join d n) -> tok LP (k_symlinkat t d n).
Proof.
  intros Hs. unfold k_symlinkat. tk. apply tok_sys_unit. intros f. apply LP_symlink. exact Hs.
Qed.

Lemma tri_q_push_l path meta q :
  S (join (q_dir q) (dec (q_head q + q_size q))) -> tri LP (grown_q 1 q) (q_push path meta q).
Proof.
  intros Hs. unfold q_push, when_ok.
  eapply tri_bind; [apply tri_of_tok; tk|intros b _]. destruct b; [|apply tri_ret; apply grown_q_refl].
  eapply tri_bind; [apply tri_of_tok; apply tok_symlinkat_l; exact Hs|intros r _].
  destruct r as [e|].
  - eapply tri_bind; [apply tri_of_tok; tk|intros ? _]. apply tri_ret. apply grown_q_refl.
  - apply tri_ret. unfold grown_q. cbn [q_dir q_head q_deb q_len_guess q_size]. repeat split; lia.
Qed.

End Links.

(* the two names a close-write can push under *)
Definition pushed_names (q : qmem) (p : str) : Prop :=
  p = join (q_dir q) (dec (q_head q + q_size q)) \/ p = join (q_dir q) (dec (q_head q + q_size q + 1)).

Lemma tri_push_to_linq_l f0 pid path h :
  tri (links_from f0 (pushed_names (h_q h))) (fun r => same_h h (snd r)) (push_to_linq pid path h).
Proof.
  set (P := links_from f0 (pushed_names (h_q h))).
  unfold push_to_linq, when_ok.
  eapply tri_bind; [apply tri_of_tok; tk_with leaf1|intros b _]. destruct b; [|apply tri_ret; apply same_h_refl].
  destruct (push_decision _ _ _ _) as [[pushed is_hist] pre].
  destruct (negb pushed); [apply tri_ret; apply same_h_refl|].
  eapply tri_bind; [apply tri_of_tok; tk_with leaf1|intros ? _].
  eapply tri_bind; [apply tri_q_push_l; left; reflexivity|intros q1 Hq1].
  eapply tri_bind; [apply tri_of_tok; tk_with leaf1|intros ? _].
  eapply tri_bind; [apply tri_of_tok; tk_with leaf1|intros ? _].
  destruct Hq1 as (G1 & G2 & G3 & G4 & G5).
  destruct pre as [k|].
  - eapply tri_bind; [apply tri_of_tok; tk_with leaf1|intros ? _].
    eapply tri_bind with (R1 := grown_q 1 q1).
    { apply tri_q_push_l. unfold pushed_names. rewrite G1, G2.
      assert (Hs : q_size q1 = q_size (h_q h) \/ q_size q1 = (q_size (h_q h) + 1)%N) by lia.
      destruct Hs as [->| ->]; [left; reflexivity|right].
      rewrite N.add_assoc. reflexivity. }
    intros q2 (F1 & _).
    eapply tri_bind; [apply tri_of_tok; tk_with leaf1|intros ? _].
    eapply tri_bind; [apply tri_of_tok; tk_with leaf1|intros ? _].
    apply tri_ret. repeat split; cbn [snd set_q h_cfg h_cfg_path h_journal h_q]. congruence.
  - apply tri_ret. repeat split; cbn [snd set_q h_cfg h_cfg_path h_journal h_q]. exact G1.
Qed.

Lemma tok_handle_close_write_l f0 pid path nc h :
  tok (links_from f0 (pushed_names (h_q h))) (handle_close_write pid path nc h).
Proof.
  set (P := links_from f0 (pushed_names (h_q h))).
  unfold handle_close_write, when_ok.
  eapply tok_bind; [tk_with leaf1|intros b]. destruct b; [|apply tok_ret].
  eapply tok_bindv; [apply tri_push_to_linq_l|intros r _]. destruct r as [pushed h1].
  eapply tok_bind; [apply tok_record_event_l|intros ?].
  eapply tok_bind; [tk_with leaf1|intros b]. destruct b; [|apply tok_ret].
  destruct (h_cfg_path h1) as [cp|]; [|apply tok_ret].
  destruct (str_eqb path cp); [apply tok_reload_l|apply tok_ret].
Qed.

(* Under EVERY oracle (crash included), with or without a reload: a symbolic
   link that exists after handle_close_write either existed before with the
   same target and mtime, or is one of the (at most two) entries just pushed
   under the next free numbers of the queue directory.  With
   handle_close_write_keeps_dents: the set of queue entries on disk is the old
   one, extended by pushed entries only. *)
Theorem handle_close_write_links_only_pushed :
  forall (o : oracle) (w : world) (pid : N) (path : str) (nc : option config) (h : handler),
  links_from (w_fs w) (pushed_names (h_q h)) (w_fs (snd (handle_close_write pid path nc h o w))).
Proof.
  intros o w pid path nc h.
  assert (H0 : links_from (w_fs w) (pushed_names (h_q h)) (w_fs w)) by (intros p t m Hp; left; exact Hp).
  pose proof (tok_handle_close_write_l (w_fs w) pid path nc h o w I H0) as H.
  destruct (handle_close_write pid path nc h o w) as [[r|] w1]; cbn [snd]; [destruct H as [H _]; exact H|exact H].
Qed.
Print Assumptions handle_close_write_links_only_pushed.

(* (e), complete form: when handle_close_write ends with an error pending, the
   entries (symbolic links) of the queue directory are the old ones, unchanged,
   plus possibly the entries just pushed -- never fewer, never anything else. *)
Theorem handle_close_write_error_queue_exact :
  forall (o : oracle) (w : world) (pid : N) (path : str) (nc : option config) (h h' : handler) (w' : world),
  handle_close_write pid path nc h o w = (Some h', w') -> okw w' = false ->
  forall (name target : str) (mtime : Z),
    let p := join (q_dir (h_q h)) name in
    (lookup (w_fs w) p = Some (NLink target mtime) -> lookup (w_fs w') p = Some (NLink target mtime)) /\
    (lookup (w_fs w') p = Some (NLink target mtime) ->
     lookup (w_fs w) p = Some (NLink target mtime) \/ pushed_names (h_q h) p).
Proof.
  intros o w pid path nc h h' w' H _ name target mtime p. split.
  - intros Hl. pose proof (handle_close_write_keeps_dents o w pid path nc h) as K.
    rewrite H in K. cbn [snd] in K. apply K. exact Hl.
  - intros Hl. pose proof (handle_close_write_links_only_pushed o w pid path nc h) as K.
    rewrite H in K. cbn [snd] in K. apply (K p target mtime Hl).
Qed.
Print Assumptions handle_close_write_error_queue_exact.

(* ================================================================== *)
(* (c) when pending entries of the old queue stay behind               *)
(* ================================================================== *)

(* After a successful reload:
   - queue path unchanged: the handler keeps its queue (directory, head, size,
     bag), only the debounce interval is the new one -- nothing stays behind;
   - queue path changed: the handler works on the NEW directory only, and
     every entry of the old directory is still on disk there (nothing moves
     it): all pending entries of the old queue stay behind.
   So entries are stranded exactly when the queue path changes while the old
   queue directory is non-empty. *)
Theorem reload_strands_exactly :
  forall (o : oracle) (w : world) (h : handler) (n : config) (h' : handler) (w' : world) (cp : str),
  h_cfg_path h = Some cp ->
  q_dir (h_q h) = c_queue_path (h_cfg h) ->
  reload (Some n) h o w = (Some h', w') -> okw w' = true ->
  (c_queue_path (h_cfg h) = c_queue_path n -> h_q h' = set_deb (c_debounce n) (h_q h)) /\
  (c_queue_path (h_cfg h) <> c_queue_path n ->
     q_dir (h_q h') = c_queue_path n /\ q_dir (h_q h') <> q_dir (h_q h) /\
     forall name target mtime,
       lookup (w_fs w) (join (q_dir (h_q h)) name) = Some (NLink target mtime) ->
       lookup (w_fs w') (join (q_dir (h_q h)) name) = Some (NLink target mtime)).
Proof.
  intros o w h n h' w' cp Hcp Hinv H Hok.
  destruct (reload_all_or_nothing _ _ _ _ _ _ _ Hcp H) as [[_ [_ [n' [En Happ]]]]|[Hn _]]; [|congruence].
  injection En as <-.
  pose proof (reload_applied_queue _ _ _ _ _ _ Happ) as [_ [Hd _]].
  destruct Happ as (_ & _ & _ & _ & _ & w1 & w2 & w3 & w4 & _ & _ & Hq & _).
  split.
  - intros E. apply str_eqb_eq in E. rewrite E in Hq. destruct Hq as [Hq _]. exact Hq.
  - intros E. apply str_eqb_neq in E. rewrite E in Hd. split; [exact Hd|]. split.
    + rewrite Hd, Hinv. apply str_eqb_neq in E. congruence.
    + intros name target mtime Hl. pose proof (reload_keeps_dents o w (Some n) h) as K.
      rewrite H in K. cbn [snd] in K. apply K. exact Hl.
Qed.
Print Assumptions reload_strands_exactly.

(* the property one would like: after a successful reload whatever is still
   in the old queue directory is in the directory the handler works on *)
Definition reload_never_strands : Prop :=
  forall (o : oracle) (w : world) (h : handler) (n : config) (h' : handler) (w' : world) (cp : str),
  h_cfg_path h = Some cp -> q_dir (h_q h) = c_queue_path (h_cfg h) ->
  reload (Some n) h o w = (Some h', w') -> okw w' = true ->
  forall name target mtime,
    lookup (w_fs w') (join (q_dir (h_q h)) name) = Some (NLink target mtime) ->
    q_dir (h_q h') = q_dir (h_q h).

(* ================================================================== *)
(* Concrete runs                                                       *)
(* ================================================================== *)

Module ReloadExample.
  Import FdExample.
  Local Open Scope char_scope.

  (* /q with the pending entry /q/0 -> "/x"; nothing else *)
  Definition fsA : fs :=
    let f1 := snd (fs_mkdir p_q fs_empty) in
    snd (fs_symlink (p_q ++ ["/"; "0"]) (encode 0 ["/"; "x"]) 0%Z f1).
  Definition wA : world := mkW fsA 0 [] 100%Z tr_empty.

  (* old configuration: queue /q, no journal; new: queue /r, journal /j/l;
     third: queue /q again, journal /j/l, debounce 5 *)
  Definition cfgA : config := cfg_with p_q None.
  Definition cfgB : config := cfg_with p_q2 (Some p_j).
  Definition cfgC : config :=
    mkCfg [] no_rules ["/"; "s"; "t"] ["/"; "p"; "s"] ["/"; "u"] p_q (Some p_j) ["/"; "o"]
          [] [] 5%Z 0 8 None None None None None None None.

  (* the handler load_handler builds for cfgA, with pid 7 registered as an editor *)
  Definition hA : handler :=
    mkH cfgA (Some p_cfg) 0 (mkQ p_q 0 1 0%Z 8 [["/"; "x"]]) None [7%N] [].

  Example hA_is_loaded :
    fst (load_handler cfgA (Some p_cfg) 0 no_faults wA)
    = Some (Some (mkH cfgA (Some p_cfg) 0 (h_q hA) None [] [])).
  Proof. vm_compute. reflexivity. Qed.

  Definition qB : qmem := mkQ p_q2 0 0 0%Z 8 [].
  Definition hB : handler := mkH cfgB (Some p_cfg) 0 qB (Some (mkJ 1 [])) [7%N] [].

  (* SUCCESS: everything of cfgB is applied, the trace is ok *)
  Example reload_success :
    let '(r, w') := reload (Some cfgB) hA no_faults wA in
    r = Some hB /\ okw w' = true.
  Proof. vm_compute. split; reflexivity. Qed.

  (* same queue path: the queue is kept, the debounce interval is the new one *)
  Example reload_success_same_queue :
    let '(r, w') := reload (Some cfgC) hA no_faults wA in
    r = Some (mkH cfgC (Some p_cfg) 0 (mkQ p_q 0 1 5%Z 8 [["/"; "x"]]) (Some (mkJ 1 [])) [7%N] []) /\
    okw w' = true.
  Proof. vm_compute. split; reflexivity. Qed.

  (* FAILURE 1: the new queue is loaded (calls 0-3), mkdir /j is call 4, the open
     of the new journal (call 5) fails: nothing is applied *)
  Example reload_failure_journal :
    let '(r, w') := reload (Some cfgB) hA (fail_at 5 EMFILE) wA in
    r = Some hA /\ okw w' = false.
  Proof. vm_compute. split; reflexivity. Qed.

  (* FAILURE 2: the new queue directory cannot be created *)
  Example reload_failure_queue :
    let '(r, w') := reload (Some cfgB) hA (fail_at 1 EACCES) wA in
    r = Some hA /\ okw w' = false.
  Proof. vm_compute. split; reflexivity. Qed.

  (* FAILURE 3: the rewritten file is not a valid configuration *)
  Example reload_failure_invalid :
    let '(r, w') := reload None hA no_faults wA in
    r = Some hA /\ okw w' = false /\ w_fs w' = fsA.
  Proof. vm_compute. repeat split; reflexivity. Qed.

  (* whichever single call fails (with whatever errno of the three tried), the
     result is hA with an error pending or hB without -- never a mixture
     (a failing close() is ignored by klunok).  Compared: configured queue
     path, queue directory, queue size, debounce, journal *)
  Definition same_shape (a b : handler) : bool :=
    str_eqb (c_queue_path (h_cfg a)) (c_queue_path (h_cfg b)) &&
    str_eqb (q_dir (h_q a)) (q_dir (h_q b)) && N.eqb (q_size (h_q a)) (q_size (h_q b)) &&
    Z.eqb (q_deb (h_q a)) (q_deb (h_q b)) &&
    match c_journal_path (h_cfg a), c_journal_path (h_cfg b) with
    | None, None => true | Some x, Some y => str_eqb x y | _, _ => false
    end &&
    match h_journal a, h_journal b with
    | None, None => true | Some x, Some y => Nat.eqb (j_ino x) (j_ino y) | _, _ => false
    end.

  Example reload_any_single_fault :
    forallb (fun e =>
      forallb (fun i =>
                 let '(r, w') := reload (Some cfgB) hA (fail_at i e) wA in
                 match r with
                 | Some h' => if okw w' then same_shape hB h' else same_shape hA h'
                 | None => false
                 end) (seq 0 9)) [EIO; ENOENT; EEXIST] = true.
  Proof. vm_compute. reflexivity. Qed.

  (* a crash: no handler is returned at all (the theorems are about returned runs) *)
  Example reload_crash :
    fst (reload (Some cfgB) hA (fun i => if Nat.eqb i 3 then FCrash else FNone) wA) = None.
  Proof. vm_compute. reflexivity. Qed.

  (* the theorem applies to these runs (its hypotheses are satisfiable, both
     disjuncts occur) *)
  Example all_or_nothing_applies_success :
    exists h' w', reload (Some cfgB) hA no_faults wA = (Some h', w') /\
                  okw w' = true /\ reload_applied no_faults wA hA cfgB h' w'.
  Proof.
    destruct (reload (Some cfgB) hA no_faults wA) as [r w'] eqn:E.
    assert (Hr : r = Some hB /\ okw w' = true).
    { pose proof reload_success as H. rewrite E in H. exact H. }
    destruct Hr as [-> Hok]. exists hB, w'. split; [reflexivity|]. split; [exact Hok|].
    destruct (reload_all_or_nothing no_faults wA hA (Some cfgB) hB w' p_cfg eq_refl E) as [[_ [_ [n [En Ha]]]]|[Hn _]]; [|congruence].
    injection En as <-. exact Ha.
  Qed.

  Example all_or_nothing_applies_failure :
    exists w', reload (Some cfgB) hA (fail_at 5 EMFILE) wA = (Some hA, w') /\ okw w' = false.
  Proof.
    destruct (reload (Some cfgB) hA (fail_at 5 EMFILE) wA) as [r w'] eqn:E.
    pose proof reload_failure_journal as H. rewrite E in H. destruct H as [-> Hn].
    exists w'. split; [reflexivity|exact Hn].
  Qed.

  (* (b): pid 7 (an editor) rewrites the configuration file /c.  The write is
     pushed on the OLD queue (/q/1 -> "/c"), then cfgB is applied. *)
  Example close_write_success :
    let '(r, w') := handle_close_write 7 p_cfg (Some cfgB) hA no_faults wA in
    r = Some hB /\ okw w' = true /\
    lookup (w_fs w') (p_q ++ ["/"; "1"]) = Some (NLink ["/"; "c"] 100%Z).
  Proof. vm_compute. repeat split; reflexivity. Qed.

  (* the journal of cfgB cannot be opened (call 0 is the symlinkat of the push):
     the handler is hA with the queue counter moved by the push *)
  Example close_write_failure :
    let '(r, w') := handle_close_write 7 p_cfg (Some cfgB) hA (fail_at 6 EMFILE) wA in
    r = Some (set_q (mkQ p_q 0 2 0%Z 8 [["/"; "c"]; ["/"; "x"]]) hA) /\ okw w' = false /\
    lookup (w_fs w') (p_q ++ ["/"; "0"]) = Some (NLink ["/"; "x"] 0%Z) /\
    lookup (w_fs w') (p_q ++ ["/"; "1"]) = Some (NLink ["/"; "c"] 100%Z).
  Proof. vm_compute. repeat split; reflexivity. Qed.

  Example close_write_hypotheses_hold : h_cfg_path hA = Some p_cfg /\ q_dir (h_q hA) = c_queue_path (h_cfg hA).
  Proof. split; reflexivity. Qed.

  (* (c) STRANDED: after the successful reload to /r the entry /q/0 is still
     on disk, the new handler's queue is the empty /r, and its next timeout
     pass says "queue empty, sleep for ever" (TPause -1) without touching /q *)
  Example stranded_entry :
    let '(r, w') := reload (Some cfgB) hA no_faults wA in
    r = Some hB /\ okw w' = true /\
    lookup (w_fs w') (join (q_dir (h_q hA)) ["0"]) = Some (NLink ["/"; "x"] 0%Z) /\
    q_dir (h_q hB) = p_q2 /\ q_size (h_q hB) = 0%N /\
    let '(t, w'') := handle_timeout false hB no_faults w' in
    t = Some (TPause (-1), hB) /\
    lookup (w_fs w'') (join (q_dir (h_q hA)) ["0"]) = Some (NLink ["/"; "x"] 0%Z).
  Proof. vm_compute. repeat split; reflexivity. Qed.

  (* even the write of the configuration file itself is stranded when an
     editor made it: it was pushed as /q/1 just before the switch to /r *)
  Example stranded_config_write :
    let '(r, w') := handle_close_write 7 p_cfg (Some cfgB) hA no_faults wA in
    match r with
    | Some h' => q_dir (h_q h') = p_q2 /\ q_size (h_q h') = 0%N /\
                 map fst (children (w_fs w') p_q) = [p_q ++ ["/"; "0"]; p_q ++ ["/"; "1"]] /\
                 children (w_fs w') p_q2 = []
    | None => False
    end.
  Proof. vm_compute. repeat split; reflexivity. Qed.

  (* the close-write theorems apply to these runs *)
  Example close_write_all_or_nothing_applies :
    (exists h' w', handle_close_write 7 p_cfg (Some cfgB) hA no_faults wA = (Some h', w') /\ okw w' = true) /\
    (exists h' w', handle_close_write 7 p_cfg (Some cfgB) hA (fail_at 6 EMFILE) wA = (Some h', w') /\
                   okw w' = false /\
                   lookup (w_fs w') (join (q_dir (h_q hA)) ["1"]) = Some (NLink ["/"; "c"] 100%Z) /\
                   pushed_names (h_q hA) (join (q_dir (h_q hA)) ["1"])).
  Proof.
    split.
    - destruct (handle_close_write 7 p_cfg (Some cfgB) hA no_faults wA) as [r w'] eqn:E.
      pose proof close_write_success as H. rewrite E in H. destruct H as (-> & Hok & _).
      exists hB, w'. split; [reflexivity|exact Hok].
    - destruct (handle_close_write 7 p_cfg (Some cfgB) hA (fail_at 6 EMFILE) wA) as [r w'] eqn:E.
      pose proof close_write_failure as H. rewrite E in H. destruct H as (-> & Hn & _ & Hl).
      eexists _, w'. split; [reflexivity|]. split; [exact Hn|]. split; [exact Hl|].
      left. vm_compute. reflexivity.
  Qed.
End ReloadExample.

Lemma reload_never_strands_refuted : ~ reload_never_strands.
Proof.
  intros H.
  destruct (reload (Some ReloadExample.cfgB) ReloadExample.hA no_faults ReloadExample.wA) as [r w'] eqn:E.
  pose proof ReloadExample.stranded_entry as S. rewrite E in S.
  destruct S as (-> & Hok & Hl & _).
  specialize (H no_faults ReloadExample.wA ReloadExample.hA ReloadExample.cfgB ReloadExample.hB w'
                FdExample.p_cfg eq_refl eq_refl E Hok _ _ _ Hl).
  vm_compute in H. discriminate H.
Qed.
Print Assumptions reload_never_strands_refuted.
