(* C04 "stored versions are immutable": the main theorems.

   For EVERY oracle -- any combination of failing calls, short transfers and a
   crash before any call -- handle_timeout, handle_open_exec, handle_close_write
   (including a configuration reload) and load_handler never change or remove a
   file that is in the store or in the project store, and they re-establish the
   invariant SInv, so the statements chain over whole histories.

   Files: StoreFs.v (definitions, file-system lemmas), StoreLogic.v (triples),
   StoreProgs.v (one lemma per program), this file (remaining operations,
   theorems, boolean checkers, a concrete instance). *)
From K Require Import Str Dec Trace Fs World Progs Elf Linq Sieve Handler Hoare Confine Confine2 SyncProofs
     StoreFs StoreLogic StoreProgs.
From Coq Require Import Lia.

Ltac tk := tk_with leaf1.
Ltac tvok := solve [apply tri_of_tok; tk].

(* ---------- open_journal changes the journal component of the invariant ---------- *)

Section OpenJournal.
Variables (X : fs -> Prop) (c : config) (oj : option journal) (f0 : fs).
Hypothesis HXa : cl_add X.
Hypothesis HXo : forall p f, X f -> X (snd (fs_open_create p f)).
Hypothesis Hc : cdisj c.

Lemma htf_open_journal pat :
  htf (fun f => X f /\ Inv c oj f0 f)
      (open_journal (c_journal_path c) pat)
      (fun r f => X f /\ Inv c r f0 f)
      (fun f => X f /\ Inv c None f0 f).
Proof.
  set (P := fun f => X f /\ Inv c oj f0 f).
  set (C := fun f => X f /\ Inv c None f0 f).
  assert (HPC : forall f, P f -> C f).
  { intros f [H1 H2]. split; [exact H1 | eapply Inv_drop_journal; exact H2]. }
  unfold open_journal. destruct (c_journal_path c) as [p|] eqn:Ep; [|apply htf_ret; exact HPC].
  assert (HPa : cl_add P) by (apply cl_add_conj; [exact HXa | apply IV_add]).
  eapply htf_bind_tri; [apply tri_of_tok; apply tok_create_parents; exact HPa | exact HPC | intros ? _].
  eapply htf_bind_tri; [tvok | exact HPC | intros b _].
  destruct (negb b); [apply htf_ret; exact HPC|].
  eapply htf_bind with
    (Q1 := fun r f => P f /\ forall i, r = inl (FdFile i) -> X f /\ Inv c (Some (mkJ i pat)) f0 f).
  - unfold htf, k_open_a, k_open_gen. apply ht_sys.
    + intros w Hw. apply HPC. exact Hw.
    + intros w e Hw. simpl. split; [exact Hw | intros i E; discriminate].
    + intros w Hw. destruct (fs_open_create p (w_fs w)) as [r f'] eqn:E. simpl.
      destruct Hw as [HX HI].
      assert (HX' : X f') by (pose proof (HXo p _ HX) as A; rewrite E in A; exact A).
      split.
      * split; [exact HX'|].
        pose proof (Inv_open_create_any c oj f0 Hc p _ HI) as A. rewrite E in A. exact A.
      * intros i Er. subst r. split; [exact HX'|]. eapply Inv_open_journal; eauto.
  - intros r. destruct r as [[i|d]|e].
    + apply htf_ret. intros f [_ H]. apply (H i eq_refl).
    + apply htf_ret. intros f [H _]. apply HPC. exact H.
    + eapply htf_conseq with (P := P) (Q := fun r f => X f /\ Inv c r f0 f) (C := C);
        [intros f [H _]; exact H | auto | auto |].
      eapply htf_bind_tri; [tvok | exact HPC | intros ? _]. apply htf_ret. exact HPC.
Qed.

End OpenJournal.

(* ---------- load_handler ---------- *)

Section Load.
Variables (c : config) (f0 : fs).
Hypothesis D : disjoint_locs c.

Lemma htf_load_handler cp cpl :
  htf (Inv c None f0) (load_handler c cp cpl)
      (fun r f => Inv c None f0 f /\
                  forall h, r = Some h ->
                    h_cfg h = c /\ Inv c (h_journal h) f0 f /\ qdir_ok c (q_dir (h_q h)))
      (Inv c None f0).
Proof.
  set (P := Inv c None f0).
  assert (HPP : forall f, P f -> P f) by auto.
  unfold load_handler.
  eapply htf_bind_tri; [tvok | exact HPP | intros ? _].
  eapply htf_bind_tri; [apply tri_load_linq; apply IV_add | exact HPP | intros q Hq].
  eapply htf_bind_tri; [tvok | exact HPP | intros ? _].
  eapply htf_bind_tri; [tvok | exact HPP | intros ? _].
  eapply htf_bind_tri; [tvok | exact HPP | intros ? _].
  eapply htf_bind with (Q1 := fun j f => Inv c j f0 f).
  - eapply htf_conseq;
      [| | |apply (htf_open_journal (fun _ => True) c None f0 cl_add_true (fun _ _ _ => I) (cdisj_of_dl c D))].
    + intros f H. split; [exact I | exact H].
    + intros j f [_ H]. exact H.
    + intros f [_ H]. exact H.
  - intros j.
    assert (HJ : forall f, Inv c j f0 f -> P f) by (intros f H; eapply Inv_drop_journal; exact H).
    eapply htf_bind_tri; [apply tri_of_tok; destruct (c_journal_path c); tk | exact HJ | intros ? _].
    eapply htf_bind_tri; [tvok | exact HJ | intros ? _].
    eapply htf_bind_tri; [tvok | exact HJ | intros b _].
    destruct b; [destruct q as [qm|]|].
    + apply htf_ret. intros f Hf. split; [apply HJ; exact Hf|].
      intros h Eh. inversion Eh; subst. simpl. split; [reflexivity|]. split; [exact Hf|].
      rewrite (Hq qm eq_refl). apply qdir_ok_queue. exact D.
    + eapply htf_bind_tri; [apply tri_of_tok; destruct j; tk | exact HJ | intros ? _].
      eapply htf_bind_tri; [tvok | exact HJ | intros ? _].
      apply htf_ret. intros f Hf. split; [apply HJ; exact Hf | intros h Eh; discriminate].
    + eapply htf_bind_tri; [apply tri_of_tok; destruct j; tk | exact HJ | intros ? _].
      eapply htf_bind_tri; [apply tri_of_tok; destruct q; tk | exact HJ | intros ? _].
      apply htf_ret. intros f Hf. split; [apply HJ; exact Hf | intros h Eh; discriminate].
Qed.

End Load.

(* ---------- reload with a new configuration ---------- *)

Lemma HI_same c oj h h1 : HI c oj h -> same_h h h1 -> HI c oj h1.
Proof.
  intros [H1 [H2 H3]] [E1 [_ [E3 E4]]]. split; [congruence|]. split; [congruence|].
  rewrite E4. exact H3.
Qed.

Section Reload.
Variables (c : config) (oj : option journal) (nc : config) (f0 : fs).
Hypothesis D : disjoint_locs c.
Hypothesis Dn : disjoint_locs nc.

(* during the operation both configurations are tracked *)
Definition RP (f : fs) : Prop := Inv c oj f0 f /\ Inv nc oj f0 f.
Definition RC (f : fs) : Prop := Inv c oj f0 f /\ Inv nc None f0 f.
(* the resulting handler is the old one, or a handler for the new configuration *)
Definition RQ (h' : handler) (f : fs) : Prop :=
  RC f /\
  (HI c oj h' \/
   (h_cfg h' = nc /\ Inv nc (h_journal h') f0 f /\ qdir_ok nc (q_dir (h_q h')))).

Lemma RP_RC f : RP f -> RC f.
Proof. intros [H1 H2]. split; [exact H1 | eapply Inv_drop_journal; exact H2]. Qed.

Lemma RP_add : cl_add RP.
Proof. apply cl_add_conj; apply IV_add. Qed.

Lemma htf_reload h :
  HI c oj h -> qdir_ok nc (q_dir (h_q h)) -> htf RP (reload (Some nc) h) RQ RC.
Proof.
  intros Hh Hqn. unfold reload.
  assert (Hold : forall f, RP f -> RQ h f) by (intros f Hf; split; [apply RP_RC; exact Hf | left; exact Hh]).
  destruct (h_cfg_path h) as [cp|]; [|apply htf_ret; exact Hold].
  eapply htf_bind_tri; [tvok | exact RP_RC | intros ? _].
  eapply htf_bind_tri; [tvok | exact RP_RC | intros ? _].
  eapply htf_bind_tri; [tvok | exact RP_RC | intros ? _].
  eapply htf_bind_tri; [tvok | exact RP_RC | intros ? _].
  eapply htf_bind_tri; [tvok | exact RP_RC | intros b _].
  eapply htf_bind_tri with (R1 := some_dir (c_queue_path nc)); [|exact RP_RC|intros nq Hnq].
  { destruct (b && negb (str_eqb (c_queue_path (h_cfg h)) (c_queue_path nc))).
    - eapply tri_bind; [tvok|intros ? _].
      eapply tri_bind; [apply tri_load_linq; exact RP_add|intros q Hq].
      eapply tri_bind; [tvok|intros ? _].
      eapply tri_bind; [tvok|intros ? _].
      apply tri_ret. exact Hq.
    - apply tri_ret. intros q Hq. discriminate. }
  eapply htf_bind_tri; [tvok | exact RP_RC | intros b2 _].
  eapply htf_bind with (Q1 := fun nj f => Inv c oj f0 f /\ Inv nc nj f0 f).
  { destruct b2; [|apply htf_ret; exact RP_RC].
    eapply htf_bind_tri; [tvok | exact RP_RC | intros ? _].
    eapply htf_bind with (Q1 := fun nj f => Inv c oj f0 f /\ Inv nc nj f0 f).
    - apply (htf_open_journal (Inv c oj f0) nc oj f0 (IV_add c oj f0)
               (Inv_open_create_any c oj f0 (cdisj_of_dl c D)) (cdisj_of_dl nc Dn)).
    - intros j.
      assert (HJ : forall f, Inv c oj f0 f /\ Inv nc j f0 f -> RC f).
      { intros f [H1 H2]. split; [exact H1 | eapply Inv_drop_journal; exact H2]. }
      eapply htf_bind_tri; [apply tri_of_tok; destruct (c_journal_path nc); tk | exact HJ | intros ? _].
      eapply htf_bind_tri; [tvok | exact HJ | intros ? _].
      apply htf_ret. auto. }
  intros nj.
  assert (HJ : forall f, Inv c oj f0 f /\ Inv nc nj f0 f -> RC f).
  { intros f [H1 H2]. split; [exact H1 | eapply Inv_drop_journal; exact H2]. }
  eapply htf_bind_tri; [tvok | exact HJ | intros b3 _].
  destruct b3.
  - eapply htf_bind_tri; [apply tri_of_tok; destruct (h_journal h); tk | exact HJ | intros ? _].
    eapply htf_bind_tri; [apply tri_of_tok; destruct nq; tk | exact HJ | intros ? _].
    apply htf_ret. intros f Hf. split; [apply HJ; exact Hf|]. right. simpl.
    split; [reflexivity|]. split; [destruct Hf as [_ H2]; exact H2|].
    destruct nq as [q'|]; simpl.
    + rewrite (Hnq q' eq_refl). apply qdir_ok_queue. exact Dn.
    + exact Hqn.
  - apply htf_ret. intros f Hf. split; [apply HJ; exact Hf | left; exact Hh].
Qed.

End Reload.

(* reload without a (valid) new configuration *)
Lemma tri_reload_none P h : tri P (fun r => r = h) (reload None h).
Proof.
  unfold reload. destruct (h_cfg_path h); [|apply tri_ret; reflexivity].
  eapply tri_bind; [tvok|intros ? _]. eapply tri_bind; [tvok|intros ? _].
  eapply tri_bind; [tvok|intros ? _]. eapply tri_bind; [tvok|intros ? _].
  apply tri_ret. reflexivity.
Qed.

(* ---------- handle_close_write, for any way of treating the reload ---------- *)

Section CloseWrite.
Variables (P C : fs -> Prop) (Q : handler -> fs -> Prop).
Variables (pid : N) (path : str) (nc : option config) (h : handler).
Hypothesis HPa : cl_add P.
Hypothesis HPC : forall f, P f -> C f.
Hypothesis Hrec : forall ev h1, same_h h h1 -> tok P (record_event ev pid path h1).
Hypothesis Hrel : forall h1, same_h h h1 -> htf P (reload nc h1) Q C.
Hypothesis HQ : forall h1 f, same_h h h1 -> P f -> Q h1 f.

Lemma htf_close_write : htf P (handle_close_write pid path nc h) Q C.
Proof.
  unfold handle_close_write, when_ok.
  eapply htf_bind_tri; [tvok | exact HPC | intros b _].
  destruct b; [|apply htf_ret; intros f Hf; apply HQ; [apply same_h_refl | exact Hf]].
  eapply htf_bind_tri; [apply tri_push_to_linq; exact HPa | exact HPC | intros r Hr].
  destruct r as [pushed h1]. simpl in Hr.
  eapply htf_bind_tri; [apply tri_of_tok; apply Hrec; exact Hr | exact HPC | intros ? _].
  eapply htf_bind_tri; [tvok | exact HPC | intros b _].
  destruct b; [|apply htf_ret; intros f Hf; apply HQ; [exact Hr | exact Hf]].
  destruct (h_cfg_path h1) as [cp|]; [|apply htf_ret; intros f Hf; apply HQ; [exact Hr | exact Hf]].
  destruct (str_eqb path cp); [apply Hrel; exact Hr | apply htf_ret; intros f Hf; apply HQ; [exact Hr | exact Hf]].
Qed.

End CloseWrite.

(* ====================================================================== *)
(*                              MAIN THEOREMS                             *)
(* ====================================================================== *)

Lemma Inv_init c h f : SInv c h f -> Inv c (h_journal h) f f.
Proof. intros [H _]. split; [apply preserved_refl | exact H]. Qed.

Lemma HI_init c h f : h_cfg h = c -> SInv c h f -> HI c (h_journal h) h.
Proof. intros E [_ H]. split; [exact E|]. split; [reflexivity | exact H]. Qed.

(* handle_timeout: whether it returned, reported an error or crashed (result
   None), every stored file is still there with the same bytes; the inode
   invariant holds in the final file system; and when it returned, the
   invariant of the resulting handler holds. *)
Theorem handle_timeout_store_immutable : forall (o : oracle) (w : world) (rev : bool) (h : handler),
  disjoint_locs (h_cfg h) ->
  SInv (h_cfg h) h (w_fs w) ->
  let res := handle_timeout rev h o w in
  preserved (h_cfg h) (w_fs w) (w_fs (snd res)) /\
  SI (h_cfg h) (h_journal h) (w_fs (snd res)) /\
  (forall r h', fst res = Some (r, h') ->
     h_cfg h' = h_cfg h /\ SInv (h_cfg h') h' (w_fs (snd res))).
Proof.
  intros o w rev h D HS res.
  pose proof (tri_handle_timeout (h_cfg h) (h_journal h) (w_fs w) D rev h
                (HI_init _ _ _ eq_refl HS) o w I (Inv_init _ _ _ HS)) as H.
  subst res. destruct (handle_timeout rev h o w) as [[[r h']|] w']; simpl in *.
  - destruct H as [[Hp Hs] [E1 [E2 E3]]]. split; [exact Hp|]. split; [exact Hs|].
    intros r0 h0 E. inversion E; subst. split; [exact E1|].
    rewrite E1. split; [rewrite E2; exact Hs | exact E3].
  - destruct H as [Hp Hs]. split; [exact Hp|]. split; [exact Hs|]. intros r0 h0 E. discriminate.
Qed.

(* the same statement with the hypothesis of Confine2.v added, as requested *)
Corollary handle_timeout_store_immutable_hinv2 : forall (o : oracle) (w : world) (rev : bool) (h : handler),
  hinv2 (cfg_locs (h_cfg h)) h ->
  disjoint_locs (h_cfg h) ->
  SInv (h_cfg h) h (w_fs w) ->
  let w' := snd (handle_timeout rev h o w) in
  preserved (h_cfg h) (w_fs w) (w_fs w') /\
  (forall r h', fst (handle_timeout rev h o w) = Some (r, h') -> SInv (h_cfg h') h' (w_fs w')).
Proof.
  intros o w rev h _ D HS w'.
  destruct (handle_timeout_store_immutable o w rev h D HS) as [H1 [_ H3]].
  split; [exact H1|]. intros r h' E. apply (H3 r h' E).
Qed.

Theorem handle_open_exec_store_immutable : forall (o : oracle) (w : world) (pid : N) (path : str) (h : handler),
  disjoint_locs (h_cfg h) ->
  SInv (h_cfg h) h (w_fs w) ->
  let res := handle_open_exec pid path h o w in
  preserved (h_cfg h) (w_fs w) (w_fs (snd res)) /\
  SI (h_cfg h) (h_journal h) (w_fs (snd res)) /\
  (forall h', fst res = Some h' ->
     h_cfg h' = h_cfg h /\ SInv (h_cfg h') h' (w_fs (snd res))).
Proof.
  intros o w pid path h D HS res.
  pose proof (tri_handle_open_exec (h_cfg h) (h_journal h) (w_fs w) pid path h
                (HI_init _ _ _ eq_refl HS) o w I (Inv_init _ _ _ HS)) as H.
  subst res. destruct (handle_open_exec pid path h o w) as [[h'|] w']; simpl in *.
  - destruct H as [[Hp Hs] [E1 [E2 E3]]]. split; [exact Hp|]. split; [exact Hs|].
    intros h0 E. inversion E; subst. split; [exact E1|].
    rewrite E1. split; [rewrite E2; exact Hs | exact E3].
  - destruct H as [Hp Hs]. split; [exact Hp|]. split; [exact Hs|]. intros h0 E. discriminate.
Qed.

(* handle_close_write when no reload with a new configuration happens:
   new_cfg = None (the written file is not the configuration file, or the
   rewritten configuration is invalid) *)
Theorem handle_close_write_store_immutable_noreload :
  forall (o : oracle) (w : world) (pid : N) (path : str) (h : handler),
  disjoint_locs (h_cfg h) ->
  SInv (h_cfg h) h (w_fs w) ->
  let res := handle_close_write pid path None h o w in
  preserved (h_cfg h) (w_fs w) (w_fs (snd res)) /\
  SI (h_cfg h) (h_journal h) (w_fs (snd res)) /\
  (forall h', fst res = Some h' ->
     h_cfg h' = h_cfg h /\ SInv (h_cfg h') h' (w_fs (snd res))).
Proof.
  intros o w pid path h D HS res.
  set (c := h_cfg h). set (oj := h_journal h). set (f0 := w_fs w).
  assert (Hh : HI c oj h) by exact (HI_init _ _ _ eq_refl HS).
  pose proof (htf_close_write (Inv c oj f0) (Inv c oj f0)
                (fun h1 f => Inv c oj f0 f /\ HI c oj h1) pid path None h
                (IV_add c oj f0) (fun _ H => H)) as H.
  assert (H' : htf (Inv c oj f0) (handle_close_write pid path None h)
                   (fun h1 f => Inv c oj f0 f /\ HI c oj h1) (Inv c oj f0)).
  { apply H.
    - intros ev h1 Hs. apply tok_record_event. destruct Hs as [_ [_ [E _]]]. exact E.
    - intros h1 Hs. eapply htf_of_tri; [apply tri_reload_none| |auto].
      intros a f Hf Ea. cbv beta in Ea. subst a. split; [exact Hf | eapply HI_same; eauto].
    - intros h1 f Hs Hf. split; [exact Hf | eapply HI_same; eauto]. }
  specialize (H' o w I (Inv_init _ _ _ HS)).
  subst res. destruct (handle_close_write pid path None h o w) as [[h'|] w']; simpl in *.
  - destruct H' as [[Hp Hs] [E1 [E2 E3]]]. split; [exact Hp|]. split; [exact Hs|].
    intros h0 E. inversion E; subst. split; [exact E1|].
    rewrite E1. split; [rewrite E2; exact Hs | exact E3].
  - destruct H' as [Hp Hs]. split; [exact Hp|]. split; [exact Hs|]. intros h0 E. discriminate.
Qed.

(* handle_close_write with a reload to a new configuration [n].  Assumptions on
   the new configuration: its locations do not nest; in the current file
   system its two classes share no inode and the inode of the open journal is
   not in its immutable class (SI n ...); the current queue directory does not
   nest with its store roots.  Stored files of BOTH configurations are
   preserved, and the resulting handler (old or new configuration) satisfies
   its invariant. *)
Theorem handle_close_write_store_immutable :
  forall (o : oracle) (w : world) (pid : N) (path : str) (n : config) (h : handler),
  disjoint_locs (h_cfg h) ->
  SInv (h_cfg h) h (w_fs w) ->
  disjoint_locs n ->
  SI n (h_journal h) (w_fs w) ->
  qdir_ok n (q_dir (h_q h)) ->
  let res := handle_close_write pid path (Some n) h o w in
  preserved (h_cfg h) (w_fs w) (w_fs (snd res)) /\
  preserved n (w_fs w) (w_fs (snd res)) /\
  SI (h_cfg h) (h_journal h) (w_fs (snd res)) /\
  (forall h', fst res = Some h' ->
     (h_cfg h' = h_cfg h \/ h_cfg h' = n) /\ SInv (h_cfg h') h' (w_fs (snd res))).
Proof.
  intros o w pid path n h D HS Dn HSn Hqn res.
  set (c := h_cfg h). set (oj := h_journal h). set (f0 := w_fs w).
  assert (Hh : HI c oj h) by exact (HI_init _ _ _ eq_refl HS).
  assert (H' : htf (RP c oj n f0) (handle_close_write pid path (Some n) h)
                   (RQ c oj n f0) (RC c oj n f0)).
  { apply htf_close_write.
    - apply RP_add.
    - apply RP_RC.
    - intros ev h1 Hs. assert (E : h_journal h1 = oj) by (destruct Hs as [_ [_ [E _]]]; exact E).
      apply tok_conj; apply tok_record_event; exact E.
    - intros h1 Hs. apply htf_reload; try assumption.
      + eapply HI_same; eauto.
      + destruct Hs as [_ [_ [_ E]]]. rewrite E. exact Hqn.
    - intros h1 f Hs Hf. split; [apply RP_RC; exact Hf | left; eapply HI_same; eauto]. }
  assert (Hinit : RP c oj n f0 (w_fs w)).
  { split; [apply Inv_init; exact HS | split; [apply preserved_refl | exact HSn]]. }
  specialize (H' o w I Hinit).
  subst res. destruct (handle_close_write pid path (Some n) h o w) as [[h'|] w']; simpl in *.
  - destruct H' as [[[Hp Hs] [Hpn Hsn]] Hcase].
    split; [exact Hp|]. split; [exact Hpn|]. split; [exact Hs|].
    intros h0 E. inversion E; subst h0. destruct Hcase as [[E1 [E2 E3]]|[E1 [[_ E2] E3]]].
    + split; [left; exact E1|]. rewrite E1. split; [rewrite E2; exact Hs | exact E3].
    + split; [right; exact E1|]. rewrite E1. split; [exact E2 | exact E3].
  - destruct H' as [[Hp Hs] [Hpn Hsn]].
    split; [exact Hp|]. split; [exact Hpn|]. split; [exact Hs|]. intros h0 E. discriminate.
Qed.

(* load_handler: from a file system in which the two classes of the
   configuration share no inode (no journal is open yet) *)
Theorem load_handler_store_immutable :
  forall (o : oracle) (w : world) (c : config) (cp : option str) (cpl : nat),
  disjoint_locs c ->
  SI c None (w_fs w) ->
  let res := load_handler c cp cpl o w in
  preserved c (w_fs w) (w_fs (snd res)) /\
  SI c None (w_fs (snd res)) /\
  (forall h, fst res = Some (Some h) -> h_cfg h = c /\ SInv c h (w_fs (snd res))).
Proof.
  intros o w c cp cpl D HS res.
  assert (Hinit : Inv c None (w_fs w) (w_fs w)) by (split; [apply preserved_refl | exact HS]).
  pose proof (htf_load_handler c (w_fs w) D cp cpl o w I Hinit) as H.
  subst res. destruct (load_handler c cp cpl o w) as [[r|] w']; simpl in *.
  - destruct H as [[Hp Hs] Hr]. split; [exact Hp|]. split; [exact Hs|].
    intros h E. inversion E; subst r. destruct (Hr h eq_refl) as [E1 [[_ E2] E3]].
    split; [exact E1|]. split; [exact E2 | exact E3].
  - destruct H as [Hp Hs]. split; [exact Hp|]. split; [exact Hs|]. intros h E. discriminate.
Qed.

(* ---------- chaining: two consecutive operations ---------- *)

(* the conclusions have the shape of the hypotheses, so the theorems compose
   along any history of events; as an illustration, two timeouts in a row
   (possibly with different oracles) preserve the files of the first state *)
Corollary two_timeouts_store_immutable :
  forall (o1 o2 : oracle) (w : world) (rev1 rev2 : bool) (h : handler) r1 h1,
  disjoint_locs (h_cfg h) ->
  SInv (h_cfg h) h (w_fs w) ->
  fst (handle_timeout rev1 h o1 w) = Some (r1, h1) ->
  let w1 := snd (handle_timeout rev1 h o1 w) in
  let w2 := snd (handle_timeout rev2 h1 o2 w1) in
  preserved (h_cfg h) (w_fs w) (w_fs w2).
Proof.
  intros o1 o2 w rev1 rev2 h r1 h1 D HS E w1 w2.
  destruct (handle_timeout_store_immutable o1 w rev1 h D HS) as [P1 [_ K1]].
  destruct (K1 r1 h1 E) as [Ec HS1].
  assert (D1 : disjoint_locs (h_cfg h1)) by (rewrite Ec; exact D).
  destruct (handle_timeout_store_immutable o2 w1 rev2 h1 D1 HS1) as [P2 _].
  rewrite Ec in P2. eapply preserved_trans; [exact P1 | exact P2].
Qed.

(* ---------- chaining: whole histories of events ---------- *)

(* events that keep the configuration (a close-write that triggers no reload
   with a valid new configuration) *)
Inductive event :=
| EvTimeout (reverse : bool)
| EvExec (pid : N) (path : str)
| EvWrite (pid : N) (path : str).

Definition step (e : event) (h : handler) : M handler :=
  match e with
  | EvTimeout rev => do r <- handle_timeout rev h; ret_ (snd r)
  | EvExec pid path => handle_open_exec pid path h
  | EvWrite pid path => handle_close_write pid path None h
  end.

(* the daemon's event loop over a list of events; the oracle covers the whole
   run (calls are numbered consecutively); a crash ends the run *)
Fixpoint run_events (evs : list event) (h : handler) : M handler :=
  match evs with
  | [] => ret_ h
  | e :: evs' => do h' <- step e h; run_events evs' h'
  end.

Lemma step_store_immutable : forall (e : event) (o : oracle) (w : world) (h : handler),
  disjoint_locs (h_cfg h) ->
  SInv (h_cfg h) h (w_fs w) ->
  let res := step e h o w in
  preserved (h_cfg h) (w_fs w) (w_fs (snd res)) /\
  (forall h', fst res = Some h' ->
     h_cfg h' = h_cfg h /\ SInv (h_cfg h') h' (w_fs (snd res))).
Proof.
  intros e o w h D HS res. subst res. destruct e as [rev|pid path|pid path]; simpl.
  - destruct (handle_timeout_store_immutable o w rev h D HS) as [H1 [_ H3]].
    unfold bind. destruct (handle_timeout rev h o w) as [[[r h1]|] w1]; simpl in *.
    + split; [exact H1|]. intros h' E. inversion E as [E']. rewrite <- E'. apply (H3 r h1 eq_refl).
    + split; [exact H1|]. intros h' E. discriminate.
  - destruct (handle_open_exec_store_immutable o w pid path h D HS) as [H1 [_ H3]].
    split; [exact H1 | exact H3].
  - destruct (handle_close_write_store_immutable_noreload o w pid path h D HS) as [H1 [_ H3]].
    split; [exact H1 | exact H3].
Qed.

(* for every history of events and every oracle: every file that was in the
   store or project store at the beginning is still there, unchanged, in the
   final file system -- also when the run ended in a crash *)
Theorem history_store_immutable : forall (evs : list event) (o : oracle) (w : world) (h : handler),
  disjoint_locs (h_cfg h) ->
  SInv (h_cfg h) h (w_fs w) ->
  preserved (h_cfg h) (w_fs w) (w_fs (snd (run_events evs h o w))).
Proof.
  induction evs as [|e evs IH]; intros o w h D HS; simpl.
  - apply preserved_refl.
  - destruct (step_store_immutable e o w h D HS) as [H1 H2].
    unfold bind. destruct (step e h o w) as [[h1|] w1]; simpl in *; [|exact H1].
    destruct (H2 h1 eq_refl) as [Ec HS1].
    assert (D1 : disjoint_locs (h_cfg h1)) by (rewrite Ec; exact D).
    specialize (IH o w1 h1 D1 HS1). rewrite Ec in IH.
    eapply preserved_trans; [exact H1 | exact IH].
Qed.

(* ====================================================================== *)
(*        Boolean checkers for the hypotheses, and a concrete instance     *)
(* ====================================================================== *)

Definition nnb (a b : str) : bool :=
  negb (str_eqb a b) && negb (Str.under a b) && negb (Str.under b a).

Lemma nnb_ok a b : nnb a b = true -> nn a b.
Proof.
  unfold nnb. intros H. apply andb_true_iff in H. destruct H as [H H3].
  apply andb_true_iff in H. destruct H as [H1 H2].
  apply negb_true_iff in H1, H2, H3. split; [apply str_eqb_neq; exact H1|].
  split; intros Hu; apply underb_spec in Hu; congruence.
Qed.

Fixpoint pairwiseb {A} (r : A -> A -> bool) (l : list A) : bool :=
  match l with
  | [] => true
  | x :: l' => forallb (r x) l' && pairwiseb r l'
  end.

Lemma pairwiseb_ok {A} (r : A -> A -> bool) (R : A -> A -> Prop) l :
  (forall a b, r a b = true -> R a b) -> pairwiseb r l = true -> pairwise R l.
Proof.
  intros Hr. induction l as [|x l IH]; simpl; [auto|]. intros H.
  apply andb_true_iff in H. destruct H as [H1 H2]. split; [|auto].
  apply Forall_forall. intros y Hy. apply Hr. rewrite forallb_forall in H1. auto.
Qed.

Definition disjoint_locsb (c : config) : bool :=
  pairwiseb nnb (cfg_locs c) &&
  forallb (fun l => negb (str_eqb l [])) (cfg_locs c) &&
  negb (str_eqb (c_queue_path c) root_path).

Lemma disjoint_locsb_ok c : disjoint_locsb c = true -> disjoint_locs c.
Proof.
  unfold disjoint_locsb. intros H. apply andb_true_iff in H. destruct H as [H H3].
  apply andb_true_iff in H. destruct H as [H1 H2]. split; [|split].
  - eapply pairwiseb_ok; [apply nnb_ok | exact H1].
  - intros l Hl. rewrite forallb_forall in H2. specialize (H2 l Hl).
    apply negb_true_iff in H2. apply str_eqb_neq. exact H2.
  - apply negb_true_iff in H3. apply str_eqb_neq. exact H3.
Qed.

Definition keptb (c : config) (p : str) : bool :=
  Str.under (c_store_root c) p || Str.under (c_project_store_root c) p.
Definition immb (c : config) (p : str) : bool := keptb c p || Str.under (c_unstable_root c) p.
Definition mutb (c : config) (p : str) : bool :=
  Str.under (c_offset_root c) p ||
  match c_journal_path c with Some j => str_eqb j p | None => false end.

Lemma immb_spec c p : imm c p -> immb c p = true.
Proof.
  unfold imm, kept, immb, keptb. intros [[H|H]|H]; apply underb_spec in H; rewrite H;
    rewrite ?orb_true_r; reflexivity.
Qed.

Lemma mutb_spec c p : mut c p -> mutb c p = true.
Proof.
  unfold mut, mutb. intros [H|H].
  - apply underb_spec in H. rewrite H. reflexivity.
  - rewrite H, str_eqb_refl. apply orb_true_r.
Qed.

Definition SIb (c : config) (oj : option journal) (f : fs) : bool :=
  forallb (fun e => match snd e with NFile i => Nat.ltb i (fs_next f) | _ => true end) (fs_dents f) &&
  forallb (fun e1 => forallb (fun e2 =>
             match snd e1, snd e2 with
             | NFile i, NFile k => negb (Nat.eqb i k && mutb c (fst e1) && immb c (fst e2))
             | _, _ => true
             end) (fs_dents f)) (fs_dents f) &&
  match oj with
  | None => true
  | Some jn =>
      Nat.ltb (j_ino jn) (fs_next f) &&
      forallb (fun e => match snd e with
                        | NFile i => negb (Nat.eqb i (j_ino jn) && immb c (fst e))
                        | _ => true
                        end) (fs_dents f)
  end.

Lemma SIb_ok c oj f : SIb c oj f = true -> SI c oj f.
Proof.
  unfold SIb. intros H. apply andb_true_iff in H. destruct H as [H H3].
  apply andb_true_iff in H. destruct H as [H1 H2].
  rewrite forallb_forall in H1, H2. constructor.
  - intros p i Hd. specialize (H1 _ Hd). simpl in H1. apply Nat.ltb_lt. exact H1.
  - intros p q i Hp Hq Hm Hi. specialize (H2 _ Hp). rewrite forallb_forall in H2.
    specialize (H2 _ Hq). simpl in H2.
    rewrite Nat.eqb_refl, (mutb_spec _ _ Hm), (immb_spec _ _ Hi) in H2. discriminate.
  - intros jn E. subst oj. apply andb_true_iff in H3. destruct H3 as [H3 _].
    apply Nat.ltb_lt. exact H3.
  - intros jn q E Hq Hi. subst oj. apply andb_true_iff in H3. destruct H3 as [_ H3].
    rewrite forallb_forall in H3. specialize (H3 _ Hq). simpl in H3.
    rewrite Nat.eqb_refl, (immb_spec _ _ Hi) in H3. discriminate.
Qed.

Definition qdir_okb (c : config) (d : str) : bool :=
  negb (str_eqb d root_path) && nnb d (c_store_root c) && nnb d (c_project_store_root c).

Lemma qdir_okb_ok c d : qdir_okb c d = true -> qdir_ok c d.
Proof.
  unfold qdir_okb. intros H. apply andb_true_iff in H. destruct H as [H H3].
  apply andb_true_iff in H. destruct H as [H1 H2]. split; [|split].
  - apply negb_true_iff in H1. apply str_eqb_neq. exact H1.
  - apply nnb_ok. exact H2.
  - apply nnb_ok. exact H3.
Qed.

Definition SInvb (c : config) (h : handler) (f : fs) : bool :=
  SIb c (h_journal h) f && qdir_okb c (q_dir (h_q h)).

Lemma SInvb_ok c h f : SInvb c h f = true -> SInv c h f.
Proof.
  unfold SInvb. intros H. apply andb_true_iff in H. destruct H as [H1 H2].
  split; [apply SIb_ok; exact H1 | apply qdir_okb_ok; exact H2].
Qed.

(* ---------- non-vacuity: a concrete configuration and world ---------- *)

Module StoreExample.
  Local Open Scope char_scope.

  Definition p_store : str := ["/"; "s"].
  Definition p_pstore : str := ["/"; "p"].
  Definition p_unst : str := ["/"; "u"].
  Definition p_queue : str := ["/"; "q"].
  Definition p_off : str := ["/"; "o"].
  Definition p_journal : str := ["/"; "j"].

  Definition cfg0 : config :=
    mkCfg [] (mkRules [] [] [] [] [] []) p_store p_pstore p_unst p_queue (Some p_journal) p_off
          [] ["%"; "s"] 0%Z 0 16 None None None None None None (Some ["s"; "t"; "o"; "r"; "e"; "d"]).

  (* /s/a/v1 is a stored version (inode 1) that is also linked from the
     unstable project tree /u/x/a; /o/a is an offset file (inode 2); /j is the
     journal (inode 3, open); /q/0 is a queue link for /w/a; /w/a is the edited
     file (inode 4) *)
  Definition fs0 : fs :=
    mkFs [ (["/"; "s"], NDir); (["/"; "s"; "/"; "a"], NDir);
           (["/"; "s"; "/"; "a"; "/"; "v"; "1"], NFile 1);
           (["/"; "p"], NDir); (["/"; "u"], NDir); (["/"; "u"; "/"; "x"], NDir);
           (["/"; "u"; "/"; "x"; "/"; "a"], NFile 1);
           (["/"; "o"], NDir); (["/"; "o"; "/"; "a"], NFile 2);
           (["/"; "j"], NFile 3);
           (["/"; "q"], NDir); (["/"; "q"; "/"; "0"], NLink ["0"; "/"; "/"; "w"; "/"; "a"] 0%Z);
           (["/"; "w"], NDir); (["/"; "w"; "/"; "a"], NFile 4) ]
         [ (1, mkFile ["o"; "l"; "d"] true); (2, mkFile ["3"] true);
           (3, mkFile [] true); (4, mkFile ["n"; "e"; "w"; "e"; "r"] true) ]
         5.

  Definition h0 : handler :=
    mkH cfg0 None 1 (mkQ p_queue 0 1 0%Z 16 [["/"; "w"; "/"; "a"]]) (Some (mkJ 3 ["%"; "s"])) [] [].

  Definition w0 : world := mkW fs0 0 [] 100%Z tr_empty.

  (* all hypotheses of the main theorems hold of this instance *)
  Example hyps_hold :
    hinv2 (cfg_locs (h_cfg h0)) h0 /\
    disjoint_locs (h_cfg h0) /\
    SInv (h_cfg h0) h0 (w_fs w0) /\
    lookup (w_fs w0) ["/"; "s"; "/"; "a"; "/"; "v"; "1"] = Some (NFile 1) /\
    kept (h_cfg h0) ["/"; "s"; "/"; "a"; "/"; "v"; "1"].
  Proof.
    assert (D : disjoint_locs cfg0) by (apply disjoint_locsb_ok; vm_compute; reflexivity).
    split; [|split; [exact D|split; [apply SInvb_ok; vm_compute; reflexivity|split]]].
    - constructor.
      + constructor.
        * apply incl_refl.
        * split; [discriminate|]. exists p_queue. split; [|apply inside_refl].
          simpl. tauto.
      + destruct D as [_ [H _]]. exact H.
    - vm_compute. reflexivity.
    - left. exists ["a"; "/"; "v"; "1"]. reflexivity.
  Qed.

  (* so, for every oracle, the stored version survives a timeout unchanged *)
  Example stored_version_survives : forall (o : oracle) (rev : bool),
    let w' := snd (handle_timeout rev h0 o w0) in
    lookup (w_fs w') ["/"; "s"; "/"; "a"; "/"; "v"; "1"] = Some (NFile 1) /\
    f_bytes (get_file (w_fs w') 1) = ["o"; "l"; "d"].
  Proof.
    intros o rev w'. destruct hyps_hold as [_ [D [HS [Hl Hk]]]].
    destruct (handle_timeout_store_immutable o w0 rev h0 D HS) as [Hp _].
    destruct (Hp _ _ Hk Hl) as [A B]. subst w'. split; [exact A|]. rewrite B. vm_compute. reflexivity.
  Qed.

  (* and the run without faults does store a new version: the theorem is not
     about a handler that does nothing *)
  Example fault_free_run_stores :
    let w' := snd (handle_timeout false h0 no_faults w0) in
    Nat.ltb (length (fs_dents (w_fs w0))) (length (fs_dents (w_fs w'))) = true /\
    tr_ok (w_tr w') = true.
  Proof. vm_compute. split; reflexivity. Qed.
End StoreExample.

Print Assumptions handle_timeout_store_immutable.
Print Assumptions handle_timeout_store_immutable_hinv2.
Print Assumptions handle_open_exec_store_immutable.
Print Assumptions handle_close_write_store_immutable_noreload.
Print Assumptions handle_close_write_store_immutable.
Print Assumptions load_handler_store_immutable.
Print Assumptions two_timeouts_store_immutable.
Print Assumptions history_store_immutable.
Print Assumptions StoreExample.hyps_hold.
Print Assumptions StoreExample.stored_version_survives.
