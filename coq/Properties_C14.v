(* C14 The persistent queue behaves as a coalescing FIFO and round-trips its data. *)
From K Require Import Str SetM SetProofs Linq LinqSpec LinqProofs DebounceProofs.
From K Require Import Trace Fs World Handler SyncProofs AbandonProofs QueueProofs.
Local Open Scope Z_scope.

(* path and flags come back unchanged: any flag value, any normal absolute path
   (first component neither empty nor "."; every kernel-produced path) *)
Theorem C14_codec : forall (m : N) (p : str), normal p ->
  decode (encode m p) = (m, p) /\ strip (encode m p) = p.
Proof. intros m p H. split; [exact (decode_encode m p H) | exact (strip_encode m p H)]. Qed.
Print Assumptions C14_codec.

(* the full statement "any absolute path" is false of the faithful model:
   "/./x" with flags 0 comes back as "/x" with flags 1 (known finding F8) *)
Theorem C14_codec_unnormal_refuted : exists (m : N) (p : str),
  prefixb [ch_slash] p = true /\ decode (encode m p) <> (m, p).
Proof.
  exists 0%N, [ch_slash; ch_dot; ch_slash; "x"%char]. split; [reflexivity|].
  vm_compute. discriminate.
Qed.
Print Assumptions C14_codec_unnormal_refuted.

(* every operation sequence (enqueue, dequeue, look at the head, clock steps,
   debounce changes, restarts) produces exactly the outputs of the reference FIFO *)
Theorem C14_refines_fifo : forall (deb : Z) (g : nat) (now : Z) (ops : list lop),
  Forall wf_op ops ->
  snd (lrun (linit deb g now) ops) = snd (rrun (mkRS [] deb now) ops).
Proof. exact refines. Qed.
Print Assumptions C14_refines_fifo.

(* in every reachable state the directory is exactly the reference queue
   numbered without gaps from the in-memory head index, and the in-memory size,
   head and multiset agree with it *)
Theorem C14_disk_form : forall (deb : Z) (g : nat) (now : Z) (ops : list lop),
  Forall wf_op ops ->
  let l := ls_q (fst (lrun (linit deb g now) ops)) in
  let q := rs_q (fst (rrun (mkRS [] deb now) ops)) in
  l_dir l = number_from (l_head l) q /\ l_size l = N.of_nat (length q).
Proof.
  intros deb g now ops H l q. destruct (reachable_R deb g now ops H) as [Hd Hs _ _ _ _].
  split; assumption.
Qed.
Print Assumptions C14_disk_form.

(* reloading from disk yields a queue related to the same reference queue *)
Theorem C14_reload : forall (l : linq) (q : list qent) (g : nat),
  R l q -> R (load (l_dir l) (l_deb l) g) q.
Proof. exact load_sim. Qed.
Print Assumptions C14_reload.

(* draining a queue whose entries are all due yields the paths in the order of
   their latest enqueue, each with the flags of that enqueue *)
Theorem C14_order : forall (now deb : Z) (q : list qent) (fuel : nat),
  (forall e, In e q -> now - snd e >= deb) -> (length q <= fuel)%nat ->
  ref_drain fuel now deb q = map (fun e => (qpath e, snd (fst e))) (keep_last q).
Proof. intros. apply ref_drain_keep_last; assumption. Qed.
Print Assumptions C14_order.

(* the queue OVER SYSTEM CALLS (symlinkat / readlinkat / fstatat / unlinkat on a
   directory of the file-system model, the code of linq.c call for call), started
   on an empty queue directory, produces for every operation sequence and every
   benign oracle exactly the outputs of the queue model, hence of the reference
   FIFO; [QRel] relates the in-memory queue and the directory to the reference list *)
Theorem C14_syscall_queue_refines :
  forall (o : oracle) (ops : list lop) (d : str) (deb : Z) (g guess : nat) (w : world),
  benign o -> tr_ok (w_tr w) = true -> keys_nodup (w_fs w) ->
  d <> root_path -> lookup (w_fs w) d = Some NDir ->
  (forall k, lookup (w_fs w) (join d (dec k)) = None) ->
  Forall (wf_wop g) ops ->
  exists q' w',
    wrun (mkQ d 0 0 deb g []) ops o w =
      (Some (q', snd (lrun (linit deb guess (w_clock w)) ops)), w') /\
    tr_ok (w_tr w') = true.
Proof. exact world_refines_model. Qed.
Print Assumptions C14_syscall_queue_refines.

(* non-vacuity: a concrete history with a duplicate, a restart and a flag value *)
Example C14_example :
  let a := [ch_slash; "a"%char] in let b := [ch_slash; "b"%char] in
  let ops := [LPush a 5%N; LPush b 0%N; LPush a 2%N; LTick 3; LReload 0; LHead; LPop; LHead] in
  Forall wf_op ops /\
  snd (lrun (linit 2 0 100) ops) =
    [OPush PushOk; OPush PushOk; OPush PushOk; OHead (HReady b 0%N); OPop PopOk; OHead (HReady a 2%N)].
Proof.
  split.
  - repeat constructor; simpl; try exact I; eexists; (split; [reflexivity|]); simpl; auto.
  - vm_compute. reflexivity.
Qed.
