(* Proofs about decimal printing and parsing (Dec.v): the printed form consists
   of digits, parsing it gives the number back, printing is injective, and a
   prefix of the printed form (a torn write of a position file) denotes a
   number that is not larger. *)
From K Require Import Str Dec.
From Coq Require Import ZifyN ZifyBool Lia.
Ltac Zify.zify_post_hook ::= Z.div_mod_to_equations.
Local Open Scope N_scope.

Arguments N.mul : simpl never.
Arguments N.add : simpl never.
Arguments N.div : simpl never.
Arguments N.modulo : simpl never.
Arguments N.sub : simpl never.
Arguments N.pow : simpl never.

(* ---------- single digits ---------- *)

Lemma digit_char_code d : d < 10 -> N_of_ascii (digit_char d) = 48 + d.
Proof. intros H. unfold digit_char. apply N_ascii_embedding. lia. Qed.

Lemma digit_char_is_digit d : d < 10 -> is_digit (digit_char d) = true.
Proof.
  intros H. unfold is_digit. cbv zeta. rewrite (digit_char_code d H). lia.
Qed.

Lemma digit_val_char d : d < 10 -> digit_val (digit_char d) = d.
Proof. intros H. unfold digit_val. rewrite (digit_char_code d H). lia. Qed.

Lemma is_digit_val_lt c : is_digit c = true -> digit_val c < 10.
Proof. unfold is_digit, digit_val. cbv zeta. lia. Qed.

(* ---------- the value of a digit string (Horner) ---------- *)

Fixpoint val (ds : str) (a : N) : N :=
  match ds with
  | [] => a
  | c :: r => val r (a * 10 + digit_val c)
  end.

Lemma val_app l r a : val (l ++ r) a = val r (val l a).
Proof. revert a; induction l as [|c l IH]; intros a; cbn [app val]; [reflexivity | apply IH]. Qed.

Lemma val_snoc l c a : val (l ++ [c]) a = val l a * 10 + digit_val c.
Proof. rewrite val_app. reflexivity. Qed.

Lemma undec_aux_digits ds rest a :
  forallb is_digit ds = true -> undec_aux (ds ++ rest) a = undec_aux rest (val ds a).
Proof.
  revert a; induction ds as [|c ds IH]; intros a H; cbn [app val undec_aux forallb] in *.
  - reflexivity.
  - apply andb_true_iff in H. destruct H as [Hc Hds]. rewrite Hc. apply IH, Hds.
Qed.

Lemma undec_aux_stop rest a :
  match rest with [] => True | c :: _ => is_digit c = false end ->
  undec_aux rest a = a.
Proof. destruct rest as [|c r]; cbn [undec_aux]; [reflexivity | intros ->; reflexivity]. Qed.

Lemma undec_aux_ge s a : a <= undec_aux s a.
Proof.
  revert a; induction s as [|c s IH]; intros a; cbn [undec_aux]; [lia|].
  destruct (is_digit c); [|lia].
  specialize (IH (a * 10 + digit_val c)). lia.
Qed.

(* parsing a prefix gives a number that is not larger, for any string *)
Lemma undec_aux_firstn k s a : undec_aux (firstn k s) a <= undec_aux s a.
Proof.
  revert s a; induction k as [|k IH]; intros s a.
  - cbn [firstn undec_aux]. apply undec_aux_ge.
  - destruct s as [|c s]; cbn [firstn undec_aux]; [lia|].
    destruct (is_digit c); [apply IH | lia].
Qed.

Lemma undec_firstn k s : undec (firstn k s) <= undec s.
Proof. apply undec_aux_firstn. Qed.

(* ---------- dec_aux with enough fuel ---------- *)

Lemma dec_aux_spec f : forall n acc,
  n < 2 ^ N.of_nat f ->
  exists ds, dec_aux (S f) n acc = ds ++ acc /\
             forallb is_digit ds = true /\ ds <> [] /\ val ds 0 = n.
Proof.
  induction f as [|f IH]; intros n acc Hn.
  - change (2 ^ N.of_nat 0) with 1 in Hn.
    assert (n = 0) by lia. subst n.
    exists [digit_char 0]. cbn [dec_aux].
    change (0 mod 10) with 0. change (0 <? 10) with true. cbv zeta.
    split; [|split; [|split]].
    + reflexivity.
    + cbn [forallb]. rewrite digit_char_is_digit by lia. reflexivity.
    + discriminate.
    + cbn [val]. rewrite digit_val_char by lia. reflexivity.
  - rewrite Nat2N.inj_succ, N.pow_succ_r' in Hn.
    remember (2 ^ N.of_nat f) as p eqn:Hp.
    assert (Hd : n mod 10 < 10) by (apply N.mod_lt; lia).
    change (dec_aux (S (S f)) n acc)
      with (if n <? 10 then digit_char (n mod 10) :: acc
            else dec_aux (S f) (n / 10) (digit_char (n mod 10) :: acc)).
    destruct (N.ltb_spec n 10) as [Hlt|Hge].
    + exists [digit_char (n mod 10)]. split; [|split; [|split]].
      * reflexivity.
      * cbn [forallb]. rewrite digit_char_is_digit by exact Hd. reflexivity.
      * discriminate.
      * cbn [val]. rewrite digit_val_char by exact Hd.
        rewrite N.mod_small by exact Hlt. lia.
    + assert (Hq : n / 10 < p) by lia.
      destruct (IH (n / 10) (digit_char (n mod 10) :: acc) Hq)
        as (ds & Hds & Hdig & Hne & Hval).
      exists (ds ++ [digit_char (n mod 10)]). split; [|split; [|split]].
      * rewrite Hds, <- app_assoc. reflexivity.
      * rewrite forallb_app, Hdig. cbn [forallb].
        rewrite digit_char_is_digit by exact Hd. reflexivity.
      * intros E. apply app_eq_nil in E. destruct E as [_ E]. discriminate.
      * rewrite val_snoc, Hval, digit_val_char by exact Hd. lia.
Qed.

Lemma dec_spec n :
  forallb is_digit (dec n) = true /\ dec n <> [] /\ val (dec n) 0 = n.
Proof.
  unfold dec.
  destruct (dec_aux_spec (N.to_nat (N.size n)) n []) as (ds & Hds & Hdig & Hne & Hval).
  - rewrite N2Nat.id. apply N.size_gt.
  - rewrite app_nil_r in Hds. rewrite Hds. auto.
Qed.

(* ---------- the theorems ---------- *)

Theorem dec_digits n : forallb is_digit (dec n) = true.
Proof. apply dec_spec. Qed.

Theorem dec_nonempty n : dec n <> [].
Proof. apply dec_spec. Qed.

Theorem dec_digits_nonempty n : forallb is_digit (dec n) = true /\ dec n <> [].
Proof. split; [apply dec_digits | apply dec_nonempty]. Qed.

(* parsing the printed number followed by nothing or by a non-digit *)
Theorem undec_app_nondigit n rest :
  match rest with [] => True | c :: _ => is_digit c = false end ->
  undec (dec n ++ rest) = n.
Proof.
  intros Hrest. unfold undec.
  rewrite undec_aux_digits by apply dec_digits.
  rewrite undec_aux_stop by exact Hrest.
  apply dec_spec.
Qed.

Theorem undec_dec n : undec (dec n) = n.
Proof.
  rewrite <- (app_nil_r (dec n)). apply undec_app_nondigit. exact I.
Qed.

(* a partially written decimal number can only be smaller (rewind) *)
Theorem undec_firstn_dec n k : undec (firstn k (dec n)) <= n.
Proof.
  rewrite <- (undec_dec n) at 2. apply undec_firstn.
Qed.

Theorem dec_inj a b : dec a = dec b -> a = b.
Proof.
  intros H. rewrite <- (undec_dec a), <- (undec_dec b), H. reflexivity.
Qed.

Print Assumptions dec_digits_nonempty.
Print Assumptions undec_dec.
Print Assumptions undec_app_nondigit.
Print Assumptions undec_firstn_dec.
Print Assumptions dec_inj.
