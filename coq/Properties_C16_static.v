(* C16 "settings not assigned take the documented defaults" for the build
   WITHOUT Lua: src/config-static.c is translated on every run into
   generated/ConfigStatic.v, and that table is, setting by setting (path sets as
   sets), what the translated Lua table yields for a configuration file that
   assigns nothing.  Proofs in ConfigStaticProofs.v. *)
From K Require Import Str ConfigDefs Config ConfigInst ConfigProofs ConfigStaticProofs.
From K.generated Require Import ConfigTable ConfigStatic.
Local Open Scope Z_scope.

Theorem C16_static_build_has_documented_defaults :
  exists c, klunok_load [] = Some c /\ fc_same c static_config.
Proof. exact static_same_as_documented. Qed.
Print Assumptions C16_static_build_has_documented_defaults.

Theorem C16_static_derived_settings :
  fc_queue_size_guess static_config = 2 * fc_debounce static_config /\
  fc_version_pattern static_config = option_map (fun p => s "v" ++ p) (fc_journal_pattern static_config).
Proof. exact static_derived. Qed.
Print Assumptions C16_static_derived_settings.
