(* The configuration of a build without Lua (src/config-static.c, translated on
   every run into generated/ConfigStatic.v) is the documented configuration: what
   the translated Lua table yields when the configuration file assigns nothing. *)
From K Require Import Str ConfigDefs Config ConfigInst ConfigProofs.
From K.generated Require Import ConfigTable ConfigStatic.
Local Open Scope Z_scope.

Definition mem_str (x : str) (l : list str) : bool := existsb (str_eqb x) l.
Definition same_set (a b : list str) : bool :=
  forallb (fun x => mem_str x b) a && forallb (fun x => mem_str x a) b.
Definition opt_eqb (a b : option str) : bool :=
  match a, b with
  | Some x, Some y => str_eqb x y
  | None, None => true
  | _, _ => false
  end.
Fixpoint opts_eqb (a b : list (option str)) : bool :=
  match a, b with
  | [], [] => true
  | x :: a', y :: b' => opt_eqb x y && opts_eqb a' b'
  | _, _ => false
  end.

(* equal as configurations: the path sets as sets, everything else literally *)
Definition fc_equiv (a b : full_config) : bool :=
  same_set (fc_editors a) (fc_editors b) && same_set (fc_project_roots a) (fc_project_roots b)
  && same_set (fc_project_parents a) (fc_project_parents b) && same_set (fc_history a) (fc_history b)
  && same_set (fc_excluded a) (fc_excluded b) && same_set (fc_included a) (fc_included b)
  && same_set (fc_cluded a) (fc_cluded b)
  && opt_eqb (fc_store_root a) (fc_store_root b) && opt_eqb (fc_project_store_root a) (fc_project_store_root b)
  && opt_eqb (fc_unstable_root a) (fc_unstable_root b) && opt_eqb (fc_queue_path a) (fc_queue_path b)
  && opt_eqb (fc_journal_path a) (fc_journal_path b) && opt_eqb (fc_journal_pattern a) (fc_journal_pattern b)
  && opt_eqb (fc_version_pattern a) (fc_version_pattern b) && opt_eqb (fc_offset_root a) (fc_offset_root b)
  && (fc_debounce a =? fc_debounce b) && (fc_path_length_guess a =? fc_path_length_guess b)
  && (fc_max_pid_guess a =? fc_max_pid_guess b) && (fc_elf_guess a =? fc_elf_guess b)
  && (fc_queue_size_guess a =? fc_queue_size_guess b) && opts_eqb (fc_ev a) (fc_ev b).

Lemma str_eqb_true a b : str_eqb a b = true -> a = b.
Proof.
  revert b; induction a as [|x a IH]; intros [|y b] H; cbn in H; try discriminate; [reflexivity|].
  apply andb_prop in H. destruct H as [H1 H2].
  apply Ascii.eqb_eq in H1. subst y. f_equal. apply IH, H2.
Qed.

Lemma mem_str_In x l : mem_str x l = true -> In x l.
Proof.
  unfold mem_str. intro H. apply existsb_exists in H. destruct H as (y & Hy & E).
  apply str_eqb_true in E. subst y. exact Hy.
Qed.

Lemma same_set_spec a b : same_set a b = true -> forall x, In x a <-> In x b.
Proof.
  unfold same_set. intro H. apply andb_prop in H. destruct H as [H1 H2].
  rewrite forallb_forall in H1, H2.
  intro x. split; intro Hx; apply mem_str_In; [apply H1 | apply H2]; exact Hx.
Qed.

Lemma opt_eqb_true a b : opt_eqb a b = true -> a = b.
Proof.
  destruct a as [x|], b as [y|]; cbn; intro H; try discriminate; [|reflexivity].
  f_equal. apply str_eqb_true, H.
Qed.

Lemma opts_eqb_true a : forall b, opts_eqb a b = true -> a = b.
Proof.
  induction a as [|x a IH]; intros [|y b] H; cbn in H; try discriminate; [reflexivity|].
  apply andb_prop in H. destruct H as [H1 H2]. f_equal; [apply opt_eqb_true, H1 | apply IH, H2].
Qed.

(* what fc_equiv = true means *)
Record fc_same (a b : full_config) : Prop := mkSame {
  same_editors : forall x, In x (fc_editors a) <-> In x (fc_editors b);
  same_project_roots : forall x, In x (fc_project_roots a) <-> In x (fc_project_roots b);
  same_project_parents : forall x, In x (fc_project_parents a) <-> In x (fc_project_parents b);
  same_history : forall x, In x (fc_history a) <-> In x (fc_history b);
  same_excluded : forall x, In x (fc_excluded a) <-> In x (fc_excluded b);
  same_included : forall x, In x (fc_included a) <-> In x (fc_included b);
  same_cluded : forall x, In x (fc_cluded a) <-> In x (fc_cluded b);
  same_scalars :
    fc_store_root a = fc_store_root b /\ fc_project_store_root a = fc_project_store_root b /\
    fc_unstable_root a = fc_unstable_root b /\ fc_queue_path a = fc_queue_path b /\
    fc_journal_path a = fc_journal_path b /\ fc_journal_pattern a = fc_journal_pattern b /\
    fc_version_pattern a = fc_version_pattern b /\ fc_offset_root a = fc_offset_root b /\
    fc_debounce a = fc_debounce b /\ fc_path_length_guess a = fc_path_length_guess b /\
    fc_max_pid_guess a = fc_max_pid_guess b /\ fc_elf_guess a = fc_elf_guess b /\
    fc_queue_size_guess a = fc_queue_size_guess b /\ fc_ev a = fc_ev b
}.

Lemma fc_equiv_spec a b : fc_equiv a b = true -> fc_same a b.
Proof.
  unfold fc_equiv. intro H.
  repeat match type of H with (_ && _) = true => let H' := fresh "H" in apply andb_prop in H; destruct H as [H H'] end.
  constructor; try (apply same_set_spec; assumption).
  repeat split; try (apply opt_eqb_true; assumption); try (apply Z.eqb_eq; assumption).
  apply opts_eqb_true; assumption.
Qed.

(* the build without Lua is configured exactly as the documentation says a
   configuration file that assigns nothing is *)
Theorem static_is_documented :
  exists c, klunok_load [] = Some c /\ fc_equiv c static_config = true.
Proof. exists documented_defaults. split; [exact defaults_documented | vm_compute; reflexivity]. Qed.

Theorem static_same_as_documented :
  exists c, klunok_load [] = Some c /\ fc_same c static_config.
Proof.
  destruct static_is_documented as (c & Hc & He). exists c. split; [exact Hc | apply fc_equiv_spec, He].
Qed.

(* derived settings of the static table follow the settings they derive from, as documented *)
Theorem static_derived :
  fc_queue_size_guess static_config = 2 * fc_debounce static_config /\
  fc_version_pattern static_config = option_map (fun p => s "v" ++ p) (fc_journal_pattern static_config).
Proof. vm_compute. split; reflexivity. Qed.
