(* C16 "the whole new configuration governs all later events" for the WHOLE
   PROGRAM Klunok.klunok env cfg rev ns (start-up of Main.main, the REAL
   load_handler, then Daemon.daemon_loop): after any exit-free whole run,
   start-up succeeded, load_handler returned a handler h for cfg, and the
   handler h' at the end of the loop carries cfg_in_force folded over the
   notifications (from cfg and the -c path of the command line); the debounce
   and the directory of the queue and the journal are those of that
   configuration.  Proof in KlunokLifts.v (from DaemonProofs.daemon_config_in_force). *)
From K Require Import Str Dec Trace Fs World Progs Handler ReloadProofs ReloadHistory
     Main MainProofs Daemon DaemonProofs Klunok KlunokProofs KlunokLifts.

(* every oracle *)
Theorem C16_whole_config_in_force :
  forall (env : Main.env) (cfg : config) (rev : bool) (ns : list notif)
         (o : oracle) (w : world) (outs : list out) (w' : world),
  envs_ok ns ->
  klunok env cfg rev ns o w = (Some outs, w') -> no_exit outs ->
  exists pre cfgp cpl u g h w1 outs2 h',
    startup env = (pre, Some (cfgp, cpl, u, g, 0%nat)) /\
    load_handler cfg cfgp cpl o w = (Some (Some h), w1) /\
    h_cfg h = cfg /\ h_cfg_path h = cfgp /\ h_cpl h = cpl /\
    daemon_loop (e_self env) rev ns 0%Z h o w1 = (Some (outs2, h'), w') /\
    outs = pre ++ OLoad cfgp cpl u g 0 :: outs2 /\
    let c := cfg_of_notifs (e_self env) cfgp cfg ns in
    c = cfg_in_force cfgp cfg (steps_of (e_self env) rev ns) /\
    h_cfg h' = c /\
    q_deb (h_q h') = c_debounce c /\
    q_dir (h_q h') = c_queue_path c /\
    journal_of c (h_journal h') /\
    h_cfg_path h' = cfgp /\ h_cpl h' = cpl.
Proof. exact klunok_config_in_force. Qed.
Print Assumptions C16_whole_config_in_force.
