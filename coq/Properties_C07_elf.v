(* C07 "... the dynamic loader recorded from a previously seen editor binary":
   what the ELF reader (src/elfinterp.c, Elf.v) returns for the images editors
   really are, and what handle_open_exec then records.  Statements only; proofs
   in ElfProofs.v against the layout specification of ElfSpec.v. *)
From K Require Import Str Trace Fs World Elf Handler SyncProofs AttrProofs ElfSpec ElfProofs.

(* a well-formed image (header, phnum program headers, PT_INTERP second, the
   string behind the headers) yields exactly its interpreter string *)
Theorem C07_elf_image_roundtrip : forall (interp : str) (phnum : nat),
  2 <= phnum -> (N.of_nat phnum < 65536)%N -> (N.of_nat (length interp) < two32)%N ->
  Forall (fun c => (N_of_ascii c =? 0)%N = false) interp ->
  elf_interp_spec (mk_elf interp phnum) = Some interp.
Proof. exact elf_image_roundtrip. Qed.
Print Assumptions C07_elf_image_roundtrip.

(* what handle_open_exec records for an editor binary *)
Theorem C07_records_loader : forall (o : oracle) (w : world) (pid : N) (path : str) (h : handler)
    (i : nat) (b : str),
  benign o -> tr_ok (w_tr w) = true ->
  lookup (w_fs w) path = Some (NFile i) -> f_bytes (get_file (w_fs w) i) = b ->
  is_editor h path = true ->
  exists h' w',
    handle_open_exec pid path h o w = (Some h', w') /\
    h_interps h' = match resolve (w_fs w) (elf_interp_spec b) with
                   | Some ld => ld :: h_interps h
                   | None => h_interps h
                   end /\
    pid_mem pid (h_pids h') = true /\
    (tr_ok (w_tr w') = false -> dangling (w_fs w) (elf_interp_spec b) = false ->
     ~ PassProofs.journal_fits (h_journal h) (exec_event_name h path) (w_clock w)).
Proof. exact handle_open_exec_records_loader. Qed.
Print Assumptions C07_records_loader.
