(* C01 at the level of the WORLD (PassProofs.v, every benign oracle): a timeout
   pass does not copy what is not yet due.  QRel relates the queue directory on
   disk and the in-memory queue to the reference queue (path, flags, enqueue
   time); q_deb is the debounce interval in force. *)
From K Require Import Str Dec Trace Fs World Progs Sieve Handler Linq LinqSpec LinqProofs
  SyncProofs AbandonProofs QueueProofs JournalProofs PassProofs PassCorollaries.

(* the head is younger than the interval: one fstatat, nothing is stored, nothing
   changes on disk, the wait requested is exactly the time left *)
Theorem C01_world_young_head_not_copied : forall o w h rev p m t rest,
  benign o -> tr_ok (w_tr w) = true ->
  QRel (h_q h) (w_fs w) ((p, m, t) :: rest) ->
  (w_clock w - t < q_deb (h_q h))%Z ->
  exists w',
    handle_timeout rev h o w = (Some (TPause (q_deb (h_q h) - (w_clock w - t)), h), w') /\
    w_fs w' = w_fs w /\ w_clock w' = w_clock w /\ tr_keep (w_tr w) (w_tr w') /\
    QRel (h_q h) (w_fs w') ((p, m, t) :: rest).
Proof. exact handle_timeout_not_due. Qed.
Print Assumptions C01_world_young_head_not_copied.

(* a pass over a due prefix stops at the first entry that is not due: the rest
   of the queue is exactly as before (QRel ... rest), nothing of it is stored
   (every new file is the version of a due entry), and the wait is that of the
   rest *)
Theorem C01_world_pass_stops_at_not_due : forall o rev es rest h w,
  benign o ->
  tr_ok (w_tr w) = true -> keys_nodup (w_fs w) ->
  QRel (h_q h) (w_fs w) (map qent_of es ++ rest) ->
  Forall (fun e => (q_deb (h_q h) <= w_clock w - e_time e)%Z) es ->
  last_writes es rest ->
  not_due (w_clock w) (q_deb (h_q h)) rest ->
  all_ok (h_cfg h) (h_cpl h) (h_journal h) (q_dir (h_q h)) (w_fs w) (w_clock w) es ->
  exists w',
    handle_timeout rev h o w =
      (Some (TPause (pause_of (w_clock w) (q_deb (h_q h)) rest), set_q (pops es (h_q h)) h), w') /\
    (forall x i', lookup (w_fs w') x = Some (NFile i') -> lookup (w_fs w) x = None ->
       exists e, In e es /\ x = store_name (h_cfg h) (h_cpl h) (w_clock w) (e_path e)) /\
    QRel (pops es (h_q h)) (w_fs w') rest.
Proof. exact pass_stops_at_not_due. Qed.
Print Assumptions C01_world_pass_stops_at_not_due.

Example C01_world_example := PassExample.hyps_hold.
