(* C03 "pending work and stored versions survive a crash at any point", WORLD
   level, the two kinds of first entry CrashProofs.v leaves out:

     (1) a PROJECT entry first:  crash_project_pop_after_snapshot
         for every honest oracle whose run does not make an access(2) probe
         fail: if the link of the entry is gone from the queue directory after
         handle_timeout -- whether it returned, reported an error or the
         process died -- the snapshot directory is COMPLETE;
     (2) a MEMBER entry first:   CrashMember.crash_member_link_cases (file
         CrashMember.v): the version is complete if the link is gone, and the
         hard link in the unstable tree is the old entry, absent, or the inode
         of the complete new version;
     (3) restart:                crash_restart_after_project
         if the link of the project entry is still there, nothing has been
         popped and a fault-free restart loads the queue with it at the head;
         crash_project_snapshot_or_pending puts (1) and (3) together.

   Files: CrashLog.v (predicates on worlds that only grow with the call log are
   kept by every program, e.g. "some access probe was made to fail"),
   CrashSnapFrame.v (an existing snapshot directory is never touched again by
   the pass, every oracle), CrashTree.v (sync_shallow_tree under an honest
   oracle: the four ways it can end), CrashMember.v, this file (the search for
   a free snapshot name, the iteration over a project head, the main theorems,
   Module Crash2Example: a concrete project pass crashed / failed at every call
   index, witnesses for the necessity of the conditions on the oracle). *)
From K Require Import Str Dec Trace Fs World Progs Elf Linq LinqSpec LinqProofs Sieve Handler Hoare
     Confine Confine2 SyncProofs AbandonProofs StoreFs StoreLogic StoreProgs StoreProofs DecProofs
     QueueProofs CrashFrame CrashLoad CrashQueue CrashCopy CrashProofs CrashLog CrashTree CrashSnapFrame.
From K Require SnapshotProofs FaultProofs FdProofs.
From Coq Require Import Lia.

(* ====================================================================== *)
(*      a complete sync_shallow_tree IS the snapshot of SnapshotProofs     *)
(* ====================================================================== *)

Definition never (_ : world) : Prop := False.

Lemma never_stable : stable never.
Proof. split; intros; assumption. Qed.

Lemma no_faults_honest : honest no_faults.
Proof. intros i. exact I. Qed.

Lemma no_faults_benign : SyncProofs.benign no_faults.
Proof. intros i. left. reflexivity. Qed.

(* the functional reading [sst_fs] agrees with the fault-free run, of which
   SnapshotProofs.sync_shallow_tree_snapshot says what it leaves *)
Lemma sst_fs_snapshot rv U D P restD f0 f' :
  keys_nodup f0 -> parents_exist f0 ->
  D = ch_slash :: restD -> U <> [] -> U <> root_path -> P <> [] ->
  nn U D -> nn U P -> nn D P ->
  lookup f0 D = None ->
  (forall d, In d (parents_of D) -> lookup f0 d = Some NDir \/ lookup f0 d = None) ->
  sst_fs U D P rv f0 = Some f' ->
  SP.snapshot_post f0 f' U D P.
Proof.
  intros Hnd Hpe HD HU HUr HP NUD NUP NDP HDn Hpar Hs.
  set (w0 := mkW f0 0 [] 0%Z tr_empty).
  destruct (SP.sync_shallow_tree_snapshot no_faults w0 rv U D P restD no_faults_benign eq_refl
              Hnd Hpe HD HU HUr HP NUD NUP NDP HDn Hpar)
    as (w' & E & T & _ & FF & FN & ND & LD & LP & SD & SU & FR).
  pose proof (sst_h U D P rv no_faults no_faults_honest never never_stable
                ltac:(intros w filt e X; discriminate X) (ex_intro _ restD HD) w0 eq_refl) as H.
  rewrite E in H. cbn [FP.post] in H. change (w_fs w0) with f0 in *.
  assert (Hf : f' = w_fs w').
  { destruct H as [[_ H]|[[H _]|[H|[]]]].
    - congruence.
    - rewrite T in H. discriminate H.
    - destruct H as [fr [rest [H _]]]. rewrite T in H. discriminate H. }
  subst f'. unfold SP.snapshot_post. auto 10.
Qed.

(* ---------- mkdir -p leaves other paths alone ---------- *)

Lemma fs_mkdir_other d f p : p <> d -> lookup (snd (fs_mkdir d f)) p = lookup f p.
Proof.
  intros Hn. unfold fs_mkdir. destruct (lookup f d); [reflexivity|].
  destruct (parent_is_dir f d); [reflexivity|]. cbn [snd]. apply lookup_add_dent_other. exact Hn.
Qed.

Lemma mkpar_other ds : forall f p, ~ In p ds -> lookup (mkpar ds f) p = lookup f p.
Proof.
  induction ds as [|d ds IH]; intros f p Hn; [reflexivity|].
  rewrite mkpar_cons, IH; [|intros H; apply Hn; right; exact H].
  apply fs_mkdir_other. intros ->. apply Hn. left. reflexivity.
Qed.

Lemma collides_mkpar f D : SP.collides f D -> mkpar (parents_of D) f = f.
Proof.
  intros [_ [_ Hp]]. apply mkpar_exist. intros d Hd. rewrite (Hp d Hd). discriminate.
Qed.

Lemma collides_sst_none rv U D P f : SP.collides f D -> sst_fs U D P rv f = None.
Proof.
  intros Hc. unfold sst_fs. rewrite (collides_mkpar f D Hc).
  destruct Hc as [_ [Hex _]]. rewrite (fs_mkdir_exists D f Hex). reflexivity.
Qed.

(* ---------- catch_static on a run ---------- *)

Lemma catch_run_false {B} m (k : bool -> M B) o w :
  tr_catch_static m (w_tr w) = (false, w_tr w) -> bind (catch_static m) k o w = k false o w.
Proof. intros H. rewrite FP.bind_catch_static, H. cbn [fst snd]. rewrite FP.upd_tr_same. reflexivity. Qed.

Lemma finally_run o w : finally_ o w = (Some tt, Hoare.upd_tr (tr_finally (w_tr w)) w).
Proof. reflexivity. Qed.

Lemma try_run o w : try_ o w = (Some tt, Hoare.upd_tr (tr_try (w_tr w)) w).
Proof. reflexivity. Qed.

(* ====================================================================== *)
(*              the loop that looks for a free snapshot name              *)
(* ====================================================================== *)

Section Psl.
Variable o : oracle.
Hypothesis Ho : honest o.
Variable AF : world -> Prop.
Hypothesis AF_stable : stable AF.
Hypothesis Hacc : forall w filt e, o (w_n w) = FFail e ->
  AF (after_call (CAccess filt) (RFault e) (w_fs w) w).

Variables (rv : bool) (U P : str) (cfg : config) (ev : option str) (f0 : fs) (sp0 : store_path) (k : nat).

(* the first k names are taken, the next one is an absolute path that is free *)
Hypothesis Hcoll : forall i, i < k -> SP.collides f0 (SP.Dsp sp0 i).
Hypothesis Habs : exists restD, SP.Dsp sp0 k = ch_slash :: restD.
Hypothesis Hfree : lookup f0 (SP.Dsp sp0 k) = None.

Definition psl_post (w' : world) : Prop :=
  (ok_fr w' -> sst_fs U (SP.Dsp sp0 k) P rv f0 = Some (w_fs w')) \/ AF w'.

Lemma iter_S i : increment (Nat.iter i increment sp0) = Nat.iter (S i) increment sp0.
Proof. reflexivity. Qed.

Lemma psl_h : forall n i fuel w,
  i + n = k -> n < fuel -> ok_fr w -> w_fs w = f0 ->
  FP.post (fun _ => psl_post) (fun _ => True)
          (project_store_loop fuel rv (Nat.iter i increment sp0) U P cfg ev o w).
Proof.
  induction n as [|n IH]; intros i fuel w Hik Hfuel Hok Hf.
  all: destruct fuel as [|fuel]; [lia|]; cbn [project_store_loop].
  all: rewrite FP.bind_is_ok, (ok_fr_tr_ok _ Hok); cbn [negb].
  all: unfold try_ at 1; rewrite FP.bind_mod_tr.
  all: set (w1 := Hoare.upd_tr (tr_try (w_tr w)) w).
  all: assert (Hok1 : ok_fr w1) by (unfold ok_fr, w1; cbn [Hoare.upd_tr w_tr]; rewrite tr_try_frames; exact Hok).
  all: assert (HDabs : exists restD, current_path (Nat.iter i increment sp0) = ch_slash :: restD)
         by (destruct (Nat.eq_dec i k) as [->|Hne]; [exact Habs | destruct (Hcoll i ltac:(lia)) as [H _]; exact H]).
  all: apply FP.post_bind.
  all: eapply FP.post_mono;
         [apply (sst_h U (current_path (Nat.iter i increment sp0)) P rv o Ho AF AF_stable Hacc HDabs w1 Hok1) | | auto].
  all: intros [] w2 Hout; cbv beta; change (w_fs w1) with (w_fs w) in Hout; rewrite Hf in Hout.
  all: assert (Hoth : oth w2 ->
         FP.post (fun _ => psl_post) (fun _ => True)
           ((do c <- catch_static M_dst_exists;
             if c then finally_;; project_store_loop fuel rv (increment (Nat.iter i increment sp0)) U P cfg ev
             else
               do c1 <- catch_static M_src_missing;
               do ev0 <- (if c1 then ret_ (c_ev_deleted cfg)
                          else do c2 <- catch_static M_src_denied;
                               if c2 then ret_ (c_ev_forbidden cfg) else ret_ ev);
               finally_;; ret_ ev0) o w2)).
  1,3: intros [fr [rest [Efr Hfr]]];
       rewrite (catch_run_false M_dst_exists), (catch_run_false M_src_missing);
       try (apply (catch_other_frame _ _ fr rest Efr); intros ->; exact Hfr);
       cbv iota; rewrite FP.bind_assoc, (catch_run_false M_src_denied);
       try (apply (catch_other_frame _ _ fr rest Efr); intros ->; exact Hfr);
       cbv iota; rewrite FP.bind_ret; unfold finally_; rewrite FP.bind_mod_tr; cbn [FP.post ret_];
       left; intros Hbad; unfold ok_fr in Hbad; cbn [Hoare.upd_tr w_tr] in Hbad;
       rewrite tr_finally_frames, Efr in Hbad; discriminate Hbad.
  all: assert (Haf : AF w2 ->
         FP.post (fun _ => psl_post) (fun _ => True)
           ((do c <- catch_static M_dst_exists;
             if c then finally_;; project_store_loop fuel rv (increment (Nat.iter i increment sp0)) U P cfg ev
             else
               do c1 <- catch_static M_src_missing;
               do ev0 <- (if c1 then ret_ (c_ev_deleted cfg)
                          else do c2 <- catch_static M_src_denied;
                               if c2 then ret_ (c_ev_forbidden cfg) else ret_ ev);
               finally_;; ret_ ev0) o w2)).
  1,3: intros H; apply (post_E AF); [|exact H | intros ? w' H'; right; exact H'];
       apply (lm_bind AF); [apply (lm_catch_static AF AF_stable)|]; intros c; destruct c;
       [apply (lm_bind AF); [apply (lm_finally AF AF_stable) | intros ?; apply (lm_project_store_loop AF AF_stable)]|];
       apply (lm_bind AF); [apply (lm_catch_static AF AF_stable)|]; intros c1;
       apply (lm_bind AF);
       [destruct c1; [apply (lm_ret AF)|];
        apply (lm_bind AF); [apply (lm_catch_static AF AF_stable)|]; intros c2; destruct c2; apply (lm_ret AF)|];
       intros ev0; apply (lm_bind AF); [apply (lm_finally AF AF_stable) | intros ?; apply (lm_ret AF)].
  - (* i = k: the name is free *)
    assert (Eik : i = k) by lia. subst i.
    destruct Hout as [[Hok2 Hs]|[[_ [Hex _]]|[H|H]]]; [| | exact (Hoth H) | exact (Haf H)].
    + assert (Hc : forall m, tr_catch_static m (w_tr w2) = (false, w_tr w2)) by (intros m; apply catch_empty; exact Hok2).
      rewrite (catch_run_false M_dst_exists), (catch_run_false M_src_missing) by apply Hc.
      cbv iota. rewrite FP.bind_assoc, (catch_run_false M_src_denied) by apply Hc.
      cbv iota. rewrite FP.bind_ret. unfold finally_. rewrite FP.bind_mod_tr. cbn [FP.post ret_].
      left. intros _. exact Hs.
    + exfalso. apply Hex. rewrite mkpar_other; [exact Hfree | apply parents_of_not_self].
  - (* i < k: the name is taken *)
    assert (Hlt : i < k) by lia.
    pose proof (Hcoll i Hlt) as Hci. unfold SP.Dsp in Hci.
    destruct Hout as [[_ Hs]|[[T2 [_ F2]]|[H|H]]]; [| | exact (Hoth H) | exact (Haf H)].
    + rewrite (collides_sst_none rv U _ P f0 Hci) in Hs. discriminate Hs.
    + rewrite (collides_mkpar f0 _ Hci) in F2.
      rewrite FP.bind_catch_static.
      destruct (fst (tr_catch_static M_dst_exists (w_tr w2))) eqn:Ec.
      * (* caught: the next name *)
        unfold finally_ at 1. rewrite FP.bind_mod_tr. rewrite iter_S.
        apply (IH (S i)); [lia | lia | | exact F2].
        unfold ok_fr. cbn [Hoare.upd_tr w_tr]. rewrite tr_finally_frames.
        apply catch_true_frames. exact Ec.
      * (* a failed try is pending: the error stays *)
        rewrite (catch_false_same _ _ Ec), FP.upd_tr_same.
        rewrite (catch_run_false M_src_missing)
          by (apply (catch_other_frame _ _ _ _ T2); discriminate).
        cbv iota. rewrite FP.bind_assoc, (catch_run_false M_src_denied)
          by (apply (catch_other_frame _ _ _ _ T2); discriminate).
        cbv iota. rewrite FP.bind_ret. unfold finally_. rewrite FP.bind_mod_tr. cbn [FP.post ret_].
        left. intros Hbad. unfold ok_fr in Hbad. cbn [Hoare.upd_tr w_tr] in Hbad.
        rewrite tr_finally_frames, T2 in Hbad. discriminate Hbad.
Qed.

End Psl.

(* ====================================================================== *)
(*                         small facts about runs                         *)
(* ====================================================================== *)

Lemma AF_access w filt e : AF (after_call (CAccess filt) (RFault e) (w_fs w) w).
Proof. unfold AF, after_call. cbn [w_log]. apply Exists_cons_hd. exact I. Qed.

(* the clock never moves *)
Definition clock_is (c0 : Z) (w : world) : Prop := w_clock w = c0.

Lemma clock_stable c0 : stable (clock_is c0).
Proof. split; intros; assumption. Qed.

Lemma get_timestamp_val pat o w :
  FP.post (fun v w' => forall s, v = Some s -> s = expand_pattern pat (dec (Z.to_N (w_clock w))))
          (fun _ => True) (get_timestamp pat o w).
Proof.
  cbv beta iota delta [get_timestamp bind get_clock is_ok get_tr ret_ FP.post
                       throw_static throw mod_tr set_tr].
  destruct (tr_ok (w_tr w)); [|intros s E; discriminate E].
  cbv zeta. destruct (Nat.ltb name_max (length (expand_pattern pat (dec (Z.to_N (w_clock w)))))).
  - intros s E; discriminate E.
  - intros s E. inversion E. reflexivity.
Qed.

(* an error in the trace survives record_event, which then does nothing else *)
Lemma record_event_notok ev pid path h o w :
  tr_ok (w_tr w) = false ->
  exists t', record_event ev pid path h o w = (Some tt, Hoare.upd_tr t' w) /\ tr_ok t' = false.
Proof.
  intros Hn. unfold record_event. unfold try_ at 1. rewrite FP.bind_mod_tr.
  set (t1 := tr_try (w_tr w)).
  assert (N1 : tr_ok t1 = false) by (unfold t1; rewrite FdProofs.tr_ok_try; exact Hn).
  assert (En : note ev pid path (h_journal h) o (Hoare.upd_tr t1 w) = (Some tt, Hoare.upd_tr t1 w)).
  { unfold note. destruct (h_journal h) as [jn|]; [|reflexivity]. destruct ev as [e|]; [|reflexivity].
    unfold when_ok. rewrite FP.bind_is_ok. cbn [Hoare.upd_tr w_tr]. rewrite N1. reflexivity. }
  rewrite (bind_some _ _ _ _ _ _ En).
  destruct (c_journal_path (h_cfg h)) as [p|].
  - unfold rethrow_context. rewrite FP.bind_mod_tr. cbn [Hoare.upd_tr w_tr]. rewrite FP.upd_tr_upd.
    eexists. split; [reflexivity|]. apply tr_finally_rethrow_not_ok. apply tr_rethrow_context_not_ok. exact N1.
  - rewrite FP.bind_ret. eexists. split; [reflexivity|]. cbn [Hoare.upd_tr w_tr].
    apply tr_finally_rethrow_not_ok. exact N1.
Qed.

Lemma loop_notok fuel rev h o w :
  tr_ok (w_tr w) = false -> handle_timeout_loop fuel rev h o w = (Some (TError, h), w).
Proof.
  intros Hn. destruct fuel as [|fuel]; [reflexivity|]. cbn [handle_timeout_loop].
  rewrite FP.bind_is_ok, Hn. reflexivity.
Qed.

Lemma pop_notok q o w : tr_ok (w_tr w) = false -> q_pop_head q o w = (Some q, w).
Proof. intros Hn. unfold q_pop_head, when_ok. rewrite FP.bind_is_ok, Hn. reflexivity. Qed.

Lemma iter_increment_spP c path version k :
  ns version ->
  spP c (Nat.iter k increment (create_store_path (c_project_store_root c) (basename path) version)).
Proof.
  intros Hv. induction k as [|k IH]; [apply spP_create; exact Hv|].
  cbn [Nat.iter]. apply spP_increment. exact IH.
Qed.

(* ====================================================================== *)
(*            the first entry of the queue is a PROJECT entry             *)
(* ====================================================================== *)

Section FirstP.
Variables (c : config) (oj : option journal) (f0 : fs) (d : str) (h0 : N).
Variables (p1 : str) (m1 : N) (t1 : Z) (rest : list qent).
Hypothesis D : disjoint_locs c.
Hypothesis Hd : qdir_ok2 c d.
Hypothesis Hcnt : count_paths p1 ((p1, m1, t1) :: rest) = 1.
Hypothesis Hproj : N.odd m1 = true.
(* the clock of the pass, the number of snapshot names already taken *)
Variables (c0 : Z) (k : nat).

Local Notation ents0 := ((p1, m1, t1) :: rest).
Local Notation G0 := (G c oj f0 f0 ents0 h0).
Local Notation version0 := (expand_pattern (c_version_pattern c) (dec (Z.to_N c0))).
Local Notation pname := (basename p1).
Local Notation sp0 := (create_store_path (c_project_store_root c) pname version0).
Local Notation U := (c_unstable_root c ++ ch_slash :: pname).
Local Notation Dk := (SP.Dsp sp0 k).

Hypothesis Hnd : keys_nodup f0.
Hypothesis Hpe : parents_exist f0.
Hypothesis HP1 : p1 <> [].
Hypothesis Habs : exists restD, Dk = ch_slash :: restD.
Hypothesis HUr : U <> root_path.
Hypothesis NUD : nn U Dk.
Hypothesis NUP : nn U p1.
Hypothesis NDP : nn Dk p1.
Hypothesis Hfree : lookup f0 Dk = None.
Hypothesis Hpar : forall a, In a (parents_of Dk) -> lookup f0 a = Some NDir \/ lookup f0 a = None.
Hypothesis Hcoll : forall i, i < k -> SP.collides f0 (SP.Dsp sp0 i).
Hypothesis Hfuel : k < S (S (dir_entry_count f0 (dirname (current_path sp0)))).

(* the snapshot directory is complete: it exists, and below it there is exactly
   what SnapshotProofs.snap says -- the entries of the unstable tree that the
   project still has, as hard links (same inodes) *)
Definition DoneP (f : fs) : Prop :=
  lookup f Dk = Some NDir /\ forall r, lookup f (Dk ++ ch_slash :: r) = SP.snap f0 U p1 r.

Definition PostP (r : tresult * handler) (w : world) : Prop :=
  exists k', k' <= length ents0 /\ G0 k' (h_q (snd r)) (w_fs w) /\
             HI c oj (snd r) /\ q_dir (h_q (snd r)) = d /\ (1 <= k' -> DoneP (w_fs w)).

Definition CrashP (w : world) : Prop :=
  exists k' q', k' <= length ents0 /\ q_dir q' = d /\ G0 k' q' (w_fs w) /\
                (1 <= k' -> DoneP (w_fs w)).

Lemma PostP_0 r h1 w : HI c oj h1 -> q_dir (h_q h1) = d -> G0 0 (h_q h1) (w_fs w) -> PostP (r, h1) w.
Proof.
  intros Hh Eq HG. exists 0. cbn [snd]. split; [lia|]. split; [exact HG|]. split; [exact Hh|].
  split; [exact Eq|]. intros; lia.
Qed.

Lemma CrashP_0 q w : q_dir q = d -> G0 0 q (w_fs w) -> CrashP w.
Proof.
  intros Eq HG. exists 0, q. split; [lia|]. split; [exact Eq|]. split; [exact HG|]. intros; lia.
Qed.

Lemma U_ne : U <> [].
Proof. intros E. apply app_eq_nil in E. destruct E as [_ E]. discriminate E. Qed.

(* a complete run of sync_shallow_tree onto the k-th name is the snapshot *)
Lemma sst_done rv f' : sst_fs U Dk p1 rv f0 = Some f' -> DoneP f'.
Proof.
  intros Hs. destruct Habs as [restD HD].
  destruct (sst_fs_snapshot rv U Dk p1 restD f0 f' Hnd Hpe HD U_ne HUr HP1 NUD NUP NDP Hfree Hpar Hs)
    as (_ & _ & _ & LD & _ & SD & _).
  split; [exact LD | exact SD].
Qed.

(* in terms of CrashSnapFrame.SnapAt *)
Lemma DoneP_SnapAt : ns version0 ->
  exists pn tl, ns pn /\ ns tl /\ forall f, DoneP f <-> SnapAt c pn tl (SP.snap f0 U p1) f.
Proof.
  intros Hv. destruct (spP_current c _ (iter_increment_spP c p1 version0 k Hv)) as [pn [tl [H1 [H2 E]]]].
  exists pn, tl. split; [exact H1|]. split; [exact H2|]. intros f. unfold DoneP, SnapAt, SP.Dsp.
  rewrite E. tauto.
Qed.

(* ---------- the end of the iteration: pop, then the rest of the loop ---------- *)

Definition proj_tail (fuel : nat) (rev : bool) (h1 : handler) : M (tresult * handler) :=
  do q2 <- q_pop_head (h_q h1); handle_timeout_loop fuel rev (set_q q2 h1).

Lemma proj_tailG fm fuel rev h1 kk :
  HI c oj h1 -> q_dir (h_q h1) = d -> kk <= length ents0 ->
  htf (G c oj f0 fm ents0 h0 kk (h_q h1)) (proj_tail fuel rev h1)
      (LQ c oj f0 fm d ents0 h0 kk) (CG c oj f0 fm d ents0 h0 kk).
Proof.
  intros Hh1 Eq Hk. unfold proj_tail.
  eapply htf_bind.
  { eapply htf_conseq; [| | |apply (htf_pop c oj f0 fm d ents0 h0 Hd kk (h_q h1) Eq)];
      [auto | intros ? ? H; exact H | intros f HGf; eapply G_CG; [| |exact HGf]; assumption]. }
  intros q2. apply (htf_after_pop c oj f0 fm d ents0 h0 kk (h_q h1) q2); [exact Hk|].
  intros k' Hk3 Hk4 Eq2.
  eapply htf_conseq; [| | |apply (loopG c oj f0 fm d ents0 h0 D Hd fuel rev (set_q q2 h1) k')].
  - auto.
  - intros r f'. apply LQ_mono. exact Hk3.
  - intros f'. apply CG_mono. exact Hk3.
  - apply HI_set_q; [exact Hh1 | congruence].
  - exact Eq2.
  - exact Hk4.
Qed.

Lemma proj_tail_snap pn tl S fuel rev h1 :
  ns pn -> ns tl -> HI c oj h1 -> q_dir (h_q h1) = d ->
  ht (fun _ => True) (fun w => SnapAt c pn tl S (w_fs w)) (proj_tail fuel rev h1)
     (fun _ w => SnapAt c pn tl S (w_fs w)) (fun w => SnapAt c pn tl S (w_fs w)).
Proof.
  intros Hpn Htl Hh1 Eq. unfold proj_tail.
  eapply ht_bind with (R := fun q2 w => SnapAt c pn tl S (w_fs w) /\ q_dir q2 = d).
  { exact (snap_pop c d Hd pn tl S (h_q h1) Eq). }
  intros q2. apply ht_pure_pre with (phi := q_dir q2 = d); [intros w [_ E]; exact E|]. intros Eq2.
  eapply ht_conseq3; [| | |apply (snap_loop c oj d D Hd pn tl Hpn Htl S fuel rev (set_q q2 h1))].
  - intros w [H _]. exact H.
  - auto.
  - auto.
  - apply HI_set_q; [exact Hh1 | congruence].
  - exact Eq2.
Qed.

(* once the snapshot is complete, whatever the rest of the pass does *)
Lemma tail_after_snapshot fuel rev h1 :
  ns version0 -> HI c oj h1 -> q_dir (h_q h1) = d ->
  ht honest (fun w => G0 0 (h_q h1) (w_fs w) /\ DoneP (w_fs w))
     (proj_tail fuel rev h1) PostP CrashP.
Proof.
  intros Hv Hh1 Eq. destruct (DoneP_SnapAt Hv) as [pn [tl [Hpn [Htl HS]]]].
  apply ht_freeze. intros w1 [HG1 HD1]. set (fm := w_fs w1) in *.
  eapply ht_oracles with (O1 := fun _ => True); [auto|].
  eapply ht_conseq3;
    [| | |apply ht_conj;
          [apply (proj_tailG fm fuel rev h1 0 Hh1 Eq (Nat.le_0_l _))
          |apply (proj_tail_snap pn tl (SP.snap f0 U p1) fuel rev h1 Hpn Htl Hh1 Eq)]].
  - intros w ->. fold fm. split; [|apply HS; exact HD1].
    destruct HG1 as [[[H1 _] H2] HN]. split; [split; [split; [exact H1|] | exact H2] | exact HN].
    split; [apply preserved_refl | apply H1].
  - intros r w [[k' [[_ Hk] [[[[H1 H2] H3] HN] [H4 H5]]]] HSn]. exists k'. split; [exact Hk|].
    split; [split; [split; [split; exact H1 | exact H3] | exact HN]|]. split; [exact H4|]. split; [exact H5|].
    intros _. apply HS. exact HSn.
  - intros w [[k' [q' [[_ Hk] [Eq' [[[H1 H2] H3] HN]]]]] HSn]. exists k', q'. split; [exact Hk|].
    split; [exact Eq'|]. split; [split; [split; [split; exact H1 | exact H3] | exact HN]|].
    intros _. apply HS. exact HSn.
Qed.

(* an error in the trace: nothing is popped and the loop stops *)
Lemma tail_notok_p fuel rev h1 :
  HI c oj h1 -> q_dir (h_q h1) = d ->
  ht honest (fun w => G0 0 (h_q h1) (w_fs w) /\ tr_ok (w_tr w) = false)
     (proj_tail fuel rev h1) PostP CrashP.
Proof.
  intros Hh1 Eq o w _ [HG Hn]. unfold proj_tail.
  rewrite (bind_some _ _ _ _ _ _ (pop_notok (h_q h1) o w Hn)), (loop_notok fuel rev _ o w Hn).
  apply PostP_0; [apply HI_set_q; [exact Hh1 | reflexivity] | exact Eq | exact HG].
Qed.

(* ---------- the loop, started on the project entry ---------- *)

Definition St (w : world) : Prop := w_fs w = f0 /\ w_clock w = c0.
Definition PostPA (r : tresult * handler) (w : world) : Prop := PostP r w \/ AF w.
Definition CrashPA (w : world) : Prop := CrashP w \/ AF w.

(* the state between the snapshot and the pop *)
Definition Zs (q : qmem) (w : world) : Prop :=
  G0 0 q (w_fs w) /\ (tr_ok (w_tr w) = true -> DoneP (w_fs w)).

Lemma Zs_record_event ev pid path h1 :
  ns version0 -> h_journal h1 = oj ->
  ht honest (Zs (h_q h1)) (record_event ev pid path h1) (fun _ => Zs (h_q h1))
     (fun w => G0 0 (h_q h1) (w_fs w)).
Proof.
  intros Hv Ej. destruct (DoneP_SnapAt Hv) as [pn [tl [Hpn [Htl HS]]]].
  apply ht_case with (cond := fun w => tr_ok (w_tr w)).
  - eapply ht_conseq3;
      [| | |apply ht_conj;
            [apply (tok_lift honest _ _ (G_record_event c oj f0 f0 ents0 h0 0 (h_q h1) ev pid path h1 Ej))
            |apply (tok_lift honest _ _ (snap_record_event c pn tl (SP.snap f0 U p1) ev pid path h1))]].
    + intros w [[H1 H2] Hok]. split; [exact H1|]. apply HS. apply H2. exact Hok.
    + intros ? w [H1 H2]. split; [exact H1|]. intros _. apply HS. exact H2.
    + intros w [H1 _]. exact H1.
  - intros o w _ [[H1 _] Hn].
    destruct (record_event_notok ev pid path h1 o w Hn) as [t' [E Hn']]. rewrite E.
    split; [exact H1|]. cbn [Hoare.upd_tr w_tr]. intros X. congruence.
Qed.

Lemma Zs_tail fuel rev h1 :
  ns version0 -> HI c oj h1 -> q_dir (h_q h1) = d ->
  ht honest (Zs (h_q h1)) (proj_tail fuel rev h1) PostP CrashP.
Proof.
  intros Hv Hh1 Eq. apply ht_case with (cond := fun w => tr_ok (w_tr w)).
  - eapply ht_conseq3; [| | |apply (tail_after_snapshot fuel rev h1 Hv Hh1 Eq)]; auto.
    intros w [[H1 H2] Hok]. auto.
  - eapply ht_conseq3; [| | |apply (tail_notok_p fuel rev h1 Hh1 Eq)]; auto.
    intros w [[H1 _] Hn]. auto.
Qed.

Lemma first_iter_project fuel rev h :
  HI c oj h -> q_dir (h_q h) = d -> G0 0 (h_q h) f0 ->
  ht honest St (handle_timeout_loop fuel rev h) PostPA CrashPA.
Proof.
  intros Hh Eq HG0.
  assert (HC0 : forall w, St w -> CrashPA w).
  { intros w [E _]. left. apply (CrashP_0 (h_q h)); [exact Eq | rewrite E; exact HG0]. }
  assert (HR : QRel (h_q h) f0 ents0) by (destruct HG0 as [[_ [_ H]] _]; exact H).
  assert (CLs : stable (clock_is c0)) by apply clock_stable.
  assert (Hro : forall {A} (m : M A), (forall P, tok P m) -> lm (clock_is c0) m ->
            ht honest St m (fun _ => St) CrashPA).
  { intros A m Hm Hl.
    eapply ht_conseq3;
      [| | |apply ht_conj;
            [apply (tok_lift honest (fun f => f = f0) m (Hm _))
            |apply (ht_oracles (fun _ => True) honest); [auto | exact Hl]]].
    - intros w [H1 H2]. split; assumption.
    - intros a w [H1 H2]. split; assumption.
    - intros w [H1 H2]. apply HC0. split; assumption. }
  destruct fuel as [|fuel]; cbn [handle_timeout_loop].
  { apply ht_ret. intros w [E _]. left. apply PostP_0; [exact Hh | exact Eq | rewrite E; exact HG0]. }
  eapply ht_bind; [apply Hro; [intros P; tk_with leaf1 | lmk]|intros b0].
  destruct (negb b0).
  { apply ht_ret. intros w [E _]. left. apply PostP_0; [exact Hh | exact Eq | rewrite E; exact HG0]. }
  eapply ht_bind; [apply Hro; [intros P; tk_with leaf1 | lmk]|intros ?].
  eapply ht_bind.
  { eapply ht_conseq3;
      [| | |apply ht_conj;
            [apply (ht_get_head_first honest f0 (h_q h) p1 m1 t1 rest _ HR Hcnt)
            |apply (ht_oracles (fun _ => True) honest);
               [auto | apply (lm_q_get_head (clock_is c0) CLs)]]].
    - intros w [H1 H2]. split; [exact H1 | exact H2].
    - intros r w H. exact H.
    - intros w [H1 H2]. apply HC0. split; assumption. }
  intros r. destruct r as [hd q1]. cbn [fst snd].
  apply ht_pure_pre with
    (phi := q1 = h_q h /\ forall path meta, hd = Some (QReady path meta) -> path = p1 /\ meta = m1).
  { intros w [[_ H] _]. exact H. }
  intros [-> Hhd].
  eapply ht_conseq3 with (P := St) (Q := PostPA) (C := CrashPA);
    [intros w [[H1 _] H2]; split; assumption | auto | auto |].
  assert (Hh1 : HI c oj (set_q (h_q h) h)) by (apply HI_set_q; [exact Hh | reflexivity]).
  set (h1 := set_q (h_q h) h) in *.
  assert (Eq1 : q_dir (h_q h1) = d) by exact Eq.
  assert (Hret : forall r, ht honest St (ret_ (r, h1)) PostPA CrashPA).
  { intros r. apply ht_ret. intros w [E _]. left. apply PostP_0; [exact Hh1 | exact Eq1 | rewrite E; exact HG0]. }
  eapply ht_bind; [apply Hro; [intros P; tk_with leaf1 | lmk]|intros ?].
  eapply ht_bind; [apply Hro; [intros P; tk_with leaf1 | lmk]|intros b1].
  destruct b1; [|apply Hret].
  destruct hd as [[z|path meta]|]; [apply Hret| |apply Hret].
  destruct (Hhd path meta eq_refl) as [-> ->].
  pose proof Hh1 as [Ecfg [Ej _]]. rewrite Ecfg.
  (* the version string: it is the one computed from the clock *)
  eapply ht_bind with (R := fun v w => St w /\ forall s, v = Some s -> s = version0).
  { intros o w Ho HSt.
    pose proof (Hro _ (get_timestamp (c_version_pattern c)) (fun P => tok_get_timestamp P _)
                    (lm_get_timestamp _ CLs _) o w Ho HSt) as H1.
    pose proof (get_timestamp_val (c_version_pattern c) o w) as H2.
    destruct (get_timestamp (c_version_pattern c) o w) as [[v|] w']; [|exact H1].
    split; [exact H1|]. cbn [FP.post] in H2. destruct HSt as [_ Hc]. rewrite Hc in H2. exact H2. }
  intros v.
  apply ht_pure_pre with (phi := forall s, v = Some s -> s = version0); [intros w [_ H]; exact H|].
  intros Hv0.
  eapply ht_bind with (R := fun bv w => St w /\ bv = tr_ok (w_tr w)).
  { apply ht_is_ok. intros w [H _]. auto. }
  intros bv.
  (* the check of the version string *)
  eapply ht_bind with
    (R := fun _ w => St w /\
            (tr_ok (w_tr w) = true -> forall ver, v = Some ver -> existsb is_slash ver = false)).
  { destruct v as [ver|]; [destruct bv; [destruct (existsb is_slash ver) eqn:Es|]|].
    - eapply ht_bind with (R := fun _ w => St w /\ tr_ok (w_tr w) = false).
      + unfold throw_context, throw. apply ht_mod_tr. intros w [H _]. split; [exact H | reflexivity].
      + intros ?. unfold throw_static, throw. apply ht_mod_tr. intros w [H _]. split; [exact H|].
        intros E. cbn in E. discriminate.
    - apply ht_ret. intros w [H _]. split; [exact H|]. intros _ ver' E. inversion E; subst. exact Es.
    - apply ht_ret. intros w [H Hb]. split; [exact H|]. intros E. congruence.
    - apply ht_ret. intros w [H _]. split; [exact H|]. intros _ ver' E. discriminate. }
  intros ?.
  eapply ht_bind with
    (R := fun b2 w => (St w /\ b2 = tr_ok (w_tr w)) /\
            (b2 = true -> forall ver, v = Some ver -> existsb is_slash ver = false)).
  { apply ht_is_ok. intros w [H1 H2]. auto. }
  intros b2.
  destruct v as [version|];
    [|eapply ht_conseq3; [| | |apply (Hret TError)]; [intros w [[H _] _]; exact H | auto | auto]].
  destruct b2;
    [|eapply ht_conseq3; [| | |apply (Hret TError)]; [intros w [[H _] _]; exact H | auto | auto]].
  rewrite (Hv0 version eq_refl) in *. clear Hv0.
  apply ht_pure_pre with (phi := ns version0).
  { intros w [_ H]. apply existsb_false_ns. apply (H eq_refl _ eq_refl). }
  intros Hver.
  eapply ht_conseq3 with (P := fun w => St w /\ tr_ok (w_tr w) = true) (Q := PostPA) (C := CrashPA);
    [intros w [[H1 H2] _]; split; [exact H1 | symmetry; exact H2] | auto | auto |].
  cbv zeta.
  match goal with |- ht _ _ (if ?x then _ else _) _ _ => destruct x end.
  { eapply ht_conseq3 with (P := St) (Q := PostPA) (C := CrashPA); [intros w [H _]; exact H | auto | auto |].
    eapply ht_bind; [apply Hro; [intros P; tk_with leaf1 | lmk]|intros ?].
    eapply ht_bind; [apply Hro; [intros P; tk_with leaf1 | lmk]|intros ?]. apply Hret. }
  rewrite Hproj.
  set (rel := skipn (Nat.min (length p1) (h_cpl h1)) p1).
  eapply ht_bind with (R := fun f w => (St w /\ tr_ok (w_tr w) = true) /\ f = f0).
  { intros o w _ [[H1 H2] H3]. cbn. split; [split; [split; assumption | exact H3] | exact H1]. }
  intros f. apply ht_pure_pre with (phi := f = f0); [intros w [_ E]; exact E|]. intros ->.
  (* the search for a free name and the snapshot *)
  eapply ht_bind with (R := fun _ w => Zs (h_q h1) w \/ AF w).
  { eapply ht_conseq3 with
      (P := fun w => G0 0 (h_q h1) (w_fs w) /\ ((St w /\ tr_ok (w_tr w) = true) /\ f0 = f0))
      (Q := fun _ w => G0 0 (h_q h1) (w_fs w) /\ psl_post AF rev U p1 f0 sp0 k w)
      (C := fun w => G0 0 (h_q h1) (w_fs w) /\ True).
    - intros w H. split; [|exact H]. destruct H as [[[E _] _] _]. rewrite E. exact HG0.
    - intros ev w [H1 [H2|H2]]; [left | right; exact H2]. split; [exact H1|].
      intros Hok. apply (sst_done rev). apply H2. apply tr_ok_frames. exact Hok.
    - intros w [H _]. left. apply (CrashP_0 (h_q h1)); [exact Eq1 | exact H].
    - apply ht_conj.
      + apply (tok_lift honest).
        apply (G_project_store_loop c oj f0 f0 d ents0 h0 D Hd 0 (h_q h1)); [exact Eq1 | apply spI_create | | |].
        * exists pname. reflexivity.
        * exact HUr.
        * apply U_ne.
      + intros o w Ho [[[Hf _] Hok] _].
        apply (psl_h o Ho AF AF_stable (fun w0 filt e _ => AF_access w0 filt e) rev U p1 c
                 (c_ev_stored c) f0 sp0 k Hcoll Habs Hfree k 0 _ w); [lia | exact Hfuel | | exact Hf].
        apply tr_ok_frames. exact Hok. }
  intros ev.
  change (ht honest (fun w => Zs (h_q h1) w \/ AF w)
             (record_event ev 0%N rel h1;; proj_tail fuel rev h1) PostPA CrashPA).
  apply ht_or_stable.
  { apply (lm_bind AF); [apply (lm_record_event AF AF_stable)|]. intros ?. unfold proj_tail.
    apply (lm_bind AF); [apply (lm_q_pop_head AF AF_stable)|]. intros ?. apply (lm_handle_timeout_loop AF AF_stable). }
  eapply ht_bind.
  { eapply ht_conseq3; [| | |apply (Zs_record_event ev 0%N rel h1 Hver Ej)];
      [auto | intros ? w H; exact H | intros w H; apply (CrashP_0 (h_q h1)); [exact Eq1 | exact H]]. }
  intros ?. apply (Zs_tail fuel rev h1 Hver Hh1 Eq1).
Qed.

End FirstP.

(* ====================================================================== *)
(*                 MAIN THEOREM (1): a project entry first                *)
(* ====================================================================== *)

(* "the first k names for the snapshot of project [path] taken at the time of
   world w are in use, the next one is free; the snapshot directory, the
   unstable tree of the project and the project do not nest"  (the part of
   SnapshotProofs.project_head_due that is about names; k = 0: no collision) *)
Record snapshot_name_free (w : world) (h : handler) (path : str) (k : nat) : Prop := {
  snf_parents : parents_exist (w_fs w);
  snf_abs : exists restD, SP.snap_dir h path (w_clock w) k = ch_slash :: restD;
  snf_unroot : SP.unstable_of h path <> root_path;
  snf_UD : nn (SP.unstable_of h path) (SP.snap_dir h path (w_clock w) k);
  snf_UP : nn (SP.unstable_of h path) path;
  snf_DP : nn (SP.snap_dir h path (w_clock w) k) path;
  snf_fresh : lookup (w_fs w) (SP.snap_dir h path (w_clock w) k) = None;
  snf_chain : forall a, In a (parents_of (SP.snap_dir h path (w_clock w) k)) ->
      lookup (w_fs w) a = Some NDir \/ lookup (w_fs w) a = None;
  snf_taken : forall i, i < k -> SP.collides (w_fs w) (SP.snap_dir h path (w_clock w) i);
  snf_fuel : k < S (S (dir_entry_count (w_fs w) (dirname (SP.snap_dir h path (w_clock w) 0))))
}.

Lemma project_head_due_names o w h path meta t rest k :
  SP.project_head_due o w h path meta t rest k -> snapshot_name_free w h path k.
Proof.
  intros H. constructor; try apply H.
Qed.

(* EVERY HONEST oracle (CrashCopy.honest: no injected ENOENT / ENOTDIR / EACCES /
   EEXIST -- of these EEXIST on a mkdir and ENOENT / EACCES on fts_open are the
   ones sync_shallow_tree reads as expected conditions --, any other failure at
   any call, a crash before any call) whose run does not make an access(2)
   probe fail (~ AF of the final world: no (CAccess _, RFault _) in the call
   log; every failure of access() is read as "the project no longer has this
   entry").  "Pop only after the snapshot": the first entry is a project entry
   queued once.  If, in the final world -- whether the pass returned, failed
   or the process died -- the link of that entry is no longer in the queue
   directory, then the snapshot directory (the k-th candidate name, k names
   being taken) exists and holds exactly SnapshotProofs.snap: every entry of
   the unstable tree that the project still has, as the same inode. *)
Theorem crash_project_pop_after_snapshot :
  forall (o : oracle) (w : world) (rev : bool) (h : handler)
         (p1 : str) (m1 : N) (t1 : Z) (rest : list qent) (k : nat),
  honest o ->
  disjoint_locs (h_cfg h) ->
  qdir_ok2 (h_cfg h) (q_dir (h_q h)) ->
  SI (h_cfg h) (h_journal h) (w_fs w) ->
  keys_nodup (w_fs w) ->
  qclean (q_dir (h_q h)) (w_fs w) ->
  QRel (h_q h) (w_fs w) ((p1, m1, t1) :: rest) ->
  count_paths p1 ((p1, m1, t1) :: rest) = 1 ->
  N.odd m1 = true ->
  snapshot_name_free w h p1 k ->
  let res := handle_timeout rev h o w in
  let f' := w_fs (snd res) in
  ~ AF (snd res) ->
  lookup f' (join (q_dir (h_q h)) (dec (q_head (h_q h)))) = None ->
  lookup f' (SP.snap_dir h p1 (w_clock w) k) = Some NDir /\
  forall r, lookup f' (SP.snap_dir h p1 (w_clock w) k ++ ch_slash :: r) =
            SP.snap (w_fs w) (SP.unstable_of h p1) p1 r.
Proof.
  intros o w rev h p1 m1 t1 rest k Ho D Hd HS Hnd Hcl HR Hcnt Hproj HN res f' Hnaf Hgone.
  set (c := h_cfg h) in *. set (oj := h_journal h) in *. set (d := q_dir (h_q h)) in *.
  set (f0 := w_fs w) in *. set (ents := (p1, m1, t1) :: rest) in *.
  assert (HI0 : HI c oj h) by (split; [reflexivity | split; [reflexivity | apply Hd]]).
  assert (HG : G c oj f0 f0 ents (q_head (h_q h)) 0 (h_q h) f0).
  { split; [split; [split; (split; [apply preserved_refl | exact HS]) | split; [split; [exact Hnd | exact Hcl] | exact HR]]|].
    intros _. lia. }
  assert (HP1 : p1 <> []).
  { pose proof (QR_wf _ _ _ HR) as Hwf. inversion Hwf as [|? ? [Hnorm _] _]; subst.
    unfold qpath in Hnorm. cbn [fst] in Hnorm. destruct Hnorm as [r [-> _]]. discriminate. }
  destruct HN as [Hpe Habs HUr NUD NUP NDP Hfree Hpar Hcoll Hfuel].
  pose proof (first_iter_project c oj f0 d (q_head (h_q h)) p1 m1 t1 rest D Hd Hcnt Hproj (w_clock w) k
                Hnd Hpe HP1 Habs HUr NUD NUP NDP Hfree Hpar Hcoll Hfuel
                (S (S (N.to_nat (q_size (h_q h))))) rev h HI0 eq_refl HG o w Ho (conj eq_refl eq_refl)) as HL.
  assert (Hfin : forall k' q' fx, q_dir q' = d -> G c oj f0 f0 ents (q_head (h_q h)) k' q' fx ->
            lookup fx (join d (dec (q_head (h_q h)))) = None -> 1 <= k').
  { intros k' q' fx Eq' [[_ [_ HR']] HN'] Hnone. destruct k' as [|k']; [|lia]. exfalso.
    cbn [skipn] in HR'. pose proof (QRel_head _ _ _ _ _ _ HR') as Hh.
    rewrite Eq', (HN' ltac:(cbn; lia)) in Hh. replace (q_head (h_q h) + N.of_nat 0)%N with (q_head (h_q h)) in Hh by lia.
    congruence. }
  subst res f'. unfold handle_timeout, bind in *.
  destruct (handle_timeout_loop (S (S (N.to_nat (q_size (h_q h))))) rev h o w) as [[r|] w1].
  - rewrite is_ok_eq in *. unfold ret_ in *. cbn [fst snd] in *.
    destruct HL as [[k' [_ [HG' [_ [E3 HD]]]]]|Haf]; [|contradiction].
    apply HD. eapply Hfin; eauto.
  - cbn [fst snd] in *.
    destruct HL as [[k' [q' [_ [E3 [HG' HD]]]]]|Haf]; [|contradiction].
    apply HD. eapply Hfin; eauto.
Qed.

Print Assumptions crash_project_pop_after_snapshot.

(* ====================================================================== *)
(*          (3) a project entry that was not popped, after a restart      *)
(* ====================================================================== *)

(* EVERY oracle for the pass.  If the link of the first entry is still in the
   queue directory of the final world, nothing at all has been popped ... *)
Lemma link_present_nothing_popped :
  forall (o : oracle) (w : world) (rev : bool) (h : handler) (ents : list qent),
  disjoint_locs (h_cfg h) ->
  qdir_ok2 (h_cfg h) (q_dir (h_q h)) ->
  SI (h_cfg h) (h_journal h) (w_fs w) ->
  keys_nodup (w_fs w) ->
  qclean (q_dir (h_q h)) (w_fs w) ->
  QRel (h_q h) (w_fs w) ents ->
  let f' := w_fs (snd (handle_timeout rev h o w)) in
  lookup f' (join (q_dir (h_q h)) (dec (q_head (h_q h)))) <> None ->
  exists q', q_dir q' = q_dir (h_q h) /\ keys_nodup f' /\ qclean (q_dir (h_q h)) f' /\ QRel q' f' ents.
Proof.
  intros o w rev h ents D Hd HS Hnd Hcl HR f' Hthere.
  destruct (timeout_crash_queue_store o w rev h ents D Hd HS Hnd Hcl HR)
    as [k [q' [Hk [Eq [Hnd' [Hcl' [HR' [HN _]]]]]]]].
  fold f' in Hnd', Hcl', HR'.
  destruct k as [|k]; [exists q'; cbn [skipn] in HR'; auto|]. exfalso. apply Hthere.
  rewrite <- Eq. apply (QR_free _ _ _ HR'). left.
  destruct (Nat.lt_ge_cases (S k) (length ents)) as [Hlt|Hge].
  - rewrite (HN Hlt). lia.
  - exfalso. apply Hthere. rewrite <- Eq. apply (QR_free _ _ _ HR'). right.
    assert (El : length (skipn (S k) ents) = 0) by (rewrite skipn_length; lia).
    destruct (skipn (S k) ents) as [|e l] eqn:Es; [|discriminate El].
    rewrite (QR_head0 _ _ _ HR' eq_refl). cbn [length]. lia.
Qed.

(* ... and a restart that meets no fault itself loads the queue with the
   project entry (any entry) still at its head: the next pass will take the
   snapshot.  Together with crash_project_pop_after_snapshot: after a crash at
   any point either the snapshot is complete or the entry is still pending. *)
Theorem crash_restart_after_project :
  forall (o : oracle) (w : world) (rev : bool) (h : handler)
         (p1 : str) (m1 : N) (t1 : Z) (rest : list qent)
         (o2 : oracle) (w2 : world) (deb : Z) (g : nat),
  disjoint_locs (h_cfg h) ->
  qdir_ok2 (h_cfg h) (q_dir (h_q h)) ->
  SI (h_cfg h) (h_journal h) (w_fs w) ->
  keys_nodup (w_fs w) ->
  qclean (q_dir (h_q h)) (w_fs w) ->
  QRel (h_q h) (w_fs w) ((p1, m1, t1) :: rest) ->
  Forall (fits g) ((p1, m1, t1) :: rest) ->
  SyncProofs.benign o2 -> tr_ok (w_tr w2) = true ->
  w_fs w2 = w_fs (snd (handle_timeout rev h o w)) ->
  lookup (w_fs w2) (join (q_dir (h_q h)) (dec (q_head (h_q h)))) <> None ->
  exists (q2 : qmem) (w2' : world),
    load_linq (q_dir (h_q h)) deb g o2 w2 = (Some (Some q2), w2') /\
    QRel q2 (w_fs w2') ((p1, m1, t1) :: rest) /\
    lookup (w_fs w2') (join (q_dir q2) (dec (q_head q2))) = Some (NLink (encode m1 p1) t1) /\
    w_fs w2' = w_fs w2 /\ tr_ok (w_tr w2') = true.
Proof.
  intros o w rev h p1 m1 t1 rest o2 w2 deb g D Hd HS Hnd Hcl HR Hg Ho2 Hok2 Ef Hthere.
  rewrite Ef in Hthere.
  destruct (link_present_nothing_popped o w rev h _ D Hd HS Hnd Hcl HR Hthere)
    as [q' [Eq [Hnd' [Hcl' HR']]]].
  rewrite <- Ef in Hnd', Hcl', HR'. rewrite <- Eq in Hcl'.
  destruct (load_linq_ok o2 q' _ deb g w2 Ho2 Hok2 Hnd' Hcl' HR' Hg)
    as [q2 [w2' [E [HR2 [_ [_ [_ [Hf Hok]]]]]]]].
  exists q2, w2'. rewrite <- Eq. split; [exact E|]. split; [exact HR2|].
  split; [exact (QRel_head _ _ _ _ _ _ HR2)|]. auto.
Qed.

Print Assumptions crash_restart_after_project.

(* the two together: after a pass interrupted at any point, the project entry
   has either been turned into a complete snapshot, or it is still pending and
   nothing at all has been popped *)
Corollary crash_project_snapshot_or_pending :
  forall (o : oracle) (w : world) (rev : bool) (h : handler)
         (p1 : str) (m1 : N) (t1 : Z) (rest : list qent) (k : nat),
  honest o ->
  disjoint_locs (h_cfg h) ->
  qdir_ok2 (h_cfg h) (q_dir (h_q h)) ->
  SI (h_cfg h) (h_journal h) (w_fs w) ->
  keys_nodup (w_fs w) ->
  qclean (q_dir (h_q h)) (w_fs w) ->
  QRel (h_q h) (w_fs w) ((p1, m1, t1) :: rest) ->
  count_paths p1 ((p1, m1, t1) :: rest) = 1 ->
  N.odd m1 = true ->
  snapshot_name_free w h p1 k ->
  let res := handle_timeout rev h o w in
  let f' := w_fs (snd res) in
  ~ AF (snd res) ->
  (lookup f' (SP.snap_dir h p1 (w_clock w) k) = Some NDir /\
   forall r, lookup f' (SP.snap_dir h p1 (w_clock w) k ++ ch_slash :: r) =
             SP.snap (w_fs w) (SP.unstable_of h p1) p1 r) \/
  (exists q', q_dir q' = q_dir (h_q h) /\ QRel q' f' ((p1, m1, t1) :: rest)).
Proof.
  intros o w rev h p1 m1 t1 rest k Ho D Hd HS Hnd Hcl HR Hcnt Hproj HN res f' Hnaf.
  destruct (lookup f' (join (q_dir (h_q h)) (dec (q_head (h_q h))))) as [n|] eqn:El.
  - right.
    destruct (link_present_nothing_popped o w rev h _ D Hd HS Hnd Hcl HR) as [q' [Eq [_ [_ HR']]]].
    { fold res. fold f'. rewrite El. discriminate. }
    exists q'. split; [exact Eq | exact HR'].
  - left. exact (crash_project_pop_after_snapshot o w rev h p1 m1 t1 rest k
                   Ho D Hd HS Hnd Hcl HR Hcnt Hproj HN Hnaf El).
Qed.

Print Assumptions crash_project_snapshot_or_pending.

(* ====================================================================== *)
(*   a concrete project pass, crashed / failed at EVERY call index;        *)
(*   witnesses for the necessity of the conditions on the oracle           *)
(* ====================================================================== *)

Definition afb (w : world) : bool :=
  existsb (fun cr => match cr with (CAccess _, RFault _) => true | _ => false end) (w_log w).

Lemma afb_false w : afb w = false -> ~ AF w.
Proof.
  unfold afb, AF. intros H HE. apply Exists_exists in HE. destruct HE as [cr [Hin Hf]].
  assert (Ht : existsb (fun cr => match cr with (CAccess _, RFault _) => true | _ => false end) (w_log w) = true).
  { apply existsb_exists. exists cr. split; [exact Hin|]. destruct cr as [[] []]; try contradiction; reflexivity. }
  congruence.
Qed.

Lemma afb_true w : afb w = true -> AF w.
Proof.
  unfold afb, AF. intros H. apply existsb_exists in H. destruct H as [cr [Hin Hb]].
  apply Exists_exists. exists cr. split; [exact Hin|].
  destruct cr as [[] []]; try discriminate; exact I.
Qed.

From Coq Require Import String.

Module Crash2Example.
  Import SP.SnapshotExample.
  Import CrashExample.

  (* The world of SnapshotProofs.SnapshotExample: store /s, project store /ps,
     unstable tree /u, queue /q, journal /j (inode 8).  The project /w/proj has
     a.txt and src/b.c; its members were written and stored earlier, so the
     unstable tree /u/proj holds hard links to the stored versions of a.txt
     (inode 1) and src/b.c (inode 2), and also src/gone.c and old/x.c, which the
     project no longer has.  The project entry /w/proj (flags 1) is queued as
     /q/0; the clock is 100, so the snapshot wants the name /ps/proj/100 (D0). *)

  Lemma cfg0_disjoint : disjoint_locs cfg0.
  Proof. apply disjoint_locsb_ok. vm_compute. reflexivity. Qed.

  Lemma fs0_nodup : keys_nodup fs0.
  Proof. apply SP.keys_nodup_check. vm_compute. reflexivity. Qed.

  Lemma fs0_clean : qclean (lit "/q") fs0.
  Proof.
    split; [discriminate|]. intros p Hd Hr Hl.
    assert (Hin : In p (map fst (fs_dents fs0))).
    { destruct (str_in_dec p (map fst (fs_dents fs0))) as [H|H]; [exact H|].
      exfalso. apply Hl. rewrite (lookup_nonroot _ _ Hr). apply notin_alookup_none. exact H. }
    vm_compute in Hin.
    repeat (destruct Hin as [Hin|Hin]; [subst p; try (vm_compute in Hd; discriminate Hd)|]);
      try contradiction.
    exists 0%N. vm_compute. reflexivity.
  Qed.

  Example hyps_hold :
    disjoint_locs (h_cfg h0) /\
    qdir_ok2 (h_cfg h0) (q_dir (h_q h0)) /\
    SI (h_cfg h0) (h_journal h0) (w_fs w0) /\
    keys_nodup (w_fs w0) /\
    qclean (q_dir (h_q h0)) (w_fs w0) /\
    QRel (h_q h0) (w_fs w0) [(Pn, 1%N, 0%Z)] /\
    count_paths Pn [(Pn, 1%N, 0%Z)] = 1 /\ N.odd 1 = true /\
    snapshot_name_free w0 h0 Pn 0.
  Proof.
    split; [exact cfg0_disjoint|]. split; [apply (qdir_ok2_queue cfg0 cfg0_disjoint)|].
    split; [apply SIb_ok; vm_compute; reflexivity|].
    split; [exact fs0_nodup|]. split; [exact fs0_clean|]. split; [exact queue_rel|].
    split; [vm_compute; reflexivity|]. split; [reflexivity|].
    exact (project_head_due_names _ _ _ _ _ _ _ _ (head_due no_faults no_faults_benign)).
  Qed.

  (* the theorem, instantiated: for every honest oracle whose run does not fail
     an access probe, if /q/0 is gone then /ps/proj/100 is the complete snapshot *)
  Example every_honest_oracle (o : oracle) (rev : bool) : honest o ->
    let res := handle_timeout rev h0 o w0 in
    let f' := w_fs (snd res) in
    ~ AF (snd res) ->
    lookup f' (lit "/q/0") = None ->
    lookup f' D0 = Some NDir /\
    lookup f' (lit "/ps/proj/100/a.txt") = Some (NFile 1) /\
    lookup f' (lit "/ps/proj/100/src") = Some NDir /\
    lookup f' (lit "/ps/proj/100/src/b.c") = Some (NFile 2) /\
    lookup f' (lit "/ps/proj/100/src/gone.c") = None /\
    lookup f' (lit "/ps/proj/100/old") = None /\
    forall r, lookup f' (D0 ++ ch_slash :: r)%list = SP.snap fs0 Un Pn r.
  Proof.
    intros Ho res f' Hnaf Hgone. subst res f'.
    destruct hyps_hold as [D [Hd [HS [Hnd [Hcl [HR [Hc [Hp HN]]]]]]]].
    destruct (crash_project_pop_after_snapshot o w0 rev h0 Pn 1%N 0%Z [] 0
                Ho D Hd HS Hnd Hcl HR Hc Hp HN Hnaf Hgone) as [H1 H2].
    change (w_clock w0) with 100%Z in H1, H2. destruct names as [ED [EU _]]. rewrite ED in H1, H2.
    rewrite EU in H2. change (w_fs w0) with fs0 in H2.
    split; [exact H1|]. split; [exact (H2 (lit "a.txt"))|]. split; [exact (H2 (lit "src"))|].
    split; [exact (H2 (lit "src/b.c"))|]. split; [exact (H2 (lit "src/gone.c"))|].
    split; [exact (H2 (lit "old"))|]. exact H2.
  Qed.

  (* the same with a collision: /ps/proj/100 is taken, the snapshot goes to
     /ps/proj/100-1 (k = 1) *)
  Lemma fs1_clean : qclean (lit "/q") fs1.
  Proof.
    split; [discriminate|]. intros p Hd Hr Hl.
    assert (Hin : In p (map fst (fs_dents fs1))).
    { destruct (str_in_dec p (map fst (fs_dents fs1))) as [H|H]; [exact H|].
      exfalso. apply Hl. rewrite (lookup_nonroot _ _ Hr). apply notin_alookup_none. exact H. }
    vm_compute in Hin.
    repeat (destruct Hin as [Hin|Hin]; [subst p; try (vm_compute in Hd; discriminate Hd)|]);
      try contradiction.
    exists 0%N. vm_compute. reflexivity.
  Qed.

  Example every_honest_oracle_collision (o : oracle) (rev : bool) : honest o ->
    let res := handle_timeout rev h0 o w1 in
    let f' := w_fs (snd res) in
    ~ AF (snd res) ->
    lookup f' (lit "/q/0") = None ->
    lookup f' D1 = Some NDir /\
    lookup f' (lit "/ps/proj/100-1/a.txt") = Some (NFile 1) /\
    lookup f' (lit "/ps/proj/100-1/src/b.c") = Some (NFile 2) /\
    lookup f' (lit "/ps/proj/100-1/src/gone.c") = None.
  Proof.
    intros Ho res f' Hnaf Hgone. subst res f'.
    assert (D : disjoint_locs cfg0) by exact cfg0_disjoint.
    assert (HN : snapshot_name_free w1 h0 Pn 1)
      by exact (project_head_due_names _ _ _ _ _ _ _ _ (head_due_collision no_faults no_faults_benign)).
    destruct (crash_project_pop_after_snapshot o w1 rev h0 Pn 1%N 0%Z [] 1
                Ho D (qdir_ok2_queue cfg0 D)
                ltac:(apply SIb_ok; vm_compute; reflexivity)
                ltac:(apply SP.keys_nodup_check; vm_compute; reflexivity)
                fs1_clean queue_rel1 ltac:(vm_compute; reflexivity) eq_refl HN Hnaf Hgone) as [H1 H2].
    change (w_clock w1) with 100%Z in H1, H2. rewrite names1 in H1, H2.
    destruct names as [_ [EU _]]. rewrite EU in H2.
    split; [exact H1|]. split; [exact (H2 (lit "a.txt"))|].
    split; [exact (H2 (lit "src/b.c"))|]. exact (H2 (lit "src/gone.c")).
  Qed.

  (* ---------- the pass crashed / failed at every call index ---------- *)

  Definition final (o : oracle) : world := snd (handle_timeout false h0 o w0).
  Definition ffs (o : oracle) : fs := w_fs (final o).
  Definition died (o : oracle) : bool :=
    match fst (handle_timeout false h0 o w0) with None => true | Some _ => false end.

  Definition link_there (f : fs) : bool :=
    match lookup f (lit "/q/0") with Some _ => true | None => false end.

  (* what lies below /ps/proj/100, in directory order *)
  Definition below (f : fs) : list (str * node) :=
    filter (fun e => Str.under D0 (fst e)) (fs_dents f).

  Definition snapE : list (str * node) :=
    [(lit "/ps/proj/100/a.txt", NFile 1); (lit "/ps/proj/100/src", NDir);
     (lit "/ps/proj/100/src/b.c", NFile 2)].

  Definition snap_complete (f : fs) : bool :=
    match lookup f D0 with Some NDir => dents_eqb (below f) snapE | _ => false end.

  (* the fault-free pass issues 25 calls (fstatat, readlinkat; three mkdir, open,
     fts_open, then per entry of the walk an access probe and a linkat / mkdirat /
     unlink / rmdir; close; the journal line; readlinkat, unlinkat of /q/0) *)
  Example fault_free_pass :
    w_n (final no_faults) = 25 /\ died no_faults = false /\
    link_there (ffs no_faults) = false /\ snap_complete (ffs no_faults) = true /\
    afb (final no_faults) = false.
  Proof. vm_compute. repeat split. Qed.

  (* a crash before EVERY one of the 25 calls (and no crash: index 25): the
     project link is still there, or the snapshot is complete; the link goes
     only at the very last call *)
  Example crash_at_every_call :
    forallb (fun k => link_there (ffs (crash_at k)) || snap_complete (ffs (crash_at k))) (seq 0 26) = true /\
    forallb (fun k => died (crash_at k)) (seq 0 25) = true /\
    forallb (fun k => link_there (ffs (crash_at k))) (seq 0 25) = true /\
    (* the snapshot directory is incomplete from the mkdir (call 4) up to the last linkat ... *)
    map (fun k => snap_complete (ffs (crash_at k))) [4; 5; 9; 16; 17; 18; 24] =
      [false; false; false; false; false; true; true] /\
    (* ... and a crashed pass leaves the partial directory behind under the version name *)
    map (fun k => List.length (below (ffs (crash_at k)))) [4; 5; 9; 16; 17; 18] = [0; 0; 1; 2; 2; 3].
  Proof. vm_compute. repeat split. Qed.

  (* a failing call (EIO) at every index, and a failing call followed by a crash
     at every later index: link still there, or snapshot complete, or a failed
     access probe is in the log *)
  Definition inv3 (o : oracle) : bool :=
    link_there (ffs o) || snap_complete (ffs o) || afb (final o).

  Example fail_at_every_call :
    forallb (fun k => inv3 (fail_at k EIO)) (seq 0 26) = true /\
    forallb (fun k => forallb (fun j => inv3 (fail_then_crash k j EIO)) (seq 0 28)) (seq 0 26) = true /\
    (* without the access probes, plainly: link there or snapshot complete *)
    forallb (fun k => link_there (ffs (fail_at k EIO)) || snap_complete (ffs (fail_at k EIO)))
            [0; 1; 2; 3; 4; 5; 6; 8; 11; 13; 15; 17; 19; 21; 22; 23; 24] = true /\
    (* a failed close (call 21) is ignored: the snapshot is complete and the entry is popped *)
    link_there (ffs (fail_at 21 EIO)) = false /\ snap_complete (ffs (fail_at 21 EIO)) = true.
  Proof. vm_compute. repeat split. Qed.

  (* a restart after ANY behaviour of the pass in which /q/0 survived *)
  Example every_oracle_restart (o o2 : oracle) (rev : bool) (w2 : world) :
    SyncProofs.benign o2 -> tr_ok (w_tr w2) = true ->
    w_fs w2 = w_fs (snd (handle_timeout rev h0 o w0)) ->
    lookup (w_fs w2) (lit "/q/0") <> None ->
    exists q2 w2', load_linq (lit "/q") 0%Z 16 o2 w2 = (Some (Some q2), w2') /\
                   QRel q2 (w_fs w2') [(Pn, 1%N, 0%Z)].
  Proof.
    intros Ho2 Hok2 Ef Hthere.
    destruct hyps_hold as [D [Hd [HS [Hnd [Hcl [HR _]]]]]].
    assert (Hg : Forall (fits 16) [(Pn, 1%N, 0%Z)]).
    { constructor; [|constructor]. unfold fits. apply QueueExample.fits_small. vm_compute. lia. }
    destruct (crash_restart_after_project o w0 rev h0 Pn 1%N 0%Z [] o2 w2 0%Z 16
                D Hd HS Hnd Hcl HR Hg Ho2 Hok2 Ef Hthere) as [q2 [w2' [H1 [H2 _]]]].
    exists q2, w2'. auto.
  Qed.

  (* ---------- why the conditions on the oracle are needed ---------- *)

  (* no complete snapshot under ANY of the candidate names *)
  Definition no_snapshot (f : fs) : Prop :=
    ~ (lookup f D0 = Some NDir /\ lookup f (lit "/ps/proj/100/a.txt") = Some (NFile 1)).

  (* (a) an access(2) probe made to fail with EIO (call 7: the probe for a.txt)
         is read as "the project no longer has a.txt": the oracle IS honest, the
         entry is popped, but a.txt is missing from the snapshot AND its hard
         link is removed from the unstable tree.  sync.c: `if (!access(..))`. *)
  Definition o_access : oracle := fail_at 7 EIO.
  Lemma pop_after_snapshot_refuted_failed_access :
    honest o_access /\ AF (final o_access) /\
    link_there (ffs o_access) = false /\ no_snapshot (ffs o_access) /\
    lookup (ffs o_access) (lit "/ps/proj/100/src/b.c") = Some (NFile 2) /\
    lookup fs0 (lit "/u/proj/a.txt") = Some (NFile 1) /\
    lookup (ffs o_access) (lit "/u/proj/a.txt") = None /\
    w_tr (final o_access) = tr_empty.
  Proof.
    split; [intros i; unfold o_access, fail_at; destruct (Nat.eqb i 7); cbn; repeat split; discriminate|].
    split; [apply afb_true; vm_compute; reflexivity|].
    split; [vm_compute; reflexivity|].
    split; [intros [_ H]; vm_compute in H; discriminate H|].
    repeat split; vm_compute; reflexivity.
  Qed.

  (* (b) three injected EEXIST on the mkdir of the snapshot directory exhaust
         the fuel of the name search (a model device: the C loop is unbounded) *)
  Definition o_eexist2 : oracle := fault_list [(4, FFail EEXIST); (6, FFail EEXIST); (8, FFail EEXIST)].
  Lemma pop_after_snapshot_refuted_eexist :
    ~ honest o_eexist2 /\ afb (final o_eexist2) = false /\
    link_there (ffs o_eexist2) = false /\ no_snapshot (ffs o_eexist2).
  Proof.
    split; [intros H; specialize (H 4); cbn in H; tauto|].
    split; [vm_compute; reflexivity|]. split; [vm_compute; reflexivity|].
    intros [H _]. vm_compute in H. discriminate H.
  Qed.

  (* (c) an injected ENOENT on fts_open is "the project was deleted" *)
  Definition o_enoent2 : oracle := fault_list [(6, FFail ENOENT)].
  Lemma pop_after_snapshot_refuted_enoent :
    ~ honest o_enoent2 /\ afb (final o_enoent2) = false /\
    link_there (ffs o_enoent2) = false /\ no_snapshot (ffs o_enoent2).
  Proof.
    split; [intros H; specialize (H 6); cbn in H; tauto|].
    split; [vm_compute; reflexivity|]. split; [vm_compute; reflexivity|].
    intros [_ H]. vm_compute in H. discriminate H.
  Qed.

  (* (c') an injected EACCES on fts_open is "the project is forbidden" *)
  Definition o_eacces2 : oracle := fault_list [(6, FFail EACCES)].
  Lemma pop_after_snapshot_refuted_eacces :
    ~ honest o_eacces2 /\ afb (final o_eacces2) = false /\
    link_there (ffs o_eacces2) = false /\ no_snapshot (ffs o_eacces2).
  Proof.
    split; [intros H; specialize (H 6); cbn in H; tauto|].
    split; [vm_compute; reflexivity|]. split; [vm_compute; reflexivity|].
    intros [_ H]. vm_compute in H. discriminate H.
  Qed.

End Crash2Example.

Print Assumptions Crash2Example.hyps_hold.
Print Assumptions Crash2Example.every_honest_oracle.
Print Assumptions Crash2Example.every_honest_oracle_collision.
Print Assumptions Crash2Example.crash_at_every_call.
Print Assumptions Crash2Example.fail_at_every_call.
Print Assumptions Crash2Example.every_oracle_restart.
Print Assumptions Crash2Example.pop_after_snapshot_refuted_failed_access.
Print Assumptions Crash2Example.pop_after_snapshot_refuted_eexist.
Print Assumptions Crash2Example.pop_after_snapshot_refuted_enoent.
Print Assumptions Crash2Example.pop_after_snapshot_refuted_eacces.
